import random
random.seed(3)
from fontTools.merge.cmap import computeMegaGlyphOrder
class M: pass
bad=[]
pool=["a","a.1","a.2","a.1.1","b","b.1",".notdef","a.10","a.3"]
for it in range(20000):
    orders=[[random.choice(pool) for _ in range(random.randint(1,6))] for _ in range(random.randint(1,4))]
    # each font's own glyph order must be unique
    orders=[list(dict.fromkeys(o)) for o in orders]
    orig=[list(o) for o in orders]
    m=M(); computeMegaGlyphOrder(m,orders)
    flat=[g for o in orders for g in o]
    if len(set(flat))!=len(flat) or m.glyphOrder!=flat: bad.append((orig,orders))
print(len(bad),bad[:2])
