import random
from fractions import Fraction as F
random.seed(6)
from fontTools.designspaceLib import AxisDescriptor
bad=[]
for it in range(5000):
    n=random.randint(2,6)
    us=sorted(random.sample(range(0,1000),n)); ds=sorted(random.sample(range(0,1000),n))
    a=AxisDescriptor(); a.minimum=us[0]; a.maximum=us[-1]; a.default=random.choice(us); a.name='w'; a.tag='wght'
    a.map=[(F(u),F(d)) for u,d in zip(us,ds)]
    for _ in range(10):
        u=F(random.randint(us[0]*4-40,us[-1]*4+40),4)
        d=a.map_forward(u); u2=a.map_backward(d)
        if u2!=u: bad.append((a.map,u,d,u2)); break
        d0=F(random.randint(ds[0]*4-40,ds[-1]*4+40),4)
        if a.map_forward(a.map_backward(d0))!=d0: bad.append(("bf",a.map,d0)); break
print(len(bad),bad[:2])
# filenames uniqueness and legality (ufoLib)
from fontTools.ufoLib.filenames import userNameToFileName, illegalCharacters, reservedFileNames
import string
bad=[]
alphabet="aAbB._ \"*:con.1éİ"
for it in range(3000):
    ex=set(); names=[]
    for k in range(random.randint(1,12)):
        nm="".join(random.choice(alphabet) for _ in range(random.choice([1,2,3,5,8,130,260])))
        if not nm: continue
        try: fn=userNameToFileName(nm,existing=ex,suffix=".glif")
        except Exception as e: bad.append(("exc",nm[:20],type(e).__name__)); continue
        if fn.lower() in ex: bad.append(("dup",nm[:20]))
        if len(fn)>255: bad.append(("len",len(fn),nm[:20]))
        if any(ch in illegalCharacters for ch in fn): bad.append(("illegal",nm[:20],fn[:20]))
        ex.add(fn.lower())
import collections
print(collections.Counter(b[0] for b in bad), bad[:3])
