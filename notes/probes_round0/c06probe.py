import io, random, logging, sys
logging.disable(logging.CRITICAL)
random.seed(5)
from fontTools.fontBuilder import FontBuilder
from fontTools.pens.ttGlyphPen import TTGlyphPen
from fontTools.feaLib.builder import addOpenTypeFeaturesFromString
from fontTools.ttLib import TTFont
import uharfbuzz as hb
N=700
names=[".notdef"]+["g%d"%i for i in range(N)]
def mk(level, repack, fea):
    fb=FontBuilder(1000,isTTF=True); fb.setupGlyphOrder(names)
    fb.setupCharacterMap({0xE000+i:"g%d"%i for i in range(N)})
    pen=TTGlyphPen(None); pen.moveTo((0,0)); pen.lineTo((100,0)); pen.lineTo((100,100)); pen.closePath(); g=pen.glyph()
    fb.setupGlyf({n:g for n in names}); fb.setupHorizontalMetrics({n:(500,0) for n in names})
    fb.setupHorizontalHeader(ascent=800,descent=-200); fb.setupNameTable({"familyName":"T","styleName":"R"}); fb.setupOS2(); fb.setupPost()
    f=fb.font
    f.cfg["fontTools.otlLib.optimize.gpos:COMPRESSION_LEVEL"]=level
    f.cfg["fontTools.ttLib.tables.otBase:USE_HARFBUZZ_REPACKER"]=repack
    addOpenTypeFeaturesFromString(f,fea)
    b=io.BytesIO(); f.save(b); return b.getvalue()
# class kerning: singletons classes => NxN matrix
L=list(range(0,N,2))[:260]; R=list(range(1,N,2))[:260]
kern={}
lines=[]
for a in L:
    for b in random.sample(R,40):
        v=random.choice([-10,-20,-30,15,25]); kern[(a,b)]=v
# class-based: group by left glyph
fea="feature kern {\n"
for a in L:
    # one rule per (a, value-class)
    byv={}
    for (x,b),v in kern.items():
        if x==a: byv.setdefault(v,[]).append(b)
    for v,bs in byv.items():
        fea+="  pos [g%d] [%s] %d;\n"%(a," ".join("g%d"%b for b in bs),v)
fea+="} kern;\n"
def shape(data,a,b):
    face=hb.Face(data); font=hb.Font(face); buf=hb.Buffer(); buf.add_codepoints([0xE000+a,0xE000+b]); buf.guess_segment_properties(); hb.shape(font,buf,{"kern":True})
    return buf.glyph_positions[0].x_advance-500
res={}
for level in (0,):
    for repack in (False,None):
        try:
            data=mk(level,repack,fea)
        except Exception as e:
            print(level,repack,type(e).__name__,str(e)[:100]); continue
        f=TTFont(io.BytesIO(data)); lk=f["GPOS"].table.LookupList.Lookup
        bad=0
        pairs=list(kern.items())
        for (a,b),v in random.sample(pairs,400):
            if shape(data,a,b)!=v: bad+=1
        zero=0
        for _ in range(200):
            a=random.choice(L); b=random.choice(R)
            if (a,b) not in kern and shape(data,a,b)!=0: zero+=1
        print("level",level,"repack",repack,"size",len(data),"lookups",[(l.LookupType,len(l.SubTable)) for l in lk],"bad",bad,"nonzero-unexpected",zero)
