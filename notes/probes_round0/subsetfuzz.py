import io, random, logging, sys
logging.disable(logging.CRITICAL)
import shaperprobe as sp
from shaperprobe import base_font, names, rand_fea, hb_shape
from fontTools.feaLib.builder import addOpenTypeFeaturesFromString
from fontTools.ttLib import TTFont
from fontTools import subset
random.seed(99)
bad=[]; n=0; cls={}
for it in range(600):
    fea=rand_fea()
    f=base_font(); f.cfg["fontTools.otlLib.optimize.gpos:COMPRESSION_LEVEL"]=0
    try: addOpenTypeFeaturesFromString(f,fea)
    except Exception: continue
    b=io.BytesIO(); f.save(b); data=b.getvalue(); g=TTFont(io.BytesIO(data))
    keep=sorted(random.sample(range(1,len(names)),random.randint(2,8)))
    h=TTFont(io.BytesIO(data))
    o=subset.Options(); o.layout_features=['*']; o.glyph_names=True; o.notdef_outline=True
    s=subset.Subsetter(o); s.populate(unicodes=[0xE000+i for i in keep])
    try: s.subset(h)
    except Exception as e: bad.append((fea,keep,type(e).__name__,str(e)[:80])); continue
    b2=io.BytesIO(); h.save(b2); d2=b2.getvalue(); h2=TTFont(io.BytesIO(d2))
    kn=[names[i] for i in keep]
    for _ in range(30):
        seq=[random.choice(kn) for _ in range(random.randint(1,5))]
        a=hb_shape(data,g,seq)
        # subset font: map names -> codepoints same (PUA cmap kept)
        import uharfbuzz as hb
        face=hb.Face(d2); ff=hb.Font(face); buf=hb.Buffer()
        buf.add_codepoints([0xE000+names.index(x) for x in seq]); buf.direction='LTR'; buf.script='DFLT'; buf.language='dflt'
        hb.shape(ff,buf,{"test":True,"kern":False,"liga":False,"calt":False,"clig":False})
        c=[(h2.getGlyphName(i.codepoint),p.x_advance,p.x_offset,p.y_offset) for i,p in zip(buf.glyph_infos,buf.glyph_positions)]
        n+=1
        if a!=c: bad.append((fea,kn,seq,a,c)); break
print(n,len(bad))
for b in bad[:6]:
    print("----"); 
    for x in b: print(x)
