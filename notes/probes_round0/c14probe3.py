import random
random.seed(5)
from fontTools.pens.recordingPen import RecordingPen
from fontTools.pens.reverseContourPen import ReverseContourPen
from fontTools.pens.areaPen import AreaPen
from fontTools.pens.basePen import BasePen
from fractions import Fraction as F
class Geom(BasePen):
    def __init__(s): BasePen.__init__(s,None); s.segs=[]; s.cur=None; s.start=None; s.contours=[]
    def _moveTo(s,p): s.cur=p; s.start=p; s.segs=[]; 
    def _lineTo(s,p):
        s.segs.append(("L",s.cur,p)); s.cur=p
    def _curveToOne(s,a,b,c): s.segs.append(("C",s.cur,a,b,c)); s.cur=c
    def _qCurveToOne(s,a,b): s.segs.append(("Q",s.cur,a,b)); s.cur=b
    def _closePath(s):
        if s.cur!=s.start: s.segs.append(("L",s.cur,s.start))
        s.contours.append(("closed",[x for x in s.segs if not (x[0]=="L" and x[1]==x[2])])); s.segs=[]
    def _endPath(s): s.contours.append(("open",list(s.segs))); s.segs=[]
def rp(): return (F(random.randint(-3,3)),F(random.randint(-3,3)))
def rand_contour():
    ops=[]
    closed=random.random()<0.7
    kind=random.random()
    if closed and kind<0.1:
        n=random.randint(2,5); ops.append(("qCurveTo",tuple(rp() for _ in range(n))+(None,))); ops.append(("closePath",())); return ops
    ops.append(("moveTo",(rp(),)))
    for i in range(random.randint(0,5)):
        k=random.choice(["lineTo","curveTo","qCurveTo","curveTo3"])
        if k=="lineTo": ops.append(("lineTo",(rp(),)))
        elif k=="curveTo": ops.append(("curveTo",(rp(),rp(),rp())))
        elif k=="curveTo3": ops.append(("curveTo",tuple(rp() for _ in range(random.randint(4,5)))))
        else: ops.append(("qCurveTo",tuple(rp() for _ in range(random.randint(2,4)))))
    ops.append(("closePath" if closed else "endPath",()))
    return ops
def replay(ops,pen):
    for op,a in ops: getattr(pen,op)(*a)
def rev_seg(s):
    return (s[0],)+tuple(reversed(s[1:]))
def close(a,b):
    if len(a)!=len(b): return False
    for x,y in zip(a,b):
        if x[0]!=y[0] or len(x)!=len(y): return False
        for p,q in zip(x[1:],y[1:]):
            if abs(float(p[0])-float(q[0]))>1e-9 or abs(float(p[1])-float(q[1]))>1e-9: return False
    return True
def rot_eq(a,b):
    if len(a)!=len(b): return False
    if not a: return True
    return any(close(a[i:]+a[:i],b) for i in range(len(a)))
bad=[]
for it in range(30000):
    ops=rand_contour()
    for oicl in (False,True):
        try:
            g=Geom(); replay(ops,g)
            rec=RecordingPen(); rp_=ReverseContourPen(rec,outputImpliedClosingLine=oicl); replay(ops,rp_)
            g2=Geom(); replay(rec.value,g2)
            (t1,s1),(t2,s2)=g.contours[0],g2.contours[0]
            exp=[rev_seg(s) for s in reversed(s1)]
            ok = t1==t2 and (rot_eq(exp,s2) if t1=="closed" else close(exp,s2))
            if not ok: bad.append((ops,rec.value,oicl)); continue
            if t1=="closed":
                a1=AreaPen(); replay(ops,a1); a2=AreaPen(); replay(rec.value,a2)
                if abs(a1.value+a2.value)>1e-9: bad.append(("area",ops,a1.value,a2.value))
        except Exception as e: bad.append((ops,type(e).__name__,str(e)))
bad=[b for b in bad if not (len(b[0])==2 and b[0][0][0]=='moveTo')]
print(len(bad))
for b in bad[:4]: print(b)
