import itertools, collections
from fontTools.ttLib.ttFont import tagToXML, xmlToTag, tagToIdentifier, identifierToTag
chars = [chr(c) for c in range(0x20,0x7f)]
bad_xml=[]; bad_id=[]; n=0
import random
random.seed(1)
alpha = " a1A_/-.~"
for t in itertools.product(alpha, repeat=4):
    tag="".join(t); n+=1
    try:
        x=tagToXML(tag); r=xmlToTag(x)
        if r!=tag: bad_xml.append((tag,x,str(r)))
    except Exception as e: bad_xml.append((tag,type(e).__name__))
    try:
        i=tagToIdentifier(tag); r=identifierToTag(i)
        if r!=tag: bad_id.append((tag,i,str(r)))
    except Exception as e: bad_id.append((tag,type(e).__name__))
print(n,len(bad_xml),bad_xml[:12]); print(len(bad_id),bad_id[:12])
