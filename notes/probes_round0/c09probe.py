import random, itertools
random.seed(11)
from fractions import Fraction as F
from fontTools.varLib.models import VariationModel, supportScalar
vals=[F(-1),F(-3,4),F(-1,2),F(-1,4),F(1,4),F(1,2),F(3,4),F(1)]
axes="abcd"
bad=[]; n=0
for it in range(20000):
    na=random.randint(1,4)
    locs=[{}]
    for _ in range(random.randint(1,8)):
        loc={}
        for a in axes[:na]:
            if random.random()<0.5: loc[a]=random.choice(vals)
        if loc not in locs: locs.append(loc)
    random.shuffle(locs)
    try:
        m=VariationModel(locs)
    except Exception as e:
        bad.append((locs,type(e).__name__,str(e))); continue
    ms=[F(random.randint(-100,100)) for _ in locs]
    d=m.getDeltas(ms)
    for l,v in zip(locs,ms):
        r=m.interpolateFromDeltas(l,d)
        r=0 if r is None else r
        if abs(float(r)-float(v))>1e-9: bad.append((locs,ms,l,float(r),float(v))); break
    # master scalars equivalence at random location
    loc={a:random.choice(vals+[F(0),F(1,3)]) for a in axes[:na]}
    r1=m.interpolateFromDeltas(loc,d); r2=m.interpolateFromMasters(loc,ms)
    r1=0 if r1 is None else r1; r2=0 if r2 is None else r2
    if abs(float(r1)-float(r2))>1e-9: bad.append(("ms",locs,loc,float(r1),float(r2)))
    n+=1
print(n,len(bad))
for b in bad[:5]: print(b)
