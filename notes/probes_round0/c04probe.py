import io, glob, struct, collections, os, logging
logging.disable(logging.CRITICAL)
from fontTools.ttLib import TTFont
def cks(b):
    b=b+b'\0'*((4-len(b)%4)%4)
    return sum(struct.unpack(">%dL"%(len(b)//4),b))&0xFFFFFFFF
def check(data):
    errs=[]
    ver,n,sr,es,rs=struct.unpack(">4sHHHH",data[:12])
    e=0
    while (1<<(e+1))<=n: e+=1
    if n and (sr,es,rs)!=(16*(1<<e),e,16*n-16*(1<<e)): errs.append(("search",n,sr,es,rs))
    ents=[struct.unpack(">4sLLL",data[12+16*i:28+16*i]) for i in range(n)]
    tags=[t for t,_,_,_ in ents]
    if tags!=sorted(tags): errs.append("dir-order")
    spans=sorted((o,o+l,t) for t,c,o,l in ents)
    pos=12+16*n
    for o,e2,t in spans:
        if o%4: errs.append(("align",t))
        if o<pos: errs.append(("overlap",t))
        if any(data[pos:o]): errs.append(("gap-nonzero",t))
        pos=e2
    if any(data[pos:]) or len(data)-pos>3: errs.append(("tail",len(data)-pos))
    for t,c,o,l in ents:
        d=data[o:o+l]
        if t==b'head': d=d[:8]+b'\0\0\0\0'+d[12:]
        if cks(d)!=c: errs.append(("cksum",t))
    if b'head' in tags and cks(data)!=0xB1B0AFBA: errs.append(("master",hex(cks(data))))
    return errs
files=[]
for ext in ("ttf","otf"): files+=glob.glob('/repo/Tests/**/*.'+ext, recursive=True)
c=collections.Counter(); ex=[]
for fn in sorted(files):
    for reorder in (True,False,None):
        try:
            f=TTFont(fn,recalcTimestamp=False); b=io.BytesIO(); f.save(b,reorderTables=reorder)
            e=check(b.getvalue())
            if e: c['bad']+=1; ex.append((os.path.basename(fn),reorder,e[:3]))
            else: c['ok']+=1
        except Exception as e2: c[type(e2).__name__]+=1
print(dict(c)); print(ex[:10])
