import io, random, logging
logging.disable(logging.CRITICAL)
from fontTools.fontBuilder import FontBuilder
from fontTools.pens.ttGlyphPen import TTGlyphPen
from fontTools.feaLib.builder import addOpenTypeFeaturesFromString
from fontTools.ttLib import TTFont
import uharfbuzz as hb
random.seed(12)
NG=12
names=[".notdef"]+["g%d"%i for i in range(1,NG+1)]
def base_font():
    fb=FontBuilder(1000,isTTF=True); fb.setupGlyphOrder(names)
    fb.setupCharacterMap({0xE000+i:names[i] for i in range(1,NG+1)})
    pen=TTGlyphPen(None); pen.moveTo((0,0)); pen.lineTo((100,0)); pen.lineTo((100,100)); pen.closePath(); g=pen.glyph()
    fb.setupGlyf({n:g for n in names}); fb.setupHorizontalMetrics({n:(500,0) for n in names})
    fb.setupHorizontalHeader(ascent=800,descent=-200); fb.setupNameTable({"familyName":"T","styleName":"R"}); fb.setupOS2(); fb.setupPost()
    return fb.font
def gname(): return random.choice(names[1:])
def gclass(k=None):
    k=k or random.randint(1,3); return "["+" ".join(sorted(set(gname() for _ in range(k))))+"]"
def rand_fea():
    lookups=[]
    n=random.randint(1,4)
    body=""
    for li in range(n):
        kind=random.choice(["single","multiple","ligature","pair","classpair","singlepos"])
        rules=[]
        if kind=="single":
            seen=set()
            for _ in range(random.randint(1,4)):
                a=gname()
                if a in seen: continue
                seen.add(a); rules.append("sub %s by %s;"%(a,gname()))
        elif kind=="multiple":
            seen=set()
            for _ in range(random.randint(1,3)):
                a=gname()
                if a in seen: continue
                seen.add(a); rules.append("sub %s by %s;"%(a," ".join(gname() for _ in range(random.randint(2,3)))))
        elif kind=="ligature":
            seen=set()
            for _ in range(random.randint(1,4)):
                comps=tuple(gname() for _ in range(random.randint(2,3)))
                if comps in seen: continue
                seen.add(comps); rules.append("sub %s by %s;"%(" ".join(comps),gname()))
        elif kind=="pair":
            seen=set()
            for _ in range(random.randint(1,5)):
                a,b=gname(),gname()
                if (a,b) in seen: continue
                seen.add((a,b))
                if random.random()<0.3: rules.append("pos %s <%d 0 %d 0> %s <%d 0 %d 0>;"%(a,random.randint(-9,9),random.randint(-50,50),b,random.randint(-9,9),random.randint(-50,50)))
                else: rules.append("pos %s %s %d;"%(a,b,random.randint(-50,50)))
        elif kind=="classpair":
            for _ in range(random.randint(1,4)):
                rules.append("pos %s %s %d;"%(gclass(),gclass(),random.randint(-50,50)))
                if random.random()<0.2: rules.append("subtable;")
        else:
            seen=set()
            for _ in range(random.randint(1,3)):
                a=gname()
                if a in seen: continue
                seen.add(a); rules.append("pos %s <%d 0 %d 0>;"%(a,random.randint(-9,9),random.randint(-50,50)))
        if not rules: continue
        body+="  lookup L%d {\n    %s\n  } L%d;\n"%(li,"\n    ".join(rules),li)
    return "feature test {\n"+body+"} test;\n"

# ---- mini shaper over decompiled otTables (reference for Shaper.v) ----
def val(v):
    if v is None: return (0,0,0,0)
    return (getattr(v,"XPlacement",0) or 0, getattr(v,"YPlacement",0) or 0, getattr(v,"XAdvance",0) or 0, getattr(v,"YAdvance",0) or 0)
def addv(p,v): return tuple(a+b for a,b in zip(p,v))
def apply_gsub_lookup(lk, seq):
    out=list(seq); i=0
    while i<len(out):
        applied=False
        for st in lk.SubTable:
            if lk.LookupType==7: st=st.ExtSubTable
            t=st.LookupType if hasattr(st,'LookupType') else lk.LookupType
            g=out[i]
            if t==1:
                if g in st.mapping: out[i]=st.mapping[g]; i+=1; applied=True; break
            elif t==2:
                if g in st.mapping:
                    rep=st.mapping[g]; out[i:i+1]=rep; i+=len(rep); applied=True; break
            elif t==4:
                if g in st.ligatures:
                    hit=None
                    for lig in st.ligatures[g]:
                        comp=lig.Component
                        if out[i+1:i+1+len(comp)]==list(comp): hit=lig; break
                    if hit is not None:
                        out[i:i+1+len(hit.Component)]=[hit.LigGlyph]; i+=1; applied=True; break
        if not applied: i+=1
    return out
def apply_gpos_lookup(lk, seq, pos):
    i=0
    while i<len(seq):
        applied=False
        for st in lk.SubTable:
            if lk.LookupType==9: st=st.ExtSubTable
            t=st.LookupType
            g=seq[i]
            if t==1:
                if g in st.Coverage.glyphs:
                    v=st.Value if st.Format==1 else st.Value[st.Coverage.glyphs.index(g)]
                    pos[i]=addv(pos[i],val(v)); i+=1; applied=True; break
            elif t==2:
                if g in st.Coverage.glyphs and i+1<len(seq):
                    h=seq[i+1]
                    if st.Format==1:
                        ps=st.PairSet[st.Coverage.glyphs.index(g)]
                        rec=[r for r in ps.PairValueRecord if r.SecondGlyph==h]
                        if rec:
                            r=rec[0]; pos[i]=addv(pos[i],val(r.Value1)); pos[i+1]=addv(pos[i+1],val(r.Value2))
                            i+= 2 if st.ValueFormat2 else 1; applied=True; break
                    else:
                        c1=st.ClassDef1.classDefs.get(g,0); c2=st.ClassDef2.classDefs.get(h,0)
                        if c1<len(st.Class1Record) and c2<len(st.Class1Record[c1].Class2Record):
                            r=st.Class1Record[c1].Class2Record[c2]
                            pos[i]=addv(pos[i],val(r.Value1)); pos[i+1]=addv(pos[i+1],val(r.Value2))
                            i+= 2 if st.ValueFormat2 else 1; applied=True; break
        if not applied: i+=1
def mini_shape(font, seq):
    out=list(seq)
    if "GSUB" in font:
        for lk in font["GSUB"].table.LookupList.Lookup: out=apply_gsub_lookup(lk,out)
    pos=[(0,0,0,0)]*len(out)
    if "GPOS" in font:
        for lk in font["GPOS"].table.LookupList.Lookup: apply_gpos_lookup(lk,out,pos)
    return [(g,500+p[2],p[0],p[1]) for g,p in zip(out,pos)]
def hb_shape(data, font, seq):
    face=hb.Face(data); f=hb.Font(face); buf=hb.Buffer()
    buf.add_codepoints([0xE000+names.index(g) for g in seq]); buf.direction='LTR'; buf.script='DFLT'; buf.language='dflt'
    hb.shape(f,buf,{"test":True,"kern":False,"liga":False,"calt":False,"clig":False,"mark":False,"mkmk":False})
    return [(font.getGlyphName(i.codepoint),p.x_advance,p.x_offset,p.y_offset) for i,p in zip(buf.glyph_infos,buf.glyph_positions)]
bad=[]; n=0; errs=0
for it in range(400):
    fea=rand_fea()
    f=base_font()
    f.cfg["fontTools.otlLib.optimize.gpos:COMPRESSION_LEVEL"]=0
    try: addOpenTypeFeaturesFromString(f,fea)
    except Exception as e: errs+=1; continue
    b=io.BytesIO(); f.save(b); data=b.getvalue(); g=TTFont(io.BytesIO(data))
    for _ in range(25):
        seq=[gname() for _ in range(random.randint(1,6))]
        a=mini_shape(g,seq); h=hb_shape(data,g,seq); n+=1
        if a!=h: bad.append((fea,seq,a,h)); break
print(n,errs,len(bad))
for b in bad[:3]:
    print(b[0]); print(b[1]); print(b[2]); print(b[3])
