import random
random.seed(3)
from fontTools.cffLib.specializer import specializeCommands, generalizeCommands, commandsToProgram, programToCommands, specializeProgram, generalizeProgram
from fontTools.misc.psCharStrings import T2CharString
from fontTools.pens.recordingPen import RecordingPen
class Priv: nominalWidthX=0; defaultWidthX=0
def draw(program):
    cs=T2CharString(program=list(program)+["endchar"], private=Priv()); cs.private=Priv()
    pen=RecordingPen(); cs.draw(pen); return pen.value, cs.width
def norm(val):
    out=[]; cur=None
    for op,args in val:
        if op=="moveTo": cur=args[0]; out.append((op,args))
        elif op=="lineTo":
            if args[0]==cur: continue
            cur=args[0]; out.append((op,args))
        elif op=="curveTo":
            if all(a==cur for a in args): continue
            # degenerate curve as line?
            cur=args[-1]; out.append((op,args))
        else: out.append((op,args))
    return out
def rv(): return random.choice([0,0,0,1,-1,5,-7,100,300,-1200])
bad=[]
for it in range(20000):
    cmds=[]
    n=random.randint(1,12)
    for i in range(n):
        k=random.choice(["rmoveto","rlineto","rlineto","rrcurveto","rrcurveto"])
        if i==0: k="rmoveto"
        cmds.append((k,[rv() for _ in range({"rmoveto":2,"rlineto":2,"rrcurveto":6}[k])]))
    prog=commandsToProgram(cmds)
    for pt in (False,True):
        try:
            sp=commandsToProgram(specializeCommands([(o,list(a)) for o,a in cmds], generalizeFirst=False, preserveTopology=pt, maxstack=random.choice([48,10,13,513])))
            a,_=draw(prog); b,_=draw(sp)
            ok = (a==b) if pt else (norm(a)==norm(b))
            if not ok: bad.append((cmds,sp,pt)); 
            g=generalizeProgram(sp)
            c,_=draw(g)
            if c!=b: bad.append(("gen",sp,g))
        except Exception as e:
            bad.append((cmds,type(e).__name__,str(e)))
print(len(bad)); 
for b in bad[:3]: print(b)
