import random, itertools, logging
logging.disable(logging.CRITICAL)
random.seed(31)
from fontTools.ttLib.tables.TupleVariation import TupleVariation
from fontTools.varLib.instancer import instantiateTupleVariationStore, NormalizedAxisLimits, NormalizedAxisTripleAndDistances as NATD
from fontTools.varLib.models import supportScalar
grid=[i/8 for i in range(-8,9)]
def rand_tent():
    while True:
        l,p,u=sorted(random.choice(grid) for _ in range(3))
        if p==0 or (l<0<u): continue
        if not((l<p or p<=-1) and (p<u or p>=1)): continue
        return (l,p,u)
def ev(vars_, loc, n):
    tot=[0.0]*n
    for v in vars_:
        s=supportScalar(loc,v.axes)
        if not s: continue
        for i,d in enumerate(v.coordinates): tot[i]+=s*d
    return tot
bad=[]; worst=0; cases=0
for it in range(3000):
    n=3
    nv=random.randint(1,5)
    vars_=[]
    for _ in range(nv):
        axes={}
        for a in "ab":
            if random.random()<0.7: axes[a]=rand_tent()
        if not axes: axes={"a":rand_tent()}
        vars_.append(TupleVariation(axes,[random.randint(-100,100) for _ in range(n)]))
    lims={}
    for a in "ab":
        if random.random()<0.8:
            mn,df,mx=sorted(random.choice(grid) for _ in range(3))
            lims[a]=NATD(mn,df,mx,random.choice([1.0,300.0]),random.choice([1.0,500.0]))
    if not lims: continue
    orig=[TupleVariation(dict(v.axes),list(v.coordinates)) for v in vars_]
    work=[TupleVariation(dict(v.axes),list(v.coordinates)) for v in vars_]
    try:
        dflt=instantiateTupleVariationStore(work, NormalizedAxisLimits(lims))
    except Exception as e:
        bad.append(("exc",type(e).__name__,str(e)[:80])); continue
    dflt=list(dflt) if len(dflt) else [0]*n
    cases+=1
    budget=0.5*len(work)+1e-6   # default deltas are returned unrounded
    # sample locations in old coords
    for _ in range(12):
        loc={}; nloc={}
        for a in "ab":
            if a in lims:
                L=lims[a]; x=random.choice([g for g in [i/64 for i in range(-64,65)] if L.minimum<=g<=L.maximum])
                loc[a]=x
                nx=L.renormalizeValue(x)
                if not (L.minimum==L.maximum): nloc[a]=nx
            else:
                x=random.choice(grid); loc[a]=x; nloc[a]=x
        want=ev(orig,loc,n)
        got=[d+e for d,e in zip(dflt,ev(work,nloc,n))]
        err=max(abs(a-b) for a,b in zip(want,got)); worst=max(worst,err/ (0.5*max(1,len(work))))
        if err>budget: bad.append((lims,loc,[ (v.axes,v.coordinates) for v in orig],want,got,len(work))); break
print(cases,len(bad),worst)
for b in bad[:3]: print(b)
