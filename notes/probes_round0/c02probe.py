import random, io, logging, array
logging.disable(logging.CRITICAL)
random.seed(8)
from fontTools.ttLib import TTFont, newTable
from fontTools.ttLib.tables._g_l_y_f import Glyph, GlyphCoordinates, flagOnCurve
from fontTools.ttLib.tables import ttProgram
bad=[]
def rc():
    return random.choice([0,0,1,-1,255,-255,256,-256,127,128,-128,32767,-32768,random.randint(-300,300),random.randint(-32768,32767)])
for it in range(4000):
    n=random.choice([1,2,3,5,10,254,255,256,257,258,300,600])
    # absolute coords such that deltas in int16: generate deltas then cumsum clipped
    xs=[];ys=[];x=y=0
    rep=random.random()<0.5
    for i in range(n):
        if rep and i>0 and random.random()<0.9: dx,dy=lastd
        else: dx,dy=rc(),rc()
        if not(-32768<=x+dx<=32767): dx=0
        if not(-32768<=y+dy<=32767): dy=0
        lastd=(dx,dy); x+=dx;y+=dy; xs.append(x);ys.append(y)
    flags=array.array('B',[random.choice([0,1,1,0x40|1,0x40]) if not rep else 1 for _ in range(n)])
    g=Glyph(); g.numberOfContours=1; g.endPtsOfContours=[n-1]
    g.coordinates=GlyphCoordinates(list(zip(xs,ys))); g.flags=flags
    g.program=ttProgram.Program(); g.program.fromBytecode(b"")
    for opt in (True,False):
        try:
            data=g.compileCoordinates(optimizeSize=opt)
            h=Glyph(); h.numberOfContours=1; h.decompileCoordinates(data)
            if list(h.coordinates)!=list(g.coordinates) or bytes(h.flags)!=bytes(bytearray(f&0x41 for f in flags)) or h.endPtsOfContours!=[n-1]:
                bad.append((n,opt,list(zip(xs,ys))[:5]))
        except Exception as e:
            bad.append((n,opt,type(e).__name__,str(e)[:80]))
print("glyf coords bad",len(bad),bad[:3])
# hmtx
from fontTools.ttLib.tables._h_m_t_x import table__h_m_t_x
bad=[]
for it in range(3000):
    n=random.choice([1,2,3,4,10,50])
    f=TTFont(); names=['g%d'%i for i in range(n)]; f.setGlyphOrder(names)
    f['maxp']=newTable('maxp'); f['maxp'].numGlyphs=n
    f['hhea']=newTable('hhea'); f['hhea'].numberOfHMetrics=0
    adv=[random.choice([0,500,500,500,65535,random.randint(0,65535)]) for _ in range(n)]
    if random.random()<0.5:
        k=random.randint(0,n); adv[k:]=[adv[k-1] if k>0 else 500]*(n-k)
    sb=[random.choice([0,-32768,32767,random.randint(-500,500)]) for _ in range(n)]
    t=table__h_m_t_x(); t.metrics={nm:(a,s) for nm,a,s in zip(names,adv,sb)}
    try:
        d=t.compile(f); u=table__h_m_t_x(); u.decompile(d,f)
        k=f['hhea'].numberOfHMetrics
        mink=n
        while mink>1 and adv[mink-2]==adv[n-1]: mink-=1
        if u.metrics!=t.metrics or k!=mink or len(d)!=4*k+2*(n-k): bad.append((adv,sb,k,mink))
    except Exception as e: bad.append((adv,type(e).__name__,str(e)))
print("hmtx bad",len(bad),bad[:3])
