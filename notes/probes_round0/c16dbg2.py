import io, glob, logging, random
logging.disable(logging.CRITICAL)
from fontTools.ttLib import TTFont
fn=glob.glob('/repo/Tests/**/I.otf',recursive=True)[0]
base=TTFont(fn); tags=[t for t in base.keys() if t!='GlyphOrder']
for sel in ([ 'head'], ['hhea'], ['CFF2'] if 'CFF2' in tags else ['CFF '], ['maxp'], ['OS/2'], ['hmtx'], tags):
    f=TTFont(fn,recalcTimestamp=False)
    for t in sel: f[t]
    b=io.BytesIO(); f.save(b); l1=[t for t in tags if f.isLoaded(t)]
    b2=io.BytesIO(); f.save(b2); l2=[t for t in tags if f.isLoaded(t)]
    r1=TTFont(io.BytesIO(b.getvalue())); r2=TTFont(io.BytesIO(b2.getvalue()))
    diff=[(t,[(i,r1.reader[t][i],r2.reader[t][i]) for i in range(min(len(r1.reader[t]),len(r2.reader[t]))) if r1.reader[t][i]!=r2.reader[t][i]][:6]) for t in r1.reader.keys() if r1.reader[t]!=r2.reader[t]]
    print(sel[:3], "loaded after1", l1, "after2", l2, "diff", diff, [(t,len(r1.reader[t]),len(r2.reader[t])) for t in r1.reader.keys() if len(r1.reader[t])!=len(r2.reader[t])])
