import io, sys, os, glob, hashlib, logging
logging.disable(logging.CRITICAL)
os.environ['SOURCE_DATE_EPOCH']='1600000000'
from fontTools.ttLib import TTFont
from fontTools import subset
from fontTools.feaLib.builder import addOpenTypeFeatures
out=[]
# 1. feature compilation of corpus fea on a generic font
def h(b): return hashlib.sha256(b).hexdigest()[:12]
fonts=sorted(glob.glob('/repo/Tests/subset/data/*.ttx'))[:25]
for fn in fonts:
    try:
        f=TTFont(); f.importXML(fn); b=io.BytesIO(); f.save(b)
        f=TTFont(io.BytesIO(b.getvalue()))
        o=subset.Options(); o.layout_features=['*']; o.notdef_outline=True
        s=subset.Subsetter(o); 
        cm=f.getBestCmap() or {}
        us=sorted(cm)[::2]
        s.populate(unicodes=us); s.subset(f)
        b2=io.BytesIO(); f.save(b2); out.append(("subset",os.path.basename(fn),h(b2.getvalue())))
    except Exception as e:
        out.append(("subset",os.path.basename(fn),type(e).__name__))
for fea in sorted(glob.glob('/repo/Tests/feaLib/data/*.fea'))[:80]:
    try:
        f=TTFont(); f.importXML('/repo/Tests/feaLib/data/font.ttx') if os.path.exists('/repo/Tests/feaLib/data/font.ttx') else None
        from fontTools.feaLib.builder import Builder
        addOpenTypeFeatures(f, fea)
        b=io.BytesIO(); f.save(b); out.append(("fea",os.path.basename(fea),h(b.getvalue())))
    except Exception as e:
        out.append(("fea",os.path.basename(fea),type(e).__name__))
for x in out: print(*x)
