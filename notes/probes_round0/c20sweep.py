import io, glob, collections, os, logging, random
logging.disable(logging.CRITICAL)
from fontTools.ttLib import TTFont, TTLibError
random.seed(4)
files=[]
for ext in ("ttf","otf","woff","woff2","ttc"):
    files+=glob.glob('/repo/Tests/**/*.'+ext, recursive=True)
files.sort()
c=collections.Counter(); ex={}
def tryopen(data,tagfn,kind):
    try:
        f=TTFont(io.BytesIO(data), fontNumber=0) if tagfn.endswith('.ttc') else TTFont(io.BytesIO(data))
        for t in list(f.reader.keys()):
            f.reader[t]
        c[(kind,'ok')]+=1
    except TTLibError: c[(kind,'TTLibError')]+=1
    except Exception as e:
        k=(kind,os.path.splitext(tagfn)[1],type(e).__name__); c[k]+=1; ex.setdefault(k,(os.path.basename(tagfn),len(data),str(e)[:60]))
for fn in files:
    data=open(fn,'rb').read()
    cuts=set(range(0,min(len(data),400)))|{random.randrange(len(data)) for _ in range(40)}
    for n in cuts: tryopen(data[:n],fn,'trunc')
    for pos in range(0,min(len(data),120)):
        for v in (0,255,data[pos]^0x80):
            d=bytearray(data); d[pos]=v; tryopen(bytes(d),fn,'flip')
for k,v in sorted(c.items(),key=str): print(k,v, ex.get(k,''))
