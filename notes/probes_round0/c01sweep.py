import io, sys, glob, collections, traceback, os, logging
logging.disable(logging.CRITICAL)
from fontTools.ttLib import TTFont, TTLibError
files=[]
for ext in ("ttf","otf","woff","woff2","ttc"):
    files+=glob.glob('/repo/Tests/**/*.'+ext, recursive=True)
files.sort()
res=collections.Counter(); detail=collections.defaultdict(list)
for fn in files:
    try:
        nf=1
        if fn.endswith('.ttc'):
            from fontTools.ttLib import TTCollection
            nf=len(TTCollection(fn).fonts)
        for k in range(nf):
            kw={'fontNumber':k} if fn.endswith('.ttc') else {}
            f=TTFont(fn,lazy=False,**kw)
            tags=[t for t in f.keys() if t!='GlyphOrder']
            bad=False
            for t in tags:
                try: f[t]
                except Exception as e:
                    res['decompile-exc']+=1; detail['decompile-exc'].append((os.path.basename(fn),t,type(e).__name__)); bad=True
            if bad: continue
            f.flavor=None
            b1=io.BytesIO()
            try: f.save(b1)
            except Exception as e:
                res['save1-exc']+=1; detail['save1-exc'].append((os.path.basename(fn),type(e).__name__,str(e)[:60])); continue
            g=TTFont(io.BytesIO(b1.getvalue()),lazy=False)
            for t in [t for t in g.keys() if t!='GlyphOrder']: g[t]
            b2=io.BytesIO()
            try: g.save(b2)
            except Exception as e:
                res['save2-exc']+=1; detail['save2-exc'].append((os.path.basename(fn),type(e).__name__,str(e)[:60])); continue
            if b1.getvalue()!=b2.getvalue():
                # which tables differ
                r1=TTFont(io.BytesIO(b1.getvalue())); r2=TTFont(io.BytesIO(b2.getvalue()))
                diff=[t for t in r1.reader.keys() if r1.reader[t]!=r2.reader[t]]
                res['gen2!=gen3']+=1; detail['gen2!=gen3'].append((os.path.basename(fn),diff))
            else: res['ok']+=1
    except Exception as e:
        res['open-exc']+=1; detail['open-exc'].append((os.path.basename(fn),type(e).__name__,str(e)[:60]))
print(len(files),dict(res))
for k,v in detail.items():
    print(k); 
    for x in v[:25]: print("   ",x)
