from fractions import Fraction as F
from fontTools.varLib.models import supportScalar
from fontTools.varLib.instancer import NormalizedAxisTripleAndDistances as NATD
from fontTools.varLib.instancer.solver import rebaseTent, _solve
lim=NATD(F(-1),F(-1),F(-1,8),F(300),F(500))
t=(F(-13,8),F(-3,8),F(-3,8))
print(_solve(t,lim))
print(rebaseTent(t,lim))
print(supportScalar({'a':F(-1)},{'a':t}), supportScalar({'a':F(-1,2)},{'a':t}))
sols=rebaseTent(t,lim)
for x in [F(-1),F(-1,2),F(-3,8),F(-1,4),F(-1,8)]:
    nx=lim.renormalizeValue(x)
    got=0
    for s,tt in sols:
        got+= s*(1 if tt is None else supportScalar({'a':nx},{'a':tt}))
    print(x,nx,float(got),float(supportScalar({'a':x},{'a':t})))
