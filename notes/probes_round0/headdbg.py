import io, os, logging, glob
logging.disable(logging.CRITICAL)
from fontTools.ttLib import TTFont
fn=glob.glob('/repo/Tests/**/cmap0_font1.otf',recursive=True)[0]
f=TTFont(fn,lazy=False,recalcTimestamp=False)
for t in f.keys(): f[t]
b0=io.BytesIO(); f.save(b0)
x=io.StringIO(); f.saveXML(x)
g=TTFont(recalcTimestamp=False); g.importXML(io.StringIO(x.getvalue()))
b1=io.BytesIO(); g.save(b1)
r0=TTFont(io.BytesIO(b0.getvalue())); r1=TTFont(io.BytesIO(b1.getvalue()))
a=r0.reader['head']; b=r1.reader['head']
print([ (i,a[i],b[i]) for i in range(len(a)) if a[i]!=b[i]])
print(r0['head'].__dict__); print(r1['head'].__dict__)
