import sys, io, traceback
from fontTools.ttLib import TTFont
from fontTools.ttLib.scaleUpem import scale_upem
fn='/repo/Tests/subset/data/TestMATH-Regular.ttx'
f=TTFont(); f.importXML(fn)
buf=io.BytesIO(); f.save(buf); f=TTFont(io.BytesIO(buf.getvalue()))
m=f['MATH'].table; c=m.MathConstants
print((c.DelimitedSubFormulaMinHeight, c.DisplayOperatorMinHeight, c.AxisHeight.Value, m.MathVariants.MinConnectorOverlap, f['head'].unitsPerEm))
gc=m.MathVariants.VertGlyphConstruction[0]
print(gc.MathGlyphVariantRecord[0].AdvanceMeasurement if gc.MathGlyphVariantRecord else None)
try:
    scale_upem(f, f['head'].unitsPerEm*2)
except Exception as e:
    traceback.print_exc()
m=f['MATH'].table; c=m.MathConstants
print((c.DelimitedSubFormulaMinHeight, c.DisplayOperatorMinHeight, c.AxisHeight.Value, m.MathVariants.MinConnectorOverlap, f['head'].unitsPerEm))
gc=m.MathVariants.VertGlyphConstruction[0]
print(gc.MathGlyphVariantRecord[0].AdvanceMeasurement if gc.MathGlyphVariantRecord else None)
