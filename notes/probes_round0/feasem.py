import io, random, logging
logging.disable(logging.CRITICAL)
from shaperprobe import base_font, names, gname
from fontTools.feaLib.builder import addOpenTypeFeaturesFromString
from fontTools.ttLib import TTFont
import uharfbuzz as hb
random.seed(77)
def rules_to_fea(rules):
    out=[]
    for r in rules:
        if r[0]=="break": out.append("subtable;")
        elif r[0]=="g": out.append("pos %s %s %d;"%(r[1],r[2],r[3]))
        else: out.append("pos [%s] [%s] %d;"%(" ".join(r[1])," ".join(r[2]),r[3]))
    return "feature test {\n  "+"\n  ".join(out)+"\n} test;\n"
def fea_sem(rules):
    """declarative reference: returns function (g1,g2)->xAdvance adjustment of g1"""
    gp={}
    subtables=[]; cur=None; force=False
    def can_add(classes, glyphs, c):
        c=tuple(sorted(c))
        if c in classes: return True
        return not any(g in glyphs for g in c)
    for r in rules:
        if r[0]=="g":
            gp.setdefault((r[1],r[2]),r[3])
        elif r[0]=="break": force=True
        else:
            c1=tuple(sorted(set(r[1]))); c2=tuple(sorted(set(r[2])))
            if cur is None or force or not (can_add(cur['c1'],cur['g1'],c1) and can_add(cur['c2'],cur['g2'],c2)):
                cur=dict(c1=set(),g1=set(),c2=set(),g2=set(),vals={}); subtables.append(cur); force=False
            cur['c1'].add(c1); cur['g1'].update(c1); cur['c2'].add(c2); cur['g2'].update(c2)
            cur['vals'][(c1,c2)]=r[3]      # later identical class pair overrides (dict assignment)
    def value(g1,g2):
        if (g1,g2) in gp: return gp[(g1,g2)]
        for st in subtables:
            if g1 in st['g1']:
                for (c1,c2),v in st['vals'].items():
                    if g1 in c1 and g2 in c2: return v
                return 0
        return 0
    return value
def hbk(data,a,b):
    face=hb.Face(data); f=hb.Font(face); buf=hb.Buffer()
    buf.add_codepoints([0xE000+names.index(a),0xE000+names.index(b)]); buf.direction='LTR'; buf.script='DFLT'; buf.language='dflt'
    hb.shape(f,buf,{"test":True,"kern":False})
    return buf.glyph_positions[0].x_advance-500
bad=[]; n=0
for it in range(300):
    rules=[]
    for _ in range(random.randint(1,8)):
        k=random.random()
        if k<0.25: rules.append(("g",gname(),gname(),random.choice([-50,-20,10,30,0])))
        elif k<0.35 and rules: rules.append(("break",))
        else:
            rules.append(("c",sorted(set(gname() for _ in range(random.randint(1,3)))),sorted(set(gname() for _ in range(random.randint(1,3)))),random.choice([-50,-20,10,30,0])))
    if rules[-1][0]=="break": rules.pop()
    if not any(r[0]!="break" for r in rules): continue
    # feaLib requires glyph pairs before class pairs? (specific pairs must precede class pairs) -> sort stable
    rules=[r for r in rules if r[0]=="g"]+[r for r in rules if r[0]!="g"]
    if rules and rules[0][0]=="break": rules=rules[1:]
    f=base_font(); f.cfg["fontTools.otlLib.optimize.gpos:COMPRESSION_LEVEL"]=0
    try: addOpenTypeFeaturesFromString(f,rules_to_fea(rules))
    except Exception as e: continue
    b=io.BytesIO(); f.save(b); data=b.getvalue()
    sem=fea_sem(rules)
    for a in names[1:]:
        for c in names[1:]:
            n+=1
            if hbk(data,a,c)!=sem(a,c): bad.append((rules,a,c,hbk(data,a,c),sem(a,c))); break
        else: continue
        break
print(n,len(bad))
for b in bad[:3]: print(b)
