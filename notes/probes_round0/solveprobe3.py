import random, itertools
from fractions import Fraction as F
from fontTools.varLib.models import supportScalar
from fontTools.varLib.instancer import NormalizedAxisTripleAndDistances as NATD
from fontTools.varLib.instancer.solver import rebaseTent, _solve
grid=[i/8 for i in range(-8,9)]
tgrid=[i/8 for i in range(-16,17)]
def tentval(t,x): return F(supportScalar({'a':x},{'a':t})) if not isinstance(supportScalar({'a':x},{'a':t}),float) else supportScalar({'a':x},{'a':t})
bad=[]; n=0; nudge=0
random.seed(2)
cases=0
for mn,df,mx in itertools.product(grid,repeat=3):
    if not (mn<=df<=mx): continue
    for dn,dp in ((1.0,1.0),(300.0,500.0)):
        lim=NATD(mn,df,mx,dn,dp)
        for _ in range(12):
            l,p,u=sorted(random.choice(tgrid) for _ in range(3))
            if p==0 or (l<0<u): continue
            cases+=1
            try:
                sols=rebaseTent((l,p,u),lim)
            except Exception as e:
                bad.append(("exc",(l,p,u),(mn,df,mx),type(e).__name__,str(e))); continue
            # sample points in new range incl. finer grid
            xs=[i/64 for i in range(int(mn*64),int(mx*64)+1)]
            for x in xs:
                want=supportScalar({'a':x},{'a':(l,p,u)})
                nx=lim.renormalizeValue(x)
                got=0
                for s,t in sols:
                    got+= s*(1 if t is None else supportScalar({'a':nx},{'a':t}))
                if abs(float(got)-float(want))>1e-9:
                    bad.append(((l,p,u),(mn,df,mx),(dn,dp),x,float(got),float(want))); break
print(cases,len(bad))
import collections

def cont(b):
    if b[0]=="exc": return True
    l,p,u=b[0]
    okL = l<p or p<=-1
    okU = p<u or p>=1
    return okL and okU
b2=[b for b in bad if cont(b)]
print("continuous-tent failures",len(b2))
for b in b2[:10]: print(b)
