import io, glob, random, logging, os, collections
logging.disable(logging.CRITICAL)
from fontTools.ttLib import TTFont
random.seed(2)
files=sorted(glob.glob('/repo/Tests/**/*.ttf',recursive=True)+glob.glob('/repo/Tests/**/*.otf',recursive=True))
res=collections.Counter(); ex=[]
for fn in files:
    try:
        base=TTFont(fn); tags=[t for t in base.keys() if t!='GlyphOrder']
    except Exception: continue
    if 'Silf' in tags: continue
    k=random.randint(1,len(tags)); sel=random.sample(tags,k)
    outs=[]
    for order in (sel, list(reversed(sel)), random.sample(sel,len(sel))):
        for lazy in (None,True,False):
            try:
                f=TTFont(fn,lazy=lazy,recalcTimestamp=False)
                for t in order: f[t]
                b=io.BytesIO(); f.save(b); b2=io.BytesIO(); f.save(b2)
                outs.append((tuple(order),lazy,b.getvalue()))
                if b.getvalue()!=b2.getvalue():
                    r1=TTFont(io.BytesIO(b.getvalue())); r2=TTFont(io.BytesIO(b2.getvalue()))
                    diff=[t for t in r1.reader.keys() if r1.reader[t]!=r2.reader[t]]
                    res['second-save-differs']+=1; ex.append(("2nd",os.path.basename(fn),lazy,diff))
            except Exception as e:
                res['exc']+=1; ex.append(("exc",os.path.basename(fn),type(e).__name__,str(e)[:60])); break
    if len(set(o[2] for o in outs))>1:
        res['order/lazy-dependent']+=1
        a=outs[0][2]
        for o in outs[1:]:
            if o[2]!=a:
                r1=TTFont(io.BytesIO(a)); r2=TTFont(io.BytesIO(o[2]))
                diff=[t for t in r1.reader.keys() if t not in r2.reader or r1.reader[t]!=r2.reader[t]]
                ex.append(("ord",os.path.basename(fn),o[1],diff,sel[:6])); break
    else: res['ok']+=1
print(dict(res))
for e in [x for x in ex if x[0]=="ord"][:12]: print(e)
