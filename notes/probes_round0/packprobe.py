import io, glob, logging, struct, sys
logging.disable(logging.CRITICAL)
from fontTools.ttLib import TTFont
from fontTools.ttLib.tables import otBase
from fontTools.ttLib.tables.otBase import OTTableWriter, CountReference

captured=[]
orig_getAllData=OTTableWriter.getAllData
def dump(w, ids, nodes):
    if id(w) in ids: return ids[id(w)]
    nid=len(ids); ids[id(w)]=nid; nodes.append(None)
    items=[]
    for it in w.items:
        if hasattr(it,"getCountData"): items.append(("B",it.getCountData()))
        elif hasattr(it,"subWriter"): items.append(("O",it.offsetSize,dump(it.subWriter,ids,nodes)))
        else: items.append(("B",bytes(it)))
    nodes[nid]=dict(items=items,ext=hasattr(w,"Extension"),dontShare=hasattr(w,"DontShare"),covLast=hasattr(w,"sortCoverageLast"),name=getattr(w,"name",None))
    return nid
def wrapped(self, remove_duplicate=True):
    ids={}; nodes=[]
    root=dump(self,ids,nodes)
    out=orig_getAllData(self, remove_duplicate)
    captured.append((nodes,root,remove_duplicate,out))
    return out
OTTableWriter.getAllData=wrapped

# ---- python reference model of the packer (to be transcribed to Gallina) ----
class Overflow(Exception): pass
def model_pack(nodes, root, remove_duplicate=True):
    # nodes: list of dicts; work on a copy with mutable child refs
    N=[dict(n,items=[list(i) for i in n['items']]) for n in nodes]
    def key(n): return tuple(tuple(i) for i in N[n]['items'])
    def done_writing(n, interned, shareExt=False):
        node=N[n]
        if node['ext'] and not shareExt: interned={}
        for it in node['items']:
            if it[0]=="O":
                c=it[2]; done_writing(c, interned, shareExt)
                if not node['dontShare']:
                    k=key(c)
                    it[2]=interned.setdefault(k,c)
    if remove_duplicate: done_writing(root,{})
    tables=[]; ext=[]
    def gather(n, tables, extT, done):
        done.add(n)
        node=N[n]; items=node['items']; num=len(items)
        selfTables=tables
        if node['ext']:
            assert extT is not None
            tables, extT, done = extT, None, set()
        covLast=False
        if node['covLast']:
            item=None
            for i in range(num):
                item=items[i]
                if item[0]=="O" and N[item[2]]['name']=="Coverage":
                    covLast=True; break
            if item[2] not in done: gather(item[2],tables,extT,done)
        for i in reversed(range(num)):
            item=items[i]
            if item[0]!="O": continue
            if covLast and i==1 and N[item[2]]['name']=="Coverage": continue
            if item[2] not in done: gather(item[2],tables,extT,done)
        selfTables.append(n)
    gather(root,tables,ext,set())
    tables.reverse(); ext.reverse()
    def length(n): return sum(len(i[1]) if i[0]=="B" else i[1] for i in N[n]['items'])
    pos={}; p=0
    for t in tables+ext:
        pos[t]=p; p+=length(t)     # note: a node appearing twice keeps the LAST position, like .pos
    out=[]
    for t in tables+ext:
        b=b""
        for i in N[t]['items']:
            if i[0]=="B": b+=i[1]
            else:
                d=pos[i[2]]-pos[t]; s=i[1]
                if s==2:
                    if not (0<=d<65536): raise Overflow()
                    b+=struct.pack(">H",d)
                elif s==4: b+=struct.pack(">I",d)
                elif s==3: b+=struct.pack(">I",d)[1:]
        out.append(b)
    return b"".join(out)

files=sorted(glob.glob('/repo/Tests/**/*.ttf',recursive=True)+glob.glob('/repo/Tests/**/*.otf',recursive=True))
ok=bad=0; ex=[]
for fn in files:
    try:
        f=TTFont(fn)
        f.cfg["fontTools.ttLib.tables.otBase:USE_HARFBUZZ_REPACKER"]=False
        for tag in ("GSUB","GPOS","GDEF","BASE","MATH","STAT","COLR","HVAR","MVAR"):
            if tag not in f: continue
            captured.clear()
            try:
                f[tag].compile(f)
            except Exception as e:
                continue
            for nodes,root,rd,out in captured:
                try:
                    m=model_pack(nodes,root,rd)
                except Overflow:
                    m=None
                if m==out: ok+=1
                else:
                    bad+=1; ex.append((fn.split('/')[-1],tag,len(nodes),len(out),None if m is None else len(m)))
    except Exception as e:
        pass
print(ok,bad,ex[:10])
