import random, array
from fractions import Fraction as F
random.seed(21)
from fontTools.ttLib.tables._g_l_y_f import Glyph, GlyphCoordinates, flagOnCurve
from fontTools.ttLib.tables import ttProgram
from fontTools.pens.basePen import BasePen
class Geom(BasePen):
    def __init__(s): BasePen.__init__(s,None); s.segs=[]; s.cur=None; s.start=None; s.contours=[]
    def _moveTo(s,p): s.cur=p; s.start=p; s.segs=[]
    def _lineTo(s,p): s.segs.append(("L",s.cur,p)); s.cur=p
    def _curveToOne(s,a,b,c): s.segs.append(("C",s.cur,a,b,c)); s.cur=c
    def _qCurveToOne(s,a,b): s.segs.append(("Q",s.cur,a,b)); s.cur=b
    def _closePath(s):
        if s.cur!=s.start: s.segs.append(("L",s.cur,s.start))
        s.contours.append(list(s.segs)); s.segs=[]
    def _endPath(s): s.contours.append(list(s.segs)); s.segs=[]
def mid(a,b): return ((a[0]+b[0])/2,(a[1]+b[1])/2)
def spec_geom(pts,on):
    """OpenType glyf: closed contour; consecutive off-curve points imply an on-curve midpoint."""
    n=len(pts)
    # expand implied points
    ex=[]
    for i in range(n):
        ex.append((pts[i],on[i]))
        j=(i+1)%n
        if not on[i] and not on[j]: ex.append((mid(pts[i],pts[j]),True))
    if n==1: return []  # single point encloses nothing
    # rotate to start at an on-curve
    k=next(i for i,(p,o) in enumerate(ex) if o)
    ex=ex[k:]+ex[:k]
    segs=[]; m=len(ex); i=0
    while i<m:
        p0=ex[i][0]; nxt=ex[(i+1)%m]
        if nxt[1]:
            if nxt[0]!=p0 or True: segs.append(("L",p0,nxt[0]))
            i+=1
        else:
            p2=ex[(i+2)%m][0]; segs.append(("Q",p0,nxt[0],p2)); i+=2
    return segs
def normseg(s): return tuple((s[0],)+tuple((float(p[0]),float(p[1])) for p in s[1:]))
def cyc_eq(a,b):
    a=[normseg(x) for x in a if not (x[0]=="L" and x[1]==x[2])]; b=[normseg(x) for x in b if not (x[0]=="L" and x[1]==x[2])]
    if len(a)!=len(b): return False
    if not a: return True
    return any(a[i:]+a[:i]==b for i in range(len(a)))
bad=[]
for it in range(20000):
    n=random.choice([1,2,3,4,5,6,8])
    pts=[(random.randint(-5,5),random.randint(-5,5)) for _ in range(n)]
    mode=random.random()
    on=[random.random()<0.5 for _ in range(n)]
    if mode<0.1: on=[False]*n
    if mode>0.9: on=[True]*n
    g=Glyph(); g.numberOfContours=1; g.endPtsOfContours=[n-1]; g.coordinates=GlyphCoordinates(pts); g.flags=array.array('B',[1 if o else 0 for o in on])
    g.program=ttProgram.Program(); g.program.fromBytecode(b"")
    pen=Geom()
    try:
        g.draw(pen,None)
        got=pen.contours[0] if pen.contours else []
        want=spec_geom(pts,on)
        if not cyc_eq(got,want): bad.append((pts,on,got,want))
    except Exception as e:
        bad.append((pts,on,type(e).__name__,str(e)))
bad=[b for b in bad if len(b[0])>1]
print(len(bad))
for b in bad[:4]: print(b)
