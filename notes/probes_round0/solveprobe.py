import random, itertools
from fractions import Fraction as F
from fontTools.varLib.models import supportScalar
from fontTools.varLib.instancer import NormalizedAxisTripleAndDistances as NATD
from fontTools.varLib.instancer.solver import rebaseTent, _solve
grid=[F(i,8) for i in range(-8,9)]
tgrid=[F(i,8) for i in range(-16,17)]
def tentval(t,x): return F(supportScalar({'a':x},{'a':t})) if not isinstance(supportScalar({'a':x},{'a':t}),float) else supportScalar({'a':x},{'a':t})
bad=[]; n=0; nudge=0
random.seed(2)
cases=0
for mn,df,mx in itertools.product(grid,repeat=3):
    if not (mn<=df<=mx): continue
    for dn,dp in ((F(1),F(1)),(F(300),F(500))):
        lim=NATD(mn,df,mx,dn,dp)
        for _ in range(12):
            l,p,u=sorted(random.choice(tgrid) for _ in range(3))
            if p==0 or (l<0<u): continue
            cases+=1
            try:
                sols=rebaseTent((l,p,u),lim)
            except Exception as e:
                bad.append(("exc",(l,p,u),(mn,df,mx),type(e).__name__,str(e))); continue
            # sample points in new range incl. finer grid
            xs=[F(i,64) for i in range(int(mn*64),int(mx*64)+1)]
            for x in xs:
                want=supportScalar({'a':x},{'a':(l,p,u)})
                nx=lim.renormalizeValue(x)
                got=0
                for s,t in sols:
                    got+= s*(1 if t is None else supportScalar({'a':nx},{'a':t}))
                if abs(float(got)-float(want))>1e-9:
                    bad.append(((l,p,u),(mn,df,mx),(dn,dp),x,float(got),float(want))); break
print(cases,len(bad))
import collections
for b in bad[:8]: print(b)
