import io, glob, logging
logging.disable(logging.CRITICAL)
from fontTools.ttLib import TTFont
fn=glob.glob('/repo/Tests/**/LinLibertine_RBI.otf',recursive=True)[0]
f=TTFont(fn,recalcTimestamp=False)
f['name']
print("loaded before:",[t for t in f.keys() if f.isLoaded(t)])
b=io.BytesIO(); f.save(b)
print("loaded after 1:",[t for t in f.keys() if f.isLoaded(t)])
b2=io.BytesIO(); f.save(b2)
print("loaded after 2:",[t for t in f.keys() if f.isLoaded(t)])
r0=TTFont(fn); r1=TTFont(io.BytesIO(b.getvalue())); r2=TTFont(io.BytesIO(b2.getvalue()))
for t in r1.reader.keys():
    a,c=r1.reader[t],r2.reader[t]
    if a!=c: print(t,[(i,a[i],c[i]) for i in range(len(a)) if a[i]!=c[i]])
    if r0.reader[t]!=a: print("orig vs save1 differs:",t)
print(r0['head'].checkSumAdjustment, r1['head'].checkSumAdjustment, r2['head'].checkSumAdjustment)
