import io, random
from fontTools.ttLib import TTFont
from fontTools.ttLib.reorderGlyphs import reorderGlyphs
import glob
for fn in ['/repo/Tests/subset/data/TestCLR-Regular.ttx','/repo/Tests/subset/data/BungeeColor-Regular.ttx','/repo/Tests/varLib/data/master_ttx_varcolr_ttf/TestVariableCOLR-Regular.ttx','/repo/Tests/ttLib/tables/data/COLRv1-clip-boxes-cff.ttx']:
    try:
        f=TTFont(); f.importXML(fn); buf=io.BytesIO(); f.save(buf); f=TTFont(io.BytesIO(buf.getvalue()))
    except Exception as e:
        print(fn.split('/')[-1],'load',type(e).__name__); continue
    if 'COLR' not in f: continue
    colr=f['COLR']
    go=f.getGlyphOrder(); new=[go[0]]+list(reversed(go[1:]))
    try:
        reorderGlyphs(f,new)
        buf=io.BytesIO(); f.save(buf); g=TTFont(io.BytesIO(buf.getvalue()))
        c=g['COLR']
        if c.version==0:
            pass
        t=c.table if hasattr(c,'table') else None
        if t is not None and getattr(t,'BaseGlyphList',None):
            ids=[g.getGlyphID(r.BaseGlyph) for r in t.BaseGlyphList.BaseGlyphPaintRecord]
            print(fn.split('/')[-1],'v',c.version,'BaseGlyphList sorted?',ids==sorted(ids), ids[:6])
        if t is not None and getattr(t,'BaseGlyphRecordArray',None):
            ids=[g.getGlyphID(r.BaseGlyph) for r in t.BaseGlyphRecordArray.BaseGlyphRecord]
            print(fn.split('/')[-1],'v0 records sorted?',ids==sorted(ids), ids[:6])
    except Exception as e:
        print(fn.split('/')[-1],type(e).__name__,e)
