import random, struct, math
random.seed(7)
from fontTools.misc.fixedTools import fixedToStr, strToFixed, floatToFixed, fixedToFloat
bad=[v for v in range(-32768,32768) if strToFixed(fixedToStr(v,14),14)!=v]
print("f2dot14 bad", len(bad), bad[:5])
bad=[]
for i in range(300000):
    v=random.randrange(-2**31,2**31)
    if strToFixed(fixedToStr(v,16),16)!=v: bad.append(v)
for v in list(range(-70000,70000))+[2**31-1,-2**31, 2**31-2]:
    if strToFixed(fixedToStr(v,16),16)!=v: bad.append(v)
print("fixed16 bad", len(bad), bad[:5])
from fontTools.misc.psCharStrings import encodeFloat, read_realNumber, encodeFixed, read_fixed1616, encodeIntT2, encodeIntCFF
bad=[]
def rt(f):
    d=encodeFloat(f); assert d[0]==30
    v,_=read_realNumber(None,30,d,1); return v
tests=[1e-05,123000.0,0.5,-0.05,1.0,100.0,1e10,1.5e10,12345678.0,123456789.0,1e-10,-1e-10,0.00012345678,1234.5678,1e100,1e-100,99999999.0, 0.1,1/3,1e8,1e7,1.2345678e7,-123000.0,5e-324,1.7976931348623157e308,1000.0,1e3,120.0,1.2e2,10.0]
for f in tests+[random.uniform(-1e6,1e6) for _ in range(20000)]+[random.uniform(-1,1)*10**random.randint(-12,12) for _ in range(20000)]:
    try:
        r=rt(f); exp=float("%.8G"%f)
        if r!=exp: bad.append((f,r,exp,encodeFloat(f)))
    except Exception as e: bad.append((f,type(e).__name__,str(e)))
print("real bad", len(bad), bad[:5])
from fontTools.ttLib.woff2 import packBase128, unpackBase128, pack255UShort, unpack255UShort
from fontTools.ttLib.tables.otTables import _write_uint32var, _read_uint32var
bad=[n for n in list(range(0,70000))+[2**k+d for k in range(7,33) for d in (-1,0,1) if 0<=2**k+d<2**32] if unpackBase128(packBase128(n))!=(n,b"")]
print("base128 bad", bad[:5])
bad=[n for n in range(65536) if unpack255UShort(pack255UShort(n))!=(n,b"")]
print("255 bad", bad[:5])
bad=[n for n in list(range(0,70000))+[2**k+d for k in range(7,33) for d in (-1,0,1) if 0<=2**k+d<2**32] if _read_uint32var(_write_uint32var(n),0)!=(n,len(_write_uint32var(n)))]
print("u32var bad", bad[:5])
from fontTools.ttLib.tables.TupleVariation import TupleVariation as TV
bad=[]
for it in range(3000):
    n=random.choice([0,1,2,63,64,65,127,128,129,200,300])
    ds=[]
    while len(ds)<n:
        kind=random.choice("zbwl"); ln=random.choice([1,1,2,3,63,64,65])
        for _ in range(ln):
            ds.append({'z':0,'b':random.randint(-128,127),'w':random.choice([-32768,32767,128,-129,random.randint(-32768,32767)]),'l':random.choice([32768,-32769,2**31-1,-2**31])}[kind])
    ds=ds[:n]
    for opt in (True,False):
        if not ds and not opt: continue
        try:
            b=TV.compileDeltaValues_(ds, optimizeSize=opt); r,pos=TV.decompileDeltas_(len(ds),bytes(b),0)
            if list(r)!=ds or pos!=len(b): bad.append((ds,opt)); 
        except Exception as e: bad.append((ds[:5],opt,type(e).__name__,str(e)))
print("deltas bad", len(bad), bad[:3])
bad=[]
for it in range(3000):
    n=random.choice([1,2,3,127,128,129,130,255,256,300])
    pts=sorted(random.sample(range(0,random.choice([300,65536])),min(n,299)))
    b=TV.compilePoints(pts); r,pos=TV.decompilePoints_(70000,bytes(b),0,'gvar')
    if list(r)!=pts or pos!=len(b): bad.append(pts[:5])
print("points bad", len(bad), bad[:3])
from fontTools.misc import eexec
bad=[]
for it in range(2000):
    s=bytes(random.randrange(256) for _ in range(random.randint(0,50))); k=random.randrange(65536)
    c,r1=eexec.encrypt(s,k); p,r2=eexec.decrypt(c,k)
    if p!=s or r1!=r2: bad.append(s)
print("eexec bad", len(bad))
from fontTools.misc import iftSparseBitSet as S
bad=[]
for it in range(3000):
    mx=random.choice([1,7,8,9,31,32,33,63,64,255,256,257,1023,4096,70000,2**20, 2**31])
    vals=set(random.randrange(mx+1) for _ in range(random.randint(0,60)))
    if random.random()<0.3 and mx<5000: vals|=set(range(random.randrange(mx+1), mx+1))
    try:
        e=S.encode(vals); d,n=S.decode(e)
        if d!=vals or n!=len(e): bad.append((sorted(vals)[:6],len(vals)))
    except Exception as ex: bad.append((sorted(vals)[:6],type(ex).__name__,str(ex)))
print("sparsebitset bad", len(bad), bad[:3])
from fontTools.misc.timeTools import timestampToString, timestampFromString
bad=[]
for t in [0,1,2082844800,2082844799,3000000000,4294967295,2**32, 86400*366, random.randrange(0,2**32)]+[random.randrange(0,2**33) for _ in range(2000)]:
    try:
        if timestampFromString(timestampToString(t))!=t: bad.append(t)
    except Exception as ex: bad.append((t,type(ex).__name__))
print("timestamp bad", len(bad), bad[:5])
from fontTools import agl
bad=[(u,n) for u,n in agl.UV2AGL.items() if agl.toUnicode(n)!=chr(u)]
print("agl bad", len(bad), bad[:5])
