from fractions import Fraction as F
from fontTools.varLib.models import supportScalar, VariationModel, normalizeValue, piecewiseLinearMap
from fontTools.varLib.instancer import NormalizedAxisTripleAndDistances as NATD
from fontTools.varLib.instancer.solver import rebaseTent
from fontTools.varLib.iup import iup_delta, iup_delta_optimize
print(supportScalar({'w':F(1,5)},{'w':(F(0),F(1,2),F(1))}))
locs=[{}, {'w':F(1)}, {'w':F(1,2)}, {'w':F(1),'x':F(1)}, {'x':F(-1)}]
m=VariationModel(locs)
print(m.supports); print(m.deltaWeights)
ms=[F(10),F(20),F(13),F(40),F(-5)]
d=m.getDeltas(ms); print(d)
for l,v in zip(locs,ms): print(m.interpolateFromDeltas(l,d), v)
print(normalizeValue(F(650),(F(100),F(400),F(900))), piecewiseLinearMap(F(1,3),{F(-1):F(-1),F(0):F(0),F(1,2):F(1,4),F(1):F(1)}))
lim=NATD(F(-1,2),F(3,10),F(8,10),F(300),F(500))
print(rebaseTent((F(1,5),F(7,10),F(9,10)), lim))
print(lim.renormalizeValue(F(1,10)))
coords=[(0,0),(10,0),(10,10),(0,10),(0,0),(0,0),(0,0),(0,0)]
deltas=[(F(1),F(2)),None,(F(3),F(1)),None,(0,0),(0,0),(0,0),(0,0)]
print(list(iup_delta(deltas,coords,[3])))
full=[(F(1),F(2)),(F(2),F(2)),(F(3),F(1)),(F(1),F(1)),(0,0),(0,0),(0,0),(0,0)]
print(iup_delta_optimize(full,coords,[3],tolerance=F(1,2)))
