import io
from kern_compact import build, shape
from fontTools.ttLib import TTFont
from fontTools import subset
fea = """
feature kern {
  pos [A] [B] -10;
  subtable;
  pos [A] [C] -50;
} kern;
"""
data, font = build(0, fea)
print("orig AC", shape(data,"AC"), "AB", shape(data,"AB"))
f = TTFont(io.BytesIO(data))
opts = subset.Options(); opts.layout_features=["*"]
s = subset.Subsetter(opts); s.populate(unicodes=[65,67]); s.subset(f)
buf=io.BytesIO(); f.save(buf)
print("subset AC", shape(buf.getvalue(),"AC"), f.getGlyphOrder())
lk=f["GPOS"].table.LookupList.Lookup[0]; print(len(lk.SubTable))
