import io, sys, glob, collections, os, logging
logging.disable(logging.CRITICAL)
os.environ['SOURCE_DATE_EPOCH']='1600000000'
from fontTools.ttLib import TTFont
files=[]
for ext in ("ttf","otf"):
    files+=glob.glob('/repo/Tests/**/*.'+ext, recursive=True)
files.sort()
res=collections.Counter(); detail=collections.defaultdict(list)
for fn in files:
    try:
        f=TTFont(fn,lazy=False,recalcTimestamp=False)
        b0=io.BytesIO(); f.save(b0)   # object-model bytes
        f=TTFont(io.BytesIO(b0.getvalue()),recalcTimestamp=False,lazy=False)
        for t in f.keys(): f[t]
        b0=io.BytesIO(); f.save(b0)
        x=io.StringIO(); f.saveXML(x)
        g=TTFont(recalcTimestamp=False); g.importXML(io.StringIO(x.getvalue()))
        b1=io.BytesIO(); g.save(b1)
        r0=TTFont(io.BytesIO(b0.getvalue())); r1=TTFont(io.BytesIO(b1.getvalue()))
        diff=[t for t in r0.reader.keys() if t not in r1.reader or (r0.reader[t]!=r1.reader[t] and not (t=='head' and r0.reader[t][:8]+r0.reader[t][12:]==r1.reader[t][:8]+r1.reader[t][12:]))]
        if diff: res['diff']+=1; detail['diff'].append((os.path.basename(fn),diff))
        else: res['ok']+=1
    except Exception as e:
        res['exc']+=1; detail['exc'].append((os.path.basename(fn),type(e).__name__,str(e)[:80]))
print(len(files),dict(res))
for k,v in detail.items():
    print(k)
    for x in v[:30]: print("   ",x)
