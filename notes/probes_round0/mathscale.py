import sys, io
from fontTools.ttLib import TTFont
from fontTools.ttLib.scaleUpem import scale_upem
import glob
for fn in sys.argv[1:]:
    f=TTFont(); f.importXML(fn)
    if 'MATH' not in f: continue
    m=f['MATH'].table
    c=m.MathConstants
    before=(c.DelimitedSubFormulaMinHeight, c.DisplayOperatorMinHeight, c.AxisHeight.Value, m.MathVariants.MinConnectorOverlap if m.MathVariants else None, f['head'].unitsPerEm)
    try:
        scale_upem(f, f['head'].unitsPerEm*2)
    except Exception as e:
        print(fn, "ERR", type(e).__name__, e); continue
    m=f['MATH'].table; c=m.MathConstants
    after=(c.DelimitedSubFormulaMinHeight, c.DisplayOperatorMinHeight, c.AxisHeight.Value, m.MathVariants.MinConnectorOverlap if m.MathVariants else None, f['head'].unitsPerEm)
    print(fn.split('/')[-1], before, after)
