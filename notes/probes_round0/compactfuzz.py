import io, random, logging
logging.disable(logging.CRITICAL)
from shaperprobe import base_font, names, rand_fea, hb_shape
from fontTools.feaLib.builder import addOpenTypeFeaturesFromString
from fontTools.ttLib import TTFont
random.seed(5)
bad=[]; n=0
for it in range(500):
    fea=rand_fea()
    outs=[]
    for level in (0,1,5,9):
        f=base_font(); f.cfg["fontTools.otlLib.optimize.gpos:COMPRESSION_LEVEL"]=level
        try: addOpenTypeFeaturesFromString(f,fea)
        except Exception: outs=None; break
        b=io.BytesIO(); f.save(b); outs.append((b.getvalue(),TTFont(io.BytesIO(b.getvalue()))))
    if not outs: continue
    for _ in range(40):
        seq=[random.choice(names[1:]) for _ in range(random.randint(2,4))]
        r=[hb_shape(d,g,seq) for d,g in outs]; n+=1
        if any(x!=r[0] for x in r[1:]): bad.append((fea,seq,r)); break
print(n,len(bad))
for b in bad[:3]:
    print("----"); print(b[0]); print(b[1]); 
    for x in b[2]: print(x)
