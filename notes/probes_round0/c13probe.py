import random, math
random.seed(9)
from fontTools.cu2qu.cu2qu import curve_to_quadratic, curves_to_quadratic
from fontTools.cu2qu.errors import ApproxNotFoundError
def cub(p,t):
    a=(1-t)**3; b=3*(1-t)**2*t; c=3*(1-t)*t*t; d=t**3
    return (a*p[0][0]+b*p[1][0]+c*p[2][0]+d*p[3][0], a*p[0][1]+b*p[1][1]+c*p[2][1]+d*p[3][1])
def quad(q,t):
    a=(1-t)**2; b=2*(1-t)*t; c=t*t
    return (a*q[0][0]+b*q[1][0]+c*q[2][0], a*q[0][1]+b*q[1][1]+c*q[2][1])
def segs(spl):
    n=len(spl)-2; out=[]
    for i in range(n):
        p0 = spl[0] if i==0 else ((spl[i][0]+spl[i+1][0])/2,(spl[i][1]+spl[i+1][1])/2)
        p2 = spl[-1] if i==n-1 else ((spl[i+1][0]+spl[i+2][0])/2,(spl[i+1][1]+spl[i+2][1])/2)
        out.append((p0,spl[i+1],p2))
    return out
bad=[]; worst=0; nf=0
for it in range(4000):
    kind=random.random()
    def rp(): return (random.randint(-500,500), random.randint(-500,500))
    c=[rp(),rp(),rp(),rp()]
    if kind<0.1: c[1]=c[0]
    elif kind<0.2: c[2]=c[3]
    elif kind<0.25: c[1]=c[2]
    elif kind<0.3: c=[c[0],c[0],c[3],c[3]]
    elif kind<0.35: c[3]=c[0]
    tol=random.choice([0.25,0.5,1,2,0.01,10])
    try: s=curve_to_quadratic(c,tol)
    except ApproxNotFoundError: nf+=1; continue
    if s[0]!=tuple(map(float,c[0])) or s[-1]!=tuple(map(float,c[3])): bad.append(("ends",c,s)); continue
    sg=segs(s); n=len(sg)
    m=0
    for i,q in enumerate(sg):
        for k in range(0,33):
            t=k/32; T=(i+t)/n
            a=cub(c,T); b=quad(q,t); d=math.hypot(a[0]-b[0],a[1]-b[1]); m=max(m,d)
    worst=max(worst,m/tol)
    if m>tol*(1+1e-9): bad.append((c,tol,m,n))
print(len(bad),nf,worst); print(bad[:3])
# same n
b2=0
for it in range(1000):
    cs=[[ (random.randint(-300,300),random.randint(-300,300)) for _ in range(4)] for _ in range(random.randint(1,4))]
    try: r=curves_to_quadratic(cs,[random.choice([0.5,1,2]) for _ in cs])
    except ApproxNotFoundError: continue
    if len(set(len(x) for x in r))!=1: b2+=1
print("same-n violations",b2)
