import io, sys
from fontTools.fontBuilder import FontBuilder
from fontTools.pens.ttGlyphPen import TTGlyphPen
from fontTools.feaLib.builder import addOpenTypeFeaturesFromString
from fontTools.ttLib import TTFont
import uharfbuzz as hb

def build(level, fea):
    fb = FontBuilder(1000, isTTF=True)
    names = [".notdef","A","B","C","D"]
    fb.setupGlyphOrder(names)
    fb.setupCharacterMap({65:"A",66:"B",67:"C",68:"D"})
    pen = TTGlyphPen(None); pen.moveTo((0,0)); pen.lineTo((100,0)); pen.lineTo((100,100)); pen.closePath()
    g = pen.glyph()
    fb.setupGlyf({n: g for n in names})
    fb.setupHorizontalMetrics({n:(500,0) for n in names})
    fb.setupHorizontalHeader(ascent=800, descent=-200)
    fb.setupNameTable({"familyName":"T","styleName":"R"})
    fb.setupOS2(); fb.setupPost()
    font = fb.font
    font.cfg["fontTools.otlLib.optimize.gpos:COMPRESSION_LEVEL"] = level
    addOpenTypeFeaturesFromString(font, fea)
    buf = io.BytesIO(); font.save(buf); return buf.getvalue(), font

def shape(data, text):
    face = hb.Face(data); f = hb.Font(face)
    b = hb.Buffer(); b.add_str(text); b.guess_segment_properties()
    hb.shape(f, b, {"kern": True})
    return [(i.codepoint, p.x_advance) for i,p in zip(b.glyph_infos, b.glyph_positions)]

fea = """
feature kern {
  pos [A] [B] 0;
  pos [D] [B] -30;
  subtable;
  pos [A C] [B] -50;
} kern;
"""
for level in (0, 5, 9):
    data, font = build(level, fea)
    lk = font["GPOS"].table.LookupList.Lookup[0]
    print(level, "subtables", len(lk.SubTable), [ (st.Format, st.Coverage.glyphs) for st in lk.SubTable], shape(data, "AB"), shape(data,"CB"), shape(data,"DB"))
