import io
from fontTools.ttLib import TTFont
d=bytearray(open('/repo/Tests/ttx/data/TestTTC.ttc','rb').read())
d[4:8]=b'\x00\x03\x00\x00'
try: TTFont(io.BytesIO(bytes(d)), fontNumber=0)
except Exception as e: print(type(e).__name__, e)
d=bytearray(open('/repo/Tests/ttx/data/TestTTC.ttc','rb').read())
d[8:12]=b'\x7f\xff\xff\xff'
try: TTFont(io.BytesIO(bytes(d)), fontNumber=0)
except Exception as e: print(type(e).__name__, str(e)[:80])
# single byte corruption of sfnt header numTables
d=bytearray(open('/repo/Tests/ttx/data/TestTTF.ttf','rb').read())
import collections
c=collections.Counter()
for pos in range(0,12+16*4):
    for val in (0,0xff,0x80):
        e2=bytearray(d); e2[pos]=val
        try:
            f=TTFont(io.BytesIO(bytes(e2)))
            for t in list(f.reader.keys()): f.reader[t]
            c['ok']+=1
        except Exception as e: c[type(e).__name__]+=1
print(c)
