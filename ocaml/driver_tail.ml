(* driver_tail.ml — appended to the extracted module of a property (which defines [entry]).
   Protocol: one case per line:  <function-name> <int> <int> ...   ->   one line of ints.
   Integers are decimal, arbitrary size; conversion to the extracted binary [z] goes through
   OCaml native ints when they fit in 62 bits and through a decimal/binary big-number routine
   otherwise. *)

let rec pos_of_int (n:int) : positive =
  if n = 1 then XH else if n land 1 = 0 then XO (pos_of_int (n lsr 1)) else XI (pos_of_int (n lsr 1))

(* big decimal strings: digits as int array, little-endian base 10^9 would be faster; inputs
   this large are rare (checksums and the like fit in native ints), keep it simple *)
let halve (ds : int list) : int list * int =  (* ds big-endian decimal digits -> quotient, remainder *)
  let rec go ds carry acc = match ds with
    | [] -> (List.rev acc, carry)
    | d :: r -> let v = carry * 10 + d in go r (v land 1) ((v lsr 1) :: acc) in
  let (q, r) = go ds 0 [] in
  let rec strip = function 0 :: (_ :: _ as r) -> strip r | l -> l in
  (strip q, r)

let rec pos_of_digits (ds : int list) : positive =
  (* ds > 0 *)
  if ds = [1] then XH else
  let (q, r) = halve ds in
  if r = 0 then XO (pos_of_digits q) else XI (pos_of_digits q)

let z_of_string (s:Stdlib.String.t) : z =
  let neg = String.length s > 0 && s.[0] = '-' in
  let body = if neg then String.sub s 1 (String.length s - 1) else s in
  if String.length body <= 17 then begin
    let n = int_of_string body in
    if n = 0 then Z0 else if neg then Zneg (pos_of_int n) else Zpos (pos_of_int n)
  end else begin
    let ds = List.init (String.length body) (fun i -> Char.code body.[i] - 48) in
    let rec strip = function 0 :: (_ :: _ as r) -> strip r | l -> l in
    let ds = strip ds in
    if ds = [0] then Z0 else
    let p = pos_of_digits ds in if neg then Zneg p else Zpos p
  end

(* positive -> decimal string; native when < 2^61, else doubling on a decimal digit list *)
let rec pos_bits (p:positive) (acc:int list) : int list = (* MSB first *)
  match p with XH -> 1 :: acc | XO q -> pos_bits q (0 :: acc) | XI q -> pos_bits q (1 :: acc)

let string_of_pos (p:positive) : Stdlib.String.t =
  let bits = pos_bits p [] in
  if List.length bits <= 61 then
    string_of_int (List.fold_left (fun a b -> a * 2 + b) 0 bits)
  else begin
    (* little-endian decimal digits *)
    let dbl_add (ds:int list) (b:int) : int list =
      let rec go ds carry = match ds with
        | [] -> if carry > 0 then [carry] else []
        | d :: r -> let v = d * 2 + carry in (v mod 10) :: go r (v / 10) in
      go ds b in
    let ds = List.fold_left dbl_add [] bits in
    String.concat "" (List.rev_map string_of_int ds)
  end

let string_of_z (v:z) : Stdlib.String.t = match v with
  | Z0 -> "0" | Zpos p -> string_of_pos p | Zneg p -> "-" ^ string_of_pos p

let () =
  let buf = Buffer.create 65536 in
  (try
    while true do
      let line = input_line stdin in
      let toks = List.filter (fun s -> s <> "") (String.split_on_char ' ' line) in
      match toks with
      | [] -> Buffer.add_string buf "\n"
      | name :: args ->
        let namez = List.init (String.length name) (fun i -> z_of_string (string_of_int (Char.code name.[i]))) in
        let out = fv_entry namez (List.map z_of_string args) in
        Buffer.add_string buf (String.concat " " (List.map string_of_z out));
        Buffer.add_char buf '\n';
        if Buffer.length buf > 60000 then (print_string (Buffer.contents buf); Buffer.clear buf)
    done
  with End_of_file -> ());
  print_string (Buffer.contents buf)
