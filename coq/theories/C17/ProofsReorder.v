(* C17/ProofsReorder.v — re-sorting a Coverage keeps every glyph with its parallel entry; the rule table covers the specification *)
From Coq Require Import ZArith List Bool Lia Sorted Permutation.
From FV Require Import Base.Ser Base.Res Base.ListX Data.Data_reorder C17.Model C17.ModelReorder.
Import ListNotations.
Open Scope Z_scope.

Section Sort.
Context {A : Type} (k : A -> Z).
Lemma insert_perm x l : Permutation (insert_by k x l) (x :: l).
Proof.
  induction l as [|y r IH]; cbn; [reflexivity|].
  destruct (k x <=? k y); [reflexivity|]. rewrite IH. apply perm_swap.
Qed.
Lemma sort_perm l : Permutation (sort_by k l) l.
Proof. induction l as [|x r IH]; cbn; [reflexivity|]. rewrite insert_perm. constructor. exact IH. Qed.

Definition kle (a b : A) : Prop := k a <= k b.
Lemma insert_sorted x l : Sorted kle l -> Sorted kle (insert_by k x l).
Proof.
  induction l as [|y r IH]; intros Hs; cbn.
  - constructor; constructor.
  - destruct (Z.leb_spec (k x) (k y)) as [L|L].
    + constructor; [exact Hs|]. constructor. exact L.
    + apply Sorted_inv in Hs. destruct Hs as [Hs Hd]. constructor; [apply IH; exact Hs|].
      destruct r as [|z r']; cbn.
      * constructor. unfold kle. lia.
      * apply HdRel_inv in Hd. destruct (Z.leb_spec (k x) (k z)); constructor; unfold kle in *; lia.
Qed.
Lemma sort_sorted l : Sorted kle (sort_by k l).
Proof. induction l as [|x r IH]; cbn; [constructor|]. apply insert_sorted. exact IH. Qed.
Lemma insert_length x l : length (insert_by k x l) = S (length l).
Proof. induction l as [|y r IH]; cbn; [reflexivity|]. destruct (k x <=? k y); cbn; [reflexivity | rewrite IH; reflexivity]. Qed.
Lemma sort_length l : length (sort_by k l) = length l.
Proof. induction l as [|x r IH]; cbn; [reflexivity|]. rewrite insert_length, IH. reflexivity. Qed.
End Sort.

Lemma combine_map_fst_snd {A B} (l : list (A * B)) : combine (map fst l) (map snd l) = l.
Proof. induction l as [|[a b] r IH]; cbn; [reflexivity|]. rewrite IH. reflexivity. Qed.

(* sorting the pairs by the glyph's id sorts the glyphs by their id *)
Lemma sorted_map_fst (order : list Z) (l : list (Z * Z)) :
  Sorted (kle (fun t : Z * Z => gid_in order (fst t))) l -> Sorted (kle (gid_in order)) (map fst l).
Proof.
  induction l as [|[g e] r IH]; intros Hs; cbn; [constructor|].
  apply Sorted_inv in Hs. destruct Hs as [Hs Hd]. constructor; [apply IH; exact Hs|].
  destruct r as [|[g2 e2] r']; cbn; [constructor|]. constructor. apply HdRel_inv in Hd. exact Hd.
Qed.

(* the glyph -> entry association is the same set of pairs, and the coverage is in glyph-id order *)
Theorem reorder_keeps_association order glyphs p g' p' :
  apply_rule order glyphs (Some p) = Ok (g', Some p') ->
  Permutation (combine g' p') (combine glyphs p) /\ length g' = length p' /\ Sorted (kle (gid_in order)) g'.
Proof.
  unfold apply_rule. destruct (Nat.eqb (length p) (length glyphs)) eqn:El; cbn [negb]; [|discriminate].
  apply Nat.eqb_eq in El. destruct p as [|e r].
  - intros [= <- <-]. destruct glyphs; [|discriminate]. cbn. split; [constructor|]. split; [reflexivity | constructor].
  - set (s := sort_by (fun t : Z * Z => gid_in order (fst t)) (combine glyphs (e :: r))).
    intros [= <- <-]. rewrite combine_map_fst_snd. split; [apply sort_perm|]. split.
    + rewrite !map_length. reflexivity.
    + apply sorted_map_fst. apply sort_sorted.
Qed.
Theorem reorder_plain_coverage order glyphs g' :
  apply_rule order glyphs None = Ok (g', None) -> Permutation g' glyphs /\ Sorted (kle (gid_in order)) g'.
Proof. cbn. intros [= <-]. split; [apply sort_perm | apply sort_sorted]. Qed.

(* looking a glyph up through the coverage gives the entry it had before *)
Fixpoint assoc (g : Z) (l : list (Z * Z)) : option Z :=
  match l with [] => None | (x, e) :: r => if Z.eqb g x then Some e else assoc g r end.
Lemma assoc_In g e l : NoDup (map fst l) -> In (g, e) l -> assoc g l = Some e.
Proof.
  induction l as [|[x y] r IH]; cbn; intros Hnd Hin; [destruct Hin|].
  apply NoDup_cons_iff in Hnd. destruct Hnd as [Hni Hnd].
  destruct Hin as [E | Hin].
  - inversion E; subst. rewrite Z.eqb_refl. reflexivity.
  - destruct (Z.eqb_spec g x) as [->|Hne]; [|auto]. exfalso. apply Hni. apply in_map_iff. exists (x, e). auto.
Qed.
Lemma assoc_some_In g e l : assoc g l = Some e -> In (g, e) l.
Proof.
  induction l as [|[x y] r IH]; cbn; [discriminate|].
  destruct (Z.eqb_spec g x) as [->|Hne]; [intros [= <-]; left; auto | intros H; right; auto].
Qed.
Theorem reorder_lookup_unchanged order glyphs p g' p' g :
  NoDup glyphs -> apply_rule order glyphs (Some p) = Ok (g', Some p') ->
  assoc g (combine g' p') = assoc g (combine glyphs p).
Proof.
  intros Hnd Happ. assert (Hlen : length p = length glyphs).
  { unfold apply_rule in Happ. destruct (Nat.eqb (length p) (length glyphs)) eqn:El; cbn [negb] in Happ; [|discriminate]. apply Nat.eqb_eq in El. exact El. }
  destruct (reorder_keeps_association _ _ _ _ _ Happ) as (Hperm & Hl & _).
  assert (Hfst : map fst (combine glyphs p) = glyphs).
  { clear -Hlen. revert p Hlen. induction glyphs as [|x r IH]; intros [|e q] H; cbn in *; try lia; auto. rewrite IH; auto. }
  assert (Hnd1 : NoDup (map fst (combine glyphs p))) by (rewrite Hfst; exact Hnd).
  assert (Hnd2 : NoDup (map fst (combine g' p'))).
  { apply (Permutation_NoDup (l := map fst (combine glyphs p))); [|exact Hnd1]. apply Permutation_map. symmetry. exact Hperm. }
  destruct (assoc g (combine glyphs p)) as [e|] eqn:E1.
  - apply assoc_In; [exact Hnd2|]. apply (Permutation_in (l := combine glyphs p)); [symmetry; exact Hperm|]. apply assoc_some_In. exact E1.
  - destruct (assoc g (combine g' p')) as [e|] eqn:E2; [|reflexivity]. exfalso.
    apply assoc_some_In in E2. apply (Permutation_in (l' := combine glyphs p)) in E2; [|exact Hperm].
    rewrite (assoc_In g e _ Hnd1 E2) in E1. discriminate.
Qed.

(* ---- tied to the source: the rule table regenerated from reorderGlyphs.py *)
Theorem reorder_rules_cover_spec :
  forallb in_rules (spec_parallel ++ spec_plain) = true /\ forallb in_spec reorder_coverage_rules = true.
Proof. split; vm_compute; reflexivity. Qed.

Example reorder_example :
  apply_rule [10; 30; 20] [20; 30; 10] (Some [200; 300; 100]) = Ok ([10; 30; 20], Some [100; 300; 200]).
Proof. reflexivity. Qed.
