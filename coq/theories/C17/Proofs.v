(* C17/Proofs.v *)
From Coq Require Import ZArith QArith Qround Qabs Lqa Lia List Bool.
From FV Require Import Base.Ser Base.Res Data.Data_scale C17.Model.
Import ListNotations.
Open Scope Z_scope.

(* ---------- the reverse glyph map is never stale ---------- *)
Definition inv (f : font) : Prop := cache f = None \/ cache f = Some (build (order f)).

Lemma ensure_cache_spec f rb : inv f ->
  let '(f', d) := ensure_cache f rb in order f' = order f /\ d = build (order f) /\ inv f'.
Proof.
  intros [H|H]; unfold ensure_cache; rewrite H.
  - cbn. repeat split. right. reflexivity.
  - destruct rb; cbn; repeat split; auto; right; auto.
Qed.

Lemma step_inv f o : inv f -> inv (fst (step f o)).
Proof.
  intros H. destruct o as [l|n|gid|rb]; cbn [step].
  - left. reflexivity.
  - pose proof (ensure_cache_spec f false H) as E. destruct (ensure_cache f false) as [f' d]. cbn. tauto.
  - exact H.
  - pose proof (ensure_cache_spec f rb H) as E. destruct (ensure_cache f rb) as [f' d]. cbn. tauto.
Qed.

Lemma run_inv ops : forall f, inv f -> inv (fst (run f ops)).
Proof.
  induction ops as [|o r IH]; intros f H; cbn [run]; [exact H|].
  pose proof (step_inv f o H) as S. destruct (step f o) as [f1 v]. cbn [fst] in S.
  specialize (IH f1 S). destruct (run f1 r) as [f2 vs]. exact IH.
Qed.

(* After ANY sequence of setGlyphOrder / lookups, getGlyphID answers from the CURRENT order. *)
Theorem gid_cache_consistent f ops n : inv f ->
  let f' := fst (run f ops) in
  snd (step f' (GetGlyphID n)) =
  OId (match dict_get n (build (order f')) with Some v => Ok v | None => fallback_id n end).
Proof.
  intros H. cbv zeta. pose proof (run_inv ops f H) as I. set (f' := fst (run f ops)) in *.
  cbn [step]. pose proof (ensure_cache_spec f' false I) as E.
  destruct (ensure_cache f' false) as [f'' d]. destruct E as (_ & -> & _). reflexivity.
Qed.

(* the built map sends a name to the index of its last occurrence *)
Lemma build_from_get n : forall order i d,
  dict_get n (build_from i order d) =
  match dict_get n (build_from i order []) with Some v => Some v | None => dict_get n d end.
Proof.
  induction order as [|m r IH]; intros i d; cbn [build_from]; [reflexivity|].
  rewrite (IH (i + 1) ((m, i) :: d)). rewrite (IH (i + 1) [(m, i)]).
  destruct (dict_get n (build_from (i + 1) r [])); [reflexivity|].
  cbn [dict_get]. destruct (list_Z_eqb n m); reflexivity.
Qed.

Theorem build_maps_names_to_index order : forall i n v,
  dict_get n (build_from i order []) = Some v ->
  i <= v < i + Z.of_nat (length order) /\ nth_error order (Z.to_nat (v - i)) = Some n.
Proof.
  induction order as [|m r IH]; intros i n v H; cbn [build_from] in H; [discriminate|].
  rewrite build_from_get in H.
  destruct (dict_get n (build_from (i + 1) r [])) as [w|] eqn:E.
  - apply Some_inj in H. subst w. destruct (IH (i + 1) n v E) as [B N].
    cbn [length]. split; [lia|].
    replace (Z.to_nat (v - i)) with (S (Z.to_nat (v - (i + 1)))) by lia. exact N.
  - cbn [dict_get] in H. destruct (list_Z_eqb n m) eqn:EQ; [|discriminate].
    apply Some_inj in H. subst v. cbn [length]. split; [lia|].
    replace (Z.to_nat (i - i)) with 0%nat by lia. cbn.
    f_equal. symmetry. clear - EQ. revert m EQ. induction n as [|x n IHn]; intros [|y m] E; cbn in E; try discriminate; auto.
    apply andb_prop in E. destruct E as [E1 E2]. apply Z.eqb_eq in E1. subst. f_equal. apply IHn. exact E2.
Qed.

(* ---------- scaling: rounding error at most half a unit ---------- *)
Open Scope Q_scope.
Theorem scale_error v f : Qabs (inject_Z (scale v f) - inject_Z v * f) <= 1 # 2.
Proof.
  unfold scale, otRound. set (q := inject_Z v * f).
  pose proof (Qfloor_le (q + (1 # 2))) as L. pose proof (Qlt_floor (q + (1 # 2))) as U.
  rewrite inject_Z_plus in U. change (inject_Z 1) with 1 in U.
  apply Qabs_Qle_condition. split; lra.
Qed.

(* scaling by 1 changes nothing; scaling an exact multiple is exact *)
Theorem scale_identity v : scale v 1 = v.
Proof.
  unfold scale, otRound. rewrite Qmult_1_r.
  assert (E: Qfloor (inject_Z v + (1 # 2)) = v).
  { pose proof (Qfloor_le (inject_Z v + (1 # 2))) as L. pose proof (Qlt_floor (inject_Z v + (1 # 2))) as U.
    rewrite inject_Z_plus in U. change (inject_Z 1) with 1 in U.
    set (k := Qfloor (inject_Z v + (1 # 2))) in *.
    assert (A: inject_Z k <= inject_Z v + (1 # 2)) by exact L.
    assert (B: inject_Z v + (1 # 2) < inject_Z k + 1) by exact U.
    assert (A': (k <= v)%Z). { destruct (Z_le_gt_dec k v); [assumption|]. exfalso.
      assert (inject_Z (v + 1) <= inject_Z k) by (rewrite <- Zle_Qle; lia). rewrite inject_Z_plus in H. change (inject_Z 1) with 1 in H. lra. }
    assert (B': (v <= k)%Z). { destruct (Z_le_gt_dec v k); [assumption|]. exfalso.
      assert (inject_Z (k + 1) <= inject_Z v) by (rewrite <- Zle_Qle; lia). rewrite inject_Z_plus in H. change (inject_Z 1) with 1 in H. lra. }
    lia. }
  exact E.
Qed.

(* a sum of n scaled values differs from the scaled sum by at most n/2 (+1/2) *)
Theorem scale_sum_budget (vs : list Z) f :
  Qabs (inject_Z (fold_right Z.add 0%Z (map (fun v => scale v f) vs)) - inject_Z (fold_right Z.add 0%Z vs) * f)
  <= inject_Z (Z.of_nat (length vs)) * (1 # 2).
Proof.
  induction vs as [|v r IH]; cbn [map fold_right length].
  - change (Z.of_nat 0) with 0%Z. change (inject_Z 0) with 0. apply Qabs_Qle_condition. split; lra.
  - rewrite !inject_Z_plus. pose proof (scale_error v f) as E.
    rewrite Nat2Z.inj_succ. unfold Z.succ. rewrite inject_Z_plus. change (inject_Z 1) with 1.
    apply Qabs_Qle_condition in E. apply Qabs_Qle_condition in IH. apply Qabs_Qle_condition. split; lra.
Qed.

(* ---------- every design-unit field of the specification is registered with the scaler, and no
   non-length field is (re-checked against the current source through Data_scale.v) ---------- *)
Theorem scale_fields_cover :
  forallb registered spec_unit_fields = true /\ forallb (fun p => negb (registered p)) spec_unscaled_fields = true.
Proof. split; vm_compute; reflexivity. Qed.
