(* C17/Props.v — property theorems only *)
From Coq Require Import ZArith QArith Qabs List Bool.
From FV Require Import Base.Ser Base.Res Data.Data_scale C17.Model C17.Proofs.
Import ListNotations.

(* after ANY sequence of setGlyphOrder / lookups the glyph-ID map reflects the current glyph order *)
Theorem gid_cache_consistent : forall f ops n, inv f ->
  let f' := fst (run f ops) in
  snd (step f' (GetGlyphID n)) =
  OId (match dict_get n (build (order f')) with Some v => Ok v | None => fallback_id n end).
Proof. exact Proofs.gid_cache_consistent. Qed.
Print Assumptions gid_cache_consistent.

Theorem build_maps_names_to_index : forall order i n v,
  dict_get n (build_from i order []) = Some v ->
  (i <= v < i + Z.of_nat (length order))%Z /\ nth_error order (Z.to_nat (v - i)) = Some n.
Proof. exact Proofs.build_maps_names_to_index. Qed.
Print Assumptions build_maps_names_to_index.

Theorem scale_error : forall v f, (Qabs (inject_Z (scale v f) - inject_Z v * f) <= 1 # 2)%Q.
Proof. exact Proofs.scale_error. Qed.
Print Assumptions scale_error.

Theorem scale_identity : forall v, scale v 1 = v.
Proof. exact Proofs.scale_identity. Qed.
Print Assumptions scale_identity.

Theorem scale_sum_budget : forall (vs : list Z) f,
  (Qabs (inject_Z (fold_right Z.add 0%Z (map (fun v => scale v f) vs)) - inject_Z (fold_right Z.add 0%Z vs) * f)
   <= inject_Z (Z.of_nat (length vs)) * (1 # 2))%Q.
Proof. exact Proofs.scale_sum_budget. Qed.
Print Assumptions scale_sum_budget.

(* tied to the source: the scaler's registered attribute list, regenerated from scaleUpem.py *)
Theorem scale_fields_cover :
  forallb registered spec_unit_fields = true /\ forallb (fun p => negb (registered p)) spec_unscaled_fields = true.
Proof. exact Proofs.scale_fields_cover. Qed.
Print Assumptions scale_fields_cover.

(* ---- reorderGlyphs: one Coverage and the list parallel to it (ModelReorder.v: _sort_by_gid / ReorderCoverage.apply) *)
From FV Require C17.ModelReorder C17.ProofsReorder.
Theorem reorder_keeps_association : forall order glyphs p g' p',
  ModelReorder.apply_rule order glyphs (Some p) = Ok (g', Some p') ->
  Permutation.Permutation (combine g' p') (combine glyphs p) /\ length g' = length p' /\
  Sorted.Sorted (ProofsReorder.kle (ModelReorder.gid_in order)) g'.
Proof. exact ProofsReorder.reorder_keeps_association. Qed.
Print Assumptions reorder_keeps_association.

Theorem reorder_lookup_unchanged : forall order glyphs p g' p' g,
  NoDup glyphs -> ModelReorder.apply_rule order glyphs (Some p) = Ok (g', Some p') ->
  ProofsReorder.assoc g (combine g' p') = ProofsReorder.assoc g (combine glyphs p).
Proof. exact ProofsReorder.reorder_lookup_unchanged. Qed.
Print Assumptions reorder_lookup_unchanged.

(* tied to the source: the rule table regenerated from reorderGlyphs.py names, for every Coverage of the OpenType specification,
   exactly the array the specification orders by that Coverage — and nothing else *)
Theorem reorder_rules_cover_spec :
  forallb ModelReorder.in_rules (ModelReorder.spec_parallel ++ ModelReorder.spec_plain) = true /\
  forallb ModelReorder.in_spec Data_reorder.reorder_coverage_rules = true.
Proof. exact ProofsReorder.reorder_rules_cover_spec. Qed.
Print Assumptions reorder_rules_cover_spec.
