From Coq Require Import ZArith QArith List String Bool.
From FV Require Import Base.Ser Base.Res C17.Model.
From FV Require C17.ModelReorder.
Import ListNotations.
Open Scope string_scope.
Global Instance De_op : De op :=
  fun l => match l with
           | k :: r =>
             if (k =? 0)%Z then match de r with Some (x, r') => Some (SetGlyphOrder x, r') | None => None end
             else if (k =? 1)%Z then match de r with Some (x, r') => Some (GetGlyphID x, r') | None => None end
             else if (k =? 2)%Z then match de r with Some (x, r') => Some (GetGlyphName x, r') | None => None end
             else match de r with Some (x, r') => Some (GetReverseMap x, r') | None => None end
           | [] => None end.
Global Instance Ser_outv : Ser outv :=
  fun o => match o with
           | ONone => [0%Z] | OId r => 1%Z :: ser r | OName n => 2%Z :: ser n | OMapSize k => [3%Z; k] end.
Definition run_ops (init : list name) (ops : list op) : list outv := snd (run (mkFont init None) ops).
Definition reg : registry := [
  ("run_ops", run2 run_ops);
  ("scale", run2 scale);
  ("reorder_coverage", run3 ModelReorder.apply_rule)
].
Definition fv_entry := dispatch reg.
