(* C17/ModelReorder.v — ttLib/reorderGlyphs.py: _sort_by_gid (28-43) and ReorderCoverage.apply (62-90) on one Coverage and the list
   that runs parallel to it; the rule table _REORDER_RULES is regenerated from the source (Data_reorder.v). *)
From Coq Require Import ZArith List Bool String.
From FV Require Import Base.Ser Base.Res Base.ListX Data.Data_reorder C17.Model.
Import ListNotations.
Open Scope Z_scope.

(* font.getGlyphID after setGlyphOrder(new_order): the index in the new order (reorderGlyphs checked it is a permutation of the old) *)
Fixpoint gid_in (order : list Z) (n : Z) : Z :=
  match order with [] => 0 | x :: r => if Z.eqb n x then 0 else 1 + gid_in r n end.

(* sorted(..., key=...) is stable: an element goes before the first one with a strictly... not smaller key among those after it *)
Fixpoint insert_by {A} (k : A -> Z) (x : A) (l : list A) : list A :=
  match l with [] => [x] | y :: r => if k x <=? k y then x :: y :: r else y :: insert_by k x r end.
Fixpoint sort_by {A} (k : A -> Z) (l : list A) : list A :=
  match l with [] => [] | x :: r => insert_by k x (sort_by k r) end.

(* the rule applied to one coverage: glyph names and, when the rule names one, the parallel list (entries are opaque) *)
Definition apply_rule (order : list Z) (glyphs : list Z) (par : option (list Z)) : Res (list Z * option (list Z)) :=
  match par with
  | None => Ok (sort_by (gid_in order) glyphs, None)
  | Some p =>
    if negb (Nat.eqb (List.length p) (List.length glyphs)) then Err AssertionError
    else match p with
         | [] => Ok (sort_by (gid_in order) glyphs, Some [])         (* `if parallel_list:` is false for an empty list *)
         | _ => let s := sort_by (fun t => gid_in order (fst t)) (combine glyphs p) in Ok (map fst s, Some (map snd s))
         end
  end.

(* ---- what the OpenType specification says runs parallel to which Coverage (written from the specification, NOT from the code):
   (structure, format or -1, coverage field, parallel array — dotted through the intermediate table) *)
Open Scope string_scope.
Definition mk (t : string) (f : Z) (c p : string) : list Z * Z * list Z * list Z := (codes t, f, codes c, codes p).
Definition spec_parallel : list (list Z * Z * list Z * list Z) := [
  mk "SinglePos" 2 "Coverage" "Value";
  mk "PairPos" 1 "Coverage" "PairSet";
  mk "CursivePos" 1 "Coverage" "EntryExitRecord";
  mk "MarkBasePos" 1 "MarkCoverage" "MarkArray.MarkRecord";
  mk "MarkBasePos" 1 "BaseCoverage" "BaseArray.BaseRecord";
  mk "MarkLigPos" 1 "MarkCoverage" "MarkArray.MarkRecord";
  mk "MarkLigPos" 1 "LigatureCoverage" "LigatureArray.LigatureAttach";
  mk "MarkMarkPos" 1 "Mark1Coverage" "Mark1Array.MarkRecord";
  mk "MarkMarkPos" 1 "Mark2Coverage" "Mark2Array.Mark2Record";
  mk "ContextPos" 1 "Coverage" "PosRuleSet";
  mk "ChainContextPos" 1 "Coverage" "ChainPosRuleSet";
  mk "ContextSubst" 1 "Coverage" "SubRuleSet";
  mk "ChainContextSubst" 1 "Coverage" "ChainSubRuleSet";
  mk "ReverseChainSingleSubst" 1 "Coverage" "Substitute";
  mk "AttachList" (-1) "Coverage" "AttachPoint";
  mk "LigCaretList" (-1) "Coverage" "LigGlyph";
  mk "MathItalicsCorrectionInfo" (-1) "Coverage" "ItalicsCorrection";
  mk "MathTopAccentAttachment" (-1) "TopAccentCoverage" "TopAccentAttachment";
  mk "MathKernInfo" (-1) "MathKernCoverage" "MathKernInfoRecords";
  mk "MathVariants" (-1) "VertGlyphCoverage" "VertGlyphConstruction";
  mk "MathVariants" (-1) "HorizGlyphCoverage" "HorizGlyphConstruction"
].
(* coverages with nothing parallel to them *)
Definition spec_plain : list (list Z * Z * list Z * list Z) := [
  mk "SinglePos" 1 "Coverage" "";
  mk "PairPos" 2 "Coverage" "";
  mk "ContextPos" 2 "Coverage" ""; mk "ContextPos" 3 "Coverage" "";
  mk "ChainContextPos" 2 "Coverage" "";
  mk "ChainContextPos" 3 "BacktrackCoverage" ""; mk "ChainContextPos" 3 "InputCoverage" ""; mk "ChainContextPos" 3 "LookAheadCoverage" "";
  mk "ContextSubst" 2 "Coverage" ""; mk "ContextSubst" 3 "Coverage" "";
  mk "ChainContextSubst" 2 "Coverage" "";
  mk "ChainContextSubst" 3 "BacktrackCoverage" ""; mk "ChainContextSubst" 3 "InputCoverage" ""; mk "ChainContextSubst" 3 "LookAheadCoverage" "";
  mk "ReverseChainSingleSubst" 1 "BacktrackCoverage" ""; mk "ReverseChainSingleSubst" 1 "LookAheadCoverage" "";
  mk "MarkGlyphSetsDef" (-1) "Coverage" "";
  mk "MathGlyphInfo" (-1) "ExtendedShapeCoverage" ""
].
Definition rule_eqb (a b : list Z * Z * list Z * list Z) : bool :=
  let '(t1, f1, c1, p1) := a in let '(t2, f2, c2, p2) := b in
  list_Z_eqb t1 t2 && Z.eqb f1 f2 && list_Z_eqb c1 c2 && list_Z_eqb p1 p2.
Definition in_rules (r : list Z * Z * list Z * list Z) : bool := existsb (rule_eqb r) reorder_coverage_rules.
Definition in_spec (r : list Z * Z * list Z * list Z) : bool := existsb (rule_eqb r) (spec_parallel ++ spec_plain)%list.
