(* C17/Model.v — glyph-order / reverse-map cache state machine (ttLib/ttFont.py:1054-1064, 1207-1238),
   the scaler (ttLib/scaleUpem.py:25-26) and the list of scaled fields (regenerated into Data_scale.v). *)
From Coq Require Import ZArith QArith Qround List Bool String.
From FV Require Import Base.Ser Base.Res Data.Data_scale.
Import ListNotations.
Open Scope Z_scope.

Definition name := list Z.

(* dict built by _buildReverseGlyphOrderDict: later duplicates overwrite earlier ones *)
Fixpoint build_from (i : Z) (order : list name) (d : list (name * Z)) : list (name * Z) :=
  match order with
  | [] => d
  | n :: r => build_from (i + 1) r ((n, i) :: d)      (* newest binding first *)
  end.
Definition build (order : list name) : list (name * Z) := build_from 0 order [].
Fixpoint dict_get (n : name) (d : list (name * Z)) : option Z :=
  match d with
  | [] => None
  | (k, v) :: r => if list_Z_eqb n k then Some v else dict_get n r
  end.

Record font := mkFont { order : list name; cache : option (list (name * Z)) }.

Inductive op :=
| SetGlyphOrder (l : list name)
| GetGlyphID (n : name)
| GetGlyphName (gid : Z)
| GetReverseMap (rebuild : bool).

Inductive outv := ONone | OId (r : Res Z) | OName (n : name) | OMapSize (k : Z).

(* "glyph" ++ digits fallback *)
Definition is_digit (c : Z) : bool := (48 <=? c) && (c <=? 57).
Fixpoint parse_digits (acc : Z) (l : list Z) : option Z :=
  match l with
  | [] => Some acc
  | c :: r => if is_digit c then parse_digits (acc * 10 + (c - 48)) r else None
  end.
Definition glyph_prefix : list Z := [103; 108; 121; 112; 104].
Definition fallback_id (n : name) : Res Z :=
  if list_Z_eqb (firstn 5 n) glyph_prefix then
    match skipn 5 n with
    | [] => Err KeyError
    | ds => match parse_digits 0 ds with Some v => Ok v | None => Err KeyError end
    end
  else Err KeyError.

Definition ensure_cache (f : font) (rebuild : bool) : font * list (name * Z) :=
  match cache f with
  | Some d => if rebuild then (mkFont (order f) (Some (build (order f))), build (order f)) else (f, d)
  | None => (mkFont (order f) (Some (build (order f))), build (order f))
  end.

Fixpoint distinct_keys (d : list (name * Z)) : Z :=
  match d with
  | [] => 0
  | (k, _) :: r => (if existsb (fun kv : name * Z => list_Z_eqb k (fst kv)) r then 0 else 1) + distinct_keys r
  end.

Definition zfill5 (v : Z) : list Z := map (fun i => 48 + (v / 10 ^ i) mod 10) [4; 3; 2; 1; 0].

Definition step (f : font) (o : op) : font * outv :=
  match o with
  | SetGlyphOrder l => (mkFont l None, ONone)          (* invalidates the reverse map *)
  | GetGlyphID n =>
    let '(f', d) := ensure_cache f false in
    (f', OId (match dict_get n d with Some v => Ok v | None => fallback_id n end))
  | GetGlyphName gid =>
    (f, OName (match nth_error (order f) (Z.to_nat gid) with
               | Some n => if 0 <=? gid then n else glyph_prefix ++ zfill5 gid
               | None => glyph_prefix ++ zfill5 gid end))
  | GetReverseMap rb => let '(f', d) := ensure_cache f rb in (f', OMapSize (distinct_keys d))
  end.

Fixpoint run (f : font) (ops : list op) : font * list outv :=
  match ops with
  | [] => (f, [])
  | o :: r => let '(f1, v) := step f o in let '(f2, vs) := run f1 r in (f2, v :: vs)
  end.

(* ---- ScalerVisitor.scale = otRound(v * f) = floor(v * f + 1/2) *)
Definition otRound (q : Q) : Z := Qfloor (q + (1 # 2)).
Definition scale (v : Z) (f : Q) : Z := otRound (inject_Z v * f).

(* ---- design-unit fields the OpenType specification measures in font units, per table / structure
   (written from the specification, NOT from scaleUpem.py) *)
Open Scope string_scope.
Definition spec_unit_fields : list (list Z * list Z) :=
  map (fun p : string * string => (codes (fst p), codes (snd p))) [
    ("table:head", "unitsPerEm"); ("table:head", "xMin"); ("table:head", "yMin"); ("table:head", "xMax"); ("table:head", "yMax");
    ("table:hhea", "ascent"); ("table:hhea", "descent"); ("table:hhea", "lineGap"); ("table:hhea", "advanceWidthMax");
    ("table:hhea", "minLeftSideBearing"); ("table:hhea", "minRightSideBearing"); ("table:hhea", "xMaxExtent"); ("table:hhea", "caretOffset");
    ("table:vhea", "ascent"); ("table:vhea", "descent"); ("table:vhea", "lineGap"); ("table:vhea", "advanceHeightMax");
    ("table:vhea", "minTopSideBearing"); ("table:vhea", "minBottomSideBearing"); ("table:vhea", "yMaxExtent"); ("table:vhea", "caretOffset");
    ("table:post", "underlinePosition"); ("table:post", "underlineThickness");
    ("table:OS/2", "xAvgCharWidth"); ("table:OS/2", "ySubscriptXSize"); ("table:OS/2", "ySubscriptYSize");
    ("table:OS/2", "ySubscriptXOffset"); ("table:OS/2", "ySubscriptYOffset"); ("table:OS/2", "ySuperscriptXSize");
    ("table:OS/2", "ySuperscriptYSize"); ("table:OS/2", "ySuperscriptXOffset"); ("table:OS/2", "ySuperscriptYOffset");
    ("table:OS/2", "yStrikeoutSize"); ("table:OS/2", "yStrikeoutPosition"); ("table:OS/2", "sTypoAscender");
    ("table:OS/2", "sTypoDescender"); ("table:OS/2", "sTypoLineGap"); ("table:OS/2", "usWinAscent"); ("table:OS/2", "usWinDescent");
    ("table:OS/2", "sxHeight"); ("table:OS/2", "sCapHeight");
    ("table:VORG", "defaultVertOriginY");
    ("ot:ValueRecord", "XAdvance"); ("ot:ValueRecord", "YAdvance"); ("ot:ValueRecord", "XPlacement"); ("ot:ValueRecord", "YPlacement");
    ("ot:Anchor", "XCoordinate"); ("ot:Anchor", "YCoordinate");
    ("ot:CaretValue", "Coordinate"); ("ot:BaseCoord", "Coordinate");
    ("ot:MathValueRecord", "Value");
    ("ot:MathConstants", "DelimitedSubFormulaMinHeight"); ("ot:MathConstants", "DisplayOperatorMinHeight");
    ("ot:MathVariants", "MinConnectorOverlap"); ("ot:MathGlyphVariantRecord", "AdvanceMeasurement");
    ("ot:GlyphPartRecord", "StartConnectorLength"); ("ot:GlyphPartRecord", "EndConnectorLength"); ("ot:GlyphPartRecord", "FullAdvance");
    ("ot:ClipBox", "xMin"); ("ot:ClipBox", "yMin"); ("ot:ClipBox", "xMax"); ("ot:ClipBox", "yMax")
  ].
(* fields that are NOT lengths in font units and must not be scaled *)
Definition spec_unscaled_fields : list (list Z * list Z) :=
  map (fun p : string * string => (codes (fst p), codes (snd p))) [
    ("table:head", "flags"); ("table:head", "lowestRecPPEM"); ("table:head", "fontRevision");
    ("table:hhea", "caretSlopeRise"); ("table:hhea", "caretSlopeRun"); ("table:hhea", "numberOfHMetrics");
    ("table:OS/2", "usWeightClass"); ("table:OS/2", "usWidthClass"); ("table:OS/2", "fsType");
    ("table:post", "italicAngle");
    ("ot:MathConstants", "ScriptPercentScaleDown"); ("ot:MathConstants", "ScriptScriptPercentScaleDown");
    ("ot:MathConstants", "RadicalDegreeBottomRaisePercent")
  ].
Definition pair_eqb (a b : list Z * list Z) : bool := list_Z_eqb (fst a) (fst b) && list_Z_eqb (snd a) (snd b).
Definition registered (p : list Z * list Z) : bool := existsb (pair_eqb p) scale_registered.
