(* C14/Proofs.v *)
From Coq Require Import QArith Lqa Lia List Bool Setoid Morphisms.
From FV Require Import Base.Ser Base.Res Geom.QTools C14.Model.
Import ListNotations.
Open Scope Q_scope.

Definition peq (a b : pt) : Prop := fst a == fst b /\ snd a == snd b.

(* ---------- Transform algebra ---------- *)
Theorem transform_compose self other p :
  peq (transformPoint (xf_transform self other) p) (transformPoint self (transformPoint other p)).
Proof. unfold peq, transformPoint, xf_transform. cbn [fst snd xx xy yx yy dx dy]. split; ring. Qed.

Theorem transform_inverse t p : ~ xf_det t == 0 ->
  peq (transformPoint (xf_inverse t) (transformPoint t p)) p /\
  peq (transformPoint t (transformPoint (xf_inverse t) p)) p.
Proof.
  intros D. unfold peq, transformPoint, xf_inverse, xf_det in *. cbn [fst snd xx xy yx yy dx dy].
  repeat split; field; exact D.
Qed.

(* affine maps commute with Bezier evaluation: transforming control points transforms the curve *)
Definition lerp2 (a b : pt) (t : Q) : pt := ((1 - t) * fst a + t * fst b, (1 - t) * snd a + t * snd b).
Theorem transform_lerp T a b t : peq (transformPoint T (lerp2 a b t)) (lerp2 (transformPoint T a) (transformPoint T b) t).
Proof. unfold peq, transformPoint, lerp2. cbn [fst snd]. split; ring. Qed.

(* ---------- area ---------- *)
Lemma area_seg_rev s : area_seg (rev_seg s) == - area_seg s.
Proof. destruct s; unfold area_seg, rev_seg, line_term; cbn [fst snd]; field. Qed.

Lemma area_app a b : area (a ++ b) == area a + area b.
Proof.
  induction a as [|s r IH].
  - change (([] : list gseg) ++ b) with b. change (area []) with 0. lra.
  - change ((s :: r) ++ b) with (s :: (r ++ b)).
    change (area (s :: r ++ b)) with (area_seg s + area (r ++ b)).
    change (area (s :: r)) with (area_seg s + area r). rewrite IH. ring.
Qed.

(* reversing a path (segments in reverse order, each with its control points reversed) negates the
   signed area *)
Theorem area_reverse_neg l : area (rev_path l) == - area l.
Proof.
  unfold rev_path. induction l as [|s r IH].
  - change (area []) with 0. cbn [rev map]. change (area []) with 0. lra.
  - cbn [rev]. rewrite map_app, area_app. cbn [map].
    change (area [rev_seg s]) with (area_seg (rev_seg s) + 0).
    change (area (s :: r)) with (area_seg s + area r).
    rewrite IH, area_seg_rev. ring.
Qed.

Lemma rev_seg_involutive s : rev_seg (rev_seg s) = s.
Proof. destruct s; reflexivity. Qed.
Theorem rev_path_involutive l : rev_path (rev_path l) = l.
Proof.
  unfold rev_path. rewrite <- map_rev, rev_involutive, map_map.
  induction l as [|s r IH]; cbn [map]; [reflexivity|]. rewrite rev_seg_involutive, IH. reflexivity.
Qed.

(* the quadratic and cubic area formulas agree: a quadratic and its degree-elevated cubic enclose the same area,
   and a line is the degenerate cubic *)
Theorem area_quadratic_elevation p0 p1 p2 :
  area_seg (GQ p0 p1 p2) ==
  area_seg (GC p0 (fst p0 + (2 # 3) * (fst p1 - fst p0), snd p0 + (2 # 3) * (snd p1 - snd p0))
               (fst p2 + (2 # 3) * (fst p1 - fst p2), snd p2 + (2 # 3) * (snd p1 - snd p2)) p2).
Proof. unfold area_seg, line_term. cbn [fst snd]. field. Qed.
Theorem area_line_as_cubic p0 p1 :
  area_seg (GL p0 p1) ==
  area_seg (GC p0 (fst p0 + (1 # 3) * (fst p1 - fst p0), snd p0 + (1 # 3) * (snd p1 - snd p0))
               (fst p0 + (2 # 3) * (fst p1 - fst p0), snd p0 + (2 # 3) * (snd p1 - snd p0)) p1).
Proof. unfold area_seg, line_term. cbn [fst snd]. field. Qed.

(* translation invariance of the area of a closed path: each segment changes by a boundary term that
   telescopes; stated per segment *)
Theorem area_seg_translate s dxx dyy :
  area_seg (map_seg (fun p => (fst p + dxx, snd p + dyy)) s)
  == area_seg s - dyy * (fst (seg_end s) - fst (seg_start s)).
Proof. destruct s; unfold area_seg, line_term, map_seg, seg_end, seg_start; cbn [fst snd]; field. Qed.
