From Coq Require Import QArith List String Bool.
From FV Require Import Base.Ser Base.Res C14.Model.
From FV Require C14.ModelPointPen C14.ModelDrop.
Import ListNotations.
Open Scope string_scope.
Global Instance De_xf : De xf :=
  fun l => match de l with
           | Some ((((((a, b), c), d), e), f), r) => Some (mkXf a b c d e f, r)
           | None => None end.
Global Instance Ser_xf : Ser xf := fun t => ser (Qred (xx t), (Qred (xy t), (Qred (yx t), (Qred (yy t), (Qred (dx t), Qred (dy t)))))).
Definition inv_or_none (t : xf) : option xf := if Qeq_bool (xf_det t) 0 then None else Some (xf_inverse t).
Global Instance De_gseg : De gseg :=
  fun l => match l with
           | k :: r =>
             if (k =? 0)%Z then match de r with Some ((a, b), r') => Some (GL a b, r') | None => None end
             else if (k =? 1)%Z then match de r with Some (((a, b), c), r') => Some (GQ a b c, r') | None => None end
             else match de r with Some ((((a, b), c), d), r') => Some (GC a b c d, r') | None => None end
           | [] => None end.
Definition ptype_code (t : ModelPointPen.ptype) : Z :=
  match t with ModelPointPen.TMove => 0 | ModelPointPen.TLine => 1 | ModelPointPen.TCurve => 2 | ModelPointPen.TQCurve => 3 end%Z.
Global Instance Ser_ptype : Ser ModelPointPen.ptype := fun t => [ptype_code t].
Global Instance De_ptype : De ModelPointPen.ptype :=
  fun l => match l with
           | k :: r => Some ((if (k =? 0)%Z then ModelPointPen.TMove else if (k =? 1)%Z then ModelPointPen.TLine
                              else if (k =? 2)%Z then ModelPointPen.TCurve else ModelPointPen.TQCurve), r)
           | [] => None end.
Definition reg : registry := [
  ("transformPoint", run2 transformPoint);
  ("xf_transform", run2 xf_transform);
  ("xf_inverse", run1 inv_or_none);
  ("area", run1 (fun l => Qred (area l)));
  ("reversedContour", run2 reversedContour);
  ("segment_to_point", run1 ModelPointPen.segment_to_point);
  ("point_to_segment", run2 ModelPointPen.point_to_segment);
  ("dropImplied", run3 ModelDrop.dropImplied)
].
Definition fv_entry := dispatch reg.
