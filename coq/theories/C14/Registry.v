From Coq Require Import QArith List String Bool.
From FV Require Import Base.Ser Base.Res C14.Model.
Import ListNotations.
Open Scope string_scope.
Global Instance De_xf : De xf :=
  fun l => match de l with
           | Some ((((((a, b), c), d), e), f), r) => Some (mkXf a b c d e f, r)
           | None => None end.
Global Instance Ser_xf : Ser xf := fun t => ser (Qred (xx t), (Qred (xy t), (Qred (yx t), (Qred (yy t), (Qred (dx t), Qred (dy t)))))).
Definition inv_or_none (t : xf) : option xf := if Qeq_bool (xf_det t) 0 then None else Some (xf_inverse t).
Global Instance De_gseg : De gseg :=
  fun l => match l with
           | k :: r =>
             if (k =? 0)%Z then match de r with Some ((a, b), r') => Some (GL a b, r') | None => None end
             else if (k =? 1)%Z then match de r with Some (((a, b), c), r') => Some (GQ a b c, r') | None => None end
             else match de r with Some ((((a, b), c), d), r') => Some (GC a b c d, r') | None => None end
           | [] => None end.
Definition reg : registry := [
  ("transformPoint", run2 transformPoint);
  ("xf_transform", run2 xf_transform);
  ("xf_inverse", run1 inv_or_none);
  ("area", run1 (fun l => Qred (area l)));
  ("reversedContour", run2 reversedContour)
].
Definition fv_entry := dispatch reg.
