(* C14/Model.v — pen adapters over exact rationals.
   misc/transform.py: Transform.transformPoint/transform/inverse; pens/areaPen.py: AreaPen;
   pens/reverseContourPen.py: reversedContour. *)
From Coq Require Import QArith List Bool.
From FV Require Import Base.Ser Base.Res Geom.QTools.
Import ListNotations.
Open Scope Q_scope.

Definition pt := (Q * Q)%type.

(* ---- Transform: (xx, xy, yx, yy, dx, dy) *)
Record xf := mkXf { xx : Q; xy : Q; yx : Q; yy : Q; dx : Q; dy : Q }.
Definition transformPoint (t : xf) (p : pt) : pt :=
  (xx t * fst p + yx t * snd p + dx t, xy t * fst p + yy t * snd p + dy t).
(* self.transform(other) *)
Definition xf_transform (self other : xf) : xf :=
  mkXf (xx other * xx self + xy other * yx self)
       (xx other * xy self + xy other * yy self)
       (yx other * xx self + yy other * yx self)
       (yx other * xy self + yy other * yy self)
       (xx self * dx other + yx self * dy other + dx self)
       (xy self * dx other + yy self * dy other + dy self).
Definition xf_det (t : xf) : Q := xx t * yy t - yx t * xy t.
Definition xf_inverse (t : xf) : xf :=
  let det := xf_det t in
  let xx' := yy t / det in let xy' := - xy t / det in let yx' := - yx t / det in let yy' := xx t / det in
  mkXf xx' xy' yx' yy' (- xx' * dx t - yx' * dy t) (- xy' * dx t - yy' * dy t).

(* ---- geometry: absolute Bezier segments *)
Inductive gseg :=
| GL (p0 p1 : pt)
| GQ (p0 p1 p2 : pt)
| GC (p0 p1 p2 p3 : pt).

(* AreaPen's per-segment contributions (value -= ...), i.e. signed area = - sum *)
Definition line_term (p0 p1 : pt) : Q := (fst p1 - fst p0) * (snd p1 + snd p0) * (1 # 2).
Definition area_seg (s : gseg) : Q :=
  match s with
  | GL p0 p1 => - line_term p0 p1
  | GQ p0 p1 p2 =>
    let x1 := fst p1 - fst p0 in let y1 := snd p1 - snd p0 in
    let x2 := fst p2 - fst p0 in let y2 := snd p2 - snd p0 in
    - ((x2 * y1 - x1 * y2) / 3) - line_term p0 p2
  | GC p0 p1 p2 p3 =>
    let x1 := fst p1 - fst p0 in let y1 := snd p1 - snd p0 in
    let x2 := fst p2 - fst p0 in let y2 := snd p2 - snd p0 in
    let x3 := fst p3 - fst p0 in let y3 := snd p3 - snd p0 in
    - ((x1 * (- y2 - y3) + x2 * (y1 - 2 * y3) + x3 * (y1 + 2 * y2)) * (3 # 20)) - line_term p0 p3
  end.
Definition area (l : list gseg) : Q := fold_right (fun s acc => area_seg s + acc) 0 l.

Definition rev_seg (s : gseg) : gseg :=
  match s with
  | GL p0 p1 => GL p1 p0
  | GQ p0 p1 p2 => GQ p2 p1 p0
  | GC p0 p1 p2 p3 => GC p3 p2 p1 p0
  end.
Definition rev_path (l : list gseg) : list gseg := map rev_seg (rev l).

Definition seg_start (s : gseg) : pt := match s with GL p _ => p | GQ p _ _ => p | GC p _ _ _ => p end.
Definition seg_end (s : gseg) : pt := match s with GL _ p => p | GQ _ _ p => p | GC _ _ _ p => p end.
Definition map_seg (f : pt -> pt) (s : gseg) : gseg :=
  match s with
  | GL a b => GL (f a) (f b) | GQ a b c => GQ (f a) (f b) (f c) | GC a b c d => GC (f a) (f b) (f c) (f d)
  end.

(* ---- pen calls (segment pen protocol); qCurveTo's last point may be None *)
Inductive call :=
| MoveTo (p : pt)
| LineTo (p : pt)
| CurveTo (pts : list pt)
| QCurveTo (pts : list (option pt))
| ClosePath
| EndPath.

Definition call_kind (c : call) : Z :=
  match c with MoveTo _ => 0 | LineTo _ => 1 | CurveTo _ => 2 | QCurveTo _ => 3 | ClosePath => 4 | EndPath => 5 end%Z.
Definition call_pts (c : call) : list (option pt) :=
  match c with
  | MoveTo p => [Some p] | LineTo p => [Some p] | CurveTo l => map Some l | QCurveTo l => l
  | ClosePath => [] | EndPath => []
  end.
Definition mk_call (kind : Z) (pts : list (option pt)) : call :=
  let strip := flat_map (fun o : option pt => match o with Some p => [p] | None => [] end) in
  if (kind =? 0)%Z then MoveTo (hd (0, 0) (strip pts))
  else if (kind =? 1)%Z then LineTo (hd (0, 0) (strip pts))
  else if (kind =? 2)%Z then CurveTo (strip pts)
  else if (kind =? 3)%Z then QCurveTo pts
  else if (kind =? 4)%Z then ClosePath else EndPath.
Global Instance Ser_call : Ser call := fun c => ser (call_kind c, call_pts c).
Global Instance De_call : De call :=
  fun l => match de l with Some ((k, pts), r) => Some (mk_call k pts, r) | None => None end.

Definition opt_peqb (a b : option pt) : bool :=
  match a, b with
  | Some p, Some q => Qeqb (fst p) (fst q) && Qeqb (snd p) (snd q)
  | None, None => true
  | _, _ => false
  end.
Fixpoint pts_eqb (a b : list (option pt)) : bool :=
  match a, b with
  | [], [] => true
  | x :: a', y :: b' => opt_peqb x y && pts_eqb a' b'
  | _, _ => false
  end.

Definition last_opt (l : list (option pt)) : option pt := last l None.
Definition set_last (c : call) (p : option pt) : call :=
  mk_call (call_kind c) (removelast (call_pts c) ++ [p]).

(* pairwise(contour, reverse=True): (c[n-1], c[n-2]), ..., (c[1], c[0]), and the wrap-around (c[0], c[n-1]) *)
Definition rev_pairs (l : list call) : list (call * call) :=
  match rev l with
  | [] => []
  | x :: t => combine (x :: t) (t ++ [x])
  end.

(* reversedContour(contour, outputImpliedClosingLine); AssertionError on invalid input *)
Definition reversedContour (contour : list call) (implied : bool) : Res (list call) :=
  match contour with
  | [] => Ok []
  | [_] => Err AssertionError
  | first :: rest =>
    let lastc := last rest EndPath in
    let body := removelast rest in
    match lastc with
    | ClosePath | EndPath =>
      let closed := match lastc with ClosePath => true | _ => false end in
      match first with
      | MoveTo _ | QCurveTo _ =>
        let firstPts := call_pts first in
        let firstOn := last_opt firstPts in
        let isq := match first with QCurveTo _ => true | _ => false end in
        if isq && (match firstOn with None => false | Some _ => true end) then Err AssertionError
        else if isq && negb (match body with [] => true | _ => false end) then Err AssertionError
        else
          let first' :=
            if isq then
              match firstPts with
              | f0 :: tl => QCurveTo (f0 :: rev (removelast tl) ++ [None])
              | [] => first
              end
            else first in
          match body with
          | [] =>
            let closed' := isq in
            Ok ([first'] ++ [if closed' then ClosePath else EndPath])
          | _ =>
            let lastSeg := last body EndPath in
            let lastOn := last_opt (call_pts lastSeg) in
            if closed then
              let emit_line := negb (opt_peqb firstOn lastOn) in
              let body1 := if emit_line then removelast body ++ [set_last lastSeg firstOn] else body in
              let lastSeg1 := last body1 EndPath in
              let second := match body1 with _ :: _ :: _ => hd EndPath body1 | _ => lastSeg end in
              let drop := negb implied && (match second with LineTo _ => true | _ => false end)
                          && negb (pts_eqb firstPts (call_pts second)) in
              let body2 :=
                if drop then
                  let b := tl body1 in
                  match b with
                  | [] => b
                  | _ => removelast b ++ [mk_call (call_kind lastSeg1) (removelast (call_pts lastSeg1) ++ call_pts second)]
                  end
                else body1 in
              let out1 := [first'] ++ (if emit_line then [LineTo (match lastOn with Some p => p | None => (0, 0) end)] else []) in
              Ok (out1 ++ map (fun cn : call * call =>
                                 mk_call (call_kind (fst cn)) (rev (removelast (call_pts (fst cn))) ++ [last_opt (call_pts (snd cn))]))
                              (rev_pairs body2)
                       ++ [ClosePath])
            else
              let body1 := removelast body ++ [set_last lastSeg firstOn] in
              Ok ([mk_call (call_kind first) [lastOn]]
                    ++ map (fun cn : call * call =>
                              mk_call (call_kind (fst cn)) (rev (removelast (call_pts (fst cn))) ++ [last_opt (call_pts (snd cn))]))
                           (rev_pairs body1)
                    ++ [EndPath])
          end
      | _ => Err AssertionError
      end
    | _ => Err AssertionError
    end
  end.
