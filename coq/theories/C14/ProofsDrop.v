(* C14/ProofsDrop.v — dropping implied on-curve points: the end points are renumbered correctly, only implied points go, and a cubic
   contour that starts with the second handle of a curve keeps an on-curve point *)
From Coq Require Import ZArith List Bool Lia Sorted.
From FV Require Import Base.Ser Base.Res C14.ModelDrop.
Import ListNotations.
Open Scope Z_scope.

Definition cnt (e : Z) (drops : list Z) : Z := Z.of_nat (length (filter (fun d => d <=? e) drops)).

Lemma cnt_none e drops : Forall (fun d => e < d) drops -> cnt e drops = 0.
Proof.
  intros H. unfold cnt. induction H as [|d r Hd Hr IH]; [reflexivity|]. cbn [filter].
  replace (d <=? e) with false by (symmetry; apply Z.leb_gt; lia). exact IH.
Qed.
Lemma cnt_cons_le e d drops : d <= e -> cnt e (d :: drops) = 1 + cnt e drops.
Proof. intros H. unfold cnt. cbn [filter]. replace (d <=? e) with true by (symmetry; apply Z.leb_le; lia). cbn [length]. lia. Qed.
Lemma cnt_cons_gt e d drops : e < d -> cnt e (d :: drops) = cnt e drops.
Proof. intros H. unfold cnt. cbn [filter]. replace (d <=? e) with false by (symmetry; apply Z.leb_gt; lia). reflexivity. Qed.

(* sorted inputs: end points non-decreasing, dropped indices strictly increasing *)
Definition asc (l : list Z) : Prop := StronglySorted Z.le l.
Definition sasc (l : list Z) : Prop := StronglySorted Z.lt l.

Theorem ends_loop_spec drops : forall ends delta, sasc drops -> asc ends ->
  (forall d, In d drops -> exists e, In e ends /\ d <= e) ->
  ends_loop drops ends delta = Ok (map (fun e => e - delta - cnt e drops) ends).
Proof.
  induction drops as [|d dr IH]; intros ends delta Hd He Hcov.
  - cbn. f_equal. apply map_ext. intros e. unfold cnt. cbn. lia.
  - apply StronglySorted_inv in Hd. destruct Hd as [Hdr Hall]. rewrite Forall_forall in Hall.
    cbn [ends_loop].
    induction ends as [|e er IHe].
    + exfalso. destruct (Hcov d (or_introl eq_refl)) as (e & [] & _).
    + apply StronglySorted_inv in He. destruct He as [Her Hle]. rewrite Forall_forall in Hle.
      destruct (Z.ltb_spec e d) as [L|L].
      * (* this end point lies before the next dropped index: nothing dropped up to it *)
        rewrite IHe.
        -- cbn [map]. f_equal. f_equal.
           rewrite cnt_none; [lia|]. constructor; [exact L|]. apply Forall_forall. intros x Hx. specialize (Hall x Hx). lia.
        -- exact Her.
        -- intros x Hx. destruct (Hcov x Hx) as (e' & [<- | He'] & Hle'); [|eauto].
           exfalso. destruct Hx as [<- | Hx]; [lia | specialize (Hall x Hx); lia].
      * rewrite IH.
        -- apply f_equal. apply map_ext_in. intros x Hx.
           assert (d <= x) by (destruct Hx as [<- | Hx]; [lia | specialize (Hle x Hx); lia]).
           rewrite cnt_cons_le by lia. lia.
        -- exact Hdr.
        -- constructor; [exact Her | apply Forall_forall; exact Hle].
        -- intros x Hx. destruct (Hcov x (or_intror Hx)) as (e' & He' & Hle'). exists e'. split; [exact He' | exact Hle'].
Qed.

(* only implied points are dropped *)
Theorem dropped_are_implied flags coords start last i :
  In i (contour_drop flags coords start last) -> may_drop_at flags coords start last i = true.
Proof.
  unfold contour_drop. set (idx := range start (last + 1 - start)).
  set (cand := filter (may_drop_at flags coords start last) idx).
  assert (Hc : In i cand -> may_drop_at flags coords start last i = true) by (intros H; apply filter_In in H; tauto).
  destruct (filter (fun i0 => on_curve (nthZ flags i0)) idx) as [|o0 r]; [exact Hc|].
  destruct (Nat.odd (o0 - start) && cubic (nthZ flags start) && forallb (fun i0 => existsb (Nat.eqb i0) cand) (o0 :: r)); [|exact Hc].
  intros H. apply filter_In in H. tauto.
Qed.

(* F20: a cubic contour whose first on-curve point comes after an odd number of off-curve points never loses all its on-curve points *)
Theorem cubic_contour_keeps_anchor flags coords start last o0 r :
  filter (fun i => on_curve (nthZ flags i)) (range start (last + 1 - start)) = o0 :: r ->
  Nat.odd (o0 - start) = true -> cubic (nthZ flags start) = true ->
  exists o, In o (o0 :: r) /\ ~ In o (contour_drop flags coords start last).
Proof.
  intros Hons Hodd Hcub. unfold contour_drop. rewrite Hons, Hodd, Hcub. cbn [andb].
  set (cand := filter (may_drop_at flags coords start last) (range start (last + 1 - start))).
  destruct (forallb (fun i => existsb (Nat.eqb i) cand) (o0 :: r)) eqn:Eall.
  - exists o0. split; [left; reflexivity|]. intros H. apply filter_In in H. destruct H as [_ H]. rewrite Nat.eqb_refl in H. discriminate.
  - assert (Hex : exists o, In o (o0 :: r) /\ existsb (Nat.eqb o) cand = false).
    { clear -Eall. induction (o0 :: r) as [|x l IH]; [discriminate|]. cbn [forallb] in Eall. apply andb_false_iff in Eall.
      destruct Eall as [E | E]; [exists x; split; [left; reflexivity | exact E]|]. destruct (IH E) as (o & Ho & Hf). exists o. split; [right; exact Ho | exact Hf]. }
    destruct Hex as (o & Ho & Hf). exists o. split; [exact Ho|]. intros Hin.
    assert (existsb (Nat.eqb o) cand = true) by (apply existsb_exists; exists o; split; [exact Hin | apply Nat.eqb_refl]). congruence.
Qed.

Example drop_example :
  (* a contour on, off, ON(mid), off, on: the middle on-curve point goes and the end point moves from 4 to 3 *)
  dropImplied [1; 0; 1; 0; 1] [(0, 0); (10, 10); (20, 10); (30, 10); (40, 0)] [4] =
  Ok ([2], [1; 0; 0; 1], [(0, 0); (10, 10); (30, 10); (40, 0)], [3]).
Proof. vm_compute. reflexivity. Qed.
