(* C14/Props.v — property theorems only *)
From Coq Require Import QArith List.
From FV Require Import Base.Ser Base.Res C14.Model C14.Proofs.
Import ListNotations.
Open Scope Q_scope.

Theorem transform_compose : forall self other p,
  peq (transformPoint (xf_transform self other) p) (transformPoint self (transformPoint other p)).
Proof. exact Proofs.transform_compose. Qed.
Print Assumptions transform_compose.

Theorem transform_inverse : forall t p, ~ xf_det t == 0 ->
  peq (transformPoint (xf_inverse t) (transformPoint t p)) p /\
  peq (transformPoint t (transformPoint (xf_inverse t) p)) p.
Proof. exact Proofs.transform_inverse. Qed.
Print Assumptions transform_inverse.

Theorem transform_lerp : forall T a b t,
  peq (transformPoint T (lerp2 a b t)) (lerp2 (transformPoint T a) (transformPoint T b) t).
Proof. exact Proofs.transform_lerp. Qed.
Print Assumptions transform_lerp.

(* reversing a path negates its signed area; reversing twice restores it *)
Theorem area_reverse_neg : forall l, area (rev_path l) == - area l.
Proof. exact Proofs.area_reverse_neg. Qed.
Print Assumptions area_reverse_neg.

Theorem rev_path_involutive : forall l, rev_path (rev_path l) = l.
Proof. exact Proofs.rev_path_involutive. Qed.
Print Assumptions rev_path_involutive.

Theorem area_quadratic_elevation : forall p0 p1 p2,
  area_seg (GQ p0 p1 p2) ==
  area_seg (GC p0 (fst p0 + (2 # 3) * (fst p1 - fst p0), snd p0 + (2 # 3) * (snd p1 - snd p0))
               (fst p2 + (2 # 3) * (fst p1 - fst p2), snd p2 + (2 # 3) * (snd p1 - snd p2)) p2).
Proof. exact Proofs.area_quadratic_elevation. Qed.
Print Assumptions area_quadratic_elevation.

Theorem area_seg_translate : forall s dxx dyy,
  area_seg (map_seg (fun p => (fst p + dxx, snd p + dyy)) s)
  == area_seg s - dyy * (fst (seg_end s) - fst (seg_start s)).
Proof. exact Proofs.area_seg_translate. Qed.
Print Assumptions area_seg_translate.

(* ---- the segment protocol -> point protocol -> segment protocol round trip (ModelPointPen.v: SegmentToPointPen and
   PointToSegmentPen with its default outputImpliedClosingLine=False) *)
From FV Require C14.ModelPointPen C14.ProofsPointPen.
Theorem pointpen_roundtrip_open : forall A segs, forallb ProofsPointPen.wf_seg segs = true ->
  exists pts, ModelPointPen.segment_to_point (MoveTo A :: segs ++ [EndPath]) = Ok [pts] /\
              ModelPointPen.point_to_segment pts false = Ok (MoveTo A :: segs ++ [EndPath]).
Proof. exact ProofsPointPen.roundtrip_open. Qed.
Print Assumptions pointpen_roundtrip_open.

Theorem pointpen_roundtrip_closed : forall A segs, forallb ProofsPointPen.wf_seg segs = true ->
  ProofsPointPen.roundtrip (MoveTo A :: segs ++ [ClosePath]) = Ok (ProofsPointPen.canon_closed A segs).
Proof. exact ProofsPointPen.roundtrip_closed. Qed.
Print Assumptions pointpen_roundtrip_closed.

(* the canonical form is the same closed contour: same start, same segments once the closing line is written out *)
Theorem pointpen_canon_same_contour : forall A segs, forallb ProofsPointPen.wf_seg segs = true ->
  (2 <= length (flat_map ProofsPointPen.seg_points segs))%nat ->
  exists E segs', ProofsPointPen.canon_closed A segs = MoveTo E :: segs' ++ [ClosePath] /\
                  (E = A \/ ModelPointPen.pt_eqb A E = true) /\ ProofsPointPen.closing E segs' = ProofsPointPen.closing A segs.
Proof. exact ProofsPointPen.canon_same_contour. Qed.
Print Assumptions pointpen_canon_same_contour.

Theorem pointpen_roundtrip_quad_blob : forall ps, (2 <= length ps)%nat -> ProofsPointPen.all_some ps = true ->
  ProofsPointPen.roundtrip [QCurveTo (ps ++ [None]); ClosePath] = Ok [QCurveTo (ps ++ [None]); ClosePath].
Proof. exact ProofsPointPen.roundtrip_quad_blob. Qed.
Print Assumptions pointpen_roundtrip_quad_blob.

(* ---- dropImpliedOnCurvePoints on one simple glyph (ModelDrop.v, the code as repaired by 4ed56da) *)
From FV Require C14.ModelDrop C14.ProofsDrop.
(* the renumbering loop: every end point moves down by the number of dropped indices at or before it *)
Theorem drop_endpoints_renumbered : forall drops ends delta, ProofsDrop.sasc drops -> ProofsDrop.asc ends ->
  (forall d, In d drops -> exists e, In e ends /\ (d <= e)%Z) ->
  ModelDrop.ends_loop drops ends delta = Ok (map (fun e => (e - delta - ProofsDrop.cnt e drops)%Z) ends).
Proof. exact ProofsDrop.ends_loop_spec. Qed.
Print Assumptions drop_endpoints_renumbered.

Theorem dropped_points_are_implied : forall flags coords start last i,
  In i (ModelDrop.contour_drop flags coords start last) -> ModelDrop.may_drop_at flags coords start last i = true.
Proof. exact ProofsDrop.dropped_are_implied. Qed.
Print Assumptions dropped_points_are_implied.

(* F20: a cubic contour that starts with the second handle of a curve keeps an on-curve point *)
Theorem cubic_contour_keeps_anchor : forall flags coords start last o0 r,
  filter (fun i => ModelDrop.on_curve (ModelDrop.nthZ flags i)) (ModelDrop.range start (last + 1 - start)) = o0 :: r ->
  Nat.odd (o0 - start) = true -> ModelDrop.cubic (ModelDrop.nthZ flags start) = true ->
  exists o, In o (o0 :: r) /\ ~ In o (ModelDrop.contour_drop flags coords start last).
Proof. exact ProofsDrop.cubic_contour_keeps_anchor. Qed.
Print Assumptions cubic_contour_keeps_anchor.
