(* C14/ModelPointPen.v — pens/pointPen.py: SegmentToPointPen (285-376) and BasePointToSegmentPen.endPath +
   PointToSegmentPen._flushContour (152-282).  Smooth flags, names and identifiers are dropped by PointToSegmentPen and not modelled.
   PenError is rendered as LibError. *)
From Coq Require Import QArith List Bool.
From FV Require Import Base.Ser Base.Res Geom.QTools C14.Model.
Import ListNotations.

Inductive ptype := TMove | TLine | TCurve | TQCurve.
Definition ppoint := (option pt * option ptype)%type.          (* (pt, segmentType); the pt is None only for the point P2S adds itself *)
Definition PenError := LibError.

Definition pt_eqb (a b : pt) : bool := Qeqb (fst a) (fst b) && Qeqb (snd a) (snd b).
Definition opt_pt_eqb (a b : option pt) : bool :=
  match a, b with Some p, Some q => pt_eqb p q | None, None => true | _, _ => false end.

(* ------------------------------------------------------------------ SegmentToPointPen *)
Definition offs (l : list pt) : list ppoint := map (fun p => (Some p, None)) l.
Definition is_some {A} (o : option A) : bool := match o with Some _ => true | None => false end.

(* state: the contour under construction (None = no moveTo yet), the contours flushed so far *)
Definition s2p_state := (option (list ppoint) * list (list ppoint))%type.

Definition s2p_step (st : s2p_state) (c : call) : Res s2p_state :=
  let '(cur, out) := st in
  match c with
  | MoveTo p => Ok (Some [(Some p, Some TMove)], out)                      (* an unfinished contour is silently discarded *)
  | LineTo p => match cur with None => Err PenError | Some l => Ok (Some (l ++ [(Some p, Some TLine)]), out) end
  | CurveTo pts =>
    match rev pts with
    | [] => Err TypeError
    | lastp :: rinit =>
      match cur with None => Err PenError | Some l => Ok (Some (l ++ offs (rev rinit) ++ [(Some lastp, Some TCurve)]), out) end
    end
  | QCurveTo pts =>
    match rev pts with
    | [] => Err TypeError
    | None :: rinit => Ok (Some (map (fun o => (o, None)) (rev rinit)), out)      (* contour = []: whatever was there is dropped *)
    | Some lastp :: rinit =>
      match cur with None => Err PenError | Some l => Ok (Some (l ++ map (fun o => (o, None)) (rev rinit) ++ [(Some lastp, Some TQCurve)]), out) end
    end
  | ClosePath =>
    match cur with
    | None => Err PenError
    | Some l =>
      match l with
      | [] => Err IndexError                                                      (* self.contour[0] of an empty list *)
      | first :: rest =>
        let lastp := last l first in
        if (negb (match rest with [] => true | _ => false end)) && opt_pt_eqb (fst first) (fst lastp) && is_some (snd first) && is_some (snd lastp)
        then Ok (None, out ++ [lastp :: removelast rest])
        else match snd first with
             | Some TMove => Ok (None, out ++ [(fst first, Some TLine) :: rest])
             | _ => Ok (None, out ++ [l])
             end
      end
    end
  | EndPath => match cur with None => Err PenError | Some l => Ok (None, out ++ [l]) end
  end.

Fixpoint s2p_run (st : s2p_state) (cs : list call) : Res s2p_state :=
  match cs with [] => Ok st | c :: r => match s2p_step st c with Ok st' => s2p_run st' r | Err e => Err e end end.
Definition segment_to_point (cs : list call) : Res (list (list ppoint)) :=
  match s2p_run (None, []) cs with Ok (_, out) => Ok out | Err e => Err e end.

(* ------------------------------------------------------------------ PointToSegmentPen *)
Definition segment := (ptype * list (option pt))%type.

(* the loop that cuts the point list into segments at every on-curve point; trailing off-curve points are dropped *)
Fixpoint segmentize (pts : list ppoint) (cur : list (option pt)) : list segment :=
  match pts with
  | [] => []
  | (p, None) :: r => segmentize r (cur ++ [p])
  | (p, Some t) :: r => (t, cur ++ [p]) :: segmentize r []
  end.

Fixpoint first_on (pts : list ppoint) : option nat :=
  match pts with
  | [] => None
  | (_, Some _) :: _ => Some O
  | (_, None) :: r => match first_on r with Some i => Some (S i) | None => None end
  end.

Definition somes_pt (l : list (option pt)) : option (list pt) :=
  fold_right (fun o acc => match o, acc with Some p, Some ps => Some (p :: ps) | _, _ => None end) (Some []) l.

(* the output loop of _flushContour *)
Fixpoint emit (segs : list segment) (closed implied : bool) (lastPt : option pt) : Res (list call) :=
  match segs with
  | [] => Ok []
  | (t, pts) :: r =>
    match t with
    | TLine =>
      match pts with
      | [Some p] =>
        if negb (match r with [] => true | _ => false end) || implied || negb closed || opt_pt_eqb (Some p) lastPt
        then match emit r closed implied (Some p) with Ok cs => Ok (LineTo p :: cs) | Err e => Err e end
        else emit r closed implied lastPt
      | _ => Err PenError
      end
    | TCurve =>
      match somes_pt pts with
      | Some ps => match emit r closed implied (last pts None) with Ok cs => Ok (CurveTo ps :: cs) | Err e => Err e end
      | None => Err TypeError
      end
    | TQCurve => match emit r closed implied (last pts None) with Ok cs => Ok (QCurveTo pts :: cs) | Err e => Err e end
    | TMove => Err PenError
    end
  end.

Definition flush (segs : list segment) (implied : bool) : Res (list call) :=
  match segs with
  | [] => Err PenError
  | (TMove, pts) :: r =>
    match pts with
    | [mp] =>
      match emit r false implied mp with
      | Ok cs => Ok (match mp with Some p => MoveTo p :: cs | None => cs end ++ [EndPath])
      | Err e => Err e
      end
    | _ => Err PenError
    end
  | _ =>
    let mp := last (snd (last segs (TLine, []))) None in
    match emit segs true implied mp with
    | Ok cs => Ok (match mp with Some p => MoveTo p :: cs | None => cs end ++ [ClosePath])
    | Err e => Err e
    end
  end.

Definition point_to_segment (pts : list ppoint) (implied : bool) : Res (list call) :=
  match pts with
  | [] => Ok []
  | [(p, _)] => flush [(TMove, [p])] implied
  | (p0, Some TMove) :: rest => flush ((TMove, [p0]) :: segmentize rest []) implied
  | _ =>
    match first_on pts with
    | None => flush (segmentize (pts ++ [(None, Some TQCurve)]) []) implied
    | Some i => flush (segmentize (skipn (S i) pts ++ firstn (S i) pts) []) implied
    end
  end.

Fixpoint points_to_segments (cs : list (list ppoint)) (implied : bool) : Res (list call) :=
  match cs with
  | [] => Ok []
  | c :: r => match point_to_segment c implied, points_to_segments r implied with
              | Ok a, Ok b => Ok (a ++ b) | Err e, _ => Err e | _, Err e => Err e end
  end.
