(* C14/ProofsPointPen.v — segment protocol -> point protocol -> segment protocol gives the contour back (in canonical form) *)
From Coq Require Import QArith List Bool Lia.
From FV Require Import Base.Ser Base.Res Geom.QTools C14.Model C14.ModelPointPen.
Import ListNotations.

(* ---- well-formed drawing calls between moveTo and closePath/endPath *)
Definition all_some (l : list (option pt)) : bool := forallb (fun o => match o with Some _ => true | None => false end) l.
Definition wf_seg (c : call) : bool :=
  match c with
  | LineTo _ => true
  | CurveTo ps => negb (match ps with [] => true | _ => false end)
  | QCurveTo ps => negb (match ps with [] => true | _ => false end) && all_some ps
  | _ => false
  end.
Definition seg_points (c : call) : list ppoint :=
  match c with
  | LineTo p => [(Some p, Some TLine)]
  | CurveTo ps => offs (removelast ps) ++ [(Some (last ps (0, 0)), Some TCurve)]
  | QCurveTo ps => map (fun o => (o, None)) (removelast ps) ++ [(last ps None, Some TQCurve)]
  | _ => []
  end.
Definition seg_of (c : call) : segment :=
  match c with
  | LineTo p => (TLine, [Some p])
  | CurveTo ps => (TCurve, map Some ps)
  | QCurveTo ps => (TQCurve, ps)
  | _ => (TMove, [])
  end.
Definition seg_end (c : call) : option pt := last (snd (seg_of c)) None.
Definition end_of (lp : option pt) (segs : list call) : option pt :=
  match rev segs with [] => lp | s :: _ => seg_end s end.

Lemma rev_split {A} (l : list A) (d : A) : l <> [] -> rev l = last l d :: rev (removelast l).
Proof.
  intros H. rewrite (app_removelast_last d H) at 1. rewrite rev_app_distr. reflexivity.
Qed.

Lemma all_some_last ps : ps <> [] -> all_some ps = true -> exists q, last ps None = Some q.
Proof.
  induction ps as [|o r IH]; [congruence|]. intros _ H. unfold all_some in H. cbn [forallb] in H.
  apply andb_true_iff in H. destruct H as [Ho Hr]. destruct r as [|o2 r2].
  - destruct o as [q|]; [exists q; reflexivity | discriminate Ho].
  - apply IH; [discriminate | exact Hr].
Qed.

(* ---- SegmentToPointPen on the body of a contour *)
Lemma s2p_body segs : forall l out, forallb wf_seg segs = true ->
  s2p_run (Some l, out) segs = Ok (Some (l ++ flat_map seg_points segs), out).
Proof.
  induction segs as [|c r IH]; intros l out Hwf; cbn [s2p_run flat_map].
  - rewrite app_nil_r. reflexivity.
  - cbn [forallb] in Hwf. apply andb_true_iff in Hwf. destruct Hwf as [Hc Hr].
    destruct c as [p | p | ps | ps | |]; cbn in Hc; try discriminate.
    + cbn [s2p_step]. rewrite IH by exact Hr. cbn [seg_points]. rewrite <- app_assoc. reflexivity.
    + assert (Hne : ps <> []) by (destruct ps; [discriminate | congruence]).
      cbn [s2p_step]. rewrite (rev_split ps (0, 0) Hne). rewrite rev_involutive.
      rewrite IH by exact Hr. cbn [seg_points]. rewrite <- !app_assoc. reflexivity.
    + apply andb_true_iff in Hc. destruct Hc as [Hne Hall].
      assert (Hne' : ps <> []) by (destruct ps; [discriminate | congruence]).
      cbn [s2p_step]. rewrite (rev_split ps None Hne'). rewrite rev_involutive.
      assert (Hl := all_some_last ps Hne' Hall).
      destruct Hl as [q Hq]. rewrite Hq. rewrite IH by exact Hr. cbn [seg_points]. rewrite Hq. rewrite <- !app_assoc. reflexivity.
Qed.

(* ---- the segment cutter *)
Lemma segmentize_offs (l : list (option pt)) p t r cur :
  segmentize (map (fun o => (o, None)) l ++ (p, Some t) :: r) cur = (t, cur ++ l ++ [p]) :: segmentize r [].
Proof.
  revert cur. induction l as [|o l IH]; intros cur; cbn.
  - reflexivity.
  - rewrite IH. rewrite <- app_assoc. reflexivity.
Qed.
Lemma offs_map l : offs l = map (fun o => (o, None)) (map Some l).
Proof. unfold offs. rewrite map_map. reflexivity. Qed.
Lemma removelast_map {A B} (f : A -> B) l : removelast (map f l) = map f (removelast l).
Proof. induction l as [|x r IH]; [reflexivity|]. destruct r; [reflexivity|]. cbn [map removelast] in *. rewrite <- IH. reflexivity. Qed.
Lemma last_map_some (l : list pt) d : l <> [] -> last (map Some l) None = Some (last l d).
Proof. induction l as [|x r IH]; [congruence|]. intros _. destruct r; [reflexivity|]. cbn [map last] in *. apply IH. discriminate. Qed.

Lemma segmentize_segs segs : forall tail, forallb wf_seg segs = true ->
  segmentize (flat_map seg_points segs ++ tail) [] = map seg_of segs ++ segmentize tail [].
Proof.
  induction segs as [|c r IH]; intros tail Hwf; [reflexivity|].
  cbn [forallb] in Hwf. apply andb_true_iff in Hwf. destruct Hwf as [Hc Hr].
  cbn [flat_map map]. rewrite <- app_assoc.
  destruct c as [p | p | ps | ps | |]; cbn in Hc; try discriminate.
  - cbn [seg_points seg_of app segmentize]. rewrite IH by exact Hr. reflexivity.
  - assert (Hne : ps <> []) by (destruct ps; [discriminate | congruence]).
    cbn [seg_points seg_of]. rewrite offs_map. rewrite <- app_assoc. cbn [app].
    rewrite segmentize_offs. cbn [app]. rewrite IH by exact Hr.
    rewrite <- removelast_map. rewrite <- (last_map_some ps (0, 0) Hne).
    rewrite <- (app_removelast_last None); [reflexivity|]. destruct ps; [congruence | discriminate].
  - apply andb_true_iff in Hc. destruct Hc as [Hne _].
    assert (Hne' : ps <> []) by (destruct ps; [discriminate | congruence]).
    cbn [seg_points seg_of]. rewrite <- app_assoc. cbn [app].
    rewrite segmentize_offs. cbn [app]. rewrite IH by exact Hr.
    rewrite <- (app_removelast_last None Hne'). reflexivity.
Qed.

(* ---- the output loop *)
Lemma somes_map_some (l : list pt) : somes_pt (map Some l) = Some l.
Proof. induction l as [|x r IH]; [reflexivity|]. cbn. unfold somes_pt in IH. rewrite IH. reflexivity. Qed.

Lemma end_of_cons lp c r : end_of lp (c :: r) = end_of (seg_end c) r.
Proof.
  unfold end_of. cbn [rev]. destruct (rev r) as [|s t] eqn:E; [reflexivity|]. reflexivity.
Qed.

(* every segment that is not the last one of a closed contour is written out as it came *)
Lemma emit_body segs : forall rest closed implied lp, forallb wf_seg segs = true ->
  (rest <> [] \/ closed = false) ->
  emit (map seg_of segs ++ rest) closed implied lp =
  match emit rest closed implied (end_of lp segs) with Ok cs => Ok (segs ++ cs) | Err e => Err e end.
Proof.
  induction segs as [|c r IH]; intros rest closed implied lp Hwf Hrest.
  - cbn. destruct (emit rest closed implied lp); reflexivity.
  - cbn [forallb] in Hwf. apply andb_true_iff in Hwf. destruct Hwf as [Hc Hr].
    rewrite end_of_cons. cbn [map app].
    destruct c as [p | p | ps | ps | |]; cbn in Hc; try discriminate.
    + cbn [seg_of emit].
      assert (Hcond : negb (match map seg_of r ++ rest with [] => true | _ => false end) || implied || negb closed || opt_pt_eqb (Some p) lp = true).
      { destruct Hrest as [Hne | ->].
        - destruct (map seg_of r ++ rest) eqn:E; [|reflexivity]. apply app_eq_nil in E. tauto.
        - cbn. rewrite orb_true_r. reflexivity. }
      rewrite Hcond. rewrite IH by assumption. unfold seg_end. cbn.
      destruct (emit rest closed implied (end_of (Some p) r)); reflexivity.
    + assert (Hne : ps <> []) by (destruct ps; [discriminate | congruence]).
      cbn [seg_of emit]. rewrite somes_map_some. rewrite IH by assumption. unfold seg_end. cbn [seg_of snd].
      destruct (emit rest closed implied (end_of (last (map Some ps) None) r)); reflexivity.
    + cbn [seg_of emit]. rewrite IH by assumption. unfold seg_end. cbn [seg_of snd].
      destruct (emit rest closed implied (end_of (last ps None) r)); reflexivity.
Qed.

(* ---- open contours come back unchanged *)
Theorem roundtrip_open A segs : forallb wf_seg segs = true ->
  exists pts, segment_to_point (MoveTo A :: segs ++ [EndPath]) = Ok [pts] /\
              point_to_segment pts false = Ok (MoveTo A :: segs ++ [EndPath]).
Proof.
  intros Hwf. exists ((Some A, Some TMove) :: flat_map seg_points segs). split.
  - unfold segment_to_point. cbn [s2p_run s2p_step].
    assert (H : forall st, s2p_run st (segs ++ [EndPath]) = match s2p_run st segs with Ok st' => s2p_run st' [EndPath] | Err e => Err e end).
    { clear. induction segs as [|c r IH]; intros st; cbn [app s2p_run]; [reflexivity|]. destruct (s2p_step st c); [apply IH | reflexivity]. }
    rewrite H, s2p_body by exact Hwf. cbn. reflexivity.
  - unfold point_to_segment.
    assert (Hgen : flush ((TMove, [Some A]) :: segmentize (flat_map seg_points segs) []) false = Ok (MoveTo A :: segs ++ [EndPath])).
    { rewrite <- (app_nil_r (flat_map seg_points segs)). rewrite segmentize_segs by exact Hwf. cbn [segmentize]. 
      cbn [flush]. rewrite emit_body; [|exact Hwf | right; reflexivity]. cbn [emit]. rewrite app_nil_r. reflexivity. }
    destruct (flat_map seg_points segs) as [|q rest] eqn:E.
    + destruct segs as [|c r]; [reflexivity|]. exfalso.
      cbn [forallb] in Hwf. apply andb_true_iff in Hwf. destruct Hwf as [Hc _].
      destruct c as [p | p | ps | ps | |]; cbn in Hc; try discriminate; cbn [flat_map seg_points] in E;
        try discriminate; try (destruct (offs (removelast ps)); discriminate);
        try (destruct (map (fun o : option pt => (o, None)) (removelast ps)); discriminate).
    + exact Hgen.
Qed.

(* ---- closed contours *)
Definition roundtrip (cs : list call) : Res (list call) :=
  match segment_to_point cs with Ok cts => points_to_segments cts false | Err e => Err e end.

Definition canon_closed (A : pt) (segs : list call) : list call :=
  match rev segs with
  | [] => [MoveTo A; EndPath]
  | sl :: rinit =>
    let init := rev rinit in
    match seg_end sl with
    | Some E =>
      if pt_eqb A E then
        match flat_map seg_points segs with
        | [_] => [MoveTo E; EndPath]
        | _ => MoveTo E :: init ++ (match sl with
                                   | LineTo p => if opt_pt_eqb (Some p) (end_of (Some E) init) then [sl] else []
                                   | _ => [sl] end) ++ [ClosePath]
        end
      else MoveTo A :: segs ++ [ClosePath]
    | None => MoveTo A :: segs ++ [ClosePath]
    end
  end.

Lemma s2p_app st a b : s2p_run st (a ++ b) = match s2p_run st a with Ok st' => s2p_run st' b | Err e => Err e end.
Proof. revert st. induction a as [|c r IH]; intros st; cbn [app s2p_run]; [reflexivity|]. destruct (s2p_step st c); [apply IH | reflexivity]. Qed.

Lemma seg_points_last c : wf_seg c = true ->
  exists body t, seg_points c = body ++ [(seg_end c, Some t)] /\ t <> TMove /\ Forall (fun q : ppoint => snd q = None) body.
Proof.
  destruct c as [p | p | ps | ps | |]; cbn; try discriminate; intros Hc.
  - exists [], TLine. repeat split; [discriminate | constructor].
  - assert (Hne : ps <> []) by (destruct ps; [discriminate | congruence]).
    exists (offs (removelast ps)), TCurve. unfold seg_end. cbn [seg_of snd]. rewrite (last_map_some ps (0, 0) Hne).
    repeat split; [discriminate|]. unfold offs. apply Forall_forall. intros q Hq. apply in_map_iff in Hq. destruct Hq as (x & <- & _). reflexivity.
  - exists (map (fun o => (o, None)) (removelast ps)), TQCurve. unfold seg_end. cbn [seg_of snd].
    repeat split; [discriminate|]. apply Forall_forall. intros q Hq. apply in_map_iff in Hq. destruct Hq as (x & <- & _). reflexivity.
Qed.

Lemma wf_app a b : forallb wf_seg (a ++ b) = forallb wf_seg a && forallb wf_seg b.
Proof. apply forallb_app. Qed.

Lemma end_of_snoc lp init sl : end_of lp (init ++ [sl]) = seg_end sl.
Proof. unfold end_of. rewrite rev_app_distr. reflexivity. Qed.

Lemma first_on_cons_some p t r : first_on ((p, Some t) :: r) = Some O.
Proof. reflexivity. Qed.

Definition close_points (A : pt) (P : list ppoint) : list ppoint :=
  match P with
  | [] => [(Some A, Some TLine)]
  | _ => let lp := last P (Some A, Some TMove) in
         if opt_pt_eqb (Some A) (fst lp) && is_some (snd lp) then lp :: removelast P else (Some A, Some TLine) :: P
  end.

Lemma s2p_closed A segs : forallb wf_seg segs = true ->
  segment_to_point (MoveTo A :: segs ++ [ClosePath]) = Ok [close_points A (flat_map seg_points segs)].
Proof.
  intros Hwf. unfold segment_to_point. cbn [s2p_run s2p_step].
  rewrite s2p_app, s2p_body by exact Hwf. cbn [s2p_run s2p_step app].
  destruct (flat_map seg_points segs) as [|q P'] eqn:EP.
  - cbn. reflexivity.
  - cbn [negb andb fst snd is_some close_points].
    change (last ((Some A, Some TMove) :: q :: P') (Some A, Some TMove)) with (last (q :: P') (Some A, Some TMove)).
    destruct (opt_pt_eqb (Some A) (fst (last (q :: P') (Some A, Some TMove)))); destruct (is_some (snd (last (q :: P') (Some A, Some TMove)))); reflexivity.
Qed.

Lemma p2s_closed p t R : t <> TMove -> R <> [] ->
  point_to_segment ((p, Some t) :: R) false = flush (segmentize (R ++ [(p, Some t)]) []) false.
Proof.
  intros Ht HR. destruct R as [|r0 R']; [congruence|].
  unfold point_to_segment. destruct t; try congruence; reflexivity.
Qed.

Lemma flush_closed segs implied : segs <> [] -> forallb wf_seg segs = true ->
  flush (map seg_of segs) implied =
  match emit (map seg_of segs) true implied (end_of None segs) with
  | Ok cs => Ok (match end_of None segs with Some p => MoveTo p :: cs | None => cs end ++ [ClosePath])
  | Err e => Err e
  end.
Proof.
  intros Hne Hwf.
  assert (Hmp : last (snd (last (map seg_of segs) (TLine, []))) None = end_of None segs).
  { unfold end_of. rewrite <- (rev_involutive segs) at 1. destruct (rev segs) as [|sl ri] eqn:E.
    - exfalso. apply Hne. rewrite <- (rev_involutive segs), E. reflexivity.
    - cbn [rev]. rewrite map_app. cbn [map]. rewrite last_last. reflexivity. }
  destruct segs as [|c r]; [congruence|].
  cbn [forallb] in Hwf. apply andb_true_iff in Hwf. destruct Hwf as [Hc _].
  unfold flush. cbn [map] in *. rewrite Hmp.
  destruct c as [q | q | ps | ps | |]; cbn in Hc; try discriminate; cbn [seg_of]; reflexivity.
Qed.

Lemma seg_end_some c : wf_seg c = true -> exists E, seg_end c = Some E.
Proof.
  destruct c as [p | p | ps | ps | |]; cbn; try discriminate; intros Hc; unfold seg_end; cbn [seg_of snd].
  - exists p. reflexivity.
  - assert (Hne : ps <> []) by (destruct ps; [discriminate | congruence]). exists (last ps (0, 0)). apply last_map_some. exact Hne.
  - apply andb_true_iff in Hc. destruct Hc as [Hne Hall].
    assert (Hne' : ps <> []) by (destruct ps; [discriminate | congruence]). exact (all_some_last ps Hne' Hall).
Qed.

Lemma emit_last_open_line p lp : emit [(TLine, [Some p])] true false lp = if opt_pt_eqb (Some p) lp then Ok [LineTo p] else Ok [].
Proof. cbn. destruct (opt_pt_eqb (Some p) lp); reflexivity. Qed.

Lemma close_points_snoc A Q x :
  close_points A (Q ++ [x]) =
  if opt_pt_eqb (Some A) (fst x) && is_some (snd x) then x :: Q else (Some A, Some TLine) :: Q ++ [x].
Proof.
  unfold close_points. destruct (Q ++ [x]) as [|q0 P'] eqn:EP; [destruct Q; discriminate|]. rewrite <- EP.
  rewrite last_last, removelast_last. reflexivity.
Qed.
Lemma single_snoc {A B} (Q : list A) (x : A) (a b : B) :
  match Q ++ [x] with [_] => a | _ => b end = match Q with [] => a | _ => b end.
Proof. destruct Q as [|q [|q2 Q']]; reflexivity. Qed.

Theorem roundtrip_closed A segs : forallb wf_seg segs = true ->
  roundtrip (MoveTo A :: segs ++ [ClosePath]) = Ok (canon_closed A segs).
Proof.
  intros Hwf. unfold roundtrip. rewrite s2p_closed by exact Hwf. cbn [points_to_segments].
  assert (Hfin : forall r, match r with Ok a => Ok (a ++ []) | Err e => Err e end = r :> Res (list call)).
  { intros [a|e]; [rewrite app_nil_r|]; reflexivity. }
  rewrite Hfin. clear Hfin.
  unfold canon_closed.
  destruct (rev segs) as [|sl rinit] eqn:Erev.
  - assert (segs = []) by (destruct segs; [reflexivity|]; cbn in Erev; destruct (rev segs); discriminate). subst segs.
    reflexivity.
  - assert (Hsegs : segs = rev rinit ++ [sl]) by (rewrite <- (rev_involutive segs), Erev; reflexivity).
    set (init := rev rinit) in *.
    assert (Hwf2 := Hwf). rewrite Hsegs, wf_app in Hwf2. apply andb_true_iff in Hwf2. destruct Hwf2 as [Hwi Hwl].
    cbn [forallb] in Hwl. rewrite andb_true_r in Hwl.
    destruct (seg_points_last sl Hwl) as (body & t & Hsp & Ht & Hbody).
    destruct (seg_end_some sl Hwl) as [E HE]. rewrite HE in *.
    set (Q := flat_map seg_points init ++ body).
    assert (HP : flat_map seg_points segs = Q ++ [(Some E, Some t)]).
    { rewrite Hsegs, flat_map_app. cbn [flat_map]. rewrite app_nil_r, Hsp. unfold Q. rewrite app_assoc. reflexivity. }
    assert (Hend : forall lp, end_of lp segs = Some E) by (intros lp; rewrite Hsegs, end_of_snoc; exact HE).
    assert (Hseg : segmentize (Q ++ [(Some E, Some t)]) [] = map seg_of segs).
    { rewrite <- HP. rewrite <- (app_nil_r (flat_map seg_points segs)). rewrite segmentize_segs by exact Hwf. cbn [segmentize]. apply app_nil_r. }
    rewrite HP, close_points_snoc, single_snoc. cbn [fst snd is_some opt_pt_eqb]. rewrite andb_true_r.
    destruct (pt_eqb A E) eqn:EAE.
    + (* the contour ends where it started *)
      destruct Q as [|q1 Q'] eqn:EQ.
      * destruct t; reflexivity.
      * rewrite p2s_closed; [|exact Ht | discriminate].
        transitivity (flush (map seg_of segs) false); [f_equal; exact Hseg|].
        rewrite flush_closed; [|rewrite Hsegs; destruct init; discriminate | exact Hwf].
        rewrite Hend. rewrite Hsegs at 1. rewrite map_app. cbn [map].
        rewrite emit_body; [|exact Hwi | left; discriminate].
        destruct sl as [p | p | ps | ps | |]; cbn in Hwl; try discriminate.
        -- cbn [seg_of]. rewrite emit_last_open_line.
           destruct (end_of (Some E) init) as [q|]; cbn [opt_pt_eqb]; [destruct (pt_eqb p q)|];
             cbn [app]; rewrite <- ?app_assoc, ?app_nil_r; reflexivity.
        -- cbn [seg_of emit]. rewrite somes_map_some. cbn [app]. rewrite <- ?app_assoc. reflexivity.
        -- cbn [seg_of emit]. cbn [app]. rewrite <- ?app_assoc. reflexivity.
    + (* it ends somewhere else: the closing line is implied *)
      rewrite p2s_closed; [|discriminate | destruct Q; discriminate].
      assert (Hwf3 : forallb wf_seg (segs ++ [LineTo A]) = true) by (rewrite wf_app, Hwf; reflexivity).
      assert (Hseg3 : segmentize ((Q ++ [(Some E, Some t)]) ++ [(Some A, Some TLine)]) [] = map seg_of (segs ++ [LineTo A])).
      { rewrite <- HP. change [(Some A, Some TLine)] with (flat_map seg_points [LineTo A]). rewrite <- flat_map_app.
        rewrite <- (app_nil_r (flat_map seg_points (segs ++ [LineTo A]))). rewrite segmentize_segs by exact Hwf3. cbn [segmentize]. apply app_nil_r. }
      transitivity (flush (map seg_of (segs ++ [LineTo A])) false); [f_equal; exact Hseg3|].
      rewrite flush_closed; [|destruct segs; discriminate | exact Hwf3].
      rewrite end_of_snoc. unfold seg_end at 1 2. cbn [seg_of snd last].
      rewrite map_app. cbn [map seg_of].
      rewrite emit_body; [|exact Hwf | left; discriminate].
      rewrite emit_last_open_line, Hend. cbn [opt_pt_eqb]. rewrite EAE. rewrite app_nil_r. reflexivity.
Qed.

(* ---- the canonical form is the same closed contour: same start (up to ==), same segments once the closing line is written out *)
Definition closing (A : pt) (segs : list call) : list call :=
  match end_of (Some A) segs with
  | Some E => if pt_eqb A E then segs else segs ++ [LineTo A]
  | None => segs ++ [LineTo A]
  end.
Lemma pt_eqb_refl p : pt_eqb p p = true.
Proof. unfold pt_eqb. destruct (Qeqb_spec (fst p) (fst p)) as [_|F]; [|exfalso; apply F; reflexivity].
  destruct (Qeqb_spec (snd p) (snd p)) as [_|F]; [reflexivity | exfalso; apply F; reflexivity]. Qed.

Theorem canon_same_contour A segs : forallb wf_seg segs = true ->
  (2 <= length (flat_map seg_points segs))%nat ->
  exists E segs', canon_closed A segs = MoveTo E :: segs' ++ [ClosePath] /\
                  (E = A \/ pt_eqb A E = true) /\ closing E segs' = closing A segs.
Proof.
  intros Hwf Hlen. unfold canon_closed.
  destruct (rev segs) as [|sl rinit] eqn:Erev.
  - assert (segs = []) by (destruct segs; [reflexivity|]; cbn in Erev; destruct (rev segs); discriminate). subst segs. cbn in Hlen. lia.
  - assert (Hsegs : segs = rev rinit ++ [sl]) by (rewrite <- (rev_involutive segs), Erev; reflexivity).
    set (init := rev rinit) in *.
    assert (Hwf2 := Hwf). rewrite Hsegs, wf_app in Hwf2. apply andb_true_iff in Hwf2. destruct Hwf2 as [Hwi Hwl].
    cbn [forallb] in Hwl. rewrite andb_true_r in Hwl.
    destruct (seg_end_some sl Hwl) as [E HE]. rewrite HE.
    assert (Hend : forall lp, end_of lp segs = Some E) by (intros lp; rewrite Hsegs, end_of_snoc; exact HE).
    destruct (pt_eqb A E) eqn:EAE.
    + destruct (flat_map seg_points segs) as [|x [|y r]] eqn:EP; cbn in Hlen; try lia.
      destruct sl as [p | p | ps | ps | |]; cbn in Hwl; try discriminate.
      * (* closing line written by the caller *)
        assert (HpE : p = E) by (unfold seg_end in HE; cbn in HE; congruence). subst p.
        destruct (opt_pt_eqb (Some E) (end_of (Some E) init)) eqn:Ecl.
        -- exists E, segs. split; [rewrite Hsegs, <- ?app_assoc; reflexivity|]. split; [right; exact EAE|].
           unfold closing. rewrite !Hend, EAE, pt_eqb_refl. reflexivity.
        -- exists E, init. split; [rewrite app_nil_l; reflexivity|]. split; [right; exact EAE|].
           unfold closing. rewrite Hend, EAE.
           destruct (end_of (Some E) init) as [q|] eqn:Eq; cbn [opt_pt_eqb] in Ecl; [rewrite Ecl|]; rewrite Hsegs; reflexivity.
      * exists E, segs. split; [rewrite Hsegs, <- ?app_assoc; reflexivity|]. split; [right; exact EAE|].
        unfold closing. rewrite !Hend, EAE, pt_eqb_refl. reflexivity.
      * exists E, segs. split; [rewrite Hsegs, <- ?app_assoc; reflexivity|]. split; [right; exact EAE|].
        unfold closing. rewrite !Hend, EAE, pt_eqb_refl. reflexivity.
    + exists A, segs. split; [reflexivity|]. split; [left; reflexivity | reflexivity].
Qed.

(* ---- a quadratic contour without on-curve points *)
Theorem roundtrip_quad_blob ps : (2 <= length ps)%nat -> all_some ps = true ->
  roundtrip [QCurveTo (ps ++ [None]); ClosePath] = Ok [QCurveTo (ps ++ [None]); ClosePath].
Proof.
  intros Hlen Hall. assert (Hne : ps <> []) by (destruct ps; [cbn in Hlen; lia | discriminate]). unfold roundtrip, segment_to_point. cbn [s2p_run s2p_step].
  rewrite rev_app_distr. cbn [rev app]. rewrite rev_involutive.
  destruct ps as [|o r]; [congruence|]. cbn [map].
  assert (Hoffs : forall l : list (option pt), all_some l = true -> first_on (map (fun o => (o, None)) l) = None).
  { induction l as [|x l IH]; [reflexivity|]. intros _. cbn. destruct (first_on (map (fun o0 : option pt => (o0, @None ptype)) l)) eqn:E.
    - clear -E. exfalso. revert n E. induction l as [|y l IH]; cbn; [discriminate|]. intros n. destruct (first_on _) eqn:E2; [|discriminate]. intros _. eapply IH. reflexivity.
    - reflexivity. }
  cbn [s2p_step fst snd is_some]. rewrite andb_false_r. cbn [andb points_to_segments app].
  assert (Hp2s : point_to_segment ((o, None) :: map (fun o0 : option pt => (o0, @None ptype)) r) false = Ok [QCurveTo ((o :: r) ++ [None]); ClosePath]).
  { unfold point_to_segment.
    change ((o, None) :: map (fun o0 : option pt => (o0, @None ptype)) r) with (map (fun o0 : option pt => (o0, @None ptype)) (o :: r)).
    rewrite (Hoffs (o :: r) Hall).
    assert (Hs : segmentize (map (fun o0 : option pt => (o0, @None ptype)) (o :: r) ++ [(None, Some TQCurve)]) [] = [(TQCurve, (o :: r) ++ [None])]).
    { rewrite segmentize_offs. reflexivity. }
    destruct r as [|o2 r2]; [cbn in Hlen; lia|].
    cbn [map] in *.
    transitivity (flush [(TQCurve, (o :: o2 :: r2) ++ [None])] false); [f_equal; exact Hs|].
    assert (Hl : last ((o :: o2 :: r2) ++ [None]) (@None pt) = None) by apply last_last.
    set (X := (o :: o2 :: r2) ++ [None]) in *. unfold flush. cbn [last snd emit]. rewrite Hl. reflexivity. }
  rewrite Hp2s. reflexivity.
Qed.
