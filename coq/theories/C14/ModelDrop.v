(* C14/ModelDrop.v — ttLib/tables/_g_l_y_f.py: dropImpliedOnCurvePoints (1641-1766, as repaired by 4ed56da) for ONE simple glyph with
   integer coordinates: which on-curve points may go, the cubic-contour rule, the new flags / coordinates / end points. *)
From Coq Require Import ZArith List Bool.
From FV Require Import Base.Ser Base.Res.
Import ListNotations.
Open Scope Z_scope.

Definition flagOnCurve : Z := 1.
Definition flagCubic : Z := 128.
Definition on_curve (f : Z) : bool := negb (Z.land f flagOnCurve =? 0).
Definition cubic (f : Z) : bool := negb (Z.land f flagCubic =? 0).

Definition nthZ (l : list Z) (i : nat) : Z := nth i l 0.
Definition nthP (l : list (Z * Z)) (i : nat) : Z * Z := nth i l (0, 0).

(* _is_mid_point on integers: both tests of the library coincide with exact equality *)
Definition is_mid (p0 p1 p2 : Z * Z) : bool :=
  (fst p0 + fst p2 =? 2 * fst p1) && (snd p0 + snd p2 =? 2 * snd p1).

(* the indices of one contour [start, last] that may be dropped *)
Definition may_drop_at (flags : list Z) (coords : list (Z * Z)) (start last i : nat) : bool :=
  if negb (on_curve (nthZ flags i)) then false
  else
    let prv := if Nat.ltb start i then (i - 1)%nat else last in
    let nxt := if Nat.ltb i last then (i + 1)%nat else start in
    if on_curve (nthZ flags prv) || negb (nthZ flags prv =? nthZ flags nxt) then false
    else is_mid (nthP coords prv) (nthP coords i) (nthP coords nxt).

Fixpoint range (s : nat) (n : nat) : list nat := match n with O => [] | S k => s :: range (S s) k end.

Definition contour_drop (flags : list Z) (coords : list (Z * Z)) (start last : nat) : list nat :=
  let idx := range start (last + 1 - start) in
  let cand := filter (may_drop_at flags coords start last) idx in
  let ons := filter (fun i => on_curve (nthZ flags i)) idx in
  match ons with
  | [] => cand
  | o0 :: _ =>
    (* a cubic contour left without on-curve points is read in pairs from its first point *)
    if Nat.odd (o0 - start) && cubic (nthZ flags start) && forallb (fun i => existsb (Nat.eqb i) cand) ons
    then filter (fun i => negb (Nat.eqb i o0)) cand else cand
  end.

Fixpoint all_drops (flags : list Z) (coords : list (Z * Z)) (start : nat) (ends : list Z) : list nat :=
  match ends with
  | [] => []
  | e :: r => contour_drop flags coords start (Z.to_nat e) ++ all_drops flags coords (S (Z.to_nat e)) r
  end.

(* the loop that renumbers the end points; IndexError when a dropped index lies beyond the last end point *)
Fixpoint ends_loop (drops : list Z) (ends : list Z) (delta : Z) : Res (list Z) :=
  match drops with
  | [] => Ok (map (fun e => e - delta) ends)
  | d :: dr =>
    (fix walk (es : list Z) : Res (list Z) :=
       match es with
       | [] => Err IndexError
       | e :: er => if e <? d then match walk er with Ok out => Ok (e - delta :: out) | Err x => Err x end
                    else ends_loop dr es (delta + 1)
       end) ends
  end.

Definition keep {A} (drops : list nat) (l : list A) : list A :=
  map snd (filter (fun ix => negb (existsb (Nat.eqb (fst ix)) drops)) (combine (seq 0 (length l)) l)).

(* (dropped indices, new flags, new coordinates, new end points); nothing changes when nothing can be dropped *)
Definition dropImplied (flags : list Z) (coords : list (Z * Z)) (ends : list Z) : Res (list Z * list Z * list (Z * Z) * list Z) :=
  let drops := all_drops flags coords 0 ends in
  match drops with
  | [] => Ok ([], flags, coords, ends)
  | _ => match ends_loop (map Z.of_nat drops) ends 0 with
         | Ok ne => Ok (map Z.of_nat drops, keep drops flags, keep drops coords, ne)
         | Err e => Err e
         end
  end.
