(* C05/ProofsVarIdx.v — the entry format chosen from the OR of all indices is wide enough for every one of them, and unpacking
   what was packed returns the index. *)
From Coq Require Import ZArith List Bool Lia.
From FV Require Import Base.Ser Base.Res Base.BE C04.Model C04.Proofs C05.ModelVarIdx.
Import ListNotations.
Open Scope Z_scope.

(* ---------- bit inclusion *)
Definition subm (x y : Z) : Prop := forall n, 0 <= n -> Z.testbit x n = true -> Z.testbit y n = true.

Lemma subm_refl x : subm x x. Proof. intros n _ H. exact H. Qed.
Lemma subm_trans x y z : subm x y -> subm y z -> subm x z.
Proof. intros A B n Hn H. apply B, A; assumption. Qed.
Lemma subm_lor_l x y : subm x (Z.lor x y).
Proof. intros n _ H. rewrite Z.lor_spec, H. reflexivity. Qed.
Lemma subm_lor_r x y : subm y (Z.lor x y).
Proof. intros n _ H. rewrite Z.lor_spec, H. apply orb_true_r. Qed.
Lemma subm_lor_mono a b c d : subm a c -> subm b d -> subm (Z.lor a b) (Z.lor c d).
Proof.
  intros A B n Hn H. rewrite Z.lor_spec in *. apply orb_true_iff in H. apply orb_true_iff.
  destruct H as [H|H]; [left; apply A|right; apply B]; assumption.
Qed.
Lemma subm_land_mono a c m : subm a c -> subm (Z.land a m) (Z.land c m).
Proof.
  intros A n Hn H. rewrite Z.land_spec in *. apply andb_true_iff in H. destruct H as [H1 H2].
  rewrite (A n Hn H1), H2. reflexivity.
Qed.
Lemma subm_shiftr_mono a c s : 0 <= s -> subm a c -> subm (Z.shiftr a s) (Z.shiftr c s).
Proof. intros Hs A n Hn H. rewrite Z.shiftr_spec in * by lia. apply A; [lia|exact H]. Qed.

Lemma subm_le x y : 0 <= x -> 0 <= y -> subm x y -> x <= y.
Proof.
  intros Hx Hy S.
  assert (L : Z.ldiff x y = 0).
  { apply Z.bits_inj'. intros n Hn. rewrite Z.ldiff_spec, Z.bits_0.
    destruct (Z.testbit x n) eqn:E; [rewrite (S n Hn E); reflexivity|reflexivity]. }
  pose proof (Z.sub_nocarry_ldiff y x L) as H. pose proof (proj2 (Z.ldiff_nonneg y x) (or_introl Hy)). lia.
Qed.

Lemma fold_lor_subm : forall l acc x, (In x l \/ subm x acc) -> subm x (fold_left Z.lor l acc).
Proof.
  induction l as [|y l IH]; intros acc x H; cbn [fold_left].
  - destruct H as [[]|H]; exact H.
  - apply IH. destruct H as [[<-|H]|H]; [right; apply subm_lor_r|left; exact H|right].
    eapply subm_trans; [exact H|apply subm_lor_l].
Qed.
Lemma fold_lor_nonneg : forall l acc, 0 <= acc -> Forall (fun v => 0 <= v) l -> 0 <= fold_left Z.lor l acc.
Proof.
  induction l as [|y l IH]; intros acc Ha HF; cbn [fold_left]; [exact Ha|]. inversion HF; subst.
  apply IH; [apply Z.lor_nonneg; split; assumption|assumption].
Qed.

(* ---------- the packing in arithmetic *)
Definition enc_k (k idx : Z) : Z :=
  Z.lor (Z.shiftr (Z.land idx 4294901760) (16 - k)) (Z.land idx (Z.shiftl 1 k - 1)).
Definition dec_k (k raw : Z) : Z :=
  Z.lor (Z.shiftl (Z.land raw (4294967295 - (Z.shiftl 1 k - 1))) (16 - k)) (Z.land raw (Z.shiftl 1 k - 1)).
Lemma enc_entry_k fmt idx : enc_entry fmt idx = enc_k (innerBits_of fmt) idx. Proof. reflexivity. Qed.
Lemma dec_entry_k fmt raw : dec_entry fmt raw = dec_k (innerBits_of fmt) raw. Proof. reflexivity. Qed.

Lemma mask_ones k : 0 <= k -> Z.shiftl 1 k - 1 = Z.ones k.
Proof. intros H. rewrite Z.ones_equiv, Z.shiftl_1_l. lia. Qed.
Lemma lor_disjoint_add hi lo k : 0 <= k -> 0 <= lo < 2 ^ k -> Z.lor (hi * 2 ^ k) lo = hi * 2 ^ k + lo.
Proof.
  intros Hk Hlo. assert (D : Z.land (hi * 2 ^ k) lo = 0).
  { apply Z.bits_inj'. intros n Hn. rewrite Z.land_spec, Z.bits_0.
    destruct (Z.lt_ge_cases n k) as [L|G].
    - rewrite Z.mul_pow2_bits_low by lia. reflexivity.
    - assert (Z.testbit lo n = false).
      { destruct (Z.eq_dec lo 0) as [->|NZ]; [apply Z.bits_0|]. apply Z.bits_above_log2; [lia|].
        assert (Z.log2 lo < k) by (apply Z.log2_lt_pow2; lia). lia. }
      rewrite H. apply andb_false_r. }
  rewrite <- (Z.lxor_lor _ _ D). symmetry. apply Z.add_nocarry_lxor, D.
Qed.
Lemma land_high16 idx : 0 <= idx < 4294967296 -> Z.land idx 4294901760 = (idx / 65536) * 65536.
Proof.
  intros H. change 4294901760 with (Z.shiftl (Z.ones 16) 16).
  apply Z.bits_inj'. intros n Hn. rewrite Z.land_spec.
  change 65536 with (2 ^ 16).
  destruct (Z.lt_ge_cases n 16) as [L|G].
  - rewrite Z.shiftl_spec_low by lia. rewrite Z.mul_pow2_bits_low by lia. apply andb_false_r.
  - rewrite Z.shiftl_spec by lia. rewrite Z.mul_pow2_bits by lia. rewrite Z.div_pow2_bits by lia.
    replace (n - 16 + 16) with n by lia.
    destruct (Z.lt_ge_cases (n - 16) 16) as [L2|G2].
    + rewrite Z.ones_spec_low by lia. apply andb_true_r.
    + rewrite Z.ones_spec_high by lia. rewrite andb_false_r. symmetry.
      destruct (Z.eq_dec idx 0) as [->|NZ]; [apply Z.bits_0|]. apply Z.bits_above_log2; [lia|].
      assert (Z.log2 idx < 32) by (apply Z.log2_lt_pow2; [lia|]; change (2 ^ 32) with 4294967296; lia). lia.
Qed.
Lemma land_not_ones raw k : 0 <= k <= 16 -> 0 <= raw < 4294967296 ->
  Z.land raw (4294967295 - Z.ones k) = (raw / 2 ^ k) * 2 ^ k.
Proof.
  intros Hk H. apply Z.bits_inj'. intros n Hn. rewrite Z.land_spec.
  assert (E : 4294967295 - Z.ones k = Z.shiftl (Z.ones (32 - k)) k).
  { rewrite !Z.ones_equiv, Z.shiftl_mul_pow2 by lia.
    assert (M : 2 ^ (32 - k) * 2 ^ k = 4294967296).
    { rewrite <- Z.pow_add_r by lia. replace (32 - k + k) with 32 by lia. reflexivity. }
    rewrite Z.mul_pred_l. lia. }
  rewrite E.
  destruct (Z.lt_ge_cases n k) as [L|G].
  - rewrite Z.shiftl_spec_low by lia. rewrite Z.mul_pow2_bits_low by lia. apply andb_false_r.
  - rewrite Z.shiftl_spec by lia. rewrite Z.mul_pow2_bits by lia. rewrite Z.div_pow2_bits by lia.
    replace (n - k + k) with n by lia.
    destruct (Z.lt_ge_cases (n - k) (32 - k)) as [L2|G2].
    + rewrite Z.ones_spec_low by lia. apply andb_true_r.
    + rewrite Z.ones_spec_high by lia. rewrite andb_false_r. symmetry.
      destruct (Z.eq_dec raw 0) as [->|NZ]; [apply Z.bits_0|]. apply Z.bits_above_log2; [lia|].
      assert (Z.log2 raw < 32) by (apply Z.log2_lt_pow2; [lia|]; change (2 ^ 32) with 4294967296; lia). lia.
Qed.

Lemma pow2_16_split k : 0 <= k <= 16 -> 65536 = 2 ^ (16 - k) * 2 ^ k.
Proof. intros H. rewrite <- Z.pow_add_r by lia. replace (16 - k + k) with 16 by lia. reflexivity. Qed.

Lemma enc_k_arith k idx : 1 <= k <= 16 -> 0 <= idx < 4294967296 ->
  enc_k k idx = (idx / 65536) * 2 ^ k + idx mod 2 ^ k.
Proof.
  intros Hk H. unfold enc_k. rewrite mask_ones, Z.land_ones by lia. rewrite land_high16 by exact H.
  rewrite Z.shiftr_div_pow2 by lia.
  assert (P : 0 < 2 ^ k) by (apply Z.pow_pos_nonneg; lia).
  assert (P2 : 0 < 2 ^ (16 - k)) by (apply Z.pow_pos_nonneg; lia).
  set (o := idx / 65536).
  replace (o * 65536) with (o * 2 ^ k * 2 ^ (16 - k)) by (rewrite (pow2_16_split k) by lia; ring).
  rewrite Z.div_mul by lia.
  apply lor_disjoint_add; [lia|]. apply Z.mod_pos_bound. exact P.
Qed.
Lemma dec_k_arith k raw : 1 <= k <= 16 -> 0 <= raw < 4294967296 ->
  dec_k k raw = (raw / 2 ^ k) * 65536 + raw mod 2 ^ k.
Proof.
  intros Hk H. unfold dec_k. rewrite mask_ones, Z.land_ones by lia. rewrite land_not_ones by lia.
  rewrite Z.shiftl_mul_pow2 by lia.
  assert (P : 0 < 2 ^ k) by (apply Z.pow_pos_nonneg; lia).
  replace (raw / 2 ^ k * 2 ^ k * 2 ^ (16 - k)) with ((raw / 2 ^ k) * 2 ^ 16).
  - change 65536 with (2 ^ 16). apply lor_disjoint_add; [lia|].
    pose proof (Z.mod_pos_bound raw (2 ^ k) P). assert (2 ^ k <= 2 ^ 16) by (apply Z.pow_le_mono_r; lia). lia.
  - change (2 ^ 16) with 65536. rewrite (pow2_16_split k) by lia. ring.
Qed.

Lemma dec_enc_k k idx : 1 <= k <= 16 -> 0 <= idx < 4294967296 -> idx mod 65536 < 2 ^ k ->
  dec_k k (enc_k k idx) = idx /\ 0 <= enc_k k idx < 4294967296.
Proof.
  intros Hk H Hin.
  assert (P : 0 < 2 ^ k) by (apply Z.pow_pos_nonneg; lia).
  assert (P16 : 2 ^ k <= 65536) by (change 65536 with (2 ^ 16); apply Z.pow_le_mono_r; lia).
  rewrite enc_k_arith by assumption.
  set (o := idx / 65536). set (i := idx mod 2 ^ k).
  assert (Ho : 0 <= o < 65536) by (unfold o; split; [apply Z.div_pos; lia|apply Z.div_lt_upper_bound; lia]).
  assert (Hi : 0 <= i < 2 ^ k) by (unfold i; apply Z.mod_pos_bound; exact P).
  assert (Ei : i = idx mod 65536).
  { unfold i. rewrite (pow2_16_split k) by lia.
    pose proof (Z.mod_small (idx mod (2 ^ (16 - k) * 2 ^ k)) (2 ^ k)) as MS.
    rewrite <- (pow2_16_split k) in * by lia.
    rewrite <- MS by (split; [apply Z.mod_pos_bound; lia|exact Hin]).
    rewrite (pow2_16_split k) at 1 by lia. rewrite Z.mul_comm.
    rewrite <- Znumtheory.Zmod_div_mod; [reflexivity|lia| |].
    - assert (0 < 2 ^ (16 - k)) by (apply Z.pow_pos_nonneg; lia). nia.
    - exists (2 ^ (16 - k)). ring. }
  assert (Hb : 0 <= o * 2 ^ k + i < 4294967296) by nia.
  split; [|exact Hb].
  rewrite dec_k_arith by assumption.
  rewrite Z.div_add_l by lia. rewrite (Z.div_small i) by lia. rewrite Z.add_0_r.
  rewrite (Z.add_comm (o * 2 ^ k) i), Z.mod_add by lia. rewrite (Z.mod_small i) by lia.
  rewrite Ei. unfold o. pose proof (Z.div_mod idx 65536 ltac:(lia)). lia.
Qed.

(* ---------- the format word *)
Definition fmt_of (es k : Z) : Z := Z.lor (Z.shiftl (es - 1) 4) (k - 1).
Lemma fmt_fields_table :
  forallb (fun es => forallb (fun k => (innerBits_of (fmt_of es k) =? k) && (entrySize_of (fmt_of es k) =? es)
                                        && (fmt_of es k <? 256) && (0 <=? fmt_of es k)) (map Z.of_nat (seq 1 16))) [1; 2; 3; 4] = true.
Proof. vm_compute. reflexivity. Qed.
Lemma fmt_fields es k : (es = 1 \/ es = 2 \/ es = 3 \/ es = 4) -> 1 <= k <= 16 ->
  innerBits_of (fmt_of es k) = k /\ entrySize_of (fmt_of es k) = es /\ 0 <= fmt_of es k < 256.
Proof.
  intros Hes Hk. pose proof fmt_fields_table as T. rewrite forallb_forall in T.
  assert (Ies : In es [1; 2; 3; 4]) by (cbn; lia). specialize (T es Ies). rewrite forallb_forall in T.
  assert (Ik : In k (map Z.of_nat (seq 1 16))).
  { apply in_map_iff. exists (Z.to_nat k). split; [lia|]. apply in_seq. lia. }
  specialize (T k Ik). repeat (apply andb_true_iff in T; destruct T as [T ?]).
  apply Z.eqb_eq in T.
  repeat match goal with H : (_ =? _) = true |- _ => apply Z.eqb_eq in H | H : (_ <? _) = true |- _ => apply Z.ltb_lt in H
                    | H : (_ <=? _) = true |- _ => apply Z.leb_le in H end.
  repeat split; lia.
Qed.

Definition valid_idx (v : Z) : Prop := 0 <= v < 4294967296.

Lemma subm_land_l a m : subm (Z.land a m) a.
Proof. intros n _ H. rewrite Z.land_spec in H. apply andb_true_iff in H. apply H. Qed.

Section Format.
  Variable mapping : list Z.
  Hypothesis Hvalid : Forall valid_idx mapping.
  Let ored := fold_left Z.lor mapping 0.
  Let k := Z.max (bitlen 64 (Z.land ored 65535)) 1.
  Let ored' := Z.lor (Z.shiftr ored (16 - k)) (Z.land ored (Z.shiftl 1 k - 1)).
  Let es := if ored' <=? 255 then 1 else if ored' <=? 65535 then 2 else if ored' <=? 16777215 then 3 else 4.

  Lemma ored_nonneg : 0 <= ored.
  Proof. apply fold_lor_nonneg; [lia|]. eapply Forall_impl; [|exact Hvalid]. intros v [H _]. exact H. Qed.
  Lemma inner_bound : 0 <= Z.land ored 65535 < 65536.
  Proof.
    change 65535 with (Z.ones 16). rewrite Z.land_ones by lia. apply Z.mod_pos_bound. lia.
  Qed.
  Lemma k_range : 1 <= k <= 16.
  Proof.
    unfold k. pose proof inner_bound as IB. destruct (Z.eq_dec (Z.land ored 65535) 0) as [E|NE].
    - rewrite E. cbn. lia.
    - destruct (bitlen_spec 64 (Z.land ored 65535)) as [[L U] P]; [cbn; lia|].
      assert (bitlen 64 (Z.land ored 65535) - 1 < 16).
      { apply (Z.pow_lt_mono_r_iff 2); [lia|lia|]. change (2 ^ 16) with 65536. lia. }
      lia.
  Qed.
  Lemma getEntryFormat_eq : getEntryFormat mapping = fmt_of es k.
  Proof. reflexivity. Qed.
  Lemma es_cases : es = 1 \/ es = 2 \/ es = 3 \/ es = 4.
  Proof. unfold es. repeat match goal with |- context [if ?b then _ else _] => destruct b end; auto. Qed.

  Lemma inner_fits idx : In idx mapping -> idx mod 65536 < 2 ^ k.
  Proof.
    intros Hin. pose proof Hvalid as HV. rewrite Forall_forall in HV. pose proof (HV idx Hin) as [V0 V1].
    assert (S : subm (Z.land idx 65535) (Z.land ored 65535)).
    { apply subm_land_mono. apply fold_lor_subm. left. exact Hin. }
    assert (Li : 0 <= Z.land idx 65535) by (apply Z.land_nonneg; lia).
    pose proof inner_bound as IB.
    pose proof (subm_le _ _ Li (proj1 IB) S) as LE.
    change 65535 with (Z.ones 16) in LE at 1. rewrite Z.land_ones in LE by lia. change (2 ^ 16) with 65536 in LE.
    pose proof k_range as KR.
    destruct (Z.eq_dec (Z.land ored 65535) 0) as [E|NE].
    - assert (0 < 2 ^ k) by (apply Z.pow_pos_nonneg; lia). pose proof (Z.mod_pos_bound idx 65536 ltac:(lia)). lia.
    - destruct (bitlen_spec 64 (Z.land ored 65535)) as [[L U] P]; [cbn; lia|].
      assert (2 ^ bitlen 64 (Z.land ored 65535) <= 2 ^ k) by (apply Z.pow_le_mono_r; unfold k; lia). lia.
  Qed.

  Lemma packed_le idx : In idx mapping -> enc_k k idx <= ored'.
  Proof.
    intros Hin. pose proof Hvalid as HV. rewrite Forall_forall in HV. pose proof (HV idx Hin) as [V0 V1]. pose proof k_range as KR.
    pose proof ored_nonneg as ON.
    assert (Sx : subm idx ored) by (apply fold_lor_subm; left; exact Hin).
    apply subm_le.
    - unfold enc_k. apply Z.lor_nonneg. split; [apply Z.shiftr_nonneg, Z.land_nonneg; lia|apply Z.land_nonneg; lia].
    - unfold ored'. apply Z.lor_nonneg. split; [apply Z.shiftr_nonneg; exact ON|apply Z.land_nonneg; lia].
    - unfold enc_k, ored'. apply subm_lor_mono.
      + apply subm_shiftr_mono; [lia|]. eapply subm_trans; [apply subm_land_l|exact Sx].
      + apply subm_land_mono. exact Sx.
  Qed.

  Lemma entry_fits idx : In idx mapping -> 0 <= enc_k k idx < 256 ^ es /\ dec_k k (enc_k k idx) = idx.
  Proof.
    intros Hin. pose proof Hvalid as HV. rewrite Forall_forall in HV. pose proof (HV idx Hin) as V. pose proof k_range as KR.
    destruct (dec_enc_k k idx KR V (inner_fits idx Hin)) as [D B]. split; [|exact D].
    pose proof (packed_le idx Hin) as LE. split; [lia|].
    unfold es. destruct (Z.leb_spec ored' 255); [change (256 ^ 1) with 256; lia|].
    destruct (Z.leb_spec ored' 65535); [change (256 ^ 2) with 65536; lia|].
    destruct (Z.leb_spec ored' 16777215); [change (256 ^ 3) with 16777216; lia|].
    change (256 ^ 4) with 4294967296. lia.
  Qed.
End Format.

(* ---------- the table *)
Lemma read_entries_packed size : (1 <= size)%nat -> forall vals rest,
  Forall (fun v => 0 <= v < 256 ^ Z.of_nat size) vals ->
  read_entries (length vals) size (flat_map (pack_be size) vals ++ rest) = Ok vals.
Proof.
  intros Hs. induction vals as [|v r IH]; intros rest HF; [reflexivity|].
  inversion HF as [|? ? Hv Hr]; subst. cbn [length read_entries flat_map]. rewrite <- app_assoc, take_pack.
  replace (2 ^ (8 * Z.of_nat size)) with (256 ^ Z.of_nat size) by (change 256 with (2 ^ 8); rewrite <- Z.pow_mul_r by lia; reflexivity).
  rewrite Z.mod_small by exact Hv. rewrite IH by exact Hr. reflexivity.
Qed.

Theorem index_map_roundtrip mapping :
  Forall valid_idx mapping -> Z.of_nat (length mapping) < 4294967296 ->
  exists bytes, dsim_compile mapping = Ok bytes /\ dsim_decompile bytes = Ok mapping.
Proof.
  intros HV HL. unfold dsim_compile.
  pose proof (getEntryFormat_eq mapping) as EF. cbv zeta in EF.
  pose proof (k_range mapping) as KR. cbv zeta in KR.
  pose proof (es_cases mapping) as EC. cbv zeta in EC.
  pose proof (entry_fits mapping HV) as EFit. cbv zeta in EFit.
  set (ored := fold_left Z.lor mapping 0) in *.
  set (k := Z.max (bitlen 64 (Z.land ored 65535)) 1) in *.
  set (ored' := Z.lor (Z.shiftr ored (16 - k)) (Z.land ored (Z.shiftl 1 k - 1))) in *.
  set (es := if ored' <=? 255 then 1 else if ored' <=? 65535 then 2 else if ored' <=? 16777215 then 3 else 4) in *.
  destruct (fmt_fields es k EC KR) as [F1 [F2 F3]].
  rewrite EF. rewrite F2.
  set (fmt := fmt_of es k) in *.
  set (entries := map (enc_entry fmt) mapping).
  assert (Hent : Forall (fun v => 0 <= v < 256 ^ es) entries).
  { unfold entries. apply Forall_forall. intros v Hv. apply in_map_iff in Hv. destruct Hv as [idx [<- Hin]].
    rewrite enc_entry_k, F1. apply (EFit idx Hin). }
  assert (Hfits : forallb (fits es) entries = true).
  { apply forallb_forall. intros v Hv. rewrite Forall_forall in Hent. specialize (Hent v Hv). unfold fits.
    apply andb_true_iff. split; [apply Z.leb_le|apply Z.ltb_lt]; lia. }
  rewrite Hfits. cbn [negb].
  assert (Hes : (1 <= Z.to_nat es)%nat /\ Z.of_nat (Z.to_nat es) = es) by (destruct EC as [-> | [-> | [-> | ->]]]; cbn; lia).
  destruct Hes as [Hes1 Hes2].
  assert (Hent' : Forall (fun v => 0 <= v < 256 ^ Z.of_nat (Z.to_nat es)) entries) by (rewrite Hes2; exact Hent).
  assert (Hdec : map (dec_entry fmt) entries = mapping).
  { unfold entries. rewrite map_map. rewrite <- (map_id mapping) at 2. apply map_ext_in. intros idx Hin.
    rewrite dec_entry_k, enc_entry_k, F1. apply (EFit idx Hin). }
  assert (Lent : length entries = length mapping) by (unfold entries; apply map_length).
  destruct (Z.ltb_spec 65535 (Z.of_nat (length mapping))) as [Big|Small].
  - destruct (Z.ltb_spec (Z.of_nat (length mapping)) 4294967296); [|lia].
    eexists. split; [reflexivity|]. unfold dsim_decompile.
    repeat (rewrite take_pack; cbn [app]).
    change (2 ^ (8 * Z.of_nat 1)) with 256. change (2 ^ (8 * Z.of_nat 4)) with 4294967296. rewrite ?Z.mod_small by lia.
    rewrite F2, Nat2Z.id, <- Lent.
    pose proof (read_entries_packed (Z.to_nat es) Hes1 entries [] Hent') as RE. rewrite app_nil_r in RE. rewrite RE.
    cbn [bind]. rewrite Hdec. reflexivity.
  - eexists. split; [reflexivity|]. unfold dsim_decompile.
    repeat (rewrite take_pack; cbn [app]).
    change (2 ^ (8 * Z.of_nat 1)) with 256. change (2 ^ (8 * Z.of_nat 2)) with 65536. rewrite ?Z.mod_small by lia.
    rewrite F2, Nat2Z.id, <- Lent.
    pose proof (read_entries_packed (Z.to_nat es) Hes1 entries [] Hent') as RE. rewrite app_nil_r in RE. rewrite RE.
    cbn [bind]. rewrite Hdec. reflexivity.
Qed.

(* non-vacuity: three indices, three inner bits, one byte each *)
Example index_map_example :
  dsim_compile [65538; 5; 196609] = Ok [0; 2; 0; 3; 10; 5; 25] /\ dsim_decompile [0; 2; 0; 3; 10; 5; 25] = Ok [65538; 5; 196609].
Proof. split; vm_compute; reflexivity. Qed.
