(* C05/ModelVarIdx.v — the delta-set index maps through which HVAR / VVAR find a glyph's advance deltas (and COLR / VARC their
   variation indices): otTables.DeltaSetIndexMap.getEntryFormat (1043-1066), otConverters.VarIdxMapValue.read / write (1723-1768), and
   the table around them (Format, EntryFormat, MappingCount).  An index is outer * 2^16 + inner; the map stores
   outer * 2^innerBits + inner in entrySize bytes, both chosen from the OR of all indices. *)
From Coq Require Import ZArith List Bool.
From FV Require Import Base.Ser Base.Res Base.BE C04.Model.
Import ListNotations.
Open Scope Z_scope.

Definition innerBits_of (fmt : Z) : Z := 1 + Z.land fmt 15.
Definition entrySize_of (fmt : Z) : Z := 1 + Z.shiftr (Z.land fmt 48) 4.

Definition getEntryFormat (mapping : list Z) : Z :=
  let ored := fold_left Z.lor mapping 0 in
  let innerBits := Z.max (bitlen 64 (Z.land ored 65535)) 1 in
  let ored' := Z.lor (Z.shiftr ored (16 - innerBits)) (Z.land ored (Z.shiftl 1 innerBits - 1)) in
  let entrySize := if ored' <=? 255 then 1 else if ored' <=? 65535 then 2 else if ored' <=? 16777215 then 3 else 4 in
  Z.lor (Z.shiftl (entrySize - 1) 4) (innerBits - 1).

Definition enc_entry (fmt idx : Z) : Z :=
  let innerBits := innerBits_of fmt in
  Z.lor (Z.shiftr (Z.land idx 4294901760) (16 - innerBits)) (Z.land idx (Z.shiftl 1 innerBits - 1)).
Definition dec_entry (fmt raw : Z) : Z :=
  let innerBits := innerBits_of fmt in
  let innerMask := Z.shiftl 1 innerBits - 1 in
  Z.lor (Z.shiftl (Z.land raw (4294967295 - innerMask)) (16 - innerBits)) (Z.land raw innerMask).

(* DeltaSetIndexMap.compile: Format (uint8), EntryFormat (uint8), MappingCount (uint16 / uint32), the entries *)
Definition fits (size v : Z) : bool := (0 <=? v) && (v <? 256 ^ size).
Definition dsim_compile (mapping : list Z) : Res (list Z) :=
  let fmt := getEntryFormat mapping in
  let size := entrySize_of fmt in
  let n := Z.of_nat (length mapping) in
  let entries := map (enc_entry fmt) mapping in
  if negb (forallb (fits size) entries) then Err OverflowError
  else if 65535 <? n then
    (if n <? 4294967296 then Ok (pack_be 1 1 ++ pack_be 1 fmt ++ pack_be 4 n ++ flat_map (pack_be (Z.to_nat size)) entries) else Err StructError)
  else Ok (pack_be 1 0 ++ pack_be 1 fmt ++ pack_be 2 n ++ flat_map (pack_be (Z.to_nat size)) entries).

Fixpoint read_entries (n : nat) (size : nat) (bs : list Z) : Res (list Z) :=
  match n with
  | O => Ok []
  | S k => match take_be size bs with
           | Some (v, r) => let* t := read_entries k size r in Ok (v :: t)
           | None => Err LibError
           end
  end.
Definition dsim_decompile (data : list Z) : Res (list Z) :=
  match take_be 1 data with
  | Some (format, d1) =>
    match take_be 1 d1 with
    | Some (fmt, d2) =>
      match take_be (if format =? 0 then 2 else 4) d2 with
      | Some (count, d3) =>
        let* raws := read_entries (Z.to_nat count) (Z.to_nat (entrySize_of fmt)) d3 in
        Ok (map (dec_entry fmt) raws)
      | None => Err LibError
      end
    | None => Err LibError
    end
  | None => Err LibError
  end.
