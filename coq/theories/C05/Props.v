(* C05/Props.v — property theorems only *)
From Coq Require Import QArith List Bool.
From FV Require Import Base.Ser Base.Res Geom.QTools C05.Model C05.Proofs.
Import ListNotations.
Open Scope Q_scope.

(* the code's inferred delta IS the one the OpenType specification defines, for every coordinate *)
Theorem iup1_meets_spec : forall x x1 d1 x2 d2, spec_inferred x x1 d1 x2 d2 (iup1 x x1 d1 x2 d2).
Proof. exact Proofs.iup1_meets_spec. Qed.
Print Assumptions iup1_meets_spec.

Theorem iup1_between : forall x x1 d1 x2 d2, ~ x1 == x2 ->
  Qmin d1 d2 <= iup1 x x1 d1 x2 d2 /\ iup1 x x1 d1 x2 d2 <= Qmax d1 d2.
Proof. exact Proofs.iup1_between. Qed.
Print Assumptions iup1_between.

Theorem iup1_symmetric : forall x x1 d1 x2 d2, iup1 x x1 d1 x2 d2 == iup1 x x2 d2 x1 d1.
Proof. exact Proofs.iup1_symmetric. Qed.
Print Assumptions iup1_symmetric.
