(* C05/Props.v — property theorems only *)
From Coq Require Import QArith List Bool.
From FV Require Import Base.Ser Base.Res Geom.QTools C05.Model C05.Proofs.
Import ListNotations.
Open Scope Q_scope.

(* the code's inferred delta IS the one the OpenType specification defines, for every coordinate *)
Theorem iup1_meets_spec : forall x x1 d1 x2 d2, spec_inferred x x1 d1 x2 d2 (iup1 x x1 d1 x2 d2).
Proof. exact Proofs.iup1_meets_spec. Qed.
Print Assumptions iup1_meets_spec.

Theorem iup1_between : forall x x1 d1 x2 d2, ~ x1 == x2 ->
  Qmin d1 d2 <= iup1 x x1 d1 x2 d2 /\ iup1 x x1 d1 x2 d2 <= Qmax d1 d2.
Proof. exact Proofs.iup1_between. Qed.
Print Assumptions iup1_between.

Theorem iup1_symmetric : forall x x1 d1 x2 d2, iup1 x x1 d1 x2 d2 == iup1 x x2 d2 x1 d1.
Proof. exact Proofs.iup1_symmetric. Qed.
Print Assumptions iup1_symmetric.

(* WHOLE CONTOURS (iup_contour): the result has one delta per point; an explicit delta is kept; a point without one gets the value
   inferred (iup1, i.e. the specified rule above) from the nearest explicit points before and after it going around the contour --
   no explicit point lies strictly between, wrapping past the contour's end included *)
Theorem iup_contour_spec : forall deltas coords i, length coords = length deltas -> (i < length deltas)%nat ->
  let R := iup_contour deltas coords in
  length R = length deltas /\
  (forall d, nth i deltas None = Some d -> nth i R (0, 0) = d) /\
  (nth i deltas None = None -> (exists j, explicit deltas j) ->
     exists p q, explicit deltas p /\ explicit deltas q /\ (p < length deltas)%nat /\ (q < length deltas)%nat /\
       pt_eq (nth i R (0, 0)) (seg_at deltas coords i p q) /\
       ((p < i /\ forall k, p < k < i -> ~ explicit deltas k) \/
        (i < p /\ (forall k, k < i -> ~ explicit deltas k) /\ (forall k, p < k < length deltas -> ~ explicit deltas k)))%nat /\
       ((i < q /\ forall k, i < k < q -> ~ explicit deltas k) \/
        (q < i /\ (forall k, i < k < length deltas -> ~ explicit deltas k) /\ (forall k, k < q -> ~ explicit deltas k)))%nat).
Proof. exact Proofs.iup_contour_spec. Qed.
Print Assumptions iup_contour_spec.

(* ---- advances of a variable font go through HVAR's delta-set index map (ModelVarIdx.v: getEntryFormat, VarIdxMapValue.write / read,
   the DeltaSetIndexMap table): for EVERY list of variation indices the entry format chosen from the OR of the indices is wide
   enough, compile succeeds, and decompile returns exactly the indices -- no glyph is sent to another glyph's deltas *)
From FV Require C05.ModelVarIdx C05.ProofsVarIdx.
Theorem index_map_roundtrip : forall mapping,
  Forall ProofsVarIdx.valid_idx mapping -> (Z.of_nat (length mapping) < 4294967296)%Z ->
  exists bytes, ModelVarIdx.dsim_compile mapping = Ok bytes /\ ModelVarIdx.dsim_decompile bytes = Ok mapping.
Proof. exact ProofsVarIdx.index_map_roundtrip. Qed.
Print Assumptions index_map_roundtrip.
