From Coq Require Import QArith List String Bool.
From FV Require Import Base.Ser Base.Res C05.Model.
From FV Require C05.ModelVarIdx.
Import ListNotations.
Open Scope string_scope.
Definition iup_delta_red (deltas : list (option pt)) (coords : list pt) (ends : list nat) : list pt := iup_delta deltas coords ends.
Definition reg : registry := [
  ("iup_delta", run3 iup_delta_red);
  ("getEntryFormat", run1 ModelVarIdx.getEntryFormat);
  ("dsim_compile", run1 ModelVarIdx.dsim_compile);
  ("dsim_decompile", run1 ModelVarIdx.dsim_decompile)
].
Definition fv_entry := dispatch reg.
