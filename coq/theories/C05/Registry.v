From Coq Require Import QArith List String Bool.
From FV Require Import Base.Ser Base.Res C05.Model.
Import ListNotations.
Open Scope string_scope.
Definition iup_delta_red (deltas : list (option pt)) (coords : list pt) (ends : list nat) : list pt := iup_delta deltas coords ends.
Definition reg : registry := [
  ("iup_delta", run3 iup_delta_red)
].
Definition fv_entry := dispatch reg.
