(* C05/Model.v — inferred deltas (varLib/iup.py:50-162 iup_segment / iup_contour / iup_delta), the
   step of glyph instancing that the OpenType specification defines for points without explicit deltas. *)
From Coq Require Import QArith List Bool.
From FV Require Import Base.Ser Base.Res Geom.QTools.
Import ListNotations.
Open Scope Q_scope.

Definition pt := (Q * Q)%type.

(* one coordinate of iup_segment: reference points (x1,d1), (x2,d2) *)
Definition iup1 (x x1 d1 x2 d2 : Q) : Q :=
  if Qeqb x1 x2 then (if Qeqb d1 d2 then d1 else 0)
  else
    let '(x1, d1, x2, d2) := if Qltb x2 x1 then (x2, d2, x1, d1) else (x1, d1, x2, d2) in
    if Qleb x x1 then d1
    else if Qleb x2 x then d2
    else d1 + (x - x1) * ((d2 - d1) / (x2 - x1)).

Definition iup_segment (coords : list pt) (rc1 rd1 rc2 rd2 : pt) : list pt :=
  map (fun c => (iup1 (fst c) (fst rc1) (fst rd1) (fst rc2) (fst rd2),
                 iup1 (snd c) (snd rc1) (snd rd1) (snd rc2) (snd rd2))) coords.

Definition slice {A} (l : list A) (i1 i2 : nat) : list A := firstn (i2 - i1) (skipn i1 l).
Definition getd (deltas : list (option pt)) (i : nat) : pt := match nth i deltas None with Some d => d | None => (0, 0) end.
Definition getc (coords : list pt) (i : nat) : pt := nth i coords (0, 0).

Fixpoint explicit_indices (i : nat) (deltas : list (option pt)) : list nat :=
  match deltas with
  | [] => []
  | Some _ :: r => i :: explicit_indices (S i) r
  | None :: r => explicit_indices (S i) r
  end.

(* the loop over consecutive explicit indices *)
Fixpoint iup_middle (deltas : list (option pt)) (coords : list pt) (start : nat) (rest : list nat) : list pt * nat :=
  match rest with
  | [] => ([], start)
  | e :: r =>
    let seg := if Nat.ltb 1 (e - start)
               then iup_segment (slice coords (S start) e) (getc coords start) (getd deltas start) (getc coords e) (getd deltas e)
               else [] in
    let '(t, last) := iup_middle deltas coords e r in
    (seg ++ getd deltas e :: t, last)
  end.

Definition iup_contour (deltas : list (option pt)) (coords : list pt) : list pt :=
  let n := length deltas in
  match explicit_indices 0 deltas with
  | [] => repeat (0, 0) n
  | start :: rest =>
    if Nat.eqb (length (explicit_indices 0 deltas)) n then map (fun o => match o with Some d => d | None => (0, 0) end) deltas
    else
      let lastidx := last (start :: rest) start in
      let head := if Nat.eqb start 0 then []
                  else iup_segment (slice coords 0 start) (getc coords start) (getd deltas start) (getc coords lastidx) (getd deltas lastidx) in
      let '(mid, lst) := iup_middle deltas coords start rest in
      let tail := if Nat.eqb lst (n - 1) then []
                  else iup_segment (slice coords (S lst) n) (getc coords lst) (getd deltas lst) (getc coords start) (getd deltas start) in
      head ++ getd deltas start :: mid ++ tail
  end.

(* iup_delta over contours given by their end indices, plus the four phantom points *)
Fixpoint iup_delta_aux (deltas : list (option pt)) (coords : list pt) (start : nat) (ends : list nat) : list pt :=
  match ends with
  | [] => []
  | e :: r => iup_contour (slice deltas start (S e)) (slice coords start (S e)) ++ iup_delta_aux deltas coords (S e) r
  end.
Definition iup_delta (deltas : list (option pt)) (coords : list pt) (ends : list nat) : list pt :=
  let n := length coords in
  iup_delta_aux deltas coords 0 (ends ++ [n - 4; n - 3; n - 2; n - 1])%nat.
