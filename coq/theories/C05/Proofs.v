(* C05/Proofs.v *)
From Coq Require Import QArith Lqa Lia List Bool Sorted.
From FV Require Import Base.Ser Base.Res Base.ListX Geom.QTools C05.Model.
Import ListNotations.
Open Scope Q_scope.

(* the OpenType rule for a point without an explicit delta, one coordinate at a time (gvar
   "Inferred deltas for un-referenced point numbers"), written as a relation, not as an algorithm *)
Definition spec_inferred (x xa da xb db r : Q) : Prop :=
  (xa == xb -> (da == db -> r == da) /\ (~ da == db -> r == 0)) /\
  (xa < xb -> (x <= xa -> r == da) /\ (xb <= x -> r == db) /\
              (xa < x -> x < xb -> r == da + (x - xa) * (db - da) / (xb - xa))) /\
  (xb < xa -> (x <= xb -> r == db) /\ (xa <= x -> r == da) /\
              (xb < x -> x < xa -> r == db + (x - xb) * (da - db) / (xa - xb))).

Theorem iup1_meets_spec x x1 d1 x2 d2 : spec_inferred x x1 d1 x2 d2 (iup1 x x1 d1 x2 d2).
Proof.
  unfold spec_inferred, iup1.
  destruct (Qeqb_spec x1 x2) as [E|NE].
  - split; [intros _|split; intros H; lra].
    destruct (Qeqb_spec d1 d2); split; intros; try reflexivity; try contradiction.
  - split; [intros H; contradiction|].
    destruct (Qltb_spec x2 x1) as [L|G].
    + split; [intros H; lra|]. intros _.
      destruct (Qleb_spec x x2); [repeat split; intros; try lra; reflexivity|].
      destruct (Qleb_spec x1 x); [repeat split; intros; try lra; reflexivity|].
      repeat split; intros; try lra. field. lra.
    + assert (x1 < x2) by (destruct (Qlt_le_dec x1 x2); [assumption|exfalso; apply NE; lra]).
      split; [|intros H'; lra]. intros _.
      destruct (Qleb_spec x x1); [repeat split; intros; try lra; reflexivity|].
      destruct (Qleb_spec x2 x); [repeat split; intros; try lra; reflexivity|].
      repeat split; intros; try lra. field. lra.
Qed.

(* an inferred delta always lies between the two reference deltas (no overshoot) *)
Theorem iup1_between x x1 d1 x2 d2 : ~ x1 == x2 ->
  Qmin d1 d2 <= iup1 x x1 d1 x2 d2 /\ iup1 x x1 d1 x2 d2 <= Qmax d1 d2.
Proof.
  intros NE. unfold iup1, Qmin, Qmax.
  destruct (Qeqb_spec x1 x2); [contradiction|].
  assert (Lin: forall a da b db, a < b -> a < x -> x < b ->
            (da <= db -> da <= da + (x - a) * ((db - da) / (b - a)) /\ da + (x - a) * ((db - da) / (b - a)) <= db) /\
            (db <= da -> db <= da + (x - a) * ((db - da) / (b - a)) /\ da + (x - a) * ((db - da) / (b - a)) <= da)).
  { intros a da b db Hab Hax Hxb.
    set (t := (x - a) / (b - a)).
    assert (T: 0 <= t /\ t <= 1) by (unfold t; split; [apply Qle_shift_div_l; lra|apply Qle_shift_div_r; lra]).
    assert (E: da + (x - a) * ((db - da) / (b - a)) == da + t * (db - da)) by (unfold t; field; lra).
    rewrite E. split; intros; nra. }
  destruct (Qltb_spec x2 x1) as [L|G].
  - destruct (Qleb_spec x x2); [destruct (Qleb_spec d1 d2); lra|].
    destruct (Qleb_spec x1 x); [destruct (Qleb_spec d1 d2); lra|].
    destruct (Lin x2 d2 x1 d1 L ltac:(lra) ltac:(lra)) as [A B].
    destruct (Qleb_spec d1 d2); [destruct (B ltac:(lra)); lra|destruct (A ltac:(lra)); lra].
  - assert (x1 < x2) by (destruct (Qlt_le_dec x1 x2); [assumption|exfalso; apply NE; lra]).
    destruct (Qleb_spec x x1); [destruct (Qleb_spec d1 d2); lra|].
    destruct (Qleb_spec x2 x); [destruct (Qleb_spec d1 d2); lra|].
    destruct (Lin x1 d1 x2 d2 H ltac:(lra) ltac:(lra)) as [A B].
    destruct (Qleb_spec d1 d2); [destruct (A ltac:(lra)); lra|destruct (B ltac:(lra)); lra].
Qed.

(* the rule does not depend on which reference point is called first *)
Theorem iup1_symmetric x x1 d1 x2 d2 : iup1 x x1 d1 x2 d2 == iup1 x x2 d2 x1 d1.
Proof.
  pose proof (iup1_meets_spec x x1 d1 x2 d2) as A. pose proof (iup1_meets_spec x x2 d2 x1 d1) as B.
  unfold spec_inferred in *. destruct A as (A1 & A2 & A3). destruct B as (B1 & B2 & B3).
  destruct (Qlt_le_dec x1 x2) as [L|G].
  - destruct (A2 L) as (a1 & a2 & a3). destruct (B3 L) as (b1 & b2 & b3).
    destruct (Qlt_le_dec x1 x) as [Lx|Gx]; [|rewrite (a1 Gx), (b1 Gx); reflexivity].
    destruct (Qlt_le_dec x x2) as [Lx2|Gx2]; [|rewrite (a2 Gx2), (b2 Gx2); reflexivity].
    rewrite (a3 Lx Lx2), (b3 Lx Lx2). reflexivity.
  - destruct (Qeq_dec x1 x2) as [E|NE].
    + assert (E': x2 == x1) by (symmetry; exact E).
      destruct (A1 E) as [a1 a2]. destruct (B1 E') as [b1 b2].
      destruct (Qeq_dec d1 d2) as [D|ND].
      * assert (D': d2 == d1) by (symmetry; exact D). rewrite (a1 D), (b1 D'). exact D.
      * assert (ND': ~ d2 == d1) by (intros H; apply ND; symmetry; exact H). rewrite (a2 ND), (b2 ND'). reflexivity.
    + assert (L: x2 < x1) by lra.
      destruct (A3 L) as (a1 & a2 & a3). destruct (B2 L) as (b1 & b2 & b3).
      destruct (Qlt_le_dec x2 x) as [Lx|Gx]; [|rewrite (a1 Gx), (b1 Gx); reflexivity].
      destruct (Qlt_le_dec x x1) as [Lx2|Gx2]; [|rewrite (a2 Gx2), (b2 Gx2); reflexivity].
      rewrite (a3 Lx Lx2), (b3 Lx Lx2). reflexivity.
Qed.

(* ---------- whole contours ---------- *)
Definition seg_at (deltas : list (option pt)) (coords : list pt) (i a b : nat) : pt :=
  (iup1 (fst (getc coords i)) (fst (getc coords a)) (fst (getd deltas a)) (fst (getc coords b)) (fst (getd deltas b)),
   iup1 (snd (getc coords i)) (snd (getc coords a)) (snd (getd deltas a)) (snd (getc coords b)) (snd (getd deltas b))).
Definition explicit (deltas : list (option pt)) (i : nat) : Prop := nth i deltas None <> None.

Lemma slice_length {A} (l : list A) i1 i2 : (i2 <= length l)%nat -> length (slice l i1 i2) = (i2 - i1)%nat.
Proof. intros H. unfold slice. rewrite firstn_length, skipn_length. lia. Qed.
Lemma slice_nth {A} (l : list A) i1 i2 k d : (k < i2 - i1)%nat -> nth k (slice l i1 i2) d = nth (i1 + k) l d.
Proof. intros H. unfold slice. rewrite nth_firstn_lt by exact H. apply nth_skipn_early. Qed.

Lemma map_nth_lt {A B} (f : A -> B) : forall (l : list A) k d d', (k < length l)%nat -> nth k (map f l) d' = f (nth k l d).
Proof. induction l as [|x r IH]; intros k d d' H; [cbn in H; lia|]. destruct k; [reflexivity|]. cbn [map nth]. apply IH. cbn in H. lia. Qed.

Lemma segment_nth deltas coords i1 i2 a b k : (i2 <= length coords)%nat -> (k < i2 - i1)%nat ->
  nth k (iup_segment (slice coords i1 i2) (getc coords a) (getd deltas a) (getc coords b) (getd deltas b)) (0, 0)
  = seg_at deltas coords (i1 + k) a b.
Proof.
  intros H Hk. unfold iup_segment.
  rewrite (map_nth_lt _ _ k (0, 0) (0, 0)) by (rewrite slice_length by exact H; exact Hk).
  rewrite slice_nth by exact Hk. reflexivity.
Qed.
Lemma segment_length deltas coords i1 i2 a b : (i2 <= length coords)%nat ->
  length (iup_segment (slice coords i1 i2) (getc coords a) (getd deltas a) (getc coords b) (getd deltas b)) = (i2 - i1)%nat.
Proof. intros H. unfold iup_segment. rewrite map_length. apply slice_length. exact H. Qed.

Lemma last_cons {A} (r : list A) : forall x d, last (x :: r) d = last r x.
Proof. induction r as [|y r IH]; intros x d; [reflexivity|]. change (last (x :: y :: r) d) with (last (y :: r) d). rewrite (IH y d), (IH y x). reflexivity. Qed.
Lemma last_ge : forall r e, StronglySorted lt (e :: r) -> (e <= last r e)%nat.
Proof.
  induction r as [|x r IH]; intros e S; [cbn; lia|].
  inversion S as [|? ? Sx Hx]; subst. inversion Hx as [|? ? Hex _]; subst.
  rewrite last_cons. specialize (IH x Sx). lia.
Qed.

Lemma last_In : forall (r : list nat) x, In (last r x) (x :: r).
Proof. induction r as [|y r IH]; intros x; [left; reflexivity|]. rewrite last_cons. right. apply IH. Qed.

Definition consecutive (L : list nat) (e f : nat) : Prop := exists l1 l2, L = l1 ++ e :: f :: l2.

(* the loop over consecutive explicit indices: every position up to the last explicit index gets its explicit delta, or the value
   inferred from the two explicit indices around it *)
Lemma middle_spec deltas coords : forall rest start t lst,
  iup_middle deltas coords start rest = (t, lst) ->
  StronglySorted lt (start :: rest) -> Forall (fun e => (e < length coords)%nat) rest ->
  lst = last rest start /\ length t = (lst - start)%nat /\
  forall i, (start < i)%nat -> (i <= lst)%nat ->
    (In i rest -> nth (i - Datatypes.S start) t (0, 0) = getd deltas i) /\
    (~ In i rest -> exists e f, consecutive (start :: rest) e f /\ (e < i)%nat /\ (i < f)%nat /\
                                nth (i - Datatypes.S start) t (0, 0) = seg_at deltas coords i e f).
Proof.
  induction rest as [|e r IH]; intros start t lst H HS F; cbn [iup_middle] in H.
  - apply pair_equal_spec in H. destruct H as [<- <-]. cbn [last length]. repeat split; try lia.
  - destruct (iup_middle deltas coords e r) as [t' l'] eqn:M. apply pair_equal_spec in H. destruct H as [<- <-].
    inversion HS as [|? ? Sr Hlt]; subst. inversion F as [|? ? He Fr]; subst.
    assert (SE: (start < e)%nat) by (inversion Hlt; assumption).
    destruct (IH e t' l' M Sr Fr) as [L1 [L2 L3]].
    assert (LE: (e <= l')%nat) by (rewrite L1; apply last_ge; exact Sr).
    set (seg := if Nat.ltb 1 (e - start) then iup_segment (slice coords (Datatypes.S start) e) (getc coords start) (getd deltas start) (getc coords e) (getd deltas e) else []).
    assert (LS: length seg = (e - Datatypes.S start)%nat).
    { unfold seg. destruct (Nat.ltb_spec 1 (e - start)); [rewrite segment_length by lia; lia|cbn; lia]. }
    split; [|split].
    + rewrite L1. symmetry. apply last_cons.
    + rewrite app_length. cbn [length]. rewrite LS, L2. lia.
    + intros i Hi Hl.
      destruct (Nat.lt_trichotomy i e) as [Lt|[Eq|Gt]].
      * (* inside the first segment *)
        split.
        -- intros [Hin|Hin]; [lia|]. exfalso. inversion Sr as [|? ? _ Her]; subst. rewrite Forall_forall in Her. specialize (Her i Hin). lia.
        -- intros _. exists start, e. split; [exists [], r; reflexivity|]. split; [lia|split; [lia|]].
           rewrite app_nth1 by (rewrite LS; lia). unfold seg.
           destruct (Nat.ltb_spec 1 (e - start)); [|lia].
           rewrite segment_nth by lia. f_equal. lia.
      * subst i. split; [intros _|intros N; exfalso; apply N; left; reflexivity].
        rewrite app_nth2 by (rewrite LS; lia). rewrite LS. replace (e - S start - (e - Datatypes.S start))%nat with 0%nat by lia. reflexivity.
      * destruct (L3 i Gt Hl) as [A B]. split.
        -- intros [Hin|Hin]; [lia|]. rewrite app_nth2 by (rewrite LS; lia). rewrite LS.
           replace (i - S start - (e - Datatypes.S start))%nat with (Datatypes.S (i - Datatypes.S e)) by lia. cbn [nth]. apply A. exact Hin.
        -- intros N. destruct B as [e' [f' [[l1 [l2 C]] [C1 [C2 C3]]]]]; [intro K; apply N; right; exact K|].
           exists e', f'. split; [exists (start :: l1), l2; cbn [app]; rewrite <- C; reflexivity|]. split; [exact C1|split; [exact C2|]].
           rewrite app_nth2 by (rewrite LS; lia). rewrite LS.
           replace (i - S start - (e - Datatypes.S start))%nat with (Datatypes.S (i - Datatypes.S e)) by lia. cbn [nth]. exact C3.
Qed.

Lemma explicit_indices_In : forall l b i, In i (explicit_indices b l) <-> (b <= i < b + length l)%nat /\ nth (i - b) l None <> None.
Proof.
  induction l as [|o r IH]; intros b i; cbn [explicit_indices length].
  - split; [contradiction|intros [H _]; lia].
  - destruct o as [d|].
    + cbn [In]. rewrite IH. split.
      * intros [<-|[H1 H2]]; [split; [lia|rewrite Nat.sub_diag; discriminate]|].
        split; [lia|]. replace (i - b)%nat with (S (i - S b)) by lia. exact H2.
      * intros [H1 H2]. destruct (Nat.eq_dec b i) as [E|N]; [left; exact E|right]. split; [lia|].
        replace (i - b)%nat with (S (i - S b)) in H2 by lia. exact H2.
    + rewrite IH. split.
      * intros [H1 H2]. split; [lia|]. replace (i - b)%nat with (S (i - S b)) by lia. exact H2.
      * intros [H1 H2]. destruct (Nat.eq_dec b i) as [E|N]; [subst; rewrite Nat.sub_diag in H2; cbn in H2; contradiction|].
        split; [lia|]. replace (i - b)%nat with (S (i - S b)) in H2 by lia. exact H2.
Qed.
Lemma explicit_indices_sorted : forall l b, StronglySorted lt (explicit_indices b l).
Proof.
  induction l as [|o r IH]; intros b; cbn [explicit_indices]; [constructor|].
  destruct o; [|apply IH]. constructor; [apply IH|].
  apply Forall_forall. intros x Hx. apply explicit_indices_In in Hx. lia.
Qed.

Lemma consecutive_gap L e f k : StronglySorted lt L -> consecutive L e f -> (e < k)%nat -> (k < f)%nat -> ~ In k L.
Proof.
  intros S [l1 [l2 ->]] H1 H2 Hin.
  apply in_app_or in Hin. destruct Hin as [Hin|[Hin|[Hin|Hin]]]; try lia.
  - (* before e: smaller than e *)
    clear - S Hin H1. induction l1 as [|x r IH]; [contradiction|]. cbn [app] in S. inversion S as [|? ? Sr Hx]; subst.
    destruct Hin as [->|Hin]; [|apply IH; assumption].
    rewrite Forall_forall in Hx. specialize (Hx e ltac:(apply in_or_app; right; left; reflexivity)). lia.
  - (* after f: larger than f *)
    clear - S Hin H2. induction l1 as [|x r IH]; cbn [app] in S.
    + inversion S as [|? ? Sr _]; subst. inversion Sr as [|? ? _ Hf]; subst. rewrite Forall_forall in Hf. specialize (Hf k Hin). lia.
    + inversion S; subst. apply IH. assumption.
Qed.

Lemma explicit_indices_le : forall l b, (length (explicit_indices b l) <= length l)%nat.
Proof. induction l as [|o r IH]; intros b; cbn [explicit_indices length]; [lia|]. destruct o; cbn [length]; specialize (IH (S b)); lia. Qed.
Lemma explicit_indices_full : forall l b, length (explicit_indices b l) = length l -> forall i, (i < length l)%nat -> nth i l None <> None.
Proof.
  induction l as [|o r IH]; intros b H i Hi; [cbn in Hi; lia|]. cbn [explicit_indices length] in H.
  destruct o as [d|].
  - cbn [length] in H. destruct i; [discriminate|]. cbn [nth]. apply (IH (S b)); [lia|cbn in Hi; lia].
  - pose proof (explicit_indices_le r (S b)). lia.
Qed.

Definition pt_eq (a b : pt) : Prop := fst a == fst b /\ snd a == snd b.

(* WHOLE CONTOURS: an explicit delta is kept; a point without one gets the value inferred from the nearest explicit points before
   and after it around the contour (no explicit point lies strictly between) *)
Theorem iup_contour_spec deltas coords i : length coords = length deltas -> (i < length deltas)%nat ->
  let R := iup_contour deltas coords in
  length R = length deltas /\
  (forall d, nth i deltas None = Some d -> nth i R (0, 0) = d) /\
  (nth i deltas None = None -> (exists j, explicit deltas j) ->
     exists p q, explicit deltas p /\ explicit deltas q /\ (p < length deltas)%nat /\ (q < length deltas)%nat /\
       pt_eq (nth i R (0, 0)) (seg_at deltas coords i p q) /\
       (* nothing explicit between p and i going forwards ... *)
       ((p < i /\ forall k, p < k < i -> ~ explicit deltas k) \/
        (i < p /\ (forall k, k < i -> ~ explicit deltas k) /\ (forall k, p < k < length deltas -> ~ explicit deltas k)))%nat /\
       (* ... nor between i and q *)
       ((i < q /\ forall k, i < k < q -> ~ explicit deltas k) \/
        (q < i /\ (forall k, i < k < length deltas -> ~ explicit deltas k) /\ (forall k, k < q -> ~ explicit deltas k)))%nat).
Proof.
  intros HL Hi R. unfold R, iup_contour.
  set (n := length deltas) in *.
  pose proof (explicit_indices_sorted deltas 0) as SORT.
  assert (EIN: forall k, In k (explicit_indices 0 deltas) <-> (k < n)%nat /\ explicit deltas k).
  { intros k. rewrite explicit_indices_In. unfold explicit. rewrite Nat.sub_0_r. cbn [plus]. split; intros [A B]; split; try lia; exact B. }
  destruct (explicit_indices 0 deltas) as [|start rest] eqn:EQ.
  - (* no explicit delta at all *)
    split; [apply repeat_length|]. split.
    + intros d Hd. exfalso. apply (proj2 (EIN i)). split; [exact Hi|unfold explicit; rewrite Hd; discriminate].
    + intros _ [j Hj]. exfalso. destruct (Nat.lt_ge_cases j n) as [Lt|Ge]; [apply (proj2 (EIN j)); split; assumption|].
      apply Hj. apply nth_overflow. exact Ge.
  - destruct (Nat.eqb_spec (length (start :: rest)) n) as [FULL|PART].
    + (* every delta is explicit *)
      split; [apply map_length|]. split.
      * intros d Hd. rewrite (map_nth_lt _ deltas i None (0, 0)) by exact Hi. rewrite Hd. reflexivity.
      * intros Hn _. exfalso. rewrite <- EQ in FULL. apply (explicit_indices_full deltas 0 FULL i Hi). exact Hn.
    + assert (Sstart: (start < n)%nat /\ explicit deltas start) by (apply EIN; left; reflexivity).
      assert (Frest: Forall (fun e => (e < length coords)%nat) rest).
      { apply Forall_forall. intros e He. rewrite HL. apply (EIN e). right. exact He. }
      destruct (iup_middle deltas coords start rest) as [mid lst] eqn:MID.
      destruct (middle_spec deltas coords rest start mid lst MID SORT Frest) as [M1 [M2 M3]].
      assert (LASTIDX: last (start :: rest) start = lst) by (rewrite last_cons; symmetry; exact M1).
      rewrite LASTIDX.
      assert (Llst: (start <= lst)%nat) by (rewrite M1; apply last_ge; exact SORT).
      assert (LstE: In lst (start :: rest)) by (rewrite M1; apply last_In).
      assert (Slst: (lst < n)%nat /\ explicit deltas lst) by (apply EIN; exact LstE).
      assert (MAX: forall x, In x (start :: rest) -> (x <= lst)%nat).
      { rewrite M1. clear - SORT. revert start SORT. induction rest as [|y r IH]; intros start SORT x Hx.
        - destruct Hx as [<-|[]]. cbn. lia.
        - rewrite last_cons. inversion SORT as [|? ? Sy Hy]; subst. destruct Hx as [<-|Hx].
          + pose proof (last_ge r y Sy). inversion Hy; subst. lia.
          + apply (IH y Sy x Hx). }
      assert (RGT: forall x, In x rest -> (start < x)%nat).
      { inversion SORT as [|? ? _ Hall]. rewrite Forall_forall in Hall. exact Hall. }
      set (head := if Nat.eqb start 0 then [] else iup_segment (slice coords 0 start) (getc coords start) (getd deltas start) (getc coords lst) (getd deltas lst)).
      set (tail := if Nat.eqb lst (n - 1) then [] else iup_segment (slice coords (S lst) n) (getc coords lst) (getd deltas lst) (getc coords start) (getd deltas start)).
      assert (LH: length head = start).
      { unfold head. destruct (Nat.eqb_spec start 0); [cbn; lia|rewrite segment_length by lia; lia]. }
      assert (LT: length tail = (n - S lst)%nat).
      { unfold tail. destruct (Nat.eqb_spec lst (n - 1)); [cbn; lia|rewrite segment_length by lia; lia]. }
      split; [rewrite app_length; cbn [length]; rewrite app_length, LH, M2, LT; lia|].
      assert (GETD: forall k d, nth k deltas None = Some d -> getd deltas k = d) by (intros k d Hk; unfold getd; rewrite Hk; reflexivity).
      destruct (Nat.lt_trichotomy i start) as [Lt|[Eq|Gt]].
      * (* before the first explicit point: between the last one (wrapping) and the first *)
        rewrite app_nth1 by (rewrite LH; exact Lt).
        assert (NS: start <> 0%nat) by lia.
        assert (HV: nth i head (0, 0) = seg_at deltas coords i start lst).
        { unfold head. destruct (Nat.eqb_spec start 0); [contradiction|]. rewrite segment_nth by lia. reflexivity. }
        split.
        -- intros d Hd. exfalso. assert (In i (start :: rest)) by (apply EIN; split; [exact Hi|unfold explicit; rewrite Hd; discriminate]).
           destruct H as [H|H]; [lia|]. specialize (RGT i H). lia.
        -- intros _ _. exists lst, start. repeat split; try tauto; try lia.
           ++ rewrite HV. unfold seg_at. cbn [fst]. apply iup1_symmetric.
           ++ rewrite HV. unfold seg_at. cbn [snd]. apply iup1_symmetric.
           ++ right. split; [lia|]. split.
              ** intros k Hk Ek. assert (In k (start :: rest)) by (apply EIN; split; [lia|exact Ek]).
                 destruct H as [H|H]; [lia|]. specialize (RGT k H). lia.
              ** intros k Hk Ek. assert (Hin: In k (start :: rest)) by (apply EIN; split; [lia|exact Ek]).
                 specialize (MAX k Hin). lia.
           ++ left. split; [lia|]. intros k Hk Ek. assert (In k (start :: rest)) by (apply EIN; split; [lia|exact Ek]).
              destruct H as [H|H]; [lia|]. specialize (RGT k H). lia.
      * (* the first explicit point itself *)
        subst i. rewrite app_nth2 by (rewrite LH; lia). rewrite LH, Nat.sub_diag. cbn [nth]. split.
        -- intros d Hd. apply GETD. exact Hd.
        -- intros Hn _. exfalso. destruct Sstart as [_ Es]. apply Es. exact Hn.
      * rewrite app_nth2 by (rewrite LH; lia). rewrite LH.
        replace (i - start)%nat with (Datatypes.S (i - Datatypes.S start)) by lia. cbn [nth].
        destruct (Nat.le_gt_cases i lst) as [Le|Gl].
        -- (* between the first and the last explicit point *)
           rewrite app_nth1 by (rewrite M2; lia).
           destruct (M3 i Gt Le) as [A B]. split.
           ++ intros d Hd. assert (Hin: In i rest).
              { assert (K: In i (start :: rest)) by (apply EIN; split; [exact Hi|unfold explicit; rewrite Hd; discriminate]). destruct K as [K|K]; [lia|exact K]. }
              rewrite (A Hin). apply GETD. exact Hd.
           ++ intros Hn _.
              assert (Nin: ~ In i rest).
              { intro K. assert (K2: (i < n)%nat /\ explicit deltas i) by (apply EIN; right; exact K). destruct K2 as [_ K2]. apply K2. exact Hn. }
              destruct (B Nin) as [e [f [C [C1 [C2 C3]]]]].
              assert (Ce: In e (start :: rest) /\ In f (start :: rest)).
              { destruct C as [l1 [l2 C]]. rewrite C. split; apply in_or_app; right; [left; reflexivity|right; left; reflexivity]. }
              destruct Ce as [Ine Inf]. destruct (proj1 (EIN e) Ine) as [Ne Ee]. destruct (proj1 (EIN f) Inf) as [Nf Ef].
              exists e, f. repeat split; try assumption.
              ** rewrite C3. reflexivity.
              ** rewrite C3. reflexivity.
              ** left. split; [exact C1|]. intros k Hk Ek.
                 apply (consecutive_gap (start :: rest) e f k SORT C); [lia|lia|apply EIN; split; [lia|exact Ek]].
              ** left. split; [exact C2|]. intros k Hk Ek.
                 apply (consecutive_gap (start :: rest) e f k SORT C); [lia|lia|apply EIN; split; [lia|exact Ek]].
        -- (* after the last explicit point: between it and the first one (wrapping) *)
           rewrite app_nth2 by (rewrite M2; lia). rewrite M2.
           assert (NL: lst <> (n - 1)%nat) by lia.
           assert (TV: nth (i - Datatypes.S start - (lst - start)) tail (0, 0) = seg_at deltas coords i lst start).
           { unfold tail. destruct (Nat.eqb_spec lst (n - 1)); [contradiction|].
             replace (i - Datatypes.S start - (lst - start))%nat with (i - Datatypes.S lst)%nat by lia.
             rewrite segment_nth by lia. f_equal. lia. }
           rewrite TV.
           assert (NOEXP: forall k, (lst < k)%nat -> ~ explicit deltas k).
           { intros k Hk Ek. destruct (Nat.lt_ge_cases k n) as [Kn|Kn]; [|apply Ek; apply nth_overflow; exact Kn].
             assert (Hin: In k (start :: rest)) by (apply EIN; split; assumption). specialize (MAX k Hin). lia. }
           split.
           ++ intros d Hd. exfalso. apply (NOEXP i Gl). unfold explicit. rewrite Hd. discriminate.
           ++ intros _ _. exists lst, start. repeat split; try tauto; try lia; try reflexivity.
              ** left. split; [lia|]. intros k Hk. apply NOEXP. lia.
              ** right. split; [lia|]. split.
                 --- intros k Hk. apply NOEXP. lia.
                 --- intros k Hk Ek. assert (Hin: In k (start :: rest)) by (apply EIN; split; [lia|exact Ek]).
                     destruct Hin as [Hin|Hin]; [lia|]. specialize (RGT k Hin). lia.
Qed.
