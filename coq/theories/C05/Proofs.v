(* C05/Proofs.v *)
From Coq Require Import QArith Lqa Lia List Bool.
From FV Require Import Base.Ser Base.Res Geom.QTools C05.Model.
Import ListNotations.
Open Scope Q_scope.

(* the OpenType rule for a point without an explicit delta, one coordinate at a time (gvar
   "Inferred deltas for un-referenced point numbers"), written as a relation, not as an algorithm *)
Definition spec_inferred (x xa da xb db r : Q) : Prop :=
  (xa == xb -> (da == db -> r == da) /\ (~ da == db -> r == 0)) /\
  (xa < xb -> (x <= xa -> r == da) /\ (xb <= x -> r == db) /\
              (xa < x -> x < xb -> r == da + (x - xa) * (db - da) / (xb - xa))) /\
  (xb < xa -> (x <= xb -> r == db) /\ (xa <= x -> r == da) /\
              (xb < x -> x < xa -> r == db + (x - xb) * (da - db) / (xa - xb))).

Theorem iup1_meets_spec x x1 d1 x2 d2 : spec_inferred x x1 d1 x2 d2 (iup1 x x1 d1 x2 d2).
Proof.
  unfold spec_inferred, iup1.
  destruct (Qeqb_spec x1 x2) as [E|NE].
  - split; [intros _|split; intros H; lra].
    destruct (Qeqb_spec d1 d2); split; intros; try reflexivity; try contradiction.
  - split; [intros H; contradiction|].
    destruct (Qltb_spec x2 x1) as [L|G].
    + split; [intros H; lra|]. intros _.
      destruct (Qleb_spec x x2); [repeat split; intros; try lra; reflexivity|].
      destruct (Qleb_spec x1 x); [repeat split; intros; try lra; reflexivity|].
      repeat split; intros; try lra. field. lra.
    + assert (x1 < x2) by (destruct (Qlt_le_dec x1 x2); [assumption|exfalso; apply NE; lra]).
      split; [|intros H'; lra]. intros _.
      destruct (Qleb_spec x x1); [repeat split; intros; try lra; reflexivity|].
      destruct (Qleb_spec x2 x); [repeat split; intros; try lra; reflexivity|].
      repeat split; intros; try lra. field. lra.
Qed.

(* an inferred delta always lies between the two reference deltas (no overshoot) *)
Theorem iup1_between x x1 d1 x2 d2 : ~ x1 == x2 ->
  Qmin d1 d2 <= iup1 x x1 d1 x2 d2 /\ iup1 x x1 d1 x2 d2 <= Qmax d1 d2.
Proof.
  intros NE. unfold iup1, Qmin, Qmax.
  destruct (Qeqb_spec x1 x2); [contradiction|].
  assert (Lin: forall a da b db, a < b -> a < x -> x < b ->
            (da <= db -> da <= da + (x - a) * ((db - da) / (b - a)) /\ da + (x - a) * ((db - da) / (b - a)) <= db) /\
            (db <= da -> db <= da + (x - a) * ((db - da) / (b - a)) /\ da + (x - a) * ((db - da) / (b - a)) <= da)).
  { intros a da b db Hab Hax Hxb.
    set (t := (x - a) / (b - a)).
    assert (T: 0 <= t /\ t <= 1) by (unfold t; split; [apply Qle_shift_div_l; lra|apply Qle_shift_div_r; lra]).
    assert (E: da + (x - a) * ((db - da) / (b - a)) == da + t * (db - da)) by (unfold t; field; lra).
    rewrite E. split; intros; nra. }
  destruct (Qltb_spec x2 x1) as [L|G].
  - destruct (Qleb_spec x x2); [destruct (Qleb_spec d1 d2); lra|].
    destruct (Qleb_spec x1 x); [destruct (Qleb_spec d1 d2); lra|].
    destruct (Lin x2 d2 x1 d1 L ltac:(lra) ltac:(lra)) as [A B].
    destruct (Qleb_spec d1 d2); [destruct (B ltac:(lra)); lra|destruct (A ltac:(lra)); lra].
  - assert (x1 < x2) by (destruct (Qlt_le_dec x1 x2); [assumption|exfalso; apply NE; lra]).
    destruct (Qleb_spec x x1); [destruct (Qleb_spec d1 d2); lra|].
    destruct (Qleb_spec x2 x); [destruct (Qleb_spec d1 d2); lra|].
    destruct (Lin x1 d1 x2 d2 H ltac:(lra) ltac:(lra)) as [A B].
    destruct (Qleb_spec d1 d2); [destruct (A ltac:(lra)); lra|destruct (B ltac:(lra)); lra].
Qed.

(* the rule does not depend on which reference point is called first *)
Theorem iup1_symmetric x x1 d1 x2 d2 : iup1 x x1 d1 x2 d2 == iup1 x x2 d2 x1 d1.
Proof.
  pose proof (iup1_meets_spec x x1 d1 x2 d2) as A. pose proof (iup1_meets_spec x x2 d2 x1 d1) as B.
  unfold spec_inferred in *. destruct A as (A1 & A2 & A3). destruct B as (B1 & B2 & B3).
  destruct (Qlt_le_dec x1 x2) as [L|G].
  - destruct (A2 L) as (a1 & a2 & a3). destruct (B3 L) as (b1 & b2 & b3).
    destruct (Qlt_le_dec x1 x) as [Lx|Gx]; [|rewrite (a1 Gx), (b1 Gx); reflexivity].
    destruct (Qlt_le_dec x x2) as [Lx2|Gx2]; [|rewrite (a2 Gx2), (b2 Gx2); reflexivity].
    rewrite (a3 Lx Lx2), (b3 Lx Lx2). reflexivity.
  - destruct (Qeq_dec x1 x2) as [E|NE].
    + assert (E': x2 == x1) by (symmetry; exact E).
      destruct (A1 E) as [a1 a2]. destruct (B1 E') as [b1 b2].
      destruct (Qeq_dec d1 d2) as [D|ND].
      * assert (D': d2 == d1) by (symmetry; exact D). rewrite (a1 D), (b1 D'). exact D.
      * assert (ND': ~ d2 == d1) by (intros H; apply ND; symmetry; exact H). rewrite (a2 ND), (b2 ND'). reflexivity.
    + assert (L: x2 < x1) by lra.
      destruct (A3 L) as (a1 & a2 & a3). destruct (B2 L) as (b1 & b2 & b3).
      destruct (Qlt_le_dec x2 x) as [Lx|Gx]; [|rewrite (a1 Gx), (b1 Gx); reflexivity].
      destruct (Qlt_le_dec x x1) as [Lx2|Gx2]; [|rewrite (a2 Gx2), (b2 Gx2); reflexivity].
      rewrite (a3 Lx Lx2), (b3 Lx Lx2). reflexivity.
Qed.
