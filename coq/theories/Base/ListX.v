(* Base/ListX.v — small list lemmas missing from the 8.16 standard library *)
From Coq Require Import List Arith Lia.
Import ListNotations.

Lemma nth_skipn_early {A} (l : list A) : forall k i d, nth i (skipn k l) d = nth (k + i) l d.
Proof.
  induction l as [|x r IH]; intros k i d.
  - rewrite skipn_nil. destruct i, k; reflexivity.
  - destruct k; cbn [skipn Nat.add nth]; [reflexivity|apply IH].
Qed.

Lemma nth_firstn_lt {A} (l : list A) : forall k i d, i < k -> nth i (firstn k l) d = nth i l d.
Proof.
  induction l as [|x r IH]; intros k i d H; [rewrite firstn_nil; reflexivity|].
  destruct k; [lia|]. cbn [firstn]. destruct i; cbn [nth]; [reflexivity|apply IH; lia].
Qed.

Lemma nth_last_eq {A} (l : list A) d : nth (length l - 1) l d = last l d.
Proof.
  induction l as [|x r IH]; [reflexivity|].
  destruct r as [|y r']; [reflexivity|].
  cbn [length last] in *. replace (S (S (length r')) - 1) with (S (length r')) by lia.
  cbn [nth]. replace (length r') with (S (length r') - 1) by lia. exact IH.
Qed.

Lemma In_firstn_to {A} (l : list A) : forall k x, In x (firstn k l) -> In x l.
Proof.
  induction l as [|y r IH]; intros k x H; [rewrite firstn_nil in H; exact H|].
  destruct k; [contradiction|]. cbn [firstn] in H. destruct H as [->|H]; [left; reflexivity|right; eapply IH; exact H].
Qed.
Lemma In_skipn_to {A} (l : list A) : forall k x, In x (skipn k l) -> In x l.
Proof.
  induction l as [|y r IH]; intros k x H; [rewrite skipn_nil in H; exact H|].
  destruct k; [exact H|]. cbn [skipn] in H. right. eapply IH. exact H.
Qed.
