(* BE.v — big-endian integer packing (struct.pack ">B/H/L/h/l") over byte lists. *)
From Coq Require Import ZArith List Lia Bool.
From FV Require Import Base.Bits Base.Res.
Import ListNotations.
Open Scope Z_scope.

Definition is_byte (b : Z) : Prop := 0 <= b < 256.
Definition byteb (b : Z) : bool := (0 <=? b) && (b <? 256).

(* n bytes, most significant first, of v mod 2^(8n) (two's complement for negative v) *)
Fixpoint pack_be (n : nat) (v : Z) : list Z :=
  match n with
  | O => []
  | S k => Z.land (Z.shiftr v (8 * Z.of_nat k)) 255 :: pack_be k v
  end.

(* read exactly n bytes as an unsigned big-endian number *)
Fixpoint take_be (n : nat) (bs : list Z) : option (Z * list Z) :=
  match n with
  | O => Some (0, bs)
  | S k => match bs with
           | [] => None
           | b :: r => match take_be k r with
                       | Some (x, r') => Some (b * 2 ^ (8 * Z.of_nat k) + x, r')
                       | None => None
                       end
           end
  end.

Definition to_signed (bits : Z) (u : Z) : Z := if u <? 2 ^ (bits - 1) then u else u - 2 ^ bits.

Lemma pack_be_length n v : length (pack_be n v) = n.
Proof. induction n; simpl; auto. Qed.

Lemma pack_be_bytes n v : Forall is_byte (pack_be n v).
Proof.
  induction n; simpl; constructor; auto.
  unfold is_byte. rewrite land_255. apply Z.mod_pos_bound. lia.
Qed.

Lemma take_pack n v rest : take_be n (pack_be n v ++ rest) = Some (v mod 2 ^ (8 * Z.of_nat n), rest).
Proof.
  induction n as [|k IH].
  - simpl. rewrite Z.mod_1_r. reflexivity.
  - cbn [pack_be app take_be]. rewrite IH. f_equal. f_equal.
    rewrite Z.shiftr_div_pow2 by lia. rewrite land_255.
    replace (8 * Z.of_nat (S k)) with (8 * Z.of_nat k + 8) by lia.
    rewrite Z.pow_add_r by lia. change (2^8) with 256.
    assert (P: 0 < 2 ^ (8 * Z.of_nat k)) by (apply Z.pow_pos_nonneg; lia).
    rewrite (Z.rem_mul_r v (2 ^ (8 * Z.of_nat k)) 256) by lia. lia.
Qed.

Lemma to_signed_mod bits v : 0 < bits -> - 2 ^ (bits - 1) <= v < 2 ^ (bits - 1) ->
  to_signed bits (v mod 2 ^ bits) = v.
Proof.
  intros Hb Hv. unfold to_signed.
  assert (E: 2 ^ bits = 2 * 2 ^ (bits - 1)).
  { replace bits with ((bits - 1) + 1) at 1 by lia. rewrite Z.pow_add_r by lia. lia. }
  assert (P: 0 < 2 ^ (bits - 1)) by (apply Z.pow_pos_nonneg; lia).
  destruct (Z.lt_ge_cases v 0) as [N|NN].
  - assert (M: v mod 2 ^ bits = v + 2 ^ bits).
    { symmetry. apply Z.mod_unique_pos with (q := -1); lia. }
    rewrite M. destruct (Z.ltb_spec (v + 2 ^ bits) (2 ^ (bits - 1))); lia.
  - rewrite Z.mod_small by lia. destruct (Z.ltb_spec v (2 ^ (bits - 1))); lia.
Qed.

Lemma pack_be_2 x : pack_be 2 x = [(x / 256) mod 256; x mod 256].
Proof.
  unfold pack_be. cbn [Z.of_nat Z.mul Pos.mul Pos.of_succ_nat Pos.succ].
  rewrite !land_255, Z.shiftr_0_r, Z.shiftr_div_pow2 by lia. reflexivity.
Qed.
Lemma pack_be_3 x : pack_be 3 x = [(x / 65536) mod 256; (x / 256) mod 256; x mod 256].
Proof.
  unfold pack_be. cbn [Z.of_nat Z.mul Pos.mul Pos.of_succ_nat Pos.succ].
  rewrite !land_255, Z.shiftr_0_r, !Z.shiftr_div_pow2 by lia. reflexivity.
Qed.
Lemma pack_be_4 x :
  pack_be 4 x = [(x / 16777216) mod 256; (x / 65536) mod 256; (x / 256) mod 256; x mod 256].
Proof.
  unfold pack_be. cbn [Z.of_nat Z.mul Pos.mul Pos.of_succ_nat Pos.succ].
  rewrite !land_255, Z.shiftr_0_r, !Z.shiftr_div_pow2 by lia. reflexivity.
Qed.


Global Arguments pack_be : simpl never.
Global Arguments take_be : simpl never.
