(* Res.v — outcome type shared by all models: a value or the CLASS of Python exception
   the transcribed code would raise at that point. *)
From Coq Require Import ZArith List.
From FV Require Import Base.Ser.
Import ListNotations.
Open Scope Z_scope.

Inductive err :=
| LibError        (* fontTools.ttLib.TTLibError and subclasses *)
| StructError     (* struct.error *)
| IndexError
| KeyError
| AssertionError
| ValueError
| OverflowError
| TypeError
| OutOfFuel.      (* model-only: fuel exhausted; excluded by every theorem statement *)

Inductive Res (A : Type) :=
| Ok (a : A)
| Err (e : err).
Arguments Ok {A} a.
Arguments Err {A} e.

Definition err_code (e : err) : Z :=
  match e with
  | LibError => 1 | StructError => 2 | IndexError => 3 | KeyError => 4
  | AssertionError => 5 | ValueError => 6 | OverflowError => 7 | TypeError => 8
  | OutOfFuel => 99
  end.

Global Instance Ser_Res {A} `{Ser A} : Ser (Res A) :=
  fun r => match r with Ok a => 0 :: ser a | Err e => [1; err_code e] end.

Definition bind {A B} (r : Res A) (f : A -> Res B) : Res B :=
  match r with Ok a => f a | Err e => Err e end.
Notation "'let*' x ':=' r 'in' k" := (bind r (fun x => k))
  (at level 200, x pattern, r at level 100, k at level 200).

Definition is_ok {A} (r : Res A) : bool := match r with Ok _ => true | Err _ => false end.

Lemma Ok_inj {A} (a b : A) : Ok a = Ok b -> a = b.
Proof. intros H. injection H. auto. Qed.

Lemma Some_inj {A} (a b : A) : Some a = Some b -> a = b.
Proof. intros H. injection H. auto. Qed.
