From Coq Require Import ZArith Lia Bool List.
Open Scope Z_scope.

Lemma land_shiftl_low a b k : 0 <= k -> 0 <= b < 2^k -> Z.land (Z.shiftl a k) b = 0.
Proof.
  intros Hk Hb. apply Z.bits_inj'. intros n Hn.
  rewrite Z.land_spec, Z.bits_0.
  destruct (Z.lt_ge_cases n k) as [L|G].
  - rewrite Z.shiftl_spec_low by lia. reflexivity.
  - destruct (Z.eq_dec b 0) as [->|NZ]. { rewrite Z.bits_0. apply andb_false_r. }
    rewrite (Z.bits_above_log2 b n); [apply andb_false_r|lia|].
    apply Z.log2_lt_pow2; try lia.
    apply Z.lt_le_trans with (2^k); try lia. apply Z.pow_le_mono_r; lia.
Qed.

Lemma lor_shiftl_add a b k : 0 <= k -> 0 <= b < 2^k -> Z.lor (Z.shiftl a k) b = a * 2^k + b.
Proof.
  intros Hk Hb. rewrite <- Z.lxor_lor by (apply land_shiftl_low; auto).
  rewrite <- Z.add_nocarry_lxor by (apply land_shiftl_low; auto).
  rewrite Z.shiftl_mul_pow2 by lia. reflexivity.
Qed.

Lemma land_255 x : Z.land x 255 = x mod 256.
Proof. change 255 with (Z.ones 8). rewrite Z.land_ones by lia. reflexivity. Qed.
Lemma land_127 x : Z.land x 127 = x mod 128.
Proof. change 127 with (Z.ones 7). rewrite Z.land_ones by lia. reflexivity. Qed.
Lemma land_65535 x : Z.land x 65535 = x mod 65536.
Proof. change 65535 with (Z.ones 16). rewrite Z.land_ones by lia. reflexivity. Qed.

(* testing a single bit / high mask through div-mod *)
Lemma land_pow2_testbit x k : 0 <= k -> Z.land x (2^k) = if Z.testbit x k then 2^k else 0.
Proof.
  intros Hk. apply Z.bits_inj'. intros n Hn. rewrite Z.land_spec.
  destruct (Z.eq_dec n k) as [->|NE].
  - rewrite Z.pow2_bits_true by lia. rewrite andb_true_r.
    destruct (Z.testbit x k) eqn:E; [rewrite Z.pow2_bits_true by lia|rewrite Z.bits_0]; reflexivity.
  - rewrite Z.pow2_bits_false by lia. rewrite andb_false_r.
    destruct (Z.testbit x k); [rewrite Z.pow2_bits_false by lia|rewrite Z.bits_0]; reflexivity.
Qed.


(* finite sweep over bytes lifted to a universally quantified statement *)
Lemma forall_below (f : Z -> bool) (n : nat) :
  forallb f (List.map Z.of_nat (List.seq 0 n)) = true -> forall x, 0 <= x < Z.of_nat n -> f x = true.
Proof.
  intros H x Hx. rewrite List.forallb_forall in H. apply H.
  apply List.in_map_iff. exists (Z.to_nat x). split; [lia|].
  apply List.in_seq. lia.
Qed.

Lemma forall_byte (f : Z -> bool) :
  forallb f (List.map Z.of_nat (List.seq 0 256)) = true -> forall x, 0 <= x < 256 -> f x = true.
Proof. intros H x Hx. apply (forall_below f 256 H). lia. Qed.

Lemma land_128_byte x : 0 <= x < 256 -> (Z.land x 128 =? 0) = (x <? 128).
Proof.
  intros Hx. apply Bool.eqb_prop.
  apply (forall_byte (fun x => Bool.eqb (Z.land x 128 =? 0) (x <? 128))); [vm_compute; reflexivity|exact Hx].
Qed.

Lemma land_high_zero r : 0 <= r < 2^25 -> Z.land r 4261412864 = 0.
Proof.
  intros Hr. change 4261412864 with (Z.shiftl 127 25). rewrite Z.land_comm.
  apply land_shiftl_low; lia.
Qed.
