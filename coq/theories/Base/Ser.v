(* Ser.v — flat integer serialisation of model inputs/outputs.
   Every model function is run through ONE generic entry point
   [list Z -> list Z]; the correspondence harness (Python) mirrors this
   encoding exactly (harness/lib/ser.py).  Nothing here is proved about:
   it is glue for the correspondence check (trusted base: "driver"). *)
From Coq Require Import ZArith List QArith String Ascii.
Import ListNotations.
Open Scope Z_scope.

Class Ser (A : Type) := ser : A -> list Z.
Class De (A : Type) := de : list Z -> option (A * list Z).

Global Instance Ser_Z : Ser Z := fun z => [z].
Global Instance De_Z : De Z := fun l => match l with x :: r => Some (x, r) | [] => None end.

Global Instance Ser_bool : Ser bool := fun b => [if b then 1 else 0].
Global Instance De_bool : De bool :=
  fun l => match l with x :: r => Some (negb (x =? 0), r) | [] => None end.

Global Instance Ser_nat : Ser nat := fun n => [Z.of_nat n].
Global Instance De_nat : De nat :=
  fun l => match l with x :: r => Some (Z.to_nat x, r) | [] => None end.

Global Instance Ser_unit : Ser unit := fun _ => [].
Global Instance De_unit : De unit := fun l => Some (tt, l).

Global Instance Ser_prod {A B} `{Ser A} `{Ser B} : Ser (A * B) :=
  fun p => ser (fst p) ++ ser (snd p).
Global Instance De_prod {A B} `{De A} `{De B} : De (A * B) :=
  fun l => match de l with
           | Some (a, r) => match de r with Some (b, r') => Some ((a, b), r') | None => None end
           | None => None end.

Global Instance Ser_option {A} `{Ser A} : Ser (option A) :=
  fun o => match o with None => [0] | Some a => 1 :: ser a end.
Global Instance De_option {A} `{De A} : De (option A) :=
  fun l => match l with
           | 0 :: r => Some (None, r)
           | _ :: r => match de r with Some (a, r') => Some (Some a, r') | None => None end
           | [] => None end.

Global Instance Ser_list {A} `{Ser A} : Ser (list A) :=
  fun l => Z.of_nat (List.length l) :: flat_map ser l.

Fixpoint de_n {A} `{De A} (n : nat) (l : list Z) : option (list A * list Z) :=
  match n with
  | O => Some ([], l)
  | S n' => match de l with
            | Some (a, r) => match de_n n' r with
                             | Some (xs, r') => Some (a :: xs, r')
                             | None => None end
            | None => None end
  end.
Global Instance De_list {A} `{De A} : De (list A) :=
  fun l => match l with n :: r => de_n (Z.to_nat n) r | [] => None end.

(* rationals: numerator, positive denominator; output always reduced *)
Global Instance Ser_Q : Ser Q := fun q => let r := Qred q in [Qnum r; Zpos (Qden r)].
Global Instance De_Q : De Q :=
  fun l => match l with
           | n :: d :: r => Some (Qmake n (Z.to_pos d), r)
           | _ => None end.

(* generic entry points *)
Definition run1 {A B} `{De A} `{Ser B} (f : A -> B) (inp : list Z) : list Z :=
  match de inp with Some (a, _) => ser (f a) | None => [-999999] end.
Definition run2 {A B C} `{De A} `{De B} `{Ser C} (f : A -> B -> C) (inp : list Z) : list Z :=
  run1 (fun p : A * B => f (fst p) (snd p)) inp.
Definition run3 {A B C D} `{De A} `{De B} `{De C} `{Ser D} (f : A -> B -> C -> D) (inp : list Z) : list Z :=
  run1 (fun p : A * B * C => f (fst (fst p)) (snd (fst p)) (snd p)) inp.
Definition run4 {A B C D E} `{De A} `{De B} `{De C} `{De D} `{Ser E}
  (f : A -> B -> C -> D -> E) (inp : list Z) : list Z :=
  run1 (fun p : A * B * C * D => f (fst (fst (fst p))) (snd (fst (fst p))) (snd (fst p)) (snd p)) inp.

(* function names as ASCII code lists, so the OCaml driver needs no string extraction *)
Fixpoint codes (s : string) : list Z :=
  match s with
  | EmptyString => []
  | String a r => Z.of_N (N_of_ascii a) :: codes r
  end.

Fixpoint list_Z_eqb (a b : list Z) : bool :=
  match a, b with
  | [], [] => true
  | x :: a', y :: b' => (x =? y) && list_Z_eqb a' b'
  | _, _ => false
  end.

Definition registry := list (string * (list Z -> list Z)).

Fixpoint lookup (reg : registry) (name : list Z) : option (list Z -> list Z) :=
  match reg with
  | [] => None
  | (s, f) :: r => if list_Z_eqb (codes s) name then Some f else lookup r name
  end.

Definition dispatch (reg : registry) (name : list Z) (inp : list Z) : list Z :=
  match lookup reg name with Some f => f inp | None => [-999998] end.

(* in-Coq evaluation route (cases.v): indices of cases whose model output differs *)
Fixpoint mismatches_from (reg : registry) (i : Z) (cs : list (list Z * list Z * list Z)) : list Z :=
  match cs with
  | [] => []
  | (name, inp, expect) :: r =>
      let rest := mismatches_from reg (i + 1) r in
      if list_Z_eqb (dispatch reg name inp) expect then rest else i :: rest
  end.
