(* C15/ProofsTags.v *)
From Coq Require Import ZArith List Bool Lia.
From FV Require Import Base.Ser Base.Res Base.Bits C15.ModelTags.
Import ListNotations.
Open Scope Z_scope.

(* ======================= proofs ======================= *)
Definition decode_pair (x y : Z) : option Z :=
  if x =? 95 then Some y else if y =? 95 then Some x
  else match unhex x, unhex y with Some a, Some b => Some (16 * a + b) | _, _ => None end.

Definition char_ok (c : Z) : bool :=
  match escapechar c with
  | [x; y] => match decode_pair x y with Some c' => c' =? c | None => false end
  | _ => false
  end.
Lemma char_ok_all c : 16 <= c < 256 -> char_ok c = true.
Proof.
  intros H.
  assert (S: forallb (fun c => (c <? 16) || char_ok c) (map Z.of_nat (seq 0 256)) = true) by (vm_compute; reflexivity).
  pose proof (forall_byte _ S c ltac:(lia)) as P. cbn beta in P.
  apply orb_true_iff in P. destruct P as [P|P]; [apply Z.ltb_lt in P; lia|exact P].
Qed.

Lemma unpairs_escape : forall body f, Forall (fun c => 16 <= c < 256) body -> (2 * length body < f)%nat ->
  unpairs f (flat_map escapechar body) = Ok body.
Proof.
  induction body as [|c r IH]; intros f H Hf; [destruct f; [cbn in Hf; lia|reflexivity]|].
  inversion H as [|? ? Hc Hr]; subst.
  pose proof (char_ok_all c Hc) as K. unfold char_ok in K.
  cbn [flat_map]. destruct (escapechar c) as [|x [|y [|z t]]]; try discriminate.
  destruct f as [|f]; [cbn in Hf; lia|]. cbn [app unpairs].
  rewrite IH by (try assumption; cbn [length] in Hf; lia). cbn [bind].
  unfold decode_pair in K. destruct (x =? 95); [destruct (Z.eqb_spec y c); [subst; reflexivity|discriminate]|].
  destruct (y =? 95); [destruct (Z.eqb_spec x c); [subst; reflexivity|discriminate]|].
  destruct (unhex x); [|discriminate]. destruct (unhex y); [|discriminate].
  destruct (Z.eqb_spec (16 * z + z0) c); [subst; reflexivity|discriminate].
Qed.

Lemma escape_len body : Forall (fun c => 16 <= c < 256) body -> length (flat_map escapechar body) = (2 * length body)%nat.
Proof.
  induction 1 as [|c r Hc Hr IH]; [reflexivity|].
  pose proof (char_ok_all c Hc) as K. unfold char_ok in K.
  cbn [flat_map]. destruct (escapechar c) as [|x [|y [|z t]]]; try discriminate.
  cbn [app length]. rewrite IH. cbn [length]. lia.
Qed.

(* stripping trailing spaces and padding back to four characters *)
Lemma strip_pad a b c d :
  let body := strip_trailing [a; b; c; d] in
  body ++ repeat 32 (4 - length body) = [a; b; c; d] /\ body <> [] /\ (forall x, In x body -> In x [a; b; c; d]).
Proof.
  unfold strip_trailing. cbn [rev app strip_rev].
  destruct (Z.eqb_spec d 32) as [->|Nd].
  - destruct (Z.eqb_spec c 32) as [->|Nc].
    + destruct (Z.eqb_spec b 32) as [->|Nb]; cbn [rev app length Nat.sub repeat]; (split; [reflexivity|split; [discriminate|cbn; tauto]]).
    + cbn [rev app length Nat.sub repeat]. split; [reflexivity|split; [discriminate|cbn; tauto]].
  - cbn [rev app length Nat.sub repeat]. split; [reflexivity|split; [discriminate|cbn; tauto]].
Qed.

(* THE ROUND TRIP for every four-character tag over code points 16..255 *)
Theorem tag_identifier_roundtrip a b c d :
  Forall (fun x => 16 <= x < 256) [a; b; c; d] ->
  exists ident, tagToIdentifier [a; b; c; d] = Ok ident /\ identifierToTag ident = Ok [a; b; c; d].
Proof.
  intros H. unfold tagToIdentifier. cbn [length Nat.eqb negb].
  destruct (strip_pad a b c d) as [PAD [NE SUB]]. cbv zeta in *.
  set (body := strip_trailing [a; b; c; d]) in *.
  assert (HB: Forall (fun x => 16 <= x < 256) body).
  { apply Forall_forall. intros x Hx. rewrite Forall_forall in H. apply H. apply SUB. exact Hx. }
  pose proof (escape_len body HB) as LEN.
  set (ident := flat_map escapechar body) in *.
  assert (INE: ident <> []) by (intro E; rewrite E in LEN; destruct body; [contradiction|cbn in LEN; lia]).
  assert (EVEN: Nat.odd (length ident) = false) by (rewrite LEN; rewrite Nat.odd_mul; reflexivity).
  assert (UNP: forall f, (length ident < f)%nat -> unpairs f ident = Ok body) by (intros f Hf; apply unpairs_escape; [exact HB|lia]).
  destruct ident as [|c0 r0] eqn:EI; [contradiction|].
  eexists. split; [reflexivity|].
  destruct (is_digit c0) eqn:DG.
  - (* a leading digit gets an underscore, which the reader removes because the length became odd *)
    unfold identifierToTag.
    assert (O: Nat.odd (length (95 :: c0 :: r0)) = true).
    { change (length (95 :: c0 :: r0)) with (S (length (c0 :: r0))). rewrite Nat.odd_succ, <- Nat.negb_odd, EVEN. reflexivity. }
    rewrite Z.eqb_refl, O. cbn [andb]. rewrite EVEN.
    rewrite UNP by lia. cbn [bind]. rewrite PAD. reflexivity.
  - unfold identifierToTag. rewrite EVEN, andb_false_r. rewrite EVEN.
    rewrite UNP by lia. cbn [bind]. rewrite PAD. reflexivity.
Qed.
