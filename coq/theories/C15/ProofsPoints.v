(* C15/ProofsPoints.v *)
From Coq Require Import ZArith List Bool Lia.
From FV Require Import Base.Ser Base.Res Base.Bits Base.BE Base.ListX C15.ModelPoints.
Import ListNotations.
Open Scope Z_scope.

(* ======================= proofs ======================= *)
Ltac Zify.zify_post_hook ::= Z.to_euclidean_division_equations.

Fixpoint sumz (l : list Z) : Z := match l with [] => 0 | x :: r => x + sumz r end.

Lemma pts_run_spec : forall room bytes last pts ds rest last', pts_run room bytes last pts = (ds, rest, last') ->
  prefix_sums last ds ++ rest = pts /\ last' = last + sumz ds /\ (length ds <= room)%nat /\
  (bytes = true -> Forall (fun d => 0 <= d <= 255) ds).
Proof.
  induction room as [|k IH]; intros bytes last pts ds rest last' H.
  - cbn [pts_run] in H. apply pair_equal_spec in H. destruct H as [H <-]. apply pair_equal_spec in H. destruct H as [<- <-].
    cbn. repeat split; try lia. intros; constructor.
  - destruct pts as [|p r]; cbn [pts_run] in H.
    + apply pair_equal_spec in H. destruct H as [H <-]. apply pair_equal_spec in H. destruct H as [<- <-]. cbn. repeat split; try lia. intros; constructor.
    + destruct (bytes && ((255 <? p - last) || (p - last <? 0))) eqn:B.
      * apply pair_equal_spec in H. destruct H as [H <-]. apply pair_equal_spec in H. destruct H as [<- <-]. cbn. repeat split; try lia. intros; constructor.
      * destruct (pts_run k bytes p r) as [[ds' rest'] l''] eqn:E.
        apply pair_equal_spec in H. destruct H as [H <-]. apply pair_equal_spec in H. destruct H as [<- <-].
        destruct (IH bytes p r ds' rest' l'' E) as [A [B1 [C D]]].
        cbn [prefix_sums app sumz length]. replace (last + (p - last)) with p by lia. rewrite A.
        repeat split; try lia. intros Hb. constructor; [|apply D; exact Hb].
        rewrite Hb in B. cbn [andb] in B. apply orb_false_iff in B. destruct B as [B2 B3]. apply Z.ltb_ge in B2, B3. lia.
Qed.

Lemma run_header n1 : 0 <= n1 < 128 ->
  Z.land n1 127 = n1 /\ Z.land n1 128 = 0 /\ Z.land (Z.lor n1 128) 127 = n1 /\ Z.land (Z.lor n1 128) 128 = 128.
Proof.
  intros H.
  assert (S: forallb (fun c => (Z.land c 127 =? c) && (Z.land c 128 =? 0) && (Z.land (Z.lor c 128) 127 =? c) && (Z.land (Z.lor c 128) 128 =? 128))
                     (map Z.of_nat (seq 0 128)) = true) by (vm_compute; reflexivity).
  pose proof (forall_below _ 128 S n1 ltac:(lia)) as P. cbn beta in P.
  repeat (apply andb_true_iff in P; destruct P as [P ?]). repeat match goal with H : (_ =? _) = true |- _ => apply Z.eqb_eq in H end. auto.
Qed.

Lemma take1 b r : take_be 1 (b :: r) = Some (b, r).
Proof. unfold take_be. f_equal. f_equal. cbn. lia. Qed.
Lemma take2 a b r : take_be 2 (a :: b :: r) = Some (a * 256 + b, r).
Proof. unfold take_be. f_equal. f_equal. cbn. lia. Qed.

Lemma read_u_bytes ds rest : Forall (fun d => 0 <= d <= 255) ds -> read_u (length ds) 1 (ds ++ rest) = Some (ds, rest).
Proof.
  induction 1 as [|d r Hd F IH]; [reflexivity|]. cbn [length read_u app]. rewrite take1, IH. reflexivity.
Qed.

Lemma read_u_words : forall ds payload rest, words_payload ds = Ok payload ->
  read_u (length ds) 2 (payload ++ rest) = Some (ds, rest).
Proof.
  induction ds as [|d r IH]; intros payload rest H; cbn [words_payload] in H.
  - apply Ok_inj in H. subst. reflexivity.
  - unfold word_bytes in H. destruct ((Z.shiftr d 8 <? 0) || (255 <? Z.shiftr d 8)) eqn:B; [discriminate|]. cbn [bind] in H.
    destruct (words_payload r) as [b|e] eqn:E; [|discriminate]. cbn [bind] in H. apply Ok_inj in H. subst payload.
    apply orb_false_iff in B. destruct B as [B1 B2]. apply Z.ltb_ge in B1, B2.
    cbn [length read_u app]. rewrite take2, (IH b rest eq_refl). f_equal. f_equal. f_equal.
    rewrite Z.shiftr_div_pow2 in * by lia. rewrite land_255. change (2 ^ 8) with 256 in *. lia.
Qed.

(* consecutive differences *)
Fixpoint deltas_of (last : Z) (pts : list Z) : list Z :=
  match pts with [] => [] | p :: r => (p - last) :: deltas_of p r end.
Lemma prefix_deltas : forall pts last, prefix_sums last (deltas_of last pts) = pts.
Proof. induction pts as [|p r IH]; intros last; [reflexivity|]. cbn [deltas_of prefix_sums]. replace (last + (p - last)) with p by lia. rewrite IH. reflexivity. Qed.
Lemma deltas_of_prefix : forall ds last rest,
  deltas_of last (prefix_sums last ds ++ rest) = ds ++ deltas_of (last + sumz ds) rest.
Proof.
  induction ds as [|d r IH]; intros last rest; cbn [prefix_sums app deltas_of sumz]; [f_equal; lia|].
  rewrite IH. f_equal; [lia|]. f_equal. f_equal. lia.
Qed.

Lemma pts_run_first k bytes last p r : bytes && ((255 <? p - last) || (p - last <? 0)) = false ->
  exists ds rest l', pts_run (S k) bytes last (p :: r) = ((p - last) :: ds, rest, l').
Proof.
  intros B. cbn [pts_run]. rewrite B. destruct (pts_run k bytes p r) as [[a b] c]. exists a, b, c. reflexivity.
Qed.

Lemma compile_runs_decode : forall f last pts bytes, compile_runs f last pts = Ok bytes ->
  exists k, (k <= length bytes)%nat /\
  forall data F need acc, (length acc + length pts <= need)%nat ->
    decompile_runs (k + F) need (bytes ++ data) acc = decompile_runs F need data (acc ++ deltas_of last pts).
Proof.
  induction f as [|f IH]; intros last pts bytes H; cbn [compile_runs] in H; [discriminate|].
  destruct pts as [|p r] eqn:P.
  - apply Ok_inj in H. subst bytes. exists 0%nat. split; [cbn; lia|]. intros. cbn [app plus deltas_of]. rewrite app_nil_r. reflexivity.
  - rewrite <- P in *.
    set (bytesf := (0 <=? p - last) && (p - last <=? 255)) in *.
    destruct (pts_run 128 bytesf last pts) as [[ds rest] last'] eqn:R.
    destruct (pts_run_spec 128 bytesf last pts ds rest last' R) as [S1 [S2 [S3 S4]]].
    (* the first point is always taken *)
    assert (NE: (0 < length ds)%nat).
    { assert (B: bytesf && ((255 <? p - last) || (p - last <? 0)) = false).
      { unfold bytesf. destruct (0 <=? p - last) eqn:A1; destruct (p - last <=? 255) eqn:A2; cbn [andb]; try reflexivity.
        apply Z.leb_le in A1, A2. apply orb_false_iff. split; [apply Z.ltb_ge|apply Z.ltb_ge]; lia. }
      destruct (pts_run_first 127 bytesf last p r B) as [a [b [c Q]]].
      rewrite P in R. change 128%nat with (Datatypes.S 127) in R. rewrite Q in R.
      apply pair_equal_spec in R. destruct R as [R _]. apply pair_equal_spec in R. destruct R as [<- _]. cbn [length]. lia. }
    destruct (if bytesf then Ok ds else words_payload ds) as [payload|e] eqn:PL; [|discriminate]. cbn [bind] in H.
    destruct (compile_runs f last' rest) as [t|e] eqn:E; [|discriminate]. cbn [bind] in H. apply Ok_inj in H. subst bytes.
    destruct (IH last' rest t E) as [k [Hk Hd]].
    exists (Datatypes.S k). split; [cbn [length]; rewrite app_length; lia|].
    intros data F need acc Hn. cbn [plus app decompile_runs].
    assert (Lp: length pts = (length ds + length rest)%nat).
    { rewrite <- S1, app_length. f_equal. clear. revert last. induction ds; intros; cbn; [reflexivity|rewrite IHds; reflexivity]. }
    replace (need <=? length acc)%nat with false by (symmetry; apply Nat.leb_gt; lia).
    destruct (run_header (Z.of_nat (length ds) - 1) ltac:(lia)) as [H1 [H2 [H3 H4]]].
    assert (DO: deltas_of last pts = ds ++ deltas_of last' rest) by (rewrite <- S1, S2; apply deltas_of_prefix).
    destruct bytesf eqn:BF.
    + apply Ok_inj in PL. subst payload. rewrite H1, H2. cbn [Z.eqb].
      replace (Z.to_nat (Z.of_nat (length ds) - 1 + 1)) with (length ds) by lia.
      rewrite <- app_assoc. rewrite read_u_bytes by (apply S4; reflexivity).
      rewrite Hd by (rewrite app_length; lia). rewrite DO, app_assoc. reflexivity.
    + unfold POINTS_ARE_WORDS. rewrite H3, H4. change (128 =? 0) with false. cbv iota.
      replace (Z.to_nat (Z.of_nat (length ds) - 1 + 1)) with (length ds) by lia.
      rewrite <- app_assoc. rewrite (read_u_words ds payload _ PL).
      rewrite Hd by (rewrite app_length; lia). rewrite DO, app_assoc. reflexivity.
Qed.

(* THE ROUND TRIP for explicit point sets: whatever compiles (at most 32767 points, gaps below 65536) decodes back to itself *)
Theorem points_roundtrip pts bytes : pts <> [] ->
  compilePoints pts = Ok bytes -> decompilePoints bytes = Ok (Some pts, []).
Proof.
  intros NE H. unfold compilePoints in H. destruct pts as [|p0 r0] eqn:P; [contradiction|]. rewrite <- P in *.
  assert (Hpos: 0 < Z.of_nat (length pts)) by (rewrite P; cbn [length]; lia).
  set (n := Z.of_nat (length pts)) in *.
  destruct (compile_runs (S (length pts)) 0 pts) as [runs|e] eqn:E.
  2:{ destruct (n <? 128); cbn [bind] in H; [discriminate|]. destruct (32767 <? n); cbn [bind] in H; discriminate. }
  destruct (compile_runs_decode _ 0 pts runs E) as [k [Hk Hd]].
  assert (FIN: decompile_runs (S (length runs)) (length pts) runs [] = Ok (deltas_of 0 pts, [])).
  { replace (S (length runs)) with (k + S (length runs - k))%nat by lia.
    rewrite <- (app_nil_r runs) at 2. rewrite Hd by (cbn [length]; lia). cbn [app decompile_runs].
    assert (LL: length (deltas_of 0 pts) = length pts) by (clear; generalize 0; induction pts; intros; cbn; [reflexivity|rewrite IHpts; reflexivity]).
    rewrite LL, Nat.leb_refl. reflexivity. }
  destruct (n <? 128) eqn:B; cbn [bind] in H.
  - apply Z.ltb_lt in B. apply Ok_inj in H. subst bytes. cbn [app decompilePoints].
    assert (L0: Z.land n 128 = 0) by (apply (run_header n); lia). rewrite L0. cbn [Z.eqb bind].
    replace (n =? 0) with false by (symmetry; apply Z.eqb_neq; lia).
    unfold n. rewrite Nat2Z.id. rewrite FIN. cbn [bind]. rewrite prefix_deltas. reflexivity.
  - apply Z.ltb_ge in B.
    destruct (32767 <? n) eqn:B2; cbn [bind] in H; [discriminate|]. apply Z.ltb_ge in B2.
    apply Ok_inj in H. subst bytes. cbn [app decompilePoints].
    assert (Hh: 0 <= Z.shiftr n 8 < 128) by (rewrite Z.shiftr_div_pow2 by lia; change (2 ^ 8) with 256; lia).
    destruct (run_header (Z.shiftr n 8) Hh) as [_ [_ [H3 H4]]].
    rewrite H4. change (128 =? 0) with false. cbn [bind]. rewrite H3.
    rewrite lor_shiftl_add by (try lia; rewrite land_255; lia).
    assert (NN: Z.shiftr n 8 * 2 ^ 8 + Z.land n 255 = n) by (rewrite Z.shiftr_div_pow2 by lia; rewrite land_255; change (2 ^ 8) with 256; lia).
    rewrite NN. replace (n =? 0) with false by (symmetry; apply Z.eqb_neq; lia).
    unfold n. rewrite Nat2Z.id. rewrite FIN. cbn [bind]. rewrite prefix_deltas. reflexivity.
Qed.

(* a count that does not fit 15 bits is refused, never written wrongly *)
Fixpoint upto (n : nat) (start : Z) : list Z := match n with O => [] | S k => start :: upto k (start + 1) end.
Example points_too_many_refused : compilePoints (upto (Z.to_nat 32768) 0) = Err ValueError.
Proof. vm_compute. reflexivity. Qed.
