(* C15/ProofsDeltas.v *)
From Coq Require Import ZArith List Bool Lia.
From FV Require Import Base.Ser Base.Res Base.Bits Base.BE Base.ListX C15.ModelDeltas.
Import ListNotations.
Open Scope Z_scope.

(* ======================= proofs ======================= *)
Ltac Zify.zify_post_hook ::= Z.to_euclidean_division_equations.

Lemma zero_run_spec ds : forall run rest, zero_run ds = (run, rest) -> ds = run ++ rest /\ Forall (fun v => v = 0) run.
Proof.
  induction ds as [|v r IH]; intros run rest H; cbn [zero_run] in H.
  - apply pair_equal_spec in H. destruct H as [<- <-]. split; [reflexivity|constructor].
  - destruct (v =? 0) eqn:E.
    + destruct (zero_run r) as [a b]. apply pair_equal_spec in H. destruct H as [<- <-].
      destruct (IH a b eq_refl) as [-> F]. split; [reflexivity|constructor; [apply Z.eqb_eq; exact E|exact F]].
    + apply pair_equal_spec in H. destruct H as [<- <-]. split; [reflexivity|constructor].
Qed.
Lemma byte_run_spec ds : forall run rest, byte_run ds = (run, rest) -> ds = run ++ rest /\ Forall (fun v => in8 v = true) run.
Proof.
  induction ds as [|v r IH]; intros run rest H; cbn [byte_run] in H.
  - apply pair_equal_spec in H. destruct H as [<- <-]. split; [reflexivity|constructor].
  - destruct (in8 v) eqn:E; cbn [negb] in H; [|apply pair_equal_spec in H; destruct H as [<- <-]; split; [reflexivity|constructor]].
    destruct ((v =? 0) && next_is (fun w => w =? 0) r); [apply pair_equal_spec in H; destruct H as [<- <-]; split; [reflexivity|constructor]|].
    destruct (byte_run r) as [a b]. apply pair_equal_spec in H. destruct H as [<- <-].
    destruct (IH a b eq_refl) as [-> F]. split; [reflexivity|constructor; assumption].
Qed.
Lemma word_run_spec ds : forall run rest, word_run ds = (run, rest) -> ds = run ++ rest /\ Forall (fun v => in16 v = true) run.
Proof.
  induction ds as [|v r IH]; intros run rest H; cbn [word_run] in H.
  - apply pair_equal_spec in H. destruct H as [<- <-]. split; [reflexivity|constructor].
  - destruct (v =? 0); [apply pair_equal_spec in H; destruct H as [<- <-]; split; [reflexivity|constructor]|].
    destruct (in8 v && next_is in8 r); [apply pair_equal_spec in H; destruct H as [<- <-]; split; [reflexivity|constructor]|].
    destruct (in16 v) eqn:E; cbn [negb] in H; [|apply pair_equal_spec in H; destruct H as [<- <-]; split; [reflexivity|constructor]].
    destruct (word_run r) as [a b]. apply pair_equal_spec in H. destruct H as [<- <-].
    destruct (IH a b eq_refl) as [-> F]. split; [reflexivity|constructor; assumption].
Qed.
Lemma long_run_spec ds : forall run rest, long_run ds = (run, rest) -> ds = run ++ rest.
Proof.
  induction ds as [|v r IH]; intros run rest H; cbn [long_run] in H.
  - apply pair_equal_spec in H. destruct H as [<- <-]. reflexivity.
  - destruct (in16 v); [apply pair_equal_spec in H; destruct H as [<- <-]; reflexivity|].
    destruct (long_run r) as [a b]. apply pair_equal_spec in H. destruct H as [<- <-]. rewrite (IH a b eq_refl). reflexivity.
Qed.

(* header bits: the count and the kind come back apart *)
Lemma header_bits kind c : (kind = 0 \/ kind = 64 \/ kind = 128 \/ kind = 192) -> 0 <= c < 64 ->
  Z.land (Z.lor kind c) 63 = c /\ Z.land (Z.lor kind c) 192 = kind.
Proof.
  intros Hk Hc.
  assert (S: forallb (fun c => forallb (fun k => (Z.land (Z.lor k c) 63 =? c) && (Z.land (Z.lor k c) 192 =? k)) [0; 64; 128; 192])
                     (map Z.of_nat (seq 0 64)) = true) by (vm_compute; reflexivity).
  pose proof (forall_below _ 64 S c ltac:(lia)) as P. cbn beta in P. rewrite forallb_forall in P.
  assert (In kind [0; 64; 128; 192]) by (cbn; intuition).
  specialize (P kind H). apply andb_true_iff in P. destruct P as [P1 P2]. apply Z.eqb_eq in P1, P2. split; assumption.
Qed.

Definition fits (width : nat) (v : Z) : Prop :=
  - 2 ^ (8 * Z.of_nat width - 1) <= v < 2 ^ (8 * Z.of_nat width - 1).

Lemma read_vals_pack width vs rest : (0 < width)%nat -> Forall (fits width) vs ->
  read_vals (length vs) width (flat_map (pack_be width) vs ++ rest) = Some (vs, rest).
Proof.
  intros Hw F. induction F as [|v r Hv Fr IH]; [reflexivity|].
  cbn [length read_vals flat_map]. rewrite <- app_assoc. rewrite take_pack. rewrite IH.
  rewrite to_signed_mod; [reflexivity|lia|exact Hv].
Qed.

Lemma repeat_zero run : Forall (fun v => v = 0) run -> repeat 0 (length run) = run.
Proof. induction 1 as [|v r Hv F IH]; [reflexivity|]. cbn. rewrite IH, Hv. reflexivity. Qed.

Definition kind_ok (kind : Z) (width : nat) (run : list Z) : Prop :=
  (kind = DELTAS_ARE_ZERO /\ width = 0%nat /\ Forall (fun v => v = 0) run) \/
  (kind = DELTAS_ARE_BYTES /\ width = 1%nat /\ Forall (fits 1) run) \/
  (kind = DELTAS_ARE_WORDS /\ width = 2%nat /\ Forall (fits 2) run) \/
  (kind = DELTAS_ARE_LONGS /\ width = 4%nat /\ Forall (fits 4) run).

Lemma kind_ok_firstn kind width run n : kind_ok kind width run -> kind_ok kind width (firstn n run).
Proof.
  unfold kind_ok. intros [[A [B C]]|[[A [B C]]|[[A [B C]]|[A [B C]]]]]; [left|right; left|right; right; left|right; right; right];
    (split; [exact A|split; [exact B|]]); apply Forall_forall; intros x Hx; rewrite Forall_forall in C; apply C; eapply In_firstn_to; exact Hx.
Qed.
Lemma kind_ok_skipn kind width run n : kind_ok kind width run -> kind_ok kind width (skipn n run).
Proof.
  unfold kind_ok. intros [[A [B C]]|[[A [B C]]|[[A [B C]]|[A [B C]]]]]; [left|right; left|right; right; left|right; right; right];
    (split; [exact A|split; [exact B|]]); apply Forall_forall; intros x Hx; rewrite Forall_forall in C; apply C; eapply In_skipn_to; exact Hx.
Qed.

(* decoding one chunk: header, then the payload *)
Lemma decode_chunk kind width chunk data F need acc :
  kind_ok kind width chunk -> (0 < length chunk <= 64)%nat -> (length acc < need)%nat ->
  decompile_deltas (S F) need (Z.lor kind (Z.of_nat (length chunk) - 1) :: flat_map (pack_be width) chunk ++ data) acc
  = decompile_deltas F need data (acc ++ chunk).
Proof.
  intros K L Hacc. cbn [decompile_deltas].
  replace (need <=? length acc)%nat with false by (symmetry; apply Nat.leb_gt; exact Hacc).
  assert (Hk: kind = 0 \/ kind = 64 \/ kind = 128 \/ kind = 192).
  { destruct K as [[A _]|[[A _]|[[A _]|[A _]]]]; rewrite A; cbv; tauto. }
  destruct (header_bits kind (Z.of_nat (length chunk) - 1) Hk ltac:(lia)) as [B1 B2].
  rewrite B1, B2. replace (Z.to_nat (Z.of_nat (length chunk) - 1 + 1)) with (length chunk) by lia.
  destruct K as [[A [W Fz]]|[[A [W Fz]]|[[A [W Fz]]|[A [W Fz]]]]]; subst kind width.
  - change (DELTAS_ARE_ZERO =? DELTAS_ARE_ZERO) with true. cbv iota.
    assert (E: flat_map (pack_be 0) chunk = []) by (clear; induction chunk; [reflexivity|cbn; exact IHchunk]).
    rewrite E. cbn [app]. rewrite (repeat_zero chunk Fz). reflexivity.
  - change (DELTAS_ARE_BYTES =? DELTAS_ARE_ZERO) with false. change (DELTAS_ARE_BYTES =? DELTAS_ARE_LONGS) with false.
    change (DELTAS_ARE_BYTES =? DELTAS_ARE_WORDS) with false. cbv iota.
    rewrite read_vals_pack by (try lia; exact Fz). reflexivity.
  - change (DELTAS_ARE_WORDS =? DELTAS_ARE_ZERO) with false. change (DELTAS_ARE_WORDS =? DELTAS_ARE_LONGS) with false.
    change (DELTAS_ARE_WORDS =? DELTAS_ARE_WORDS) with true. cbv iota.
    rewrite read_vals_pack by (try lia; exact Fz). reflexivity.
  - change (DELTAS_ARE_LONGS =? DELTAS_ARE_ZERO) with false. change (DELTAS_ARE_LONGS =? DELTAS_ARE_LONGS) with true. cbv iota.
    rewrite read_vals_pack by (try lia; exact Fz). reflexivity.
Qed.

(* decoding a whole run written in chunks: k decoder steps, k <= number of bytes written *)
Lemma decode_run kind width : forall f run, (length run < f)%nat -> kind_ok kind width run ->
  exists k, (k <= length (emit_chunks f kind width run))%nat /\
  forall data F need acc, (length acc + length run <= need)%nat ->
    decompile_deltas (k + F) need (emit_chunks f kind width run ++ data) acc = decompile_deltas F need data (acc ++ run).
Proof.
  induction f as [|f IH]; intros run Hf K; [lia|].
  cbn [emit_chunks]. destruct run as [|v r] eqn:R.
  - exists 0%nat. split; [cbn; lia|]. intros. cbn [app plus]. rewrite app_nil_r. reflexivity.
  - rewrite <- R in *. assert (Rn: run <> []) by (rewrite R; discriminate).
    assert (Rl: (0 < length run)%nat) by (rewrite R; cbn [length]; lia).
    destruct (64 <=? Z.of_nat (length run)) eqn:B.
    + apply Z.leb_le in B.
      assert (L64: length (firstn 64 run) = 64%nat) by (rewrite firstn_length; lia).
      destruct (IH (skipn 64 run) ltac:(rewrite skipn_length; lia) (kind_ok_skipn _ _ _ 64 K)) as [k [Hk Hd]].
      exists (S k). split; [cbn [length]; rewrite app_length; lia|].
      intros data F need acc Hn. cbn [plus app]. rewrite <- app_assoc.
      replace 63 with (Z.of_nat (length (firstn 64 run)) - 1) by (rewrite L64; reflexivity).
      rewrite decode_chunk; [|apply kind_ok_firstn; exact K|rewrite L64; lia|lia].
      rewrite Hd by (rewrite app_length, skipn_length, L64; lia).
      rewrite <- app_assoc, firstn_skipn. reflexivity.
    + apply Z.leb_gt in B. exists 1%nat. split; [cbn [length]; lia|].
      intros data F need acc Hn. cbn [plus app].
      rewrite decode_chunk; [reflexivity|exact K|lia|lia].
Qed.

Lemma in8_fits v : in8 v = true -> fits 1 v.
Proof. unfold in8, fits. intros H. apply andb_true_iff in H. destruct H as [A B]. apply Z.leb_le in A, B. change (2 ^ (8 * Z.of_nat 1 - 1)) with 128. lia. Qed.
Lemma in16_fits v : in16 v = true -> fits 2 v.
Proof. unfold in16, fits. intros H. apply andb_true_iff in H. destruct H as [A B]. apply Z.leb_le in A, B. change (2 ^ (8 * Z.of_nat 2 - 1)) with 32768. lia. Qed.
Lemma in32_fits v : in32 v = true -> fits 4 v.
Proof. unfold in32, fits. intros H. apply andb_true_iff in H. destruct H as [A B]. apply Z.leb_le in A, B. change (2 ^ (8 * Z.of_nat 4 - 1)) with 2147483648. lia. Qed.

(* compiling and then decoding: k decoder steps for at least k bytes, and the values come back *)
Lemma compile_decode : forall f ds bytes, compile_deltas f ds = Ok bytes ->
  exists k, (k <= length bytes)%nat /\
  forall data F need acc, (length acc + length ds <= need)%nat ->
    decompile_deltas (k + F) need (bytes ++ data) acc = decompile_deltas F need data (acc ++ ds).
Proof.
  induction f as [|f IH]; intros ds bytes H; cbn [compile_deltas] in H; [discriminate|].
  destruct ds as [|v r] eqn:D.
  - apply Ok_inj in H. subst bytes. exists 0%nat. split; [cbn; lia|]. intros. cbn [app plus]. rewrite app_nil_r. reflexivity.
  - rewrite <- D in *.
    (* the run taken and its kind *)
    assert (X: exists kind width run rest,
               (if v =? 0 then (DELTAS_ARE_ZERO, 0%nat, zero_run ds) else if in8 v then (DELTAS_ARE_BYTES, 1%nat, byte_run ds)
                else if in16 v then (DELTAS_ARE_WORDS, 2%nat, word_run ds) else (DELTAS_ARE_LONGS, 4%nat, long_run ds)) = (kind, width, (run, rest))
               /\ ds = run ++ rest /\ (forallb in32 run = true -> kind_ok kind width run)).
    { destruct (v =? 0).
      - destruct (zero_run ds) as [run rest] eqn:E. exists DELTAS_ARE_ZERO, 0%nat, run, rest. destruct (zero_run_spec ds run rest E) as [S Fz].
        split; [reflexivity|split; [exact S|intros _; left; auto]].
      - destruct (in8 v).
        + destruct (byte_run ds) as [run rest] eqn:E. exists DELTAS_ARE_BYTES, 1%nat, run, rest. destruct (byte_run_spec ds run rest E) as [S Fz].
          split; [reflexivity|split; [exact S|intros _; right; left; split; [reflexivity|split; [reflexivity|]]]].
          eapply Forall_impl; [|exact Fz]. intros a Ha. apply in8_fits. exact Ha.
        + destruct (in16 v).
          * destruct (word_run ds) as [run rest] eqn:E. exists DELTAS_ARE_WORDS, 2%nat, run, rest. destruct (word_run_spec ds run rest E) as [S Fz].
            split; [reflexivity|split; [exact S|intros _; right; right; left; split; [reflexivity|split; [reflexivity|]]]].
            eapply Forall_impl; [|exact Fz]. intros a Ha. apply in16_fits. exact Ha.
          * destruct (long_run ds) as [run rest] eqn:E. exists DELTAS_ARE_LONGS, 4%nat, run, rest.
            split; [reflexivity|split; [apply (long_run_spec ds run rest E)|intros F32; right; right; right; split; [reflexivity|split; [reflexivity|]]]].
            apply Forall_forall. intros a Ha. apply in32_fits. rewrite forallb_forall in F32. apply F32. exact Ha. }
    destruct X as [kind [width [run [rest [EQ [S KO]]]]]]. rewrite EQ in H.
    destruct (forallb in32 run) eqn:F32; cbn [negb] in H; [|discriminate].
    destruct (compile_deltas f rest) as [t|e] eqn:E; [|discriminate]. cbn [bind] in H. apply Ok_inj in H. subst bytes.
    destruct (decode_run kind width (Datatypes.S (length run)) run ltac:(lia) (KO eq_refl)) as [k1 [Hk1 Hd1]].
    destruct (IH rest t E) as [k2 [Hk2 Hd2]].
    exists (k1 + k2)%nat. split; [rewrite app_length; lia|].
    intros data F need acc Hn. rewrite <- app_assoc. rewrite <- Nat.add_assoc.
    rewrite Hd1 by (rewrite S, app_length in Hn; lia).
    rewrite Hd2 by (rewrite S, app_length in Hn; rewrite app_length; lia).
    rewrite <- app_assoc. rewrite <- S. reflexivity.
Qed.

(* THE ROUND TRIP: whatever list of deltas compiles, decodes back to itself, consuming exactly the bytes written *)
Theorem deltas_roundtrip ds bytes : compileDeltaValues ds = Ok bytes -> decompileDeltas (length ds) bytes = Ok (ds, []).
Proof.
  intros H. unfold compileDeltaValues in H. unfold decompileDeltas.
  destruct (compile_decode _ ds bytes H) as [k [Hk Hd]].
  replace (Datatypes.S (length bytes)) with (k + Datatypes.S (length bytes - k))%nat by lia.
  rewrite <- (app_nil_r bytes) at 2. rewrite Hd by (cbn [length]; lia).
  cbn [decompile_deltas app]. rewrite Nat.leb_refl, Nat.eqb_refl. reflexivity.
Qed.

(* ... and every list of int32 values does compile (the only refusal is a value outside int32) *)
Lemma compile_total : forall f ds, (length ds < f)%nat -> forallb in32 ds = true -> exists bytes, compile_deltas f ds = Ok bytes.
Proof.
  induction f as [|f IH]; intros ds Hf H32; [lia|]. cbn [compile_deltas].
  destruct ds as [|v r] eqn:D; [eexists; reflexivity|]. rewrite <- D in *.
  assert (X: exists kind width run rest,
             (if v =? 0 then (DELTAS_ARE_ZERO, 0%nat, zero_run ds) else if in8 v then (DELTAS_ARE_BYTES, 1%nat, byte_run ds)
              else if in16 v then (DELTAS_ARE_WORDS, 2%nat, word_run ds) else (DELTAS_ARE_LONGS, 4%nat, long_run ds)) = (kind, width, (run, rest))
             /\ ds = run ++ rest /\ run <> []).
  { rewrite D. cbn [zero_run byte_run word_run long_run].
    destruct (v =? 0) eqn:Z0.
    - destruct (zero_run r) as [a b] eqn:E. exists DELTAS_ARE_ZERO, 0%nat, (v :: a), b. split; [reflexivity|split; [|discriminate]].
      destruct (zero_run_spec r a b E) as [-> _]. reflexivity.
    - destruct (in8 v) eqn:I8; cbn [negb andb].
      + destruct (byte_run r) as [a b] eqn:E. exists DELTAS_ARE_BYTES, 1%nat, (v :: a), b. split; [reflexivity|split; [|discriminate]].
        destruct (byte_run_spec r a b E) as [-> _]. reflexivity.
      + destruct (in16 v) eqn:I16; cbn [negb].
        * destruct (word_run r) as [a b] eqn:E. exists DELTAS_ARE_WORDS, 2%nat, (v :: a), b. split; [reflexivity|split; [|discriminate]].
          destruct (word_run_spec r a b E) as [-> _]. reflexivity.
        * destruct (long_run r) as [a b] eqn:E. exists DELTAS_ARE_LONGS, 4%nat, (v :: a), b. split; [reflexivity|split; [|discriminate]].
          rewrite (long_run_spec r a b E). reflexivity. }
  destruct X as [kind [width [run [rest [EQ [S NE]]]]]]. rewrite EQ.
  assert (F: forallb in32 run = true /\ forallb in32 rest = true) by (rewrite S, forallb_app in H32; apply andb_true_iff; exact H32).
  destruct F as [F1 F2]. rewrite F1. cbn [negb].
  destruct (IH rest) as [t Ht]; [|exact F2|rewrite Ht; cbn [bind]; eexists; reflexivity].
  rewrite S, app_length in Hf. destruct run; [contradiction|cbn [length] in Hf; lia].
Qed.

Theorem deltas_roundtrip_total ds : forallb in32 ds = true ->
  exists bytes, compileDeltaValues ds = Ok bytes /\ decompileDeltas (length ds) bytes = Ok (ds, []).
Proof.
  intros H. destruct (compile_total (Datatypes.S (length ds)) ds ltac:(lia) H) as [bytes Hb].
  exists bytes. split; [exact Hb|apply deltas_roundtrip; exact Hb].
Qed.
