(* C15/ModelPoints.v — packed point numbers of gvar/cvar tuples: TupleVariation.compilePoints (TupleVariation.py:211-273) and
   decompilePoints_ (276-330). Points are given sorted (the code sorts a set first). *)
From Coq Require Import ZArith List Bool Lia.
From FV Require Import Base.Ser Base.Res Base.Bits Base.BE Base.ListX.
Import ListNotations.
Open Scope Z_scope.

Definition POINTS_ARE_WORDS := 128.

(* one run: at most `room` further points; a byte run stops before a delta outside 0..255; returns deltas, rest, last value *)
Fixpoint pts_run (room : nat) (bytes : bool) (last : Z) (pts : list Z) : list Z * list Z * Z :=
  match room, pts with
  | S k, p :: r =>
      let d := p - last in
      if bytes && ((255 <? d) || (d <? 0)) then ([], pts, last)
      else let '(ds, rest, l') := pts_run k bytes p r in (d :: ds, rest, l')
  | _, _ => ([], pts, last)
  end.

Definition word_bytes (d : Z) : Res (list Z) :=
  let hi := Z.shiftr d 8 in
  if (hi <? 0) || (255 <? hi) then Err ValueError            (* bytearray.append refuses values outside 0..255 *)
  else Ok [hi; Z.land d 255].
Fixpoint words_payload (ds : list Z) : Res (list Z) :=
  match ds with
  | [] => Ok []
  | d :: r => let* a := word_bytes d in let* b := words_payload r in Ok (a ++ b)
  end.

Fixpoint compile_runs (fuel : nat) (last : Z) (pts : list Z) : Res (list Z) :=
  match fuel with
  | O => Err OutOfFuel
  | S f =>
      match pts with
      | [] => Ok []
      | p :: _ =>
          let d0 := p - last in
          let bytes := (0 <=? d0) && (d0 <=? 255) in
          let '(ds, rest, last') := pts_run 128 bytes last pts in
          let n1 := Z.of_nat (length ds) - 1 in
          let* payload := if bytes then Ok ds else words_payload ds in
          let* t := compile_runs f last' rest in
          Ok ((if bytes then n1 else Z.lor n1 POINTS_ARE_WORDS) :: payload ++ t)
      end
  end.

Definition compilePoints (pts : list Z) : Res (list Z) :=
  match pts with
  | [] => Ok [0]
  | _ =>
      let n := Z.of_nat (length pts) in
      let* hdr := if n <? 128 then Ok [n]
                  else if 32767 <? n then Err ValueError        (* the count has 15 bits *)
                  else Ok [Z.lor (Z.shiftr n 8) 128; Z.land n 255] in
      let* runs := compile_runs (S (length pts)) 0 pts in
      Ok (hdr ++ runs)
  end.

(* decompilePoints_: Some [] stands for "all points of the glyph" (range(numPoints)) *)
Fixpoint read_u (n : nat) (width : nat) (data : list Z) : option (list Z * list Z) :=
  match n with
  | O => Some ([], data)
  | S k => match take_be width data with
           | Some (u, r) => match read_u k width r with Some (vs, r') => Some (u :: vs, r') | None => None end
           | None => None
           end
  end.
Fixpoint decompile_runs (fuel : nat) (need : nat) (data : list Z) (acc : list Z) : Res (list Z * list Z) :=
  match fuel with
  | O => Err OutOfFuel
  | S f =>
      if (need <=? length acc)%nat then Ok (acc, data)
      else match data with
           | [] => Err IndexError
           | h :: r =>
               let n := Z.to_nat (Z.land h 127 + 1) in
               let width := if Z.land h 128 =? 0 then 1%nat else 2%nat in
               match read_u n width r with
               | Some (vs, r') => decompile_runs f need r' (acc ++ vs)
               | None => if (Z.of_nat (length r) mod Z.of_nat width =? 0) then Err AssertionError else Err ValueError
               end
           end
  end.
Fixpoint prefix_sums (cur : Z) (ds : list Z) : list Z :=
  match ds with [] => [] | d :: r => (cur + d) :: prefix_sums (cur + d) r end.

Definition decompilePoints (data : list Z) : Res (option (list Z) * list Z) :=
  match data with
  | [] => Err IndexError
  | b0 :: r =>
      let* (n, r1) := if Z.land b0 128 =? 0 then Ok (b0, r)
                      else match r with b1 :: r' => Ok (Z.lor (Z.shiftl (Z.land b0 127) 8) b1, r') | [] => Err IndexError end in
      if n =? 0 then Ok (None, r1)
      else let* (ds, rest) := decompile_runs (S (length r1)) (Z.to_nat n) r1 [] in Ok (Some (prefix_sums 0 ds), rest)
  end.


