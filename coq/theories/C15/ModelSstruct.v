(* C15/ModelSstruct.v — misc/sstruct.py pack / unpack / calcsize over a format DESCRIPTOR.

   The descriptors of every format string of Lib/fontTools are regenerated from the source on every run
   (Data/Data_sstruct.v, tools/translate_data.py gen_sstruct_formats); the harness checks that descriptor against what
   sstruct.getformat answers for the same string, and runs pack/unpack/calcsize of the real module against this model on
   every one of them.

   Python                                     here
   struct '>' standard sizes  b B h H i I l L q Q   KInt signed nbytes  (range error = struct.error, which sstruct.pack
                                                    turns into ValueError in its "Check it fits" step)
   'c'                                        KChar   (a bytes object of length one)
   '?'                                        KBool   (truth value; reads back as 0 / 1)
   'Ns'                                       KStr n  (truncated or NUL-padded to n bytes)
   'x' on a line of its own                   KPad    (written as 0, skipped on reading, has no name)
   'B.AF'                                     KFix nbytes A: fl2fi = otRound(value * 2^A) = floor(value * 2^A + 1/2), then the
                                              signed integer field of B+A bits; fi2fl = value / 2^A
   f, d, Np and named pad bytes are outside the model (the translator leaves such formats out and says so). *)
From Coq Require Import ZArith QArith Qround List Bool.
From FV Require Import Base.Res Base.BE.
Import ListNotations.
Open Scope Z_scope.

Inductive kind :=
| KPad | KChar | KInt (signed : bool) (n : nat) | KBool | KStr (n : nat) | KFix (n : nat) (after : Z) | KBad.

Definition kind_of (c : Z * (Z * Z)) : kind :=
  let '(k, (p1, p2)) := c in
  if k =? 0 then KPad else if k =? 1 then KChar
  else if k =? 2 then KInt true (Z.to_nat p1) else if k =? 3 then KInt false (Z.to_nat p1)
  else if k =? 4 then KBool else if k =? 5 then KStr (Z.to_nat p1)
  else if k =? 6 then KFix (Z.to_nat p1) p2 else KBad.

(* a field value: an integer, a number for a fixed-point field, or bytes *)
Inductive sval := VInt (z : Z) | VNum (q : Q) | VBytes (l : list Z).

Definition int_range (signed : bool) (n : nat) (v : Z) : bool :=
  let bits := 8 * Z.of_nat n in
  if signed then (- 2 ^ (bits - 1) <=? v) && (v <? 2 ^ (bits - 1)) else (0 <=? v) && (v <? 2 ^ bits).

(* fixedTools.floatToFixed / roundTools.otRound: floor (v * 2^after + 0.5) *)
Definition fl2fi (q : Q) (after : Z) : Z := Qfloor (q * inject_Z (2 ^ after) + (1 # 2)).
Definition fi2fl (z : Z) (after : Z) : Q := inject_Z z / inject_Z (2 ^ after).

Definition pack_int (signed : bool) (n : nat) (z : Z) : Res (list Z) :=
  if int_range signed n z then Ok (pack_be n z) else Err ValueError.

Definition pack_field (k : kind) (v : sval) : Res (list Z) :=
  match k, v with
  | KInt s n, VInt z => pack_int s n z
  | KFix n a, VNum q => pack_int true n (fl2fi q a)
  | KFix n a, VInt z => pack_int true n (fl2fi (inject_Z z) a)
  | KBool, VInt z => Ok [if z =? 0 then 0 else 1]
  | KChar, VBytes [b] => if byteb b then Ok [b] else Err ValueError
  | KStr n, VBytes l => if forallb byteb l then Ok (firstn n (l ++ repeat 0 n)) else Err ValueError
  | _, _ => Err ValueError
  end.

(* sstruct.pack: the named fields in order, each taken from the object; a missing name is a KeyError at that field *)
Fixpoint pack (fmt : list kind) (vals : list sval) : Res (list Z) :=
  match fmt with
  | [] => Ok []
  | KPad :: r => let* bs := pack r vals in Ok (0 :: bs)
  | k :: r =>
      match vals with
      | [] => Err KeyError
      | v :: vs => let* b := pack_field k v in let* bs := pack r vs in Ok (b ++ bs)
      end
  end.

Definition field_size (k : kind) : nat :=
  match k with
  | KPad | KChar | KBool => 1%nat
  | KInt _ n | KFix n _ | KStr n => n
  | KBad => 0%nat
  end.

Definition calcsize (fmt : list kind) : nat := fold_right (fun k a => (field_size k + a)%nat) 0%nat fmt.

(* one field read from the front of the data: None when the data is too short *)
Definition unpack_field (k : kind) (bs : list Z) : option (option sval * list Z) :=
  match k with
  | KPad => match bs with _ :: r => Some (None, r) | [] => None end
  | KChar => match bs with b :: r => Some (Some (VBytes [b]), r) | [] => None end
  | KBool => match bs with b :: r => Some (Some (VInt (if b =? 0 then 0 else 1)), r) | [] => None end
  | KInt s n =>
      match take_be n bs with
      | Some (u, r) => Some (Some (VInt (if s then to_signed (8 * Z.of_nat n) u else u)), r)
      | None => None
      end
  | KFix n a =>
      match take_be n bs with
      | Some (u, r) => Some (Some (VNum (fi2fl (to_signed (8 * Z.of_nat n) u) a)), r)
      | None => None
      end
  | KStr n => if (n <=? length bs)%nat then Some (Some (VBytes (firstn n bs)), skipn n bs) else None
  | KBad => None
  end.

Fixpoint unpack_fields (fmt : list kind) (bs : list Z) : option (list sval * list Z) :=
  match fmt with
  | [] => Some ([], bs)
  | k :: r =>
      match unpack_field k bs with
      | None => None
      | Some (ov, rest) =>
          match unpack_fields r rest with
          | None => None
          | Some (vs, rest') => Some (match ov with Some v => v :: vs | None => vs end, rest')
          end
      end
  end.

(* sstruct.unpack: struct.unpack demands exactly calcsize bytes (struct.error otherwise) *)
Definition unpack (fmt : list kind) (bs : list Z) : Res (list sval) :=
  if (length bs =? calcsize fmt)%nat then
    match unpack_fields fmt bs with
    | Some (vs, _) => Ok vs
    | None => Err StructError
    end
  else Err StructError.

(* what a written value reads back as *)
Definition canon_field (k : kind) (v : sval) : sval :=
  match k, v with
  | KFix n a, VNum q => VNum (fi2fl (fl2fi q a) a)
  | KFix n a, VInt z => VNum (fi2fl (fl2fi (inject_Z z) a) a)
  | KBool, VInt z => VInt (if z =? 0 then 0 else 1)
  | KStr n, VBytes l => VBytes (firstn n (l ++ repeat 0 n))
  | _, _ => v
  end.

Fixpoint canon (fmt : list kind) (vals : list sval) : list sval :=
  match fmt with
  | [] => []
  | KPad :: r => canon r vals
  | k :: r => match vals with [] => [] | v :: vs => canon_field k v :: canon r vs end
  end.

(* a value that is written without loss *)
Definition exact_field (k : kind) (v : sval) : Prop :=
  match k, v with
  | KInt _ _, VInt _ => True
  | KFix n a, VNum q => exists z, q = fi2fl z a
  | KBool, VInt z => z = 0 \/ z = 1
  | KChar, VBytes _ => True
  | KStr n, VBytes l => length l = n
  | _, _ => False
  end.

Fixpoint exact (fmt : list kind) (vals : list sval) : Prop :=
  match fmt with
  | [] => vals = []
  | KPad :: r => exact r vals
  | k :: r => match vals with [] => False | v :: vs => exact_field k v /\ exact r vs end
  end.

(* descriptors the model covers: known kinds, sizes that struct has, fixed-point fields of 8/16/32 bits with 0 <= A *)
Definition kind_ok (k : kind) : bool :=
  match k with
  | KBad => false
  | KInt _ n => (Nat.eqb n 1 || Nat.eqb n 2 || Nat.eqb n 4 || Nat.eqb n 8)%bool
  | KFix n a => ((Nat.eqb n 1 || Nat.eqb n 2 || Nat.eqb n 4) && (0 <=? a) && (a <=? 8 * Z.of_nat n))%bool
  | _ => true
  end.
Definition fmt_ok (fmt : list kind) : bool := forallb kind_ok fmt.

(* ---- entry points for the driver: descriptor as integers, values as (number, bytes) pairs ---- *)
Definition sval_of (k : kind) (v : Q * list Z) : sval :=
  match k with
  | KChar | KStr _ => VBytes (snd v)
  | _ => let r := Qred (fst v) in if (Zpos (Qden r) =? 1) then VInt (Qnum r) else VNum (fst v)
  end.
Fixpoint svals_of (fmt : list kind) (vals : list (Q * list Z)) : list sval :=
  match fmt with
  | [] => []
  | KPad :: r => svals_of r vals
  | k :: r => match vals with [] => [] | v :: vs => sval_of k v :: svals_of r vs end
  end.
Definition sval_out (v : sval) : Q * list Z :=
  match v with VInt z => (inject_Z z, []) | VNum q => (q, []) | VBytes l => (0%Q, l) end.

Definition sstruct_pack (d : list (Z * (Z * Z))) (vals : list (Q * list Z)) : Res (list Z) :=
  let fmt := map kind_of d in pack fmt (svals_of fmt vals).
Definition sstruct_unpack (d : list (Z * (Z * Z))) (bs : list Z) : Res (list (Q * list Z)) :=
  match unpack (map kind_of d) bs with Ok vs => Ok (map sval_out vs) | Err e => Err e end.
Definition sstruct_calcsize (d : list (Z * (Z * Z))) : nat := calcsize (map kind_of d).
