(* C15/Proofs.v — lemmas about C15/Model.v *)
From Coq Require Import ZArith List Bool Lia ZifyBool.
From FV Require Import Base.Bits Base.Res Base.BE C15.Model.
Import ListNotations.
Open Scope Z_scope.
Ltac Zify.zify_post_hook ::= Z.to_euclidean_division_equations.

Lemma read_be_signed_pack n v rest :
  (0 < n)%nat -> - 2 ^ (8 * Z.of_nat n - 1) <= v < 2 ^ (8 * Z.of_nat n - 1) ->
  read_be_signed n (pack_be n v ++ rest) = Ok (v, rest).
Proof.
  intros Hn Hv. unfold read_be_signed. rewrite take_pack.
  rewrite to_signed_mod by lia. reflexivity.
Qed.

Definition twoByteFmt (fmt : intfmt) := match fmt with FmtT1 => false | _ => true end.

(* the integer domain on which each format's encoder is lossless *)
Definition int_domain (fmt : intfmt) (v : Z) : Prop :=
  match fmt with
  | FmtT2 => -32768 <= v <= 32767
  | _ => -2147483648 <= v <= 2147483647
  end.

Lemma encodeInt_small fmt v : -107 <= v <= 107 -> encodeInt fmt v = Ok [v + 139].
Proof. intros. unfold encodeInt. replace ((-107 <=? v) && (v <=? 107)) with true by lia. reflexivity. Qed.

Theorem int_roundtrip fmt v bs rest :
  int_domain fmt v -> encodeInt fmt v = Ok bs -> readNumber fmt (bs ++ rest) = Ok (NInt v, rest).
Proof.
  unfold encodeInt. intros D H.
  destruct ((-107 <=? v) && (v <=? 107)) eqn:E1.
  { inversion H; subst; clear H. cbn [app readNumber].
    replace ((32 <=? v + 139) && (v + 139 <=? 246)) with true by lia. do 3 f_equal. lia. }
  destruct ((108 <=? v) && (v <=? 1131)) eqn:E2.
  { inversion H; subst; clear H. cbn [app readNumber].
    rewrite Z.shiftr_div_pow2 by lia. rewrite land_255. change (2^8) with 256.
    replace ((32 <=? (v - 108) / 256 + 247) && ((v - 108) / 256 + 247 <=? 246)) with false by lia.
    replace ((247 <=? (v - 108) / 256 + 247) && ((v - 108) / 256 + 247 <=? 250)) with true by lia.
    do 3 f_equal. lia. }
  destruct ((-1131 <=? v) && (v <=? -108)) eqn:E3.
  { inversion H; subst; clear H. cbn [app readNumber].
    rewrite Z.shiftr_div_pow2 by lia. rewrite land_255. change (2^8) with 256.
    replace ((32 <=? (-v - 108) / 256 + 251) && ((-v - 108) / 256 + 251 <=? 246)) with false by lia.
    replace ((247 <=? (-v - 108) / 256 + 251) && ((-v - 108) / 256 + 251 <=? 250)) with false by lia.
    replace ((251 <=? (-v - 108) / 256 + 251) && ((-v - 108) / 256 + 251 <=? 254)) with true by lia.
    do 3 f_equal. lia. }
  destruct fmt; cbn [twoByteFmt andb] in *.
  - (* T2: domain is int16, so the two-byte form is taken *)
    cbn in D. replace ((-32768 <=? v) && (v <=? 32767)) with true in H by lia.
    inversion H; subst; clear H. cbn [app readNumber].
    cbn [Z.leb Z.eqb Z.compare Pos.compare Pos.compare_cont Pos.eqb andb].
    rewrite (read_be_signed_pack 2 v rest) by (cbn; lia). reflexivity.
  - (* CFF *)
    cbn in D.
    destruct ((-32768 <=? v) && (v <=? 32767)) eqn:E4.
    + inversion H; subst; clear H. cbn [app readNumber].
      cbn [Z.leb Z.eqb Z.compare Pos.compare Pos.compare_cont Pos.eqb andb].
      rewrite (read_be_signed_pack 2 v rest) by (cbn; lia). reflexivity.
    + unfold pack_i32, in_i32 in H.
      replace ((-2147483648 <=? v) && (v <=? 2147483647)) with true in H by lia.
      cbn [bind] in H. inversion H; subst; clear H. cbn [app readNumber].
      cbn [Z.leb Z.eqb Z.compare Pos.compare Pos.compare_cont Pos.eqb andb].
      rewrite (read_be_signed_pack 4 v rest) by (cbn; lia). reflexivity.
  - (* T1 *)
    cbn in D. unfold pack_i32, in_i32 in H.
    replace ((-2147483648 <=? v) && (v <=? 2147483647)) with true in H by lia.
    cbn [bind] in H. inversion H; subst; clear H. cbn [app readNumber].
    cbn [Z.leb Z.eqb Z.compare Pos.compare Pos.compare_cont Pos.eqb andb].
    rewrite (read_be_signed_pack 4 v rest) by (cbn; lia). reflexivity.
Qed.

(* Outside int16 the T2 encoder takes the documented "backwards compatible hack": the bytes
   decode as a 16.16 fixed, not as the integer. *)
Lemma t2_int_outside_int16_decodes_as_fixed :
  exists v bs, encodeInt FmtT2 v = Ok bs /\ readNumber FmtT2 bs = Ok (NFixed v, []).
Proof. exists 40000, [255; 0; 0; 156; 64]. split; vm_compute; reflexivity. Qed.

Definition num_value16 (n : num) : Z := match n with NInt v => v * 65536 | NFixed f => f end.

Theorem fixed_roundtrip n bs rest :
  -2147483648 <= n <= 2147483647 -> encodeFixedNum n = Ok bs ->
  exists x, readNumber FmtT2 (bs ++ rest) = Ok (x, rest) /\ num_value16 x = n.
Proof.
  intros D H. unfold encodeFixedNum in H. rewrite land_65535 in H.
  destruct (n mod 65536 =? 0) eqn:E.
  - exists (NInt (Z.shiftr n 16)). rewrite Z.shiftr_div_pow2 in * by lia. change (2^16) with 65536 in *.
    split; [|cbn; lia]. apply int_roundtrip; [cbn; lia|exact H].
  - unfold pack_i32, in_i32 in H.
    replace ((-2147483648 <=? n) && (n <=? 2147483647)) with true in H by lia.
    cbn [bind] in H. inversion H; subst; clear H. exists (NFixed n). split; [|reflexivity].
    cbn [app readNumber].
    cbn [Z.leb Z.eqb Z.compare Pos.compare Pos.compare_cont Pos.eqb andb].
    rewrite (read_be_signed_pack 4 n rest) by (cbn; lia). reflexivity.
Qed.

(* ---------- 255UInt16 ---------- *)
Theorem u255_roundtrip v bs rest :
  pack255UShort v = Ok bs -> unpack255UShort (bs ++ rest) = Ok (v, rest).
Proof.
  unfold pack255UShort. intros H.
  destruct ((v <? 0) || (65535 <? v)) eqn:E0; [discriminate|].
  destruct (v <? 253) eqn:E1.
  { inversion H; subst; clear H. cbn [app unpack255UShort].
    replace (v =? 253) with false by lia. replace (v =? 254) with false by lia.
    replace (v =? 255) with false by lia. reflexivity. }
  destruct (v <? 506) eqn:E2.
  { inversion H; subst; clear H. cbn. do 3 f_equal. lia. }
  destruct (v <? 762) eqn:E3.
  { inversion H; subst; clear H. cbn. do 3 f_equal. lia. }
  inversion H; subst; clear H. rewrite pack_be_2. cbn [app unpack255UShort].
  cbn [Z.eqb Pos.eqb]. do 3 f_equal. lia.
Qed.

(* ---------- UIntBase128 ---------- *)
Lemma b128_step result code :
  0 <= result -> Z.lor (Z.shiftl result 7) (Z.land code 127) = result * 128 + code mod 128.
Proof.
  intros. rewrite land_127. rewrite lor_shiftl_add; [reflexivity|lia|].
  change (2^7) with 128. apply Z.mod_pos_bound. lia.
Qed.

Lemma land_128_or x : 0 <= x < 128 -> Z.land (Z.lor x 128) 128 =? 0 = false.
Proof.
  intros Hx. apply (forall_below (fun x => negb (Z.land (Z.lor x 128) 128 =? 0)) 128) in Hx.
  - destruct (Z.land (Z.lor x 128) 128 =? 0); [discriminate|reflexivity].
  - vm_compute. reflexivity.
Qed.
Lemma land_127_or x : 0 <= x < 128 -> Z.land (Z.lor x 128) 127 = x.
Proof.
  intros Hx. apply (forall_below (fun x => Z.land (Z.lor x 128) 127 =? x) 128) in Hx.
  - lia.
  - vm_compute. reflexivity.
Qed.
Lemma land_128_low x : 0 <= x < 128 -> Z.land x 128 =? 0 = true.
Proof. intros. rewrite land_128_byte by lia. lia. Qed.
Lemma land_127_low x : 0 <= x < 128 -> Z.land x 127 = x.
Proof. intros. rewrite land_127. apply Z.mod_small. lia. Qed.

(* generalised loop invariant: after consuming the top groups, [acc] holds n >> 7k *)
Lemma unpack_groups k : forall fuel acc n rest,
  (k <= fuel)%nat -> (0 < k)%nat -> 0 <= n -> 0 <= acc ->
  acc * 2 ^ (7 * Z.of_nat k) + n mod 2 ^ (7 * Z.of_nat k) < 2 ^ 32 ->
  unpackB128_loop fuel acc (packB128_groups k n ++ rest)
  = Ok (acc * 2 ^ (7 * Z.of_nat k) + n mod 2 ^ (7 * Z.of_nat k), rest).
Proof.
  induction k as [|j IH]; intros fuel acc n rest Hf Hk Hn Hacc Hlt; [lia|].
  destruct fuel as [|f]; [lia|].
  cbn [packB128_groups app unpackB128_loop].
  set (g := Z.land (Z.shiftr n (7 * Z.of_nat j)) 127).
  assert (Hg: 0 <= g < 128) by (unfold g; rewrite land_127; apply Z.mod_pos_bound; lia).
  assert (Pj: 0 < 2 ^ (7 * Z.of_nat j)) by (apply Z.pow_pos_nonneg; lia).
  assert (Epow: 2 ^ (7 * Z.of_nat (S j)) = 2 ^ (7 * Z.of_nat j) * 128).
  { replace (7 * Z.of_nat (S j)) with (7 * Z.of_nat j + 7) by lia. rewrite Z.pow_add_r by lia. reflexivity. }
  assert (Emod: n mod 2 ^ (7 * Z.of_nat (S j)) = n mod 2 ^ (7 * Z.of_nat j) + 2 ^ (7 * Z.of_nat j) * g).
  { rewrite Epow. rewrite Z.rem_mul_r by lia. unfold g. rewrite land_127.
    rewrite Z.shiftr_div_pow2 by lia. reflexivity. }
  assert (Hacc25: acc < 2 ^ 25).
  { rewrite Epow in Hlt. assert (0 <= n mod (2 ^ (7 * Z.of_nat j) * 128)) by (apply Z.mod_pos_bound; lia).
    change (2^32) with (2^25 * 128) in Hlt. nia. }
  rewrite land_high_zero by lia. cbn [Z.eqb negb].
  destruct j as [|j'].
  - (* last group *)
    rewrite land_128_low by exact Hg. fold g.
    rewrite (land_127_low g Hg). rewrite lor_shiftl_add by (change (2^7) with 128; lia).
    do 2 f_equal. rewrite Emod. change (2 ^ (7 * Z.of_nat 0)) with 1. rewrite Z.mod_1_r.
    change (7 * Z.of_nat 1) with 7. lia.
  - rewrite land_128_or by exact Hg. rewrite land_127_or by exact Hg.
    rewrite lor_shiftl_add by (change (2^7) with 128; lia). change (2^7) with 128.
    assert (Hlt': (acc * 128 + g) * 2 ^ (7 * Z.of_nat (S j')) + n mod 2 ^ (7 * Z.of_nat (S j')) < 2 ^ 32).
    { rewrite Emod, Epow in Hlt. nia. }
    rewrite IH by lia.
    do 2 f_equal. rewrite Emod, Epow. ring.
Qed.

Lemma base128Size_spec n : 0 <= n < 2 ^ 32 ->
  let k := base128Size n in
  (1 <= k <= 5)%nat /\ n < 2 ^ (7 * Z.of_nat k) /\ ((1 < k)%nat -> 2 ^ (7 * Z.of_nat (k - 1)) <= n).
Proof.
  intros Hn. unfold base128Size.
  assert (S1: Z.shiftr n 7 = n / 128) by (rewrite Z.shiftr_div_pow2 by lia; reflexivity).
  assert (S2: Z.shiftr (n / 128) 7 = n / 16384).
  { rewrite Z.shiftr_div_pow2 by lia. change (2^7) with 128. rewrite Z.div_div by lia. reflexivity. }
  assert (S3: Z.shiftr (n / 16384) 7 = n / 2097152).
  { rewrite Z.shiftr_div_pow2 by lia. change (2^7) with 128. rewrite Z.div_div by lia. reflexivity. }
  assert (S4: Z.shiftr (n / 2097152) 7 = n / 268435456).
  { rewrite Z.shiftr_div_pow2 by lia. change (2^7) with 128. rewrite Z.div_div by lia. reflexivity. }
  assert (S5: Z.shiftr (n / 268435456) 7 = n / 34359738368).
  { rewrite Z.shiftr_div_pow2 by lia. change (2^7) with 128. rewrite Z.div_div by lia. reflexivity. }
  change (2^32) with 4294967296 in Hn.
  cbn [base128Size_aux].
  destruct (128 <=? n) eqn:E1; [|cbn; lia].
  rewrite S1. destruct (128 <=? n / 128) eqn:E2; [|cbn; lia].
  rewrite S2. destruct (128 <=? n / 16384) eqn:E3; [|cbn; lia].
  rewrite S3. destruct (128 <=? n / 2097152) eqn:E4; [|cbn; lia].
  rewrite S4. destruct (128 <=? n / 268435456) eqn:E5; [|cbn; lia].
  lia.
Qed.

Theorem base128_roundtrip n bs rest :
  packBase128 n = Ok bs -> unpackBase128 (bs ++ rest) = Ok (n, rest).
Proof.
  unfold packBase128. intros H.
  destruct ((n <? 0) || (4294967296 <=? n)) eqn:E; [discriminate|].
  inversion H; subst; clear H.
  assert (Hn: 0 <= n < 2 ^ 32) by (change (2^32) with 4294967296; lia).
  destruct (base128Size_spec n Hn) as (Hk & Hlt & Hge).
  set (k := base128Size n) in *.
  assert (Hmod: n mod 2 ^ (7 * Z.of_nat k) = n) by (apply Z.mod_small; lia).
  assert (L: unpackB128_loop 5 0 (packB128_groups k n ++ rest) = Ok (n, rest)).
  { rewrite (unpack_groups k 5 0 n rest); try lia. do 2 f_equal. lia. }
  unfold unpackBase128.
  destruct k as [|j] eqn:Ek; [lia|].
  cbn [packB128_groups app]. cbn [packB128_groups app] in L.
  set (g := Z.land (Z.shiftr n (7 * Z.of_nat j)) 127) in *.
  assert (Hg: 0 <= g < 128) by (unfold g; rewrite land_127; apply Z.mod_pos_bound; lia).
  destruct j as [|j'].
  - replace (g =? 128) with false by lia. exact L.
  - (* top group is non-zero because the size is minimal *)
    assert (Hg1: 1 <= g).
    { unfold g. rewrite land_127. rewrite Z.shiftr_div_pow2 by lia.
      assert (P: 0 < 2 ^ (7 * Z.of_nat (S j'))) by (apply Z.pow_pos_nonneg; lia).
      assert (G: 2 ^ (7 * Z.of_nat (S j')) <= n) by (apply Hge; lia).
      assert (Q: 1 <= n / 2 ^ (7 * Z.of_nat (S j'))).
      { apply Z.div_le_lower_bound; lia. }
      assert (U: n / 2 ^ (7 * Z.of_nat (S j')) < 128).
      { apply Z.div_lt_upper_bound; [lia|].
        replace (7 * Z.of_nat (S (S j'))) with (7 * Z.of_nat (S j') + 7) in Hlt by lia.
        rewrite Z.pow_add_r in Hlt by lia. change (2^7) with 128 in Hlt. lia. }
      rewrite Z.mod_small by lia. lia. }
    assert (Hne: Z.lor g 128 =? 128 = false).
    { assert (X: Z.land (Z.lor g 128) 127 = g) by (apply land_127_or; lia).
      destruct (Z.eqb_spec (Z.lor g 128) 128) as [Eq|]; [|reflexivity].
      rewrite Eq in X. cbn in X. lia. }
    rewrite Hne. exact L.
Qed.

(* the decoder never crashes: every byte list gives a value or the library's error *)
Lemma unpackB128_loop_clean fuel acc data :
  match unpackB128_loop fuel acc data with Ok _ => True | Err e => e = LibError end.
Proof.
  revert acc data. induction fuel as [|f IH]; intros acc data; cbn; [reflexivity|].
  destruct data as [|c r]; [reflexivity|].
  destruct (negb (Z.land acc 4261412864 =? 0)); [reflexivity|].
  destruct (Z.land c 128 =? 0); [exact I|apply IH].
Qed.
Theorem unpackBase128_clean data :
  match unpackBase128 data with Ok _ => True | Err e => e = LibError end.
Proof.
  unfold unpackBase128. destruct data as [|b0 r]; [reflexivity|].
  destruct (b0 =? 128); [reflexivity|apply unpackB128_loop_clean].
Qed.

(* ---------- uint32var ---------- *)
Lemma lor_const v c k : 0 <= k -> 0 <= v < 2 ^ k -> Z.lor v (Z.shiftl c k) = c * 2 ^ k + v.
Proof. intros. rewrite Z.lor_comm. apply lor_shiftl_add; assumption. Qed.

Lemma lor_shl8 a b : 0 <= b < 256 -> Z.lor (Z.shiftl a 8) b = a * 256 + b.
Proof. intros. apply (lor_shiftl_add a b 8); [lia|exact H]. Qed.

Lemma lor3 a b c : 0 <= b < 256 -> 0 <= c < 256 ->
  Z.lor (Z.lor (Z.shiftl a 16) (Z.shiftl b 8)) c = a * 65536 + b * 256 + c.
Proof.
  intros Hb Hc.
  assert (E: Z.lor (Z.shiftl a 16) (Z.shiftl b 8) = Z.shiftl (a * 256 + b) 8).
  { rewrite <- (lor_shl8 a b Hb). rewrite Z.shiftl_lor. rewrite Z.shiftl_shiftl by lia. reflexivity. }
  rewrite E. rewrite lor_shl8 by exact Hc. ring.
Qed.
Lemma lor4 a b c d : 0 <= b < 256 -> 0 <= c < 256 -> 0 <= d < 256 ->
  Z.lor (Z.lor (Z.lor (Z.shiftl a 24) (Z.shiftl b 16)) (Z.shiftl c 8)) d
  = a * 16777216 + b * 65536 + c * 256 + d.
Proof.
  intros Hb Hc Hd.
  assert (E: Z.lor (Z.lor (Z.shiftl a 24) (Z.shiftl b 16)) (Z.shiftl c 8)
             = Z.shiftl (a * 65536 + b * 256 + c) 8).
  { rewrite <- (lor3 a b c Hb Hc). rewrite !Z.shiftl_lor. rewrite !Z.shiftl_shiftl by lia. reflexivity. }
  rewrite E. rewrite lor_shl8 by exact Hd. ring.
Qed.
Lemma lor5 a b c d e : 0 <= b < 256 -> 0 <= c < 256 -> 0 <= d < 256 -> 0 <= e < 256 ->
  Z.lor (Z.lor (Z.lor (Z.lor (Z.shiftl a 32) (Z.shiftl b 24)) (Z.shiftl c 16)) (Z.shiftl d 8)) e
  = a * 4294967296 + b * 16777216 + c * 65536 + d * 256 + e.
Proof.
  intros Hb Hc Hd He.
  assert (E: Z.lor (Z.lor (Z.lor (Z.shiftl a 32) (Z.shiftl b 24)) (Z.shiftl c 16)) (Z.shiftl d 8)
             = Z.shiftl (a * 16777216 + b * 65536 + c * 256 + d) 8).
  { rewrite <- (lor4 a b c d Hb Hc Hd). rewrite !Z.shiftl_lor. rewrite !Z.shiftl_shiftl by lia. reflexivity. }
  rewrite E. rewrite lor_shl8 by exact He. ring.
Qed.

Theorem uint32var_roundtrip v bs rest :
  write_uint32var v = Ok bs -> read_uint32var (bs ++ rest) = Ok (v, rest).
Proof.
  unfold write_uint32var. intros H.
  destruct (v <? 0) eqn:E0; [discriminate|].
  destruct (v <? 128) eqn:E1.
  { inversion H; subst; clear H. cbn [app read_uint32var]. rewrite E1. reflexivity. }
  destruct (v <? 16384) eqn:E2.
  { inversion H; subst; clear H.
    change 32768 with (Z.shiftl 1 15). rewrite lor_const by (change (2^15) with 32768; lia).
    change (2^15) with 32768. rewrite pack_be_2. cbn [app read_uint32var].
    set (x := 1 * 32768 + v).
    assert (B1: 0 <= x mod 256 < 256) by (apply Z.mod_pos_bound; lia).
    replace ((x / 256) mod 256 <? 128) with false by (unfold x; lia).
    replace ((x / 256) mod 256 <? 192) with true by (unfold x; lia).
    rewrite lor_shl8 by exact B1. do 2 f_equal. unfold x. lia. }
  destruct (v <? 2097152) eqn:E3.
  { inversion H; subst; clear H.
    change 12582912 with (Z.shiftl 3 22). rewrite lor_const by (change (2^22) with 4194304; lia).
    change (2^22) with 4194304. rewrite pack_be_3. cbn [app read_uint32var].
    set (x := 3 * 4194304 + v).
    assert (B1: 0 <= x mod 256 < 256) by (apply Z.mod_pos_bound; lia).
    assert (B2: 0 <= (x / 256) mod 256 < 256) by (apply Z.mod_pos_bound; lia).
    replace ((x / 65536) mod 256 <? 128) with false by (unfold x; lia).
    replace ((x / 65536) mod 256 <? 192) with false by (unfold x; lia).
    replace ((x / 65536) mod 256 <? 224) with true by (unfold x; lia).
    rewrite lor3 by assumption. do 2 f_equal. unfold x. lia. }
  destruct (v <? 268435456) eqn:E4.
  { inversion H; subst; clear H.
    change 3758096384 with (Z.shiftl 7 29). rewrite lor_const by (change (2^29) with 536870912; lia).
    change (2^29) with 536870912. rewrite pack_be_4. cbn [app read_uint32var].
    set (x := 7 * 536870912 + v).
    assert (B1: 0 <= x mod 256 < 256) by (apply Z.mod_pos_bound; lia).
    assert (B2: 0 <= (x / 256) mod 256 < 256) by (apply Z.mod_pos_bound; lia).
    assert (B3: 0 <= (x / 65536) mod 256 < 256) by (apply Z.mod_pos_bound; lia).
    replace ((x / 16777216) mod 256 <? 128) with false by (unfold x; lia).
    replace ((x / 16777216) mod 256 <? 192) with false by (unfold x; lia).
    replace ((x / 16777216) mod 256 <? 224) with false by (unfold x; lia).
    replace ((x / 16777216) mod 256 <? 240) with true by (unfold x; lia).
    rewrite lor4 by assumption. do 2 f_equal. unfold x. lia. }
  destruct (v <? 4294967296) eqn:E5; [|discriminate].
  inversion H; subst; clear H. rewrite pack_be_4. cbn [app read_uint32var].
  cbn [Z.ltb Z.compare Pos.compare Pos.compare_cont].
  assert (B1: 0 <= v mod 256 < 256) by (apply Z.mod_pos_bound; lia).
  assert (B2: 0 <= (v / 256) mod 256 < 256) by (apply Z.mod_pos_bound; lia).
  assert (B3: 0 <= (v / 65536) mod 256 < 256) by (apply Z.mod_pos_bound; lia).
  assert (B4: 0 <= (v / 16777216) mod 256 < 256) by (apply Z.mod_pos_bound; lia).
  rewrite lor5 by assumption. do 2 f_equal. lia.
Qed.

(* ---------- eexec ---------- *)
Lemma lxor_mask_involutive p k : 0 <= p < 256 ->
  Z.land (Z.lxor (Z.land (Z.lxor p k) 255) k) 255 = p.
Proof.
  intros Hp. change 255 with (Z.ones 8). apply Z.bits_inj'. intros n Hn.
  rewrite !Z.land_spec, !Z.lxor_spec, Z.land_spec, Z.lxor_spec.
  destruct (Z.lt_ge_cases n 8) as [L|G].
  - rewrite Z.ones_spec_low by lia. rewrite !andb_true_r.
    destruct (Z.testbit p n), (Z.testbit k n); reflexivity.
  - rewrite Z.ones_spec_high by lia. rewrite !andb_false_r.
    destruct (Z.eq_dec p 0) as [->|NZ]; [rewrite Z.bits_0; reflexivity|].
    symmetry. apply Z.bits_above_log2; [lia|].
    apply Z.log2_lt_pow2; [lia|]. apply Z.lt_le_trans with (2^8); [change (2^8) with 256; lia|].
    apply Z.pow_le_mono_r; lia.
Qed.

Theorem eexec_decrypt_encrypt ps : forall R, Forall is_byte ps ->
  decrypt (fst (encrypt ps R)) R = (ps, snd (encrypt ps R)).
Proof.
  induction ps as [|p r IH]; intros R Hb; [reflexivity|].
  inversion Hb as [|? ? Hp Hr]; subst.
  cbn [encrypt encryptChar].
  set (c := Z.land (Z.lxor p (Z.shiftr R 8)) 255).
  set (R' := Z.land ((c + R) * 52845 + 22719) 65535).
  specialize (IH R' Hr).
  destruct (encrypt r R') as [cs R''] eqn:Eenc. cbn [fst snd] in *.
  cbn [decrypt decryptChar]. fold R'. rewrite IH.
  unfold c. rewrite lxor_mask_involutive by exact Hp. reflexivity.
Qed.

Theorem eexec_encrypt_decrypt cs : forall R, Forall is_byte cs ->
  encrypt (fst (decrypt cs R)) R = (cs, snd (decrypt cs R)).
Proof.
  induction cs as [|c r IH]; intros R Hb; [reflexivity|].
  inversion Hb as [|? ? Hc Hr]; subst.
  cbn [decrypt decryptChar].
  set (R' := Z.land ((c + R) * 52845 + 22719) 65535).
  specialize (IH R' Hr).
  destruct (decrypt r R') as [ps R''] eqn:Edec. cbn [fst snd] in *.
  cbn [encrypt encryptChar]. rewrite lxor_mask_involutive by exact Hc. fold R'. rewrite IH.
  reflexivity.
Qed.
