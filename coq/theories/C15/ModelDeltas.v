(* C15/ModelDeltas.v — packed deltas of gvar/cvar tuples: TupleVariation.compileDeltaValues_ (optimizeSize=True, TupleVariation.py:346-526)
   and decompileDeltas_ (528-557) *)
From Coq Require Import ZArith List Bool Lia.
From FV Require Import Base.Ser Base.Res Base.Bits Base.BE Base.ListX.
Import ListNotations.
Open Scope Z_scope.

Definition in8 (v : Z) : bool := (-128 <=? v) && (v <=? 127).
Definition in16 (v : Z) : bool := (-32768 <=? v) && (v <=? 32767).
Definition in32 (v : Z) : bool := (-2147483648 <=? v) && (v <=? 2147483647).
Definition DELTAS_ARE_ZERO := 128. Definition DELTAS_ARE_WORDS := 64. Definition DELTAS_ARE_LONGS := 192. Definition DELTAS_ARE_BYTES := 0.

(* the four encodeDeltaRunAs*_ scanners: the run they take and what is left *)
Fixpoint zero_run (ds : list Z) : list Z * list Z :=
  match ds with
  | v :: r => if v =? 0 then let '(a, b) := zero_run r in (v :: a, b) else ([], ds)
  | [] => ([], [])
  end.
Definition next_is (p : Z -> bool) (r : list Z) : bool := match r with w :: _ => p w | [] => false end.
Fixpoint byte_run (ds : list Z) : list Z * list Z :=
  match ds with
  | v :: r => if negb (in8 v) then ([], ds)
              else if (v =? 0) && next_is (fun w => w =? 0) r then ([], ds)
              else let '(a, b) := byte_run r in (v :: a, b)
  | [] => ([], [])
  end.
Fixpoint word_run (ds : list Z) : list Z * list Z :=
  match ds with
  | v :: r => if v =? 0 then ([], ds)
              else if in8 v && next_is in8 r then ([], ds)
              else if negb (in16 v) then ([], ds)
              else let '(a, b) := word_run r in (v :: a, b)
  | [] => ([], [])
  end.
Fixpoint long_run (ds : list Z) : list Z * list Z :=
  match ds with
  | v :: r => if in16 v then ([], ds) else let '(a, b) := long_run r in (v :: a, b)
  | [] => ([], [])
  end.

(* a run is written in chunks of at most 64 values: header = kind | (count - 1), then the values big-endian in `width` bytes *)
Fixpoint emit_chunks (fuel : nat) (kind : Z) (width : nat) (run : list Z) : list Z :=
  match fuel with
  | O => []
  | S f =>
      match run with
      | [] => []
      | _ => if (64 <=? Z.of_nat (length run))
             then Z.lor kind 63 :: flat_map (pack_be width) (firstn 64 run) ++ emit_chunks f kind width (skipn 64 run)
             else Z.lor kind (Z.of_nat (length run) - 1) :: flat_map (pack_be width) run
      end
  end.

Fixpoint compile_deltas (fuel : nat) (ds : list Z) : Res (list Z) :=
  match fuel with
  | O => Err OutOfFuel
  | S f =>
      match ds with
      | [] => Ok []
      | v :: _ =>
          let '(kind, width, (run, rest)) :=
            if v =? 0 then (DELTAS_ARE_ZERO, 0%nat, zero_run ds)
            else if in8 v then (DELTAS_ARE_BYTES, 1%nat, byte_run ds)
            else if in16 v then (DELTAS_ARE_WORDS, 2%nat, word_run ds)
            else (DELTAS_ARE_LONGS, 4%nat, long_run ds) in
          if negb (forallb in32 run) then Err OverflowError          (* array('i') refuses values outside int32 *)
          else let* t := compile_deltas f rest in Ok (emit_chunks (S (length run)) kind width run ++ t)
      end
  end.
Definition compileDeltaValues (ds : list Z) : Res (list Z) := compile_deltas (S (length ds)) ds.

(* decompileDeltas_(numDeltas, data): read runs until numDeltas values are there *)
Fixpoint read_vals (n : nat) (width : nat) (data : list Z) : option (list Z * list Z) :=
  match n with
  | O => Some ([], data)
  | S k => match take_be width data with
           | Some (u, r) => match read_vals k width r with
                            | Some (vs, r') => Some (to_signed (8 * Z.of_nat width) u :: vs, r')
                            | None => None end
           | None => None
           end
  end.
Fixpoint decompile_deltas (fuel : nat) (need : nat) (data : list Z) (acc : list Z) : Res (list Z * list Z) :=
  match fuel with
  | O => Err OutOfFuel
  | S f =>
      if (need <=? length acc)%nat then (if Nat.eqb (length acc) need then Ok (acc, data) else Err AssertionError)
      else match data with
           | [] => Err IndexError
           | h :: r =>
               let n := Z.to_nat (Z.land h 63 + 1) in
               let kind := Z.land h 192 in
               if kind =? DELTAS_ARE_ZERO then decompile_deltas f need r (acc ++ repeat 0 n)
               else
                 let width := if kind =? DELTAS_ARE_LONGS then 4%nat else if kind =? DELTAS_ARE_WORDS then 2%nat else 1%nat in
                 match read_vals n width r with
                 | Some (vs, r') => decompile_deltas f need r' (acc ++ vs)
                 | None =>
                     (* a short payload: array.frombytes refuses a partial item, otherwise len(deltas) != numDeltasInRun *)
                     if (Z.of_nat (length r) mod Z.of_nat width =? 0) then Err AssertionError else Err ValueError
                 end
           end
  end.
Definition decompileDeltas (need : nat) (data : list Z) : Res (list Z * list Z) := decompile_deltas (S (length data)) need data [].


