(* C15/Registry.v — entry points used by the correspondence check *)
From Coq Require Import ZArith List String.
From FV Require Import Base.Ser Base.Res C15.Model C15.ModelDeltas C15.ModelPoints C15.ModelTags C15.ModelSstruct.
Import ListNotations.
Open Scope string_scope.

Definition reg : registry := [
  ("encodeInt", run2 encodeInt);
  ("readNumber", run2 readNumber);
  ("encodeFixedNum", run1 encodeFixedNum);
  ("pack255UShort", run1 pack255UShort);
  ("unpack255UShort", run1 unpack255UShort);
  ("packBase128", run1 packBase128);
  ("unpackBase128", run1 unpackBase128);
  ("base128Size", run1 base128Size);
  ("write_uint32var", run1 write_uint32var);
  ("read_uint32var", run1 read_uint32var);
  ("decrypt", run2 decrypt);
  ("encrypt", run2 encrypt);
  ("compileDeltaValues", run1 compileDeltaValues);
  ("decompileDeltas", run2 decompileDeltas);
  ("compilePoints", run1 compilePoints);
  ("decompilePoints", run1 decompilePoints);
  ("tagToIdentifier", run1 tagToIdentifier);
  ("identifierToTag", run1 identifierToTag);
  ("sstruct_pack", run2 sstruct_pack);
  ("sstruct_unpack", run2 sstruct_unpack);
  ("sstruct_calcsize", run1 sstruct_calcsize)
].
Definition fv_entry := dispatch reg.
