(* C15/Model.v — definitions only (no proofs): transcriptions of the low-level codecs.
   Each definition names the Python it transcribes. *)
From Coq Require Import ZArith List Bool.
From FV Require Import Base.Ser Base.Res Base.BE.
Import ListNotations.
Open Scope Z_scope.

(* ---------- misc/psCharStrings.py:197-254 getIntEncoder ---------- *)
Inductive intfmt := FmtT2 | FmtCFF | FmtT1.
Definition intfmt_of_Z (z : Z) : intfmt := if z =? 0 then FmtT2 else if z =? 1 then FmtCFF else FmtT1.
Global Instance De_intfmt : De intfmt :=
  fun l => match l with x :: r => Some (intfmt_of_Z x, r) | [] => None end.

Definition in_i32 (v : Z) : bool := (-2147483648 <=? v) && (v <=? 2147483647).

(* struct.pack(">l", v): struct.error outside int32 *)
Definition pack_i32 (v : Z) : Res (list Z) := if in_i32 v then Ok (pack_be 4 v) else Err StructError.

Definition encodeInt (fmt : intfmt) (value : Z) : Res (list Z) :=
  if (-107 <=? value) && (value <=? 107) then Ok [value + 139]
  else if (108 <=? value) && (value <=? 1131) then
    let w := value - 108 in Ok [Z.shiftr w 8 + 247; Z.land w 255]
  else if (-1131 <=? value) && (value <=? -108) then
    let w := - value - 108 in Ok [Z.shiftr w 8 + 251; Z.land w 255]
  else
    let twoByte := match fmt with FmtT1 => false | _ => true end in
    if twoByte && (-32768 <=? value) && (value <=? 32767) then
      Ok (28 :: pack_be 2 value)
    else
      match fmt with
      | FmtT2 => let* b := pack_i32 value in Ok (255 :: b)   (* the "backwards compatible hack" *)
      | FmtCFF => let* b := pack_i32 value in Ok (29 :: b)
      | FmtT1 => let* b := pack_i32 value in Ok (255 :: b)
      end.

(* Number read by the operand readers (psCharStrings.py:32-60, tables 87-103).
   A T2 byte 255 starts a 16.16 fixed: the value is returned as the raw int32 numerator
   with [isfixed = true] (the float is numerator / 65536, exact in binary64). *)
Inductive num := NInt (v : Z) | NFixed (numerator : Z).
Global Instance Ser_num : Ser num :=
  fun n => match n with NInt v => [0; v] | NFixed v => [1; v] end.

Definition read_be_signed (n : nat) (bs : list Z) : Res (Z * list Z) :=
  match take_be n bs with
  | Some (u, r) => Ok (to_signed (8 * Z.of_nat n) u, r)
  | None => Err StructError      (* struct.unpack on a short slice *)
  end.

Definition readNumber (fmt : intfmt) (bs : list Z) : Res (num * list Z) :=
  match bs with
  | [] => Err IndexError
  | b0 :: rest =>
    if (32 <=? b0) && (b0 <=? 246) then Ok (NInt (b0 - 139), rest)
    else if (247 <=? b0) && (b0 <=? 250) then
      match rest with b1 :: r => Ok (NInt ((b0 - 247) * 256 + b1 + 108), r) | [] => Err IndexError end
    else if (251 <=? b0) && (b0 <=? 254) then
      match rest with b1 :: r => Ok (NInt (- (b0 - 251) * 256 - b1 - 108), r) | [] => Err IndexError end
    else if (b0 =? 28) && (match fmt with FmtT1 => false | _ => true end) then
      let* (v, r) := read_be_signed 2 rest in Ok (NInt v, r)
    else if (b0 =? 29) && (match fmt with FmtCFF => true | _ => false end) then
      let* (v, r) := read_be_signed 4 rest in Ok (NInt v, r)
    else if b0 =? 255 then
      match fmt with
      | FmtT1 => let* (v, r) := read_be_signed 4 rest in Ok (NInt v, r)
      | FmtT2 => let* (v, r) := read_be_signed 4 rest in Ok (NFixed v, r)
      | FmtCFF => Err ValueError   (* read_reserved: not a number *)
      end
    else Err ValueError             (* an operator byte, not an operand *)
  end.

(* psCharStrings.py:257-263 encodeFixed on the 16.16 numerator (floatToFixed is exact on the grid) *)
Definition encodeFixedNum (value : Z) : Res (list Z) :=
  if Z.land value 65535 =? 0 then encodeInt FmtT2 (Z.shiftr value 16)
  else let* b := pack_i32 value in Ok (255 :: b).

(* ---------- ttLib/woff2.py:1430-1495 255UInt16 ---------- *)
Definition pack255UShort (value : Z) : Res (list Z) :=
  if (value <? 0) || (65535 <? value) then Err LibError
  else if value <? 253 then Ok [value]
  else if value <? 506 then Ok [255; value - 253]
  else if value <? 762 then Ok [254; value - 506]
  else Ok (253 :: pack_be 2 value).

Definition unpack255UShort (data : list Z) : Res (Z * list Z) :=
  match data with
  | [] => Err TypeError            (* byteord(b"") : ord() of an empty bytes object *)
  | code :: data =>
    if code =? 253 then
      match data with
      | b1 :: b2 :: r => Ok (b1 * 256 + b2, r)
      | _ => Err LibError
      end
    else if code =? 254 then
      match data with b :: r => Ok (b + 506, r) | [] => Err LibError end
    else if code =? 255 then
      match data with b :: r => Ok (b + 253, r) | [] => Err LibError end
    else Ok (code, data)
  end.

(* ---------- ttLib/woff2.py:1345-1425 UIntBase128 ---------- *)
Fixpoint unpackB128_loop (fuel : nat) (result : Z) (data : list Z) : Res (Z * list Z) :=
  match fuel with
  | O => Err LibError                        (* longer than 5 bytes *)
  | S f =>
    match data with
    | [] => Err LibError
    | code :: rest =>
      if negb (Z.land result 4261412864 =? 0) then Err LibError     (* 0xFE000000 *)
      else
        let result' := Z.lor (Z.shiftl result 7) (Z.land code 127) in
        if Z.land code 128 =? 0 then Ok (result', rest)
        else unpackB128_loop f result' rest
    end
  end.

Definition unpackBase128 (data : list Z) : Res (Z * list Z) :=
  match data with
  | [] => Err LibError
  | b0 :: _ => if b0 =? 128 then Err LibError else unpackB128_loop 5 0 data
  end.

Fixpoint base128Size_aux (fuel : nat) (n : Z) : nat :=
  match fuel with
  | O => 1%nat
  | S f => if 128 <=? n then S (base128Size_aux f (Z.shiftr n 7)) else 1%nat
  end.
Definition base128Size (n : Z) : nat := base128Size_aux 10 n.

(* bytes for i = size-k .. size-1  (k groups remain) *)
Fixpoint packB128_groups (k : nat) (n : Z) : list Z :=
  match k with
  | O => []
  | S j =>
    let b := Z.land (Z.shiftr n (7 * Z.of_nat j)) 127 in
    (match j with O => b | _ => Z.lor b 128 end) :: packB128_groups j n
  end.

Definition packBase128 (n : Z) : Res (list Z) :=
  if (n <? 0) || (4294967296 <=? n) then Err LibError
  else Ok (packB128_groups (base128Size n) n).

(* ---------- ttLib/tables/otTables.py:117-155 uint32var ---------- *)
Definition write_uint32var (v : Z) : Res (list Z) :=
  if v <? 0 then Err StructError
  else if v <? 128 then Ok [v]
  else if v <? 16384 then Ok (pack_be 2 (Z.lor v 32768))
  else if v <? 2097152 then Ok (pack_be 3 (Z.lor v 12582912))
  else if v <? 268435456 then Ok (pack_be 4 (Z.lor v 3758096384))
  else if v <? 4294967296 then Ok (240 :: pack_be 4 v)
  else Err StructError.

Definition read_uint32var (data : list Z) : Res (Z * list Z) :=
  match data with
  | [] => Err IndexError
  | b0 :: r =>
    if b0 <? 128 then Ok (b0, r)
    else if b0 <? 192 then
      match r with b1 :: r' => Ok (Z.lor (Z.shiftl (b0 - 128) 8) b1, r') | _ => Err IndexError end
    else if b0 <? 224 then
      match r with b1 :: b2 :: r' =>
        Ok (Z.lor (Z.lor (Z.shiftl (b0 - 192) 16) (Z.shiftl b1 8)) b2, r') | _ => Err IndexError end
    else if b0 <? 240 then
      match r with b1 :: b2 :: b3 :: r' =>
        Ok (Z.lor (Z.lor (Z.lor (Z.shiftl (b0 - 224) 24) (Z.shiftl b1 16)) (Z.shiftl b2 8)) b3, r')
      | _ => Err IndexError end
    else
      match r with b1 :: b2 :: b3 :: b4 :: r' =>
        Ok (Z.lor (Z.lor (Z.lor (Z.lor (Z.shiftl (b0 - 240) 32) (Z.shiftl b1 24)) (Z.shiftl b2 16))
                     (Z.shiftl b3 8)) b4, r')
      | _ => Err IndexError end
  end.

(* ---------- misc/eexec.py ---------- *)
Definition decryptChar (cipher R : Z) : Z * Z :=
  (Z.land (Z.lxor cipher (Z.shiftr R 8)) 255, Z.land ((cipher + R) * 52845 + 22719) 65535).
Definition encryptChar (plain R : Z) : Z * Z :=
  let cipher := Z.land (Z.lxor plain (Z.shiftr R 8)) 255 in
  (cipher, Z.land ((cipher + R) * 52845 + 22719) 65535).

Fixpoint decrypt (cs : list Z) (R : Z) : list Z * Z :=
  match cs with
  | [] => ([], R)
  | c :: r => let '(p, R') := decryptChar c R in let '(ps, R'') := decrypt r R' in (p :: ps, R'')
  end.
Fixpoint encrypt (ps : list Z) (R : Z) : list Z * Z :=
  match ps with
  | [] => ([], R)
  | p :: r => let '(c, R') := encryptChar p R in let '(cs, R'') := encrypt r R' in (c :: cs, R'')
  end.
