(* C15/Props.v — the property theorems, nothing else.  Each is closed by [exact] of a lemma of
   Proofs.v and followed by Print Assumptions (parsed by the harness on every run). *)
From Coq Require Import ZArith List.
From FV Require Import Base.Res Base.BE C15.Model C15.Proofs C15.ModelDeltas C15.ProofsDeltas C15.ModelPoints C15.ProofsPoints C15.ModelTags C15.ProofsTags C15.ModelSstruct C15.ProofsSstruct.
From Coq Require Import QArith Qabs.
From FV Require Data.Data_sstruct.
Import ListNotations.
Open Scope Z_scope.

(* CFF / Type 2 / Type 1 integer operands: decode (encode v) = v on each format's integer range *)
Theorem int_roundtrip : forall fmt v bs rest,
  int_domain fmt v -> encodeInt fmt v = Ok bs -> readNumber fmt (bs ++ rest) = Ok (NInt v, rest).
Proof. exact Proofs.int_roundtrip. Qed.
Print Assumptions int_roundtrip.

(* 16.16 operands: every int32 numerator survives (integral values take the short integer form) *)
Theorem fixed_roundtrip : forall n bs rest,
  -2147483648 <= n <= 2147483647 -> encodeFixedNum n = Ok bs ->
  exists x, readNumber FmtT2 (bs ++ rest) = Ok (x, rest) /\ num_value16 x = n.
Proof. exact Proofs.fixed_roundtrip. Qed.
Print Assumptions fixed_roundtrip.

Theorem u255_roundtrip : forall v bs rest,
  pack255UShort v = Ok bs -> unpack255UShort (bs ++ rest) = Ok (v, rest).
Proof. exact Proofs.u255_roundtrip. Qed.
Print Assumptions u255_roundtrip.

Theorem base128_roundtrip : forall n bs rest,
  packBase128 n = Ok bs -> unpackBase128 (bs ++ rest) = Ok (n, rest).
Proof. exact Proofs.base128_roundtrip. Qed.
Print Assumptions base128_roundtrip.

Theorem unpackBase128_clean : forall data,
  match unpackBase128 data with Ok _ => True | Err e => e = LibError end.
Proof. exact Proofs.unpackBase128_clean. Qed.
Print Assumptions unpackBase128_clean.

Theorem uint32var_roundtrip : forall v bs rest,
  write_uint32var v = Ok bs -> read_uint32var (bs ++ rest) = Ok (v, rest).
Proof. exact Proofs.uint32var_roundtrip. Qed.
Print Assumptions uint32var_roundtrip.

Theorem eexec_decrypt_encrypt : forall ps R, Forall is_byte ps ->
  decrypt (fst (encrypt ps R)) R = (ps, snd (encrypt ps R)).
Proof. exact Proofs.eexec_decrypt_encrypt. Qed.
Print Assumptions eexec_decrypt_encrypt.

Theorem eexec_encrypt_decrypt : forall cs R, Forall is_byte cs ->
  encrypt (fst (decrypt cs R)) R = (cs, snd (decrypt cs R)).
Proof. exact Proofs.eexec_encrypt_decrypt. Qed.
Print Assumptions eexec_encrypt_decrypt.

(* packed deltas (gvar/cvar run-length format, optimizeSize=True): whatever compiles decodes back to itself, consuming exactly the
   bytes written -- zero, byte, word and long runs, runs longer than 64, every mixture *)
Theorem deltas_roundtrip : forall ds bytes, compileDeltaValues ds = Ok bytes -> decompileDeltas (length ds) bytes = Ok (ds, []).
Proof. exact ProofsDeltas.deltas_roundtrip. Qed.
Print Assumptions deltas_roundtrip.

(* ... and every list of int32 values compiles *)
Theorem deltas_roundtrip_total : forall ds, forallb in32 ds = true ->
  exists bytes, compileDeltaValues ds = Ok bytes /\ decompileDeltas (length ds) bytes = Ok (ds, []).
Proof. exact ProofsDeltas.deltas_roundtrip_total. Qed.
Print Assumptions deltas_roundtrip_total.

(* packed point numbers (gvar/cvar): an explicit, sorted point set that compiles decodes back to itself, consuming exactly the bytes
   written -- byte runs, word runs, runs of more than 128 points; more than 32767 points (the count has 15 bits) are refused *)
Theorem points_roundtrip : forall pts bytes, pts <> [] ->
  compilePoints pts = Ok bytes -> decompilePoints bytes = Ok (Some pts, []).
Proof. exact ProofsPoints.points_roundtrip. Qed.
Print Assumptions points_roundtrip.
Example points_example : compilePoints [17; 18; 19; 20; 21; 22; 23] = Ok [7; 6; 17; 1; 1; 1; 1; 1; 1] /\
  compilePoints [3; 300; 301; 60000] = Ok [4; 0; 3; 130; 1; 41; 0; 1; 233; 51].
Proof. split; vm_compute; reflexivity. Qed.

(* table tags as identifiers (module and file names): every four-character tag over code points 16..255 -- lower/upper case, digits,
   trailing and inner spaces, escaped characters, a leading escaped digit -- comes back from identifierToTag (tagToIdentifier tag) *)
Theorem tag_identifier_roundtrip : forall a b c d, Forall (fun x => 16 <= x < 256) [a; b; c; d] ->
  exists ident, tagToIdentifier [a; b; c; d] = Ok ident /\ identifierToTag ident = Ok [a; b; c; d].
Proof. exact ProofsTags.tag_identifier_roundtrip. Qed.
Print Assumptions tag_identifier_roundtrip.

(* misc/sstruct.py over ANY format descriptor (integers of 1/2/4/8 bytes, fixed-point fields, bytes, strings, truth values, pad
   bytes): whatever pack accepts, unpack reads back as the written values — fixed-point values as the grid value they were
   rounded to, strings cut or NUL-padded to their width, truth values as 0/1 ([canon]) *)
Theorem sstruct_roundtrip : forall fmt vals bs,
  ModelSstruct.pack fmt vals = Ok bs -> ModelSstruct.unpack fmt bs = Ok (canon fmt vals).
Proof. exact ProofsSstruct.sstruct_roundtrip. Qed.
Print Assumptions sstruct_roundtrip.

(* ... and a value that lies on its field's grid comes back unchanged, for every format string of Lib/fontTools (the
   descriptors are regenerated from the source on every run) *)
Theorem sstruct_library_roundtrip : forall d vals bs, In d Data_sstruct.sstruct_formats ->
  exact (map kind_of d) vals -> ModelSstruct.pack (map kind_of d) vals = Ok bs ->
  ModelSstruct.unpack (map kind_of d) bs = Ok vals.
Proof. exact ProofsSstruct.library_roundtrip. Qed.
Print Assumptions sstruct_library_roundtrip.

(* a record occupies exactly calcsize bytes *)
Theorem sstruct_size : forall fmt vals bs, ModelSstruct.pack fmt vals = Ok bs -> length bs = calcsize fmt.
Proof. exact ProofsSstruct.pack_length. Qed.
Print Assumptions sstruct_size.

(* a fixed-point field stores the nearest grid value: never more than half a unit (2^-(A+1)) from what was asked *)
Theorem sstruct_fixed_nearest : forall q a, 0 <= a ->
  (Qabs (fi2fl (fl2fi q a) a - q) <= 1 # (2 * Z.to_pos (2 ^ a)))%Q.
Proof. exact ProofsSstruct.fixed_nearest. Qed.
Print Assumptions sstruct_fixed_nearest.

(* ... and the other way round: whatever unpack reads from a record of bytes, pack writes back as the same bytes — exactly, for
   a format without pad bytes and truth-value fields; otherwise with pad bytes zeroed and truth values made 0/1 ([normalize]) *)
From FV Require C15.ProofsSstruct2.
Theorem sstruct_unpack_pack : forall fmt bs vals, fmt_ok fmt = true -> Forall is_byte bs ->
  ModelSstruct.unpack fmt bs = Ok vals -> ModelSstruct.pack fmt vals = Ok (ProofsSstruct2.normalize fmt bs).
Proof. exact ProofsSstruct2.sstruct_unpack_pack. Qed.
Print Assumptions sstruct_unpack_pack.

Theorem sstruct_normalize_plain : forall fmt bs, forallb ProofsSstruct2.plain_kind fmt = true ->
  length bs = calcsize fmt -> ProofsSstruct2.normalize fmt bs = bs.
Proof. exact ProofsSstruct2.normalize_plain. Qed.
Print Assumptions sstruct_normalize_plain.

(* a record of exactly calcsize bytes always unpacks, whatever the bytes (the only failure of unpack is a wrong length) *)
Theorem sstruct_unpack_total : forall fmt bs, fmt_ok fmt = true -> length bs = calcsize fmt ->
  exists vals, ModelSstruct.unpack fmt bs = Ok vals.
Proof. exact ProofsSstruct2.sstruct_unpack_total. Qed.
Print Assumptions sstruct_unpack_total.
