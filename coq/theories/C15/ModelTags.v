(* C15/ModelTags.v — table tags as identifiers: ttLib/ttFont.py tagToIdentifier (1530-1562) / identifierToTag (1565-1584) /
   _escapechar (1516-1527). Strings are lists of code points. *)
From Coq Require Import ZArith List Bool Lia.
From FV Require Import Base.Ser Base.Res Base.Bits.
Import ListNotations.
Open Scope Z_scope.

Definition is_lower_or_digit (c : Z) : bool := ((97 <=? c) && (c <=? 122)) || ((48 <=? c) && (c <=? 57)).
Definition is_upper (c : Z) : bool := (65 <=? c) && (c <=? 90).
Definition is_digit (c : Z) : bool := (48 <=? c) && (c <=? 57).
Definition hexdigit (d : Z) : Z := if d <? 10 then 48 + d else 87 + d.            (* '0'..'9', 'a'..'f' *)
Definition hexstr (c : Z) : list Z := if c <? 16 then [hexdigit c] else [hexdigit (c / 16); hexdigit (c mod 16)].   (* hex(c)[2:], c < 256 *)
Definition escapechar (c : Z) : list Z :=
  if is_lower_or_digit c then [95; c] else if is_upper c then [c; 95] else hexstr c.

(* trailing spaces are trimmed, but never the last remaining character *)
Fixpoint strip_rev (r : list Z) : list Z :=
  match r with
  | c :: ((_ :: _) as t) => if c =? 32 then strip_rev t else r
  | _ => r
  end.
Definition strip_trailing (tag : list Z) : list Z := rev (strip_rev (rev tag)).

Definition tagToIdentifier (tag : list Z) : Res (list Z) :=
  if negb (Nat.eqb (length tag) 4) then Err AssertionError
  else
    let ident := flat_map escapechar (strip_trailing tag) in
    Ok (match ident with c :: _ => if is_digit c then 95 :: ident else ident | [] => ident end).

Definition unhex (d : Z) : option Z :=
  if (48 <=? d) && (d <=? 57) then Some (d - 48)
  else if (97 <=? d) && (d <=? 102) then Some (d - 87)
  else if (65 <=? d) && (d <=? 70) then Some (d - 55) else None.
Fixpoint unpairs (fuel : nat) (ident : list Z) : Res (list Z) :=
  match fuel with
  | O => Err OutOfFuel
  | S f =>
      match ident with
      | [] => Ok []
      | a :: b :: r =>
          let* t := unpairs f r in
          if a =? 95 then Ok (b :: t)
          else if b =? 95 then Ok (a :: t)
          else match unhex a, unhex b with Some x, Some y => Ok (16 * x + y :: t) | _, _ => Err ValueError end
      | _ => Err AssertionError
      end
  end.
Definition identifierToTag (ident : list Z) : Res (list Z) :=
  let ident' := match ident with c :: r => if (c =? 95) && Nat.odd (length ident) then r else ident | _ => ident end in
  if Nat.odd (length ident') then Err AssertionError
  else let* t := unpairs (S (length ident')) ident' in Ok (t ++ repeat 32 (4 - length t)).


