(* C15/ProofsSstruct2.v — the other direction: what unpack reads, pack writes back as the same bytes (pad bytes zeroed, truth
   values canonical) *)
From Coq Require Import ZArith QArith Qround List Bool Lia Arith.
From FV Require Import Base.Res Base.Bits Base.BE Base.ListX C15.ModelSstruct C15.ProofsSstruct.
Import ListNotations.
Open Scope Z_scope.
Local Arguments Z.mul : simpl never.
Local Arguments Z.pow : simpl never.

(* ---- big-endian: reading then writing ---- *)
Lemma pack_be_mod n : forall v, pack_be n (v mod 2 ^ (8 * Z.of_nat n)) = pack_be n v.
Proof.
  induction n as [|k IH]; intros v; [reflexivity|].
  unfold pack_be; fold pack_be.
  assert (P: 0 < 2 ^ (8 * Z.of_nat k)) by (apply Z.pow_pos_nonneg; lia).
  assert (E: 2 ^ (8 * Z.of_nat (S k)) = 2 ^ (8 * Z.of_nat k) * 256).
  { replace (8 * Z.of_nat (S k)) with (8 * Z.of_nat k + 8) by lia. rewrite Z.pow_add_r by lia. reflexivity. }
  f_equal.
  - rewrite !land_255, !Z.shiftr_div_pow2 by lia. rewrite E.
    rewrite Z.rem_mul_r by lia. rewrite (Z.mul_comm (2 ^ (8 * Z.of_nat k))).
    rewrite Z.div_add by lia. rewrite (Z.div_small (v mod 2 ^ (8 * Z.of_nat k))) by (apply Z.mod_pos_bound; lia).
    rewrite Z.add_0_l. apply Z.mod_mod. lia.
  - rewrite <- (IH (v mod 2 ^ (8 * Z.of_nat (S k)))), <- (IH v). f_equal. rewrite E.
    rewrite Z.rem_mul_r by lia. rewrite (Z.mul_comm (2 ^ (8 * Z.of_nat k))). rewrite Z.mod_add by lia. apply Z.mod_mod. lia.
Qed.

Lemma take_be_S k b rest : take_be (S k) (b :: rest) =
  match take_be k rest with Some (x, r') => Some (b * 2 ^ (8 * Z.of_nat k) + x, r') | None => None end.
Proof. reflexivity. Qed.
Lemma take_be_S_nil k : take_be (S k) [] = None.
Proof. reflexivity. Qed.

Lemma take_be_spec n : forall bs u r, Forall is_byte bs -> take_be n bs = Some (u, r) ->
  bs = pack_be n u ++ r /\ 0 <= u < 2 ^ (8 * Z.of_nat n).
Proof.
  induction n as [|k IH]; intros bs u r F H.
  - unfold take_be in H. injection H as <- <-. cbn. split; [reflexivity|lia].
  - destruct bs as [|b rest]; [rewrite take_be_S_nil in H; discriminate|]. rewrite take_be_S in H.
    destruct (take_be k rest) as [[x r']|] eqn:T; [|discriminate]. injection H as <- <-.
    change (match Z.of_nat k with 0 => 0 | Z.pos y' => Z.pos y'~0~0~0 | Z.neg y' => Z.neg y'~0~0~0 end) with (8 * Z.of_nat k) in *.
    inversion F as [|? ? Bb Fr]; subst. destruct (IH _ _ _ Fr T) as [-> R]. unfold is_byte in Bb.
    assert (P: 0 < 2 ^ (8 * Z.of_nat k)) by (apply Z.pow_pos_nonneg; lia).
    assert (E: 2 ^ (8 * Z.of_nat (S k)) = 2 ^ (8 * Z.of_nat k) * 256).
    { replace (8 * Z.of_nat (S k)) with (8 * Z.of_nat k + 8) by lia. rewrite Z.pow_add_r by lia. reflexivity. }
    assert (M1: b * 2 ^ (8 * Z.of_nat k) <= 255 * 2 ^ (8 * Z.of_nat k)) by (apply Z.mul_le_mono_nonneg_r; lia).
    assert (M2: 0 <= b * 2 ^ (8 * Z.of_nat k)) by (apply Z.mul_nonneg_nonneg; lia).
    split; [|rewrite E; lia].
    unfold pack_be; fold pack_be. cbn [app]. f_equal.
    + rewrite land_255, Z.shiftr_div_pow2 by lia. rewrite Z.div_add_l by lia. rewrite (Z.div_small x) by lia.
      rewrite Z.add_0_r. rewrite Z.mod_small by lia. reflexivity.
    + f_equal. rewrite <- (pack_be_mod k (b * 2 ^ (8 * Z.of_nat k) + x)).
      rewrite Z.add_comm, Z.mod_add by lia. rewrite Z.mod_small by lia. reflexivity.
Qed.

Lemma pack_to_signed n u : (0 < n)%nat -> 0 <= u < 2 ^ (8 * Z.of_nat n) ->
  pack_be n (to_signed (8 * Z.of_nat n) u) = pack_be n u /\ int_range true n (to_signed (8 * Z.of_nat n) u) = true.
Proof.
  intros Hn Hu. unfold to_signed, int_range.
  assert (E: 2 ^ (8 * Z.of_nat n) = 2 * 2 ^ (8 * Z.of_nat n - 1)).
  { replace (8 * Z.of_nat n) with ((8 * Z.of_nat n - 1) + 1) at 1 by lia. rewrite Z.pow_add_r by lia. lia. }
  assert (P: 0 < 2 ^ (8 * Z.of_nat n - 1)) by (apply Z.pow_pos_nonneg; lia).
  destruct (Z.ltb_spec u (2 ^ (8 * Z.of_nat n - 1))).
  - split; [reflexivity|]. apply andb_true_iff. split; lia.
  - split.
    + rewrite <- (pack_be_mod n (u - 2 ^ (8 * Z.of_nat n))), <- (pack_be_mod n u). f_equal.
      replace (u - 2 ^ (8 * Z.of_nat n)) with (u + (-1) * 2 ^ (8 * Z.of_nat n)) by lia. apply Z.mod_add. lia.
    + apply andb_true_iff. split; lia.
Qed.

Definition byte_ok (fmt : list kind) : Prop := True.

(* what pack writes for the value unpack read from these bytes *)
Definition norm_field (k : kind) (b : list Z) : list Z :=
  match k, b with
  | KPad, [_] => [0]
  | KBool, [x] => [if x =? 0 then 0 else 1]
  | _, _ => b
  end.

Lemma byteb_of b : is_byte b -> byteb b = true.
Proof. unfold is_byte, byteb. lia. Qed.
Lemma forallb_byteb l : Forall is_byte l -> forallb byteb l = true.
Proof. induction 1 as [|x l Hx _ IH]; cbn; [reflexivity|]. rewrite (byteb_of x Hx), IH. reflexivity. Qed.

Lemma kind_ok_pos s n : kind_ok (KInt s n) = true -> (0 < n)%nat.
Proof. cbn. destruct n as [|[|[|[|[|[|[|[|[|?]]]]]]]]]; cbn; intros H; try discriminate; lia. Qed.
Lemma kind_ok_fix n a : kind_ok (KFix n a) = true -> (0 < n)%nat /\ 0 <= a.
Proof. cbn. intros H. apply andb_true_iff in H. destruct H as [H _]. apply andb_true_iff in H. destruct H as [H A].
  split; [|lia]. destruct n as [|[|[|[|[|?]]]]]; cbn in H; try discriminate; lia. Qed.

Lemma pack_unpack_field k bs ov rest : kind_ok k = true -> Forall is_byte bs ->
  unpack_field k bs = Some (ov, rest) ->
  exists b, bs = b ++ rest /\ length b = field_size k /\
    match ov with
    | Some v => k <> KPad /\ pack_field k v = Ok (norm_field k b)
    | None => k = KPad /\ norm_field k b = [0]
    end.
Proof.
  intros OK F H. destruct k; cbn [unpack_field] in H.
  - (* pad *) destruct bs as [|x r]; [discriminate|]. injection H as <- <-. exists [x]. repeat split.
  - (* char *) destruct bs as [|x r]; [discriminate|]. injection H as <- <-. exists [x]. split; [reflexivity|]. split; [reflexivity|].
    split; [discriminate|]. inversion F; subst. cbn [pack_field norm_field]. rewrite byteb_of by assumption. reflexivity.
  - (* int *) destruct (take_be n bs) as [[u r]|] eqn:T; [|discriminate]. injection H as <- <-.
    destruct (take_be_spec _ _ _ _ F T) as [-> R]. exists (pack_be n u). split; [reflexivity|]. split; [apply pack_be_length|].
    split; [discriminate|]. cbn [pack_field]. unfold pack_int.
    assert (NF: norm_field (KInt signed n) (pack_be n u) = pack_be n u) by reflexivity. rewrite NF.
    destruct signed.
    + destruct (pack_to_signed n u (kind_ok_pos _ _ OK) R) as [PB IR]. rewrite IR, PB. reflexivity.
    + assert (IR: int_range false n u = true) by (unfold int_range; apply andb_true_iff; split; lia). rewrite IR. reflexivity.
  - (* bool *) destruct bs as [|x r]; [discriminate|]. injection H as <- <-. exists [x]. split; [reflexivity|]. split; [reflexivity|].
    split; [discriminate|]. cbn [pack_field norm_field]. destruct (x =? 0); reflexivity.
  - (* str *) destruct (n <=? length bs)%nat eqn:LE; [|discriminate]. injection H as <- <-. apply Nat.leb_le in LE.
    exists (firstn n bs). split; [symmetry; apply firstn_skipn|]. split; [rewrite firstn_length; cbn; lia|].
    split; [discriminate|]. cbn [pack_field].
    assert (FB: Forall is_byte (firstn n bs)).
    { rewrite <- (firstn_skipn n bs) in F. apply Forall_app in F. tauto. }
    rewrite (forallb_byteb _ FB).
    assert (NF: norm_field (KStr n) (firstn n bs) = firstn n bs) by (destruct (firstn n bs) as [|? [|? ?]]; reflexivity). rewrite NF.
    f_equal. rewrite firstn_app, firstn_length. replace (n - Nat.min n (length bs))%nat with 0%nat by lia.
    cbn [firstn]. rewrite app_nil_r. apply firstn_all2. rewrite firstn_length. lia.
  - (* fixed *) destruct (take_be n bs) as [[u r]|] eqn:T; [|discriminate]. injection H as <- <-.
    destruct (take_be_spec _ _ _ _ F T) as [-> R]. exists (pack_be n u). split; [reflexivity|]. split; [apply pack_be_length|].
    split; [discriminate|]. cbn [pack_field]. destruct (kind_ok_fix _ _ OK) as [Pn Pa]. rewrite fl2fi_fi2fl by exact Pa.
    unfold pack_int. destruct (pack_to_signed n u Pn R) as [PB IR]. rewrite IR, PB.
    destruct (pack_be n u) as [|? [|? ?]]; reflexivity.
  - discriminate.
Qed.

Fixpoint normalize (fmt : list kind) (bs : list Z) : list Z :=
  match fmt with
  | [] => []
  | k :: r => norm_field k (firstn (field_size k) bs) ++ normalize r (skipn (field_size k) bs)
  end.

Lemma pack_unpack_fields fmt : forall bs vs rest, fmt_ok fmt = true -> Forall is_byte bs ->
  unpack_fields fmt bs = Some (vs, rest) ->
  exists b, bs = b ++ rest /\ length b = calcsize fmt /\ pack fmt vs = Ok (normalize fmt b).
Proof.
  induction fmt as [|k r IH]; intros bs vs rest OK F H.
  - cbn in H. injection H as <- <-. exists []. repeat split.
  - cbn [fmt_ok forallb] in OK. apply andb_true_iff in OK. destruct OK as [OKk OKr].
    cbn [unpack_fields] in H.
    destruct (unpack_field k bs) as [[ov rest1]|] eqn:U; [|discriminate].
    destruct (unpack_fields r rest1) as [[vs' rest']|] eqn:R; [|discriminate]. injection H as <- <-.
    destruct (pack_unpack_field k bs ov rest1 OKk F U) as [b [-> [Lb M]]].
    assert (F1: Forall is_byte rest1) by (apply Forall_app in F; tauto).
    destruct (IH rest1 vs' rest' OKr F1 R) as [b2 [-> [Lb2 P2]]].
    exists (b ++ b2). split; [rewrite app_assoc; reflexivity|].
    split; [rewrite app_length; change (calcsize (k :: r)) with (field_size k + calcsize r)%nat; lia|].
    assert (N: normalize (k :: r) (b ++ b2) = norm_field k b ++ normalize r b2).
    { cbn [normalize]. rewrite <- Lb. rewrite firstn_app, Nat.sub_diag, firstn_all. cbn [firstn]. rewrite app_nil_r.
      rewrite skipn_app, Nat.sub_diag, skipn_all. reflexivity. }
    rewrite N. destruct ov as [v|].
    + destruct M as [NP PF]. rewrite pack_cons_nonpad by exact NP. rewrite PF. cbn [bind]. rewrite P2. reflexivity.
    + destruct M as [-> NF]. cbn [pack]. rewrite P2. cbn [bind]. rewrite NF. reflexivity.
Qed.

Theorem sstruct_unpack_pack fmt bs vals : fmt_ok fmt = true -> Forall is_byte bs ->
  unpack fmt bs = Ok vals -> ModelSstruct.pack fmt vals = Ok (normalize fmt bs).
Proof.
  intros OK F H. unfold unpack in H. destruct (length bs =? calcsize fmt)%nat eqn:L; [|discriminate].
  apply Nat.eqb_eq in L. destruct (unpack_fields fmt bs) as [[vs rest]|] eqn:U; [|discriminate]. apply Ok_inj in H. subst vs.
  destruct (pack_unpack_fields fmt bs vals rest OK F U) as [b [E [Lb P]]].
  assert (rest = []).
  { assert (length bs = length b + length rest)%nat by (rewrite E; apply app_length). apply length_zero_iff_nil. lia. }
  subst rest. rewrite app_nil_r in E. subst b. exact P.
Qed.

(* without pad bytes and truth-value fields nothing is normalised at all *)
Definition plain_kind (k : kind) : bool := match k with KPad | KBool => false | _ => true end.
Lemma normalize_plain fmt : forall bs, forallb plain_kind fmt = true -> length bs = calcsize fmt -> normalize fmt bs = bs.
Proof.
  induction fmt as [|k r IH]; intros bs P L.
  - destruct bs; [reflexivity | discriminate].
  - cbn [forallb] in P. apply andb_true_iff in P. destruct P as [Pk Pr].
    change (calcsize (k :: r)) with (field_size k + calcsize r)%nat in L.
    cbn [normalize]. rewrite (IH (skipn (field_size k) bs) Pr) by (rewrite skipn_length; lia).
    assert (N: norm_field k (firstn (field_size k) bs) = firstn (field_size k) bs).
    { destruct k; try discriminate; try reflexivity; cbn [norm_field]; destruct (firstn _ bs) as [|? [|? ?]]; reflexivity. }
    rewrite N. apply firstn_skipn.
Qed.

(* ---- unpack is total on records of the right size ---- *)
Lemma take_be_enough n : forall bs, (n <= length bs)%nat -> exists u r, take_be n bs = Some (u, r) /\ length r = (length bs - n)%nat.
Proof.
  induction n as [|k IH]; intros bs L.
  - exists 0, bs. split; [reflexivity|lia].
  - destruct bs as [|b rest]; [cbn in L; lia|]. cbn [length] in L.
    destruct (IH rest ltac:(lia)) as [u [r [T Lr]]]. rewrite take_be_S, T. eexists. eexists. split; [reflexivity|]. cbn [length]. lia.
Qed.

Lemma unpack_field_enough k bs : kind_ok k = true -> (field_size k <= length bs)%nat ->
  exists ov rest, unpack_field k bs = Some (ov, rest) /\ length rest = (length bs - field_size k)%nat.
Proof.
  intros OK L. destruct k; cbn [unpack_field field_size] in *; try discriminate.
  - destruct bs as [|x r]; [cbn in L; lia|]. eexists. eexists. split; [reflexivity|]. cbn. lia.
  - destruct bs as [|x r]; [cbn in L; lia|]. eexists. eexists. split; [reflexivity|]. cbn. lia.
  - destruct (take_be_enough n bs L) as [u [r [T Lr]]]. rewrite T. eexists. eexists. split; [reflexivity|]. exact Lr.
  - destruct bs as [|x r]; [cbn in L; lia|]. eexists. eexists. split; [reflexivity|]. cbn. lia.
  - assert (LE: (n <=? length bs)%nat = true) by (apply Nat.leb_le; exact L). rewrite LE.
    eexists. eexists. split; [reflexivity|]. apply skipn_length.
  - destruct (take_be_enough n bs L) as [u [r [T Lr]]]. rewrite T. eexists. eexists. split; [reflexivity|]. exact Lr.
Qed.

Lemma unpack_fields_enough fmt : forall bs, fmt_ok fmt = true -> (calcsize fmt <= length bs)%nat ->
  exists vs rest, unpack_fields fmt bs = Some (vs, rest).
Proof.
  induction fmt as [|k r IH]; intros bs OK L.
  - exists [], bs. reflexivity.
  - cbn [fmt_ok forallb] in OK. apply andb_true_iff in OK. destruct OK as [OKk OKr].
    change (calcsize (k :: r)) with (field_size k + calcsize r)%nat in L.
    destruct (unpack_field_enough k bs OKk ltac:(lia)) as [ov [rest [U Lr]]].
    destruct (IH rest OKr ltac:(lia)) as [vs [rest' R]].
    cbn [unpack_fields]. rewrite U, R. eexists. eexists. reflexivity.
Qed.

Theorem sstruct_unpack_total fmt bs : fmt_ok fmt = true -> length bs = calcsize fmt ->
  exists vals, unpack fmt bs = Ok vals.
Proof.
  intros OK L. unfold unpack. rewrite L, Nat.eqb_refl.
  destruct (unpack_fields_enough fmt bs OK ltac:(lia)) as [vs [rest U]]. rewrite U. eexists. reflexivity.
Qed.
