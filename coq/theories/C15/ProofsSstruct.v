(* C15/ProofsSstruct.v — sstruct pack / unpack round trip over any format descriptor *)
From Coq Require Import ZArith QArith Qround Qabs List Bool Lia Arith.
From FV Require Import Base.Res Base.BE Base.ListX C15.ModelSstruct.
From FV Require Data.Data_sstruct.
Import ListNotations.
Open Scope Z_scope.

Lemma pow2_pos a : 0 <= a -> 0 < 2 ^ a.
Proof. intros. apply Z.pow_pos_nonneg; lia. Qed.

(* ---------- fixed point ---------- *)
Lemma Qfloor_half z : Qfloor (inject_Z z + (1 # 2)) = z.
Proof.
  assert (L: (inject_Z z <= inject_Z z + (1 # 2))%Q).
  { rewrite <- (Qplus_0_r (inject_Z z)) at 1. apply Qplus_le_r. discriminate. }
  assert (U: (inject_Z z + (1 # 2) < inject_Z (z + 1))%Q).
  { rewrite inject_Z_plus. apply Qplus_lt_r. reflexivity. }
  pose proof (Qfloor_le (inject_Z z + (1 # 2))) as F1.
  pose proof (Qlt_floor (inject_Z z + (1 # 2))) as F2.
  assert (A: (inject_Z z < inject_Z (Qfloor (inject_Z z + (1 # 2)) + 1))%Q) by (eapply Qle_lt_trans; eauto).
  assert (B: (inject_Z (Qfloor (inject_Z z + (1 # 2))) < inject_Z (z + 1))%Q) by (eapply Qle_lt_trans; eauto).
  rewrite <- Zlt_Qlt in A, B. lia.
Qed.

Lemma fl2fi_fi2fl z a : 0 <= a -> fl2fi (fi2fl z a) a = z.
Proof.
  intros Ha. unfold fl2fi, fi2fl.
  assert (P: ~ (inject_Z (2 ^ a) == 0)%Q).
  { intros E. pose proof (pow2_pos a Ha). unfold Qeq in E. simpl in E. lia. }
  assert (E: (inject_Z z / inject_Z (2 ^ a) * inject_Z (2 ^ a) + (1 # 2) == inject_Z z + (1 # 2))%Q).
  { apply Qplus_inj_r. field. exact P. }
  rewrite E. apply Qfloor_half.
Qed.

(* the value written for a fixed-point field is the nearest grid value: at most half a unit away *)
Lemma fixed_nearest q a : 0 <= a ->
  (Qabs (fi2fl (fl2fi q a) a - q) <= 1 # (2 * Z.to_pos (2 ^ a)))%Q.
Proof.
  intros Ha. unfold fl2fi, fi2fl.
  set (s := inject_Z (2 ^ a)).
  assert (Sp: (0 < s)%Q). { unfold s. rewrite <- (Zlt_Qlt 0). apply pow2_pos; lia. }
  set (x := (q * s + (1 # 2))%Q).
  pose proof (Qfloor_le x) as F1. pose proof (Qlt_floor x) as F2.
  rewrite inject_Z_plus in F2.
  assert (Hs: (1 # (2 * Z.to_pos (2 ^ a)) == (1 # 2) / s)%Q).
  { unfold s. pose proof (pow2_pos a Ha) as P. unfold Qeq, Qdiv, Qmult, Qinv. simpl.
    destruct (2 ^ a) eqn:E; try lia. simpl. lia. }
  rewrite Hs.
  assert (D: (inject_Z (Qfloor x) / s - q == (inject_Z (Qfloor x) - q * s) / s)%Q).
  { field. intros E. rewrite E in Sp. apply (Qlt_irrefl 0). exact Sp. }
  rewrite D. unfold Qdiv. rewrite Qabs_Qmult.
  rewrite (Qabs_pos (/ s)) by (apply Qlt_le_weak, Qinv_lt_0_compat; exact Sp).
  apply Qmult_le_compat_r; [| apply Qlt_le_weak, Qinv_lt_0_compat; exact Sp].
  apply Qabs_Qle_condition. unfold x in F1, F2. split.
  - apply (Qplus_le_l _ _ (q * s + 1)). ring_simplify.
    apply Qlt_le_weak. eapply Qle_lt_trans; [| exact F2]. ring_simplify. apply Qle_refl.
  - apply (Qplus_le_l _ _ (q * s)). ring_simplify. eapply Qle_trans; [exact F1|]. ring_simplify. apply Qle_refl.
Qed.

(* ---------- one field ---------- *)
Lemma int_range_signed n z : (0 < n)%nat -> int_range true n z = true ->
  - 2 ^ (8 * Z.of_nat n - 1) <= z < 2 ^ (8 * Z.of_nat n - 1).
Proof. unfold int_range. intros _ H. apply andb_true_iff in H. destruct H. lia. Qed.

Lemma int_range_unsigned n z : int_range false n z = true -> 0 <= z < 2 ^ (8 * Z.of_nat n).
Proof. unfold int_range. intros H. apply andb_true_iff in H. destruct H. lia. Qed.

Lemma int_range_signed_0 z : int_range true 0 z = true -> False.
Proof.
  unfold int_range. cbn [Z.of_nat]. replace (8 * 0 - 1) with (-1) by lia.
  rewrite Z.pow_neg_r by lia. intros H. apply andb_true_iff in H. destruct H. lia.
Qed.

Lemma take_pack_signed n z rest : int_range true n z = true ->
  match take_be n (pack_be n z ++ rest) with
  | Some (u, r) => to_signed (8 * Z.of_nat n) u = z /\ r = rest
  | None => False
  end.
Proof.
  intros H. rewrite take_pack. split; [|reflexivity].
  destruct n as [|n]; [exfalso; eapply int_range_signed_0; eauto|].
  apply to_signed_mod; [lia|]. apply int_range_signed; [lia|exact H].
Qed.

Lemma take_pack_unsigned n z rest : int_range false n z = true ->
  take_be n (pack_be n z ++ rest) = Some (z, rest).
Proof.
  intros H. rewrite take_pack. apply int_range_unsigned in H.
  rewrite Z.mod_small by lia. reflexivity.
Qed.

Lemma firstn_pad_length n (l : list Z) : length (firstn n (l ++ repeat 0 n)) = n.
Proof. rewrite firstn_length, app_length, repeat_length. lia. Qed.

Lemma firstn_app_exact {A} (l r : list A) n : length l = n -> firstn n (l ++ r) = l /\ skipn n (l ++ r) = r.
Proof.
  intros <-. split.
  - rewrite firstn_app, Nat.sub_diag, firstn_all. simpl. apply app_nil_r.
  - rewrite skipn_app, Nat.sub_diag, skipn_all. reflexivity.
Qed.

Lemma pack_field_size k v b : pack_field k v = Ok b -> length b = field_size k.
Proof.
  destruct k, v; cbn [pack_field field_size]; unfold pack_int; intros H;
    try discriminate;
    try (destruct (int_range _ _ _); [apply Ok_inj in H; subst; apply pack_be_length | discriminate]).
  - destruct l as [|b0 [|? ?]]; try discriminate. destruct (byteb b0); [apply Ok_inj in H; subst; reflexivity | discriminate].
  - apply Ok_inj in H. subst. reflexivity.
  - destruct (forallb byteb l); [apply Ok_inj in H; subst; apply firstn_pad_length | discriminate].
Qed.

Lemma unpack_pack_field k v b rest : k <> KPad -> pack_field k v = Ok b ->
  unpack_field k (b ++ rest) = Some (Some (canon_field k v), rest).
Proof.
  intros NP. destruct k, v; cbn [pack_field unpack_field canon_field]; unfold pack_int; intros H;
    try discriminate; try congruence.
  - (* char *) destruct l as [|b0 [|? ?]]; try discriminate. destruct (byteb b0); [|discriminate].
    apply Ok_inj in H. subst. reflexivity.
  - (* int *) destruct (int_range signed n z) eqn:R; [|discriminate]. apply Ok_inj in H. subst b.
    destruct signed.
    + pose proof (take_pack_signed n z rest R) as T. destruct (take_be n (pack_be n z ++ rest)) as [[u r]|]; [|contradiction].
      destruct T as [-> ->]. reflexivity.
    + rewrite (take_pack_unsigned n z rest R). reflexivity.
  - (* bool *) apply Ok_inj in H. subst. cbn [app]. destruct (z =? 0); reflexivity.
  - (* str *) destruct (forallb byteb l); [|discriminate]. apply Ok_inj in H. subst b.
    pose proof (firstn_pad_length n l) as L.
    assert (LE: (n <=? length (firstn n (l ++ repeat 0%Z n) ++ rest))%nat = true).
    { apply Nat.leb_le. rewrite app_length. lia. }
    rewrite LE. destruct (firstn_app_exact (firstn n (l ++ repeat 0 n)) rest n L) as [-> ->]. reflexivity.
  - (* fixed, integer value *) destruct (int_range true n _) eqn:R; [|discriminate]. apply Ok_inj in H. subst b.
    pose proof (take_pack_signed n _ rest R) as T. destruct (take_be n _) as [[u r]|]; [|contradiction].
    destruct T as [-> ->]. reflexivity.
  - (* fixed *) destruct (int_range true n _) eqn:R; [|discriminate]. apply Ok_inj in H. subst b.
    pose proof (take_pack_signed n _ rest R) as T. destruct (take_be n _) as [[u r]|]; [|contradiction].
    destruct T as [-> ->]. reflexivity.
Qed.

(* ---------- whole records ---------- *)
Lemma pack_cons_nonpad k r v vs : k <> KPad ->
  pack (k :: r) (v :: vs) = (let* b := pack_field k v in let* bs := pack r vs in Ok (b ++ bs)).
Proof. destruct k; intros; try congruence; reflexivity. Qed.

Lemma pack_cons_nil k r : k <> KPad -> pack (k :: r) [] = Err KeyError.
Proof. destruct k; intros; try congruence; reflexivity. Qed.

Lemma canon_cons_nonpad k r v vs : k <> KPad -> canon (k :: r) (v :: vs) = canon_field k v :: canon r vs.
Proof. destruct k; intros; try congruence; reflexivity. Qed.

Lemma kind_pad_dec k : {k = KPad} + {k <> KPad}.
Proof. destruct k; (left; reflexivity) || (right; discriminate). Qed.

Lemma pack_length fmt : forall vals bs, pack fmt vals = Ok bs -> length bs = calcsize fmt.
Proof.
  induction fmt as [|k r IH]; intros vals bs H.
  - apply Ok_inj in H. subst. reflexivity.
  - destruct (kind_pad_dec k) as [->|NP].
    + cbn [pack] in H. destruct (pack r vals) as [b|e] eqn:P; [|discriminate]. cbn [bind] in H. apply Ok_inj in H. subst.
      change (calcsize (KPad :: r)) with (S (calcsize r)). cbn [length]. f_equal. apply (IH vals). exact P.
    + destruct vals as [|v vs]; [rewrite pack_cons_nil in H by exact NP; discriminate|].
      rewrite pack_cons_nonpad in H by exact NP.
      destruct (pack_field k v) as [b|e] eqn:PF; [|discriminate]. cbn [bind] in H.
      destruct (pack r vs) as [b2|e] eqn:P; [|discriminate]. cbn [bind] in H. apply Ok_inj in H. subst.
      rewrite app_length. change (calcsize (k :: r)) with (field_size k + calcsize r)%nat.
      f_equal; [eapply pack_field_size; eauto | apply (IH vs); exact P].
Qed.

Lemma unpack_fields_pack fmt : forall vals bs rest, pack fmt vals = Ok bs ->
  unpack_fields fmt (bs ++ rest) = Some (canon fmt vals, rest).
Proof.
  induction fmt as [|k r IH]; intros vals bs rest H.
  - apply Ok_inj in H. subst. reflexivity.
  - destruct (kind_pad_dec k) as [->|NP].
    + cbn [pack] in H. destruct (pack r vals) as [b|e] eqn:P; [|discriminate]. cbn [bind] in H. apply Ok_inj in H. subst.
      cbn [unpack_fields unpack_field app canon]. rewrite (IH vals b rest P). reflexivity.
    + destruct vals as [|v vs]; [rewrite pack_cons_nil in H by exact NP; discriminate|].
      rewrite pack_cons_nonpad in H by exact NP.
      destruct (pack_field k v) as [b|e] eqn:PF; [|discriminate]. cbn [bind] in H.
      destruct (pack r vs) as [b2|e] eqn:P; [|discriminate]. cbn [bind] in H. apply Ok_inj in H. subst.
      cbn [unpack_fields]. rewrite <- app_assoc. rewrite (unpack_pack_field k v b (b2 ++ rest) NP PF).
      rewrite (IH vs b2 rest P). rewrite canon_cons_nonpad by exact NP. reflexivity.
Qed.

Theorem sstruct_roundtrip fmt vals bs : pack fmt vals = Ok bs -> unpack fmt bs = Ok (canon fmt vals).
Proof.
  intros H. unfold unpack. rewrite (pack_length fmt vals bs H), Nat.eqb_refl.
  pose proof (unpack_fields_pack fmt vals bs [] H) as U. rewrite app_nil_r in U. rewrite U. reflexivity.
Qed.

Lemma canon_field_exact k v : kind_ok k = true -> exact_field k v -> canon_field k v = v.
Proof.
  destruct k, v; cbn [exact_field canon_field kind_ok]; intros OK E; try contradiction; try reflexivity.
  - destruct E as [-> | ->]; reflexivity.
  - f_equal. subst n. rewrite firstn_app, Nat.sub_diag, firstn_all. simpl. apply app_nil_r.
  - destruct E as [z ->]. rewrite fl2fi_fi2fl; [reflexivity|].
    apply andb_true_iff in OK. destruct OK as [OK _]. apply andb_true_iff in OK. destruct OK as [_ OK]. lia.
Qed.

Lemma canon_exact fmt : forall vals, fmt_ok fmt = true -> exact fmt vals -> canon fmt vals = vals.
Proof.
  induction fmt as [|k r IH]; intros vals OK E.
  - cbn [exact] in E. subst. reflexivity.
  - cbn [fmt_ok forallb] in OK. apply andb_true_iff in OK. destruct OK as [OKk OKr].
    destruct (kind_pad_dec k) as [->|NP].
    + cbn [canon exact] in *. apply IH; assumption.
    + destruct vals as [|v vs].
      * destruct k; cbn [exact] in E; try contradiction; congruence.
      * rewrite canon_cons_nonpad by exact NP.
        assert (E': exact_field k v /\ exact r vs) by (destruct k; cbn [exact] in E; try exact E; congruence).
        destruct E' as [E1 E2]. rewrite (canon_field_exact k v OKk E1). f_equal. apply IH; assumption.
Qed.

Theorem sstruct_roundtrip_exact fmt vals bs :
  fmt_ok fmt = true -> exact fmt vals -> pack fmt vals = Ok bs -> unpack fmt bs = Ok vals.
Proof. intros OK E H. rewrite (sstruct_roundtrip fmt vals bs H), (canon_exact fmt vals OK E). reflexivity. Qed.

(* every format string of the library is inside the model *)
Lemma library_formats_ok : forallb (fun d => fmt_ok (map kind_of d)) Data_sstruct.sstruct_formats = true.
Proof. vm_compute. reflexivity. Qed.

Theorem library_roundtrip d vals bs : In d Data_sstruct.sstruct_formats ->
  exact (map kind_of d) vals -> pack (map kind_of d) vals = Ok bs -> unpack (map kind_of d) bs = Ok vals.
Proof.
  intros I. apply sstruct_roundtrip_exact.
  pose proof library_formats_ok as L. rewrite forallb_forall in L. apply (L d I).
Qed.
