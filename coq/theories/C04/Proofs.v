(* C04/Proofs.v *)
From Coq Require Import ZArith List Bool Arith Lia Permutation.
From FV Require Import Base.Ser Base.Bits Base.Res Base.BE C04.Model.
Import ListNotations.
Open Scope Z_scope.

(* ---------- checksum algebra ---------- *)
Lemma weight_add4 i k : (k mod 4 = 0)%nat -> weight (i + k) = weight i.
Proof.
  intros Hk. unfold weight.
  replace ((i + k) mod 4)%nat with (i mod 4)%nat; [reflexivity|].
  rewrite Nat.add_mod by lia. rewrite Hk, Nat.add_0_r. rewrite Nat.mod_mod by lia. reflexivity.
Qed.

Lemma wsum_shift l : forall i k, (k mod 4 = 0)%nat -> wsum (i + k) l = wsum i l.
Proof.
  induction l as [|b r IH]; intros i k Hk; cbn [wsum]; [reflexivity|].
  rewrite weight_add4 by exact Hk. f_equal. apply (IH (S i) k Hk).
Qed.

Lemma wsum_app a : forall i b, wsum i (a ++ b) = wsum i a + wsum (i + length a) b.
Proof.
  induction a as [|x r IH]; intros i b; cbn [app wsum length].
  - rewrite Nat.add_0_r. lia.
  - rewrite IH. replace (S i + length r)%nat with (i + S (length r))%nat by lia. lia.
Qed.

Lemma wsum_app_aligned a b : (length a mod 4 = 0)%nat -> wsum 0 (a ++ b) = wsum 0 a + wsum 0 b.
Proof. intros H. rewrite wsum_app. rewrite (wsum_shift b 0 (length a) H). reflexivity. Qed.

Lemma wsum_zeros k : forall i, wsum i (repeat 0 k) = 0.
Proof. induction k as [|k IH]; intros i; cbn [repeat wsum]; [reflexivity|]. rewrite IH. lia. Qed.

Lemma pad4len_spec n : ((n + pad4len n) mod 4 = 0)%nat.
Proof.
  unfold pad4len. pose proof (Nat.mod_upper_bound n 4 ltac:(lia)) as B.
  pose proof (Nat.div_mod n 4 ltac:(lia)) as D.
  remember (n mod 4)%nat as m eqn:Hm. remember (n / 4)%nat as q eqn:Hq. clear Hm Hq.
  assert (C: (m = 0 \/ m = 1 \/ m = 2 \/ m = 3)%nat) by lia.
  destruct C as [C|[C|[C|C]]]; subst m n.
  - change ((4 - 0) mod 4)%nat with 0%nat. replace (4 * q + 0 + 0)%nat with (q * 4)%nat by lia. apply Nat.mod_mul; lia.
  - change ((4 - 1) mod 4)%nat with 3%nat. replace (4 * q + 1 + 3)%nat with ((q + 1) * 4)%nat by lia. apply Nat.mod_mul; lia.
  - change ((4 - 2) mod 4)%nat with 2%nat. replace (4 * q + 2 + 2)%nat with ((q + 1) * 4)%nat by lia. apply Nat.mod_mul; lia.
  - change ((4 - 3) mod 4)%nat with 1%nat. replace (4 * q + 3 + 1)%nat with ((q + 1) * 4)%nat by lia. apply Nat.mod_mul; lia.
Qed.

Lemma pad4_length_aligned d : (length (pad4 d) mod 4 = 0)%nat.
Proof. unfold pad4. rewrite app_length, repeat_length. apply pad4len_spec. Qed.

Lemma wsum_pad4 d : wsum 0 (pad4 d) = wsum 0 d.
Proof. unfold pad4. rewrite wsum_app, wsum_zeros. lia. Qed.

(* the checksum of a concatenation of 4-aligned blocks is the sum of the checksums *)
Theorem checksum_app_aligned a b : (length a mod 4 = 0)%nat ->
  calcChecksum (a ++ b) = (calcChecksum a + calcChecksum b) mod 4294967296.
Proof.
  intros H. unfold calcChecksum. rewrite wsum_app_aligned by exact H.
  rewrite <- Z.add_mod by lia. reflexivity.
Qed.

Theorem checksum_pad4 d : calcChecksum (pad4 d) = calcChecksum d.
Proof. unfold calcChecksum. rewrite wsum_pad4. reflexivity. Qed.

(* ---------- search fields (spec: OpenType "largest power of two <= numTables") ---------- *)
Lemma bitlen_spec fuel : forall x, 0 < x < 2 ^ Z.of_nat fuel ->
  2 ^ (bitlen fuel x - 1) <= x < 2 ^ (bitlen fuel x) /\ 1 <= bitlen fuel x.
Proof.
  induction fuel as [|f IH]; intros x Hx.
  - cbn in Hx. lia.
  - cbn [bitlen]. destruct (Z.eqb_spec x 0) as [->|NZ]; [lia|].
    rewrite Z.shiftr_div_pow2 by lia. change (2^1) with 2.
    destruct (Z.eq_dec x 1) as [->|N1].
    + cbn [Z.div]. change (1 / 2) with 0. destruct f; cbn; lia.
    + assert (H2: 0 < x / 2 < 2 ^ Z.of_nat f).
      { replace (Z.of_nat (S f)) with (Z.of_nat f + 1) in Hx by lia.
        rewrite Z.pow_add_r in Hx by lia. change (2^1) with 2 in Hx.
        split; [apply Z.div_str_pos; lia|apply Z.div_lt_upper_bound; lia]. }
      destruct (IH (x / 2) H2) as [[L U] P].
      set (b := bitlen f (x / 2)) in *.
      replace (1 + b - 1) with ((b - 1) + 1) by lia.
      replace (1 + b) with (b + 1) by lia.
      rewrite !Z.pow_add_r by lia. change (2^1) with 2.
      pose proof (Z.div_mod x 2 ltac:(lia)). pose proof (Z.mod_pos_bound x 2 ltac:(lia)).
      repeat split; lia.
Qed.

Theorem searchRange_spec n : 1 <= n < 65536 ->
  let '(sr, es, rs) := getSearchRange n 16 in
  sr = 16 * 2 ^ es /\ 0 <= es /\ 2 ^ es <= n < 2 ^ (es + 1) /\ rs = 16 * n - sr.
Proof.
  intros Hn. unfold getSearchRange, maxPowerOfTwo.
  assert (Hx: 0 < n < 2 ^ Z.of_nat 64).
  { split; [lia|]. apply Z.lt_trans with 65536; [lia|]. reflexivity. }
  destruct (bitlen_spec 64 n Hx) as [[L U] P].
  set (b := bitlen 64 n) in *.
  rewrite Z.max_l by lia.
  replace (b - 1 + 1) with b by lia.
  assert (P2: 0 < 2 ^ (b - 1)) by (apply Z.pow_pos_nonneg; lia).
  rewrite Z.max_r by lia.
  repeat split; lia.
Qed.

(* ---------- writer layout ---------- *)
Lemma layout_app a : forall off b,
  layout off (a ++ b) =
  (fst (layout off a) ++ fst (layout (off + length (snd (layout off a))) b),
   snd (layout off a) ++ snd (layout (off + length (snd (layout off a))) b)).
Proof.
  induction a as [|[t d] r IH]; intros off b; cbn [app layout].
  - cbn [fst snd length app]. rewrite Nat.add_0_r. destruct (layout off b); reflexivity.
  - rewrite IH. destruct (layout (off + length (pad4 d)) r) as [es body] eqn:E.
    cbn [fst snd]. rewrite app_length. rewrite Nat.add_assoc.
    rewrite <- app_assoc. reflexivity.
Qed.

Lemma layout_tags ts : forall off, map e_tag (fst (layout off ts)) = map fst ts.
Proof.
  induction ts as [|[t d] r IH]; intros off; cbn [layout]; [reflexivity|].
  specialize (IH (off + length (pad4 d))%nat).
  destruct (layout (off + length (pad4 d)) r) as [es body]. cbn [fst map] in *. rewrite IH. reflexivity.
Qed.

Lemma layout_body_aligned ts : forall off, (length (snd (layout off ts)) mod 4 = 0)%nat.
Proof.
  induction ts as [|[t d] r IH]; intros off; cbn [layout]; [reflexivity|].
  specialize (IH (off + length (pad4 d))%nat).
  destruct (layout (off + length (pad4 d)) r) as [es body]. cbn [snd] in *.
  rewrite app_length. rewrite Nat.add_mod by lia. rewrite IH, pad4_length_aligned. reflexivity.
Qed.

Lemma layout_length ts : forall off, length (fst (layout off ts)) = length ts.
Proof.
  induction ts as [|[t d] r IH]; intros off; cbn [layout]; [reflexivity|].
  specialize (IH (off + length (pad4 d))%nat).
  destruct (layout (off + length (pad4 d)) r) as [es body]. cbn [fst length] in *. lia.
Qed.

Lemma list_Z_eqb_refl l : list_Z_eqb l l = true.
Proof. induction l; cbn; auto. rewrite Z.eqb_refl. exact IHl. Qed.

Lemma list_Z_eqb_eq a : forall b, list_Z_eqb a b = true -> a = b.
Proof.
  induction a as [|x a IH]; intros [|y b] E; cbn in E; try discriminate; auto.
  apply andb_prop in E. destruct E as [E1 E2]. apply Z.eqb_eq in E1. subst. f_equal. apply IH. exact E2.
Qed.

Definition M32 := 4294967296.
Lemma wsum_pack_be4 v : 0 <= v < M32 -> wsum 0 (pack_be 4 v) = v.
Proof.
  intros Hv. rewrite pack_be_4. cbn [wsum weight Nat.modulo Nat.divmod fst snd]. unfold M32 in Hv.
  pose proof (Z.div_mod v 256 ltac:(lia)). pose proof (Z.mod_pos_bound v 256 ltac:(lia)).
  pose proof (Z.div_mod (v / 256) 256 ltac:(lia)). pose proof (Z.mod_pos_bound (v / 256) 256 ltac:(lia)).
  pose proof (Z.div_mod (v / 256 / 256) 256 ltac:(lia)). pose proof (Z.mod_pos_bound (v / 256 / 256) 256 ltac:(lia)).
  replace (v / 65536) with (v / 256 / 256) by (rewrite Z.div_div by lia; reflexivity).
  replace (v / 16777216) with (v / 256 / 256 / 256) by (rewrite !Z.div_div by lia; reflexivity).
  assert (v / 256 / 256 / 256 < 256).
  { rewrite !Z.div_div by lia. apply Z.div_lt_upper_bound; lia. }
  assert (0 <= v / 256 / 256 / 256) by (rewrite !Z.div_div by lia; apply Z.div_pos; lia).
  rewrite (Z.mod_small (v / 256 / 256 / 256)) by lia.
  change (weight 0) with 16777216. change (weight 1) with 65536. change (weight 2) with 256. change (weight 3) with 1. lia.
Qed.

Ltac Zify.zify_post_hook ::= Z.to_euclidean_division_equations.

Lemma mod_exists a : exists k, a mod 4294967296 = a - k * 4294967296.
Proof. exists (a / 4294967296). pose proof (Z.div_mod a 4294967296 ltac:(lia)). lia. Qed.
Lemma eqm_exists a b : a mod 4294967296 = b mod 4294967296 -> exists k, a = b + k * 4294967296.
Proof.
  intros H. exists (a / 4294967296 - b / 4294967296).
  pose proof (Z.div_mod a 4294967296 ltac:(lia)). pose proof (Z.div_mod b 4294967296 ltac:(lia)). lia.
Qed.


(* without a head table every stored checksum is the table's own *)
Lemma layout_cks_nohead ts : forall off, ~ In head_tag (map fst ts) ->
  (sumz (map e_ck (fst (layout off ts)))) mod M32 = (wsum 0 (snd (layout off ts))) mod M32.
Proof.
  induction ts as [|[t d] r IH]; intros off NH; cbn [layout]; [reflexivity|].
  cbn [map fst In] in NH.
  assert (NH': ~ In head_tag (map fst r)) by tauto.
  specialize (IH (off + length (pad4 d))%nat NH').
  destruct (layout (off + length (pad4 d)) r) as [es body]. cbn [fst snd map sumz fold_right] in *.
  rewrite wsum_app_aligned by apply pad4_length_aligned. rewrite wsum_pad4.
  unfold entry_ck. destruct (list_Z_eqb t head_tag) eqn:E.
  - exfalso. apply NH. left. apply list_Z_eqb_eq. exact E.
  - unfold calcChecksum. cbn [e_ck]. fold (sumz (map e_ck es)) in *. unfold M32 in *.
    set (c := sumz (map e_ck es)) in *. set (x := wsum 0 d). set (y := wsum 0 body) in *.
    clearbody c x y. clear - IH. lia.
Qed.

Lemma find_entry_skip es : forall h rest, ~ In head_tag (map e_tag es) -> e_tag h = head_tag ->
  find_entry head_tag (es ++ h :: rest) = Some h.
Proof.
  induction es as [|e r IH]; intros h rest NH Hh; unfold find_entry; cbn [app find].
  - rewrite Hh, list_Z_eqb_refl. reflexivity.
  - cbn [map In] in NH. destruct (list_Z_eqb (e_tag e) head_tag) eqn:E.
    + exfalso. apply NH. left. apply list_Z_eqb_eq. exact E.
    + apply IH; tauto.
Qed.

Lemma write_at_exact X w R bs : length w = length bs ->
  write_at (length X) bs (X ++ w ++ R) = X ++ bs ++ R.
Proof.
  intros L. unfold write_at.
  rewrite firstn_app, firstn_all, Nat.sub_diag. cbn [firstn]. rewrite app_nil_r.
  replace (length X - length (X ++ w ++ R))%nat with 0%nat by (rewrite app_length; lia).
  cbn [repeat app]. f_equal. f_equal.
  rewrite skipn_app. rewrite skipn_all2 by lia. cbn [app].
  replace (length X + length bs - length X)%nat with (length w) by lia.
  rewrite skipn_app, skipn_all, Nat.sub_diag. reflexivity.
Qed.

Lemma pack_be4_length v : length (pack_be 4 v) = 4%nat.
Proof. apply pack_be_length. Qed.

Lemma sort_entries_perm l : Permutation (sort_entries l) l.
Proof.
  induction l as [|e r IH]; cbn; [constructor|].
  assert (P: forall x l, Permutation (insert_entry x l) (x :: l)).
  { intros x l. induction l as [|y l' IHl]; cbn; [constructor; constructor|].
    destruct (tag_ltb (e_tag x) (e_tag y)); [reflexivity|].
    eapply perm_trans; [apply perm_skip, IHl|apply perm_swap]. }
  eapply perm_trans; [apply P|]. constructor. exact IH.
Qed.

Lemma flat_map_entry_bytes_length es :
  Forall (fun e => length (e_tag e) = 4%nat) es -> length (flat_map entry_bytes es) = (16 * length es)%nat.
Proof.
  induction 1 as [|e r He Hr IH]; cbn [flat_map length]; [reflexivity|].
  rewrite app_length, IH. unfold entry_bytes. rewrite !app_length, !pack_be_length, He. lia.
Qed.

Lemma header_length version n : length version = 4%nat -> length (header_bytes version n) = 12%nat.
Proof.
  intros Hv. unfold header_bytes. destruct (getSearchRange n 16) as [[sr es] rs].
  rewrite !app_length, !pack_be_length, Hv. reflexivity.
Qed.

Lemma skipn_skipn' {A} (l : list A) : forall a b, skipn a (skipn b l) = skipn (b + a) l.
Proof.
  induction l as [|x r IH]; intros a b.
  - rewrite !skipn_nil. reflexivity.
  - destruct b; cbn [skipn Nat.add]; [reflexivity|apply IH].
Qed.

(* the head table (>= 12 bytes) as three pieces around checkSumAdjustment *)
Lemma split_head (d : list Z) : (12 <= length d)%nat ->
  d = firstn 8 d ++ firstn 4 (skipn 8 d) ++ skipn 12 d
  /\ length (firstn 8 d) = 8%nat /\ length (firstn 4 (skipn 8 d)) = 4%nat.
Proof.
  intros L. repeat split.
  - rewrite <- (firstn_skipn 8 d) at 1. f_equal.
    rewrite <- (firstn_skipn 4 (skipn 8 d)) at 1. f_equal. rewrite skipn_skipn'. reflexivity.
  - rewrite firstn_length. lia.
  - rewrite firstn_length, skipn_length. lia.
Qed.

Lemma sumz_app a b : sumz (a ++ b) = sumz a + sumz b.
Proof. induction a as [|x r IH]; cbn [app sumz fold_right]; [reflexivity|]. fold (sumz (r ++ b)). fold (sumz r). lia. Qed.
Lemma sumz_cons x r : sumz (x :: r) = x + sumz r.
Proof. reflexivity. Qed.

Theorem master_checksum version numTables pre dh post file :
  length version = 4%nat ->
  Forall (fun td => length (fst td) = 4%nat) (pre ++ (head_tag, dh) :: post) ->
  ~ In head_tag (map fst pre) -> ~ In head_tag (map fst post) ->
  (12 <= length dh)%nat ->
  write_sfnt version numTables (pre ++ (head_tag, dh) :: post) = Ok file ->
  calcChecksum file = 2981146554.
Proof.
  intros Hver Htags NHpre NHpost Hlen Hw.
  unfold write_sfnt in Hw.
  destruct (negb (u16_ok numTables)) eqn:E0; [discriminate|].
  destruct (has_dup [] (pre ++ (head_tag, dh) :: post)) eqn:E1; [discriminate|].
  destruct (negb (Z.of_nat (length (pre ++ (head_tag, dh) :: post)) =? numTables)) eqn:E2; [discriminate|].
  apply negb_false_iff in E2. apply Z.eqb_eq in E2.
  set (dirsize := (12 + 16 * Z.to_nat numTables)%nat) in *.
  rewrite layout_app in Hw. cbn [layout] in Hw.
  destruct (layout dirsize pre) as [es_pre body_pre] eqn:Epre. cbn [fst snd] in Hw.
  set (offh := (dirsize + length body_pre)%nat) in *.
  destruct (layout (offh + length (pad4 dh)) post) as [es_post body_post] eqn:Epost.
  cbn [fst snd] in Hw.
  set (h := mkE head_tag (entry_ck head_tag dh) offh (length dh)) in *.
  set (es := es_pre ++ h :: es_post) in *.
  destruct (negb (forallb _ es)) eqn:E3; [discriminate|].
  destruct (getSearchRange numTables 16) as [[sr esel] rs] eqn:Esr.
  destruct (negb (u16_ok sr && u16_ok rs)) eqn:E4; [discriminate|].
  set (directory := header_bytes version numTables ++ flat_map entry_bytes (sort_entries es)) in *.
  (* the head entry is found *)
  assert (Tpre: map e_tag es_pre = map fst pre).
  { pose proof (layout_tags pre dirsize) as T. rewrite Epre in T. exact T. }
  assert (Tpost: map e_tag es_post = map fst post).
  { pose proof (layout_tags post (offh + length (pad4 dh))) as T. rewrite Epost in T. exact T. }
  assert (Fh: find_entry head_tag es = Some h).
  { apply find_entry_skip; [rewrite Tpre; exact NHpre|reflexivity]. }
  rewrite Fh in Hw.
  replace (e_len h <? 12)%nat with false in Hw by (symmetry; apply Nat.ltb_ge; unfold h; cbn [e_len]; exact Hlen).
  apply Ok_inj in Hw. rename Hw into Hfile.
  (* lengths / alignment *)
  assert (Les: length es = length (pre ++ (head_tag, dh) :: post)).
  { unfold es. rewrite !app_length. cbn [length].
    pose proof (layout_length pre dirsize) as L1. rewrite Epre in L1.
    pose proof (layout_length post (offh + length (pad4 dh))) as L2. rewrite Epost in L2.
    cbn [fst] in *. lia. }
  assert (Tes: Forall (fun e => length (e_tag e) = 4%nat) es).
  { apply Forall_forall. intros e He.
    assert (In (e_tag e) (map fst (pre ++ (head_tag, dh) :: post))).
    { rewrite map_app. cbn [map fst]. rewrite <- Tpre, <- Tpost.
      unfold es in He. apply in_app_or in He. apply in_or_app.
      destruct He as [He|[He|He]]; [left; apply in_map; exact He|right; left; subst e; reflexivity|right; right; apply in_map; exact He]. }
    apply in_map_iff in H. destruct H as [[t d] [Ht Hin]]. cbn [fst] in Ht. subst t.
    rewrite Forall_forall in Htags. apply (Htags _ Hin). }
  assert (Ldir: length directory = dirsize).
  { unfold directory. rewrite app_length, header_length by exact Hver.
    rewrite flat_map_entry_bytes_length.
    - rewrite (Permutation_length (sort_entries_perm es)). unfold dirsize. lia.
    - apply Forall_forall. intros e He. rewrite Forall_forall in Tes. apply Tes.
      apply (Permutation_in _ (sort_entries_perm es)). exact He. }
  assert (Adir: (dirsize mod 4 = 0)%nat).
  { unfold dirsize. replace (12 + 16 * Z.to_nat numTables)%nat with ((3 + 4 * Z.to_nat numTables) * 4)%nat by lia.
    apply Nat.mod_mul. lia. }
  assert (Apre: (length body_pre mod 4 = 0)%nat).
  { pose proof (layout_body_aligned pre dirsize) as A. rewrite Epre in A. exact A. }
  destruct (split_head dh Hlen) as (Sd & L8 & L4).
  set (d8 := firstn 8 dh) in *. set (w := firstn 4 (skipn 8 dh)) in *. set (dr := skipn 12 dh) in *.
  (* shape of the file before patching *)
  set (X := directory ++ body_pre ++ d8).
  set (R := (dr ++ repeat 0 (pad4len (length dh))) ++ body_post).
  assert (Efile0: directory ++ body_pre ++ pad4 dh ++ body_post = X ++ w ++ R).
  { unfold X, R, pad4. rewrite Sd at 1. repeat rewrite <- app_assoc. reflexivity. }
  assert (LX: length X = (e_off h + 8)%nat).
  { unfold X. rewrite !app_length, Ldir, L8. cbn [e_off h]. unfold offh. lia. }
  rewrite Efile0 in Hfile. rewrite <- LX in Hfile.
  rewrite write_at_exact in Hfile by (rewrite pack_be4_length; exact L4).
  (* checksum bookkeeping *)
  assert (AX: (length X mod 4 = 0)%nat).
  { rewrite LX. cbn [e_off h]. unfold offh.
    rewrite Nat.add_mod by lia. rewrite (Nat.add_mod dirsize) by lia. rewrite Adir, Apre. reflexivity. }
  set (adj := (2981146554 - (sumz (map e_ck es) + calcChecksum directory) mod 4294967296) mod 4294967296) in *.
  assert (Hadj: 0 <= adj < M32) by (unfold adj, M32; apply Z.mod_pos_bound; lia).
  subst file. unfold calcChecksum.
  rewrite wsum_app_aligned by exact AX.
  rewrite (wsum_app_aligned (pack_be 4 adj)) by (rewrite pack_be4_length; reflexivity).
  rewrite wsum_pack_be4 by exact Hadj.
  (* wsum X, wsum R *)
  assert (WX: wsum 0 X = wsum 0 directory + wsum 0 body_pre + wsum 0 d8).
  { unfold X. rewrite wsum_app_aligned by (rewrite Ldir; exact Adir).
    rewrite wsum_app_aligned by exact Apre. lia. }
  assert (WR: wsum 0 R = wsum 0 dr + wsum 0 body_post).
  { unfold R. rewrite wsum_app.
    assert (AL: (length (dr ++ repeat 0%Z (pad4len (length dh))) mod 4 = 0)%nat).
    { pose proof (pad4_length_aligned dh) as A. unfold pad4 in A. rewrite Sd in A at 1.
      fold d8 w dr in A. rewrite <- !app_assoc in A. rewrite app_length, (app_length w) in A.
      rewrite L8, L4 in A.
      replace (8 + (4 + length (dr ++ repeat 0%Z (pad4len (length dh)))))%nat
        with (length (dr ++ repeat 0%Z (pad4len (length dh))) + 3 * 4)%nat in A by lia.
      rewrite Nat.mod_add in A by lia. exact A. }
    rewrite (wsum_shift body_post 0 _ AL). rewrite wsum_app, wsum_zeros. lia. }
  assert (Wdh: wsum 0 dh = wsum 0 d8 + wsum 0 w + wsum 0 dr).
  { rewrite Sd at 1. rewrite wsum_app_aligned by (rewrite L8; reflexivity).
    rewrite wsum_app_aligned by (rewrite L4; reflexivity). lia. }
  assert (Wz: wsum 0 (zero_adj dh) = wsum 0 d8 + wsum 0 dr).
  { unfold zero_adj. fold d8 dr. rewrite wsum_app_aligned by (rewrite L8; reflexivity).
    rewrite (wsum_app_aligned [0;0;0;0]) by reflexivity. cbn [wsum]. lia. }
  (* stored checksums *)
  pose proof (layout_cks_nohead pre dirsize NHpre) as Cpre. rewrite Epre in Cpre. cbn [fst snd] in Cpre.
  pose proof (layout_cks_nohead post (offh + length (pad4 dh)) NHpost) as Cpost. rewrite Epost in Cpost. cbn [fst snd] in Cpost.
  assert (Sck: sumz (map e_ck es) = sumz (map e_ck es_pre) + (e_ck h + sumz (map e_ck es_post))).
  { unfold es. rewrite map_app. cbn [map]. rewrite sumz_app, sumz_cons. reflexivity. }
  assert (Ckh: e_ck h = (wsum 0 d8 + wsum 0 dr) mod M32).
  { cbn [e_ck h]. unfold entry_ck. rewrite list_Z_eqb_refl. unfold calcChecksum. rewrite Wz. reflexivity. }
  unfold adj. rewrite Sck, Ckh. unfold calcChecksum. rewrite WX, WR.
  fold M32 in *. unfold M32 in *.
  set (D := wsum 0 directory) in *. set (P := wsum 0 body_pre) in *. set (Q := wsum 0 body_post) in *.
  set (A8 := wsum 0 d8) in *. set (Ar := wsum 0 dr) in *.
  set (cp := sumz (map e_ck es_pre)) in *. set (cq := sumz (map e_ck es_post)) in *.
  clearbody D P Q A8 Ar cp cq. clear - Cpre Cpost.
  destruct (eqm_exists _ _ Cpre) as [k1 E1]. destruct (eqm_exists _ _ Cpost) as [k2 E2].
  destruct (mod_exists (A8 + Ar)) as [k3 E3]. rewrite E3.
  destruct (mod_exists D) as [k4 E4]. rewrite E4.
  destruct (mod_exists (cp + (A8 + Ar - k3 * 4294967296 + cq) + (D - k4 * 4294967296))) as [k5 E5]. rewrite E5.
  match goal with |- context [(2981146554 - ?S) mod 4294967296] =>
    destruct (mod_exists (2981146554 - S)) as [k6 E6]; rewrite E6 end.
  match goal with |- ?T mod 4294967296 = _ =>
    replace T with (2981146554 + (- k1 + k3 - k2 + k4 + k5 - k6) * 4294967296) by lia end.
  rewrite Z_mod_plus_full. reflexivity.
Qed.

(* ---------- every table is where its directory entry says: aligned, inside the body,
   holding exactly the table's bytes, and not overlapping any later table ---------- *)
Lemma layout_offsets_ge ts : forall off e, In e (fst (layout off ts)) -> (off <= e_off e)%nat.
Proof.
  induction ts as [|[t d] r IH]; intros off e He; cbn [layout] in He; [contradiction|].
  specialize (IH (off + length (pad4 d))%nat).
  destruct (layout (off + length (pad4 d)) r) as [es body]. cbn [fst] in *.
  destruct He as [<-|He]; [cbn; lia|]. specialize (IH e He). lia.
Qed.

Theorem layout_sound ts : forall off i e,
  nth_error (fst (layout off ts)) i = Some e ->
  exists t d, nth_error ts i = Some (t, d) /\ e_tag e = t /\ e_len e = length d /\
    e_ck e = entry_ck t d /\
    (off <= e_off e)%nat /\ ((e_off e - off) mod 4 = 0)%nat /\
    firstn (length d) (skipn (e_off e - off) (snd (layout off ts))) = d /\
    (e_off e - off + length (pad4 d) <= length (snd (layout off ts)))%nat /\
    (forall j e', (i < j)%nat -> nth_error (fst (layout off ts)) j = Some e' ->
                  (e_off e + length (pad4 d) <= e_off e')%nat).
Proof.
  induction ts as [|[t d] r IH]; intros off i e Hn; cbn [layout] in *.
  - destruct i; discriminate.
  - pose proof (layout_offsets_ge r (off + length (pad4 d))%nat) as GE.
    specialize (IH (off + length (pad4 d))%nat).
    destruct (layout (off + length (pad4 d)) r) as [es body] eqn:EL. cbn [fst snd] in *.
    destruct i as [|i'].
    + cbn in Hn. apply Some_inj in Hn. subst e. exists t, d. cbn [e_tag e_len e_ck e_off nth_error].
      rewrite Nat.sub_diag. cbn [skipn].
      repeat split; try lia; try reflexivity.
      * unfold pad4. rewrite <- app_assoc. rewrite firstn_app, firstn_all, Nat.sub_diag. cbn [firstn]. apply app_nil_r.
      * rewrite app_length. lia.
      * intros j e' Hj Hn'. destruct j as [|j']; [lia|]. cbn in Hn'. apply nth_error_In in Hn'.
        specialize (GE e' Hn'). lia.
    + cbn [nth_error] in Hn. destruct (IH i' e Hn) as (t' & d' & H1 & H2 & H3 & H4 & H5 & H6 & H7 & H8 & H9).
      exists t', d'. cbn [nth_error]. repeat split; auto; try lia.
      * replace (e_off e - off)%nat with (length (pad4 d) + (e_off e - (off + length (pad4 d))))%nat by lia.
        rewrite Nat.add_mod by lia. rewrite H6, pad4_length_aligned. reflexivity.
      * replace (e_off e - off)%nat with (length (pad4 d) + (e_off e - (off + length (pad4 d))))%nat by lia.
        rewrite skipn_app. rewrite skipn_all2 by lia. cbn [app].
        replace (length (pad4 d) + (e_off e - (off + length (pad4 d))) - length (pad4 d))%nat
          with (e_off e - (off + length (pad4 d)))%nat by lia. exact H7.
      * rewrite app_length. lia.
      * intros j e' Hj Hn'. destruct j as [|j']; [lia|]. cbn [nth_error] in Hn'. apply (H9 j' e'); [lia|exact Hn'].
Qed.

(* non-vacuity: a concrete two-table font satisfies master_checksum's hypotheses *)
Example master_checksum_nonvacuous :
  exists file, write_sfnt [0;1;0;0] 2 ([([79;83;47;50], [1;2;3])] ++ (head_tag, [0;1;0;0;0;1;0;0;9;9;9;9;95;15;60;245]) :: []) = Ok file
               /\ calcChecksum file = 2981146554.
Proof. eexists. split; [vm_compute; reflexivity|vm_compute; reflexivity]. Qed.
