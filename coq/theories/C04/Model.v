(* C04/Model.v — sfnt container writer: calcChecksum, getSearchRange, SFNTWriter (flavor None).
   Transcribes ttLib/sfnt.py:215-414,637-658 and ttLib/ttFont.py:1691-1710. *)
From Coq Require Import ZArith List Bool Arith.
From FV Require Import Base.Ser Base.Res Base.BE.
Import ListNotations.
Open Scope Z_scope.

(* ---- calcChecksum: sum of big-endian uint32 words of the zero-padded data, mod 2^32.
   Expressed per byte: byte i contributes b * 256^(3 - i mod 4). *)
Definition weight (i : nat) : Z :=
  match (i mod 4)%nat with
  | O => 16777216 | 1%nat => 65536 | 2%nat => 256 | _ => 1
  end.
Fixpoint wsum (i : nat) (l : list Z) : Z :=
  match l with
  | [] => 0
  | b :: r => b * weight i + wsum (S i) r
  end.
Definition calcChecksum (data : list Z) : Z := (wsum 0 data) mod 4294967296.

(* ---- maxPowerOfTwo / getSearchRange *)
Fixpoint bitlen (fuel : nat) (x : Z) : Z :=
  match fuel with
  | O => 0
  | S f => if x =? 0 then 0 else 1 + bitlen f (Z.shiftr x 1)
  end.
Definition maxPowerOfTwo (x : Z) : Z := Z.max (bitlen 64 x - 1) 0.
Definition getSearchRange (n itemSize : Z) : Z * Z * Z :=
  let e := maxPowerOfTwo n in
  let sr := 2 ^ e * itemSize in
  (sr, e, Z.max 0 (n * itemSize - sr)).

(* ---- SFNTWriter *)
Definition pad4len (n : nat) : nat := ((4 - n mod 4) mod 4)%nat.
Definition pad4 (d : list Z) : list Z := d ++ repeat 0 (pad4len (length d)).

Record entry := mkE { e_tag : list Z; e_ck : Z; e_off : nat; e_len : nat }.

Definition head_tag : list Z := [104; 101; 97; 100].
Definition zero_adj (d : list Z) : list Z := firstn 8 d ++ [0; 0; 0; 0] ++ skipn 12 d.
Definition entry_ck (tag d : list Z) : Z :=
  if list_Z_eqb tag head_tag then calcChecksum (zero_adj d) else calcChecksum d.

Fixpoint layout (off : nat) (ts : list (list Z * list Z)) : list entry * list Z :=
  match ts with
  | [] => ([], [])
  | (t, d) :: r =>
    let '(es, body) := layout (off + length (pad4 d)) r in
    (mkE t (entry_ck t d) off (length d) :: es, pad4 d ++ body)
  end.

(* lexicographic order on tags (Python sorts the (tag, entry) items; tags are distinct) *)
Fixpoint tag_ltb (a b : list Z) : bool :=
  match a, b with
  | [], [] => false
  | [], _ :: _ => true
  | _ :: _, [] => false
  | x :: a', y :: b' => if x <? y then true else if y <? x then false else tag_ltb a' b'
  end.
Fixpoint insert_entry (e : entry) (l : list entry) : list entry :=
  match l with
  | [] => [e]
  | x :: r => if tag_ltb (e_tag e) (e_tag x) then e :: l else x :: insert_entry e r
  end.
Definition sort_entries (l : list entry) : list entry := fold_right insert_entry [] l.

Fixpoint has_dup (seen : list (list Z)) (ts : list (list Z * list Z)) : bool :=
  match ts with
  | [] => false
  | (t, _) :: r => if existsb (list_Z_eqb t) seen then true else has_dup (t :: seen) r
  end.

Definition u16_ok (v : Z) : bool := (0 <=? v) && (v <? 65536).
Definition u32_ok (v : Z) : bool := (0 <=? v) && (v <? 4294967296).

Definition entry_bytes (e : entry) : list Z :=
  e_tag e ++ pack_be 4 (e_ck e) ++ pack_be 4 (Z.of_nat (e_off e)) ++ pack_be 4 (Z.of_nat (e_len e)).

Definition header_bytes (version : list Z) (n : Z) : list Z :=
  let '(sr, es, rs) := getSearchRange n 16 in
  version ++ pack_be 2 n ++ pack_be 2 sr ++ pack_be 2 es ++ pack_be 2 rs.

(* BytesIO seek+write *)
Definition write_at (p : nat) (bs file : list Z) : list Z :=
  firstn p file ++ repeat 0 (p - length file) ++ bs ++ skipn (p + length bs) file.

Definition find_entry (tag : list Z) (es : list entry) : option entry :=
  find (fun e => list_Z_eqb (e_tag e) tag) es.

Definition sumz (l : list Z) : Z := fold_right Z.add 0 l.

(* whole life of a writer: SFNTWriter(file, numTables, version); w[tag]=data ...; close() *)
Definition write_sfnt (version : list Z) (numTables : Z) (ts : list (list Z * list Z)) : Res (list Z) :=
  if negb (u16_ok numTables) then Err StructError
  else if has_dup [] ts then Err LibError
  else if negb (Z.of_nat (length ts) =? numTables) then Err LibError
  else
    let dirsize := (12 + 16 * Z.to_nat numTables)%nat in
    let '(es, body) := layout dirsize ts in
    if negb (forallb (fun e => u32_ok (Z.of_nat (e_off e)) && u32_ok (Z.of_nat (e_len e))) es) then Err StructError
    else
      let '(sr, esel, rs) := getSearchRange numTables 16 in
      if negb (u16_ok sr && u16_ok rs) then Err StructError
      else
        let directory := header_bytes version numTables ++ flat_map entry_bytes (sort_entries es) in
        let file0 := directory ++ body in
        match find_entry head_tag es with
        | None => Ok file0
        | Some h =>
          let checksum := (sumz (map e_ck es) + calcChecksum directory) mod 4294967296 in
          let adj := (2981146554 - checksum) mod 4294967296 in      (* 0xB1B0AFBA *)
          (* writeMasterChecksum (as repaired, F23): a head table without room for checkSumAdjustment is left as it is *)
          if (e_len h <? 12)%nat then Ok file0
          else Ok (write_at (e_off h + 8) (pack_be 4 adj) file0)
        end.
