(* C04/Props.v — property theorems only *)
From Coq Require Import ZArith List Arith.
From FV Require Import Base.Ser Base.Res Base.BE C04.Model C04.Proofs.
Import ListNotations.
Open Scope Z_scope.

(* checksums compose over 4-byte aligned blocks, and padding does not change them *)
Theorem checksum_app_aligned : forall a b, (length a mod 4 = 0)%nat ->
  calcChecksum (a ++ b) = (calcChecksum a + calcChecksum b) mod 4294967296.
Proof. exact Proofs.checksum_app_aligned. Qed.
Print Assumptions checksum_app_aligned.

Theorem checksum_pad4 : forall d, calcChecksum (pad4 d) = calcChecksum d.
Proof. exact Proofs.checksum_pad4. Qed.
Print Assumptions checksum_pad4.

(* header search fields are what the OpenType text asks for: the largest power of two <= numTables *)
Theorem searchRange_spec : forall n, 1 <= n < 65536 ->
  let '(sr, es, rs) := getSearchRange n 16 in
  sr = 16 * 2 ^ es /\ 0 <= es /\ 2 ^ es <= n < 2 ^ (es + 1) /\ rs = 16 * n - sr.
Proof. exact Proofs.searchRange_spec. Qed.
Print Assumptions searchRange_spec.

(* every table is where its directory entry says: aligned, in bounds, exact bytes, no overlap *)
Theorem layout_sound : forall ts off i e,
  nth_error (fst (layout off ts)) i = Some e ->
  exists t d, nth_error ts i = Some (t, d) /\ e_tag e = t /\ e_len e = length d /\
    e_ck e = entry_ck t d /\
    (off <= e_off e)%nat /\ ((e_off e - off) mod 4 = 0)%nat /\
    firstn (length d) (skipn (e_off e - off) (snd (layout off ts))) = d /\
    (e_off e - off + length (pad4 d) <= length (snd (layout off ts)))%nat /\
    (forall j e', (i < j)%nat -> nth_error (fst (layout off ts)) j = Some e' ->
                  (e_off e + length (pad4 d) <= e_off e')%nat).
Proof. exact Proofs.layout_sound. Qed.
Print Assumptions layout_sound.

(* a written font with exactly one head table (>= 12 bytes) checksums to 0xB1B0AFBA as a whole *)
Theorem master_checksum : forall version numTables pre dh post file,
  length version = 4%nat ->
  Forall (fun td => length (fst td) = 4%nat) (pre ++ (head_tag, dh) :: post) ->
  ~ In head_tag (map fst pre) -> ~ In head_tag (map fst post) ->
  (12 <= length dh)%nat ->
  write_sfnt version numTables (pre ++ (head_tag, dh) :: post) = Ok file ->
  calcChecksum file = 2981146554.
Proof. exact Proofs.master_checksum. Qed.
Print Assumptions master_checksum.

(* ---- WOFF2's transformed glyf table: the point triplets of a simple glyph (ModelTriplet.v: _encodeTriplets / _decodeTriplets,
   all 128 delta classes) decode to the points that were encoded and leave what follows in both streams untouched *)
From FV Require C04.ModelTriplet C04.ProofsTriplet.
Theorem woff2_triplets_roundtrip : forall pts fs ts frest trest, ModelTriplet.encodeTriplets pts = Ok (fs, ts) ->
  ModelTriplet.decodeTriplets (length pts) (fs ++ frest) (ts ++ trest) = Ok (pts, frest, trest).
Proof. exact ProofsTriplet.triplets_roundtrip. Qed.
Print Assumptions woff2_triplets_roundtrip.

(* the encoder accepts a step exactly when both of its components fit 16 bits *)
Theorem woff2_triplet_accepts : forall x y on, Z.abs x < 65536 -> Z.abs y < 65536 -> exists f bs, ModelTriplet.enc_point x y on = Ok (f, bs).
Proof. exact ProofsTriplet.enc_point_ok. Qed.
Print Assumptions woff2_triplet_accepts.
Theorem woff2_triplet_refuses : forall x y on, 65536 <= Z.abs x \/ 65536 <= Z.abs y -> ModelTriplet.enc_point x y on = Err OverflowError.
Proof. exact ProofsTriplet.enc_point_too_far. Qed.
Print Assumptions woff2_triplet_refuses.

(* ---- the composite statistics maxp.recalc derives (ModelMaxp.v: Glyph.getCompositeMaxpValues with its depth accumulator):
   total points and contours of the flattened glyph, and the depth it was entered with plus the levels of composites below it *)
From FV Require C04.ModelMaxp C04.ProofsMaxp.
Theorem composite_maxp_values : forall cs depth,
  ModelMaxp.comp_values (ModelMaxp.GComposite cs) depth =
  (ModelMaxp.total_points (ModelMaxp.GComposite cs), ModelMaxp.total_contours (ModelMaxp.GComposite cs),
   depth + ModelMaxp.nest (ModelMaxp.GComposite cs)).
Proof. exact ProofsMaxp.composite_maxp_values. Qed.
Print Assumptions composite_maxp_values.

(* ---- "every saved file is a valid container": the file SFNTWriter produces (C04/Model.v write_sfnt) is read back by SFNTReader
   (C20/Model.v open_sfnt / load_table): the directory is found with the version that was written and one entry per table, and
   every table's bytes are the bytes that were handed to the writer -- head apart from the four bytes of checkSumAdjustment.
   For ANY number of tables of any sizes, in any order -- a head table too short to hold the field included: the proof first
   needed `head` to be at least 12 bytes long, and the real writer failed exactly there (it wrote the four bytes into the NEXT
   table: defect F23, repaired in /repo; the model follows the repaired writer). *)
From FV Require C20.Model C04.ProofsContainer.
Theorem written_file_reads_back : forall version n ts file,
  ProofsContainer.version_ok version ->
  Forall (fun td => length (fst td) = 4%nat) ts ->
  write_sfnt version n ts = Ok file ->
  exists dir, C20.Model.open_sfnt file 0 = Ok (version, dir) /\ length dir = length ts /\
    forall t d, In (t, d) ts ->
      exists e d', In e dir /\ C20.Model.d_tag e = t /\ C20.Model.load_table file e = Ok d' /\
                   ProofsContainer.same_but_adjustment t d d'.
Proof. exact ProofsContainer.written_file_reads_back. Qed.
Print Assumptions written_file_reads_back.

(* ---- derived fields live on the order in which tables are compiled (ModelDeps.v: TTFont._writeTable): for ANY declared
   dependencies, any set of tables in the font and any order in which save walks them, a table is compiled after every table it
   depends on that the font has *)
From FV Require C04.ModelDeps C04.ProofsDeps Data.Data_deps.
Theorem compile_order_respects_dependencies : forall D present fuel tags done comp,
  ModelDeps.save_order fuel D present tags = Some (done, comp) -> (forall t, In t tags -> In t present) ->
  (forall t, In t tags -> In t comp) /\
  (forall t d, In t comp -> In d (ModelDeps.deps_of D t) -> In d present -> ProofsDeps.before d t comp).
Proof. exact ProofsDeps.compile_order_respects_dependencies. Qed.
Print Assumptions compile_order_respects_dependencies.

(* ... and the dependencies the table classes declare (Data_deps.v, regenerated from the source on every run) contain every pair
   the derived fields need: hhea after hmtx, vhea after vmtx, loca and maxp after glyf, head after loca and maxp, gvar/avar/cvar
   after fvar; and they have no cycle *)
Theorem required_dependencies_declared : forallb ProofsDeps.declared ProofsDeps.required = true.
Proof. exact ProofsDeps.required_dependencies_declared. Qed.
Print Assumptions required_dependencies_declared.
Theorem declared_dependencies_acyclic :
  forallb (fun r => forallb (fun d => Nat.ltb (ProofsDeps.rankf 8 d) (ProofsDeps.rankf 8 (fst r))) (snd r)) Data_deps.table_dependencies = true
  /\ forallb (fun r => Nat.ltb (ProofsDeps.rankf 8 (fst r)) 5) Data_deps.table_dependencies = true.
Proof. exact ProofsDeps.declared_dependencies_acyclic. Qed.
Print Assumptions declared_dependencies_acyclic.
