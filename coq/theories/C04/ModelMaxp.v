(* C04/ModelMaxp.v — ttLib/tables/_g_l_y_f.py: Glyph.getCompositeMaxpValues (829-847) and the composite part of maxp.recalc
   (_m_a_x_p.py 82-102).  A glyph is a tree: empty, simple (points, contours) or composite (its components' glyphs). *)
From Coq Require Import ZArith List Bool.
From FV Require Import Base.Ser Base.Res.
Import ListNotations.
Open Scope Z_scope.

Inductive glyph :=
| GEmpty                                   (* numberOfContours == 0 *)
| GSimple (npoints ncontours : Z)          (* numberOfContours > 0 *)
| GComposite (components : list glyph).

(* getCompositeMaxpValues(glyfTable, maxComponentDepth) on a composite: (nPoints, nContours, maxComponentDepth) *)
Fixpoint comp_values (g : glyph) (depth : Z) : Z * Z * Z :=
  match g with
  | GComposite comps =>
    (fix loop (cs : list glyph) (acc : Z * Z * Z) : Z * Z * Z :=
       match cs with
       | [] => acc
       | c :: r =>
         let '(np, nc, md) := acc in
         match c with
         | GEmpty => loop r acc
         | GSimple p k => loop r (np + p, nc + k, md)
         | GComposite _ => let '(p, k, d) := comp_values c (depth + 1) in loop r (np + p, nc + k, Z.max md d)
         end
       end) comps (0, 0, depth)
  | _ => (0, 0, depth)
  end.

(* maxp.recalc over the glyphs of a font: (maxCompositePoints, maxCompositeContours, maxComponentElements, maxComponentDepth) *)
Definition recalc_composites (glyphs : list glyph) : Z * Z * Z * Z :=
  fold_left (fun acc g =>
    let '(mp, mc, me, md) := acc in
    match g with
    | GComposite comps => let '(p, k, d) := comp_values g 1 in (Z.max mp p, Z.max mc k, Z.max me (Z.of_nat (length comps)), Z.max md d)
    | _ => acc
    end) glyphs (0, 0, 0, 0).

(* ---- what the numbers mean *)
Fixpoint total_points (g : glyph) : Z :=
  match g with GEmpty => 0 | GSimple p _ => p | GComposite cs => fold_right (fun c a => total_points c + a) 0 cs end.
Fixpoint total_contours (g : glyph) : Z :=
  match g with GEmpty => 0 | GSimple _ k => k | GComposite cs => fold_right (fun c a => total_contours c + a) 0 cs end.
(* levels of composites below this one *)
Fixpoint nest (g : glyph) : Z :=
  match g with
  | GComposite cs => fold_right (fun c a => match c with GComposite _ => Z.max (1 + nest c) a | _ => a end) 0 cs
  | _ => 0
  end.
