From Coq Require Import ZArith List String.
From FV Require Import Base.Ser Base.Res C04.Model.
From FV Require C04.ModelTriplet.
Import ListNotations.
Open Scope string_scope.
Definition reg : registry := [
  ("calcChecksum", run1 calcChecksum);
  ("getSearchRange", run2 getSearchRange);
  ("maxPowerOfTwo", run1 maxPowerOfTwo);
  ("write_sfnt", run3 write_sfnt);
  ("encodeTriplets", run1 ModelTriplet.encodeTriplets);
  ("decodeTriplets", run3 ModelTriplet.decodeTriplets)
].
Definition fv_entry := dispatch reg.
