From Coq Require Import ZArith List String.
From FV Require Import Base.Ser Base.Res C04.Model.
From FV Require C04.ModelTriplet C04.ModelMaxp.
Open Scope Z_scope.
Import ListNotations.
Open Scope string_scope.
(* a ModelMaxp.glyph tree in prefix form: 0 | 1 points contours | 2 n child_1 ... child_n *)
Fixpoint de_glyph (fuel : nat) (l : list Z) : option (ModelMaxp.glyph * list Z) :=
  match fuel with
  | O => None
  | S f =>
    match l with
    | 0 :: r => Some (ModelMaxp.GEmpty, r)
    | 1 :: p :: k :: r => Some (ModelMaxp.GSimple p k, r)
    | 2 :: n :: r =>
      match (fix many (cnt : nat) (rest : list Z) : option (list ModelMaxp.glyph * list Z) :=
               match cnt with
               | O => Some ([], rest)
               | S c => match de_glyph f rest with
                        | Some (g, rest') => match many c rest' with Some (gs, rest'') => Some (g :: gs, rest'') | None => None end
                        | None => None
                        end
               end) (Z.to_nat n) r with
      | Some (gs, rest) => Some (ModelMaxp.GComposite gs, rest)
      | None => None
      end
    | _ => None
    end
  end.
Global Instance De_glyph : De ModelMaxp.glyph := fun l => de_glyph (S (List.length l)) l.
Definition comp_values_top (g : ModelMaxp.glyph) : Z * Z * Z := ModelMaxp.comp_values g 1.

From FV Require C04.ModelDeps Data.Data_deps.
Definition save_order_entry (present tags : list (list Z)) : option (list (list Z)) :=
  match ModelDeps.save_order 8 Data_deps.table_dependencies present tags with Some (_, comp) => Some comp | None => None end.
Open Scope string_scope.
Definition reg : registry := [
  ("calcChecksum", run1 calcChecksum);
  ("getSearchRange", run2 getSearchRange);
  ("maxPowerOfTwo", run1 maxPowerOfTwo);
  ("write_sfnt", run3 write_sfnt);
  ("encodeTriplets", run1 ModelTriplet.encodeTriplets);
  ("decodeTriplets", run3 ModelTriplet.decodeTriplets);
  ("compositeMaxp", run1 comp_values_top);
  ("recalcComposites", run1 ModelMaxp.recalc_composites);
  ("save_order", run2 save_order_entry)
].
Definition fv_entry := dispatch reg.
