(* C04/ProofsContainer.v — the file SFNTWriter produces is read back by SFNTReader: the directory is found, every table is
   where its entry says, and its bytes are the bytes that were written (head apart from checkSumAdjustment). *)
From Coq Require Import ZArith List Bool Lia Arith Permutation.
From FV Require Import Base.Ser Base.Res Base.BE C04.Model C04.Proofs C20.Model.
Import ListNotations.
Open Scope Z_scope.
Ltac Zify.zify_post_hook ::= Z.to_euclidean_division_equations.

Lemma be_u_pack4 v : 0 <= v < 4294967296 -> be_u (pack_be 4 v) = v.
Proof. intros H. rewrite pack_be_4. unfold be_u. cbn [fold_left]. lia. Qed.
Lemma be_u_pack2 v : 0 <= v < 65536 -> be_u (pack_be 2 v) = v.
Proof. intros H. rewrite pack_be_2. unfold be_u. cbn [fold_left]. lia. Qed.

Definition to_dirent (e : entry) : dirent := mkD (e_tag e) (e_ck e) (Z.of_nat (e_off e)) (Z.of_nat (e_len e)).
Definition entry_ok (e : entry) : Prop :=
  length (e_tag e) = 4%nat /\ 0 <= e_ck e < 4294967296 /\ Z.of_nat (e_off e) < 4294967296 /\ Z.of_nat (e_len e) < 4294967296.

Lemma firstn_app_exact {A} (a b : list A) n : length a = n -> firstn n (a ++ b) = a.
Proof. intros <-. rewrite firstn_app, Nat.sub_diag, firstn_all. cbn. apply app_nil_r. Qed.
Lemma skipn_app_exact {A} (a b : list A) n : length a = n -> skipn n (a ++ b) = b.
Proof. intros <-. rewrite skipn_app, Nat.sub_diag, skipn_all. reflexivity. Qed.

Lemma entry_bytes_length e : length (e_tag e) = 4%nat -> length (entry_bytes e) = 16%nat.
Proof. intros H. unfold entry_bytes. rewrite !app_length, !pack_be_length, H. reflexivity. Qed.

Lemma len4 {A} (l : list A) : length l = 4%nat -> exists a b c d, l = [a; b; c; d].
Proof. destruct l as [|a [|b [|c [|d [|x r]]]]]; try discriminate. intros _. eauto. Qed.
Lemma pieces4 (a b c d : list Z) : length a = 4%nat -> length b = 4%nat -> length c = 4%nat -> length d = 4%nat ->
  let data := a ++ b ++ c ++ d in
  firstn 4 data = a /\ firstn 4 (skipn 4 data) = b /\ firstn 4 (skipn 8 data) = c /\ firstn 4 (skipn 12 data) = d.
Proof.
  intros Ha Hb Hc Hd.
  destruct (len4 a Ha) as [a1 [a2 [a3 [a4 ->]]]]. destruct (len4 b Hb) as [b1 [b2 [b3 [b4 ->]]]].
  destruct (len4 c Hc) as [c1 [c2 [c3 [c4 ->]]]]. destruct (len4 d Hd) as [d1 [d2 [d3 [d4 ->]]]].
  cbn. auto.
Qed.

Lemma read_entry e rest : entry_ok e ->
  let data := firstn 16 (entry_bytes e ++ rest) in
  length data = 16%nat /\
  mkD (firstn 4 data) (be_u (firstn 4 (skipn 4 data))) (be_u (firstn 4 (skipn 8 data))) (be_u (firstn 4 (skipn 12 data))) = to_dirent e.
Proof.
  intros [Ht [Hc [Ho Hl]]] data.
  assert (Hd : data = entry_bytes e) by (unfold data; apply firstn_app_exact, entry_bytes_length, Ht).
  rewrite Hd. split; [apply entry_bytes_length, Ht|].
  unfold entry_bytes, to_dirent.
  destruct (pieces4 (e_tag e) (pack_be 4 (e_ck e)) (pack_be 4 (Z.of_nat (e_off e))) (pack_be 4 (Z.of_nat (e_len e)))
              Ht (pack_be_length _ _) (pack_be_length _ _) (pack_be_length _ _)) as [P1 [P2 [P3 P4]]].
  rewrite P1, P2, P3, P4. rewrite !be_u_pack4 by lia. reflexivity.
Qed.

Lemma read_entries_flat : forall es pre post pos, length pre = pos -> Forall entry_ok es ->
  read_entries (pre ++ flat_map entry_bytes es ++ post) pos (length es) = Ok (map to_dirent es).
Proof.
  induction es as [|e r IH]; intros pre post pos Hp HF; [reflexivity|].
  inversion HF as [|? ? He Hr]; subst. cbn [length read_entries flat_map map].
  set (file := pre ++ (entry_bytes e ++ flat_map entry_bytes r) ++ post).
  assert (Hsk : skipn (length pre) file = entry_bytes e ++ (flat_map entry_bytes r ++ post)).
  { unfold file. rewrite (skipn_app_exact pre _ _ eq_refl), <- app_assoc. reflexivity. }
  unfold read_at. rewrite Hsk.
  destruct (read_entry e (flat_map entry_bytes r ++ post) He) as [L D].
  rewrite L. cbn [Nat.eqb negb]. rewrite D.
  assert (Hfile : file = (pre ++ entry_bytes e) ++ flat_map entry_bytes r ++ post) by (unfold file; rewrite <- !app_assoc; reflexivity).
  rewrite Hfile, (IH (pre ++ entry_bytes e) post (length pre + 16)%nat).
  - reflexivity.
  - rewrite app_length, entry_bytes_length by apply He. reflexivity.
  - exact Hr.
Qed.

(* ---- BytesIO seek + write inside the buffer, and reads around it *)
Lemma write_at_inside q bs (b : list Z) : (q + length bs <= length b)%nat ->
  write_at q bs b = firstn q b ++ bs ++ skipn (q + length bs) b.
Proof. intros H. unfold write_at. replace (q - length b)%nat with 0%nat by lia. reflexivity. Qed.
Lemma write_at_length q bs (b : list Z) : (q + length bs <= length b)%nat -> length (write_at q bs b) = length b.
Proof.
  intros H. rewrite write_at_inside by exact H. rewrite !app_length, firstn_length, skipn_length. lia.
Qed.
Lemma write_at_app_r (a b bs : list Z) p : (length a <= p)%nat -> (p - length a + length bs <= length b)%nat ->
  write_at p bs (a ++ b) = a ++ write_at (p - length a) bs b.
Proof.
  intros H1 H2. rewrite !write_at_inside by (rewrite ?app_length; lia).
  rewrite firstn_app, firstn_all2 by lia. rewrite <- app_assoc. f_equal. f_equal. f_equal.
  rewrite skipn_app, skipn_all2 by lia. cbn [app]. f_equal. lia.
Qed.

Lemma region_before (b X : list Z) q o n : (o + n <= q)%nat -> (q <= length b)%nat ->
  firstn n (skipn o (firstn q b ++ X)) = firstn n (skipn o b).
Proof.
  intros H1 H2. rewrite skipn_app. rewrite firstn_length, Nat.min_l by lia.
  replace (o - q)%nat with 0%nat by lia. cbn [skipn].
  rewrite firstn_app. rewrite skipn_length, firstn_length, Nat.min_l by lia.
  replace (n - (q - o))%nat with 0%nat by lia. cbn [firstn]. rewrite app_nil_r.
  rewrite skipn_firstn_comm, firstn_firstn. f_equal. lia.
Qed.
Lemma region_after (b bs : list Z) q o n : (q + length bs <= o)%nat -> (q + length bs <= length b)%nat ->
  firstn n (skipn o (firstn q b ++ bs ++ skipn (q + length bs) b)) = firstn n (skipn o b).
Proof.
  intros H1 H2. f_equal.
  rewrite skipn_app. rewrite firstn_length, Nat.min_l by lia. rewrite skipn_all2 by (rewrite firstn_length; lia). cbn [app].
  rewrite skipn_app. rewrite skipn_all2 by lia. cbn [app].
  rewrite skipn_skipn'. f_equal. lia.
Qed.
Lemma decompose_region (b : list Z) o n : b = firstn o b ++ firstn n (skipn o b) ++ skipn (o + n) b.
Proof.
  rewrite <- (firstn_skipn o b) at 1. f_equal. rewrite <- (firstn_skipn n (skipn o b)) at 1. f_equal.
  rewrite skipn_skipn'. reflexivity.
Qed.
Lemma region_patched (P d8 d4 dr R bs : list Z) o n :
  length P = o -> length d8 = 8%nat -> length d4 = 4%nat -> length bs = 4%nat -> n = (12 + length dr)%nat ->
  let b := P ++ d8 ++ d4 ++ dr ++ R in
  firstn n (skipn o (firstn (o + 8) b ++ bs ++ skipn (o + 8 + 4) b)) = d8 ++ bs ++ dr.
Proof.
  intros LP L8 L4 Lb Hn b.
  assert (F1 : firstn (o + 8) b = P ++ d8).
  { unfold b. rewrite app_assoc. apply firstn_app_exact. rewrite app_length. lia. }
  assert (F2 : skipn (o + 8 + 4) b = dr ++ R).
  { unfold b. replace (P ++ d8 ++ d4 ++ dr ++ R) with ((P ++ d8 ++ d4) ++ dr ++ R) by (rewrite <- !app_assoc; reflexivity).
    apply skipn_app_exact. rewrite !app_length. lia. }
  rewrite F1, F2, <- app_assoc. rewrite (skipn_app_exact P _ o LP).
  replace (d8 ++ bs ++ dr ++ R) with ((d8 ++ bs ++ dr) ++ R) by (rewrite <- !app_assoc; reflexivity).
  apply firstn_app_exact. rewrite !app_length. lia.
Qed.

(* ---- the directory is read back *)
Definition version_ok (v : list Z) : Prop := v = v_0100 \/ v = v_OTTO \/ v = v_true.

Lemma open_written version n sr esl rs L body :
  version_ok version -> 0 <= n < 65536 -> Forall entry_ok L -> Z.to_nat n = length L ->
  open_sfnt ((version ++ pack_be 2 n ++ pack_be 2 sr ++ pack_be 2 esl ++ pack_be 2 rs) ++ flat_map entry_bytes L ++ body) 0
  = Ok (version, map to_dirent L).
Proof.
  intros HV Hn HF HL.
  assert (Lv : length version = 4%nat) by (destruct HV as [-> | [-> | ->]]; reflexivity).
  set (hdr := version ++ pack_be 2 n ++ pack_be 2 sr ++ pack_be 2 esl ++ pack_be 2 rs).
  assert (Lh : length hdr = 12%nat) by (unfold hdr; rewrite !app_length, !pack_be_length, Lv; reflexivity).
  set (file := hdr ++ flat_map entry_bytes L ++ body).
  assert (F12 : read_at file 0 12 = hdr) by (unfold read_at, file; cbn [skipn]; apply firstn_app_exact, Lh).
  assert (F4 : read_at file 0 4 = version).
  { unfold read_at, file, hdr. cbn [skipn]. rewrite <- !app_assoc. apply firstn_app_exact, Lv. }
  unfold open_sfnt. rewrite F4.
  assert (Hnt : list_Z_eqb version sig_ttcf = false) by (destruct HV as [-> | [-> | ->]]; reflexivity).
  rewrite Hnt. unfold read_sfnt_dir. rewrite F12, Lh. cbn [Nat.eqb negb].
  assert (Hv4 : firstn 4 hdr = version) by (unfold hdr; apply firstn_app_exact, Lv).
  assert (Hn2 : firstn 2 (skipn 4 hdr) = pack_be 2 n).
  { unfold hdr. rewrite (skipn_app_exact version _ 4 Lv). apply firstn_app_exact, pack_be_length. }
  rewrite Hv4, Hn2, be_u_pack2 by lia.
  assert (Hok : list_Z_eqb version v_0100 || list_Z_eqb version v_OTTO || list_Z_eqb version v_true = true)
    by (destruct HV as [-> | [-> | ->]]; reflexivity).
  rewrite Hok. cbn [negb]. rewrite HL.
  unfold file. rewrite (read_entries_flat L hdr body (0 + 12)%nat Lh HF). reflexivity.
Qed.

(* ---- a table is read back from where its entry says *)
Lemma load_written (dirbytes body : list Z) D e :
  length dirbytes = D -> (D <= e_off e)%nat -> (e_off e - D + e_len e <= length body)%nat ->
  load_table (dirbytes ++ body) (to_dirent e) = Ok (firstn (e_len e) (skipn (e_off e - D) body)).
Proof.
  intros LD H1 H2. unfold load_table, to_dirent, read_atz. cbn [d_off d_len].
  rewrite app_length, LD.
  destruct (Z.leb_spec (Z.of_nat (D + length body)) (Z.of_nat (e_off e))) as [Hle|Hgt].
  - assert (e_len e = 0)%nat by lia. rewrite H. cbn [length firstn]. reflexivity.
  - unfold read_at. rewrite Nat2Z.id.
    replace (Z.to_nat (Z.min (Z.of_nat (e_len e)) (Z.of_nat (D + length body)))) with (e_len e) by lia.
    rewrite skipn_app, skipn_all2 by lia. cbn [app]. rewrite LD.
    rewrite firstn_length, skipn_length. replace (Nat.min (e_len e) (length body - (e_off e - D))) with (e_len e) by lia.
    rewrite Z.eqb_refl. reflexivity.
Qed.

Lemma pad4_ge d : (length d <= length (pad4 d))%nat.
Proof. unfold pad4. rewrite app_length. lia. Qed.
Lemma calcChecksum_range d : 0 <= calcChecksum d < 4294967296.
Proof. unfold calcChecksum. apply Z.mod_pos_bound. lia. Qed.
Lemma entry_ck_range t d : 0 <= entry_ck t d < 4294967296.
Proof. unfold entry_ck. destruct (list_Z_eqb t head_tag); apply calcChecksum_range. Qed.

(* ---- the theorem *)
Definition same_but_adjustment (t : list Z) (d d' : list Z) : Prop :=
  d' = d \/ (t = head_tag /\ length d' = length d /\ firstn 8 d' = firstn 8 d /\ skipn 12 d' = skipn 12 d).

Theorem written_file_reads_back version n ts file :
  version_ok version ->
  Forall (fun td => length (fst td) = 4%nat) ts ->
  write_sfnt version n ts = Ok file ->
  exists dir, open_sfnt file 0 = Ok (version, dir) /\ length dir = length ts /\
    forall t d, In (t, d) ts ->
      exists e d', In e dir /\ d_tag e = t /\ load_table file e = Ok d' /\ same_but_adjustment t d d'.
Proof.
  intros HV HT HW. unfold write_sfnt in HW.
  destruct (u16_ok n) eqn:En; cbn [negb] in HW; [|discriminate].
  destruct (has_dup [] ts) eqn:Edup; [discriminate|].
  destruct (Z.eqb_spec (Z.of_nat (length ts)) n) as [Hlen|]; cbn [negb] in HW; [|discriminate].
  set (D := (12 + 16 * Z.to_nat n)%nat) in *.
  destruct (layout D ts) as [es body] eqn:Elay.
  destruct (forallb (fun e => u32_ok (Z.of_nat (e_off e)) && u32_ok (Z.of_nat (e_len e))) es) eqn:Eb; cbn [negb] in HW; [|discriminate].
  destruct (getSearchRange n 16) as [[sr esl] rs] eqn:Esr.
  destruct (u16_ok sr && u16_ok rs) eqn:Eu; cbn [negb] in HW; [|discriminate].
  unfold u16_ok in En. apply andb_true_iff in En. destruct En as [N0 N1]. apply Z.leb_le in N0. apply Z.ltb_lt in N1.
  (* the entries *)
  assert (Les : length es = length ts) by (pose proof (layout_length ts D) as L; rewrite Elay in L; exact L).
  assert (Hsound : forall i e, nth_error es i = Some e ->
            exists t d, nth_error ts i = Some (t, d) /\ e_tag e = t /\ e_len e = length d /\ e_ck e = entry_ck t d /\
              (D <= e_off e)%nat /\ firstn (length d) (skipn (e_off e - D) body) = d /\
              (e_off e - D + length (pad4 d) <= length body)%nat /\
              (forall j e', (i < j)%nat -> nth_error es j = Some e' -> (e_off e + length (pad4 d) <= e_off e')%nat)).
  { intros i e Hi. pose proof (layout_sound ts D i e) as LS. rewrite Elay in LS. cbn [fst snd] in LS.
    destruct (LS Hi) as [t [d [A [B [C [C2 [C3 [_ [C5 [C6 C7]]]]]]]]]]. exists t, d. repeat split; assumption. }
  assert (Hok : Forall entry_ok es).
  { apply Forall_forall. intros e He. apply In_nth_error in He. destruct He as [i Hi].
    destruct (Hsound i e Hi) as [t [d [A [B [C [C2 _]]]]]].
    rewrite forallb_forall in Eb. specialize (Eb e (nth_error_In _ _ Hi)).
    apply andb_true_iff in Eb. destruct Eb as [E1 E2]. unfold u32_ok in E1, E2.
    apply andb_true_iff in E1, E2. destruct E1 as [_ E1], E2 as [_ E2]. apply Z.ltb_lt in E1, E2.
    repeat split; try assumption.
    - rewrite B. rewrite Forall_forall in HT. apply (HT (t, d)), (nth_error_In _ _ A).
    - rewrite C2. apply entry_ck_range.
    - rewrite C2. apply entry_ck_range. }
  pose proof (sort_entries_perm es) as HP.
  assert (HokS : Forall entry_ok (sort_entries es)).
  { apply Forall_forall. intros e He. rewrite Forall_forall in Hok. apply Hok. eapply Permutation_in; eassumption. }
  assert (LS : Z.to_nat n = length (sort_entries es)) by (rewrite (Permutation_length HP), Les; lia).
  set (hdr := header_bytes version n) in *.
  assert (Ehdr : hdr = version ++ pack_be 2 n ++ pack_be 2 sr ++ pack_be 2 esl ++ pack_be 2 rs)
    by (unfold hdr, header_bytes; rewrite Esr; reflexivity).
  set (flat := flat_map entry_bytes (sort_entries es)) in *.
  assert (Lv : length version = 4%nat) by (destruct HV as [-> | [-> | ->]]; reflexivity).
  assert (Ldir : length (hdr ++ flat) = D).
  { rewrite app_length. unfold hdr. rewrite (header_length version n Lv). unfold flat.
    rewrite flat_map_entry_bytes_length; [unfold D; lia|].
    eapply Forall_impl; [|exact HokS]. intros e [H _]. exact H. }
  (* whatever the body finally is, directory and tables are read through these two facts *)
  assert (Hopen : forall body', open_sfnt ((hdr ++ flat) ++ body') 0 = Ok (version, map to_dirent (sort_entries es))).
  { intros body'. rewrite <- app_assoc, Ehdr. apply open_written; try assumption. lia. }
  assert (Hin : forall e, In e es -> In (to_dirent e) (map to_dirent (sort_entries es))).
  { intros e He. apply in_map. eapply Permutation_in; [apply Permutation_sym; exact HP|exact He]. }
  exists (map to_dirent (sort_entries es)).
  assert (Hplain : file = (hdr ++ flat) ++ body ->
            open_sfnt file 0 = Ok (version, map to_dirent (sort_entries es)) /\ length (map to_dirent (sort_entries es)) = length ts /\
            forall t d, In (t, d) ts -> exists e d', In e (map to_dirent (sort_entries es)) /\ d_tag e = t /\ load_table file e = Ok d' /\ same_but_adjustment t d d').
  { intros ->. split; [apply Hopen|]. split; [rewrite map_length, (Permutation_length HP); exact Les|].
    intros t d Hin_ts. apply In_nth_error in Hin_ts. destruct Hin_ts as [i Hi].
    destruct (nth_error es i) as [e|] eqn:Ee; [|apply nth_error_None in Ee; assert (i < length ts)%nat by (apply nth_error_Some; congruence); lia].
    destruct (Hsound i e Ee) as [t' [d' [A' [B' [C' [C2' [C3' [C4' [C5' C6']]]]]]]]].
    assert (Et : t' = t /\ d' = d) by (rewrite Hi in A'; inversion A'; auto). destruct Et as [-> ->]. pose proof (pad4_ge d) as Hpd.
    exists (to_dirent e), d. split; [apply Hin, (nth_error_In _ _ Ee)|]. split; [exact B'|].
    split; [|left; reflexivity].
    rewrite (load_written (hdr ++ flat) body D e Ldir C3') by lia. rewrite C', C4'. reflexivity. }
  destruct (find_entry head_tag es) as [h|] eqn:Eh; [destruct (e_len h <? 12)%nat eqn:Eshort|].
  - (* a head table without room for checkSumAdjustment: nothing is patched *)
    apply Ok_inj in HW. apply Hplain. symmetry. exact HW.
  - (* a head table: checkSumAdjustment is patched in place *)
    apply Nat.ltb_ge in Eshort.
    set (adj := pack_be 4 ((2981146554 - (sumz (map e_ck es) + calcChecksum (hdr ++ flat)) mod 4294967296) mod 4294967296)) in *.
    inversion HW as [HF]. clear HW.
    unfold find_entry in Eh. apply find_some in Eh. destruct Eh as [Hh Hth]. apply list_Z_eqb_eq in Hth.
    destruct (In_nth_error _ _ Hh) as [k Hk].
    destruct (Hsound k h Hk) as [th [dh [A [B [C [C2 [C3 [C4 [C5 C6]]]]]]]]].
    assert (Hdh : (12 <= length dh)%nat) by (rewrite <- C; exact Eshort).
    pose proof (pad4_ge dh) as Hpg.
    set (q := (e_off h - D + 8)%nat).
    assert (La : length adj = 4%nat) by apply pack_be_length.
    assert (Efile : write_at (e_off h + 8) adj ((hdr ++ flat) ++ body) = (hdr ++ flat) ++ write_at q adj body).
    { rewrite write_at_app_r by (rewrite Ldir, ?La; lia). rewrite Ldir. f_equal. f_equal. unfold q. lia. }
    rewrite Efile.
    assert (Ebody' : write_at q adj body = firstn q body ++ adj ++ skipn (q + length adj) body)
      by (apply write_at_inside; rewrite La; unfold q; lia).
    split; [apply Hopen|]. split; [rewrite map_length, (Permutation_length HP); exact Les|].
    intros t d Hin_ts. apply In_nth_error in Hin_ts. destruct Hin_ts as [i Hi].
    destruct (nth_error es i) as [e|] eqn:Ee; [|apply nth_error_None in Ee; assert (i < length ts)%nat by (apply nth_error_Some; congruence); lia].
    destruct (Hsound i e Ee) as [t' [d' [A' [B' [C' [C2' [C3' [C4' [C5' C6']]]]]]]]].
    assert (Et : t' = t /\ d' = d) by (rewrite Hi in A'; inversion A'; auto). destruct Et as [-> ->]. clear A'.
    pose proof (pad4_ge d) as Hpd.
    assert (Hload : load_table ((hdr ++ flat) ++ write_at q adj body) (to_dirent e)
                    = Ok (firstn (e_len e) (skipn (e_off e - D) (write_at q adj body)))).
    { apply load_written; [exact Ldir|exact C3'|]. rewrite write_at_length by (rewrite La; unfold q; lia). lia. }
    exists (to_dirent e), (firstn (e_len e) (skipn (e_off e - D) (write_at q adj body))).
    split; [apply Hin, (nth_error_In _ _ Ee)|]. split; [exact B'|]. split; [exact Hload|].
    rewrite Ebody', C'.
    destruct (lt_eq_lt_dec i k) as [[Hlt|Heq]|Hgt].
    + left. specialize (C6' k h Hlt Hk). rewrite region_before by (unfold q; lia). exact C4'.
    + right. subst i. rewrite Hk in Ee. inversion Ee; subst e.
      assert (t = head_tag) by congruence. split; [assumption|].
      (* decompose the body around the head table *)
      pose proof (decompose_region body (e_off h - D) (length d)) as Edec. rewrite C4' in Edec.
      destruct (split_head d ltac:(rewrite <- C in Hdh; rewrite C' in Hdh; lia)) as [Ed [L8 L4]].
      assert (Hd12 : (12 <= length d)%nat) by (rewrite <- C', C; exact Hdh).
      set (P := firstn (e_off h - D) body) in *. set (R := skipn (e_off h - D + length d) body) in *.
      assert (LP : length P = (e_off h - D)%nat) by (unfold P; rewrite firstn_length; lia).
      assert (Eb2 : body = P ++ firstn 8 d ++ firstn 4 (skipn 8 d) ++ skipn 12 d ++ R).
      { rewrite Edec at 1. rewrite Ed at 1. rewrite <- !app_assoc. reflexivity. }
      unfold q. rewrite La. rewrite Eb2.
      rewrite (region_patched P (firstn 8 d) (firstn 4 (skipn 8 d)) (skipn 12 d) R adj (e_off h - D) (length d) LP L8 L4 La)
        by (rewrite skipn_length; lia).
      repeat split.
      * rewrite !app_length, L8, La, skipn_length. lia.
      * apply firstn_app_exact, L8.
      * replace 12%nat with (length (firstn 8 d ++ adj)) by (rewrite app_length, L8, La; reflexivity).
        rewrite app_assoc. apply skipn_app_exact. reflexivity.
    + left. specialize (C6 i e Hgt Ee).
      rewrite (region_after body adj q (e_off e - D) (length d)) by (rewrite ?La; unfold q; lia). exact C4'.
  - (* no head table *)
    apply Ok_inj in HW. apply Hplain. symmetry. exact HW.
Qed.

(* non-vacuity: two tables, one of them head; the reader finds both, head differs only in checkSumAdjustment *)
Example written_file_example :
  let head := [0; 1; 0; 0; 0; 0; 0; 0; 9; 9; 9; 9; 95; 15; 60; 245; 0; 11] in
  match write_sfnt v_0100 2 [([104; 101; 97; 100], head); ([109; 97; 120; 112], [0; 0; 80; 0; 0; 3])] with
  | Ok file =>
    match open_sfnt file 0 with
    | Ok (_, [e1; e2]) => d_tag e1 = [104; 101; 97; 100] /\ load_table file e2 = Ok [0; 0; 80; 0; 0; 3]
                          /\ exists a b c d, load_table file e1 = Ok ([0; 1; 0; 0; 0; 0; 0; 0] ++ [a; b; c; d] ++ [95; 15; 60; 245; 0; 11])
    | _ => False
    end
  | Err _ => False
  end.
Proof. vm_compute. repeat split. eexists _, _, _, _. reflexivity. Qed.
