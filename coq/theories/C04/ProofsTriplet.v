(* C04/ProofsTriplet.v — the WOFF2 point triplets decode to the points that were encoded *)
From Coq Require Import ZArith List Bool Lia ZifyBool.
From FV Require Import Base.Ser Base.Res Base.Bits C04.ModelTriplet.
Import ListNotations.
Open Scope Z_scope.
Ltac Zify.zify_post_hook ::= Z.to_euclidean_division_equations.

(* ---- the bit operations as arithmetic *)
Lemma shr a k : 0 <= k -> Z.shiftr a k = a / 2 ^ k.
Proof. intros. apply Z.shiftr_div_pow2. assumption. Qed.
Lemma shl a k : 0 <= k -> Z.shiftl a k = a * 2 ^ k.
Proof. intros. apply Z.shiftl_mul_pow2. assumption. Qed.
Lemma land_ones_mod a k : 0 <= k -> Z.land a (2 ^ k - 1) = a mod 2 ^ k.
Proof. intros. replace (2 ^ k - 1) with (Z.ones k) by (rewrite Z.ones_equiv; lia). apply Z.land_ones. assumption. Qed.
Lemma land1 a : Z.land a 1 = a mod 2.   Proof. apply (land_ones_mod a 1). lia. Qed.
Lemma land15 a : Z.land a 15 = a mod 16.   Proof. apply (land_ones_mod a 4). lia. Qed.
Lemma land127 a : Z.land a 127 = a mod 128. Proof. apply (land_ones_mod a 7). lia. Qed.
Lemma land255 a : Z.land a 255 = a mod 256. Proof. apply (land_ones_mod a 8). lia. Qed.

Lemma sweep (f : Z -> bool) (n : nat) x : forallb f (map Z.of_nat (seq 0 n)) = true -> 0 <= x < Z.of_nat n -> f x = true.
Proof. intros H Hx. exact (forall_below f n H x Hx). Qed.

Lemma land3840 a : 0 <= a < 4096 -> Z.land a 3840 = 256 * (a / 256).
Proof. intros H. apply Z.eqb_eq. apply (sweep (fun a => Z.land a 3840 =? 256 * (a / 256)) 4096); [vm_compute; reflexivity | lia]. Qed.
Lemma land768 a : 0 <= a < 1024 -> Z.land a 768 = 256 * (a / 256).
Proof. intros H. apply Z.eqb_eq. apply (sweep (fun a => Z.land a 768 =? 256 * (a / 256)) 1024); [vm_compute; reflexivity | lia]. Qed.
Lemma land48 a : 0 <= a < 64 -> Z.land a 48 = 16 * (a / 16).
Proof. intros H. apply Z.eqb_eq. apply (sweep (fun a => Z.land a 48 =? 16 * (a / 16)) 64); [vm_compute; reflexivity | lia]. Qed.
Lemma land14 a : 0 <= a < 128 -> Z.land a 14 = 2 * ((a / 2) mod 8).
Proof. intros H. apply Z.eqb_eq. apply (sweep (fun a => Z.land a 14 =? 2 * ((a / 2) mod 8)) 128); [vm_compute; reflexivity | lia]. Qed.
Lemma land12 a : 0 <= a < 128 -> Z.land a 12 = 4 * ((a / 4) mod 4).
Proof. intros H. apply Z.eqb_eq. apply (sweep (fun a => Z.land a 12 =? 4 * ((a / 4) mod 4)) 128); [vm_compute; reflexivity | lia]. Qed.
Lemma lor_nibbles a b : 0 <= a -> 0 <= b < 16 -> Z.lor (Z.shiftl a 4) b = 16 * a + b.
Proof. intros Ha Hb. rewrite (lor_shiftl_add a b 4); [lia | lia | cbn; lia]. Qed.

(* the decoder's view of one point, without the rest of the stream *)
Definition dec_core (flag0 : Z) (bs : list Z) : Z * Z * bool :=
  match dec_point flag0 bs with Ok (dx, dy, on, _) => (dx, dy, on) | Err _ => (0, 0, false) end.

Lemma nth_app_l {A} (l r : list A) i d : (i < length l)%nat -> nth i (l ++ r) d = nth i l d.
Proof. intros. apply app_nth1. assumption. Qed.

Ltac bool_hyps :=
  repeat match goal with
  | H : (_ && _) = true |- _ => apply andb_true_iff in H; destruct H
  | H : (_ && _) = false |- _ => apply andb_false_iff in H
  | H : (_ =? _) = true |- _ => apply Z.eqb_eq in H
  | H : (_ =? _) = false |- _ => apply Z.eqb_neq in H
  | H : (_ <? _) = true |- _ => apply Z.ltb_lt in H
  | H : (_ <? _) = false |- _ => apply Z.ltb_ge in H
  | H : (_ || _) = false |- _ => apply orb_false_iff in H; destruct H
  end.

(* sign handling *)
Lemma withSign_x f absX x : Z.abs x = absX -> f mod 2 = (if x <? 0 then 0 else 1) -> withSign f absX = x.
Proof. intros Ha Hf. unfold withSign. rewrite land1, Hf. destruct (x <? 0) eqn:E; bool_hyps; cbn; lia. Qed.

Lemma dec_enc_class1 y (on : bool) rest : Z.abs y < 1280 ->
  dec_point ((if on then 0 else 128) + Z.shiftr (Z.land (Z.abs y) 3840) 7 + (if y <? 0 then 0 else 1)) ([Z.land (Z.abs y) 255] ++ rest)
  = Ok (0, y, on, rest).
Proof.
  intros Hy. set (a := Z.abs y) in *. assert (Ha : 0 <= a) by (unfold a; lia).
  rewrite land3840 by lia. rewrite land255, (shr _ 7) by lia.
  set (h := a / 256). assert (Hh : 0 <= h <= 4) by (unfold h; lia).
  replace (256 * h / 2 ^ 7) with (2 * h) by (change (2 ^ 7) with 128; lia).
  set (s := if y <? 0 then 0 else 1). assert (Hs : s = 0 \/ s = 1) by (unfold s; destruct (y <? 0); auto).
  set (o := if on then 0 else 128).
  unfold dec_point.
  assert (Hfl : Z.land (o + 2 * h + s) 127 = 2 * h + s) by (rewrite land127; unfold o; destruct on; lia).
  assert (Hon : (Z.shiftr (o + 2 * h + s) 7 =? 0) = on) by (rewrite (shr _ 7) by lia; change (2 ^ 7) with 128; unfold o; destruct on; lia).
  rewrite Hfl, Hon.
  assert (Hn : nbytes (2 * h + s) = 1%nat) by (unfold nbytes; replace (2 * h + s <? 84) with true by lia; reflexivity).
  rewrite Hn. cbn [length app Nat.ltb Nat.leb skipn nth].
  replace (2 * h + s <? 10) with true by lia.
  rewrite land14 by lia. rewrite (shl _ 7) by lia.
  f_equal. f_equal. f_equal. f_equal.
  apply withSign_x; [|unfold s; destruct (y <? 0); lia].
  fold a. unfold h. change (2 ^ 7) with 128. lia.
Qed.

Lemma dec_enc_class2 x (on : bool) rest : Z.abs x < 1280 ->
  dec_point ((if on then 0 else 128) + 10 + Z.shiftr (Z.land (Z.abs x) 3840) 7 + (if x <? 0 then 0 else 1)) ([Z.land (Z.abs x) 255] ++ rest)
  = Ok (x, 0, on, rest).
Proof.
  intros Hx. set (a := Z.abs x) in *. assert (Ha : 0 <= a) by (unfold a; lia).
  rewrite land3840 by lia. rewrite land255, (shr _ 7) by lia.
  set (h := a / 256). assert (Hh : 0 <= h <= 4) by (unfold h; lia).
  replace (256 * h / 2 ^ 7) with (2 * h) by (change (2 ^ 7) with 128; lia).
  set (s := if x <? 0 then 0 else 1). assert (Hs : s = 0 \/ s = 1) by (unfold s; destruct (x <? 0); auto).
  set (o := if on then 0 else 128).
  unfold dec_point.
  assert (Hfl : Z.land (o + 10 + 2 * h + s) 127 = 10 + 2 * h + s) by (rewrite land127; unfold o; destruct on; lia).
  assert (Hon : (Z.shiftr (o + 10 + 2 * h + s) 7 =? 0) = on) by (rewrite (shr _ 7) by lia; change (2 ^ 7) with 128; unfold o; destruct on; lia).
  rewrite Hfl, Hon.
  assert (Hn : nbytes (10 + 2 * h + s) = 1%nat) by (unfold nbytes; replace (10 + 2 * h + s <? 84) with true by lia; reflexivity).
  rewrite Hn. cbn [length app Nat.ltb Nat.leb skipn nth].
  replace (10 + 2 * h + s <? 10) with false by lia. replace (10 + 2 * h + s <? 20) with true by lia.
  replace (10 + 2 * h + s - 10) with (2 * h + s) by lia.
  rewrite land14 by lia. rewrite (shl _ 7) by lia.
  f_equal. f_equal. f_equal. f_equal.
  apply withSign_x; [|unfold s; destruct (x <? 0); lia].
  fold a. unfold h. change (2 ^ 7) with 128. lia.
Qed.

(* signs of both coordinates in the two low bits of a class base that is a multiple of 4 *)
Lemma withSign_xy base x y absX absY : base mod 4 = 0 -> Z.abs x = absX -> Z.abs y = absY ->
  let f := base + ((if x <? 0 then 0 else 1) + 2 * (if y <? 0 then 0 else 1)) in
  withSign f absX = x /\ withSign (Z.shiftr f 1) absY = y.
Proof.
  intros Hb Hx Hy f. unfold withSign. rewrite !land1, (shr _ 1) by lia. change (2 ^ 1) with 2. subst f.
  destruct (x <? 0) eqn:Ex; destruct (y <? 0) eqn:Ey; bool_hyps;
  match goal with |- (if ?c then _ else _) = _ /\ (if ?d then _ else _) = _ =>
    let C := fresh in let D := fresh in destruct c eqn:C; destruct d eqn:D; bool_hyps; split; lia end.
Qed.

Lemma dec_enc_class3 x y (on : bool) rest : 1 <= Z.abs x < 65 -> 1 <= Z.abs y < 65 ->
  dec_point ((if on then 0 else 128) + 20 + Z.land (Z.abs x - 1) 48 + Z.shiftr (Z.land (Z.abs y - 1) 48) 2 +
             ((if x <? 0 then 0 else 1) + 2 * (if y <? 0 then 0 else 1)))
            ([Z.lor (Z.shiftl (Z.land (Z.abs x - 1) 15) 4) (Z.land (Z.abs y - 1) 15)] ++ rest)
  = Ok (x, y, on, rest).
Proof.
  intros Hx Hy. set (a := Z.abs x - 1) in *. set (b := Z.abs y - 1) in *.
  rewrite !land48 by lia. rewrite !land15. rewrite lor_nibbles by lia. rewrite (shr _ 2) by lia. change (2 ^ 2) with 4.
  set (hx := a / 16). set (hy := b / 16). assert (Hhx : 0 <= hx <= 3) by (unfold hx; lia). assert (Hhy : 0 <= hy <= 3) by (unfold hy; lia).
  replace (16 * hy / 4) with (4 * hy) by lia.
  set (s := (if x <? 0 then 0 else 1) + 2 * (if y <? 0 then 0 else 1)).
  assert (Hs : 0 <= s <= 3) by (unfold s; destruct (x <? 0), (y <? 0); lia).
  set (o := if on then 0 else 128).
  unfold dec_point.
  assert (Hfl : Z.land (o + 20 + 16 * hx + 4 * hy + s) 127 = 20 + 16 * hx + 4 * hy + s) by (rewrite land127; unfold o; destruct on; lia).
  assert (Hon : (Z.shiftr (o + 20 + 16 * hx + 4 * hy + s) 7 =? 0) = on) by (rewrite (shr _ 7) by lia; change (2 ^ 7) with 128; unfold o; destruct on; lia).
  rewrite Hfl, Hon. set (f := 20 + 16 * hx + 4 * hy + s).
  assert (Hn : nbytes f = 1%nat) by (unfold nbytes, f; replace (20 + 16 * hx + 4 * hy + s <? 84) with true by lia; reflexivity).
  rewrite Hn. cbn [length app Nat.ltb Nat.leb skipn nth].
  replace (f <? 10) with false by (unfold f; lia). replace (f <? 20) with false by (unfold f; lia). replace (f <? 84) with true by (unfold f; lia).
  replace (f - 20) with (16 * hx + 4 * hy + s) by (unfold f; lia).
  rewrite land48 by lia. rewrite land12 by lia. rewrite land15. rewrite (shr _ 4), (shl _ 2) by lia. change (2 ^ 4) with 16. change (2 ^ 2) with 4.
  destruct (withSign_xy (20 + 16 * hx + 4 * hy) x y (Z.abs x) (Z.abs y)) as [Sx Sy]; [lia | reflexivity | reflexivity|].
  fold s in Sx, Sy. fold f in Sx, Sy.
  replace (1 + 16 * ((16 * hx + 4 * hy + s) / 16) + (16 * (a mod 16) + b mod 16) / 16) with (Z.abs x) by (unfold hx, a; lia).
  replace (1 + 4 * ((16 * hx + 4 * hy + s) / 4 mod 4) * 4 + (16 * (a mod 16) + b mod 16) mod 16) with (Z.abs y) by (unfold hy, b; lia).
  rewrite Sx, Sy. reflexivity.
Qed.

Lemma dec_enc_class4 x y (on : bool) rest : 1 <= Z.abs x < 769 -> 1 <= Z.abs y < 769 ->
  dec_point ((if on then 0 else 128) + 84 + 12 * Z.shiftr (Z.land (Z.abs x - 1) 768) 8 + Z.shiftr (Z.land (Z.abs y - 1) 768) 6 +
             ((if x <? 0 then 0 else 1) + 2 * (if y <? 0 then 0 else 1)))
            ([Z.land (Z.abs x - 1) 255; Z.land (Z.abs y - 1) 255] ++ rest)
  = Ok (x, y, on, rest).
Proof.
  intros Hx Hy. set (a := Z.abs x - 1) in *. set (b := Z.abs y - 1) in *.
  rewrite !land768 by lia. rewrite !land255. rewrite (shr _ 8), (shr _ 6) by lia. change (2 ^ 8) with 256. change (2 ^ 6) with 64.
  set (hx := a / 256). set (hy := b / 256). assert (Hhx : 0 <= hx <= 2) by (unfold hx; lia). assert (Hhy : 0 <= hy <= 2) by (unfold hy; lia).
  replace (256 * hx / 256) with hx by lia. replace (256 * hy / 64) with (4 * hy) by lia.
  set (s := (if x <? 0 then 0 else 1) + 2 * (if y <? 0 then 0 else 1)).
  assert (Hs : 0 <= s <= 3) by (unfold s; destruct (x <? 0), (y <? 0); lia).
  set (o := if on then 0 else 128).
  unfold dec_point.
  assert (Hfl : Z.land (o + 84 + 12 * hx + 4 * hy + s) 127 = 84 + 12 * hx + 4 * hy + s) by (rewrite land127; unfold o; destruct on; lia).
  assert (Hon : (Z.shiftr (o + 84 + 12 * hx + 4 * hy + s) 7 =? 0) = on) by (rewrite (shr _ 7) by lia; change (2 ^ 7) with 128; unfold o; destruct on; lia).
  rewrite Hfl, Hon. set (f := 84 + 12 * hx + 4 * hy + s).
  assert (Hn : nbytes f = 2%nat) by (unfold nbytes, f; replace (84 + 12 * hx + 4 * hy + s <? 84) with false by lia;
                                      replace (84 + 12 * hx + 4 * hy + s <? 120) with true by lia; reflexivity).
  rewrite Hn. cbn [length app Nat.ltb Nat.leb skipn nth].
  replace (f <? 10) with false by (unfold f; lia). replace (f <? 20) with false by (unfold f; lia). replace (f <? 84) with false by (unfold f; lia).
  replace (f <? 120) with true by (unfold f; lia).
  replace (f - 84) with (12 * hx + 4 * hy + s) by (unfold f; lia).
  rewrite !(shl _ 8), (shr _ 2) by lia. change (2 ^ 8) with 256. change (2 ^ 2) with 4.
  destruct (withSign_xy (84 + 12 * hx + 4 * hy) x y (Z.abs x) (Z.abs y)) as [Sx Sy]; [lia | reflexivity | reflexivity|].
  fold s in Sx, Sy. fold f in Sx, Sy.
  replace (1 + (12 * hx + 4 * hy + s) / 12 * 256 + a mod 256) with (Z.abs x) by (unfold hx, a; lia).
  replace (1 + (12 * hx + 4 * hy + s) mod 12 / 4 * 256 + b mod 256) with (Z.abs y) by (unfold hy, b; lia).
  rewrite Sx, Sy. reflexivity.
Qed.

Lemma dec_enc_class5 x y (on : bool) rest : Z.abs x < 4096 -> Z.abs y < 4096 ->
  dec_point ((if on then 0 else 128) + 120 + ((if x <? 0 then 0 else 1) + 2 * (if y <? 0 then 0 else 1)))
            ([Z.shiftr (Z.abs x) 4; Z.lor (Z.shiftl (Z.land (Z.abs x) 15) 4) (Z.shiftr (Z.abs y) 8); Z.land (Z.abs y) 255] ++ rest)
  = Ok (x, y, on, rest).
Proof.
  intros Hx Hy. set (a := Z.abs x) in *. set (b := Z.abs y) in *. assert (Ha : 0 <= a) by (unfold a; lia). assert (Hb : 0 <= b) by (unfold b; lia).
  rewrite land15, land255. rewrite (shr _ 4), (shr _ 8) by lia. change (2 ^ 4) with 16. change (2 ^ 8) with 256.
  rewrite lor_nibbles by lia.
  set (s := (if x <? 0 then 0 else 1) + 2 * (if y <? 0 then 0 else 1)).
  assert (Hs : 0 <= s <= 3) by (unfold s; destruct (x <? 0), (y <? 0); lia).
  set (o := if on then 0 else 128).
  unfold dec_point.
  assert (Hfl : Z.land (o + 120 + s) 127 = 120 + s) by (rewrite land127; unfold o; destruct on; lia).
  assert (Hon : (Z.shiftr (o + 120 + s) 7 =? 0) = on) by (rewrite (shr _ 7) by lia; change (2 ^ 7) with 128; unfold o; destruct on; lia).
  rewrite Hfl, Hon. set (f := 120 + s).
  assert (Hn : nbytes f = 3%nat) by (unfold nbytes, f; replace (120 + s <? 84) with false by lia; replace (120 + s <? 120) with false by lia;
                                      replace (120 + s <? 124) with true by lia; reflexivity).
  rewrite Hn. cbn [length app Nat.ltb Nat.leb skipn nth].
  replace (f <? 10) with false by (unfold f; lia). replace (f <? 20) with false by (unfold f; lia). replace (f <? 84) with false by (unfold f; lia).
  replace (f <? 120) with false by (unfold f; lia). replace (f <? 124) with true by (unfold f; lia).
  rewrite land15. rewrite (shl _ 4), (shl _ 8), (shr _ 4) by lia. change (2 ^ 4) with 16. change (2 ^ 8) with 256.
  destruct (withSign_xy 120 x y (Z.abs x) (Z.abs y)) as [Sx Sy]; [reflexivity | reflexivity | reflexivity|].
  fold s in Sx, Sy. fold f in Sx, Sy.
  replace (a / 16 * 16 + (16 * (a mod 16) + b / 256) / 16) with (Z.abs x) by (fold a; lia).
  replace ((16 * (a mod 16) + b / 256) mod 16 * 256 + b mod 256) with (Z.abs y) by (fold b; lia).
  rewrite Sx, Sy. reflexivity.
Qed.

Lemma dec_enc_class6 x y (on : bool) rest : Z.abs x < 65536 -> Z.abs y < 65536 ->
  dec_point ((if on then 0 else 128) + 124 + ((if x <? 0 then 0 else 1) + 2 * (if y <? 0 then 0 else 1)))
            ([Z.shiftr (Z.abs x) 8; Z.land (Z.abs x) 255; Z.shiftr (Z.abs y) 8; Z.land (Z.abs y) 255] ++ rest)
  = Ok (x, y, on, rest).
Proof.
  intros Hx Hy. set (a := Z.abs x) in *. set (b := Z.abs y) in *. assert (Ha : 0 <= a) by (unfold a; lia). assert (Hb : 0 <= b) by (unfold b; lia).
  rewrite !land255. rewrite !(shr _ 8) by lia. change (2 ^ 8) with 256.
  set (s := (if x <? 0 then 0 else 1) + 2 * (if y <? 0 then 0 else 1)).
  assert (Hs : 0 <= s <= 3) by (unfold s; destruct (x <? 0), (y <? 0); lia).
  set (o := if on then 0 else 128).
  unfold dec_point.
  assert (Hfl : Z.land (o + 124 + s) 127 = 124 + s) by (rewrite land127; unfold o; destruct on; lia).
  assert (Hon : (Z.shiftr (o + 124 + s) 7 =? 0) = on) by (rewrite (shr _ 7) by lia; change (2 ^ 7) with 128; unfold o; destruct on; lia).
  rewrite Hfl, Hon. set (f := 124 + s).
  assert (Hn : nbytes f = 4%nat) by (unfold nbytes, f; replace (124 + s <? 84) with false by lia; replace (124 + s <? 120) with false by lia;
                                      replace (124 + s <? 124) with false by lia; reflexivity).
  rewrite Hn. cbn [length app Nat.ltb Nat.leb skipn nth].
  replace (f <? 10) with false by (unfold f; lia). replace (f <? 20) with false by (unfold f; lia). replace (f <? 84) with false by (unfold f; lia).
  replace (f <? 120) with false by (unfold f; lia). replace (f <? 124) with false by (unfold f; lia).
  rewrite !(shl _ 8) by lia. change (2 ^ 8) with 256.
  destruct (withSign_xy 124 x y (Z.abs x) (Z.abs y)) as [Sx Sy]; [reflexivity | reflexivity | reflexivity|].
  fold s in Sx, Sy. fold f in Sx, Sy.
  replace (a / 256 * 256 + a mod 256) with (Z.abs x) by (fold a; lia).
  replace (b / 256 * 256 + b mod 256) with (Z.abs y) by (fold b; lia).
  rewrite Sx, Sy. reflexivity.
Qed.

(* ---- one point *)
Theorem dec_enc_point x y on f bs rest : enc_point x y on = Ok (f, bs) -> dec_point f (bs ++ rest) = Ok (x, y, on, rest).
Proof.
  unfold enc_point.
  destruct ((x =? 0) && (Z.abs y <? 1280)) eqn:C1.
  { intros [= <- <-]. bool_hyps. subst x. replace (if 0 <? 0 then 0 else 1) with 1 by reflexivity.
    apply dec_enc_class1. lia. }
  destruct ((y =? 0) && (Z.abs x <? 1280)) eqn:C2.
  { intros [= <- <-]. bool_hyps. subst y. apply dec_enc_class2. lia. }
  assert (Hnz : 1 <= Z.abs x /\ 1 <= Z.abs y \/ 1280 <= Z.abs x \/ 1280 <= Z.abs y).
  { bool_hyps. lia. }
  destruct ((Z.abs x <? 65) && (Z.abs y <? 65)) eqn:C3.
  { intros [= <- <-]. bool_hyps. apply dec_enc_class3; lia. }
  destruct ((Z.abs x <? 769) && (Z.abs y <? 769)) eqn:C4.
  { intros [= <- <-]. bool_hyps. apply dec_enc_class4; lia. }
  destruct ((Z.abs x <? 4096) && (Z.abs y <? 4096)) eqn:C5.
  { intros [= <- <-]. bool_hyps. apply dec_enc_class5; lia. }
  destruct ((255 <? Z.shiftr (Z.abs x) 8) || (255 <? Z.shiftr (Z.abs y) 8)) eqn:C6; [discriminate|].
  intros [= <- <-]. apply orb_false_iff in C6. destruct C6 as [Cx Cy]. apply Z.ltb_ge in Cx, Cy.
  rewrite (shr _ 8) in Cx by lia. rewrite (shr _ 8) in Cy by lia. change (2 ^ 8) with 256 in Cx, Cy.
  apply dec_enc_class6; lia.
Qed.

(* what the encoder accepts: every step between consecutive points fits 16 bits *)
Lemma enc_point_ok x y on : Z.abs x < 65536 -> Z.abs y < 65536 -> exists f bs, enc_point x y on = Ok (f, bs).
Proof.
  intros Hx Hy. unfold enc_point.
  destruct ((x =? 0) && (Z.abs y <? 1280)); [eauto|]. destruct ((y =? 0) && (Z.abs x <? 1280)); [eauto|].
  destruct ((Z.abs x <? 65) && (Z.abs y <? 65)); [eauto|]. destruct ((Z.abs x <? 769) && (Z.abs y <? 769)); [eauto|].
  destruct ((Z.abs x <? 4096) && (Z.abs y <? 4096)); [eauto|].
  replace ((255 <? Z.shiftr (Z.abs x) 8) || (255 <? Z.shiftr (Z.abs y) 8)) with false; [eauto|].
  symmetry. apply orb_false_iff. rewrite !(shr _ 8) by lia. change (2 ^ 8) with 256. split; lia.
Qed.
Lemma enc_point_too_far x y on : 65536 <= Z.abs x \/ 65536 <= Z.abs y -> enc_point x y on = Err OverflowError.
Proof.
  intros H. unfold enc_point.
  replace ((x =? 0) && (Z.abs y <? 1280)) with false by lia. replace ((y =? 0) && (Z.abs x <? 1280)) with false by lia.
  replace ((Z.abs x <? 65) && (Z.abs y <? 65)) with false by lia. replace ((Z.abs x <? 769) && (Z.abs y <? 769)) with false by lia.
  replace ((Z.abs x <? 4096) && (Z.abs y <? 4096)) with false by lia.
  replace ((255 <? Z.shiftr (Z.abs x) 8) || (255 <? Z.shiftr (Z.abs y) 8)) with true; [reflexivity|].
  symmetry. apply orb_true_iff. rewrite !(shr _ 8) by lia. change (2 ^ 8) with 256. destruct H; [left | right]; lia.
Qed.

(* ---- the streams *)
Theorem dec_enc_points pts : forall px py fs ts trest,
  enc_points px py pts = Ok (fs, ts) -> dec_points px py fs (ts ++ trest) = Ok (pts, trest).
Proof.
  induction pts as [|[[x y] on] r IH]; intros px py fs ts trest.
  - cbn. intros [= <- <-]. reflexivity.
  - cbn [enc_points]. destruct (enc_point (x - px) (y - py) on) as [[f bs]|e] eqn:E; [|discriminate].
    destruct (enc_points x y r) as [[fs' ts']|e] eqn:E2; [|discriminate].
    intros [= <- <-]. cbn [dec_points]. rewrite <- app_assoc.
    rewrite (dec_enc_point _ _ _ _ _ _ E).
    replace (px + (x - px)) with x by lia. replace (py + (y - py)) with y by lia.
    rewrite (IH x y fs' ts' trest E2). reflexivity.
Qed.
Lemma enc_points_length pts : forall px py fs ts, enc_points px py pts = Ok (fs, ts) -> length fs = length pts /\ (length pts <= length ts)%nat.
Proof.
  induction pts as [|[[x y] on] r IH]; intros px py fs ts; cbn [enc_points].
  - intros [= <- <-]. split; reflexivity.
  - destruct (enc_point (x - px) (y - py) on) as [[f bs]|e] eqn:E; [|discriminate].
    destruct (enc_points x y r) as [[fs' ts']|e] eqn:E2; [|discriminate].
    intros [= <- <-]. destruct (IH _ _ _ _ E2) as [L1 L2]. cbn [length]. rewrite app_length. split; [lia|].
    assert (1 <= length bs)%nat; [|lia].
    unfold enc_point in E. repeat match type of E with (if ?c then _ else _) = _ => destruct c end; inversion E; subst; cbn; lia.
Qed.

(* the transformed glyph data of a simple glyph decode to the points that were encoded, and leave what follows in both streams alone *)
Theorem triplets_roundtrip pts fs ts frest trest : encodeTriplets pts = Ok (fs, ts) ->
  decodeTriplets (length pts) (fs ++ frest) (ts ++ trest) = Ok (pts, frest, trest).
Proof.
  intros He. unfold encodeTriplets in He. destruct (enc_points_length _ _ _ _ _ He) as [L1 L2].
  unfold decodeTriplets. rewrite !app_length.
  replace (Nat.ltb (length fs + length frest) (length pts)) with false by (symmetry; apply Nat.ltb_ge; lia).
  replace (Nat.ltb (length ts + length trest) (length pts)) with false by (symmetry; apply Nat.ltb_ge; lia).
  rewrite <- L1. rewrite firstn_app, Nat.sub_diag, firstn_all. cbn [firstn]. rewrite app_nil_r.
  rewrite (dec_enc_points _ _ _ _ _ trest He).
  rewrite skipn_app, Nat.sub_diag, skipn_all. reflexivity.
Qed.

Example triplet_example : exists fs ts, encodeTriplets [(0, 100, true); (300, 100, false); (299, -700, true); (5000, 5000, true)] = Ok (fs, ts) /\
  decodeTriplets 4 fs ts = Ok ([(0, 100, true); (300, 100, false); (299, -700, true); (5000, 5000, true)], [], []).
Proof. eexists. eexists. split; vm_compute; reflexivity. Qed.
