(* C04/ProofsMaxp.v — the composite statistics of maxp are the totals over the flattened glyph and its nesting depth *)
From Coq Require Import ZArith List Bool Lia.
From FV Require Import Base.Ser Base.Res C04.ModelMaxp.
Import ListNotations.
Open Scope Z_scope.

Fixpoint size (g : glyph) : nat :=
  match g with GComposite cs => S (fold_right (fun c a => (size c + a)%nat) O cs) | _ => 1%nat end.

Lemma nest_nonneg g : 0 <= nest g.
Proof.
  destruct g as [| p k | cs]; cbn; try lia.
  induction cs as [|c r IH]; cbn; [lia|]. destruct c; lia.
Qed.

(* the loop of getCompositeMaxpValues, with its accumulator *)
Definition loop_of (depth : Z) :=
  fix loop (cs : list glyph) (acc : Z * Z * Z) : Z * Z * Z :=
    match cs with
    | [] => acc
    | c :: r =>
      let '(np, nc, md) := acc in
      match c with
      | GEmpty => loop r acc
      | GSimple p k => loop r (np + p, nc + k, md)
      | GComposite _ => let '(p, k, d) := comp_values c (depth + 1) in loop r (np + p, nc + k, Z.max md d)
      end
    end.
Lemma comp_values_unfold cs depth : comp_values (GComposite cs) depth = loop_of depth cs (0, 0, depth).
Proof. reflexivity. Qed.

Definition sum_points cs := fold_right (fun c a => total_points c + a) 0 cs.
Definition sum_contours cs := fold_right (fun c a => total_contours c + a) 0 cs.
Definition nest_list cs := fold_right (fun c a => match c with GComposite _ => Z.max (1 + nest c) a | _ => a end) 0 cs.

Theorem comp_values_spec : forall n cs depth, (size (GComposite cs) <= n)%nat ->
  comp_values (GComposite cs) depth = (sum_points cs, sum_contours cs, depth + nest_list cs).
Proof.
  induction n as [|n IH]; intros cs depth Hn; [cbn in Hn; lia|].
  rewrite comp_values_unfold.
  assert (Hloop : forall l np nc md, depth <= md -> (fold_right (fun c a => (size c + a)%nat) O l <= n)%nat ->
            loop_of depth l (np, nc, md) = (np + sum_points l, nc + sum_contours l, Z.max md (depth + nest_list l))).
  { induction l as [|c r IHl]; intros np nc md Hmd Hs.
    - cbn. replace (np + 0) with np by lia. replace (nc + 0) with nc by lia. replace (Z.max md (depth + 0)) with md by lia. reflexivity.
    - cbn [fold_right] in Hs. cbn [loop_of]. destruct c as [| p k | cs0].
      + rewrite IHl; [| lia | cbn in Hs; lia]. cbn [sum_points sum_contours nest_list fold_right total_points total_contours].
        replace (0 + sum_points r) with (sum_points r) by lia. replace (0 + sum_contours r) with (sum_contours r) by lia. reflexivity.
      + rewrite IHl; [| lia | cbn in Hs; lia]. cbn [sum_points sum_contours nest_list fold_right total_points total_contours].
        fold (sum_points r) (sum_contours r).
        replace (np + p + sum_points r) with (np + (p + sum_points r)) by lia. replace (nc + k + sum_contours r) with (nc + (k + sum_contours r)) by lia. reflexivity.
      + rewrite (IH cs0 (depth + 1)) by lia.
        assert (N0 : 0 <= nest_list cs0) by (apply (nest_nonneg (GComposite cs0))).
        rewrite IHl; [| lia | lia].
        cbn [sum_points sum_contours nest_list fold_right total_points total_contours nest].
        fold (sum_points cs0) (sum_contours cs0) (nest_list cs0) (sum_points r) (sum_contours r) (nest_list r).
        assert (N1 : 0 <= nest_list r) by (apply (nest_nonneg (GComposite r))).
        replace (np + sum_points cs0 + sum_points r) with (np + (sum_points cs0 + sum_points r)) by lia.
        replace (nc + sum_contours cs0 + sum_contours r) with (nc + (sum_contours cs0 + sum_contours r)) by lia.
        replace (Z.max (Z.max md (depth + 1 + nest_list cs0)) (depth + nest_list r)) with (Z.max md (depth + Z.max (1 + nest_list cs0) (nest_list r))) by lia.
        reflexivity. }
  rewrite Hloop; [| lia | cbn [size] in Hn; lia].
  assert (0 <= nest_list cs) by (apply (nest_nonneg (GComposite cs))).
  replace (0 + sum_points cs) with (sum_points cs) by lia. replace (0 + sum_contours cs) with (sum_contours cs) by lia.
  replace (Z.max depth (depth + nest_list cs)) with (depth + nest_list cs) by lia. reflexivity.
Qed.

Theorem composite_maxp_values cs depth :
  comp_values (GComposite cs) depth = (total_points (GComposite cs), total_contours (GComposite cs), depth + nest (GComposite cs)).
Proof. apply (comp_values_spec (size (GComposite cs))). lia. Qed.

Example maxp_example :
  (* deepfirst = [lvl2 -> lvl1 -> simple, lvl1 -> simple]: the deeper component comes first *)
  let s := GSimple 5 1 in let lvl1 := GComposite [s] in let lvl2 := GComposite [lvl1] in
  comp_values (GComposite [lvl2; lvl1]) 1 = (10, 2, 3) /\
  recalc_composites [s; lvl1; lvl2; GComposite [lvl2; lvl1]; GComposite [lvl1; s; s]] = (15, 3, 3, 3).
Proof. split; reflexivity. Qed.
