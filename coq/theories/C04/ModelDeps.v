(* C04/ModelDeps.v — ttLib/ttFont.py TTFont._writeTable (1240-1270) and the loop of _save over the tags: the order in which the
   tables are COMPILED (getTableData) when a font is saved.  A table's `dependencies` are written first (those the font has), the
   table is marked done, then its own data is asked for.  Derived fields live on that order: hmtx.compile sets
   hhea.numberOfHMetrics, glyf.compile sets the offsets loca writes and maxp's statistics, loca.compile sets head.indexToLocFormat. *)
From Coq Require Import ZArith List Bool.
From FV Require Import Base.Ser Base.Res.
Import ListNotations.
Open Scope Z_scope.

Definition tag := list Z.
Definition memt (t : tag) (l : list tag) : bool := existsb (list_Z_eqb t) l.
Definition deps_of (D : list (tag * list tag)) (t : tag) : list tag :=
  match find (fun r => list_Z_eqb (fst r) t) D with Some r => snd r | None => [] end.

(* state: (done, compiled so far in order); None: recursion deeper than the fuel (a dependency cycle: Python would not return) *)
Fixpoint write_table (fuel : nat) (D : list (tag * list tag)) (present : list tag) (t : tag) (st : list tag * list tag)
  : option (list tag * list tag) :=
  match fuel with
  | O => None
  | S f =>
    if memt t (fst st) then Some st
    else
      match fold_left (fun acc m =>
                         match acc with
                         | None => None
                         | Some s => if memt m (fst s) then Some s
                                     else if memt m present then write_table f D present m s
                                     else Some (fst s ++ [m], snd s)
                         end) (deps_of D t) (Some st) with
      | None => None
      | Some s => Some (fst s ++ [t], snd s ++ [t])
      end
  end.
Definition save_order (fuel : nat) (D : list (tag * list tag)) (present tags : list tag) : option (list tag * list tag) :=
  fold_left (fun acc t => match acc with None => None | Some s => write_table fuel D present t s end) tags (Some ([], [])).
