(* C04/ModelTriplet.v — ttLib/woff2.py: WOFF2GlyfTable._encodeTriplets (1071-1125) and _decodeTriplets (936-1008), the point data of a
   simple glyph in the transformed glyf table: one flag byte per point (on-curve bit + one of 128 delta classes) and 1..4 data bytes. *)
From Coq Require Import ZArith List Bool.
From FV Require Import Base.Ser Base.Res.
Import ListNotations.
Open Scope Z_scope.

Definition b2z (b : bool) : Z := if b then 1 else 0.

(* one point: relative coordinates (x, y), on-curve flag *)
Definition enc_point (x y : Z) (on : bool) : Res (Z * list Z) :=
  let absX := Z.abs x in let absY := Z.abs y in
  let onCurveBit := if on then 0 else 128 in
  let xSignBit := if x <? 0 then 0 else 1 in
  let ySignBit := if y <? 0 then 0 else 1 in
  let xySignBits := xSignBit + 2 * ySignBit in
  if (x =? 0) && (absY <? 1280) then
    Ok (onCurveBit + Z.shiftr (Z.land absY 3840) 7 + ySignBit, [Z.land absY 255])
  else if (y =? 0) && (absX <? 1280) then
    Ok (onCurveBit + 10 + Z.shiftr (Z.land absX 3840) 7 + xSignBit, [Z.land absX 255])
  else if (absX <? 65) && (absY <? 65) then
    Ok (onCurveBit + 20 + Z.land (absX - 1) 48 + Z.shiftr (Z.land (absY - 1) 48) 2 + xySignBits,
        [Z.lor (Z.shiftl (Z.land (absX - 1) 15) 4) (Z.land (absY - 1) 15)])
  else if (absX <? 769) && (absY <? 769) then
    Ok (onCurveBit + 84 + 12 * Z.shiftr (Z.land (absX - 1) 768) 8 + Z.shiftr (Z.land (absY - 1) 768) 6 + xySignBits,
        [Z.land (absX - 1) 255; Z.land (absY - 1) 255])
  else if (absX <? 4096) && (absY <? 4096) then
    Ok (onCurveBit + 120 + xySignBits,
        [Z.shiftr absX 4; Z.lor (Z.shiftl (Z.land absX 15) 4) (Z.shiftr absY 8); Z.land absY 255])
  else
    (* array('B').append raises OverflowError for a value above 255 *)
    if (255 <? Z.shiftr absX 8) || (255 <? Z.shiftr absY 8) then Err OverflowError
    else Ok (onCurveBit + 124 + xySignBits, [Z.shiftr absX 8; Z.land absX 255; Z.shiftr absY 8; Z.land absY 255]).

(* coordinates.absoluteToRelative(), then the loop; returns (flagStream, glyphStream) *)
Fixpoint enc_points (px py : Z) (pts : list (Z * Z * bool)) : Res (list Z * list Z) :=
  match pts with
  | [] => Ok ([], [])
  | (x, y, on) :: r =>
    match enc_point (x - px) (y - py) on with
    | Err e => Err e
    | Ok (f, bs) => match enc_points x y r with Err e => Err e | Ok (fs, ts) => Ok (f :: fs, bs ++ ts) end
    end
  end.
Definition encodeTriplets (pts : list (Z * Z * bool)) : Res (list Z * list Z) := enc_points 0 0 pts.

(* ---- decoding *)
Definition withSign (flag baseval : Z) : Z := if Z.land flag 1 =? 0 then - baseval else baseval.
Definition nbytes (flag : Z) : nat := if flag <? 84 then 1 else if flag <? 120 then 2 else if flag <? 124 then 3 else 4.

(* one point from its flag byte and the triplet stream: (dx, dy, onCurve), rest of the stream; AssertionError when the stream is short *)
Definition dec_point (flag0 : Z) (ts : list Z) : Res (Z * Z * bool * list Z) :=
  let on := Z.shiftr flag0 7 =? 0 in
  let flag := Z.land flag0 127 in
  let n := nbytes flag in
  if Nat.ltb (length ts) n then Err AssertionError
  else
    let t i := nth i ts 0 in
    let rest := skipn n ts in
    if flag <? 10 then Ok (0, withSign flag (Z.shiftl (Z.land flag 14) 7 + t 0%nat), on, rest)
    else if flag <? 20 then Ok (withSign flag (Z.shiftl (Z.land (flag - 10) 14) 7 + t 0%nat), 0, on, rest)
    else if flag <? 84 then
      let b0 := flag - 20 in let b1 := t 0%nat in
      Ok (withSign flag (1 + Z.land b0 48 + Z.shiftr b1 4), withSign (Z.shiftr flag 1) (1 + Z.shiftl (Z.land b0 12) 2 + Z.land b1 15), on, rest)
    else if flag <? 120 then
      let b0 := flag - 84 in
      Ok (withSign flag (1 + Z.shiftl (b0 / 12) 8 + t 0%nat), withSign (Z.shiftr flag 1) (1 + Z.shiftl (Z.shiftr (b0 mod 12) 2) 8 + t 1%nat), on, rest)
    else if flag <? 124 then
      let b2 := t 1%nat in
      Ok (withSign flag (Z.shiftl (t 0%nat) 4 + Z.shiftr b2 4), withSign (Z.shiftr flag 1) (Z.shiftl (Z.land b2 15) 8 + t 2%nat), on, rest)
    else
      Ok (withSign flag (Z.shiftl (t 0%nat) 8 + t 1%nat), withSign (Z.shiftr flag 1) (Z.shiftl (t 2%nat) 8 + t 3%nat), on, rest).

Fixpoint dec_points (x y : Z) (flags : list Z) (ts : list Z) : Res (list (Z * Z * bool) * list Z) :=
  match flags with
  | [] => Ok ([], ts)
  | f :: fr =>
    match dec_point f ts with
    | Err e => Err e
    | Ok (dx, dy, on, rest) =>
      match dec_points (x + dx) (y + dy) fr rest with
      | Err e => Err e
      | Ok (ps, rest') => Ok ((x + dx, y + dy, on) :: ps, rest')
      end
    end
  end.

(* _decodeTriplets for nPoints points: TTLibError when the flag stream is short; returns the points and what is left of both streams *)
Definition decodeTriplets (nPoints : nat) (flagStream glyphStream : list Z) : Res (list (Z * Z * bool) * list Z * list Z) :=
  if Nat.ltb (length flagStream) nPoints then Err LibError
  else if Nat.ltb (length glyphStream) nPoints then Err AssertionError
  else match dec_points 0 0 (firstn nPoints flagStream) glyphStream with
       | Err e => Err e
       | Ok (ps, rest) => Ok (ps, skipn nPoints flagStream, rest)
       end.
