(* C04/ProofsDeps.v — every table is compiled after the tables it depends on; the dependencies declared in the source are the
   ones the derived fields need. *)
From Coq Require Import ZArith List Bool Lia.
From FV Require Import Base.Ser Base.Res C04.ModelDeps Data.Data_deps.
Import ListNotations.
Open Scope Z_scope.

Definition before (d t : tag) (l : list tag) : Prop := exists l1 l2 l3, l = l1 ++ d :: l2 ++ t :: l3.
Lemma before_app d t l ext : before d t l -> before d t (l ++ ext).
Proof. intros [l1 [l2 [l3 ->]]]. exists l1, l2, (l3 ++ ext). rewrite <- !app_assoc. cbn. rewrite <- app_assoc. reflexivity. Qed.
Lemma before_last d t l : In d l -> before d t (l ++ [t]).
Proof. intros H. apply in_split in H. destruct H as [l1 [l2 ->]]. exists l1, l2, []. rewrite <- app_assoc. reflexivity. Qed.

Lemma leqb_eq a : forall b, list_Z_eqb a b = true <-> a = b.
Proof.
  induction a as [|x a IH]; intros [|y b]; cbn; split; intros H; try discriminate; try reflexivity.
  - apply andb_true_iff in H. destruct H as [H1 H2]. apply Z.eqb_eq in H1. apply IH in H2. congruence.
  - inversion H; subst. rewrite Z.eqb_refl. apply IH. reflexivity.
Qed.
Lemma memt_In t l : memt t l = true <-> In t l.
Proof.
  unfold memt. rewrite existsb_exists. split.
  - intros [x [Hx E]]. apply leqb_eq in E. subst. exact Hx.
  - intros H. exists t. split; [exact H|apply leqb_eq; reflexivity].
Qed.

Section Order.
  Variable D : list (tag * list tag).
  Variable present : list tag.

  Definition Inv (st : list tag * list tag) : Prop :=
    (forall x, In x (snd st) -> In x (fst st)) /\
    (forall x, In x (fst st) -> In x present -> In x (snd st)) /\
    (forall t d, In t (snd st) -> In d (deps_of D t) -> In d present -> before d t (snd st)).
  Definition extends (st st' : list tag * list tag) : Prop :=
    (forall x, In x (fst st) -> In x (fst st')) /\ exists ext, snd st' = snd st ++ ext.
  Lemma extends_refl st : extends st st.
  Proof. split; [auto|exists []; rewrite app_nil_r; reflexivity]. Qed.
  Lemma extends_trans a b c : extends a b -> extends b c -> extends a c.
  Proof. intros [A1 [e1 A2]] [B1 [e2 B2]]. split; [auto|]. exists (e1 ++ e2). rewrite B2, A2, app_assoc. reflexivity. Qed.

  Definition step (f : nat) (acc : option (list tag * list tag)) (m : tag) :=
    match acc with
    | None => None
    | Some s => if memt m (fst s) then Some s
                else if memt m present then write_table f D present m s
                else Some (fst s ++ [m], snd s)
    end.

  Lemma write_table_ok : forall fuel t st st', write_table fuel D present t st = Some st' -> Inv st -> In t present ->
    Inv st' /\ extends st st' /\ In t (fst st').
  Proof.
    induction fuel as [|f IH]; intros t st st' H HI Ht; [discriminate|].
    cbn [write_table] in H. destruct (memt t (fst st)) eqn:Em.
    - inversion H; subst. split; [exact HI|]. split; [apply extends_refl|apply memt_In, Em].
    - fold (step f) in H.
      (* the dependencies *)
      assert (Hfold : forall deps s0 s1, fold_left (step f) deps (Some s0) = Some s1 -> Inv s0 ->
                Inv s1 /\ extends s0 s1 /\ (forall m, In m deps -> In m (fst s1))).
      { induction deps as [|m deps IHd]; intros s0 s1 Hf H0; cbn [fold_left] in Hf.
        - inversion Hf; subst. split; [exact H0|]. split; [apply extends_refl|intros m []].
        - unfold step at 2 in Hf.
          destruct (memt m (fst s0)) eqn:Em0.
          + destruct (IHd s0 s1 Hf H0) as [A [B C]]. split; [exact A|]. split; [exact B|].
            intros x [<-|Hx]; [apply B, memt_In, Em0|apply C, Hx].
          + destruct (memt m present) eqn:Emp.
            * destruct (write_table f D present m s0) as [s2|] eqn:Ew.
              -- destruct (IH m s0 s2 Ew H0 (proj1 (memt_In _ _) Emp)) as [A2 [B2 C2]].
                 destruct (IHd s2 s1 Hf A2) as [A [B C]]. split; [exact A|]. split; [eapply extends_trans; eassumption|].
                 intros x [<-|Hx]; [apply B, C2|apply C, Hx].
              -- exfalso. clear -Hf. induction deps; cbn in Hf; [discriminate|auto].
            * assert (H2 : Inv (fst s0 ++ [m], snd s0)).
              { destruct H0 as [I1 [I2 I3]]. split; [|split]; cbn [fst snd].
                - intros x Hx. apply in_or_app. left. apply I1, Hx.
                - intros x Hx Hp. apply in_app_or in Hx. destruct Hx as [Hx|[<-|[]]]; [apply I2; assumption|].
                  exfalso. apply memt_In in Hp. congruence.
                - exact I3. }
              destruct (IHd _ s1 Hf H2) as [A [B C]]. split; [exact A|]. split.
              -- eapply extends_trans; [|exact B]. split; [cbn; intros x Hx; apply in_or_app; left; exact Hx|exists []; cbn; rewrite app_nil_r; reflexivity].
              -- intros x [<-|Hx]; [apply B; cbn; apply in_or_app; right; left; reflexivity|apply C, Hx]. }
      destruct (fold_left (step f) (deps_of D t) (Some st)) as [s|] eqn:Ef; [|discriminate]. inversion H; subst st'. clear H.
      destruct (Hfold _ _ _ Ef HI) as [[I1 [I2 I3]] [[E1 [ext E2]] HD]].
      split; [|split].
      + split; [|split]; cbn [fst snd].
        * intros x Hx. apply in_app_or in Hx. apply in_or_app. destruct Hx as [Hx|Hx]; [left; apply I1, Hx|right; exact Hx].
        * intros x Hx Hp. apply in_app_or in Hx. apply in_or_app. destruct Hx as [Hx|[<-|[]]]; [left; apply I2; assumption|right; left; reflexivity].
        * intros t0 d Ht0 Hd Hp. apply in_app_or in Ht0. destruct Ht0 as [Ht0|[<-|[]]].
          -- apply before_app. apply I3; assumption.
          -- apply before_last. apply I2; [apply HD, Hd|exact Hp].
      + split; cbn [fst snd]; [intros x Hx; apply in_or_app; left; apply E1, Hx|]. exists (ext ++ [t]). rewrite E2, app_assoc. reflexivity.
      + cbn. apply in_or_app. right. left. reflexivity.
  Qed.

  Theorem compile_order_respects_dependencies fuel tags done comp :
    save_order fuel D present tags = Some (done, comp) -> (forall t, In t tags -> In t present) ->
    (forall t, In t tags -> In t comp) /\
    (forall t d, In t comp -> In d (deps_of D t) -> In d present -> before d t comp).
  Proof.
    unfold save_order. intros H Hp.
    assert (G : forall tags s0 s1, fold_left (fun acc t => match acc with None => None | Some s => write_table fuel D present t s end) tags (Some s0) = Some s1 ->
                Inv s0 -> (forall t, In t tags -> In t present) -> Inv s1 /\ extends s0 s1 /\ (forall t, In t tags -> In t (fst s1))).
    { induction tags0 as [|t r IHr]; intros s0 s1 Hf H0 HP; cbn [fold_left] in Hf.
      - inversion Hf; subst. split; [exact H0|]. split; [apply extends_refl|intros t []].
      - destruct (write_table fuel D present t s0) as [s2|] eqn:Ew.
        + destruct (write_table_ok _ _ _ _ Ew H0 (HP t (or_introl eq_refl))) as [A2 [B2 C2]].
          destruct (IHr s2 s1 Hf A2 (fun x Hx => HP x (or_intror Hx))) as [A [B C]].
          split; [exact A|]. split; [eapply extends_trans; eassumption|]. intros x [<-|Hx]; [apply B, C2|apply C, Hx].
        + exfalso. clear -Hf. induction r; cbn in Hf; [discriminate|auto]. }
    destruct (G tags ([], []) (done, comp) H) as [[I1 [I2 I3]] [_ HT]]; [split; [|split]; cbn; intros; contradiction|exact Hp|].
    cbn [fst snd] in *. split; [|exact I3]. intros t Ht. apply I2; [apply HT, Ht|apply Hp, Ht].
  Qed.
End Order.

(* ---------- the dependencies declared in the source (regenerated on every run) *)
Definition T (s : list Z) : tag := s.
Definition hhea := T [104; 104; 101; 97]. Definition hmtx := T [104; 109; 116; 120].
Definition vhea := T [118; 104; 101; 97]. Definition vmtx := T [118; 109; 116; 120].
Definition loca := T [108; 111; 99; 97]. Definition glyf := T [103; 108; 121; 102].
Definition maxp := T [109; 97; 120; 112]. Definition head := T [104; 101; 97; 100].
Definition gvar := T [103; 118; 97; 114]. Definition fvar := T [102; 118; 97; 114].
Definition avar := T [97; 118; 97; 114]. Definition cvar := T [99; 118; 97; 114].
(* who needs whom compiled first, and why *)
Definition required : list (tag * tag) :=
  [ (hhea, hmtx)   (* hmtx.compile sets hhea.numberOfHMetrics *)
  ; (vhea, vmtx)   (* vmtx.compile sets vhea.numberOfVMetrics *)
  ; (loca, glyf)   (* glyf.compile hands loca its offsets *)
  ; (maxp, glyf)   (* maxp.recalc reads the compiled glyphs *)
  ; (head, loca)   (* loca.compile sets head.indexToLocFormat *)
  ; (head, maxp)   (* maxp.recalc sets head's bounding box *)
  ; (gvar, fvar); (gvar, glyf); (avar, fvar); (cvar, fvar) ].
Definition declared (p : tag * tag) : bool := memt (snd p) (deps_of table_dependencies (fst p)).
Theorem required_dependencies_declared : forallb declared required = true.
Proof. vm_compute. reflexivity. Qed.

(* the declared graph has no cycle: a rank (longest chain of dependencies below a table) that decreases strictly along every
   dependency -- so _writeTable returns, and fuel 8 is never exhausted *)
Fixpoint rankf (fuel : nat) (t : tag) : nat :=
  match fuel with
  | O => 0%nat
  | S f => fold_right (fun d m => Nat.max (S (rankf f d)) m) 0%nat (deps_of table_dependencies t)
  end.
Theorem declared_dependencies_acyclic :
  forallb (fun r => forallb (fun d => Nat.ltb (rankf 8 d) (rankf 8 (fst r))) (snd r)) table_dependencies = true
  /\ forallb (fun r => Nat.ltb (rankf 8 (fst r)) 5) table_dependencies = true.
Proof. split; vm_compute; reflexivity. Qed.

Example save_order_example :
  save_order 6 table_dependencies [head; hhea; hmtx; maxp; loca; glyf] [head; hhea; hmtx; maxp; loca; glyf]
  = Some ([glyf; maxp; loca; T [67; 70; 70; 32]; T [67; 70; 70; 50]; head; hmtx; hhea], [glyf; maxp; loca; head; hmtx; hhea]).
Proof. vm_compute. reflexivity. Qed.
