(* C13/Props.v — property theorems only *)
From Coq Require Import QArith List.
From FV Require Import Base.Ser Base.Res Geom.Bezier C13.Model C13.Proofs.
Import ListNotations.
Open Scope Q_scope.

(* a cubic whose control points are inside the disc stays inside it (convex hull) *)
Theorem hull3 : forall x0 y0 x1 y1 x2 y2 x3 y3 t r, 0 <= t -> t <= 1 ->
  nrm2 x0 y0 <= r -> nrm2 x1 y1 <= r -> nrm2 x2 y2 <= r -> nrm2 x3 y3 <= r ->
  nrm2 (bez3 x0 x1 x2 x3 t) (bez3 y0 y1 y2 y3 t) <= r.
Proof. exact Bezier.hull3. Qed.
Print Assumptions hull3.

(* the recursive inside-test is sound at every recursion depth *)
Theorem fit_inside_sound : forall fuel p0 p1 p2 p3 tol2,
  pn2 p0 <= tol2 -> pn2 p3 <= tol2 ->
  fit_inside fuel p0 p1 p2 p3 tol2 = Some true -> inside p0 p1 p2 p3 tol2.
Proof. exact Proofs.fit_inside_sound. Qed.
Print Assumptions fit_inside_sound.

(* every accepted quadratic segment stays within the tolerance of its cubic piece, for all t in [0,1] *)
Theorem segment_within_tolerance : forall fuel q0 q1 q2 c0 c1 c2 c3 tol2,
  pn2 (psub q0 c0) <= tol2 -> pn2 (psub q2 c3) <= tol2 ->
  fit_inside fuel (psub q0 c0) (psub (padd q0 (pscale (psub q1 q0) (2 # 3))) c1)
             (psub (padd q2 (pscale (psub q1 q2) (2 # 3))) c2) (psub q2 c3) tol2 = Some true ->
  forall t, 0 <= t -> t <= 1 -> pn2 (psub (qpt q0 q1 q2 t) (cpt c0 c1 c2 c3 t)) <= tol2.
Proof. exact Proofs.segment_within_tolerance. Qed.
Print Assumptions segment_within_tolerance.

Theorem split_two_reparam : forall p0 p1 p2 p3 t,
  let '(a, b) := split_two (p0, p1, p2, p3) in
  let '(a0, a1, a2, a3) := a in let '(b0, b1, b2, b3) := b in
  fst (cpt a0 a1 a2 a3 t) == fst (cpt p0 p1 p2 p3 (t * (1 # 2))) /\
  snd (cpt a0 a1 a2 a3 t) == snd (cpt p0 p1 p2 p3 (t * (1 # 2))) /\
  fst (cpt b0 b1 b2 b3 t) == fst (cpt p0 p1 p2 p3 ((1 # 2) + t * (1 # 2))) /\
  snd (cpt b0 b1 b2 b3 t) == snd (cpt p0 p1 p2 p3 ((1 # 2) + t * (1 # 2))).
Proof. exact Proofs.split_two_reparam. Qed.
Print Assumptions split_two_reparam.

Theorem split_three_reparam : forall p0 p1 p2 p3 t,
  match split_three (p0, p1, p2, p3) with
  | [(a0, a1, a2, a3); (b0, b1, b2, b3); (c0, c1, c2, c3)] =>
    fst (cpt a0 a1 a2 a3 t) == fst (cpt p0 p1 p2 p3 (t * (1 # 3))) /\
    snd (cpt a0 a1 a2 a3 t) == snd (cpt p0 p1 p2 p3 (t * (1 # 3))) /\
    fst (cpt b0 b1 b2 b3 t) == fst (cpt p0 p1 p2 p3 ((1 # 3) + t * (1 # 3))) /\
    snd (cpt b0 b1 b2 b3 t) == snd (cpt p0 p1 p2 p3 ((1 # 3) + t * (1 # 3))) /\
    fst (cpt c0 c1 c2 c3 t) == fst (cpt p0 p1 p2 p3 ((2 # 3) + t * (1 # 3))) /\
    snd (cpt c0 c1 c2 c3 t) == snd (cpt p0 p1 p2 p3 ((2 # 3) + t * (1 # 3)))
  | _ => False
  end.
Proof. exact Proofs.split_three_reparam. Qed.
Print Assumptions split_three_reparam.

Theorem approx_quadratic_ends : forall c0 c1 c2 c3 tol2 s,
  approx_quadratic (c0, c1, c2, c3) tol2 = Some s -> exists q1, s = [c0; q1; c3].
Proof. exact Proofs.approx_quadratic_ends. Qed.
Print Assumptions approx_quadratic_ends.
