(* C13/Proofs.v *)
From Coq Require Import QArith Lqa Lia List Bool Setoid Morphisms.
From FV Require Import Base.Ser Base.Res Geom.Bezier C13.Model.
Import ListNotations.
Open Scope Q_scope.

Lemma Qleb_true a b : Qleb a b = true -> a <= b.
Proof. unfold Qleb. apply Qle_bool_iff. Qed.
Lemma Qltb_false a b : Qltb a b = false -> b <= a.
Proof. unfold Qltb. intros H. apply negb_false_iff in H. apply Qle_bool_iff. exact H. Qed.

(* point on the cubic with control points p0..p3 *)
Definition cpt (p0 p1 p2 p3 : pt) (t : Q) : pt :=
  (bez3 (fst p0) (fst p1) (fst p2) (fst p3) t, bez3 (snd p0) (snd p1) (snd p2) (snd p3) t).
Definition qpt (q0 q1 q2 : pt) (t : Q) : pt :=
  (bez2 (fst q0) (fst q1) (fst q2) t, bez2 (snd q0) (snd q1) (snd q2) t).

Definition inside (p0 p1 p2 p3 : pt) (tol2 : Q) : Prop :=
  forall t, 0 <= t -> t <= 1 -> pn2 (cpt p0 p1 p2 p3 t) <= tol2.

Definition peq (a b : pt) : Prop := fst a == fst b /\ snd a == snd b.
Lemma nz_peq p : peq (nz p) p.
Proof. unfold peq, nz. cbn [fst snd]. split; apply Qred_correct. Qed.
Lemma peq_refl p : peq p p.
Proof. split; reflexivity. Qed.

Lemma inside_peq p0 p1 p2 p3 q0 q1 q2 q3 tol2 :
  peq p0 q0 -> peq p1 q1 -> peq p2 q2 -> peq p3 q3 -> inside p0 p1 p2 p3 tol2 -> inside q0 q1 q2 q3 tol2.
Proof.
  intros [A0 B0] [A1 B1] [A2 B2] [A3 B3] H t T0 T1. specialize (H t T0 T1).
  unfold pn2, cpt in *. cbn [fst snd] in *.
  assert (EX: bez3 (fst q0) (fst q1) (fst q2) (fst q3) t == bez3 (fst p0) (fst p1) (fst p2) (fst p3) t)
    by (apply bez3_proper; try (symmetry; assumption); reflexivity).
  assert (EY: bez3 (snd q0) (snd q1) (snd q2) (snd q3) t == bez3 (snd p0) (snd p1) (snd p2) (snd p3) t)
    by (apply bez3_proper; try (symmetry; assumption); reflexivity).
  unfold nrm2 in *. rewrite EX, EY. exact H.
Qed.

(* the exact halves (no normalisation) *)
Lemma halves_inside p0 p1 p2 p3 tol2 :
  inside p0 (pscale (padd p0 p1) (1 # 2)) (psub (pmid p0 p1 p2 p3) (pder p0 p1 p2 p3)) (pmid p0 p1 p2 p3) tol2 ->
  inside (pmid p0 p1 p2 p3) (padd (pmid p0 p1 p2 p3) (pder p0 p1 p2 p3)) (pscale (padd p2 p3) (1 # 2)) p3 tol2 ->
  inside p0 p1 p2 p3 tol2.
Proof.
  intros IL IR t T0 T1.
  destruct (Qlt_le_dec t (1 # 2)) as [Lt|Ge].
  - specialize (IL (t * 2) ltac:(lra) ltac:(lra)).
    unfold pn2, cpt in *. cbn [fst snd pscale padd psub pmid pder] in *.
    assert (E2: t * 2 * (1 # 2) == t) by ring.
    assert (EX := split_left (fst p0) (fst p1) (fst p2) (fst p3) (t * 2)).
    assert (EY := split_left (snd p0) (snd p1) (snd p2) (snd p3) (t * 2)).
    rewrite E2 in EX, EY. unfold nrm2 in *. rewrite <- EX, <- EY. exact IL.
  - specialize (IR (t * 2 - 1) ltac:(lra) ltac:(lra)).
    unfold pn2, cpt in *. cbn [fst snd pscale padd psub pmid pder] in *.
    assert (E2: (1 # 2) + (t * 2 - 1) * (1 # 2) == t) by ring.
    assert (EX := split_right (fst p0) (fst p1) (fst p2) (fst p3) (t * 2 - 1)).
    assert (EY := split_right (snd p0) (snd p1) (snd p2) (snd p3) (t * 2 - 1)).
    rewrite E2 in EX, EY. unfold nrm2 in *. rewrite <- EX, <- EY. exact IR.
Qed.

Lemma psub_peq a b a' b' : peq a a' -> peq b b' -> peq (psub a b) (psub a' b').
Proof. intros [A1 A2] [B1 B2]. unfold peq, psub. cbn [fst snd]. rewrite A1, A2, B1, B2. split; reflexivity. Qed.
Lemma padd_peq a b a' b' : peq a a' -> peq b b' -> peq (padd a b) (padd a' b').
Proof. intros [A1 A2] [B1 B2]. unfold peq, padd. cbn [fst snd]. rewrite A1, A2, B1, B2. split; reflexivity. Qed.
Lemma peq_trans a b c : peq a b -> peq b c -> peq a c.
Proof. intros [A1 A2] [B1 B2]. split; [rewrite A1|rewrite A2]; assumption. Qed.

(* cubic_farthest_fit_inside is SOUND: a True answer, with both end points inside, means the whole
   curve is within the tolerance of the origin — for every rational parameter, by induction on the
   recursion depth (no bound on it). *)
Theorem fit_inside_sound fuel : forall p0 p1 p2 p3 tol2,
  pn2 p0 <= tol2 -> pn2 p3 <= tol2 ->
  fit_inside fuel p0 p1 p2 p3 tol2 = Some true -> inside p0 p1 p2 p3 tol2.
Proof.
  induction fuel as [|f IH]; intros p0 p1 p2 p3 tol2 H0 H3 H; cbn [fit_inside] in H; [discriminate|].
  destruct (Qleb (pn2 p2) tol2 && Qleb (pn2 p1) tol2) eqn:E.
  - apply andb_prop in E. destruct E as [E2 E1]. apply Qleb_true in E1, E2.
    intros t T0 T1. unfold pn2, cpt. cbn [fst snd]. apply hull3; assumption.
  - set (mid := nz (pmid p0 p1 p2 p3)) in *. set (d := nz (pder p0 p1 p2 p3)) in *.
    destruct (Qltb tol2 (pn2 mid)) eqn:EM; [discriminate|].
    apply Qltb_false in EM.
    destruct (fit_inside f p0 (nz (pscale (padd p0 p1) (1 # 2))) (nz (psub mid d)) mid tol2) as [[|]|] eqn:EL; try discriminate.
    pose proof (IH _ _ _ _ _ H0 EM EL) as IL.
    pose proof (IH _ _ _ _ _ EM H3 H) as IR.
    assert (Pm: peq mid (pmid p0 p1 p2 p3)) by apply nz_peq.
    assert (Pd: peq d (pder p0 p1 p2 p3)) by apply nz_peq.
    apply halves_inside.
    + eapply inside_peq; [apply peq_refl|apply nz_peq| |exact Pm|exact IL].
      eapply peq_trans; [apply nz_peq|]. apply psub_peq; assumption.
    + eapply inside_peq; [exact Pm| |apply nz_peq|apply peq_refl|exact IR].
      eapply peq_trans; [apply nz_peq|]. apply padd_peq; assumption.
Qed.

Lemma nrm2_eq a a' b b' : a == a' -> b == b' -> nrm2 a b == nrm2 a' b'.
Proof. intros Ha Hb. unfold nrm2. rewrite Ha, Hb. reflexivity. Qed.

(* one accepted segment of cubic_approx_spline: the quadratic q0 q1 q2 stays within the tolerance of
   the cubic piece c0..c3 along its whole length *)
Theorem segment_within_tolerance fuel q0 q1 q2 c0 c1 c2 c3 tol2 :
  pn2 (psub q0 c0) <= tol2 -> pn2 (psub q2 c3) <= tol2 ->
  fit_inside fuel (psub q0 c0) (psub (padd q0 (pscale (psub q1 q0) (2 # 3))) c1)
             (psub (padd q2 (pscale (psub q1 q2) (2 # 3))) c2) (psub q2 c3) tol2 = Some true ->
  forall t, 0 <= t -> t <= 1 -> pn2 (psub (qpt q0 q1 q2 t) (cpt c0 c1 c2 c3 t)) <= tol2.
Proof.
  intros H0 H3 H t T0 T1.
  pose proof (fit_inside_sound fuel _ _ _ _ _ H0 H3 H t T0 T1) as S.
  eapply Qle_trans; [|exact S].
  apply Qle_lteq. right. unfold pn2, cpt, qpt, psub, padd, pscale. cbn [fst snd].
  apply nrm2_eq.
  - apply Qeq_sym. apply error_curve.
  - apply Qeq_sym. apply error_curve.
Qed.

(* the two halves produced by split_cubic_into_two are the curve on [0,1/2] and [1/2,1] *)
Theorem split_two_reparam p0 p1 p2 p3 t :
  let '(a, b) := split_two (p0, p1, p2, p3) in
  let '(a0, a1, a2, a3) := a in let '(b0, b1, b2, b3) := b in
  fst (cpt a0 a1 a2 a3 t) == fst (cpt p0 p1 p2 p3 (t * (1 # 2))) /\
  snd (cpt a0 a1 a2 a3 t) == snd (cpt p0 p1 p2 p3 (t * (1 # 2))) /\
  fst (cpt b0 b1 b2 b3 t) == fst (cpt p0 p1 p2 p3 ((1 # 2) + t * (1 # 2))) /\
  snd (cpt b0 b1 b2 b3 t) == snd (cpt p0 p1 p2 p3 ((1 # 2) + t * (1 # 2))).
Proof.
  cbn [split_two]. unfold cpt, pmid, pder, psub, padd, pscale. cbn [fst snd].
  split; [apply split_left|]. split; [apply split_left|]. split; apply split_right.
Qed.

(* thirds (split_cubic_into_three): piece i is the curve on [i/3,(i+1)/3] *)
Lemma third_1 p0 p1 p2 p3 t :
  let k := 1 # 27 in
  let mid1 := (p0 * 8 + p1 * 12 + p2 * 6 + p3) * k in
  let deriv1 := (p3 + p2 * 3 - p0 * 4) * k in
  bez3 p0 ((p0 * 2 + p1) * (1 # 3)) (mid1 - deriv1) mid1 t == bez3 p0 p1 p2 p3 (t * (1 # 3)).
Proof. cbv zeta. unfold bez3, lerp. field. Qed.
Lemma third_2 p0 p1 p2 p3 t :
  let k := 1 # 27 in
  let mid1 := (p0 * 8 + p1 * 12 + p2 * 6 + p3) * k in
  let deriv1 := (p3 + p2 * 3 - p0 * 4) * k in
  let mid2 := (p0 + p1 * 6 + p2 * 12 + p3 * 8) * k in
  let deriv2 := (p3 * 4 - p1 * 3 - p0) * k in
  bez3 mid1 (mid1 + deriv1) (mid2 - deriv2) mid2 t == bez3 p0 p1 p2 p3 ((1 # 3) + t * (1 # 3)).
Proof. cbv zeta. unfold bez3, lerp. field. Qed.
Lemma third_3 p0 p1 p2 p3 t :
  let k := 1 # 27 in
  let mid2 := (p0 + p1 * 6 + p2 * 12 + p3 * 8) * k in
  let deriv2 := (p3 * 4 - p1 * 3 - p0) * k in
  bez3 mid2 (mid2 + deriv2) ((p2 + p3 * 2) * (1 # 3)) p3 t == bez3 p0 p1 p2 p3 ((2 # 3) + t * (1 # 3)).
Proof. cbv zeta. unfold bez3, lerp. field. Qed.

Theorem split_three_reparam p0 p1 p2 p3 t :
  match split_three (p0, p1, p2, p3) with
  | [(a0, a1, a2, a3); (b0, b1, b2, b3); (c0, c1, c2, c3)] =>
    fst (cpt a0 a1 a2 a3 t) == fst (cpt p0 p1 p2 p3 (t * (1 # 3))) /\
    snd (cpt a0 a1 a2 a3 t) == snd (cpt p0 p1 p2 p3 (t * (1 # 3))) /\
    fst (cpt b0 b1 b2 b3 t) == fst (cpt p0 p1 p2 p3 ((1 # 3) + t * (1 # 3))) /\
    snd (cpt b0 b1 b2 b3 t) == snd (cpt p0 p1 p2 p3 ((1 # 3) + t * (1 # 3))) /\
    fst (cpt c0 c1 c2 c3 t) == fst (cpt p0 p1 p2 p3 ((2 # 3) + t * (1 # 3))) /\
    snd (cpt c0 c1 c2 c3 t) == snd (cpt p0 p1 p2 p3 ((2 # 3) + t * (1 # 3)))
  | _ => False
  end.
Proof.
  cbn [split_three]. unfold cpt, psub, padd, pscale. cbn [fst snd].
  split; [apply third_1|]. split; [apply third_1|]. split; [apply third_2|]. split; [apply third_2|]. split; apply third_3.
Qed.

(* whatever spline is returned starts and ends on the cubic's end points *)
Theorem approx_quadratic_ends c0 c1 c2 c3 tol2 s :
  approx_quadratic (c0, c1, c2, c3) tol2 = Some s -> exists q1, s = [c0; q1; c3].
Proof.
  unfold approx_quadratic. destruct (calc_intersect c0 c1 c2 c3) as [q1|]; [|discriminate].
  destruct (fit_inside _ _ _ _ _ _) as [[|]|]; try discriminate.
  intros H. injection H as <-. exists (nz q1). reflexivity.
Qed.
