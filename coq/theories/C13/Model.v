(* C13/Model.v — cu2qu over exact rationals.  Transcribes cu2qu/cu2qu.py:
   split_cubic_into_two/three/_split_cubic_into_n_gen (112-250), cubic_approx_control, calc_intersect,
   cubic_farthest_fit_inside (253-340), cubic_approx_quadratic, cubic_approx_spline (343-466),
   curve_to_quadratic (470-505).  complex -> pair of Q; abs(z) <= tol -> |z|^2 <= tol^2. *)
From Coq Require Import QArith List Bool.
From FV Require Import Base.Ser Base.Res Geom.Bezier.
Import ListNotations.
Open Scope Q_scope.

Definition pt := (Q * Q)%type.
Definition padd (a b : pt) : pt := (fst a + fst b, snd a + snd b).
Definition psub (a b : pt) : pt := (fst a - fst b, snd a - snd b).
Definition pscale (a : pt) (k : Q) : pt := (fst a * k, snd a * k).
Definition pn2 (a : pt) : Q := nrm2 (fst a) (snd a).
Definition pzero : pt := (0, 0).
Definition Qleb (a b : Q) : bool := Qle_bool a b.
Definition Qltb (a b : Q) : bool := negb (Qle_bool b a).
Definition Qeqb (a b : Q) : bool := Qeq_bool a b.
Definition peqb (a b : pt) : bool := Qeqb (fst a) (fst b) && Qeqb (snd a) (snd b).

(* Q arithmetic does not normalise fractions; [nz] reduces a point to lowest terms (== the same
   point) so that recursion does not blow numerators up.  It has no Python counterpart. *)
Definition nz (p : pt) : pt := (Qred (fst p), Qred (snd p)).

Definition cubic := (pt * pt * pt * pt)%type.
Definition nzc (c : cubic) : cubic := let '(a, b, c', d) := c in (nz a, nz b, nz c', nz d).

Definition pmid (p0 p1 p2 p3 : pt) : pt := (mid3 (fst p0) (fst p1) (fst p2) (fst p3), mid3 (snd p0) (snd p1) (snd p2) (snd p3)).
Definition pder (p0 p1 p2 p3 : pt) : pt := (der3 (fst p0) (fst p1) (fst p2) (fst p3), der3 (snd p0) (snd p1) (snd p2) (snd p3)).

Definition split_two (c : cubic) : cubic * cubic :=
  let '(p0, p1, p2, p3) := c in
  let mid := pmid p0 p1 p2 p3 in let d := pder p0 p1 p2 p3 in
  ((p0, pscale (padd p0 p1) (1 # 2), psub mid d, mid),
   (mid, padd mid d, pscale (padd p2 p3) (1 # 2), p3)).

Definition split_three (c : cubic) : list cubic :=
  let '(p0, p1, p2, p3) := c in
  let k := 1 # 27 in
  let mid1 := pscale (padd (padd (padd (pscale p0 8) (pscale p1 12)) (pscale p2 6)) p3) k in
  let deriv1 := pscale (psub (padd p3 (pscale p2 3)) (pscale p0 4)) k in
  let mid2 := pscale (padd (padd (padd p0 (pscale p1 6)) (pscale p2 12)) (pscale p3 8)) k in
  let deriv2 := pscale (psub (psub (pscale p3 4) (pscale p1 3)) p0) k in
  [ (p0, pscale (padd (pscale p0 2) p1) (1 # 3), psub mid1 deriv1, mid1);
    (mid1, padd mid1 deriv1, psub mid2 deriv2, mid2);
    (mid2, padd mid2 deriv2, pscale (padd p2 (pscale p3 2)) (1 # 3), p3) ].

(* calc_cubic_parameters / calc_cubic_points / _split_cubic_into_n_gen *)
Definition split_n_gen (c : cubic) (n : nat) : list cubic :=
  let '(p0, p1, p2, p3) := c in
  let cc := pscale (psub p1 p0) 3 in
  let b := psub (pscale (psub p2 p1) 3) cc in
  let d := p0 in
  let a := psub (psub (psub p3 d) cc) b in
  let dt := 1 / inject_Z (Z.of_nat n) in
  let d2 := dt * dt in let d3 := dt * d2 in
  map (fun i : nat =>
    let t1 := inject_Z (Z.of_nat i) * dt in
    let t12 := t1 * t1 in
    let a1 := pscale a d3 in
    let b1 := pscale (padd (pscale a (3 * t1)) b) d2 in
    let c1 := pscale (padd (padd (pscale b (2 * t1)) cc) (pscale a (3 * t12))) dt in
    let d1 := padd (padd (padd (pscale a (t1 * t12)) (pscale b t12)) (pscale cc t1)) d in
    let _1 := d1 in
    let _2 := padd (pscale c1 (1 # 3)) d1 in
    let _3 := padd (pscale (padd b1 c1) (1 # 3)) _2 in
    let _4 := padd (padd (padd a1 d1) c1) b1 in
    (_1, _2, _3, _4)) (seq 0 n).

Definition split_n (c : cubic) (n : nat) : list cubic :=
  match n with
  | 2%nat => let '(a, b) := split_two c in [a; b]
  | 3%nat => split_three c
  | 4%nat => let '(a, b) := split_two c in
             let '(a1, a2) := split_two a in let '(b1, b2) := split_two b in [a1; a2; b1; b2]
  | 6%nat => let '(a, b) := split_two c in split_three a ++ split_three b
  | _ => split_n_gen c n
  end.

Definition approx_control (t : Q) (c : cubic) : pt :=
  let '(p0, p1, p2, p3) := c in
  let q1 := padd p0 (pscale (psub p1 p0) (3 # 2)) in
  let q2 := padd p3 (pscale (psub p2 p3) (3 # 2)) in
  padd q1 (pscale (psub q2 q1) t).

(* dot(v1, v2) = Re(v1 * conj v2) *)
Definition dot (a b : pt) : Q := fst a * fst b + snd a * snd b.

(* None = complex(NaN, NaN) *)
Definition calc_intersect (a b c d : pt) : option pt :=
  let ab := psub b a in let cd := psub d c in
  let p := (- snd ab, fst ab) in            (* ab * 1j *)
  let den := dot p cd in
  if Qeqb den 0 then
    if peqb b c && (peqb a b || peqb c d) then Some b else None
  else Some (padd c (pscale cd (dot p (psub a c) / den))).

(* cubic_farthest_fit_inside; tol2 = tolerance^2; None = recursion limit *)
Fixpoint fit_inside (fuel : nat) (p0 p1 p2 p3 : pt) (tol2 : Q) : option bool :=
  match fuel with
  | O => None
  | S f =>
    if Qleb (pn2 p2) tol2 && Qleb (pn2 p1) tol2 then Some true
    else
      let mid := nz (pmid p0 p1 p2 p3) in
      if Qltb tol2 (pn2 mid) then Some false
      else
        let d := nz (pder p0 p1 p2 p3) in
        match fit_inside f p0 (nz (pscale (padd p0 p1) (1 # 2))) (nz (psub mid d)) mid tol2 with
        | Some true => fit_inside f mid (nz (padd mid d)) (nz (pscale (padd p2 p3) (1 # 2))) p3 tol2
        | r => r
        end
  end.

Definition FUEL := 64%nat.

Definition approx_quadratic (c : cubic) (tol2 : Q) : option (list pt) :=
  let '(c0, c1, c2, c3) := c in
  match calc_intersect c0 c1 c2 c3 with
  | None => None
  | Some q1 =>
    let q1 := nz q1 in
    let e1 := nz (psub (padd c0 (pscale (psub q1 c0) (2 # 3))) c1) in
    let e2 := nz (psub (padd c3 (pscale (psub q1 c3) (2 # 3))) c2) in
    match fit_inside FUEL pzero e1 e2 pzero tol2 with
    | Some true => Some [c0; q1; c3]
    | _ => None
    end
  end.

(* the loop of cubic_approx_spline over the pieces; returns the off-curve points or None *)
Fixpoint spline_loop (n : nat) (i : nat) (pieces : list cubic) (q0 q1 : pt) (d0 : pt) (tol2 : Q)
         (acc : list pt) : option (list pt) :=
  match pieces with
  | [] => Some (rev acc)
  | (c0, c1, c2, c3) :: rest =>
    let '(next_q1, q2, acc') :=
      match rest with
      | nc :: _ =>
        let nq := nz (approx_control (inject_Z (Z.of_nat i) / inject_Z (Z.of_nat (n - 1))) nc) in
        (nq, nz (pscale (padd q1 nq) (1 # 2)), nq :: acc)
      | [] => (q1, c3, acc)
      end in
    let d1 := nz (psub q2 c3) in
    if Qltb tol2 (pn2 d1) then None
    else
      match fit_inside FUEL d0 (nz (psub (padd q0 (pscale (psub q1 q0) (2 # 3))) c1))
                       (nz (psub (padd q2 (pscale (psub q1 q2) (2 # 3))) c2)) d1 tol2 with
      | Some true => spline_loop n (S i) rest q2 next_q1 d1 tol2 acc'
      | _ => None
      end
  end.

Definition approx_spline (c : cubic) (n : nat) (tol2 : Q) (all_quadratic : bool) : option (list pt) :=
  let '(p0, p1, p2, p3) := c in
  match n with
  | O => None
  | 1%nat => approx_quadratic c tol2
  | _ =>
    if Nat.eqb n 2 && negb all_quadratic then Some [p0; p1; p2; p3]
    else
      match map nzc (split_n c n) with
      | [] => None
      | (first :: _) as pieces =>
        let nq := nz (approx_control 0 first) in
        match spline_loop n 1 pieces p0 nq pzero tol2 [nq; p0] with
        | Some pts => Some (pts ++ [p3])
        | None => None
        end
      end
  end.

Fixpoint try_n (c : cubic) (tol2 : Q) (aq : bool) (n : nat) (count : nat) : option (nat * list pt) :=
  match count with
  | O => None
  | S k => match approx_spline c n tol2 aq with
           | Some s => Some (n, s)
           | None => try_n c tol2 aq (S n) k
           end
  end.
(* curve_to_quadratic: n = 1 .. MAX_N (100); None = ApproxNotFoundError *)
Definition curve_to_quadratic (c : cubic) (tol2 : Q) (aq : bool) : option (nat * list pt) := try_n c tol2 aq 1 100.
