From Coq Require Import QArith List String Bool.
From FV Require Import Base.Ser Base.Res C13.Model.
Import ListNotations.
Open Scope string_scope.
(* robust decisions: the same question asked with tolerance^2 scaled by (1 -/+ 2^-30) *)
Definition eps : Q := 1 # 1073741824.
Definition fit3 (p0 p1 p2 p3 : pt) (tol2 : Q) : option bool * option bool * option bool :=
  (fit_inside FUEL p0 p1 p2 p3 tol2, fit_inside FUEL p0 p1 p2 p3 (tol2 * (1 - eps)), fit_inside FUEL p0 p1 p2 p3 (tol2 * (1 + eps))).
Definition c2q (c : cubic) (tol2 : Q) (aq : bool) :=
  (curve_to_quadratic c tol2 aq, option_map fst (curve_to_quadratic c (tol2 * (1 - eps)) aq), option_map fst (curve_to_quadratic c (tol2 * (1 + eps)) aq)).
Definition run5 {A B C D E F} `{De A} `{De B} `{De C} `{De D} `{De E} `{Ser F}
  (f : A -> B -> C -> D -> E -> F) (inp : list Z) : list Z :=
  run1 (fun p : A * B * C * D * E => f (fst (fst (fst (fst p)))) (snd (fst (fst (fst p)))) (snd (fst (fst p))) (snd (fst p)) (snd p)) inp.
Definition reg : registry := [
  ("fit_inside", run5 fit3);
  ("curve_to_quadratic", run3 c2q);
  ("split_n", run2 split_n);
  ("calc_intersect", run4 calc_intersect)
].
Definition fv_entry := dispatch reg.
