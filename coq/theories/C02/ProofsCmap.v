(* C02/ProofsCmap.v — cmap formats 12 and 13: decompile (compile m) is m sorted by code, glyph 0 meaning "not mapped" *)
From Coq Require Import ZArith List Bool Lia Sorted Permutation.
From FV Require Import Base.Ser Base.Res Base.BE C02.ModelCmap.
Import ListNotations.
Open Scope Z_scope.

Lemma seqZ_length s n : length (seqZ s n) = n.
Proof. revert s. induction n as [|n IH]; intros s; cbn; [reflexivity | rewrite IH; reflexivity]. Qed.
Lemma seqZ_snoc n : forall s, seqZ s (S n) = seqZ s n ++ [s + Z.of_nat n].
Proof.
  induction n as [|n IH]; intros s.
  - cbn. rewrite Z.add_0_r. reflexivity.
  - change (seqZ s (S (S n))) with (s :: seqZ (s + 1) (S n)). rewrite IH. cbn [seqZ app].
    replace (s + 1 + Z.of_nat n) with (s + Z.of_nat (S n)) by lia. reflexivity.
Qed.
Lemma gids_length step g n : length (group_gids step g n) = n.
Proof. unfold group_gids. destruct (step =? 0); [apply repeat_length | apply seqZ_length]. Qed.
Lemma repeat_snoc {A} (x : A) n : repeat x (S n) = repeat x n ++ [x].
Proof. induction n as [|n IH]; [reflexivity|]. cbn [repeat app] in *. rewrite <- IH. reflexivity. Qed.
Lemma gids_snoc step g n : step = 0 \/ step = 1 -> group_gids step g (S n) = group_gids step g n ++ [g + step * Z.of_nat n].
Proof.
  intros [-> | ->]; unfold group_gids; cbn [Z.eqb].
  - rewrite repeat_snoc. replace (g + 0 * Z.of_nat n) with g by lia. reflexivity.
  - rewrite seqZ_snoc. replace (g + 1 * Z.of_nat n) with (g + Z.of_nat n) by lia. reflexivity.
Qed.
Lemma combine_snoc {A B} (l : list A) (l' : list B) a b : length l = length l' -> combine (l ++ [a]) (l' ++ [b]) = combine l l' ++ [(a, b)].
Proof.
  revert l'. induction l as [|x l IH]; intros [|y l'] H; cbn in *; try lia; [reflexivity|]. rewrite IH by lia. reflexivity.
Qed.

Definition run (step start startG : Z) (n : nat) : list (Z * Z) := combine (seqZ start n) (group_gids step startG n).

(* the groups written by the loop expand to exactly the pairs it read *)
Lemma loop_expand step l : step = 0 \/ step = 1 -> forall start startG lastC lastG,
  start <= lastC + 1 -> lastG = startG + step * (lastC - start) ->
  flat_map (expand_group step) (group_loop step l start startG lastC lastG) =
  run step start startG (Z.to_nat (1 + lastC - start)) ++ l.
Proof.
  intros Hstep. induction l as [|[c g] r IH]; intros start startG lastC lastG Hle HG; cbn [group_loop].
  - cbn [flat_map expand_group]. rewrite !app_nil_r. reflexivity.
  - destruct (same_run step g lastG c lastC) eqn:Es.
    + unfold same_run in Es. apply andb_true_iff in Es. destruct Es as [E1 E2]. apply Z.eqb_eq in E1, E2.
      rewrite IH; [|lia | subst; nia].
      replace (Z.to_nat (1 + c - start)) with (S (Z.to_nat (1 + lastC - start))) by lia.
      unfold run. rewrite seqZ_snoc, gids_snoc by exact Hstep.
      rewrite combine_snoc by (rewrite seqZ_length, gids_length; reflexivity).
      rewrite <- app_assoc. cbn [app].
      replace (start + Z.of_nat (Z.to_nat (1 + lastC - start))) with c by lia.
      replace (startG + step * Z.of_nat (Z.to_nat (1 + lastC - start))) with g by (subst; nia). reflexivity.
    + cbn [flat_map]. rewrite IH; [|lia | lia].
      replace (Z.to_nat (1 + c - c)) with 1%nat by lia.
      cbn [expand_group]. fold (run step start startG (Z.to_nat (1 + lastC - start))). f_equal.
      unfold run. cbn [seqZ]. unfold group_gids. destruct (step =? 0); reflexivity.
Qed.

Theorem groups_expand step l : step = 0 \/ step = 1 -> flat_map (expand_group step) (compile_groups step l) = l.
Proof.
  intros Hstep. destruct l as [|[c0 g0] r]; [reflexivity|]. unfold compile_groups.
  rewrite loop_expand; [|exact Hstep | lia | destruct Hstep as [-> | ->]; lia].
  replace (Z.to_nat (1 + (c0 - 1) - c0)) with 0%nat by lia. reflexivity.
Qed.

(* ---- bytes *)
Lemma in_u32_mod v : in_u32 v = true -> v mod 2 ^ (8 * Z.of_nat 4) = v.
Proof. unfold in_u32. intros H. apply andb_true_iff in H. destruct H as [H1 H2]. apply Z.leb_le in H1. apply Z.ltb_lt in H2. apply Z.mod_small. cbn. lia. Qed.
Lemma in_u16_mod v : in_u16 v = true -> v mod 2 ^ (8 * Z.of_nat 2) = v.
Proof. unfold in_u16. intros H. apply andb_true_iff in H. destruct H as [H1 H2]. apply Z.leb_le in H1. apply Z.ltb_lt in H2. apply Z.mod_small. cbn. lia. Qed.

Lemma read_pack_groups gs : forall rest, forallb group_ok gs = true ->
  read_groups (length gs) (flat_map pack_group gs ++ rest) = Some gs.
Proof.
  induction gs as [|[[s e] g] r IH]; intros rest Hok; [reflexivity|].
  cbn [forallb] in Hok. apply andb_true_iff in Hok. destruct Hok as [Hg Hr].
  unfold group_ok in Hg. apply andb_true_iff in Hg. destruct Hg as [Hg H3]. apply andb_true_iff in Hg. destruct Hg as [H1 H2].
  cbn [length read_groups flat_map pack_group]. rewrite <- !app_assoc.
  rewrite take_pack, (in_u32_mod s H1). rewrite take_pack, (in_u32_mod e H2). rewrite take_pack, (in_u32_mod g H3).
  rewrite IH by exact Hr. reflexivity.
Qed.

Lemma cmap12_roundtrip_match format step reserved language m : step = 0 \/ step = 1 ->
  match cmap12_compile format step reserved language m with
  | Ok bytes => cmap12_decompile step bytes = Ok (format, reserved, language, make_map (sort_codes m))
  | Err _ => True
  end.
Proof.
  intros Hstep. unfold cmap12_compile.
  set (groups := compile_groups step (sort_codes m)).
  destruct (in_u16 format && in_u16 reserved && in_u32 language && forallb group_ok groups && in_u32 (16 + 12 * Z.of_nat (length groups))) eqn:Hok; cbn [negb]; [|exact I].
  apply andb_true_iff in Hok. destruct Hok as [Hok Hlen]. apply andb_true_iff in Hok. destruct Hok as [Hok Hgs].
  apply andb_true_iff in Hok. destruct Hok as [Hok Hlang]. apply andb_true_iff in Hok. destruct Hok as [Hf Hr].
  unfold cmap12_decompile.
  rewrite take_pack, (in_u16_mod _ Hf). rewrite take_pack, (in_u16_mod _ Hr). rewrite take_pack, (in_u32_mod _ Hlen).
  rewrite take_pack, (in_u32_mod _ Hlang).
  assert (Hn : in_u32 (Z.of_nat (length groups)) = true).
  { unfold in_u32 in *. apply andb_true_iff in Hlen. destruct Hlen as [_ H2]. apply Z.ltb_lt in H2. apply andb_true_iff. split; [apply Z.leb_le; lia | apply Z.ltb_lt; lia]. }
  rewrite take_pack, (in_u32_mod _ Hn).
  assert (Hbytes : Z.of_nat (length (pack_be 2 format ++ pack_be 2 reserved ++ pack_be 4 (16 + 12 * Z.of_nat (length groups)) ++ pack_be 4 language ++
                     pack_be 4 (Z.of_nat (length groups)) ++ flat_map pack_group groups)) = 16 + 12 * Z.of_nat (length groups)).
  { rewrite !app_length, !pack_be_length.
    assert (Hfl : length (flat_map pack_group groups) = (12 * length groups)%nat).
    { clear. induction groups as [|[[s e] g] r IH]; [reflexivity|]. cbn [flat_map pack_group]. rewrite !app_length, !pack_be_length, IH. cbn [length]. lia. }
    rewrite Hfl. lia. }
  rewrite Hbytes, Z.eqb_refl. cbn [negb].
  replace (16 + 12 * Z.of_nat (length groups) =? 16 + Z.of_nat (length groups) * 12) with true by (symmetry; apply Z.eqb_eq; lia).
  cbn [negb]. rewrite Nat2Z.id.
  rewrite <- (app_nil_r (flat_map pack_group groups)). rewrite read_pack_groups by exact Hgs.
  unfold groups. rewrite groups_expand by exact Hstep. reflexivity.
Qed.
Theorem cmap12_roundtrip_raw format step reserved language m bytes : step = 0 \/ step = 1 ->
  cmap12_compile format step reserved language m = Ok bytes ->
  cmap12_decompile step bytes = Ok (format, reserved, language, make_map (sort_codes m)).
Proof. intros Hstep Hc. pose proof (cmap12_roundtrip_match format step reserved language m Hstep) as L. rewrite Hc in L. exact L. Qed.

(* ---- the sort, and the dict built from strictly increasing codes *)
Lemma insert_code_perm p l : Permutation (insert_code p l) (p :: l).
Proof. induction l as [|q r IH]; cbn; [reflexivity|]. destruct (fst p <=? fst q); [reflexivity|]. rewrite IH. apply perm_swap. Qed.
Lemma sort_codes_perm l : Permutation (sort_codes l) l.
Proof. induction l as [|p r IH]; cbn; [reflexivity|]. rewrite insert_code_perm. constructor. exact IH. Qed.
Definition cle (a b : Z * Z) : Prop := fst a <= fst b.
Lemma insert_code_sorted p l : Sorted cle l -> Sorted cle (insert_code p l).
Proof.
  induction l as [|q r IH]; intros Hs; cbn; [constructor; constructor|].
  destruct (Z.leb_spec (fst p) (fst q)) as [L|L].
  - constructor; [exact Hs|]. constructor. exact L.
  - apply Sorted_inv in Hs. destruct Hs as [Hs Hd]. constructor; [apply IH; exact Hs|].
    destruct r as [|z r']; cbn; [constructor; unfold cle; lia|].
    apply HdRel_inv in Hd. destruct (Z.leb_spec (fst p) (fst z)); constructor; unfold cle in *; lia.
Qed.
Lemma sort_codes_sorted l : Sorted cle (sort_codes l).
Proof. induction l as [|p r IH]; cbn; [constructor|]. apply insert_code_sorted. exact IH. Qed.
Lemma sort_codes_strict l : NoDup (map fst l) -> StronglySorted (fun a b => fst a < fst b) (sort_codes l).
Proof.
  intros Hnd. assert (Hs := sort_codes_sorted l). apply Sorted_StronglySorted in Hs; [|intros a b c; unfold cle; lia].
  assert (Hnd' : NoDup (map fst (sort_codes l))).
  { apply (Permutation_NoDup (l := map fst l)); [apply Permutation_map; symmetry; apply sort_codes_perm | exact Hnd]. }
  induction (sort_codes l) as [|p r IH]; [constructor|].
  apply StronglySorted_inv in Hs. destruct Hs as [Hs Hall]. cbn in Hnd'. apply NoDup_cons_iff in Hnd'. destruct Hnd' as [Hni Hnd'].
  constructor; [apply IH; auto|]. rewrite Forall_forall in *. intros q Hq. specialize (Hall q Hq). unfold cle in Hall.
  assert (fst p <> fst q) by (intros E; apply Hni; rewrite E; apply in_map; exact Hq). lia.
Qed.

Lemma dict_set_fresh k v d : (forall p, In p d -> fst p <> k) -> dict_set k v d = d ++ [(k, v)].
Proof.
  induction d as [|[k' v'] r IH]; intros H; cbn; [reflexivity|].
  destruct (Z.eqb_spec k k') as [->|Hne]; [exfalso; apply (H (k', v')); [left; reflexivity | reflexivity]|].
  rewrite IH; [reflexivity|]. intros p Hp. apply H. right. exact Hp.
Qed.
Definition mapped (p : Z * Z) : bool := negb (snd p =? 0).
Lemma make_map_fold l : forall d, StronglySorted (fun a b => fst a < fst b) l -> (forall p q, In p d -> In q l -> fst p < fst q) ->
  fold_left (fun d kv => if snd kv =? 0 then d else dict_set (fst kv) (snd kv) d) l d = d ++ filter mapped l.
Proof.
  induction l as [|[c g] r IH]; intros d Hs Hlt; cbn [fold_left filter].
  - rewrite app_nil_r. reflexivity.
  - apply StronglySorted_inv in Hs. destruct Hs as [Hs Hall]. rewrite Forall_forall in Hall.
    unfold mapped at 1. cbn [fst snd]. destruct (g =? 0) eqn:Eg; cbn [negb].
    + apply IH; [exact Hs|]. intros p q Hp Hq. apply Hlt; [exact Hp | right; exact Hq].
    + rewrite dict_set_fresh.
      * rewrite IH; [rewrite <- app_assoc; reflexivity | exact Hs|].
        intros p q Hp Hq. apply in_app_or in Hp. destruct Hp as [Hp | [<- | []]].
        -- apply Hlt; [exact Hp | right; exact Hq].
        -- apply (Hall q Hq).
      * intros p Hp E. specialize (Hlt p (c, g) Hp (or_introl eq_refl)). cbn in Hlt. lia.
Qed.
Lemma make_map_sorted l : StronglySorted (fun a b => fst a < fst b) l -> make_map l = filter mapped l.
Proof. intros Hs. unfold make_map. rewrite make_map_fold; [reflexivity | exact Hs | intros p q []]. Qed.

(* ---- the property: the compiled subtable decodes to the same character map (sorted by code; glyph 0 = not mapped) *)
Theorem cmap12_roundtrip format step reserved language m bytes : step = 0 \/ step = 1 -> NoDup (map fst m) ->
  cmap12_compile format step reserved language m = Ok bytes ->
  cmap12_decompile step bytes = Ok (format, reserved, language, filter mapped (sort_codes m)) /\
  Permutation (sort_codes m) m /\ StronglySorted (fun a b => fst a < fst b) (sort_codes m).
Proof.
  intros Hstep Hnd Hc. split; [|split; [apply sort_codes_perm | apply sort_codes_strict; exact Hnd]].
  rewrite (cmap12_roundtrip_raw _ _ _ _ _ _ Hstep Hc). rewrite make_map_sorted; [reflexivity | apply sort_codes_strict; exact Hnd].
Qed.

(* an empty mapping is a subtable with zero groups (F7, fixed in e7ca7cc) *)
Example cmap12_empty : cmap12_compile 12 1 0 0 [] = Ok [0; 12; 0; 0; 0; 0; 0; 16; 0; 0; 0; 0; 0; 0; 0; 0] /\
  cmap12_decompile 1 [0; 12; 0; 0; 0; 0; 0; 16; 0; 0; 0; 0; 0; 0; 0; 0] = Ok (12, 0, 0, []).
Proof. split; vm_compute; reflexivity. Qed.
Example cmap12_example : exists bytes, cmap12_compile 12 1 0 0 [(70, 9); (65, 3); (66, 4); (67, 5); (68, 0)] = Ok bytes /\
  cmap12_decompile 1 bytes = Ok (12, 0, 0, [(65, 3); (66, 4); (67, 5); (70, 9)]).
Proof. eexists. split; vm_compute; reflexivity. Qed.
