(* C02/ModelGlyf.v — simple-glyph point data: Glyph.compileDeltasGreedy (_g_l_y_f.py:1014-1060), decompileCoordinatesRaw (930-986)
   and the sign/zero reconstruction of decompileCoordinates (893-925). Points are (flag, dx, dy) with RELATIVE coordinates. *)
From Coq Require Import ZArith List Bool Lia.
From FV Require Import Base.Ser Base.Res Base.Bits Base.BE Base.ListX.
Import ListNotations.
Open Scope Z_scope.

Definition flagOnCurve := 1. Definition flagXShort := 2. Definition flagYShort := 4. Definition flagRepeat := 8.
Definition flagXsame := 16. Definition flagYsame := 32. Definition flagOverlapSimple := 64. Definition flagCubic := 128.
Definition keepFlags := 193.      (* flagOnCurve + flagOverlapSimple + flagCubic *)

Definition pt := (Z * (Z * Z))%type.                     (* flag, dx, dy *)
Definition in_i16 (v : Z) : bool := (-32768 <=? v) && (v <=? 32767).

(* one coordinate: the flag bits it sets (given the short and the same/positive bit) and its bytes *)
Definition enc_coord (short same : Z) (v : Z) : Res (Z * list Z) :=
  if v =? 0 then Ok (same, [])
  else if (-255 <=? v) && (v <=? 255) then (if 0 <? v then Ok (Z.lor short same, [v]) else Ok (short, [- v]))
  else if in_i16 v then Ok (0, pack_be 2 v) else Err StructError.

(* the flag byte, x bytes and y bytes of every point *)
Fixpoint enc_points (ps : list pt) : Res (list Z * list Z * list Z) :=
  match ps with
  | [] => Ok ([], [], [])
  | (f, (x, y)) :: r =>
      let* (bx, xb) := enc_coord flagXShort flagXsame x in
      let* (by_, yb) := enc_coord flagYShort flagYsame y in
      let* (fs, xs, ys) := enc_points r in
      Ok (Z.lor (Z.lor f bx) by_ :: fs, xb ++ xs, yb ++ ys)
  end.

(* repeated flags: a flag followed by k <= 255 equal ones is written once (k = 0), twice (k = 1) or as flag|repeat, k *)
Fixpoint span_same (cap : nat) (f : Z) (l : list Z) : nat * list Z :=
  match cap, l with
  | S c, a :: r => if a =? f then let '(k, rest) := span_same c f r in (S k, rest) else (O, l)
  | _, _ => (O, l)
  end.
Fixpoint rle (fuel : nat) (fs : list Z) : list Z :=
  match fuel with
  | O => []
  | S fu =>
      match fs with
      | [] => []
      | f :: r =>
          let '(k, rest) := span_same 255 f r in
          (match k with O => [f] | S O => [f; f] | _ => [Z.lor f flagRepeat; Z.of_nat k] end) ++ rle fu rest
      end
  end.

Definition compileDeltasGreedy (ps : list pt) : Res (list Z) :=
  let* (fs, xs, ys) := enc_points ps in Ok (rle (length fs) fs ++ xs ++ ys).

(* ---- decoding *)
Fixpoint read_flags (fuel : nat) (n : nat) (data : list Z) (acc : list Z) : Res (list Z * list Z) :=
  match fuel with
  | O => Err OutOfFuel
  | S fu =>
      match data with
      | [] => Err IndexError
      | flag :: r =>
          let* (rep, r1) := if Z.land flag flagRepeat =? 0 then Ok (1%nat, r)
                            else match r with c :: r' => Ok (S (Z.to_nat c), r') | [] => Err IndexError end in
          let acc' := acc ++ repeat flag rep in
          if (n <=? length acc')%nat then (if Nat.eqb (length acc') n then Ok (acc', r1) else Err IndexError)   (* flags[j] = flag past the bytearray *)
          else read_flags fu n r1 acc'
      end
  end.

(* the coordinate stream selected by (short, same) of each flag; struct.unpack refuses a short buffer *)
Fixpoint read_coords (short same : Z) (flags : list Z) (data : list Z) : Res (list Z * list Z) :=
  match flags with
  | [] => Ok ([], data)
  | f :: r =>
      let* (v, d1) :=
        if negb (Z.land f short =? 0) then
          match data with b :: d => Ok (if negb (Z.land f same =? 0) then b else - b, d) | [] => Err StructError end
        else if negb (Z.land f same =? 0) then Ok (0, data)
        else match take_be 2 data with Some (u, d) => Ok (to_signed 16 u, d) | None => Err StructError end in
      let* (vs, d2) := read_coords short same r d1 in Ok (v :: vs, d2)
  end.

Definition decompileCoordinates (n : nat) (data : list Z) : Res (list pt * list Z) :=
  let* (flags, d1) := read_flags (S (length data)) n data [] in
  let* (xs, d2) := read_coords flagXShort flagXsame flags d1 in
  let* (ys, d3) := read_coords flagYShort flagYsame flags d2 in
  Ok (combine (map (fun f => Z.land f keepFlags) flags) (combine xs ys), d3).


