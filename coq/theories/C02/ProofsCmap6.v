(* C02/ProofsCmap6.v — cmap format 6: decompile (compile m) = m *)
From Coq Require Import ZArith List Bool Lia Arith.
From FV Require Import Base.Ser Base.Res Base.BE C02.ModelCmap6.
Import ListNotations.
Open Scope Z_scope.

(* codes strictly increasing and all >= c *)
Fixpoint sorted_from (c : Z) (m : cm) : Prop :=
  match m with [] => True | (k, _) :: r => c <= k /\ sorted_from (k + 1) r end.
Definition gids_ok (m : cm) : Prop := Forall (fun p => snd p <> 0) m.

Lemma sorted_from_weaken c c' m : c' <= c -> sorted_from c m -> sorted_from c' m.
Proof. destruct m as [|[k g] r]; cbn; [auto|]. intros H [H1 H2]. split; [lia|exact H2]. Qed.
Lemma lookup_absent c : forall m, sorted_from (c + 1) m -> lookup c m = 0.
Proof.
  induction m as [|[k g] r IH]; cbn [lookup sorted_from]; [reflexivity|]. intros [H1 H2].
  destruct (Z.eqb_spec k c); [lia|]. apply IH. eapply sorted_from_weaken; [|exact H2]. lia.
Qed.
Lemma fill_skip k g r : forall n c, k < c -> fill n c ((k, g) :: r) = fill n c r.
Proof.
  induction n as [|n IH]; intros c H; cbn [fill lookup]; [reflexivity|].
  destruct (Z.eqb_spec k c); [lia|]. rewrite IH by lia. reflexivity.
Qed.
Lemma zip_fill : forall n c m, sorted_from c m -> gids_ok m -> Forall (fun p => fst p < c + Z.of_nat n) m ->
  zip_from c (fill n c m) = m.
Proof.
  induction n as [|n IH]; intros c m HS HG HB.
  - destruct m as [|[k g] r]; [reflexivity|]. cbn in HS. inversion HB; subst. cbn in *. lia.
  - cbn [fill zip_from]. destruct m as [|[k g] r].
    + cbn [lookup]. cbn [Z.eqb]. rewrite (IH (c + 1) []); [reflexivity|exact I|constructor|constructor].
    + cbn [sorted_from] in HS. destruct HS as [H1 H2]. inversion HG as [|? ? Hg HG']; subst. inversion HB as [|? ? Hb HB']; subst.
      cbn [fst snd] in *. cbn [lookup]. destruct (Z.eqb_spec k c) as [E|E].
      * subst k. destruct (Z.eqb_spec g 0); [contradiction|]. f_equal.
        rewrite fill_skip by lia. apply IH; [exact H2|exact HG'|].
        eapply Forall_impl; [|exact HB']. intros p Hp. cbn beta in *. lia.
      * rewrite lookup_absent by (eapply sorted_from_weaken; [|exact H2]; lia). cbn [Z.eqb].
        apply IH; [cbn [sorted_from]; split; [lia|exact H2]|exact HG|].
        constructor; [cbn [fst]; lia|]. eapply Forall_impl; [|exact HB']. intros p Hp. cbn beta in *. lia.
Qed.

Lemma fill_length : forall n c m, length (fill n c m) = n.
Proof. induction n; intros; cbn [fill length]; [reflexivity|]. rewrite IHn. reflexivity. Qed.
Lemma flat_pack_length (vals : list Z) : length (flat_map (pack_be 2) vals) = (2 * length vals)%nat.
Proof. induction vals as [|v r IH]; [reflexivity|]. cbn [flat_map]. rewrite app_length, pack_be_length, IH. cbn [length]. lia. Qed.
Lemma read_packed : forall vals rest, forallb u16b vals = true ->
  read_u16s (length vals) (flat_map (pack_be 2) vals ++ rest) = vals.
Proof.
  induction vals as [|v r IH]; intros rest H; [reflexivity|].
  cbn [forallb] in H. apply andb_true_iff in H. destruct H as [Hv Hr].
  cbn [flat_map length read_u16s]. rewrite <- app_assoc, take_pack.
  unfold u16b in Hv. apply andb_true_iff in Hv. destruct Hv as [H0 H1]. apply Z.leb_le in H0. apply Z.ltb_lt in H1.
  change (2 ^ (8 * Z.of_nat 2)) with 65536. rewrite Z.mod_small by lia. rewrite IH by exact Hr. reflexivity.
Qed.

Lemma last_bound : forall (m : cm) c, sorted_from c m -> Forall (fun p => fst p <= fst (last m (0, 0))) m.
Proof.
  induction m as [|[k g] r IH]; intros c HS; [constructor|].
  cbn [sorted_from] in HS. destruct HS as [H1 H2]. destruct r as [|[k2 g2] r2].
  - constructor; [cbn; lia|constructor].
  - pose proof (IH _ H2) as HI. change (last ((k, g) :: (k2, g2) :: r2) (0, 0)) with (last ((k2, g2) :: r2) (0, 0)).
    constructor; [|exact HI]. inversion HI; subst. cbn [fst] in *. cbn [sorted_from] in H2. lia.
Qed.

Lemma take_pack_nil n v : take_be n (pack_be n v) = Some (v mod 2 ^ (8 * Z.of_nat n), []).
Proof. rewrite <- (app_nil_r (pack_be n v)). apply take_pack. Qed.

Theorem cmap6_roundtrip language m :
  sorted_from 0 m -> gids_ok m ->
  match cmap6_compile language m with
  | Ok bytes => cmap6_decompile bytes = Ok (language, m)
  | Err _ => True
  end.
Proof.
  intros HS HG. unfold cmap6_compile. destruct m as [|[first g0] r].
  - destruct (u16b language) eqn:EL; [|exact I].
    unfold u16b in EL. apply andb_true_iff in EL. destruct EL as [L0 L1]. apply Z.leb_le in L0. apply Z.ltb_lt in L1.
    unfold cmap6_decompile. rewrite !app_length, !pack_be_length.
    repeat (first [rewrite take_pack|rewrite take_pack_nil]; cbn [app]).
    change (2 ^ (8 * Z.of_nat 2)) with 65536. rewrite !Z.mod_small by lia.
    reflexivity.
  - set (m := (first, g0) :: r) in *.
    set (lastc := fst (last m (0, 0))). set (n := Z.to_nat (lastc - first + 1)). set (vals := fill n first m).
    destruct (forallb u16b vals) eqn:EV; cbn [negb]; [|exact I].
    destruct (u16b (2 * Z.of_nat n + 10) && u16b language && u16b first && u16b (Z.of_nat n)) eqn:EC; [|exact I].
    repeat (apply andb_true_iff in EC; destruct EC as [EC ?]).
    repeat match goal with H : u16b _ = true |- _ => unfold u16b in H; apply andb_true_iff in H; destruct H as [?H ?H] end.
    repeat match goal with H : (_ <=? _) = true |- _ => apply Z.leb_le in H | H : (_ <? _) = true |- _ => apply Z.ltb_lt in H end.
    unfold cmap6_decompile.
    repeat (rewrite take_pack; cbn [app]). change (2 ^ (8 * Z.of_nat 2)) with 65536. rewrite !Z.mod_small by lia.
    rewrite !app_length, !pack_be_length, flat_pack_length. unfold vals at 1. rewrite fill_length.
    replace (Z.of_nat (2 + (2 + (2 + (2 + (2 + 2 * n)))))) with (2 * Z.of_nat n + 10) by lia.
    rewrite Z.eqb_refl. cbn [negb].
    rewrite Nat2Z.id.
    assert (Hfl : firstn (2 * n) (flat_map (pack_be 2) vals) = flat_map (pack_be 2) vals).
    { apply firstn_all2. rewrite flat_pack_length. unfold vals. rewrite fill_length. lia. }
    rewrite Hfl, flat_pack_length. unfold vals at 1 2. rewrite fill_length.
    replace (Nat.odd (2 * n)) with false by (rewrite Nat.odd_mul; reflexivity).
    replace (Nat.div2 (2 * n)) with n by (symmetry; apply Nat.div2_double).
    assert (Hrd : read_u16s n (flat_map (pack_be 2) vals) = vals).
    { pose proof (read_packed vals [] EV) as Hr. rewrite app_nil_r in Hr. unfold vals in Hr at 1. rewrite fill_length in Hr. exact Hr. }
    rewrite Hrd. unfold vals. f_equal. f_equal.
    apply zip_fill.
    + unfold m in HS |- *. cbn [sorted_from] in HS |- *. destruct HS as [_ HS2]. split; [lia|exact HS2].
    + exact HG.
    + pose proof (last_bound m 0 HS) as HB. fold lastc in HB.
      assert (first <= lastc) by (inversion HB; subst; cbn [fst] in *; assumption).
      eapply Forall_impl; [|exact HB]. intros p Hp. cbn beta in *. unfold n. rewrite Z2Nat.id by lia. lia.
Qed.

(* non-vacuity: a mapping with holes *)
Example cmap6_example :
  cmap6_compile 0 [(65, 3); (67, 5)] = Ok [0; 6; 0; 16; 0; 0; 0; 65; 0; 3; 0; 3; 0; 0; 0; 5]
  /\ cmap6_decompile [0; 6; 0; 16; 0; 0; 0; 65; 0; 3; 0; 3; 0; 0; 0; 5] = Ok (0, [(65, 3); (67, 5)]).
Proof. split; vm_compute; reflexivity. Qed.

(* ---- what the decoder returns is always a mapping the round trip applies to: decompile . compile . decompile = decompile
   (C01's second-generation stability for this subtable, for ANY bytes the decoder accepts) *)
Lemma zip_from_sorted : forall gs c, sorted_from c (zip_from c gs).
Proof.
  induction gs as [|g r IH]; intros c; cbn [zip_from]; [exact I|].
  destruct (g =? 0); [eapply sorted_from_weaken; [|apply IH]; lia|]. cbn [sorted_from]. split; [lia|apply IH].
Qed.
Lemma zip_from_gids : forall gs c, gids_ok (zip_from c gs).
Proof.
  induction gs as [|g r IH]; intros c; cbn [zip_from]; [constructor|].
  destruct (Z.eqb_spec g 0); [apply IH|]. constructor; [exact n|apply IH].
Qed.
Lemma take_be_S k b r : take_be (S k) (b :: r) =
  match take_be k r with Some (x, r') => Some (b * 2 ^ (8 * Z.of_nat k) + x, r') | None => None end.
Proof. reflexivity. Qed.
Lemma take_be_nonneg : forall n bs v r, take_be n bs = Some (v, r) -> Forall is_byte bs -> 0 <= v /\ Forall is_byte r.
Proof.
  induction n as [|n IH]; intros bs v r H HB.
  - change (take_be 0 bs) with (Some (0, bs)) in H. injection H as <- <-. split; [lia|exact HB].
  - destruct bs as [|b bs']; [discriminate H|]. rewrite take_be_S in H. inversion HB as [|? ? Hb HB']; subst.
    destruct (take_be n bs') as [[v' r']|] eqn:E; [|discriminate H]. injection H as <- <-.
    destruct (IH _ _ _ E HB') as [Hv Hr]. split; [|exact Hr].
    unfold is_byte in Hb. assert (0 <= 2 ^ (8 * Z.of_nat n)) by (apply Z.pow_nonneg; lia). nia.
Qed.

Theorem cmap6_recompile_stable data language m :
  Forall is_byte data -> cmap6_decompile data = Ok (language, m) ->
  match cmap6_compile language m with
  | Ok bytes => cmap6_decompile bytes = Ok (language, m)
  | Err _ => True
  end.
Proof.
  intros HB H. unfold cmap6_decompile in H.
  destruct (take_be 2 data) as [[v0 d1]|] eqn:E0; [|discriminate].
  destruct (take_be 2 d1) as [[len d2]|] eqn:E1; [|discriminate].
  destruct (take_be 2 d2) as [[lang d3]|] eqn:E2; [|discriminate].
  destruct (negb (Z.of_nat (length data) =? len)); [discriminate|].
  destruct (take_be 2 d3) as [[first d4]|] eqn:E3; [|discriminate].
  destruct (take_be 2 d4) as [[cnt d5]|] eqn:E4; [|discriminate].
  destruct (Nat.odd (length (firstn (2 * Z.to_nat cnt) d5))); [discriminate|].
  inversion H; subst language m. clear H.
  destruct (take_be_nonneg _ _ _ _ E0 HB) as [_ B1]. destruct (take_be_nonneg _ _ _ _ E1 B1) as [_ B2].
  destruct (take_be_nonneg _ _ _ _ E2 B2) as [_ B3]. destruct (take_be_nonneg _ _ _ _ E3 B3) as [Hf _].
  apply cmap6_roundtrip; [|apply zip_from_gids].
  eapply sorted_from_weaken; [|apply zip_from_sorted]. exact Hf.
Qed.
