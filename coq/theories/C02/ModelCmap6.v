(* C02/ModelCmap6.v — ttLib/tables/_c_m_a_p.py: cmap_format_6.compile / decompile (1118-1168) with CmapSubtable.decompileHeader and
   _make_map.  A mapping is the list of (code, glyph ID) pairs in increasing code order (what sorted(cmap.items()) gives once names
   are resolved); glyph ID 0 is what compile writes for the holes and what _make_map leaves out again. *)
From Coq Require Import ZArith List Bool.
From FV Require Import Base.Ser Base.Res Base.BE.
Import ListNotations.
Open Scope Z_scope.

Definition cm := list (Z * Z).
Definition u16b (v : Z) : bool := (0 <=? v) && (v <? 65536).

Fixpoint lookup (c : Z) (m : cm) : Z :=
  match m with [] => 0 | (k, g) :: r => if k =? c then g else lookup c r end.
(* [cmap[code] if code in cmap else 0 for code in range(first, last + 1)] *)
Fixpoint fill (n : nat) (c : Z) (m : cm) : list Z :=
  match n with O => [] | S k => lookup c m :: fill k (c + 1) m end.

Definition cmap6_compile (language : Z) (m : cm) : Res (list Z) :=
  match m with
  | [] =>
    if u16b language then Ok (pack_be 2 6 ++ pack_be 2 10 ++ pack_be 2 language ++ pack_be 2 0 ++ pack_be 2 0)
    else Err StructError
  | (first, _) :: _ =>
    let lastc := fst (last m (0, 0)) in
    let n := Z.to_nat (lastc - first + 1) in
    let vals := fill n first m in
    if negb (forallb u16b vals) then Err OverflowError                 (* array.array("H", valueList) *)
    else
      let len := 2 * Z.of_nat n + 10 in
      if u16b len && u16b language && u16b first && u16b (Z.of_nat n)
      then Ok (pack_be 2 6 ++ pack_be 2 len ++ pack_be 2 language ++ pack_be 2 first ++ pack_be 2 (Z.of_nat n)
               ++ flat_map (pack_be 2) vals)
      else Err StructError
  end.

Fixpoint read_u16s (n : nat) (bs : list Z) : list Z :=
  match n with
  | O => []
  | S k => match take_be 2 bs with Some (v, r) => v :: read_u16s k r | None => [] end
  end.
(* _make_map: zip(codes, gids), glyph 0 dropped *)
Fixpoint zip_from (c : Z) (gs : list Z) : cm :=
  match gs with
  | [] => []
  | g :: r => if g =? 0 then zip_from (c + 1) r else (c, g) :: zip_from (c + 1) r
  end.

(* (language, mapping) *)
Definition cmap6_decompile (data : list Z) : Res (Z * cm) :=
  match take_be 2 data with
  | Some (_, d1) =>
    match take_be 2 d1 with
    | Some (len, d2) =>
      match take_be 2 d2 with
      | Some (lang, d3) =>
        if negb (Z.of_nat (length data) =? len) then Err AssertionError
        else match take_be 2 d3 with
             | Some (first, d4) =>
               match take_be 2 d4 with
               | Some (cnt, d5) =>
                 let avail := firstn (2 * Z.to_nat cnt) d5 in
                 if Nat.odd (length avail) then Err ValueError          (* array.frombytes on an odd number of bytes *)
                 else Ok (lang, zip_from first (read_u16s (Nat.div2 (length avail)) avail))
               | None => Err StructError
               end
             | None => Err StructError
             end
      | None => Err StructError
      end
    | None => Err StructError
    end
  | None => Err StructError
  end.
