(* C02/ProofsCmap0.v *)
From Coq Require Import ZArith List Bool Lia.
From FV Require Import Base.Res Base.BE C02.ModelCmap6 C02.ProofsCmap6 C02.ModelCmap0.
Import ListNotations.
Open Scope Z_scope.

Lemma take2_pack v rest : 0 <= v < 65536 -> take_be 2 (pack_be 2 v ++ rest) = Some (v, rest).
Proof. intros H. rewrite take_pack. change (2 ^ (8 * Z.of_nat 2)) with 65536. rewrite Z.mod_small by lia. reflexivity. Qed.

Theorem cmap0_roundtrip language m :
  sorted_from 0 m -> gids_ok m ->
  match cmap0_compile language m with
  | Ok bytes => cmap0_decompile bytes = Ok (language, m)
  | Err _ => True
  end.
Proof.
  intros S G. unfold cmap0_compile.
  destruct (forallb code8 m) eqn:C; cbn [negb]; [|exact I].
  destruct (forallb gid8 (fill 256 0 m)) eqn:V; cbn [negb]; [|exact I].
  destruct (u16b language) eqn:L; [|exact I].
  unfold u16b in L. apply andb_true_iff in L. destruct L as [L1 L2].
  unfold cmap0_decompile.
  rewrite take2_pack by lia. rewrite take2_pack by lia. rewrite take2_pack by lia.
  rewrite !app_length, !pack_be_length, fill_length.
  change (Z.of_nat (2 + (2 + (2 + 256))) =? 262) with true. cbn [negb].
  change (262 =? 262) with true. cbn [negb]. f_equal. f_equal.
  apply (zip_fill 256 0 m S G).
  rewrite forallb_forall in C. apply Forall_forall. intros p Hp. specialize (C p Hp). unfold code8 in C.
  apply andb_true_iff in C. destruct C as [_ C]. cbn. lia.
Qed.

(* decompile . compile . decompile = decompile: a format 0 subtable read from any accepted bytes recompiles (when it recompiles)
   to something that reads back the same *)
Theorem cmap0_recompile_stable data language m :
  cmap0_decompile data = Ok (language, m) ->
  match cmap0_compile language m with
  | Ok bytes => cmap0_decompile bytes = Ok (language, m)
  | Err _ => True
  end.
Proof.
  intros H. unfold cmap0_decompile in H.
  destruct (take_be 2 data) as [[v0 d1]|]; [|discriminate].
  destruct (take_be 2 d1) as [[len d2]|]; [|discriminate].
  destruct (take_be 2 d2) as [[lang d3]|]; [|discriminate].
  destruct (negb (Z.of_nat (length data) =? len)); [discriminate|].
  destruct (negb (len =? 262)); [discriminate|].
  inversion H; subst language m. clear H.
  apply cmap0_roundtrip; [apply zip_from_sorted | apply zip_from_gids].
Qed.
