(* C02/Proofs.v *)
From Coq Require Import ZArith List Bool Lia Arith.
From FV Require Import Base.Ser Base.Bits Base.Res Base.BE Base.ListX C02.Model.
Import ListNotations.
Open Scope Z_scope.

(* ---------- hmtx ---------- *)
Lemma read_long_pack long : forall rest,
  Forall (fun m => 0 <= fst m < 65536 /\ -32768 <= snd m < 32768) long ->
  read_long (length long) (flat_map (fun m => pack_be 2 (fst m) ++ pack_be 2 (snd m)) long ++ rest) = Some (long, rest).
Proof.
  induction long as [|[a s] r IH]; intros rest H; [reflexivity|].
  inversion H as [|? ? [Ha Hs] Hr]; subst. cbn [fst snd] in *.
  cbn [length flat_map read_long fst snd]. rewrite <- !app_assoc.
  rewrite take_pack. rewrite take_pack. rewrite IH by exact Hr.
  change (8 * Z.of_nat 2) with 16. rewrite (Z.mod_small a) by (change (2^16) with 65536; lia).
  rewrite to_signed_mod by (change (2^(16-1)) with 32768; lia). reflexivity.
Qed.

Lemma read_short_pack adv short :
  Forall (fun s => -32768 <= s < 32768) short ->
  read_short (length short) adv (flat_map (pack_be 2) short) = Some (map (fun s => (adv, s)) short).
Proof.
  induction short as [|s r IH]; intros H; [reflexivity|].
  inversion H as [|? ? Hs Hr]; subst. cbn [length flat_map read_short map].
  rewrite take_pack, IH by exact Hr. change (8 * Z.of_nat 2) with 16.
  rewrite to_signed_mod by (change (2^(16-1)) with 32768; lia). reflexivity.
Qed.

(* the trailing glyphs that lose their advance all have the advance of the last long metric *)
Lemma run_equal_spec last l : Forall (fun a => a = last) (firstn (run_equal last l) l).
Proof.
  induction l as [|a r IH]; cbn [run_equal]; [constructor|].
  destruct (Z.eqb_spec a last) as [->|N]; cbn [firstn]; [constructor; auto|constructor].
Qed.

Lemma number_of_metrics_spec ms : ms <> [] ->
  let k := number_of_metrics ms in
  (1 <= k <= length ms)%nat /\
  Forall (fun m => fst m = fst (last (firstn k ms) (0, 0))) (skipn k ms).
Proof.
  intros NE. unfold number_of_metrics.
  destruct (rev (map fst ms)) as [|lastv before] eqn:E.
  - exfalso. apply NE. apply (f_equal (@rev Z)) in E. rewrite rev_involutive in E. cbn in E.
    destruct ms; [reflexivity|discriminate].
  - cbv zeta.
    assert (Lms: length ms = S (length before)).
    { apply (f_equal (@length Z)) in E. rewrite rev_length, map_length in E. cbn in E. exact E. }
    assert (Lb: length before = (length ms - 1)%nat) by lia.
    pose proof (run_equal_spec lastv before) as R. set (run := run_equal lastv before) in *.
    assert (Rl: (run <= length before)%nat).
    { unfold run. clear. induction before as [|a r IH]; cbn; [lia|]. destruct (a =? lastv); cbn; lia. }
    split; [lia|].
    (* advances = rev (lastv :: before) *)
    assert (Adv: map fst ms = rev before ++ [lastv]).
    { apply (f_equal (@rev Z)) in E. rewrite rev_involutive in E. exact E. }
    set (k := (length ms - run)%nat).
    (* the advances at positions >= k-1 are all lastv *)
    assert (Tail: forall i, (k - 1 <= i < length ms)%nat -> nth i (map fst ms) 0 = lastv).
    { intros i Hi. rewrite Adv.
      destruct (Nat.eq_dec i (length ms - 1)) as [->|Ni].
      - rewrite app_nth2 by (rewrite rev_length; lia). rewrite rev_length, Lb, Nat.sub_diag. reflexivity.
      - rewrite app_nth1 by (rewrite rev_length; lia).
        rewrite rev_nth by lia.
        set (j := (length before - S i)%nat).
        assert (Hj: (j < run)%nat) by (unfold j, k in *; lia).
        rewrite Forall_forall in R. apply R.
        rewrite <- (firstn_skipn run before) at 1.
        replace (nth j (firstn run before ++ skipn run before) 0) with (nth j (firstn run before) 0)
          by (rewrite app_nth1; [reflexivity|rewrite firstn_length; lia]).
        apply nth_In. rewrite firstn_length. lia. }
    apply Forall_forall. intros m Hm.
    apply In_nth with (d := (0, 0)) in Hm. destruct Hm as (i & Hi & Hn). rewrite skipn_length in Hi.
    assert (E1: fst m = lastv).
    { rewrite <- Hn. rewrite nth_skipn_early. change (fst (nth (k + i) ms (0, 0))) with (fst (nth (k + i) ms (0, 0))).
      rewrite <- (map_nth fst ms (0,0)). cbn [fst]. apply Tail. lia. }
    assert (E2: fst (last (firstn k ms) (0, 0)) = lastv).
    { assert (Lk: length (firstn k ms) = k) by (rewrite firstn_length; unfold k; lia).
      rewrite <- (nth_last_eq (firstn k ms)). rewrite Lk.
      rewrite nth_firstn_lt by (unfold k; lia).
      rewrite <- (map_nth fst ms (0,0)). cbn [fst]. apply Tail. unfold k. lia. }
    congruence.
Qed.

Definition metric_ok (m : Z * Z) : Prop := 0 <= fst m < 65536 /\ -32768 <= snd m < 32768.

Lemma forallb_metric ms : Forall metric_ok ms -> forallb (fun m => in_u16 (fst m) && in_i16 (snd m)) ms = true.
Proof.
  intros H. apply forallb_forall. intros m Hm. rewrite Forall_forall in H. destruct (H m Hm) as [A B].
  unfold in_u16, in_i16. lia.
Qed.

(* hmtx ROUND TRIP: decoding the compiled table with the numberOfHMetrics the compiler chose returns the
   metrics of every glyph *)
Theorem hmtx_roundtrip ms k data : ms <> [] -> Forall metric_ok ms ->
  hmtx_compile ms = Ok (k, data) -> hmtx_decompile (length ms) k data = Ok ms.
Proof.
  intros NE Hok H. unfold hmtx_compile in H. destruct ms as [|m0 mr] eqn:Ems; [contradiction|]. rewrite <- Ems in *.
  destruct (number_of_metrics_spec ms NE) as [Hk Htail]. set (kk := number_of_metrics ms) in *.
  assert (Hl: Forall metric_ok (firstn kk ms)).
  { apply Forall_forall. intros m Hm. rewrite Forall_forall in Hok. apply Hok. eapply In_firstn_to; eauto. }
  assert (Hs: Forall metric_ok (skipn kk ms)).
  { apply Forall_forall. intros m Hm. rewrite Forall_forall in Hok. apply Hok. eapply In_skipn_to; eauto. }
  rewrite (forallb_metric _ Hl) in H. cbn [negb] in H.
  assert (Hs16: forallb in_i16 (map snd (skipn kk ms)) = true).
  { apply forallb_forall. intros s Hin. apply in_map_iff in Hin. destruct Hin as [m [<- Hm]].
    rewrite Forall_forall in Hs. destruct (Hs m Hm) as [_ B]. unfold in_i16. lia. }
  rewrite Hs16 in H. cbn [negb] in H. apply Ok_inj in H. apply pair_equal_spec in H. destruct H as [<- <-].
  unfold hmtx_decompile.
  replace (Nat.ltb (length ms) kk) with false by (symmetry; apply Nat.ltb_ge; lia).
  set (long := firstn kk ms) in *. set (short := map snd (skipn kk ms)) in *.
  assert (Ll: length long = kk) by (unfold long; rewrite firstn_length; lia).
  assert (Lsh: length short = (length ms - kk)%nat) by (unfold short; rewrite map_length, skipn_length; reflexivity).
  assert (Ld: length (flat_map (fun m => pack_be 2 (fst m) ++ pack_be 2 (snd m)) long ++ flat_map (pack_be 2) short)
              = (4 * kk + 2 * (length ms - kk))%nat).
  { rewrite app_length.
    assert (A: forall l : list (Z * Z), length (flat_map (fun m => pack_be 2 (fst m) ++ pack_be 2 (snd m)) l) = (4 * length l)%nat).
    { induction l as [|x r IH]; cbn [flat_map length]; [reflexivity|]. rewrite !app_length, !pack_be_length, IH. lia. }
    assert (B: forall l : list Z, length (flat_map (pack_be 2) l) = (2 * length l)%nat).
    { induction l as [|x r IH]; cbn [flat_map length]; [reflexivity|]. rewrite app_length, pack_be_length, IH. lia. }
    rewrite A, B, Ll, Lsh. reflexivity. }
  rewrite Ld. rewrite Nat.ltb_irrefl.
  rewrite <- Ll at 1. rewrite read_long_pack by (rewrite Forall_forall in *; intros m Hm; apply Hl; exact Hm).
  rewrite <- Lsh. rewrite read_short_pack.
  - f_equal. transitivity (long ++ skipn kk ms); [|apply firstn_skipn]. f_equal.
    unfold short. rewrite map_map.
    rewrite <- (map_id (skipn kk ms)) at 2. apply map_ext_in. intros m Hm.
    rewrite Forall_forall in Htail. specialize (Htail m Hm). fold long in Htail.
    destruct m as [a s]. cbn [fst snd] in *. rewrite Htail. reflexivity.
  - apply Forall_forall. intros s Hin. unfold short in Hin. apply in_map_iff in Hin. destruct Hin as [m [<- Hm]].
    rewrite Forall_forall in Hs. destruct (Hs m Hm) as [_ B]. exact B.
Qed.

(* ... and numberOfHMetrics is the LEAST admissible count: the glyph before the cut has a different advance *)
Theorem hmtx_count_minimal ms : ms <> [] ->
  let k := number_of_metrics ms in
  (1 < k)%nat -> fst (nth (k - 2) ms (0, 0)) <> fst (last ms (0, 0)).
Proof.
  intros NE k Hk. unfold k, number_of_metrics in *.
  destruct (rev (map fst ms)) as [|lastv before] eqn:E; [cbn in Hk; lia|].
  assert (Lms: length ms = S (length before)).
  { apply (f_equal (@length Z)) in E. rewrite rev_length, map_length in E. cbn in E. exact E. }
  assert (Adv: map fst ms = rev before ++ [lastv]).
  { apply (f_equal (@rev Z)) in E. rewrite rev_involutive in E. exact E. }
  set (run := run_equal lastv before) in *.
  assert (Stop: nth run before lastv <> lastv \/ run = length before).
  { unfold run. clear. induction before as [|a r IH]; cbn [run_equal length nth]; [right; reflexivity|].
    destruct (Z.eqb_spec a lastv) as [->|N]; [|left; exact N]. destruct IH as [IH|IH]; [left; exact IH|right; lia]. }
  destruct Stop as [Stop|Stop]; [|lia].
  assert (Rl: (run < length before)%nat).
  { destruct (Nat.lt_ge_cases run (length before)); [assumption|]. rewrite nth_overflow in Stop by lia. contradiction. }
  assert (L1: fst (last ms (0, 0)) = lastv).
  { rewrite <- nth_last_eq. rewrite <- (map_nth fst ms (0,0)). cbn [fst]. rewrite Adv.
    rewrite app_nth2 by (rewrite rev_length; lia). rewrite rev_length. replace (length ms - 1 - length before)%nat with 0%nat by lia. reflexivity. }
  rewrite L1. rewrite <- (map_nth fst ms (0,0)). cbn [fst]. rewrite Adv.
  rewrite app_nth1 by (rewrite rev_length; lia). rewrite rev_nth by lia.
  replace (length before - S (length ms - run - 2))%nat with run by lia.
  rewrite (nth_indep before 0 lastv) by lia. exact Stop.
Qed.

(* ---------- loca ---------- *)
Lemma chunks_pack2 l : forall fuel, Forall (fun v => 0 <= v < 65536) l -> (length l <= fuel)%nat ->
  chunks_be 2 fuel (flat_map (fun v => pack_be 2 v) l) = l.
Proof.
  induction l as [|v r IH]; intros fuel H Hf; [destruct fuel; reflexivity|].
  inversion H as [|? ? Hv Hr]; subst. destruct fuel as [|f]; [cbn in Hf; lia|].
  cbn [flat_map chunks_be]. rewrite take_pack. rewrite app_length, pack_be_length.
  cbn [Nat.ltb Nat.leb Nat.add]. rewrite IH by (auto; cbn in Hf; lia).
  change (8 * Z.of_nat 2) with 16. rewrite Z.mod_small by (change (2^16) with 65536; lia). reflexivity.
Qed.
Lemma chunks_pack4 l : forall fuel, Forall (fun v => 0 <= v < 4294967296) l -> (length l <= fuel)%nat ->
  chunks_be 4 fuel (flat_map (fun v => pack_be 4 v) l) = l.
Proof.
  induction l as [|v r IH]; intros fuel H Hf; [destruct fuel; reflexivity|].
  inversion H as [|? ? Hv Hr]; subst. destruct fuel as [|f]; [cbn in Hf; lia|].
  cbn [flat_map chunks_be]. rewrite take_pack. rewrite app_length, pack_be_length.
  cbn [Nat.ltb Nat.leb Nat.add]. rewrite IH by (auto; cbn in Hf; lia).
  change (8 * Z.of_nat 4) with 32. rewrite Z.mod_small by (change (2^32) with 4294967296; lia). reflexivity.
Qed.

Lemma list_max_bound l x : In x l -> x <= list_max l.
Proof. induction l as [|y r IH]; intros H; [contradiction|]. cbn [list_max fold_right]. destruct H as [->|H]; [lia|]. specialize (IH H). unfold list_max in IH. lia. Qed.

(* loca ROUND TRIP, and the short format is chosen exactly when every offset fits it *)
Theorem loca_roundtrip locs fmt data : loca_compile locs = Ok (fmt, data) -> loca_decompile fmt data = locs.
Proof.
  unfold loca_compile. destruct (negb (forallb in_u32 locs)) eqn:E0; [discriminate|].
  apply negb_false_iff in E0. rewrite forallb_forall in E0.
  destruct (match locs with [] => true | _ => false end); [discriminate|].
  destruct ((list_max locs <? 131072) && forallb (fun l => l mod 2 =? 0) locs) eqn:E1; intros H; apply Ok_inj in H; apply pair_equal_spec in H; destruct H as [<- <-].
  - apply andb_prop in E1. destruct E1 as [Em Ee]. rewrite forallb_forall in Ee. apply Z.ltb_lt in Em.
    unfold loca_decompile. cbn [Z.eqb].
    assert (FM: flat_map (fun l => pack_be 2 (l / 2)) locs = flat_map (fun v => pack_be 2 v) (map (fun l => l / 2) locs)).
    { clear. induction locs as [|x r IH]; cbn [flat_map map]; [reflexivity|]. rewrite IH. reflexivity. }
    rewrite FM. rewrite chunks_pack2.
    + rewrite map_map. rewrite <- (map_id locs) at 2. apply map_ext_in. intros x Hx. specialize (Ee x Hx).
      apply Z.eqb_eq in Ee. pose proof (Z.div_mod x 2 ltac:(lia)). lia.
    + apply Forall_forall. intros v Hv. apply in_map_iff in Hv. destruct Hv as [x [<- Hx]].
      pose proof (list_max_bound _ _ Hx). specialize (E0 x Hx). unfold in_u32 in E0.
      split; [apply Z.div_pos; lia|apply Z.div_lt_upper_bound; lia].
    + assert (L: length (flat_map (fun v => pack_be 2 v) (map (fun l => l / 2) locs)) = (2 * length locs)%nat).
      { clear. induction locs as [|x r IH]; cbn [flat_map map length]; [reflexivity|]. rewrite app_length, pack_be_length, IH. lia. }
      rewrite L, map_length. lia.
  - unfold loca_decompile. cbn [Z.eqb]. rewrite chunks_pack4; [reflexivity| |].
    + apply Forall_forall. intros v Hv. specialize (E0 v Hv). unfold in_u32 in E0. lia.
    + assert (L: length (flat_map (fun v => pack_be 4 v) locs) = (4 * length locs)%nat).
      { clear. induction locs as [|x r IH]; cbn [flat_map length]; [reflexivity|]. rewrite app_length, pack_be_length, IH. lia. }
      rewrite L. lia.
Qed.

Theorem loca_short_iff locs fmt data : loca_compile locs = Ok (fmt, data) ->
  (fmt = 0 <-> (forall l, In l locs -> l < 131072 /\ l mod 2 = 0)).
Proof.
  unfold loca_compile. destruct (negb (forallb in_u32 locs)) eqn:E0; [discriminate|].
  apply negb_false_iff in E0. rewrite forallb_forall in E0.
  destruct (match locs with [] => true | _ => false end); [discriminate|].
  destruct ((list_max locs <? 131072) && forallb (fun l => l mod 2 =? 0) locs) eqn:E1; intros H; apply Ok_inj in H; apply pair_equal_spec in H; destruct H as [<- _].
  - apply andb_prop in E1. destruct E1 as [Em Ee]. rewrite forallb_forall in Ee. apply Z.ltb_lt in Em.
    split; [|reflexivity]. intros _ l Hl. pose proof (list_max_bound _ _ Hl). specialize (Ee l Hl). apply Z.eqb_eq in Ee. lia.
  - split; [discriminate|]. intros All. exfalso.
    assert (M: list_max locs < 131072).
    { clear - All. induction locs as [|x r IH]; cbn [list_max fold_right]; [lia|].
      assert (x < 131072) by (apply All; left; reflexivity).
      assert (list_max r < 131072) by (apply IH; intros l Hl; apply All; right; exact Hl).
      unfold list_max in *. lia. }
    assert (Ev: forallb (fun l => l mod 2 =? 0) locs = true).
    { apply forallb_forall. intros l Hl. apply Z.eqb_eq. apply All. exact Hl. }
    rewrite Ev in E1. replace (list_max locs <? 131072) with true in E1 by lia. discriminate.
Qed.
