(* C02/ModelCmap0.v — ttLib/tables/_c_m_a_p.py: cmap_format_0.compile / decompile (429-460) with CmapSubtable.decompileHeader and
   _make_map: the byte-encoding table, 256 one-byte glyph IDs.  Mappings as in ModelCmap6 (increasing code order, glyph 0 for
   holes).  The raw pass-through branch of compile (`if self.data:`, a subtable that was never decoded) is not a codec. *)
From Coq Require Import ZArith List Bool.
From FV Require Import Base.Ser Base.Res Base.BE C02.ModelCmap6.
Import ListNotations.
Open Scope Z_scope.

Definition code8 (p : Z * Z) : bool := (0 <=? fst p) && (fst p <? 256).
Definition gid8 (v : Z) : bool := (0 <=? v) && (v <? 256).

Definition cmap0_compile (language : Z) (m : cm) : Res (list Z) :=
  if negb (forallb code8 m) then Err AssertionError               (* assert set(cmap.keys()).issubset(range(256)) *)
  else
    let vals := fill 256 0 m in
    if negb (forallb gid8 vals) then Err OverflowError              (* array.array("B", valueList) *)
    else if u16b language then Ok (pack_be 2 0 ++ pack_be 2 262 ++ pack_be 2 language ++ vals)
    else Err StructError.

Definition cmap0_decompile (data : list Z) : Res (Z * cm) :=
  match take_be 2 data with
  | Some (_, d1) =>
    match take_be 2 d1 with
    | Some (len, d2) =>
      match take_be 2 d2 with
      | Some (lang, d3) =>
        if negb (Z.of_nat (length data) =? len) then Err AssertionError
        else if negb (len =? 262) then Err AssertionError           (* assert 262 == self.length *)
        else Ok (lang, zip_from 0 d3)
      | None => Err StructError
      end
    | None => Err StructError
    end
  | None => Err StructError
  end.
