(* C02/ProofsComponent.v — a composite glyph's component record decodes to what was encoded *)
From Coq Require Import ZArith List Bool Lia.
From FV Require Import Base.Ser Base.Res Base.BE Base.Bits C02.ModelComponent.
Import ListNotations.
Open Scope Z_scope.

Lemma keep_norm c : Z.land c KEEP = Z.land (c mod 8192) KEEP.
Proof.
  change 8192 with (2 ^ 13). rewrite <- Z.land_ones by lia. rewrite <- Z.land_assoc.
  replace (Z.land (Z.ones 13) KEEP) with KEEP by reflexivity. reflexivity.
Qed.

(* every flag word the encoder can produce is read back into the same decisions *)
Definition flag_word (k : Z) (more instr : bool) (a t : Z) : Z := k + bit more MORE_COMPONENTS + bit instr WE_HAVE_INSTRUCTIONS + a + t.
Definition combos : list (bool * bool * Z * Z) :=
  flat_map (fun m => flat_map (fun i => flat_map (fun a => map (fun t => (m, i, a, t)) [0; 8; 64; 128]) [0; 1; 2; 3]) [false; true]) [false; true].
Definition flags_ok (v : Z) : bool :=
  let k := Z.land v KEEP in
  forallb (fun c : bool * bool * Z * Z =>
    let '(m, i, a, t) := c in
    let F := flag_word k m i a t in
    (F <? 65536) && (0 <=? F) &&
    Bool.eqb (has F ARG_1_AND_2_ARE_WORDS) (Z.odd a) && Bool.eqb (has F ARGS_ARE_XY_VALUES) (2 <=? a) &&
    Bool.eqb (has F WE_HAVE_A_SCALE) (t =? 8) && Bool.eqb (has F WE_HAVE_AN_X_AND_Y_SCALE) (t =? 64) && Bool.eqb (has F WE_HAVE_A_TWO_BY_TWO) (t =? 128) &&
    Bool.eqb (has F MORE_COMPONENTS) m && Bool.eqb (has F WE_HAVE_INSTRUCTIONS) i && (Z.land F KEEP =? k)) combos.
Lemma flags_sweep : forallb flags_ok (map Z.of_nat (seq 0 8192)) = true.
Proof. vm_compute. reflexivity. Qed.

Lemma flags_decode c m i a t : In (m, i, a, t) combos ->
  let F := flag_word (Z.land c KEEP) m i a t in
  0 <= F < 65536 /\ has F ARG_1_AND_2_ARE_WORDS = Z.odd a /\ has F ARGS_ARE_XY_VALUES = (2 <=? a) /\
  has F WE_HAVE_A_SCALE = (t =? 8) /\ has F WE_HAVE_AN_X_AND_Y_SCALE = (t =? 64) /\ has F WE_HAVE_A_TWO_BY_TWO = (t =? 128) /\
  has F MORE_COMPONENTS = m /\ has F WE_HAVE_INSTRUCTIONS = i /\ Z.land F KEEP = Z.land c KEEP.
Proof.
  intros Hin F. subst F. rewrite (keep_norm c).
  assert (Hv : 0 <= c mod 8192 < Z.of_nat 8192) by (change (Z.of_nat 8192) with 8192; apply Z.mod_pos_bound; lia).
  assert (H := forall_below flags_ok 8192 flags_sweep (c mod 8192) Hv).
  unfold flags_ok in H. rewrite forallb_forall in H. specialize (H _ Hin). cbv beta iota zeta in H.
  repeat (apply andb_true_iff in H; destruct H as [H ?]).
  repeat match goal with
  | X : Bool.eqb _ _ = true |- _ => apply Bool.eqb_prop in X
  | X : (_ =? _) = true |- _ => apply Z.eqb_eq in X
  | X : (_ <? _) = true |- _ => apply Z.ltb_lt in X
  | X : (_ <=? _) = true |- _ => apply Z.leb_le in X
  end.
  repeat split; try assumption; lia.
Qed.

(* ---- the two variable parts of the record, read on their own *)
Definition dec_args (words xy : bool) (d : list Z) : option (cargs * list Z) :=
  let n := if words then 2%nat else 1%nat in
  match take_be n d with
  | None => None
  | Some (a, d3) => match take_be n d3 with
    | None => None
    | Some (b, d4) => Some ((if xy then (if words then XY (s16 a) (s16 b) else XY (s8 a) (s8 b)) else Points a b), d4)
    end
  end.
Definition dec_tr (sc xys two : bool) (d : list Z) : option (option (Z * Z * Z * Z) * list Z) :=
  if sc then match take_be 2 d with Some (s, r) => Some (Some (s16 s, 0, 0, s16 s), r) | None => None end
  else if xys then
    match take_be 2 d with
    | Some (sx, r1) => match take_be 2 r1 with Some (sy, r) => Some (Some (s16 sx, 0, 0, s16 sy), r) | None => None end
    | None => None end
  else if two then
    match take_be 2 d with
    | Some (xx, r1) => match take_be 2 r1 with
      | Some (xy_, r2) => match take_be 2 r2 with
        | Some (yx, r3) => match take_be 2 r3 with
          | Some (yy, r) => Some (Some (s16 xx, s16 xy_, s16 yx, s16 yy), r)
          | None => None end
        | None => None end
      | None => None end
    | None => None end
  else Some (None, d).

Lemma decompile_split flags gid d2 :
  decompile (pack_be 2 flags ++ pack_be 2 gid ++ d2) =
  let F := flags mod 65536 in
  match dec_args (has F ARG_1_AND_2_ARE_WORDS) (has F ARGS_ARE_XY_VALUES) d2 with
  | None => Err StructError
  | Some (ar, d4) =>
    match dec_tr (has F WE_HAVE_A_SCALE) (has F WE_HAVE_AN_X_AND_Y_SCALE) (has F WE_HAVE_A_TWO_BY_TWO) d4 with
    | None => Err StructError
    | Some (t, rest) => Ok (mkComp (Z.land F KEEP) (gid mod 65536) ar t, has F MORE_COMPONENTS, has F WE_HAVE_INSTRUCTIONS, rest)
    end
  end.
Proof.
  unfold decompile. rewrite take_pack. rewrite take_pack. change (2 ^ (8 * Z.of_nat 2)) with 65536.
  cbv zeta. set (F := flags mod 65536). unfold dec_args, dec_tr.
  destruct (take_be (if has F ARG_1_AND_2_ARE_WORDS then 2%nat else 1%nat) d2) as [[a d3]|]; [|reflexivity].
  destruct (take_be (if has F ARG_1_AND_2_ARE_WORDS then 2%nat else 1%nat) d3) as [[b d4]|]; [|reflexivity].
  destruct (has F WE_HAVE_A_SCALE).
  { destruct (take_be 2 d4) as [[s r]|]; reflexivity. }
  destruct (has F WE_HAVE_AN_X_AND_Y_SCALE).
  { destruct (take_be 2 d4) as [[sx r1]|]; [|reflexivity]. destruct (take_be 2 r1) as [[sy r]|]; reflexivity. }
  destruct (has F WE_HAVE_A_TWO_BY_TWO); [|reflexivity].
  destruct (take_be 2 d4) as [[xx r1]|]; [|reflexivity]. destruct (take_be 2 r1) as [[xy_ r2]|]; [|reflexivity].
  destruct (take_be 2 r2) as [[yx r3]|]; [|reflexivity]. destruct (take_be 2 r3) as [[yy r]|]; reflexivity.
Qed.

Lemma s16_pack v : in_i16 v = true -> s16 (v mod 2 ^ (8 * Z.of_nat 2)) = v.
Proof.
  unfold in_i16. intros H. apply andb_true_iff in H. destruct H as [H1 H2]. apply Z.leb_le in H1. apply Z.ltb_lt in H2.
  unfold s16. change (2 ^ (8 * Z.of_nat 2)) with (2 ^ 16). apply to_signed_mod; [lia|]. change (2 ^ (16 - 1)) with 32768. lia.
Qed.
Lemma s8_pack v : in_i8 v = true -> s8 (v mod 2 ^ (8 * Z.of_nat 1)) = v.
Proof.
  unfold in_i8. intros H. apply andb_true_iff in H. destruct H as [H1 H2]. apply Z.leb_le in H1. apply Z.leb_le in H2.
  unfold s8. change (2 ^ (8 * Z.of_nat 1)) with (2 ^ 8). apply to_signed_mod; [lia|]. change (2 ^ (8 - 1)) with 128. lia.
Qed.
Lemma u16_pack v : in_u16 v = true -> v mod 2 ^ (8 * Z.of_nat 2) = v.
Proof. unfold in_u16. intros H. apply andb_true_iff in H. destruct H as [H1 H2]. apply Z.leb_le in H1. apply Z.ltb_lt in H2. apply Z.mod_small. change (2 ^ (8 * Z.of_nat 2)) with 65536. lia. Qed.
Lemma u8_pack v : in_u8 v = true -> v mod 2 ^ (8 * Z.of_nat 1) = v.
Proof. unfold in_u8. intros H. apply andb_true_iff in H. destruct H as [H1 H2]. apply Z.leb_le in H1. apply Z.leb_le in H2. apply Z.mod_small. change (2 ^ (8 * Z.of_nat 1)) with 256. lia. Qed.

(* the argument field: what compile writes, dec_args reads back *)
Definition enc_args (ar : cargs) : Z * list Z * bool :=
  match ar with
  | Points f s =>
    if in_u8 f && in_u8 s then (0, [f; s], true)
    else (ARG_1_AND_2_ARE_WORDS, pack_be 2 f ++ pack_be 2 s, in_u16 f && in_u16 s)
  | XY x y =>
    if in_i8 x && in_i8 y then (ARGS_ARE_XY_VALUES, pack_be 1 x ++ pack_be 1 y, true)
    else (ARGS_ARE_XY_VALUES + ARG_1_AND_2_ARE_WORDS, pack_be 2 x ++ pack_be 2 y, in_i16 x && in_i16 y)
  end.
Lemma pack1_small f : in_u8 f = true -> [f] = pack_be 1 f.
Proof. intros H. unfold pack_be. change (8 * Z.of_nat 0) with 0. rewrite Z.shiftr_0_r, land_255. rewrite Z.mod_small; [reflexivity|]. unfold in_u8 in H. apply andb_true_iff in H. destruct H as [H1 H2]. apply Z.leb_le in H1. apply Z.leb_le in H2. lia. Qed.
Lemma dec_enc_args ar rest :
  let '(a, bs, ok) := enc_args ar in ok = true -> In a [0; 1; 2; 3] /\ dec_args (Z.odd a) (2 <=? a) (bs ++ rest) = Some (ar, rest).
Proof.
  destruct ar as [x y | f s]; cbn [enc_args].
  - destruct (in_i8 x && in_i8 y) eqn:E.
    + intros _. apply andb_true_iff in E. destruct E as [Ex Ey]. split; [cbn; tauto|].
      unfold dec_args. change (Z.odd ARGS_ARE_XY_VALUES) with false. change (2 <=? ARGS_ARE_XY_VALUES) with true. cbv iota. rewrite <- ?app_assoc.
      rewrite take_pack, take_pack, (s8_pack _ Ex), (s8_pack _ Ey). reflexivity.
    + intros Hok. apply andb_true_iff in Hok. destruct Hok as [Ex Ey]. split; [cbn; tauto|].
      unfold dec_args. change (Z.odd (ARGS_ARE_XY_VALUES + ARG_1_AND_2_ARE_WORDS)) with true. change (2 <=? ARGS_ARE_XY_VALUES + ARG_1_AND_2_ARE_WORDS) with true.
      cbv iota. rewrite <- ?app_assoc. rewrite take_pack, take_pack, (s16_pack _ Ex), (s16_pack _ Ey). reflexivity.
  - destruct (in_u8 f && in_u8 s) eqn:E.
    + intros _. apply andb_true_iff in E. destruct E as [Ef Es]. split; [cbn; tauto|].
      unfold dec_args. change (Z.odd 0) with false. change (2 <=? 0) with false. cbv iota.
      change ([f; s] ++ rest) with ([f] ++ [s] ++ rest). rewrite (pack1_small f Ef), (pack1_small s Es).
      rewrite take_pack, take_pack, (u8_pack _ Ef), (u8_pack _ Es). reflexivity.
    + intros Hok. apply andb_true_iff in Hok. destruct Hok as [Ef Es]. split; [cbn; tauto|].
      unfold dec_args. change (Z.odd ARG_1_AND_2_ARE_WORDS) with true. change (2 <=? ARG_1_AND_2_ARE_WORDS) with false.
      cbv iota. rewrite <- ?app_assoc. rewrite take_pack, take_pack, (u16_pack _ Ef), (u16_pack _ Es). reflexivity.
Qed.

Definition enc_tr (t : option (Z * Z * Z * Z)) : Z * list Z * bool :=
  match t with
  | None => (0, [], true)
  | Some (xx, xy, yx, yy) =>
    if negb (xy =? 0) || negb (yx =? 0) then
      (WE_HAVE_A_TWO_BY_TWO, pack_be 2 xx ++ pack_be 2 xy ++ pack_be 2 yx ++ pack_be 2 yy, in_i16 xx && in_i16 xy && in_i16 yx && in_i16 yy)
    else if negb (xx =? yy) then (WE_HAVE_AN_X_AND_Y_SCALE, pack_be 2 xx ++ pack_be 2 yy, in_i16 xx && in_i16 yy)
    else (WE_HAVE_A_SCALE, pack_be 2 xx, in_i16 xx)
  end.
Lemma dec_enc_tr t rest :
  let '(tf, bs, ok) := enc_tr t in ok = true ->
  In tf [0; 8; 64; 128] /\ dec_tr (tf =? 8) (tf =? 64) (tf =? 128) (bs ++ rest) = Some (t, rest).
Proof.
  destruct t as [[[[xx xy] yx] yy]|]; cbn [enc_tr].
  - destruct (negb (xy =? 0) || negb (yx =? 0)) eqn:E2.
    + intros Hok. do 3 (apply andb_true_iff in Hok; destruct Hok as [Hok ?]). split; [cbn; tauto|].
      unfold dec_tr. change (WE_HAVE_A_TWO_BY_TWO =? 8) with false. change (WE_HAVE_A_TWO_BY_TWO =? 64) with false. change (WE_HAVE_A_TWO_BY_TWO =? 128) with true.
      cbv iota. rewrite <- ?app_assoc. rewrite !take_pack. rewrite (s16_pack xx), (s16_pack xy), (s16_pack yx), (s16_pack yy) by assumption. reflexivity.
    + apply orb_false_iff in E2. destruct E2 as [A B]. apply negb_false_iff in A, B. apply Z.eqb_eq in A, B. subst xy yx.
      destruct (negb (xx =? yy)) eqn:E1.
      * intros Hok. apply andb_true_iff in Hok. destruct Hok as [Hx Hy]. split; [cbn; tauto|].
        unfold dec_tr. change (WE_HAVE_AN_X_AND_Y_SCALE =? 8) with false. change (WE_HAVE_AN_X_AND_Y_SCALE =? 64) with true.
        cbv iota. rewrite <- ?app_assoc. rewrite !take_pack. rewrite (s16_pack xx), (s16_pack yy) by assumption. reflexivity.
      * apply negb_false_iff in E1. apply Z.eqb_eq in E1. subst yy.
        intros Hx. split; [cbn; tauto|].
        unfold dec_tr. change (WE_HAVE_A_SCALE =? 8) with true. cbv iota. rewrite take_pack. rewrite (s16_pack xx) by assumption. reflexivity.
  - intros _. split; [cbn; tauto|]. reflexivity.
Qed.

Lemma compile_eq more instr c :
  compile more instr c =
  let '(a, abs, aok) := enc_args (args c) in
  let '(t, tbs, tok) := enc_tr (transform c) in
  if aok && tok && in_u16 (cgid c)
  then Ok (pack_be 2 (flag_word (Z.land (cflags c) KEEP) more instr a t) ++ pack_be 2 (cgid c) ++ abs ++ tbs)
  else Err StructError.
Proof.
  unfold compile, enc_args, enc_tr, flag_word.
  destruct (args c) as [x y | f s]; [destruct (in_i8 x && in_i8 y) | destruct (in_u8 f && in_u8 s)];
  (destruct (transform c) as [[[[xx xy] yx] yy]|]; [destruct (negb (xy =? 0) || negb (yx =? 0)); [|destruct (negb (xx =? yy))]|]); reflexivity.
Qed.

Lemma in_combos m i a t : In a [0; 1; 2; 3] -> In t [0; 8; 64; 128] -> In (m, i, a, t) combos.
Proof.
  intros Ha Ht. destruct m, i; cbn in Ha, Ht;
  destruct Ha as [<- | [<- | [<- | [<- | []]]]]; destruct Ht as [<- | [<- | [<- | [<- | []]]]]; cbn; tauto.
Qed.

(* ---- the property *)
Theorem component_roundtrip_match more instr c rest : Z.land (cflags c) KEEP = cflags c ->
  match compile more instr c with
  | Ok bytes => decompile (bytes ++ rest) = Ok (c, more, instr, rest)
  | Err _ => True
  end.
Proof.
  intros Hk. rewrite compile_eq.
  destruct (enc_args (args c)) as [[a abs] aok] eqn:Ea. destruct (enc_tr (transform c)) as [[t tbs] tok] eqn:Et.
  destruct (aok && tok && in_u16 (cgid c)) eqn:Eok; [|exact I].
  apply andb_true_iff in Eok. destruct Eok as [Eok Hg]. apply andb_true_iff in Eok. destruct Eok as [-> ->].
  pose proof (dec_enc_args (args c) (tbs ++ rest)) as LA. rewrite Ea in LA. destruct (LA eq_refl) as [Hain Hda].
  pose proof (dec_enc_tr (transform c) rest) as LT. rewrite Et in LT. destruct (LT eq_refl) as [Htin Hdt].
  destruct (flags_decode (cflags c) more instr a t (in_combos _ _ _ _ Hain Htin)) as (F1 & F2 & F3 & F4 & F5 & F6 & F7 & F8 & F9).
  rewrite <- ?app_assoc. rewrite decompile_split. cbv zeta.
  set (F := flag_word (Z.land (cflags c) KEEP) more instr a t) in *.
  rewrite (Z.mod_small F 65536) by lia.
  rewrite F2, F3, Hda, F4, F5, F6, Hdt, F7, F8, F9, Hk.
  assert (Hg' : cgid c mod 65536 = cgid c) by (exact (u16_pack _ Hg)). rewrite Hg'. destruct c; reflexivity.
Qed.
Theorem component_roundtrip more instr c bytes rest : Z.land (cflags c) KEEP = cflags c ->
  compile more instr c = Ok bytes -> decompile (bytes ++ rest) = Ok (c, more, instr, rest).
Proof. intros Hk Hc. pose proof (component_roundtrip_match more instr c rest Hk) as L. rewrite Hc in L. exact L. Qed.
