(* C02/ModelCmap4.v — ttLib/tables/_c_m_a_p.py: splitRange (845-921), cmap_format_4.compile / decompile (924-1101),
   CmapSubtable.decompileHeader, _make_map.  A mapping is the list of (code, glyph ID) pairs in increasing code order. *)
From Coq Require Import ZArith List Bool.
From FV Require Import Base.Ser Base.Res Base.BE C04.Model C02.ModelCmap6.
Import ListNotations.
Open Scope Z_scope.

(* ---------- splitRange *)
(* the loop that gathers the sub-ranges of consecutive glyph IDs; inOrder None / 0 are both "not in order" *)
Fixpoint gather (n : nat) (code : Z) (m : cm) (lastID lastCode : Z) (inOrder : bool) (ob : Z) (acc : list (Z * Z))
  : list (Z * Z) :=
  match n with
  | O => if inOrder then acc ++ [(ob, lastCode)] else acc
  | S k =>
    let gid := lookup code m in
    if gid - 1 =? lastID then
      (if inOrder then gather k (code + 1) m gid code true ob acc
       else gather k (code + 1) m gid code true lastCode acc)
    else
      (if inOrder then gather k (code + 1) m gid code false ob (acc ++ [(ob, lastCode)])
       else gather k (code + 1) m gid code false ob acc)
  end.
(* keep the sub-ranges that pay for their segments; the whole range stops the loop *)
Fixpoint keep_ranges (S E : Z) (rs : list (Z * Z)) : list (Z * Z) :=
  match rs with
  | [] => []
  | (b, e) :: r =>
    if (b =? S) && (e =? E) then []
    else
      let threshold := if (b =? S) || (e =? E) then 4 else 8 in
      if threshold <? e - b + 1 then (b, e) :: keep_ranges S E r else keep_ranges S E r
  end.
Fixpoint fill_holes (prev_e : Z) (rs : list (Z * Z)) : list (Z * Z) :=
  match rs with
  | [] => []
  | (b, e) :: r => (if prev_e + 1 =? b then [] else [(prev_e + 1, b - 1)]) ++ (b, e) :: fill_holes e r
  end.
(* the sub-ranges [startCode, endCode] is cut into (the list Python calls subRanges at the end); [] = no split *)
Definition split_ranges (S E : Z) (m : cm) : list (Z * Z) :=
  if S =? E then []
  else
    let sub := keep_ranges S E (gather (Z.to_nat (E - S)) (S + 1) m (lookup S m) S false 0 []) in
    match sub with
    | [] => []
    | (b0, e0) :: _ =>
      let sub1 := if b0 =? S then sub else (S, b0 - 1) :: sub in
      let laste := snd (last sub1 (0, 0)) in
      let sub2 := if laste =? E then sub1 else sub1 ++ [(laste + 1, E)] in
      match sub2 with
      | [] => []
      | (b, e) :: r => (b, e) :: fill_holes e r
      end
    end.
(* (start, end) as splitRange returns them: the first start is dropped *)
Definition splitRange (S E : Z) (m : cm) : list Z * list Z :=
  match split_ranges S E m with
  | [] => ([], [E])
  | rs => (tl (map fst rs), map snd rs)
  end.

(* ---------- compile *)
Fixpoint outer (codes : list Z) (m : cm) (curStart lastCode : Z) (starts ends : list Z) : list Z * list Z :=
  match codes with
  | [] => let '(s, e) := splitRange curStart lastCode m in (starts ++ s ++ [65535], ends ++ e ++ [65535])
  | c :: r =>
    if c =? lastCode + 1 then outer r m curStart c starts ends
    else let '(s, e) := splitRange curStart lastCode m in outer r m c c (starts ++ s ++ [c]) (ends ++ e)
  end.
Definition segments (m : cm) : list Z * list Z :=
  match map fst m with
  | [] => ([65535], [65535])
  | c0 :: r => outer r m c0 c0 [c0] []
  end.
Fixpoint consecutive (first : Z) (l : list Z) : bool :=
  match l with [] => true | x :: r => (x =? first) && consecutive (first + 1) r end.
(* the per-segment part: (idDelta, idRangeOffset, glyphIndexArray), i = segment number *)
Fixpoint cruft (nseg : Z) (i : Z) (ss es : list Z) (m : cm) (gia : list Z) : list Z * list Z * list Z :=
  match ss, es with
  | s :: ss', e :: ((_ :: _) as es') =>                  (* not the closing segment *)
    let indices := fill (Z.to_nat (e - s + 1)) s m in
    let '(d, ro, gia') :=
        match indices with
        | i0 :: _ => if consecutive i0 indices then ((i0 - s) mod 65536, 0, gia)
                     else (0, 2 * (nseg + Z.of_nat (length gia) - i), gia ++ indices)
        | [] => (0, 0, gia)     (* not reached: a segment is never empty *)
        end in
    let '(ds, ros, g) := cruft nseg (i + 1) ss' es' m gia' in
    (d :: ds, ro :: ros, g)
  | _, _ => ([1], [0], gia)
  end.

Definition cmap4_compile (language : Z) (m : cm) : Res (list Z) :=
  let '(ss, es) := segments m in
  let nseg := Z.of_nat (length es) in
  let '(ds, ros, gia) := cruft nseg 0 ss es m [] in
  let words := es ++ [0] ++ ss ++ ds ++ ros ++ gia in
  if negb (forallb u16b words) then Err OverflowError
  else
    let '(sr, esel, rs) := getSearchRange nseg 2 in
    let len := 14 + 2 * Z.of_nat (length words) in
    if u16b len && u16b language && u16b (2 * nseg) && u16b sr && u16b esel && u16b rs
    then Ok (pack_be 2 4 ++ pack_be 2 len ++ pack_be 2 language ++ pack_be 2 (2 * nseg) ++ pack_be 2 sr ++ pack_be 2 esel
             ++ pack_be 2 rs ++ flat_map (pack_be 2) words)
    else Err StructError.

(* ---------- decompile *)
Fixpoint dict_set (c g : Z) (d : cm) : cm :=
  match d with [] => [(c, g)] | (c', g') :: r => if c =? c' then (c', g) :: r else (c', g') :: dict_set c g r end.
Definition nthZ (l : list Z) (i : nat) : Res Z := match nth_error l i with Some v => Ok v | None => Err IndexError end.
(* glyphIndexArray[index], Python indexing: negative indices count from the end *)
Definition py_index (l : list Z) (i : Z) : Res Z :=
  let n := Z.of_nat (length l) in
  if 0 <=? i then nthZ l (Z.to_nat i) else if 0 <=? i + n then nthZ l (Z.to_nat (i + n)) else Err IndexError.
Fixpoint seg_codes (n : nat) (c : Z) (delta partial : Z) (ro : Z) (gia : list Z) (acc : cm) : Res cm :=
  match n with
  | O => Ok acc
  | S k =>
    let* gid :=
       if ro =? 0 then Ok ((c + delta) mod 65536)
       else
         let index := c + partial in
         if negb (index <? Z.of_nat (length gia)) then Err AssertionError
         else let* v := py_index gia index in Ok (if v =? 0 then 0 else (v + delta) mod 65536) in
    seg_codes k (c + 1) delta partial ro gia (if gid =? 0 then acc else dict_set c gid acc)
  end.
Fixpoint segs_decode (n : nat) (i : nat) (starts ends deltas ros gia : list Z) (acc : cm) : Res cm :=
  match n with
  | O => Ok acc
  | S k =>
    let* s := nthZ starts i in
    let* d := nthZ deltas i in
    let* ro := nthZ ros i in
    let partial := ro / 2 - s + Z.of_nat i - Z.of_nat (length ros) in
    let* e := nthZ ends i in
    let* acc' := seg_codes (Z.to_nat (e - s + 1)) s d partial ro gia acc in
    segs_decode k (S i) starts ends deltas ros gia acc'
  end.
Definition slice (l : list Z) (a n : nat) : list Z := firstn n (skipn a l).

Definition cmap4_decompile (data : list Z) : Res (Z * cm) :=
  match take_be 2 data with
  | Some (_, d1) =>
    match take_be 2 d1 with
    | Some (len, d2) =>
      match take_be 2 d2 with
      | Some (lang, d3) =>
        if negb (Z.of_nat (length data) =? len) then Err AssertionError
        else match take_be 2 d3 with
             | Some (segx2, d4) =>
               if (length d4 <? 6)%nat then Err StructError                 (* struct.unpack(">4H", data[:8]) *)
               else
                 let d5 := skipn 6 d4 in
                 if Nat.odd (length d5) then Err ValueError                 (* array.frombytes *)
                 else
                   let all := read_u16s (Nat.div2 (length d5)) d5 in
                   let sc := Z.to_nat (segx2 / 2) in
                   let ends := slice all 0 sc in
                   let starts := slice all (sc + 1) sc in
                   let deltas := slice all (sc + 1 + sc) sc in
                   let ros := slice all (sc + 1 + sc + sc) sc in
                   let gia := skipn (sc + 1 + sc + sc + sc) all in
                   let* m := segs_decode (length starts - 1) 0 starts ends deltas ros gia [] in
                   Ok (lang, m)
             | None => Err StructError
             end
      | None => Err StructError
      end
    | None => Err StructError
    end
  | None => Err StructError
  end.
