(* C02/Model.v — table codecs: loca (ttLib/tables/_l_o_c_a.py:18-57) and hmtx/vmtx
   (ttLib/tables/_h_m_t_x.py:27-124). *)
From Coq Require Import ZArith List Bool.
From FV Require Import Base.Ser Base.Res Base.BE.
Import ListNotations.
Open Scope Z_scope.

(* ---- loca *)
Definition in_u16 (v : Z) : bool := (0 <=? v) && (v <? 65536).
Definition in_u32 (v : Z) : bool := (0 <=? v) && (v <? 4294967296).
Definition list_max (l : list Z) : Z := fold_right Z.max 0 l.

(* returns (indexToLocFormat, bytes); OverflowError when a value does not fit array('I') *)
Definition loca_compile (locations : list Z) : Res (Z * list Z) :=
  if negb (forallb in_u32 locations) then Err OverflowError
  else if match locations with [] => true | _ => false end then Err ValueError      (* max() of an empty array *)
  else if (list_max locations <? 131072) && forallb (fun l => l mod 2 =? 0) locations
  then Ok (0, flat_map (fun l => pack_be 2 (l / 2)) locations)
  else Ok (1, flat_map (fun l => pack_be 4 l) locations).

Fixpoint chunks_be (n : nat) (fuel : nat) (bs : list Z) : list Z :=
  match fuel with
  | O => []
  | S f => match take_be n bs with
           | Some (v, rest) => if Nat.ltb (length bs) n then [] else v :: chunks_be n f rest
           | None => []
           end
  end.
Definition loca_decompile (fmt : Z) (data : list Z) : list Z :=
  if fmt =? 0 then map (fun v => 2 * v) (chunks_be 2 (length data) data)
  else chunks_be 4 (length data) data.

(* ---- hmtx: metrics in glyph order as (advance, sideBearing) integer pairs *)
Fixpoint run_equal (last : Z) (l : list Z) : nat :=      (* leading elements equal to last *)
  match l with
  | a :: r => if a =? last then S (run_equal last r) else O
  | [] => O
  end.
(* numberOfHMetrics chosen by compile: trailing glyphs with the last advance keep only their side bearing *)
Definition number_of_metrics (ms : list (Z * Z)) : nat :=
  match rev (map fst ms) with
  | [] => O
  | last :: before => (length ms - run_equal last before)%nat
  end.

Definition in_i16 (v : Z) : bool := (-32768 <=? v) && (v <? 32768).

Definition hmtx_compile (ms : list (Z * Z)) : Res (nat * list Z) :=
  match ms with
  | [] => Err IndexError                      (* metrics[-1] on an empty list *)
  | _ =>
    let k := number_of_metrics ms in
    let long := firstn k ms in
    let short := map snd (skipn k ms) in
    if negb (forallb (fun m => in_u16 (fst m) && in_i16 (snd m)) long) then Err StructError
    else if negb (forallb in_i16 short) then Err OverflowError
    else Ok (k, flat_map (fun m => pack_be 2 (fst m) ++ pack_be 2 (snd m)) long ++ flat_map (pack_be 2) short)
  end.

Fixpoint read_long (k : nat) (bs : list Z) : option (list (Z * Z) * list Z) :=
  match k with
  | O => Some ([], bs)
  | S k' =>
    match take_be 2 bs with
    | Some (a, r1) =>
      match take_be 2 r1 with
      | Some (s, r2) =>
        match read_long k' r2 with
        | Some (ms, rest) => Some ((a, to_signed 16 s) :: ms, rest)
        | None => None
        end
      | None => None
      end
    | None => None
    end
  end.
Fixpoint read_short (n : nat) (adv : Z) (bs : list Z) : option (list (Z * Z)) :=
  match n with
  | O => Some []
  | S n' =>
    match take_be 2 bs with
    | Some (s, r) => match read_short n' adv r with Some ms => Some ((adv, to_signed 16 s) :: ms) | None => None end
    | None => None
    end
  end.
(* decompile with numGlyphs and numberOfHMetrics from maxp / hhea; TTLibError when data is short *)
Definition hmtx_decompile (numGlyphs k : nat) (data : list Z) : Res (list (Z * Z)) :=
  let k := if Nat.ltb numGlyphs k then numGlyphs else k in
  if Nat.ltb (length data) (4 * k + 2 * (numGlyphs - k)) then Err LibError
  else match read_long k data with
       | None => Err LibError
       | Some (long, rest) =>
         let lastAdvance := fst (last long (0, 0)) in
         match read_short (numGlyphs - k) lastAdvance rest with
         | Some short => Ok (long ++ short)
         | None => Err LibError
         end
       end.
