(* C02/ProofsCmap4.v — cmap format 4: decompile (compile m) = m.
   Part A: whatever splitRange decides, the segments tile the codes of the mapping, in order.
   Part B: every segment decodes to the entries of its codes (delta form and glyph-index-array form).
   Part C: the words survive packing; the theorem. *)
From Coq Require Import ZArith List Bool Lia Arith.
From FV Require Import Base.Ser Base.Res Base.BE C04.Model C02.ModelCmap6 C02.ProofsCmap6 C02.ModelCmap4.
Import ListNotations.
Open Scope Z_scope.

(* ================= Part A ================= *)
Fixpoint codes_from (n : nat) (c : Z) : list Z := match n with O => [] | S k => c :: codes_from k (c + 1) end.
Definition zrange (s e : Z) : list Z := codes_from (Z.to_nat (e - s + 1)) s.

Lemma codes_from_app : forall a b c, codes_from (a + b) c = codes_from a c ++ codes_from b (c + Z.of_nat a).
Proof.
  induction a as [|a IH]; intros b c; cbn [codes_from Nat.add app].
  - f_equal. lia.
  - rewrite IH. f_equal. f_equal. f_equal. lia.
Qed.
Lemma zrange_split s k e : s <= k + 1 -> k <= e -> zrange s e = zrange s k ++ zrange (k + 1) e.
Proof.
  intros H1 H2. unfold zrange.
  replace (Z.to_nat (e - s + 1)) with (Z.to_nat (k - s + 1) + Z.to_nat (e - (k + 1) + 1))%nat by lia.
  rewrite codes_from_app. f_equal. f_equal. lia.
Qed.
Lemma zrange_empty s e : e < s -> zrange s e = [].
Proof. intros H. unfold zrange. replace (Z.to_nat (e - s + 1)) with 0%nat by lia. reflexivity. Qed.

(* increasing, disjoint sub-ranges inside [lo, hi] *)
Fixpoint chain (lo : Z) (rs : list (Z * Z)) (hi : Z) : Prop :=
  match rs with [] => True | (b, e) :: r => lo <= b /\ b <= e /\ e <= hi /\ chain (e + 1) r hi end.
(* contiguous ranges from lo to hi exactly *)
Fixpoint contig (lo : Z) (rs : list (Z * Z)) (hi : Z) : Prop :=
  match rs with [] => lo = hi + 1 | (b, e) :: r => b = lo /\ b <= e /\ contig (e + 1) r hi end.

Lemma chain_weaken lo lo' rs hi : lo' <= lo -> chain lo rs hi -> chain lo' rs hi.
Proof. destruct rs as [|[b e] r]; cbn; [auto|]. intros H [H1 H2]. split; [lia|exact H2]. Qed.
Lemma chain_app : forall rs lo hi b e, chain lo rs hi -> (forall x, In x rs -> snd x < b) -> lo <= b -> b <= e -> e <= hi ->
  chain lo (rs ++ [(b, e)]) hi.
Proof.
  induction rs as [|[b0 e0] r IH]; intros lo hi b e HC HL H1 H2 H3; cbn [app chain] in *.
  - repeat split; auto.
  - destruct HC as [C1 [C2 [C3 C4]]]. repeat split; try assumption.
    apply IH; try assumption.
    + intros x Hx. apply HL. right. exact Hx.
    + specialize (HL (b0, e0) (or_introl eq_refl)). cbn in HL. lia.
Qed.
Lemma chain_bounds : forall rs lo hi, chain lo rs hi -> forall x, In x rs -> lo <= fst x /\ fst x <= snd x /\ snd x <= hi.
Proof.
  induction rs as [|[b e] r IH]; intros lo hi HC x Hx; [contradiction|].
  cbn [chain] in HC. destruct HC as [C1 [C2 [C3 C4]]]. destruct Hx as [<-|Hx]; [cbn; lia|].
  destruct (IH _ _ C4 x Hx) as [A [B C]]. lia.
Qed.

(* the gathering loop *)
Lemma gather_chain S E m : forall n code lastID lastCode inOrder ob acc,
  lastCode = code - 1 -> S <= lastCode -> lastCode + Z.of_nat n = E ->
  chain S acc E ->
  (inOrder = true -> S <= ob /\ ob <= lastCode /\ forall x, In x acc -> snd x < ob) ->
  (inOrder = false -> forall x, In x acc -> snd x < lastCode) ->
  chain S (gather n code m lastID lastCode inOrder ob acc) E.
Proof.
  induction n as [|n IH]; intros code lastID lastCode inOrder ob acc HL HS HE HC HT HF; cbn [gather].
  - destruct inOrder; [|exact HC]. destruct (HT eq_refl) as [T1 [T2 T3]]. apply chain_app; try assumption; lia.
  - destruct (lookup code m - 1 =? lastID).
    + destruct inOrder.
      * destruct (HT eq_refl) as [T1 [T2 T3]].
        apply IH; [lia|lia|lia|assumption|intros _; repeat split; try lia; exact T3|intros H; discriminate H].
      * apply IH; [lia|lia|lia|assumption|intros _; repeat split; try lia; apply HF; reflexivity|intros H; discriminate H].
    + destruct inOrder.
      * destruct (HT eq_refl) as [T1 [T2 T3]].
        apply IH; [lia|lia|lia|apply chain_app; try assumption; lia|intros H; discriminate H|].
        intros _ x Hx. apply in_app_or in Hx. destruct Hx as [Hx|[<-|[]]]; [specialize (T3 x Hx); lia|cbn; lia].
      * apply IH; [lia|lia|lia|assumption|intros H; discriminate H|].
        intros _ x Hx. specialize (HF eq_refl x Hx). lia.
Qed.
Lemma keep_chain S E : forall rs lo, chain lo rs E -> chain lo (keep_ranges S E rs) E.
Proof.
  induction rs as [|[b e] r IH]; intros lo HC; cbn [keep_ranges]; [exact I|].
  cbn [chain] in HC. destruct HC as [C1 [C2 [C3 C4]]].
  destruct ((b =? S) && (e =? E)); [exact I|].
  destruct ((if (b =? S) || (e =? E) then 4 else 8) <? e - b + 1).
  - cbn [chain]. repeat split; try assumption. apply IH, C4.
  - apply IH. eapply chain_weaken; [|exact C4]. lia.
Qed.

Lemma fill_holes_contig : forall rs prev_e hi, chain (prev_e + 1) rs hi -> (rs <> [] -> snd (last rs (0, 0)) = hi) -> (rs = [] -> prev_e = hi) ->
  contig (prev_e + 1) (fill_holes prev_e rs) hi.
Proof.
  induction rs as [|[b e] r IH]; intros prev_e hi HC HL HN; cbn [fill_holes].
  - cbn. rewrite (HN eq_refl). reflexivity.
  - cbn [chain] in HC. destruct HC as [C1 [C2 [C3 C4]]].
    assert (Hrest : contig (e + 1) (fill_holes e r) hi).
    { apply IH; [exact C4| |].
      - intros Hr. destruct r as [|x r']; [congruence|]. specialize (HL ltac:(discriminate)). exact HL.
      - intros ->. specialize (HL ltac:(discriminate)). cbn in HL. exact HL. }
    destruct (Z.eqb_spec (prev_e + 1) b) as [Eb|Eb]; cbn [app contig].
    + repeat split; try lia. exact Hrest.
    + repeat split; try lia. replace (b - 1 + 1) with b by lia. repeat split; try lia. exact Hrest.
Qed.

Lemma contig_codes : forall rs lo hi, contig lo rs hi -> lo <= hi + 1 ->
  flat_map (fun r => zrange (fst r) (snd r)) rs = zrange lo hi.
Proof.
  induction rs as [|[b e] r IH]; intros lo hi HC HB; cbn [contig flat_map] in *.
  - subst lo. symmetry. apply zrange_empty. lia.
  - destruct HC as [-> [C2 C3]]. cbn [fst snd].
    assert (e <= hi).
    { clear - C3. revert e C3. induction r as [|[b' e'] r' IHr]; intros e C3; cbn [contig] in C3; [lia|].
      destruct C3 as [-> [D2 D3]]. specialize (IHr _ D3). lia. }
    rewrite (IH (e + 1) hi C3) by lia. symmetry. apply zrange_split; lia.
Qed.
Lemma contig_first lo b e r hi : contig lo ((b, e) :: r) hi -> b = lo.
Proof. cbn. intros [H _]. exact H. Qed.

Lemma last_app_single {A} (l : list A) x d : last (l ++ [x]) d = x.
Proof. apply last_last. Qed.
Lemma last_cons_ne {A} (x : A) l d : l <> [] -> last (x :: l) d = last l d.
Proof. destruct l; [congruence|reflexivity]. Qed.
Lemma chain_last_le : forall rs lo hi, chain lo rs hi -> rs <> [] -> lo <= snd (last rs (0, 0)) + 0 /\ snd (last rs (0, 0)) <= hi.
Proof.
  induction rs as [|[b e] r IH]; intros lo hi HC HN; [congruence|].
  cbn [chain] in HC. destruct HC as [C1 [C2 [C3 C4]]]. destruct r as [|x r'].
  - cbn. lia.
  - rewrite last_cons_ne by discriminate. destruct (IH _ _ C4 ltac:(discriminate)) as [A B]. lia.
Qed.
Lemma chain_app_end : forall rs lo hi b e, chain lo rs hi -> rs <> [] -> b = snd (last rs (0,0)) + 1 -> b <= e -> e <= hi ->
  chain lo (rs ++ [(b, e)]) hi.
Proof.
  induction rs as [|[b0 e0] r IH]; intros lo hi b e HC HN Hb H2 H3; [congruence|].
  cbn [chain app] in *. destruct HC as [C1 [C2 [C3 C4]]]. repeat split; try assumption.
  destruct r as [|x r'].
  - cbn in Hb. cbn [app chain]. repeat split; lia.
  - apply IH; try assumption; try discriminate.
Qed.

(* what splitRange returns, with the start of the range put back, tiles the range *)
Lemma split_ranges_contig S E m : S < E -> split_ranges S E m = [] \/ contig S (split_ranges S E m) E.
Proof.
  intros HSE. unfold split_ranges. destruct (Z.eqb_spec S E); [lia|].
  set (g := gather (Z.to_nat (E - S)) (S + 1) m (lookup S m) S false 0 []).
  assert (HG : chain S g E).
  { apply gather_chain; [lia|lia|lia|exact I|intros H; discriminate H|intros _ x []]. }
  pose proof (keep_chain S E g S HG) as HK.
  destruct (keep_ranges S E g) as [|[b0 e0] sub'] eqn:EK; [left; reflexivity|right].
  set (sub := (b0, e0) :: sub') in *.
  cbn [chain] in HK. destruct HK as [K1 [K2 [K3 K4]]].
  set (sub1 := if b0 =? S then sub else (S, b0 - 1) :: sub).
  assert (H1 : chain S sub1 E /\ sub1 <> [] /\ fst (hd (0, 0) sub1) = S).
  { unfold sub1. destruct (Z.eqb_spec b0 S) as [->|NE].
    - split; [unfold sub; cbn [chain]; repeat split; try lia; exact K4|]. split; [discriminate|reflexivity].
    - split; [|split; [discriminate|reflexivity]]. cbn [chain]. repeat split; try lia.
      replace (b0 - 1 + 1) with b0 by lia. unfold sub. cbn [chain]. repeat split; try lia. exact K4. }
  destruct H1 as [C1 [N1 F1]].
  set (laste := snd (last sub1 (0, 0))).
  set (sub2 := if laste =? E then sub1 else sub1 ++ [(laste + 1, E)]).
  assert (H2 : chain S sub2 E /\ sub2 <> [] /\ fst (hd (0, 0) sub2) = S /\ snd (last sub2 (0, 0)) = E).
  { destruct (chain_last_le _ _ _ C1 N1) as [L1 L2]. fold laste in L1, L2.
    unfold sub2. destruct (Z.eqb_spec laste E) as [EE|NE].
    - repeat split; try assumption.
    - split; [apply chain_app_end; try assumption; try reflexivity; lia|]. split; [destruct sub1; discriminate|].
      split; [destruct sub1; [congruence|exact F1]|]. rewrite last_app_single. reflexivity. }
  destruct H2 as [C2 [N2 [F2 L2]]].
  destruct sub2 as [|[b e] r] eqn:E2; [congruence|]. cbn [hd fst] in F2. subst b.
  cbn [chain] in C2. destruct C2 as [D1 [D2 [D3 D4]]].
  cbn [contig]. repeat split; try lia.
  apply fill_holes_contig; [exact D4| |].
  - intros Hr. rewrite last_cons_ne in L2 by exact Hr. exact L2.
  - intros ->. cbn in L2. exact L2.
Qed.

(* ranges as parallel lists of starts and ends *)
Fixpoint ranges_codes (ss es : list Z) : list Z :=
  match ss, es with s :: ss', e :: es' => zrange s e ++ ranges_codes ss' es' | _, _ => [] end.
Lemma ranges_codes_app : forall a c b d, length a = length c ->
  ranges_codes (a ++ b) (c ++ d) = ranges_codes a c ++ ranges_codes b d.
Proof.
  induction a as [|x a IH]; intros c b d H; destruct c as [|y c]; try discriminate; [reflexivity|].
  cbn [app ranges_codes]. rewrite IH by (cbn in H; lia). rewrite app_assoc. reflexivity.
Qed.
Lemma ranges_codes_pairs : forall rs, ranges_codes (map fst rs) (map snd rs) = flat_map (fun r => zrange (fst r) (snd r)) rs.
Proof. induction rs as [|[b e] r IH]; [reflexivity|]. cbn [map ranges_codes flat_map fst snd]. rewrite IH. reflexivity. Qed.

Lemma splitRange_tiles S E m s e : S <= E -> splitRange S E m = (s, e) ->
  length (S :: s) = length e /\ ranges_codes (S :: s) e = zrange S E.
Proof.
  intros HSE H. unfold splitRange in H.
  destruct (Z.eq_dec S E) as [->|NE].
  - unfold split_ranges in H. rewrite Z.eqb_refl in H. inversion H; subst. split; [reflexivity|]. cbn. rewrite app_nil_r. reflexivity.
  - destruct (split_ranges_contig S E m ltac:(lia)) as [HN|HC].
    + rewrite HN in H. inversion H; subst. split; [reflexivity|]. cbn. rewrite app_nil_r. reflexivity.
    + destruct (split_ranges S E m) as [|[b0 e0] r] eqn:ER; [inversion H; subst; split; [reflexivity|cbn; rewrite app_nil_r; reflexivity]|].
      inversion H; subst s e. pose proof (contig_first _ _ _ _ _ HC) as ->.
      cbn [map fst snd tl]. split; [cbn [length]; rewrite !map_length; reflexivity|].
      change (S :: map fst r) with (map fst ((S, e0) :: r)). change (e0 :: map snd r) with (map snd ((S, e0) :: r)).
      rewrite ranges_codes_pairs. apply contig_codes; [exact HC|lia].
Qed.

Lemma zrange_single c : zrange c c = [c].
Proof. unfold zrange. replace (Z.to_nat (c - c + 1)) with 1%nat by lia. reflexivity. Qed.

Lemma outer_tiles m : forall codes curStart lastCode starts ends ss0 SS ES,
  starts = ss0 ++ [curStart] -> length ss0 = length ends -> curStart <= lastCode ->
  outer codes m curStart lastCode starts ends = (SS, ES) ->
  exists ss es, SS = ss ++ [65535] /\ ES = es ++ [65535] /\ length ss = length es /\
                ranges_codes ss es = ranges_codes ss0 ends ++ zrange curStart lastCode ++ codes.
Proof.
  induction codes as [|c r IH]; intros curStart lastCode starts ends ss0 SS ES Hs Hl Hle H; cbn [outer] in H.
  - destruct (splitRange curStart lastCode m) as [s e] eqn:Esp. inversion H; subst SS ES. clear H.
    destruct (splitRange_tiles _ _ _ _ _ Hle Esp) as [L T].
    exists (ss0 ++ curStart :: s), (ends ++ e). subst starts.
    split; [rewrite <- !app_assoc; reflexivity|]. split; [rewrite <- app_assoc; reflexivity|].
    split; [rewrite !app_length; cbn [length] in *; lia|].
    rewrite ranges_codes_app by exact Hl. rewrite T, app_nil_r. reflexivity.
  - destruct (Z.eqb_spec c (lastCode + 1)) as [->|NE].
    + destruct (IH curStart (lastCode + 1) starts ends ss0 SS ES Hs Hl ltac:(lia) H) as [ss [es [A [B [C D]]]]].
      exists ss, es. repeat split; try assumption. rewrite D.
      rewrite (zrange_split curStart lastCode (lastCode + 1)) by lia. rewrite zrange_single, <- !app_assoc. reflexivity.
    + destruct (splitRange curStart lastCode m) as [s e] eqn:Esp.
      destruct (splitRange_tiles _ _ _ _ _ Hle Esp) as [L T].
      destruct (IH c c (starts ++ s ++ [c]) (ends ++ e) (ss0 ++ curStart :: s) SS ES) as [ss [es [A [B [C D]]]]].
      * subst starts. rewrite <- !app_assoc. reflexivity.
      * rewrite !app_length. cbn [length] in *. lia.
      * lia.
      * exact H.
      * exists ss, es. repeat split; try assumption. rewrite D.
        rewrite ranges_codes_app by exact Hl. rewrite T, zrange_single, <- !app_assoc. reflexivity.
Qed.
Lemma segments_tile m ss es : segments m = (ss, es) ->
  exists ss1 es1, ss = ss1 ++ [65535] /\ es = es1 ++ [65535] /\ length ss1 = length es1 /\ ranges_codes ss1 es1 = map fst m.
Proof.
  unfold segments. destruct (map fst m) as [|c0 r] eqn:E.
  - intros H. inversion H; subst. exists [], []. repeat split; reflexivity.
  - intros H. destruct (outer_tiles m r c0 c0 [c0] [] [] ss es eq_refl eq_refl ltac:(lia) H) as [ss1 [es1 [A [B [C D]]]]].
    exists ss1, es1. repeat split; try assumption. rewrite D, zrange_single. reflexivity.
Qed.

(* ================= Part B ================= *)
Definition entries (cs : list Z) (m : cm) : cm := map (fun c => (c, lookup c m)) cs.

Lemma dict_set_append : forall acc c g, (forall k, In k (map fst acc) -> k < c) -> dict_set c g acc = acc ++ [(c, g)].
Proof.
  induction acc as [|[k v] r IH]; intros c g H; [reflexivity|]. cbn [dict_set app].
  destruct (Z.eqb_spec c k) as [->|NE]; [specialize (H k (or_introl eq_refl)); lia|].
  rewrite IH; [reflexivity|]. intros k' Hk'. apply H. right. exact Hk'.
Qed.

Definition gid_at (c delta partial ro : Z) (gia : list Z) : Res Z :=
  if ro =? 0 then Ok ((c + delta) mod 65536)
  else
    let index := c + partial in
    if negb (index <? Z.of_nat (length gia)) then Err AssertionError
    else let* v := py_index gia index in Ok (if v =? 0 then 0 else (v + delta) mod 65536).
Lemma seg_codes_step k c delta partial ro gia acc :
  seg_codes (S k) c delta partial ro gia acc =
  let* gid := gid_at c delta partial ro gia in
  seg_codes k (c + 1) delta partial ro gia (if gid =? 0 then acc else dict_set c gid acc).
Proof. reflexivity. Qed.

Lemma seg_codes_ok m delta partial ro gia : forall n c acc,
  (forall x, c <= x < c + Z.of_nat n -> gid_at x delta partial ro gia = Ok (lookup x m) /\ lookup x m <> 0) ->
  (forall k, In k (map fst acc) -> k < c) ->
  seg_codes n c delta partial ro gia acc = Ok (acc ++ entries (codes_from n c) m).
Proof.
  induction n as [|n IH]; intros c acc HG HK.
  - cbn. rewrite app_nil_r. reflexivity.
  - rewrite seg_codes_step. destruct (HG c ltac:(lia)) as [G1 G2]. rewrite G1. cbn [bind].
    destruct (Z.eqb_spec (lookup c m) 0); [contradiction|].
    rewrite dict_set_append by exact HK. rewrite IH.
    + cbn [codes_from entries map]. rewrite <- app_assoc. reflexivity.
    + intros x Hx. apply HG. lia.
    + intros k Hk. rewrite map_app in Hk. apply in_app_or in Hk. destruct Hk as [Hk|[<-|[]]]; [specialize (HK k Hk); lia|cbn; lia].
Qed.

Lemma consecutive_spec m : forall n s i0, consecutive i0 (fill n s m) = true ->
  forall j, (j < n)%nat -> lookup (s + Z.of_nat j) m = i0 + Z.of_nat j.
Proof.
  induction n as [|n IH]; intros s i0 H j Hj; [lia|]. cbn [fill consecutive] in H.
  apply andb_true_iff in H. destruct H as [H1 H2]. apply Z.eqb_eq in H1.
  destruct j as [|j]; [rewrite Z.add_0_r; cbn; lia|].
  specialize (IH (s + 1) (i0 + 1) H2 j ltac:(lia)).
  replace (s + Z.of_nat (S j)) with (s + 1 + Z.of_nat j) by lia. rewrite IH. lia.
Qed.
Lemma fill_nth m : forall n s j, (j < n)%nat -> nth_error (fill n s m) j = Some (lookup (s + Z.of_nat j) m).
Proof.
  induction n as [|n IH]; intros s j Hj; [lia|]. destruct j as [|j]; cbn [fill nth_error].
  - rewrite Z.add_0_r. reflexivity.
  - rewrite IH by lia. f_equal. f_equal. lia.
Qed.

Lemma cruft_step nseg i s ss' e e2 es' m gia :
  cruft nseg i (s :: ss') (e :: e2 :: es') m gia =
  let indices := fill (Z.to_nat (e - s + 1)) s m in
  let '(d, ro, gia') :=
      match indices with
      | i0 :: _ => if consecutive i0 indices then ((i0 - s) mod 65536, 0, gia)
                   else (0, 2 * (nseg + Z.of_nat (length gia) - i), gia ++ indices)
      | [] => (0, 0, gia)
      end in
  let '(ds, ros, g) := cruft nseg (i + 1) ss' (e2 :: es') m gia' in
  (d :: ds, ro :: ros, g).
Proof. reflexivity. Qed.
Lemma cruft_extends nseg m : forall ss es i gia ds ros G, cruft nseg i ss es m gia = (ds, ros, G) ->
  exists tail, G = gia ++ tail.
Proof.
  induction ss as [|s ss IH]; intros es i gia ds ros G H.
  - cbn in H. inversion H. exists []. rewrite app_nil_r. reflexivity.
  - destruct es as [|e [|e2 es']]; try (cbn in H; inversion H; exists []; rewrite app_nil_r; reflexivity).
    rewrite cruft_step in H. cbv zeta in H.
    destruct (fill (Z.to_nat (e - s + 1)) s m) as [|i0 rest] eqn:EF.
    + destruct (cruft nseg (i + 1) ss (e2 :: es') m gia) as [[ds' ros'] g] eqn:EC. inversion H; subst. eapply IH; eassumption.
    + destruct (consecutive i0 (i0 :: rest)).
      * destruct (cruft nseg (i + 1) ss (e2 :: es') m gia) as [[ds' ros'] g] eqn:EC. inversion H; subst. eapply IH; eassumption.
      * destruct (cruft nseg (i + 1) ss (e2 :: es') m (gia ++ i0 :: rest)) as [[ds' ros'] g] eqn:EC. inversion H; subst.
        destruct (IH _ _ _ _ _ _ EC) as [t Ht]. exists ((i0 :: rest) ++ t). rewrite Ht, app_assoc. reflexivity.
Qed.
Lemma cruft_lengths nseg m : forall ss es i gia ds ros G, cruft nseg i ss es m gia = (ds, ros, G) -> length ss = length es -> es <> [] ->
  length ds = length es /\ length ros = length es.
Proof.
  induction ss as [|s ss IH]; intros es i gia ds ros G H HL HN.
  - destruct es; [congruence|discriminate].
  - destruct es as [|e [|e2 es']]; [discriminate| |].
    + cbn in H. inversion H; subst. split; reflexivity.
    + rewrite cruft_step in H. cbv zeta in H.
      destruct (fill (Z.to_nat (e - s + 1)) s m) as [|i0 rest];
        [|destruct (consecutive i0 (i0 :: rest))];
        match type of H with context [cruft ?a ?b ?c ?d ?e ?f] => destruct (cruft a b c d e f) as [[ds' ros'] g] eqn:EC end;
        inversion H; subst; destruct (IH _ _ _ _ _ _ EC ltac:(cbn in HL |- *; lia) ltac:(discriminate)) as [A B];
        cbn [length]; rewrite A, B; split; reflexivity.
Qed.

From Coq Require Import Sorting.Sorted.

Lemma ss_app_lt : forall (a b : list Z), StronglySorted Z.lt (a ++ b) -> forall x y, In x a -> In y b -> x < y.
Proof.
  induction a as [|k a IH]; intros b H x y Hx Hy; [contradiction|].
  cbn [app] in H. apply StronglySorted_inv in H. destruct H as [H1 H2].
  destruct Hx as [<-|Hx]; [|eapply IH; eassumption].
  rewrite Forall_forall in H2. apply H2. apply in_or_app. right. exact Hy.
Qed.
Lemma entries_keys cs m : map fst (entries cs m) = cs.
Proof. unfold entries. rewrite map_map. cbn. apply map_id. Qed.
Lemma nth_mid {A} (p : list A) x r i : length p = i -> nth_error (p ++ x :: r) i = Some x.
Proof. intros <-. rewrite nth_error_app2 by lia. rewrite Nat.sub_diag. reflexivity. Qed.
Lemma nthZ_mid p x r i : length p = i -> nthZ (p ++ x :: r) i = Ok x.
Proof. intros H. unfold nthZ. rewrite (nth_mid p x r i H). reflexivity. Qed.
Lemma codes_from_in : forall n c x, In x (codes_from n c) <-> c <= x < c + Z.of_nat n.
Proof.
  induction n as [|n IH]; intros c x; cbn [codes_from In]; [lia|]. rewrite IH. lia.
Qed.

Lemma segs_decode_step k i starts ends deltas ros gia acc :
  segs_decode (S k) i starts ends deltas ros gia acc =
  let* s := nthZ starts i in
  let* d := nthZ deltas i in
  let* ro := nthZ ros i in
  let partial := ro / 2 - s + Z.of_nat i - Z.of_nat (length ros) in
  let* e := nthZ ends i in
  let* acc' := seg_codes (Z.to_nat (e - s + 1)) s d partial ro gia acc in
  segs_decode k (S i) starts ends deltas ros gia acc'.
Proof. reflexivity. Qed.

Lemma decode_segments nseg m : forall ss1 es1 sl el i gia0 ds ros G ps pe pd pr acc,
  length ss1 = length es1 ->
  cruft nseg (Z.of_nat i) (ss1 ++ [sl]) (es1 ++ [el]) m gia0 = (ds, ros, G) ->
  length ps = i -> length pe = i -> length pd = i -> length pr = i ->
  nseg = Z.of_nat (i + length es1 + 1) ->
  StronglySorted Z.lt (map fst acc ++ ranges_codes ss1 es1) ->
  (forall c, In c (ranges_codes ss1 es1) -> 1 <= lookup c m <= 65535) ->
  segs_decode (length ss1) i (ps ++ ss1 ++ [sl]) (pe ++ es1 ++ [el]) (pd ++ ds) (pr ++ ros) G acc
  = Ok (acc ++ entries (ranges_codes ss1 es1) m).
Proof.
  induction ss1 as [|s ss1 IH]; intros es1 sl el i gia0 ds ros G ps pe pd pr acc HL HC Lps Lpe Lpd Lpr HN HS HG.
  - destruct es1; [|discriminate]. cbn. rewrite app_nil_r. reflexivity.
  - destruct es1 as [|e es1]; [discriminate|]. cbn [length] in HL. injection HL as HL.
    cbn [app] in HC. assert (HE : exists e2 es', es1 ++ [el] = e2 :: es').
    { destruct es1 as [|e2 es1']; cbn [app]; eauto. }
    destruct HE as [e2 [es' HE]]. rewrite HE in HC. rewrite cruft_step in HC. cbv zeta in HC.
    set (ro0 := 2 * (nseg + Z.of_nat (length gia0) - Z.of_nat i)) in HC.
    set (n := Z.to_nat (e - s + 1)) in *. set (indices := fill n s m) in *.
    cbn [ranges_codes] in HS, HG |- *. fold (zrange s e) in *. unfold zrange in HS, HG |- *. fold n in HS, HG |- *.
    (* facts about this segment's codes *)
    assert (Hgid : forall x, s <= x < s + Z.of_nat n -> 1 <= lookup x m <= 65535).
    { intros x Hx. apply HG. apply in_or_app. left. apply codes_from_in. exact Hx. }
    assert (Hkeys : (0 < n)%nat -> forall k, In k (map fst acc) -> k < s).
    { intros Hn k Hk. apply (ss_app_lt _ _ HS k s Hk). apply in_or_app. left. apply codes_from_in. lia. }
    (* the general shape of the step, given the decoded segment *)
    assert (Hstep : forall d ro gia' ds' ros',
              cruft nseg (Z.of_nat i + 1) (ss1 ++ [sl]) (e2 :: es') m gia' = (ds', ros', G) ->
              ds = d :: ds' -> ros = ro :: ros' ->
              seg_codes n s d (ro / 2 - s + Z.of_nat i - Z.of_nat (length (pr ++ ros))) ro G acc
                = Ok (acc ++ entries (codes_from n s) m) ->
              segs_decode (S (length ss1)) i (ps ++ (s :: ss1) ++ [sl]) (pe ++ (e :: es1) ++ [el]) (pd ++ ds) (pr ++ ros) G acc
              = Ok (acc ++ entries (codes_from n s ++ ranges_codes ss1 es1) m)).
    { intros d ro gia' ds' ros' HC' -> -> Hseg.
      rewrite segs_decode_step. cbn [app].
      rewrite (nthZ_mid ps s _ i Lps), (nthZ_mid pd d _ i Lpd), (nthZ_mid pr ro _ i Lpr), (nthZ_mid pe e _ i Lpe). cbn [bind].
      fold n. rewrite Hseg. cbn [bind].
      replace (ps ++ s :: ss1 ++ [sl]) with ((ps ++ [s]) ++ ss1 ++ [sl]) by (rewrite <- app_assoc; reflexivity).
      replace (pe ++ e :: es1 ++ [el]) with ((pe ++ [e]) ++ es1 ++ [el]) by (rewrite <- app_assoc; reflexivity).
      replace (pd ++ d :: ds') with ((pd ++ [d]) ++ ds') by (rewrite <- app_assoc; reflexivity).
      replace (pr ++ ro :: ros') with ((pr ++ [ro]) ++ ros') by (rewrite <- app_assoc; reflexivity).
      rewrite (IH es1 sl el (S i) gia' ds' ros' G (ps ++ [s]) (pe ++ [e]) (pd ++ [d]) (pr ++ [ro])).
      - unfold entries. rewrite map_app, app_assoc. reflexivity.
      - exact HL.
      - rewrite HE. replace (Z.of_nat (S i)) with (Z.of_nat i + 1) by lia. exact HC'.
      - rewrite app_length; cbn; lia.
      - rewrite app_length; cbn; lia.
      - rewrite app_length; cbn; lia.
      - rewrite app_length; cbn; lia.
      - cbn [length] in HN. lia.
      - rewrite map_app, entries_keys, <- app_assoc. exact HS.
      - intros c Hc. apply HG. apply in_or_app. right. exact Hc. }
    destruct indices as [|i0 rest] eqn:EI.
    + (* no codes (not reached by compile; harmless) *)
      assert (n = 0)%nat by (destruct n; [reflexivity|unfold indices in EI; discriminate]).
      destruct (cruft nseg (Z.of_nat i + 1) (ss1 ++ [sl]) (e2 :: es') m gia0) as [[ds' ros'] g] eqn:EC. inversion HC; subst ds ros g.
      apply (Hstep 0 0 gia0 ds' ros' EC eq_refl eq_refl). rewrite H. cbn. rewrite app_nil_r. reflexivity.
    + assert (Hn : (0 < n)%nat) by (destruct n; [unfold indices in EI; discriminate|lia]).
      assert (Hi0 : i0 = lookup s m).
      { pose proof (fill_nth m n s 0 Hn) as F. fold indices in F. rewrite EI in F. cbn in F. rewrite Z.add_0_r in F. congruence. }
      destruct (consecutive i0 (i0 :: rest)) eqn:ECons.
      * destruct (cruft nseg (Z.of_nat i + 1) (ss1 ++ [sl]) (e2 :: es') m gia0) as [[ds' ros'] g] eqn:EC. inversion HC; subst ds ros g.
        apply (Hstep _ _ gia0 ds' ros' EC eq_refl eq_refl).
        apply seg_codes_ok; [|exact (Hkeys Hn)].
        intros x Hx. specialize (Hgid x Hx). split; [|lia].
        unfold gid_at. cbn [Z.eqb]. f_equal.
        rewrite <- EI in ECons. unfold indices in ECons.
        pose proof (consecutive_spec m n s i0 ECons (Z.to_nat (x - s)) ltac:(lia)) as Hc.
        replace (s + Z.of_nat (Z.to_nat (x - s))) with x in Hc by lia.
        rewrite Zplus_mod_idemp_r. replace (x + (i0 - s)) with (lookup x m) by lia. apply Z.mod_small. lia.
      * destruct (cruft nseg (Z.of_nat i + 1) (ss1 ++ [sl]) (e2 :: es') m (gia0 ++ i0 :: rest)) as [[ds' ros'] g] eqn:EC. inversion HC; subst ds ros g.
        destruct (cruft_extends _ _ _ _ _ _ _ _ _ EC) as [tail HT].
        destruct (cruft_lengths _ _ _ _ _ _ _ _ _ EC ltac:(rewrite <- HE, !app_length; cbn [length]; lia) ltac:(discriminate)) as [_ Lros].
        apply (Hstep _ _ _ ds' ros' EC eq_refl eq_refl).
        apply seg_codes_ok; [|exact (Hkeys Hn)].
        intros x Hx. specialize (Hgid x Hx). split; [|lia].
        assert (Hro : ro0 / 2 = nseg + Z.of_nat (length gia0) - Z.of_nat i) by (unfold ro0; rewrite Z.mul_comm, Z.div_mul; lia).
        assert (Hlen : Z.of_nat (length (pr ++ ro0 :: ros')) = nseg).
        { rewrite app_length. cbn [length]. rewrite Lros, Lpr, <- HE, app_length. cbn [length] in HN |- *. lia. }
        unfold gid_at. destruct (Z.eqb_spec ro0 0) as [R0|_]; [unfold ro0 in R0; cbn [length] in HN; lia|].
        rewrite Hro, Hlen.
        set (index := x + (nseg + Z.of_nat (length gia0) - Z.of_nat i - s + Z.of_nat i - nseg)).
        assert (Hidx : index = Z.of_nat (length gia0) + (x - s)) by (unfold index; lia).
        assert (HGl : G = gia0 ++ indices ++ tail) by (rewrite HT, EI, <- app_assoc; reflexivity).
        assert (Hlt : index < Z.of_nat (length G)).
        { rewrite HGl, !app_length. unfold indices. rewrite fill_length. lia. }
        destruct (Z.ltb_spec index (Z.of_nat (length G))); [|lia]. cbn [negb].
        unfold py_index. destruct (Z.leb_spec 0 index); [|lia].
        unfold nthZ. rewrite HGl, Hidx.
        replace (Z.to_nat (Z.of_nat (length gia0) + (x - s))) with (length gia0 + Z.to_nat (x - s))%nat by lia.
        rewrite nth_error_app2 by lia. replace (length gia0 + Z.to_nat (x - s) - length gia0)%nat with (Z.to_nat (x - s)) by lia.
        rewrite nth_error_app1 by (unfold indices; rewrite fill_length; lia).
        unfold indices. rewrite fill_nth by lia. replace (s + Z.of_nat (Z.to_nat (x - s))) with x by lia. cbn [bind].
        destruct (Z.eqb_spec (lookup x m) 0); [lia|]. rewrite Z.add_0_r, Z.mod_small by lia. reflexivity.
Qed.

(* ================= Part C ================= *)
Lemma sorted_from_lower : forall m c, sorted_from c m -> forall k, In k (map fst m) -> c <= k.
Proof.
  induction m as [|[k0 g] r IH]; intros c HS k Hk; [contradiction|]. cbn [sorted_from] in HS. destruct HS as [H1 H2].
  destruct Hk as [<-|Hk]; [cbn; lia|]. specialize (IH _ H2 k Hk). lia.
Qed.
Lemma sorted_from_ss : forall m c, sorted_from c m -> StronglySorted Z.lt (map fst m).
Proof.
  induction m as [|[k g] r IH]; intros c HS; [constructor|]. cbn [sorted_from] in HS. destruct HS as [H1 H2].
  cbn [map fst]. constructor; [eapply IH; exact H2|]. apply Forall_forall. intros x Hx.
  pose proof (sorted_from_lower _ _ H2 x Hx). lia.
Qed.
Lemma entries_self : forall m c, sorted_from c m -> entries (map fst m) m = m.
Proof.
  induction m as [|[k g] r IH]; intros c HS; [reflexivity|]. cbn [sorted_from] in HS. destruct HS as [H1 H2].
  cbn [map fst entries lookup]. rewrite Z.eqb_refl. f_equal.
  transitivity (entries (map fst r) r); [|eapply IH; exact H2].
  unfold entries. apply map_ext_in. intros x Hx. cbn [lookup].
  pose proof (sorted_from_lower _ _ H2 x Hx). destruct (Z.eqb_spec k x); [lia|reflexivity].
Qed.

Lemma firstn_exact {A} (a b : list A) : firstn (length a) (a ++ b) = a.
Proof. rewrite firstn_app, Nat.sub_diag, firstn_all. cbn. apply app_nil_r. Qed.
Lemma skipn_exact {A} (a b : list A) : skipn (length a) (a ++ b) = b.
Proof. rewrite skipn_app, Nat.sub_diag, skipn_all. reflexivity. Qed.
Lemma skipn_plus {A} (a b : list A) n k : length a = n -> skipn (n + k) (a ++ b) = skipn k b.
Proof.
  intros <-. rewrite skipn_app. replace (length a + k - length a)%nat with k by lia.
  rewrite skipn_all2 by lia. reflexivity.
Qed.

Lemma slices (a : list Z) z b c d g n : length a = n -> length b = n -> length c = n -> length d = n ->
  let all := a ++ [z] ++ b ++ c ++ d ++ g in
  slice all 0 n = a /\ slice all (n + 1) n = b /\ slice all (n + 1 + n) n = c /\ slice all (n + 1 + n + n) n = d /\
  skipn (n + 1 + n + n + n) all = g.
Proof.
  intros La Lb Lc Ld all. unfold slice, all.
  assert (E1 : skipn (n + 1) (a ++ [z] ++ b ++ c ++ d ++ g) = b ++ c ++ d ++ g).
  { rewrite (skipn_plus a _ n 1 La). reflexivity. }
  assert (E2 : skipn (n + 1 + n) (a ++ [z] ++ b ++ c ++ d ++ g) = c ++ d ++ g).
  { replace (n + 1 + n)%nat with (n + (1 + n))%nat by lia. rewrite (skipn_plus a _ n (1 + n) La). cbn [app Nat.add skipn].
    rewrite <- (Nat.add_0_r n) at 1. rewrite (skipn_plus b _ n 0 Lb). reflexivity. }
  assert (E3 : skipn (n + 1 + n + n) (a ++ [z] ++ b ++ c ++ d ++ g) = d ++ g).
  { replace (n + 1 + n + n)%nat with (n + (1 + (n + n)))%nat by lia. rewrite (skipn_plus a _ n _ La). cbn [app Nat.add skipn].
    rewrite (skipn_plus b _ n n Lb). rewrite <- (Nat.add_0_r n) at 1. rewrite (skipn_plus c _ n 0 Lc). reflexivity. }
  assert (E4 : skipn (n + 1 + n + n + n) (a ++ [z] ++ b ++ c ++ d ++ g) = g).
  { replace (n + 1 + n + n + n)%nat with (n + (1 + (n + (n + n))))%nat by lia. rewrite (skipn_plus a _ n _ La). cbn [app Nat.add skipn].
    rewrite (skipn_plus b _ n _ Lb). rewrite (skipn_plus c _ n n Lc). rewrite <- (Nat.add_0_r n) at 1. rewrite (skipn_plus d _ n 0 Ld). reflexivity. }
  rewrite E1, E2, E3, E4. cbn [skipn].
  rewrite <- La at 1. rewrite firstn_exact. rewrite <- Lb at 1. rewrite firstn_exact.
  rewrite <- Lc at 1. rewrite firstn_exact. rewrite <- Ld at 1. rewrite firstn_exact. auto.
Qed.

Definition gid16 (m : cm) : Prop := Forall (fun p => 1 <= snd p <= 65535) m.
Lemma gid16_lookup : forall m c, sorted_from c m -> gid16 m -> forall k, In k (map fst m) -> 1 <= lookup k m <= 65535.
Proof.
  induction m as [|[k0 g] r IH]; intros c HS HG k Hk; [contradiction|]. cbn [sorted_from] in HS. destruct HS as [H1 H2].
  inversion HG as [|? ? Hg HG']; subst. cbn [lookup]. destruct (Z.eqb_spec k0 k); [exact Hg|].
  destruct Hk as [Hk|Hk]; [cbn in Hk; congruence|]. eapply IH; eassumption.
Qed.

Theorem cmap4_roundtrip language m :
  sorted_from 0 m -> gid16 m ->
  match cmap4_compile language m with
  | Ok bytes => cmap4_decompile bytes = Ok (language, m)
  | Err _ => True
  end.
Proof.
  intros HS HG. unfold cmap4_compile.
  destruct (segments m) as [ss es] eqn:ESeg.
  destruct (segments_tile m ss es ESeg) as [ss1 [es1 [-> [-> [HL HT]]]]].
  set (nseg := Z.of_nat (length (es1 ++ [65535]))).
  destruct (cruft nseg 0 (ss1 ++ [65535]) (es1 ++ [65535]) m []) as [[ds ros] gia] eqn:EC.
  set (words := (es1 ++ [65535]) ++ [0] ++ (ss1 ++ [65535]) ++ ds ++ ros ++ gia).
  destruct (forallb u16b words) eqn:EW; cbn [negb]; [|exact I].
  destruct (getSearchRange nseg 2) as [[sr esel] rs].
  destruct (u16b (14 + 2 * Z.of_nat (length words)) && u16b language && u16b (2 * nseg) && u16b sr && u16b esel && u16b rs) eqn:EH; [|exact I].
  repeat (apply andb_true_iff in EH; destruct EH as [EH ?]).
  repeat match goal with H : u16b _ = true |- _ => unfold u16b in H; apply andb_true_iff in H; destruct H as [?H ?H] end.
  repeat match goal with H : (_ <=? _) = true |- _ => apply Z.leb_le in H | H : (_ <? _) = true |- _ => apply Z.ltb_lt in H end.
  assert (Lss : length (ss1 ++ [65535]) = length (es1 ++ [65535])) by (rewrite !app_length; cbn [length]; lia).
  destruct (cruft_lengths _ _ _ _ _ _ _ _ _ EC Lss ltac:(destruct es1; discriminate)) as [Lds Lros].
  set (sc := length (es1 ++ [65535])) in *.
  unfold cmap4_decompile.
  repeat (rewrite take_pack; cbn [app]). change (2 ^ (8 * Z.of_nat 2)) with 65536. rewrite !Z.mod_small by lia.
  rewrite !app_length, !pack_be_length, flat_pack_length.
  replace (Z.of_nat (2 + (2 + (2 + (2 + (2 + (2 + (2 + 2 * length words)))))))) with (14 + 2 * Z.of_nat (length words)) by lia.
  rewrite Z.eqb_refl. cbn [negb].
  replace ((2 + (2 + (2 + 2 * length words))) <? 6)%nat with false by (symmetry; apply Nat.ltb_ge; lia).
  assert (Hskip : skipn 6 (pack_be 2 sr ++ pack_be 2 esel ++ pack_be 2 rs ++ flat_map (pack_be 2) words) = flat_map (pack_be 2) words).
  { rewrite (skipn_plus (pack_be 2 sr) _ 2 4) by apply pack_be_length.
    rewrite (skipn_plus (pack_be 2 esel) _ 2 2) by apply pack_be_length.
    rewrite (skipn_plus (pack_be 2 rs) _ 2 0) by apply pack_be_length. reflexivity. }
  rewrite Hskip, flat_pack_length.
  replace (Nat.odd (2 * length words)) with false by (rewrite Nat.odd_mul; reflexivity).
  replace (Nat.div2 (2 * length words)) with (length words) by (symmetry; apply Nat.div2_double).
  pose proof (read_packed words [] EW) as Hrd. rewrite app_nil_r in Hrd. rewrite Hrd.
  assert (Hsc : Z.to_nat (2 * nseg / 2) = sc) by (rewrite Z.mul_comm, Z.div_mul by lia; unfold nseg, sc; lia).
  rewrite Hsc.
  destruct (slices (es1 ++ [65535]) 0 (ss1 ++ [65535]) ds ros gia sc eq_refl Lss Lds Lros) as [S1 [S2 [S3 [S4 S5]]]].
  fold words in S1, S2, S3, S4, S5. rewrite S1, S2, S3, S4, S5.
  replace (length (ss1 ++ [65535%Z]) - 1)%nat with (length ss1) by (rewrite app_length; cbn [length]; lia).
  pose proof (decode_segments nseg m ss1 es1 65535 65535 0 [] ds ros gia [] [] [] [] []) as HD.
  cbn [app] in HD. rewrite HD; try reflexivity; try assumption.
  - cbn [bind app]. rewrite HT, (entries_self m 0 HS). reflexivity.
  - unfold nseg, sc. rewrite app_length. cbn [length]. lia.
  - cbn [map app]. rewrite HT. eapply sorted_from_ss, HS.
  - intros c Hc. rewrite HT in Hc. eapply gid16_lookup; eassumption.
Qed.

(* non-vacuity: a run split by splitRange, a glyph-index-array segment and a delta segment *)
Example cmap4_example :
  let m := [(65, 10); (66, 11); (67, 12); (68, 13); (69, 14); (70, 15); (71, 3); (72, 9); (73, 4); (100, 7); (101, 8)] in
  match cmap4_compile 0 m with Ok bytes => cmap4_decompile bytes = Ok (0, m) | Err _ => False end.
Proof. vm_compute. reflexivity. Qed.
