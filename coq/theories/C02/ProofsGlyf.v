(* C02/ProofsGlyf.v *)
From Coq Require Import ZArith List Bool Lia.
From FV Require Import Base.Ser Base.Res Base.Bits Base.BE Base.ListX C02.ModelGlyf.
Import ListNotations.
Open Scope Z_scope.

(* ======================= proofs ======================= *)
Ltac Zify.zify_post_hook ::= Z.to_euclidean_division_equations.

Definition keepable (f : Z) : Prop := 0 <= f < 256 /\ Z.land f 62 = 0.       (* only on-curve, overlap and cubic bits *)
Definition xbits := [0; 16; 2; 18]. Definition ybits := [0; 32; 4; 36].

(* everything the decoder looks at in a written flag, decided by a finite sweep over all flags and bit choices *)
Lemma flag_bits f bx by_ : keepable f -> In bx xbits -> In by_ ybits ->
  let w := Z.lor (Z.lor f bx) by_ in
  0 <= w < 256 /\ Z.land w 8 = 0 /\ Z.land w 193 = f /\ Z.land w 2 = Z.land bx 2 /\ Z.land w 16 = Z.land bx 16 /\
  Z.land w 4 = Z.land by_ 4 /\ Z.land w 32 = Z.land by_ 32 /\
  (forall m, In m [2; 4; 16; 32; 193] -> Z.land (Z.lor w 8) m = Z.land w m) /\ 0 <= Z.lor w 8 < 256 /\ Z.land (Z.lor w 8) 8 = 8.
Proof.
  intros [Hr Hk] Hx Hy.
  assert (S: forallb (fun f => negb (Z.land f 62 =? 0) ||
               forallb (fun bx => forallb (fun by_ =>
                 let w := Z.lor (Z.lor f bx) by_ in
                 (0 <=? w) && (w <? 256) && (Z.land w 8 =? 0) && (Z.land w 193 =? f) && (Z.land w 2 =? Z.land bx 2) && (Z.land w 16 =? Z.land bx 16) &&
                 (Z.land w 4 =? Z.land by_ 4) && (Z.land w 32 =? Z.land by_ 32) &&
                 forallb (fun m => Z.land (Z.lor w 8) m =? Z.land w m) [2; 4; 16; 32; 193] && (0 <=? Z.lor w 8) && (Z.lor w 8 <? 256) && (Z.land (Z.lor w 8) 8 =? 8))
                 ybits) xbits) (map Z.of_nat (seq 0 256)) = true) by (vm_compute; reflexivity).
  pose proof (forall_byte _ S f Hr) as P. cbn beta in P. rewrite Hk in P. cbn [Z.eqb negb orb] in P.
  rewrite forallb_forall in P. specialize (P bx Hx). rewrite forallb_forall in P. specialize (P by_ Hy). cbv zeta in P.
  repeat (apply andb_true_iff in P; destruct P as [P ?]).
  repeat match goal with H : (_ =? _) = true |- _ => apply Z.eqb_eq in H | H : (_ <=? _) = true |- _ => apply Z.leb_le in H | H : (_ <? _) = true |- _ => apply Z.ltb_lt in H end.
  cbv zeta. repeat split; try assumption; try lia.
  intros m Hm. match goal with H : forallb _ [2; 4; 16; 32; 193] = true |- _ => rewrite forallb_forall in H; specialize (H m Hm); apply Z.eqb_eq in H; exact H end.
Qed.

Lemma enc_coord_bits short same v b bs : (short = 2 /\ same = 16) \/ (short = 4 /\ same = 32) ->
  enc_coord short same v = Ok (b, bs) -> In b (if short =? 2 then xbits else ybits).
Proof.
  intros HS H. unfold enc_coord in H.
  destruct (v =? 0); [apply Ok_inj in H; apply pair_equal_spec in H; destruct H as [<- _]; destruct HS as [[-> ->]|[-> ->]]; cbn; auto|].
  destruct ((-255 <=? v) && (v <=? 255)).
  - destruct (0 <? v); apply Ok_inj in H; apply pair_equal_spec in H; destruct H as [<- _]; destruct HS as [[-> ->]|[-> ->]]; cbn; auto.
  - destruct (in_i16 v); [|discriminate]. apply Ok_inj in H. apply pair_equal_spec in H. destruct H as [<- _]. destruct HS as [[-> ->]|[-> ->]]; cbn; auto.
Qed.

(* reading back one coordinate from a flag whose (short, same) bits are the ones its encoding chose *)
Lemma dec_coord short same v b bs w r d : (short = 2 /\ same = 16) \/ (short = 4 /\ same = 32) ->
  enc_coord short same v = Ok (b, bs) -> Z.land w short = Z.land b short -> Z.land w same = Z.land b same ->
  read_coords short same (w :: r) (bs ++ d) = (let* (vs, d2) := read_coords short same r d in Ok (v :: vs, d2)).
Proof.
  intros HS H Hs Hm. cbn [read_coords]. rewrite Hs, Hm. unfold enc_coord in H.
  destruct (v =? 0) eqn:V0.
  - apply Z.eqb_eq in V0. apply Ok_inj in H. apply pair_equal_spec in H. destruct H as [<- <-].
    destruct HS as [[-> ->]|[-> ->]]; cbn [Z.land Z.eqb negb app bind]; subst v; reflexivity.
  - destruct ((-255 <=? v) && (v <=? 255)) eqn:SH.
    + destruct (0 <? v) eqn:P; apply Ok_inj in H; apply pair_equal_spec in H; destruct H as [<- <-];
        destruct HS as [[-> ->]|[-> ->]]; cbn [Z.lor Z.land Z.eqb negb app bind]; try reflexivity;
        replace (- - v) with v by lia; reflexivity.
    + destruct (in_i16 v) eqn:I; [|discriminate]. apply Ok_inj in H. apply pair_equal_spec in H. destruct H as [<- <-].
      assert (T: take_be 2 (pack_be 2 v ++ d) = Some (v mod 2 ^ 16, d)) by (rewrite take_pack; reflexivity).
      assert (U: to_signed 16 (v mod 2 ^ 16) = v).
      { apply to_signed_mod; [lia|]. unfold in_i16 in I. apply andb_true_iff in I. destruct I as [I1 I2]. apply Z.leb_le in I1, I2.
        change (2 ^ (16 - 1)) with 32768. lia. }
      destruct HS as [[-> ->]|[-> ->]]; cbn [Z.land Z.eqb negb bind]; rewrite T; cbn [bind]; rewrite U; reflexivity.
Qed.

Definition raw_of (w f : Z) : Prop := w = f \/ w = Z.lor f 8.        (* the reader keeps the repeat bit on repeated flags *)

Lemma decode_streams : forall ps fs xs ys, enc_points ps = Ok (fs, xs, ys) -> Forall (fun p : pt => keepable (fst p)) ps ->
  forall raw, Forall2 raw_of raw fs ->
  (forall d, read_coords flagXShort flagXsame raw (xs ++ d) = Ok (map (fun p : pt => fst (snd p)) ps, d)) /\
  (forall d, read_coords flagYShort flagYsame raw (ys ++ d) = Ok (map (fun p : pt => snd (snd p)) ps, d)) /\
  map (fun w => Z.land w keepFlags) raw = map fst ps /\
  Forall (fun f => 0 <= f < 256 /\ Z.land f 8 = 0) fs /\ length fs = length ps.
Proof.
  induction ps as [|[f [x y]] r IH]; intros fs xs ys H K raw R; cbn [enc_points] in H.
  - apply Ok_inj in H. apply pair_equal_spec in H. destruct H as [H <-]. apply pair_equal_spec in H. destruct H as [<- <-].
    inversion R; subst. repeat split; try reflexivity. constructor.
  - destruct (enc_coord flagXShort flagXsame x) as [[bx xb]|e] eqn:EX; [|discriminate]. cbn [bind] in H.
    destruct (enc_coord flagYShort flagYsame y) as [[by_ yb]|e] eqn:EY; [|discriminate]. cbn [bind] in H.
    destruct (enc_points r) as [[[fs' xs'] ys']|e] eqn:ER; [|discriminate]. cbn [bind] in H.
    apply Ok_inj in H. apply pair_equal_spec in H. destruct H as [H <-]. apply pair_equal_spec in H. destruct H as [<- <-].
    inversion K as [|? ? Kf Kr]; subst. cbn [fst] in Kf.
    inversion R as [|w f' raw' fs'' Rw Rr]; subst.
    pose proof (enc_coord_bits 2 16 x bx xb (or_introl (conj eq_refl eq_refl)) EX) as Bx. cbn [Z.eqb] in Bx.
    pose proof (enc_coord_bits 4 32 y by_ yb (or_intror (conj eq_refl eq_refl)) EY) as By. cbn [Z.eqb] in By.
    destruct (flag_bits f bx by_ Kf Bx By) as [W1 [W2 [W3 [W4 [W5 [W6 [W7 [W8 [W9 W10]]]]]]]]]. cbv zeta in *.
    set (w0 := Z.lor (Z.lor f bx) by_) in *.
    assert (M: forall m, In m [2; 4; 16; 32; 193] -> Z.land w m = Z.land w0 m).
    { intros m Hm. destruct Rw as [->| ->]; [reflexivity|apply W8; exact Hm]. }
    destruct (IH fs' xs' ys' eq_refl Kr raw' Rr) as [IX [IY [IM [IF IL]]]].
    repeat split.
    + intros d. rewrite <- app_assoc. unfold flagXShort, flagXsame in *.
      rewrite (dec_coord 2 16 x bx xb w raw' (xs' ++ d) (or_introl (conj eq_refl eq_refl)) EX);
        [rewrite IX; reflexivity|rewrite M by (cbn; auto); exact W4|rewrite M by (cbn; auto); exact W5].
    + intros d. rewrite <- app_assoc. unfold flagYShort, flagYsame in *.
      rewrite (dec_coord 4 32 y by_ yb w raw' (ys' ++ d) (or_intror (conj eq_refl eq_refl)) EY);
        [rewrite IY; reflexivity|rewrite M by (cbn; auto); exact W6|rewrite M by (cbn; auto); exact W7].
    + cbn [map fst]. rewrite IM. unfold keepFlags. rewrite M by (cbn; auto 10). rewrite W3. reflexivity.
    + constructor; [split; assumption|exact IF].
    + cbn [length]. rewrite IL. reflexivity.
Qed.

(* ---- the flag stream *)
Lemma span_same_spec : forall cap f l k rest, span_same cap f l = (k, rest) -> l = repeat f k ++ rest /\ (k <= cap)%nat.
Proof.
  induction cap as [|c IH]; intros f l k rest H; cbn [span_same] in H.
  - apply pair_equal_spec in H. destruct H as [<- <-]. split; [reflexivity|lia].
  - destruct l as [|a r]; [apply pair_equal_spec in H; destruct H as [<- <-]; split; [reflexivity|lia]|].
    destruct (a =? f) eqn:E.
    + destruct (span_same c f r) as [k' rest'] eqn:S. apply pair_equal_spec in H. destruct H as [<- <-].
      destruct (IH f r k' rest' S) as [-> L]. apply Z.eqb_eq in E. subst a. split; [reflexivity|lia].
    + apply pair_equal_spec in H. destruct H as [<- <-]. split; [reflexivity|lia].
Qed.

Definition flagok (f : Z) : Prop := 0 <= f < 256 /\ Z.land f 8 = 0.

Lemma raw_repeat w f m : raw_of w f -> Forall2 raw_of (repeat w m) (repeat f m).
Proof. intros H. induction m; cbn; constructor; assumption. Qed.

Lemma lor8 f : Z.land f 8 = 0 -> Z.land (Z.lor f 8) 8 = 8.
Proof. intros H. rewrite Z.land_lor_distr_l, H. reflexivity. Qed.

Lemma read_flags_rle : forall fu fs, (length fs <= fu)%nat -> Forall flagok fs -> fs <> [] ->
  exists k, (k <= length (rle fu fs))%nat /\
  forall F rest n acc, n = (length acc + length fs)%nat ->
    exists raw, read_flags (k + S F) n (rle fu fs ++ rest) acc = Ok (acc ++ raw, rest) /\ Forall2 raw_of raw fs.
Proof.
  induction fu as [|fu IH]; intros fs Hl Hok Hne; [destruct fs; [contradiction|cbn in Hl; lia]|].
  destruct fs as [|f r]; [contradiction|]. cbn [rle].
  destruct (span_same 255 f r) as [k0 rest'] eqn:SP.
  destruct (span_same_spec 255 f r k0 rest' SP) as [Er Lk].
  pose proof (Forall_inv Hok) as [Hf1 Hf2]. pose proof (Forall_inv_tail Hok) as Hokr.
  assert (Hok': Forall flagok rest') by (rewrite Er in Hokr; apply Forall_app in Hokr; tauto).
  assert (Lr: length r = (k0 + length rest')%nat) by (rewrite Er at 1; rewrite app_length, repeat_length; reflexivity).
  destruct k0 as [|[|k2]].
  - (* a single flag *)
    destruct rest' as [|g rr] eqn:RR.
    + exists 1%nat. split; [cbn; lia|]. intros F rest n acc Hn. exists [f]. split; [|rewrite Er; cbn [repeat app]; constructor; [left; reflexivity|constructor]].
      rewrite Er in Hn. cbn [repeat app length] in Hn. cbn [plus app read_flags rle]. 
      assert (rle fu [] = []) by (destruct fu; reflexivity). rewrite H. cbn [app].
      unfold flagRepeat. rewrite Hf2. cbn [Z.eqb bind repeat]. rewrite app_length. cbn [length].
      replace (n <=? length acc + 1)%nat with true by (symmetry; apply Nat.leb_le; lia).
      replace (Nat.eqb (length acc + 1) n) with true by (symmetry; apply Nat.eqb_eq; lia). reflexivity.
    + destruct (IH (g :: rr) ltac:(cbn [length] in *; lia) Hok' ltac:(discriminate)) as [k1 [Hk1 Hd1]].
      exists (S k1). split; [cbn [app length]; lia|]. intros F rest n acc Hn.
      rewrite Er in Hn. cbn [repeat app length] in Hn.
      destruct (Hd1 F rest n (acc ++ [f]) ltac:(rewrite app_length; cbn [length]; lia)) as [raw1 [D1 R1]].
      exists (f :: raw1). split; [|rewrite Er; cbn [repeat app]; constructor; [left; reflexivity|exact R1]].
      cbn [plus app read_flags]. unfold flagRepeat. rewrite Hf2. cbn [Z.eqb bind repeat]. rewrite app_length. cbn [length].
      replace (n <=? length acc + 1)%nat with false by (symmetry; apply Nat.leb_gt; lia).
      rewrite D1. rewrite <- app_assoc. reflexivity.
  - (* two equal flags are written twice *)
    destruct rest' as [|g rr] eqn:RR.
    + exists 2%nat. split; [cbn; lia|]. intros F rest n acc Hn. exists [f; f]. split; [|rewrite Er; cbn; repeat constructor; left; reflexivity].
      rewrite Er in Hn. cbn [repeat app length] in Hn.
      assert (rle fu [] = []) by (destruct fu; reflexivity). rewrite H. cbn [plus app read_flags].
      unfold flagRepeat. rewrite Hf2. cbn [Z.eqb bind repeat]. rewrite app_length. cbn [length].
      replace (n <=? length acc + 1)%nat with false by (symmetry; apply Nat.leb_gt; lia).
      unfold flagRepeat. rewrite Hf2. cbn [Z.eqb bind repeat]. rewrite !app_length. cbn [length].
      replace (n <=? length acc + 1 + 1)%nat with true by (symmetry; apply Nat.leb_le; lia).
      replace (Nat.eqb (length acc + 1 + 1) n) with true by (symmetry; apply Nat.eqb_eq; lia). rewrite <- app_assoc. reflexivity.
    + destruct (IH (g :: rr) ltac:(cbn [length] in *; lia) Hok' ltac:(discriminate)) as [k1 [Hk1 Hd1]].
      exists (S (S k1)). split; [cbn [app length]; lia|]. intros F rest n acc Hn.
      rewrite Er in Hn. cbn [repeat app length] in Hn.
      destruct (Hd1 F rest n ((acc ++ [f]) ++ [f]) ltac:(rewrite !app_length; cbn [length]; lia)) as [raw1 [D1 R1]].
      exists (f :: f :: raw1). split; [|rewrite Er; cbn [repeat app]; constructor; [left; reflexivity|constructor; [left; reflexivity|exact R1]]].
      cbn [plus app read_flags]. unfold flagRepeat. rewrite Hf2. cbn [Z.eqb bind repeat]. rewrite app_length. cbn [length].
      replace (n <=? length acc + 1)%nat with false by (symmetry; apply Nat.leb_gt; lia).
      unfold flagRepeat. rewrite Hf2. cbn [Z.eqb bind repeat]. rewrite !app_length. cbn [length].
      replace (n <=? length acc + 1 + 1)%nat with false by (symmetry; apply Nat.leb_gt; lia).
      rewrite D1. rewrite <- !app_assoc. reflexivity.
  - (* three or more: flag | repeat, count *)
    set (k0 := S (S k2)) in *.
    assert (C: Z.to_nat (Z.of_nat k0) = k0) by lia.
    destruct rest' as [|g rr] eqn:RR.
    + exists 1%nat. split; [cbn; lia|]. intros F rest n acc Hn. exists (repeat (Z.lor f 8) (S k0)).
      split; [|rewrite Er, app_nil_r; apply (raw_repeat _ _ (S k0)); right; reflexivity].
      rewrite Er in Hn. rewrite app_nil_r in Hn. cbn [length] in Hn. rewrite repeat_length in Hn.
      assert (rle fu [] = []) by (destruct fu; reflexivity). rewrite H. cbn [plus app read_flags]. unfold flagRepeat.
      rewrite (lor8 f Hf2). cbn [Z.eqb bind]. rewrite C. rewrite app_length, repeat_length.
      replace (n <=? length acc + S k0)%nat with true by (symmetry; apply Nat.leb_le; lia).
      replace (Nat.eqb (length acc + S k0) n) with true by (symmetry; apply Nat.eqb_eq; lia). reflexivity.
    + destruct (IH (g :: rr) ltac:(cbn [length] in *; lia) Hok' ltac:(discriminate)) as [k1 [Hk1 Hd1]].
      exists (S k1). split; [cbn [app length]; lia|]. intros F rest n acc Hn.
      rewrite Er in Hn. cbn [length] in Hn. rewrite app_length, repeat_length in Hn. cbn [length] in Hn.
      destruct (Hd1 F rest n (acc ++ repeat (Z.lor f 8) (S k0)) ltac:(rewrite app_length, repeat_length; cbn [length]; lia)) as [raw1 [D1 R1]].
      exists (repeat (Z.lor f 8) (S k0) ++ raw1).
      split; [|rewrite Er; change (f :: repeat f k0 ++ g :: rr) with (repeat f (S k0) ++ g :: rr); apply Forall2_app; [apply raw_repeat; right; reflexivity|exact R1]].
      cbn [plus app read_flags]. unfold flagRepeat. rewrite (lor8 f Hf2). cbn [Z.eqb bind]. rewrite C. rewrite app_length, repeat_length.
      replace (n <=? length acc + S k0)%nat with false by (symmetry; apply Nat.leb_gt; lia).
      rewrite D1. rewrite <- app_assoc. reflexivity.
Qed.

Lemma combine_map3 (ps : list pt) :
  combine (map fst ps) (combine (map (fun p : pt => fst (snd p)) ps) (map (fun p : pt => snd (snd p)) ps)) = ps.
Proof. induction ps as [|[f [x y]] r IH]; [reflexivity|]. cbn [map combine fst snd]. rewrite IH. reflexivity. Qed.

(* THE ROUND TRIP: the flag/x/y streams written for any non-empty list of points (flags restricted to the bits the table keeps,
   coordinate deltas in int16) read back as the same points; bytes that follow are left untouched *)
Theorem glyf_points_roundtrip ps bytes tail : ps <> [] -> Forall (fun p : pt => keepable (fst p)) ps ->
  compileDeltasGreedy ps = Ok bytes -> decompileCoordinates (length ps) (bytes ++ tail) = Ok (ps, tail).
Proof.
  intros NE K H. unfold compileDeltasGreedy in H.
  destruct (enc_points ps) as [[[fs xs] ys]|e] eqn:E; [|discriminate]. cbn [bind] in H. apply Ok_inj in H. subst bytes.
  destruct (decode_streams ps fs xs ys E K fs) as [_ [_ [_ [FO FL]]]].
  { clear. induction fs; constructor; [left; reflexivity|assumption]. }
  assert (FNE: fs <> []) by (destruct fs; [destruct ps; [contradiction|cbn in FL; lia]|discriminate]).
  destruct (read_flags_rle (length fs) fs (le_n _) FO FNE) as [k [Hk Hd]].
  unfold decompileCoordinates.
  remember (length ((rle (length fs) fs ++ xs ++ ys) ++ tail)) as L eqn:HL.
  assert (LD: (k <= L)%nat) by (subst L; rewrite !app_length; lia).
  destruct (Hd (L - k)%nat (xs ++ ys ++ tail) (length ps) [] ltac:(cbn [length]; lia)) as [raw [D R]].
  replace (S L) with (k + S (L - k))%nat by lia.
  rewrite <- !app_assoc. rewrite D. cbn [bind app].
  destruct (decode_streams ps fs xs ys E K raw R) as [DX [DY [DM _]]].
  rewrite DX. cbn [bind]. rewrite DY. cbn [bind]. rewrite DM. rewrite combine_map3. reflexivity.
Qed.
