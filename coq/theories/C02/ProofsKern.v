(* C02/ProofsKern.v — kern format 0: the compiled subtable decodes to the same pairs, in glyph-ID order *)
From Coq Require Import ZArith List Bool Lia Permutation.
From FV Require Import Base.Ser Base.Res Base.BE C04.Model C02.ModelKern.
Import ListNotations.
Open Scope Z_scope.

Definition key (t : triple) : Z * Z := (fst (fst t), snd (fst t)).

Lemma insert3_perm p l : Permutation (insert3 p l) (p :: l).
Proof. induction l as [|q r IH]; cbn; [reflexivity|]. destruct (t_le p q); [reflexivity|]. rewrite IH. apply perm_swap. Qed.
Lemma sort3_perm l : Permutation (sort3 l) l.
Proof. unfold sort3. induction l as [|p r IH]; cbn; [reflexivity|]. rewrite insert3_perm. constructor. exact IH. Qed.

Lemma range_mod16 v : u16b v = true -> v mod 2 ^ (8 * Z.of_nat 2) = v.
Proof. unfold u16b. intros H. apply andb_true_iff in H. destruct H as [A B]. apply Z.leb_le in A. apply Z.ltb_lt in B. apply Z.mod_small. change (2 ^ (8 * Z.of_nat 2)) with 65536. lia. Qed.
Lemma range_mod8 v : u8b v = true -> v mod 2 ^ (8 * Z.of_nat 1) = v.
Proof. unfold u8b. intros H. apply andb_true_iff in H. destruct H as [A B]. apply Z.leb_le in A. apply Z.ltb_lt in B. apply Z.mod_small. change (2 ^ (8 * Z.of_nat 1)) with 256. lia. Qed.
Lemma range_mod32 v : u32b v = true -> v mod 2 ^ (8 * Z.of_nat 4) = v.
Proof. unfold u32b. intros H. apply andb_true_iff in H. destruct H as [A B]. apply Z.leb_le in A. apply Z.ltb_lt in B. apply Z.mod_small. change (2 ^ (8 * Z.of_nat 4)) with 4294967296. lia. Qed.
Lemma signed16 v : i16b v = true -> to_signed 16 (v mod 2 ^ (8 * Z.of_nat 2)) = v.
Proof.
  unfold i16b. intros H. apply andb_true_iff in H. destruct H as [A B]. apply Z.leb_le in A. apply Z.ltb_lt in B.
  change (2 ^ (8 * Z.of_nat 2)) with (2 ^ 16). apply to_signed_mod; [lia|]. change (2 ^ (16 - 1)) with 32768. lia.
Qed.

Definition put (d : list triple) (t : triple) : list triple := let '(l, r, v) := t in dict3_set l r v d.

Lemma read_pack ts : forall acc rest, forallb triple_ok ts = true ->
  read_pairs (length ts) (flat_map pack_triple ts ++ rest) acc = Ok (fold_left put ts acc).
Proof.
  induction ts as [|[[l r] v] tr IH]; intros acc rest Hok; [reflexivity|].
  cbn [forallb] in Hok. apply andb_true_iff in Hok. destruct Hok as [Ht Hr].
  unfold triple_ok in Ht. apply andb_true_iff in Ht. destruct Ht as [Ht Hv]. apply andb_true_iff in Ht. destruct Ht as [Hl Hrr].
  cbn [length read_pairs flat_map pack_triple]. rewrite <- !app_assoc.
  rewrite take_pack, (range_mod16 l Hl). rewrite take_pack, (range_mod16 r Hrr). rewrite take_pack, (signed16 v Hv).
  rewrite IH by exact Hr. reflexivity.
Qed.

Lemma dict3_set_fresh l r v d : (forall t, In t d -> key t <> (l, r)) -> dict3_set l r v d = d ++ [(l, r, v)].
Proof.
  induction d as [|[[l' r'] v'] rest IH]; intros H; cbn; [reflexivity|].
  destruct ((l =? l') && (r =? r')) eqn:E.
  - exfalso. apply andb_true_iff in E. destruct E as [A B]. apply Z.eqb_eq in A, B. subst. apply (H (l', r', v')); [left; reflexivity | reflexivity].
  - rewrite IH; [reflexivity|]. intros t Ht. apply H. right. exact Ht.
Qed.
Lemma fold_put_fresh ts : forall acc, NoDup (map key (acc ++ ts)) -> fold_left put ts acc = acc ++ ts.
Proof.
  induction ts as [|[[l r] v] tr IH]; intros acc Hnd; cbn [fold_left]; [rewrite app_nil_r; reflexivity|].
  cbn [put]. rewrite dict3_set_fresh.
  - rewrite IH; [rewrite <- app_assoc; reflexivity|]. rewrite <- app_assoc. exact Hnd.
  - intros t Ht E. rewrite map_app in Hnd. cbn [map] in Hnd. apply NoDup_remove_2 in Hnd. apply Hnd.
    apply in_or_app. left. replace (key (l, r, v)) with (key t) by (rewrite E; reflexivity). apply in_map. exact Ht.
Qed.

Lemma flat_len ts : length (flat_map pack_triple ts) = (6 * length ts)%nat.
Proof. induction ts as [|[[l r] v] tr IH]; [reflexivity|]. cbn [flat_map pack_triple]. rewrite !app_length, !pack_be_length, IH. cbn [length]. lia. Qed.

Theorem kern0_roundtrip_match apple coverage ti pairs : NoDup (map key pairs) -> Z.of_nat (length pairs) <= 65535 ->
  match kern0_compile apple coverage ti pairs with
  | Ok bytes => kern0_decompile apple bytes = Ok (coverage, (if apple then Some ti else None), sort3 pairs)
  | Err _ => True
  end.
Proof.
  intros Hnd Hlen. unfold kern0_compile.
  assert (Hn : Z.min (Z.of_nat (length pairs)) 65535 = Z.of_nat (length pairs)) by lia. rewrite Hn.
  destruct (getSearchRange (Z.of_nat (length pairs)) 6) as [[sr es] rs].
  set (sorted := sort3 pairs).
  assert (Hslen : length sorted = length pairs) by (apply Permutation_length, sort3_perm).
  assert (Hsnd : NoDup (map key ([] ++ sorted))).
  { cbn [app]. apply (Permutation_NoDup (l := map key pairs)); [apply Permutation_map; symmetry; apply sort3_perm | exact Hnd]. }
  destruct (forallb triple_ok sorted) eqn:Hok; cbn [negb]; [|exact I].
  assert (Hcnt : u16b (Z.of_nat (length pairs)) = true) by (unfold u16b; apply andb_true_iff; split; [apply Z.leb_le | apply Z.ltb_lt]; lia).
  assert (Hbody : forall cov tio, 
    (let body := fun (coverage0 : Z) (ti0 : option Z) (fmt : Z) (d : list Z) =>
       if negb (fmt =? 0) then Err AssertionError
       else match take_be 2 d with
            | Some (nPairs, d1) => match take_be 2 d1 with
              | Some (_, d2) => match take_be 2 d2 with
                | Some (_, d3) => match take_be 2 d3 with
                  | Some (_, d4) => match read_pairs (Z.to_nat nPairs) d4 [] with Ok ps => Ok (coverage0, ti0, ps) | Err e => Err e end
                  | None => Err StructError end
                | None => Err StructError end
              | None => Err StructError end
            | None => Err StructError end in
     body cov tio 0 (pack_be 2 (Z.of_nat (length pairs)) ++ pack_be 2 (Z.land sr 65535) ++ pack_be 2 (Z.min es 65535) ++ pack_be 2 (Z.min rs 65535) ++ flat_map pack_triple sorted))
    = Ok (cov, tio, sorted)).
  { intros cov tio. cbv zeta. cbn [Z.eqb negb]. rewrite take_pack, (range_mod16 _ Hcnt). rewrite !take_pack.
    rewrite Nat2Z.id, <- Hslen. rewrite <- (app_nil_r (flat_map pack_triple sorted)). rewrite read_pack by exact Hok.
    rewrite fold_put_fresh by exact Hsnd. reflexivity. }
  destruct apple.
  - match goal with |- context [if ?c then _ else _] => destruct c eqn:Hc end; [|exact I].
    apply andb_true_iff in Hc. destruct Hc as [Hc Hti]. apply andb_true_iff in Hc. destruct Hc as [Hl Hcov].
    unfold kern0_decompile. rewrite <- ?app_assoc.
    rewrite take_pack. rewrite take_pack, (range_mod8 _ Hcov). rewrite take_pack. rewrite take_pack, (range_mod16 _ Hti).
    change (0 mod 2 ^ (8 * Z.of_nat 1)) with 0. apply Hbody.
  - destruct (u8b coverage) eqn:Hcov; [|exact I].
    unfold kern0_decompile. rewrite <- ?app_assoc.
    rewrite take_pack. rewrite take_pack. rewrite take_pack. rewrite take_pack, (range_mod8 _ Hcov).
    change (0 mod 2 ^ (8 * Z.of_nat 2)) with 0. change (0 mod 2 ^ (8 * Z.of_nat 1)) with 0. cbn [Z.eqb negb]. apply Hbody.
Qed.

Theorem kern0_roundtrip apple coverage ti pairs bytes : NoDup (map key pairs) -> Z.of_nat (length pairs) <= 65535 ->
  kern0_compile apple coverage ti pairs = Ok bytes ->
  kern0_decompile apple bytes = Ok (coverage, (if apple then Some ti else None), sort3 pairs) /\ Permutation (sort3 pairs) pairs.
Proof.
  intros Hnd Hlen Hc. split; [|apply sort3_perm].
  pose proof (kern0_roundtrip_match apple coverage ti pairs Hnd Hlen) as L. rewrite Hc in L. exact L.
Qed.
