(* C02/ModelCmap.v — ttLib/tables/_c_m_a_p.py: cmap_format_12_or_13 (1185-1332), cmap_format_12 / cmap_format_13 (1370-1395),
   _make_map (14-22).  The mapping is (character code -> glyph ID); glyph names are resolved by the font and not modelled. *)
From Coq Require Import ZArith List Bool.
From FV Require Import Base.Ser Base.Res Base.BE.
Import ListNotations.
Open Scope Z_scope.

Definition in_u16 (v : Z) : bool := (0 <=? v) && (v <? 65536).
Definition in_u32 (v : Z) : bool := (0 <=? v) && (v <? 4294967296).

(* charCodes.sort() *)
Fixpoint insert_code (p : Z * Z) (l : list (Z * Z)) : list (Z * Z) :=
  match l with [] => [p] | q :: r => if fst p <=? fst q then p :: q :: r else q :: insert_code p r end.
Fixpoint sort_codes (l : list (Z * Z)) : list (Z * Z) :=
  match l with [] => [] | p :: r => insert_code p (sort_codes r) end.

(* _IsInSameRun: format 12 steps the glyph ID with the code (step 1), format 13 keeps it (step 0) *)
Definition same_run (step g lastG c lastC : Z) : bool := (g =? lastG + step) && (c =? lastC + 1).

Definition group := (Z * Z * Z)%type.       (* startCharCode, endCharCode, startGlyphID *)
Fixpoint group_loop (step : Z) (l : list (Z * Z)) (start startG lastC lastG : Z) : list group :=
  match l with
  | [] => [(start, lastC, startG)]
  | (c, g) :: r =>
    if same_run step g lastG c lastC then group_loop step r start startG c g
    else (start, lastC, startG) :: group_loop step r c g c g
  end.
Definition compile_groups (step : Z) (sorted : list (Z * Z)) : list group :=
  match sorted with
  | [] => []
  | (c0, g0) :: _ => group_loop step sorted c0 g0 (c0 - 1) (g0 - step)
  end.

Definition pack_group (g : group) : list Z := let '(s, e, gid) := g in pack_be 4 s ++ pack_be 4 e ++ pack_be 4 gid.
Definition group_ok (g : group) : bool := let '(s, e, gid) := g in in_u32 s && in_u32 e && in_u32 gid.

(* compile (self.data is None): header ">HHLLL" + groups; struct.error when a field does not fit *)
Definition cmap12_compile (format step reserved language : Z) (m : list (Z * Z)) : Res (list Z) :=
  let groups := compile_groups step (sort_codes m) in
  let n := Z.of_nat (length groups) in
  if negb (in_u16 format && in_u16 reserved && in_u32 language && forallb group_ok groups && in_u32 (16 + 12 * n)) then Err StructError
  else Ok (pack_be 2 format ++ pack_be 2 reserved ++ pack_be 4 (16 + 12 * n) ++ pack_be 4 language ++ pack_be 4 n ++ flat_map pack_group groups).

(* ---- decompile *)
Fixpoint seqZ (s : Z) (n : nat) : list Z := match n with O => [] | S k => s :: seqZ (s + 1) k end.
Definition group_gids (step : Z) (g : Z) (n : nat) : list Z := if step =? 0 then repeat g n else seqZ g n.
Definition expand_group (step : Z) (g : group) : list (Z * Z) :=
  let '(s, e, gid) := g in
  let n := Z.to_nat (1 + e - s) in combine (seqZ s n) (group_gids step gid n).

(* _make_map: a dict; glyph 0 is skipped *)
Fixpoint dict_set (k v : Z) (d : list (Z * Z)) : list (Z * Z) :=
  match d with [] => [(k, v)] | (k', v') :: r => if k =? k' then (k', v) :: r else (k', v') :: dict_set k v r end.
Definition make_map (pairs : list (Z * Z)) : list (Z * Z) :=
  fold_left (fun d kv => if snd kv =? 0 then d else dict_set (fst kv) (snd kv) d) pairs [].

Fixpoint read_groups (n : nat) (bs : list Z) : option (list group) :=
  match n with
  | O => Some []
  | S k => match take_be 4 bs with
           | Some (s, r1) => match take_be 4 r1 with
             | Some (e, r2) => match take_be 4 r2 with
               | Some (g, r3) => match read_groups k r3 with Some gs => Some ((s, e, g) :: gs) | None => None end
               | None => None end
             | None => None end
           | None => None end
  end.

(* decompileHeader + decompile: (format, reserved, language, mapping) *)
Definition cmap12_decompile (step : Z) (data : list Z) : Res (Z * Z * Z * list (Z * Z)) :=
  match take_be 2 data with
  | Some (format, r1) => match take_be 2 r1 with
    | Some (reserved, r2) => match take_be 4 r2 with
      | Some (len, r3) => match take_be 4 r3 with
        | Some (language, r4) => match take_be 4 r4 with
          | Some (nGroups, body) =>
            if negb (Z.of_nat (length data) =? len) then Err LibError
            else if negb (len =? 16 + nGroups * 12) then Err LibError
            else match read_groups (Z.to_nat nGroups) body with
                 | Some gs => Ok (format, reserved, language, make_map (flat_map (expand_group step) gs))
                 | None => Err LibError
                 end
          | None => Err StructError end
        | None => Err StructError end
      | None => Err StructError end
    | None => Err StructError end
  | None => Err StructError end.
