(* C02/ModelKern.v — ttLib/tables/_k_e_r_n.py: KernTable_format_0.compile / decompile (113-215), the OpenType (version 0) and the Apple
   (version 1.0) subtable headers.  Pairs are (left glyph ID, right glyph ID, value); names are resolved by the font. *)
From Coq Require Import ZArith List Bool.
From FV Require Import Base.Ser Base.Res Base.BE C04.Model.
Import ListNotations.
Open Scope Z_scope.

Definition triple := (Z * Z * Z)%type.
Definition t_le (a b : triple) : bool :=
  let '(l1, r1, v1) := a in let '(l2, r2, v2) := b in
  (l1 <? l2) || ((l1 =? l2) && ((r1 <? r2) || ((r1 =? r2) && (v1 <=? v2)))).
Fixpoint insert3 (p : triple) (l : list triple) : list triple :=
  match l with [] => [p] | q :: r => if t_le p q then p :: q :: r else q :: insert3 p r end.
Definition sort3 (l : list triple) : list triple := fold_right insert3 [] l.

Definition u8b (v : Z) : bool := (0 <=? v) && (v <? 256).
Definition u16b (v : Z) : bool := (0 <=? v) && (v <? 65536).
Definition u32b (v : Z) : bool := (0 <=? v) && (v <? 4294967296).
Definition i16b (v : Z) : bool := (-32768 <=? v) && (v <? 32768).
Definition triple_ok (t : triple) : bool := let '(l, r, v) := t in u16b l && u16b r && i16b v.
Definition pack_triple (t : triple) : list Z := let '(l, r, v) := t in pack_be 2 l ++ pack_be 2 r ++ pack_be 2 v.

(* compile: struct.error when a field does not fit; more than 65535 pairs are all written, the count field saturates *)
Definition kern0_compile (apple : bool) (coverage tupleIndex : Z) (pairs : list triple) : Res (list Z) :=
  let n := Z.min (Z.of_nat (length pairs)) 65535 in
  let '(sr, es, rs) := getSearchRange n 6 in
  let sorted := sort3 pairs in
  let data := pack_be 2 n ++ pack_be 2 (Z.land sr 65535) ++ pack_be 2 (Z.min es 65535) ++ pack_be 2 (Z.min rs 65535) ++ flat_map pack_triple sorted in
  if negb (forallb triple_ok sorted) then Err StructError
  else if apple then
    let len := Z.of_nat (length data) + 8 in
    if u32b len && u8b coverage && u16b tupleIndex then Ok (pack_be 4 len ++ pack_be 1 coverage ++ pack_be 1 0 ++ pack_be 2 tupleIndex ++ data)
    else Err StructError
  else
    let len0 := Z.of_nat (length data) + 6 in
    let len := if 65536 <=? len0 then Z.land len0 65535 else len0 in
    if u8b coverage then Ok (pack_be 2 0 ++ pack_be 2 len ++ pack_be 1 0 ++ pack_be 1 coverage ++ data)
    else Err StructError.

Fixpoint dict3_set (l r v : Z) (d : list triple) : list triple :=
  match d with
  | [] => [(l, r, v)]
  | (l', r', v') :: rest => if (l =? l') && (r =? r') then (l', r', v) :: rest else (l', r', v') :: dict3_set l r v rest
  end.
Fixpoint read_pairs (n : nat) (bs : list Z) (acc : list triple) : Res (list triple) :=
  match n with
  | O => Ok acc
  | S k =>
    match take_be 2 bs with
    | Some (l, b1) => match take_be 2 b1 with
      | Some (r, b2) => match take_be 2 b2 with
        | Some (v, b3) => read_pairs k b3 (dict3_set l r (to_signed 16 v) acc)
        | None => Err IndexError end
      | None => Err IndexError end
    | None => Err IndexError end
  end.

(* decompile: (coverage, tupleIndex (Apple only), pairs as the dict is filled) *)
Definition kern0_decompile (apple : bool) (data : list Z) : Res (Z * option Z * list triple) :=
  let body (coverage : Z) (ti : option Z) (fmt : Z) (d : list Z) :=
    if negb (fmt =? 0) then Err AssertionError
    else match take_be 2 d with
         | Some (nPairs, d1) =>
           match take_be 2 d1 with
           | Some (_, d2) => match take_be 2 d2 with
             | Some (_, d3) => match take_be 2 d3 with
               | Some (_, d4) => match read_pairs (Z.to_nat nPairs) d4 [] with Ok ps => Ok (coverage, ti, ps) | Err e => Err e end
               | None => Err StructError end
             | None => Err StructError end
           | None => Err StructError end
         | None => Err StructError
         end in
  if apple then
    match take_be 4 data with
    | Some (_, d1) => match take_be 1 d1 with
      | Some (coverage, d2) => match take_be 1 d2 with
        | Some (fmt, d3) => match take_be 2 d3 with
          | Some (ti, d4) => body coverage (Some ti) fmt d4
          | None => Err StructError end
        | None => Err StructError end
      | None => Err StructError end
    | None => Err StructError end
  else
    match take_be 2 data with
    | Some (version, d1) => match take_be 2 d1 with
      | Some (_, d2) => match take_be 1 d2 with
        | Some (fmt, d3) => match take_be 1 d3 with
          | Some (coverage, d4) => if negb (version =? 0) then Err LibError else body coverage None fmt d4
          | None => Err StructError end
        | None => Err StructError end
      | None => Err StructError end
    | None => Err StructError end.
