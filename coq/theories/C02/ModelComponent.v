(* C02/ModelComponent.v — ttLib/tables/_g_l_y_f.py: GlyphComponent.compile / decompile (1796-1900).  The 2x2 matrix is carried as
   F2Dot14 integers (fl2fi(v, 14) of the floats the library holds; fi2fl on the way back). *)
From Coq Require Import ZArith List Bool.
From FV Require Import Base.Ser Base.Res Base.BE.
Import ListNotations.
Open Scope Z_scope.

Definition ARG_1_AND_2_ARE_WORDS := 1.   Definition ARGS_ARE_XY_VALUES := 2.   Definition ROUND_XY_TO_GRID := 4.
Definition WE_HAVE_A_SCALE := 8.         Definition NON_OVERLAPPING := 16.      Definition MORE_COMPONENTS := 32.
Definition WE_HAVE_AN_X_AND_Y_SCALE := 64.  Definition WE_HAVE_A_TWO_BY_TWO := 128.  Definition WE_HAVE_INSTRUCTIONS := 256.
Definition USE_MY_METRICS := 512.        Definition OVERLAP_COMPOUND := 1024.   Definition SCALED_COMPONENT_OFFSET := 2048.
Definition UNSCALED_COMPONENT_OFFSET := 4096.
Definition KEEP := 7700.    (* ROUND_XY_TO_GRID | USE_MY_METRICS | SCALED | UNSCALED | NON_OVERLAPPING | OVERLAP_COMPOUND *)

Inductive cargs := XY (x y : Z) | Points (first second : Z).
Record component := mkComp { cflags : Z; cgid : Z; args : cargs; transform : option (Z * Z * Z * Z) }.

Definition in_i8 (v : Z) : bool := (-128 <=? v) && (v <=? 127).
Definition in_u8 (v : Z) : bool := (0 <=? v) && (v <=? 255).
Definition in_i16 (v : Z) : bool := (-32768 <=? v) && (v <? 32768).
Definition in_u16 (v : Z) : bool := (0 <=? v) && (v <? 65536).
Definition bit (b : bool) (v : Z) : Z := if b then v else 0.

(* compile(more, haveInstructions): struct.error when a value does not fit its field *)
Definition compile (more instr : bool) (c : component) : Res (list Z) :=
  let base := Z.land (cflags c) KEEP + bit more MORE_COMPONENTS + bit instr WE_HAVE_INSTRUCTIONS in
  let '(aflags, abytes, aok) :=
    match args c with
    | Points f s =>
      if in_u8 f && in_u8 s then (0, [f; s], true)
      else (ARG_1_AND_2_ARE_WORDS, pack_be 2 f ++ pack_be 2 s, in_u16 f && in_u16 s)
    | XY x y =>
      if in_i8 x && in_i8 y then (ARGS_ARE_XY_VALUES, pack_be 1 x ++ pack_be 1 y, true)
      else (ARGS_ARE_XY_VALUES + ARG_1_AND_2_ARE_WORDS, pack_be 2 x ++ pack_be 2 y, in_i16 x && in_i16 y)
    end in
  let '(tflags, tbytes, tok) :=
    match transform c with
    | None => (0, [], true)
    | Some (xx, xy, yx, yy) =>
      if negb (xy =? 0) || negb (yx =? 0) then
        (WE_HAVE_A_TWO_BY_TWO, pack_be 2 xx ++ pack_be 2 xy ++ pack_be 2 yx ++ pack_be 2 yy, in_i16 xx && in_i16 xy && in_i16 yx && in_i16 yy)
      else if negb (xx =? yy) then (WE_HAVE_AN_X_AND_Y_SCALE, pack_be 2 xx ++ pack_be 2 yy, in_i16 xx && in_i16 yy)
      else (WE_HAVE_A_SCALE, pack_be 2 xx, in_i16 xx)
    end in
  if aok && tok && in_u16 (cgid c) then Ok (pack_be 2 (base + aflags + tflags) ++ pack_be 2 (cgid c) ++ abytes ++ tbytes)
  else Err StructError.

Definition has (flags b : Z) : bool := negb (Z.land flags b =? 0).
Definition s8 (v : Z) : Z := to_signed 8 v.
Definition s16 (v : Z) : Z := to_signed 16 v.

(* decompile: (component, more, haveInstructions, remaining data); struct.error on short data *)
Definition decompile (data : list Z) : Res (component * bool * bool * list Z) :=
  match take_be 2 data with
  | None => Err StructError
  | Some (flags, d1) =>
    match take_be 2 d1 with
    | None => Err StructError
    | Some (gid, d2) =>
      let words := has flags ARG_1_AND_2_ARE_WORDS in
      let xy := has flags ARGS_ARE_XY_VALUES in
      let n := if words then 2%nat else 1%nat in
      match take_be n d2 with
      | None => Err StructError
      | Some (a, d3) =>
        match take_be n d3 with
        | None => Err StructError
        | Some (b, d4) =>
          let ar := if xy then (if words then XY (s16 a) (s16 b) else XY (s8 a) (s8 b)) else Points a b in
          let fin (t : option (Z * Z * Z * Z)) (rest : list Z) :=
            Ok (mkComp (Z.land flags KEEP) gid ar t, has flags MORE_COMPONENTS, has flags WE_HAVE_INSTRUCTIONS, rest) in
          if has flags WE_HAVE_A_SCALE then
            match take_be 2 d4 with Some (s, r) => fin (Some (s16 s, 0, 0, s16 s)) r | None => Err StructError end
          else if has flags WE_HAVE_AN_X_AND_Y_SCALE then
            match take_be 2 d4 with
            | Some (sx, r1) => match take_be 2 r1 with Some (sy, r) => fin (Some (s16 sx, 0, 0, s16 sy)) r | None => Err StructError end
            | None => Err StructError end
          else if has flags WE_HAVE_A_TWO_BY_TWO then
            match take_be 2 d4 with
            | Some (xx, r1) => match take_be 2 r1 with
              | Some (xy_, r2) => match take_be 2 r2 with
                | Some (yx, r3) => match take_be 2 r3 with
                  | Some (yy, r) => fin (Some (s16 xx, s16 xy_, s16 yx, s16 yy)) r
                  | None => Err StructError end
                | None => Err StructError end
              | None => Err StructError end
            | None => Err StructError end
          else fin None d4
        end
      end
    end
  end.
