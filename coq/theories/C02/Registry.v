From Coq Require Import ZArith List String Bool.
From FV Require Import Base.Ser Base.Res C02.Model C02.ModelGlyf.
From FV Require C02.ModelCmap C02.ModelComponent C02.ModelKern C02.ModelCmap6 C02.ModelCmap4.
From FV Require C02.ModelCmap0.
Import ListNotations.
Open Scope string_scope.
Definition cmap12_compile_t (hdr : Z * Z * Z * Z) (m : list (Z * Z)) : Res (list Z) :=
  let '(format, step, reserved, language) := hdr in ModelCmap.cmap12_compile format step reserved language m.
Global Instance De_cargs : De ModelComponent.cargs :=
  fun l => match l with
           | k :: r => match de r with
                       | Some ((a, b), r') => Some ((if (k =? 0)%Z then ModelComponent.XY a b else ModelComponent.Points a b), r')
                       | None => None end
           | [] => None end.
Global Instance Ser_cargs : Ser ModelComponent.cargs :=
  fun a => match a with ModelComponent.XY x y => 0%Z :: ser (x, y) | ModelComponent.Points f s => 1%Z :: ser (f, s) end.
Global Instance De_component : De ModelComponent.component :=
  fun l => match de l with Some ((((f, g), a), t), r) => Some (ModelComponent.mkComp f g a t, r) | None => None end.
Global Instance Ser_component : Ser ModelComponent.component :=
  fun c => ser (ModelComponent.cflags c, ModelComponent.cgid c, ModelComponent.args c, ModelComponent.transform c).
Definition reg : registry := [
  ("loca_compile", run1 loca_compile);
  ("loca_decompile", run2 loca_decompile);
  ("hmtx_compile", run1 hmtx_compile);
  ("hmtx_decompile", run3 hmtx_decompile);
  ("compileDeltasGreedy", run1 compileDeltasGreedy);
  ("decompileCoordinates", run2 decompileCoordinates);
  ("cmap12_compile", run2 cmap12_compile_t);
  ("cmap12_decompile", run2 ModelCmap.cmap12_decompile);
  ("component_compile", run3 ModelComponent.compile);
  ("component_decompile", run1 ModelComponent.decompile);
  ("kern0_compile", run4 ModelKern.kern0_compile);
  ("kern0_decompile", run2 ModelKern.kern0_decompile);
  ("cmap6_compile", run2 ModelCmap6.cmap6_compile);
  ("cmap6_decompile", run1 ModelCmap6.cmap6_decompile);
  ("cmap0_compile", run2 ModelCmap0.cmap0_compile);
  ("cmap0_decompile", run1 ModelCmap0.cmap0_decompile);
  ("cmap4_compile", run2 ModelCmap4.cmap4_compile);
  ("cmap4_decompile", run1 ModelCmap4.cmap4_decompile);
  ("splitRange", run3 (fun S E m => @Ok (list Z * list Z) (ModelCmap4.splitRange S E m)))
].
Definition fv_entry := dispatch reg.
