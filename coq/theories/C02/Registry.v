From Coq Require Import ZArith List String Bool.
From FV Require Import Base.Ser Base.Res C02.Model C02.ModelGlyf.
From FV Require C02.ModelCmap.
Import ListNotations.
Open Scope string_scope.
Definition cmap12_compile_t (hdr : Z * Z * Z * Z) (m : list (Z * Z)) : Res (list Z) :=
  let '(format, step, reserved, language) := hdr in ModelCmap.cmap12_compile format step reserved language m.
Definition reg : registry := [
  ("loca_compile", run1 loca_compile);
  ("loca_decompile", run2 loca_decompile);
  ("hmtx_compile", run1 hmtx_compile);
  ("hmtx_decompile", run3 hmtx_decompile);
  ("compileDeltasGreedy", run1 compileDeltasGreedy);
  ("decompileCoordinates", run2 decompileCoordinates);
  ("cmap12_compile", run2 cmap12_compile_t);
  ("cmap12_decompile", run2 ModelCmap.cmap12_decompile)
].
Definition fv_entry := dispatch reg.
