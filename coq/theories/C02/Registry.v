From Coq Require Import ZArith List String Bool.
From FV Require Import Base.Ser Base.Res C02.Model C02.ModelGlyf.
Import ListNotations.
Open Scope string_scope.
Definition reg : registry := [
  ("loca_compile", run1 loca_compile);
  ("loca_decompile", run2 loca_decompile);
  ("hmtx_compile", run1 hmtx_compile);
  ("hmtx_decompile", run3 hmtx_decompile);
  ("compileDeltasGreedy", run1 compileDeltasGreedy);
  ("decompileCoordinates", run2 decompileCoordinates)
].
Definition fv_entry := dispatch reg.
