(* C02/Props.v — property theorems only *)
From Coq Require Import ZArith List Bool.
From FV Require Import Base.Ser Base.Res Base.BE C02.Model C02.Proofs.
Import ListNotations.
Open Scope Z_scope.

Theorem hmtx_roundtrip : forall ms k data, ms <> [] -> Forall metric_ok ms ->
  hmtx_compile ms = Ok (k, data) -> hmtx_decompile (length ms) k data = Ok ms.
Proof. exact Proofs.hmtx_roundtrip. Qed.
Print Assumptions hmtx_roundtrip.

Theorem hmtx_count_minimal : forall ms, ms <> [] ->
  let k := number_of_metrics ms in
  (1 < k)%nat -> fst (nth (k - 2) ms (0, 0)) <> fst (last ms (0, 0)).
Proof. exact Proofs.hmtx_count_minimal. Qed.
Print Assumptions hmtx_count_minimal.

Theorem loca_roundtrip : forall locs fmt data, loca_compile locs = Ok (fmt, data) -> loca_decompile fmt data = locs.
Proof. exact Proofs.loca_roundtrip. Qed.
Print Assumptions loca_roundtrip.

Theorem loca_short_iff : forall locs fmt data, loca_compile locs = Ok (fmt, data) ->
  (fmt = 0 <-> (forall l, In l locs -> l < 131072 /\ l mod 2 = 0)).
Proof. exact Proofs.loca_short_iff. Qed.
Print Assumptions loca_short_iff.
