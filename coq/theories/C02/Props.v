(* C02/Props.v — property theorems only *)
From Coq Require Import ZArith List Bool.
From FV Require Import Base.Ser Base.Res Base.BE C02.Model C02.Proofs C02.ModelGlyf C02.ProofsGlyf.
Import ListNotations.
Open Scope Z_scope.

Theorem hmtx_roundtrip : forall ms k data, ms <> [] -> Forall metric_ok ms ->
  hmtx_compile ms = Ok (k, data) -> hmtx_decompile (length ms) k data = Ok ms.
Proof. exact Proofs.hmtx_roundtrip. Qed.
Print Assumptions hmtx_roundtrip.

Theorem hmtx_count_minimal : forall ms, ms <> [] ->
  let k := number_of_metrics ms in
  (1 < k)%nat -> fst (nth (k - 2) ms (0, 0)) <> fst (last ms (0, 0)).
Proof. exact Proofs.hmtx_count_minimal. Qed.
Print Assumptions hmtx_count_minimal.

Theorem loca_roundtrip : forall locs fmt data, loca_compile locs = Ok (fmt, data) -> loca_decompile fmt data = locs.
Proof. exact Proofs.loca_roundtrip. Qed.
Print Assumptions loca_roundtrip.

Theorem loca_short_iff : forall locs fmt data, loca_compile locs = Ok (fmt, data) ->
  (fmt = 0 <-> (forall l, In l locs -> l < 131072 /\ l mod 2 = 0)).
Proof. exact Proofs.loca_short_iff. Qed.
Print Assumptions loca_short_iff.

(* simple-glyph point data (glyf): the flag / x / y streams written for any non-empty list of points -- flags restricted to the bits the
   table keeps, coordinate deltas in int16; zero, short positive/negative and word forms; repeated flags written once, twice or as
   flag|repeat,count in runs of up to 256 -- read back as the same points, and the bytes that follow are left untouched *)
Theorem glyf_points_roundtrip : forall ps bytes tail, ps <> [] -> Forall (fun p : pt => keepable (fst p)) ps ->
  compileDeltasGreedy ps = Ok bytes -> decompileCoordinates (length ps) (bytes ++ tail) = Ok (ps, tail).
Proof. exact ProofsGlyf.glyf_points_roundtrip. Qed.
Print Assumptions glyf_points_roundtrip.
Example glyf_points_example :
  compileDeltasGreedy [(1, (0, 0)); (1, (5, -7)); (1, (5, -7)); (1, (5, -7)); (0, (300, 0)); (0, (-300, 255))]
  = Ok [49; 31; 2; 32; 36; 5; 5; 5; 1; 44; 254; 212; 7; 7; 7; 255].
Proof. vm_compute. reflexivity. Qed.

(* ---- cmap formats 12 (step 1) and 13 (step 0) (ModelCmap.v): sort, run detection, group records, header; decoding with its length
   checks, group expansion and the character map built from it (glyph 0 = not mapped) *)
From FV Require C02.ModelCmap C02.ProofsCmap.
Theorem cmap12_roundtrip : forall format step reserved language m bytes, step = 0 \/ step = 1 -> NoDup (map fst m) ->
  ModelCmap.cmap12_compile format step reserved language m = Ok bytes ->
  ModelCmap.cmap12_decompile step bytes = Ok (format, reserved, language, filter ProofsCmap.mapped (ModelCmap.sort_codes m)) /\
  Permutation.Permutation (ModelCmap.sort_codes m) m /\
  Sorted.StronglySorted (fun a b => fst a < fst b) (ModelCmap.sort_codes m).
Proof. exact ProofsCmap.cmap12_roundtrip. Qed.
Print Assumptions cmap12_roundtrip.

(* run-length grouping loses nothing, whatever the order of the pairs *)
Theorem cmap12_groups_expand : forall step l, step = 0 \/ step = 1 ->
  flat_map (ModelCmap.expand_group step) (ModelCmap.compile_groups step l) = l.
Proof. exact ProofsCmap.groups_expand. Qed.
Print Assumptions cmap12_groups_expand.

(* ---- a composite glyph's component record (ModelComponent.v: GlyphComponent.compile / decompile — argument widths, the three
   transform forms, the flag word) decodes to what was encoded and leaves the following bytes alone *)
From FV Require C02.ModelComponent C02.ProofsComponent.
Theorem component_roundtrip : forall more instr c bytes rest,
  Z.land (ModelComponent.cflags c) ModelComponent.KEEP = ModelComponent.cflags c ->
  ModelComponent.compile more instr c = Ok bytes ->
  ModelComponent.decompile (bytes ++ rest) = Ok (c, more, instr, rest).
Proof. exact ProofsComponent.component_roundtrip. Qed.
Print Assumptions component_roundtrip.

(* ---- kern format 0 (ModelKern.v: both subtable headers, the sorted pair records, the saturating pair count): the compiled subtable
   decodes to the same pairs in glyph-ID order, for any set of at most 65535 pairs that fit their fields *)
From FV Require C02.ModelKern C02.ProofsKern.
From FV Require C02.ModelCmap6 C02.ProofsCmap6.
From FV Require C02.ModelCmap4 C02.ProofsCmap4.
Theorem kern0_roundtrip : forall apple coverage ti pairs bytes,
  NoDup (map ProofsKern.key pairs) -> Z.of_nat (length pairs) <= 65535 ->
  ModelKern.kern0_compile apple coverage ti pairs = Ok bytes ->
  ModelKern.kern0_decompile apple bytes = Ok (coverage, (if apple then Some ti else None), ModelKern.sort3 pairs) /\
  Permutation.Permutation (ModelKern.sort3 pairs) pairs.
Proof. exact ProofsKern.kern0_roundtrip. Qed.
Print Assumptions kern0_roundtrip.

(* cmap format 6 (trimmed table mapping): a mapping given in increasing code order whose glyph IDs are not 0 (the ID compile writes
   into the holes of the code range and _make_map drops again) comes back unchanged, with its language, whenever compile succeeds
   (it refuses ranges of more than 32762 codes, codes and glyph IDs beyond 16 bits) *)
Theorem cmap6_roundtrip : forall language m,
  ProofsCmap6.sorted_from 0 m -> ProofsCmap6.gids_ok m ->
  match ModelCmap6.cmap6_compile language m with
  | Ok bytes => ModelCmap6.cmap6_decompile bytes = Ok (language, m)
  | Err _ => True
  end.
Proof. exact ProofsCmap6.cmap6_roundtrip. Qed.
Print Assumptions cmap6_roundtrip.

(* cmap format 4 (segment mapping to delta values), the format nearly every font carries: whatever segments splitRange decides on,
   a mapping given in increasing code order with glyph IDs 1..65535 comes back unchanged, with its language, whenever compile
   succeeds (it refuses tables whose length, range offsets or codes do not fit 16 bits) *)
Theorem cmap4_roundtrip : forall language m,
  ProofsCmap6.sorted_from 0 m -> ProofsCmap4.gid16 m ->
  match ModelCmap4.cmap4_compile language m with
  | Ok bytes => ModelCmap4.cmap4_decompile bytes = Ok (language, m)
  | Err _ => True
  end.
Proof. exact ProofsCmap4.cmap4_roundtrip. Qed.
Print Assumptions cmap4_roundtrip.

(* the segments compile builds (splitRange included) tile the codes of the mapping, in order *)
Theorem cmap4_segments_tile : forall m ss es, ModelCmap4.segments m = (ss, es) ->
  exists ss1 es1, ss = ss1 ++ [65535] /\ es = es1 ++ [65535] /\ length ss1 = length es1 /\
                  ProofsCmap4.ranges_codes ss1 es1 = map fst m.
Proof. exact ProofsCmap4.segments_tile. Qed.
Print Assumptions cmap4_segments_tile.

(* second-generation stability (C01's "reaches a fixed point") for cmap format 6, for ANY bytes the decoder accepts: decoding what
   was compiled from a decoded subtable gives that subtable again *)
Theorem cmap6_recompile_stable : forall data language m,
  Forall is_byte data -> ModelCmap6.cmap6_decompile data = Ok (language, m) ->
  match ModelCmap6.cmap6_compile language m with
  | Ok bytes => ModelCmap6.cmap6_decompile bytes = Ok (language, m)
  | Err _ => True
  end.
Proof. exact ProofsCmap6.cmap6_recompile_stable. Qed.
Print Assumptions cmap6_recompile_stable.

(* cmap format 0 (the byte encoding table: 256 one-byte glyph IDs) *)
From FV Require C02.ModelCmap0 C02.ProofsCmap0.
Theorem cmap0_roundtrip : forall language m,
  ProofsCmap6.sorted_from 0 m -> ProofsCmap6.gids_ok m ->
  match ModelCmap0.cmap0_compile language m with
  | Ok bytes => ModelCmap0.cmap0_decompile bytes = Ok (language, m)
  | Err _ => True
  end.
Proof. exact ProofsCmap0.cmap0_roundtrip. Qed.
Print Assumptions cmap0_roundtrip.

Theorem cmap0_recompile_stable : forall data language m,
  ModelCmap0.cmap0_decompile data = Ok (language, m) ->
  match ModelCmap0.cmap0_compile language m with
  | Ok bytes => ModelCmap0.cmap0_decompile bytes = Ok (language, m)
  | Err _ => True
  end.
Proof. exact ProofsCmap0.cmap0_recompile_stable. Qed.
Print Assumptions cmap0_recompile_stable.
