From Coq Require Import ZArith List String Bool.
From FV Require Import Base.Ser Base.Res C16.Registry.
Import ListNotations.
Open Scope string_scope.
(* the same data-driven instance of the save machine as C16 (one model, two properties) *)
Definition reg : registry := [ ("sim_save", run5 sim_save) ].
Definition fv_entry := dispatch reg.
