(* C01/Model.v — recompiling a font: the per-table codec laws and the pass-through of untouched
   tables (TTFont._save/_writeTable/getTableData ttLib/ttFont.py:402-427,1240-1287; DefaultTable). *)
From Coq Require Import ZArith List Bool.
From FV Require Import Base.Ser Base.Res C16.Model.
Import ListNotations.
Open Scope Z_scope.

Section Recompile.
  Variable content : Type.
  Variable reader : Z -> list Z.
  Variable dec : Z -> list Z -> content.
  Variable enc : Z -> content -> list Z.
  Variable sideloads : Z -> list Z.

  (* load every table, then save *)
  Definition load_all (tags : list Z) (ld : lstate content) : lstate content :=
    fold_right (access content reader dec) ld tags.
  Definition recompile (tags : list Z) : list (list Z) :=
    snd (save content reader dec enc sideloads (load_all tags (fun _ => None)) tags).

  (* the codec law a table module must satisfy for second-generation stability:
     decoding what was encoded from a decoded table gives that table again *)
  Definition lossless (t : Z) : Prop := forall b, dec t (enc t (dec t b)) = dec t b.
End Recompile.

(* DefaultTable: tables the library has no decoder for are kept as bytes *)
Definition default_dec (t : Z) (b : list Z) : list Z := b.
Definition default_enc (t : Z) (c : list Z) : list Z := c.
