(* C01/Props.v — property theorems only *)
From Coq Require Import ZArith List Bool.
From FV Require Import Base.Ser Base.Res C16.Model C01.Model C01.Proofs.
Import ListNotations.
Open Scope Z_scope.

Theorem untouched_passthrough : forall (content : Type) reader dec enc sideloads order (ld : lstate content) i t,
  nth_error order i = Some t -> ld t = None ->
  (forall u, In u order -> ~ In t (sideloads u)) ->
  nth_error (snd (save content reader dec enc sideloads ld order)) i = Some (reader t).
Proof. exact Proofs.untouched_passthrough. Qed.
Print Assumptions untouched_passthrough.

Theorem loaded_is_compiled : forall (content : Type) reader dec enc sideloads order (ld : lstate content) i t c,
  nth_error order i = Some t -> ld t = Some c -> NoDup order ->
  nth_error (snd (save content reader dec enc sideloads ld order)) i = Some (enc t c).
Proof. exact Proofs.loaded_is_compiled. Qed.
Print Assumptions loaded_is_compiled.

Theorem recompile_fixpoint : forall (content : Type) dec enc t b, lossless content dec enc t ->
  enc t (dec t (enc t (dec t b))) = enc t (dec t b).
Proof. exact Proofs.recompile_fixpoint. Qed.
Print Assumptions recompile_fixpoint.

Theorem default_table_verbatim : forall t b, default_enc t (default_dec t b) = b.
Proof. exact Proofs.default_table_verbatim. Qed.
Print Assumptions default_table_verbatim.
