(* C01/Proofs.v *)
From Coq Require Import ZArith List Bool Lia.
From FV Require Import Base.Ser Base.Res C16.Model C16.Proofs C01.Model.
Import ListNotations.
Open Scope Z_scope.

Section P.
  Variable content : Type.
  Variable reader : Z -> list Z.
  Variable dec : Z -> list Z -> content.
  Variable enc : Z -> content -> list Z.
  Variable sideloads : Z -> list Z.
  Notation access := (access content reader dec).
  Notation save := (save content reader dec enc sideloads).

  Lemma access_other s t ld : s <> t -> access t ld s = ld s.
  Proof. intros N. unfold Model.access. destruct (s =? t) eqn:E; [apply Z.eqb_eq in E; contradiction|reflexivity]. Qed.

  Lemma access_same t ld : access t ld t = match ld t with Some c => Some c | None => Some (dec t (reader t)) end.
  Proof. unfold Model.access. rewrite Z.eqb_refl. reflexivity. Qed.

  Lemma accesses_untouched l s ld : ~ In s l -> fold_right access ld l s = ld s.
  Proof.
    induction l as [|t r IH]; intros N; cbn [fold_right]; [reflexivity|].
    rewrite access_other by (intros ->; apply N; left; reflexivity). apply IH. intros H. apply N. right. exact H.
  Qed.

  (* what the save writes for each tag, as an association *)
  Lemma save_length order : forall ld, length (snd (save ld order)) = length order.
  Proof.
    induction order as [|t r IH]; intros ld; cbn [Model.save]; [reflexivity|].
    destruct (write_one content reader dec enc sideloads ld t) as [ld1 b]. specialize (IH ld1).
    destruct (Model.save _ _ _ _ _ ld1 r) as [ld2 bs]. cbn [snd length] in *. lia.
  Qed.

  (* UNTOUCHED TABLES PASS THROUGH: a table that was not loaded before the save and that no compile
     side-effect-loads is written byte for byte from the reader, whatever else is loaded or compiled *)
  Theorem untouched_passthrough order : forall ld i t,
    nth_error order i = Some t -> ld t = None ->
    (forall u, In u order -> ~ In t (sideloads u)) ->
    nth_error (snd (save ld order)) i = Some (reader t).
  Proof.
    induction order as [|u r IH]; intros ld i t Hn Hl Hs; [destruct i; discriminate|].
    cbn [Model.save]. unfold write_one.
    assert (Keep: forall l, ~ In t l -> fold_right access ld l t = None) by (intros l N; rewrite accesses_untouched by exact N; exact Hl).
    destruct i as [|i].
    - cbn in Hn. apply Some_inj in Hn. subst u. rewrite Hl.
      destruct (Model.save _ _ _ _ _ ld r) as [x bs]. reflexivity.
    - cbn [nth_error] in Hn.
      destruct (ld u) as [c|] eqn:L.
      + specialize (IH (fold_right access ld (sideloads u)) i t Hn (Keep _ (Hs u (or_introl eq_refl))) (fun v Hv => Hs v (or_intror Hv))).
        destruct (Model.save _ _ _ _ _ (fold_right access ld (sideloads u)) r) as [x bs]. exact IH.
      + specialize (IH ld i t Hn Hl (fun v Hv => Hs v (or_intror Hv))).
        destruct (Model.save _ _ _ _ _ ld r) as [x bs]. exact IH.
  Qed.

  (* A LOADED table is written as the encoding of its content *)
  Theorem loaded_is_compiled order : forall ld i t c,
    nth_error order i = Some t -> ld t = Some c -> NoDup order ->
    nth_error (snd (save ld order)) i = Some (enc t c).
  Proof.
    induction order as [|u r IH]; intros ld i t c Hn Hl ND; [destruct i; discriminate|].
    inversion ND as [|? ? Hu Hr]; subst.
    cbn [Model.save]. unfold write_one.
    destruct i as [|i].
    - cbn in Hn. apply Some_inj in Hn. subst u. rewrite Hl.
      destruct (Model.save _ _ _ _ _ (fold_right access ld (sideloads t)) r) as [x bs]. reflexivity.
    - cbn [nth_error] in Hn.
      assert (Stay: forall l, fold_right access ld l t = Some c).
      { induction l as [|s l IHl]; cbn [fold_right]; [exact Hl|].
        destruct (Z.eq_dec t s) as [->|N]; [rewrite access_same, IHl; reflexivity|rewrite access_other by exact N; exact IHl]. }
      destruct (ld u) as [cu|] eqn:L.
      + specialize (IH (fold_right access ld (sideloads u)) i t c Hn (Stay _) Hr).
        destruct (Model.save _ _ _ _ _ (fold_right access ld (sideloads u)) r) as [x bs]. exact IH.
      + specialize (IH ld i t c Hn Hl Hr).
        destruct (Model.save _ _ _ _ _ ld r) as [x bs]. exact IH.
  Qed.

  (* SECOND-GENERATION FIXED POINT for one table: if the codec is lossless on decoded values, encoding
     the re-decoded bytes reproduces them *)
  Theorem recompile_fixpoint t b : lossless content dec enc t ->
    enc t (dec t (enc t (dec t b))) = enc t (dec t b).
  Proof. intros H. rewrite H. reflexivity. Qed.

  Theorem recompile_lossless t b : lossless content dec enc t -> dec t (enc t (dec t b)) = dec t b.
  Proof. intros H. apply H. Qed.
End P.

(* tables without a decoder are byte-for-byte stable even when loaded *)
Theorem default_table_verbatim t b : default_enc t (default_dec t b) = b.
Proof. reflexivity. Qed.
