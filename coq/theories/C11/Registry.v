From Coq Require Import ZArith List String Bool.
From FV Require Import Base.Ser Base.Res C11.Model.
From FV Require C11.ModelLigBuild.
Import ListNotations.
Open Scope string_scope.
Definition tok_ser (t : tok) : list Z := match t with TNum n => [0; n] | TLt => [1] | TGt => [2] | TNull => [3] end%Z.
Definition asFea_ser (vertical : bool) (f : (option Z * option Z) * (option Z * option Z)) : list Z :=
  let '((a, b), (c, d)) := f in List.concat (map tok_ser (asFea vertical (mkV a b c d))).
Definition cf2 (cds : (list (Z * Z) * list (Z * Z)) * list (Z * Z)) (prefix input suffix : list (list Z)) :=
  let '((b, i), l) := cds in compile_format2 b i l prefix input suffix.
Definition reg : registry := [
  ("asFea", run2 asFea_ser);
  ("compile_format1", run3 compile_format1);
  ("compile_format2", run4 cf2);
  ("compile_format3", run3 compile_format3);
  ("build_lig", run1 ModelLigBuild.build_lig_groups)
].
Definition fv_entry := dispatch reg.
