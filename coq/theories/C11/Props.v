(* C11/Props.v — property theorems only *)
From Coq Require Import ZArith List Bool.
From FV Require Import Base.Ser Base.Res C11.Model C11.Proofs.
Import ListNotations.
Open Scope Z_scope.

(* printing a value record and parsing the text again, in the same horizontal or vertical context, keeps what it means *)
Theorem valuerecord_print_parse : forall vertical v,
  exists v', parse vertical (asFea vertical v) = Some v' /\ meaning v' = meaning v.
Proof. exact Proofs.valuerecord_print_parse. Qed.
Print Assumptions valuerecord_print_parse.

(* ... and printing is a fixed point after one round *)
Theorem valuerecord_fixed_point : forall vertical v v',
  parse vertical (asFea vertical v) = Some v' -> asFea vertical v' = asFea vertical v.
Proof. exact Proofs.valuerecord_fixed_point. Qed.
Print Assumptions valuerecord_fixed_point.

(* a chaining rule compiled into Backtrack (reversed) / Input / LookAhead arrays matches, under the OpenType matching rule, at
   exactly the positions where the rule as written matches -- for glyph (format 1), class (format 2) and coverage (format 3) elements *)
Theorem compiled_matches_iff_written : forall (E : Type) (mem : E -> Z -> bool) (r : rule E) before after,
  matches_compiled mem (compile r) before after = true <-> matches_written E mem r before after.
Proof. exact Proofs.compiled_matches_iff_written. Qed.
Print Assumptions compiled_matches_iff_written.

(* non-vacuity *)
Example chain_example :
  matches_compiled Z.eqb (compile (mkRule [1; 2] [5] [7])) [9; 1; 2] [5; 7; 8] = true /\
  matches_compiled Z.eqb (compile (mkRule [1; 2] [5] [7])) [9; 2; 1] [5; 7; 8] = false.
Proof. split; vm_compute; reflexivity. Qed.
Example vrec_example : asFea true (mkV None None (Some 25) None) = [TLt; TNum 0; TNum 0; TNum 25; TNum 0; TGt].
Proof. reflexivity. Qed.

(* ---- `sub a b c by a_b_c;` rules: the ligature subtable feaLib / otlLib builds from a set of rules (ModelLigBuild.v:
   buildLigatureSubstSubtable with its stable longest-first order), read with the reference meaning of a ligature subtable (C07
   ModelLig, tied to HarfBuzz), applies at every position a LONGEST rule among those whose components are found there -- whatever
   the order of the rules in the feature file -- and nothing where no rule matches *)
From FV Require C07.ModelLig C11.ModelLigBuild C11.ProofsLigBuild.
Theorem built_ligatures_longest_match : forall m g rest,
  match ModelLig.find_lig (ModelLigBuild.build_lig m) g rest with
  | Some (lg, n) => exists comps, In (g :: comps, lg) m /\ length comps = n /\ ModelLig.prefix_eqb comps rest = true /\
                                  forall r, In r m -> ProofsLigBuild.matches g rest r -> (length (fst r) <= S n)%nat
  | None => forall r, In r m -> ~ ProofsLigBuild.matches g rest r
  end.
Proof. exact ProofsLigBuild.built_ligatures_longest_match. Qed.
Print Assumptions built_ligatures_longest_match.
