(* C11/Proofs.v *)
From Coq Require Import ZArith List Bool Lia.
From FV Require Import Base.Ser Base.Res C11.Model.
Import ListNotations.
Open Scope Z_scope.

(* ---------- value records: printing then parsing in the same (horizontal/vertical) context keeps the meaning ---------- *)
Theorem valuerecord_print_parse vertical v :
  exists v', parse vertical (asFea vertical v) = Some v' /\ meaning v' = meaning v.
Proof.
  destruct v as [[a|] [b|] [c|] [d|]]; destruct vertical; cbn; eexists; split; reflexivity.
Qed.

(* the printed form is itself a fixed point: printing the parsed record gives the same tokens *)
Theorem valuerecord_fixed_point vertical v v' :
  parse vertical (asFea vertical v) = Some v' -> asFea vertical v' = asFea vertical v.
Proof.
  destruct v as [[a|] [b|] [c|] [d|]]; destruct vertical; cbn; intros H; apply Some_inj in H; subst v'; reflexivity.
Qed.

(* ---------- chaining rules ---------- *)
Section Chain.
  Variable E : Type.
  Variable mem : E -> Z -> bool.

  (* the rule AS WRITTEN matches at a position: the glyphs just before it are, left to right, the prefix; the glyphs from the
     position on are the input followed by the suffix *)
  Definition matches_written (r : rule E) (before after : list Z) : Prop :=
    (exists far near, before = far ++ near /\ Forall2 (fun e g => mem e g = true) (r_prefix r) near) /\
    (exists ins rest, after = ins ++ rest /\ Forall2 (fun e g => mem e g = true) (r_input r) ins /\
       exists sus rest', rest = sus ++ rest' /\ Forall2 (fun e g => mem e g = true) (r_suffix r) sus).

  Lemma match_fwd_spec es : forall gs, match_fwd mem es gs = true <->
    exists hd tl_, gs = hd ++ tl_ /\ Forall2 (fun e g => mem e g = true) es hd.
  Proof.
    induction es as [|e es IH]; intros gs; cbn [match_fwd].
    - split; [intros _; exists [], gs; split; [reflexivity|constructor]|reflexivity].
    - destruct gs as [|g gs].
      + split; [discriminate|]. intros [hd [t [H F]]]. inversion F; subst. discriminate.
      + rewrite andb_true_iff, IH. split.
        * intros [M [hd [t [-> F]]]]. exists (g :: hd), t. split; [reflexivity|constructor; assumption].
        * intros [hd [t [H F]]]. inversion F as [|? g' ? hd' M F']; subst. cbn in H. injection H as -> ->.
          split; [exact M|exists hd', t; split; [reflexivity|exact F']].
  Qed.

  Lemma Forall2_rev (P : E -> Z -> Prop) a : forall b, Forall2 P a b -> Forall2 P (rev a) (rev b).
  Proof.
    induction 1 as [|x y a' b' Hxy H IH]; cbn [rev]; [constructor|].
    apply Forall2_app; [exact IH|constructor; [exact Hxy|constructor]].
  Qed.

  Lemma Forall2_length_eq (P : E -> Z -> Prop) a b : Forall2 P a b -> length a = length b.
  Proof. induction 1; cbn; congruence. Qed.

  (* THE COMPILED RULE MATCHES EXACTLY WHERE THE WRITTEN RULE DOES *)
  Theorem compiled_matches_iff_written r before after :
    matches_compiled mem (compile r) before after = true <-> matches_written r before after.
  Proof.
    unfold matches_compiled, compile, matches_written. cbn [c_back c_input c_ahead].
    rewrite !andb_true_iff, !match_fwd_spec. split.
    - intros [[[ins [rest [Ha Fi]]] [sus [rest' [Hs Fs]]]] [near [far [Hb Fb]]]].
      split.
      + exists (rev far), (rev near). split.
        * rewrite <- rev_app_distr, <- Hb, rev_involutive. reflexivity.
        * apply Forall2_rev in Fb. rewrite rev_involutive in Fb. exact Fb.
      + exists ins, rest. split; [exact Ha|]. split; [exact Fi|].
        exists sus, rest'. split; [|exact Fs].
        subst after. rewrite (Forall2_length_eq _ _ _ Fi) in Hs. rewrite skipn_app, skipn_all, Nat.sub_diag in Hs. exact Hs.
    - intros [[far [near [Hb Fb]]] [ins [rest [Ha [Fi [sus [rest' [Hs Fs]]]]]]]].
      split; [split|].
      + exists ins, rest. split; assumption.
      + exists sus, rest'. split; [|exact Fs]. subst after. rewrite (Forall2_length_eq _ _ _ Fi).
        rewrite skipn_app, skipn_all, Nat.sub_diag. exact Hs.
      + exists (rev near), (rev far). split; [subst before; apply rev_app_distr|apply Forall2_rev; exact Fb].
  Qed.
End Chain.
