(* C11/Model.v — feature files: value records as printed and parsed (feaLib/ast.py:1596-1640 ValueRecord.asFea,
   feaLib/parser.py:1679-1755 parse_valuerecord_), and chaining contextual rules as compiled into Backtrack/Input/LookAhead
   arrays (otlLib/builder.py:470-575 buildFormat1Subtable/buildFormat2Subtable/buildFormat3Subtable) with the OpenType matching rule. *)
From Coq Require Import ZArith List Bool.
From FV Require Import Base.Ser Base.Res.
Import ListNotations.
Open Scope Z_scope.

(* ---------------- value records (formats A and B; device tables are not modelled) *)
Record vrec := mkV { xPla : option Z; yPla : option Z; xAdv : option Z; yAdv : option Z }.
Inductive tok := TNum (n : Z) | TLt | TGt | TNull.

Definition oz (o : option Z) : Z := match o with Some v => v | None => 0 end.
Definition is_none (o : option Z) : bool := match o with None => true | _ => false end.

(* ValueRecord.asFea *)
Definition asFea (vertical : bool) (v : vrec) : list tok :=
  if is_none (xPla v) && is_none (yPla v) && is_none (xAdv v) && is_none (yAdv v) then [TLt; TNull; TGt]
  else if is_none (xPla v) && is_none (yPla v) && is_none (xAdv v) && vertical then [TNum (oz (yAdv v))]
  else if is_none (xPla v) && is_none (yPla v) && is_none (yAdv v) && negb vertical then [TNum (oz (xAdv v))]
  else [TLt; TNum (oz (xPla v)); TNum (oz (yPla v)); TNum (oz (xAdv v)); TNum (oz (yAdv v)); TGt].

(* parse_valuerecord_(vertical) on exactly one record's tokens *)
Definition parse (vertical : bool) (ts : list tok) : option vrec :=
  match ts with
  | [TNum n] => Some (if vertical then mkV None None None (Some n) else mkV None None (Some n) None)
  | [TLt; TNull; TGt] => Some (mkV None None None None)
  | [TLt; TNum a; TNum b; TNum c; TNum d; TGt] => Some (mkV (Some a) (Some b) (Some c) (Some d))
  | _ => None
  end.

(* what a value record means to the shaper: absent fields adjust nothing *)
Definition meaning (v : vrec) : Z * Z * Z * Z := (oz (xPla v), oz (yPla v), oz (xAdv v), oz (yAdv v)).

(* ---------------- chaining contextual rules *)
Section Chain.
  Variable E : Type.                         (* what a rule position is compiled to: a glyph (format 1), a class (2), a coverage (3) *)
  Variable mem : E -> Z -> bool.             (* does the glyph satisfy the compiled element *)

  Record rule := mkRule { r_prefix : list E; r_input : list E; r_suffix : list E }.       (* as written, left to right *)
  Record crule := mkC { c_back : list E; c_input : list E; c_ahead : list E }.             (* as stored *)

  (* the builder: Backtrack is stored in REVERSE order (closest glyph first) *)
  Definition compile (r : rule) : crule := mkC (rev (r_prefix r)) (r_input r) (r_suffix r).

  Fixpoint match_fwd (es : list E) (gs : list Z) : bool :=
    match es, gs with
    | [], _ => true
    | e :: es', g :: gs' => mem e g && match_fwd es' gs'
    | _ :: _, [] => false
    end.

  (* OpenType: the input sequence is matched forwards from the current glyph, the lookahead after it, and backtrack element k
     against the k-th glyph BEFORE the current one *)
  Definition matches_compiled (c : crule) (before after : list Z) : bool :=
    match_fwd (c_input c) after && match_fwd (c_ahead c) (skipn (length (c_input c)) after) && match_fwd (c_back c) (rev before).
End Chain.
Arguments mkRule {E}. Arguments r_prefix {E}. Arguments r_input {E}. Arguments r_suffix {E}.
Arguments mkC {E}. Arguments c_back {E}. Arguments c_input {E}. Arguments c_ahead {E}.
Arguments compile {E}. Arguments match_fwd {E}. Arguments matches_compiled {E}.

(* format 2: elements are class numbers looked up in a class definition (glyphs not listed are class 0) *)
Fixpoint classOf (cd : list (Z * Z)) (g : Z) : Z :=
  match cd with [] => 0 | (k, v) :: r => if k =? g then v else classOf r g end.
Definition hdz (l : list Z) : Z := match l with x :: _ => x | [] => 0 end.
(* a rule as written (lists of glyph sets) compiled with the three class definitions: the class of any member of each set *)
Definition compile_format2 (bcd icd lcd : list (Z * Z)) (prefix input suffix : list (list Z)) : list Z * list Z * list Z :=
  let c := compile (mkRule (map (fun s => classOf bcd (hdz s)) prefix) (map (fun s => classOf icd (hdz s)) input)
                           (map (fun s => classOf lcd (hdz s)) suffix)) in
  (c_back c, tl (c_input c), c_ahead c).
Definition compile_format1 (prefix input suffix : list Z) : list Z * list Z * list Z :=
  let c := compile (mkRule prefix input suffix) in (c_back c, tl (c_input c), c_ahead c).
Definition compile_format3 (prefix input suffix : list (list Z)) : list (list Z) * list (list Z) * list (list Z) :=
  let c := compile (mkRule prefix input suffix) in (c_back c, c_input c, c_ahead c).
