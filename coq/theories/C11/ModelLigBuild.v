(* C11/ModelLigBuild.v — otlLib/builder.py buildLigatureSubstSubtable (1891-1931) with LigatureSubst._getLigatureSortKey
   (otTables.py:1528-1555): what `sub a b c by abc;` rules become.  A rule is (component sequence, ligature glyph); rules arrive in
   feature-file order (the dict's insertion order); the subtable lists them longest first, equal lengths in file order (Python's
   sort is stable).  The subtable is read with C07's reference meaning (ModelLig.find_lig / shape_lig, tied to HarfBuzz). *)
From Coq Require Import ZArith List Bool.
From FV Require Import Base.Ser Base.Res C07.Model C07.ModelLig.
Import ListNotations.
Open Scope Z_scope.

Definition rule := (list glyph * glyph)%type.
(* sorted(keys, key=-len): stable insertion, processed from the right end *)
Fixpoint ins_len (x : rule) (l : list rule) : list rule :=
  match l with
  | [] => [x]
  | y :: r => if Nat.leb (length (fst y)) (length (fst x)) then x :: y :: r else y :: ins_len x r
  end.
Definition sort_len (m : list rule) : list rule := fold_right ins_len [] m.
Definition to_entry (r : rule) : list (glyph * (list glyph * glyph)) :=
  match fst r with f :: comps => [(f, (comps, snd r))] | [] => [] end.
Definition build_lig (m : list rule) : lig := flat_map to_entry (sort_len m).

(* the same grouped by first glyph, as the `ligatures` dict holds it (for the correspondence) *)
Definition lig_groups (l : lig) : list (glyph * list (list glyph * glyph)) :=
  map (fun f => (f, map snd (filter (fun e => fst e =? f) l))) (uniq_sort (map fst l)).
Definition build_lig_groups (m : list rule) := lig_groups (build_lig m).
