(* C11/ProofsLigBuild.v — the built ligature subtable implements "the longest rule that matches wins" *)
From Coq Require Import ZArith List Bool Lia Permutation Sorting.Sorted.
From FV Require Import Base.Ser Base.Res C07.Model C07.ModelLig C11.ModelLigBuild.
Import ListNotations.
Open Scope Z_scope.

Definition len_ge (a b : rule) : Prop := (length (fst b) <= length (fst a))%nat.

Lemma ins_len_perm x l : Permutation (ins_len x l) (x :: l).
Proof.
  induction l as [|y r IH]; cbn [ins_len]; [reflexivity|].
  destruct (Nat.leb (length (fst y)) (length (fst x))); [reflexivity|].
  eapply perm_trans; [apply perm_skip, IH|apply perm_swap].
Qed.
Lemma sort_len_perm m : Permutation (sort_len m) m.
Proof.
  induction m as [|x r IH]; cbn [sort_len fold_right]; [reflexivity|]. fold (sort_len r).
  eapply perm_trans; [apply ins_len_perm|]. apply perm_skip, IH.
Qed.
Lemma ins_len_sorted x l : StronglySorted len_ge l -> StronglySorted len_ge (ins_len x l).
Proof.
  induction l as [|y r IH]; intros HS; cbn [ins_len]; [constructor; constructor|].
  apply StronglySorted_inv in HS. destruct HS as [HS1 HS2].
  destruct (Nat.leb_spec (length (fst y)) (length (fst x))) as [Hle|Hgt].
  - constructor; [constructor; assumption|]. constructor; [exact Hle|].
    rewrite Forall_forall in HS2 |- *. intros z Hz. specialize (HS2 z Hz). unfold len_ge in *. lia.
  - constructor; [apply IH, HS1|]. rewrite Forall_forall in HS2 |- *. intros z Hz.
    apply (Permutation_in _ (ins_len_perm x r)) in Hz. destruct Hz as [<-|Hz]; [unfold len_ge; lia|apply HS2, Hz].
Qed.
Lemma sort_len_sorted m : StronglySorted len_ge (sort_len m).
Proof.
  induction m as [|x r IH]; cbn [sort_len fold_right]; [constructor|]. fold (sort_len r). apply ins_len_sorted, IH.
Qed.

(* a rule matches at a position *)
Definition matches (g : glyph) (rest : list glyph) (r : rule) : Prop :=
  exists comps, fst r = g :: comps /\ prefix_eqb comps rest = true.

Lemma find_lig_sorted : forall L g rest, StronglySorted len_ge L ->
  match find_lig (flat_map to_entry L) g rest with
  | Some (lg, n) => exists comps, In (g :: comps, lg) L /\ length comps = n /\ prefix_eqb comps rest = true /\
                                  forall r, In r L -> matches g rest r -> (length (fst r) <= S n)%nat
  | None => forall r, In r L -> ~ matches g rest r
  end.
Proof.
  induction L as [|[k lg] r IH]; intros g rest HS; [cbn; intros x []|].
  apply StronglySorted_inv in HS. destruct HS as [HS1 HS2]. specialize (IH g rest HS1).
  cbn [flat_map]. unfold to_entry at 1. cbn [fst snd].
  destruct k as [|f comps].
  - (* an empty component sequence builds nothing *)
    cbn [app]. destruct (find_lig (flat_map to_entry r) g rest) as [[lg' n]|].
    + destruct IH as [comps [H1 [H2 [H3 H4]]]]. exists comps. repeat split; try assumption; [right; exact H1|].
      intros x [<-|Hx] Hm; [destruct Hm as [c [Hc _]]; discriminate|apply H4; assumption].
    + intros x [<-|Hx] Hm; [destruct Hm as [c [Hc _]]; discriminate|eapply IH; eassumption].
  - cbn [app find_lig].
    destruct ((f =? g) && prefix_eqb comps rest) eqn:EM.
    + apply andb_true_iff in EM. destruct EM as [Ef Ep]. apply Z.eqb_eq in Ef. subst f.
      exists comps. repeat split; try assumption; [left; reflexivity|].
      intros x [<-|Hx] Hm; [cbn; lia|]. rewrite Forall_forall in HS2. specialize (HS2 x Hx). unfold len_ge in HS2. cbn in HS2. exact HS2.
    + destruct (find_lig (flat_map to_entry r) g rest) as [[lg' n]|].
      * destruct IH as [comps' [H1 [H2 [H3 H4]]]]. exists comps'. repeat split; try assumption; [right; exact H1|].
        intros x [<-|Hx] Hm; [|apply H4; assumption].
        exfalso. destruct Hm as [c [Hc Hp]]. cbn in Hc. inversion Hc; subst. rewrite Z.eqb_refl, Hp in EM. discriminate.
      * intros x [<-|Hx] Hm; [|eapply IH; eassumption].
        destruct Hm as [c [Hc Hp]]. cbn in Hc. inversion Hc; subst. rewrite Z.eqb_refl, Hp in EM. discriminate.
Qed.

(* the subtable built from the rules applies, at every position, a longest rule among those that match there; none if none does *)
Theorem built_ligatures_longest_match m g rest :
  match find_lig (build_lig m) g rest with
  | Some (lg, n) => exists comps, In (g :: comps, lg) m /\ length comps = n /\ prefix_eqb comps rest = true /\
                                  forall r, In r m -> matches g rest r -> (length (fst r) <= S n)%nat
  | None => forall r, In r m -> ~ matches g rest r
  end.
Proof.
  unfold build_lig. pose proof (find_lig_sorted (sort_len m) g rest (sort_len_sorted m)) as H.
  pose proof (sort_len_perm m) as HP.
  destruct (find_lig (flat_map to_entry (sort_len m)) g rest) as [[lg n]|].
  - destruct H as [comps [H1 [H2 [H3 H4]]]]. exists comps. repeat split; try assumption.
    + eapply Permutation_in; eassumption.
    + intros r Hr. apply H4. eapply Permutation_in; [apply Permutation_sym; exact HP|exact Hr].
  - intros r Hr. apply H. eapply Permutation_in; [apply Permutation_sym; exact HP|exact Hr].
Qed.

(* the example of the source comment: f_i, f_f_f, f_f, f_f_i (f = 1, i = 2) sort to f_f_f, f_f_i, f_i, f_f; "f f i" becomes f_f_i *)
Example built_ligatures_example :
  let m := [([1; 2], 10); ([1; 1; 1], 11); ([1; 1], 12); ([1; 1; 2], 13)] in
  build_lig m = [(1, ([1; 1], 11)); (1, ([1; 2], 13)); (1, ([2], 10)); (1, ([1], 12))] /\
  shape_lig (build_lig m) [1; 1; 2; 1; 2; 1; 1; 1; 1] = [13; 10; 11; 1].
Proof. vm_compute. auto. Qed.
