(* C06/Props.v — property theorems only *)
From Coq Require Import ZArith List Bool.
From FV Require Import Base.Ser Base.Res Base.BE C06.Model C06.Proofs.
Import ListNotations.
Open Scope Z_scope.

(* an emitted offset field reads back as exactly the distance to the sub-table and fits its width:
   a packing with wrapped or wrong offsets is impossible — out-of-range distances raise *)
Theorem offset_exact : forall ps selfpos s c bs rest,
  render_item ps selfpos (IO s c) = Ok bs ->
  (s = 2 \/ s = 3 \/ s = 4)%nat /\ length bs = s /\
  take_be s (bs ++ rest) = Some (pos_of c ps - selfpos, rest) /\
  0 <= pos_of c ps - selfpos < 2 ^ (8 * Z.of_nat s).
Proof. exact Proofs.offset_exact. Qed.
Print Assumptions offset_exact.

(* each table's bytes start at the running sum of the lengths of the tables before it ... *)
Theorem table_at_its_position : forall t ps order data,
  render_all t ps order = Ok data ->
  forall pre n post, order = pre ++ n :: post ->
  exists before this after,
    data = before ++ this ++ after /\
    Z.of_nat (length before) = fold_right (fun m a => node_len t m + a) 0 pre /\
    render_items ps (pos_of n ps) (items (getn t n)) = Ok this /\
    Z.of_nat (length this) = node_len t n.
Proof. exact Proofs.table_at_its_position. Qed.
Print Assumptions table_at_its_position.

(* ... which is the position the offsets were computed from (for the last occurrence of a table) *)
Theorem positions_spec : forall t order p acc n pre post,
  order = pre ++ n :: post -> ~ In n post ->
  pos_of n (positions t order p acc) = p + fold_right (fun m a => node_len t m + a) 0 pre.
Proof. exact Proofs.positions_spec. Qed.
Print Assumptions positions_spec.

(* ---- the overflow repairs that cut a subtable in two (ModelSplit.v: splitPairPos formats 1 and 2, splitSinglePos): for every first
   glyph the two halves, tried in order as a lookup does, give the record the whole subtable gave *)
From FV Require C06.ModelSplit C06.ProofsSplit.
Theorem split_by_coverage_same : forall (t a b : ModelSplit.cov_table Z),
  length (ModelSplit.cov t) = length (ModelSplit.recs t) -> ModelSplit.split_cov t = Some (a, b) ->
  forall g, ModelSplit.first_of (ModelSplit.cov_lookup a g) (ModelSplit.cov_lookup b g) = ModelSplit.cov_lookup t g.
Proof. exact ProofsSplit.split_cov_same_Z. Qed.
Print Assumptions split_by_coverage_same.

(* class pairs: glyphs the ClassDef does not list are class 0 and stay with the first half; classes are renumbered in the second *)
Theorem split_by_class_same : forall (t a b : ModelSplit.class_table Z),
  NoDup (map fst (ModelSplit.classDefs t)) -> (forall kv, In kv (ModelSplit.classDefs t) -> 0 <= snd kv) ->
  ModelSplit.split_class t = Some (a, b) ->
  forall g, ModelSplit.first_of (ModelSplit.class_lookup a g) (ModelSplit.class_lookup b g) = ModelSplit.class_lookup t g.
Proof. exact ProofsSplit.split_class_same_Z. Qed.
Print Assumptions split_by_class_same.
