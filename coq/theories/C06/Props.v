(* C06/Props.v — property theorems only *)
From Coq Require Import ZArith List Bool.
From FV Require Import Base.Ser Base.Res Base.BE C06.Model C06.Proofs.
Import ListNotations.
Open Scope Z_scope.

(* an emitted offset field reads back as exactly the distance to the sub-table and fits its width:
   a packing with wrapped or wrong offsets is impossible — out-of-range distances raise *)
Theorem offset_exact : forall ps selfpos s c bs rest,
  render_item ps selfpos (IO s c) = Ok bs ->
  (s = 2 \/ s = 3 \/ s = 4)%nat /\ length bs = s /\
  take_be s (bs ++ rest) = Some (pos_of c ps - selfpos, rest) /\
  0 <= pos_of c ps - selfpos < 2 ^ (8 * Z.of_nat s).
Proof. exact Proofs.offset_exact. Qed.
Print Assumptions offset_exact.

(* each table's bytes start at the running sum of the lengths of the tables before it ... *)
Theorem table_at_its_position : forall t ps order data,
  render_all t ps order = Ok data ->
  forall pre n post, order = pre ++ n :: post ->
  exists before this after,
    data = before ++ this ++ after /\
    Z.of_nat (length before) = fold_right (fun m a => node_len t m + a) 0 pre /\
    render_items ps (pos_of n ps) (items (getn t n)) = Ok this /\
    Z.of_nat (length this) = node_len t n.
Proof. exact Proofs.table_at_its_position. Qed.
Print Assumptions table_at_its_position.

(* ... which is the position the offsets were computed from (for the last occurrence of a table) *)
Theorem positions_spec : forall t order p acc n pre post,
  order = pre ++ n :: post -> ~ In n post ->
  pos_of n (positions t order p acc) = p + fold_right (fun m a => node_len t m + a) 0 pre.
Proof. exact Proofs.positions_spec. Qed.
Print Assumptions positions_spec.
