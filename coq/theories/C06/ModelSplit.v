(* C06/ModelSplit.v — ttLib/tables/otTables.py: the overflow repairs that cut a subtable in two — splitPairPos (format 1: glyph pairs,
   format 2: class pairs), splitSinglePos (format 2) and splitMarkBasePos (2420-2548).  Glyphs and values are opaque integers. *)
From Coq Require Import ZArith List Bool.
From FV Require Import Base.Ser Base.Res.
Import ListNotations.
Open Scope Z_scope.

Definition memz (x : Z) (l : list Z) : bool := existsb (Z.eqb x) l.
Fixpoint assocz {A} (k : Z) (d : list (Z * A)) : option A :=
  match d with [] => None | (k', v) :: r => if Z.eqb k k' then Some v else assocz k r end.
Fixpoint index_ofz (x : Z) (l : list Z) : option nat :=
  match l with [] => None | y :: r => if Z.eqb x y then Some O else option_map S (index_ofz x r) end.

(* ---- PairPos format 1 and SinglePos format 2: Coverage with one record per covered glyph *)
Record cov_table (A : Type) := mkCov { cov : list Z; recs : list A }.
Arguments mkCov {A}. Arguments cov {A}. Arguments recs {A}.
(* oldCount = len // 2; old keeps the first half of the coverage and of the records *)
Definition split_cov {A} (t : cov_table A) : option (cov_table A * cov_table A) :=
  if Nat.leb (length (recs t)) 1 then None
  else let k := Nat.div (length (recs t)) 2 in
       Some (mkCov (firstn k (cov t)) (firstn k (recs t)), mkCov (skipn k (cov t)) (skipn k (recs t))).
(* what a subtable does for a first glyph: the record at its coverage index, None = the subtable does not apply *)
Definition cov_lookup {A} (t : cov_table A) (g : Z) : option A :=
  match index_ofz g (cov t) with Some i => nth_error (recs t) i | None => None end.

(* ---- PairPos format 2: Coverage, ClassDef1 (glyphs not listed are class 0), one row per class *)
Record class_table (A : Type) := mkCls { ccov : list Z; classDefs : list (Z * Z); rows : list A }.
Arguments mkCls {A}. Arguments ccov {A}. Arguments classDefs {A}. Arguments rows {A}.
Definition split_class {A} (t : class_table A) : option (class_table A * class_table A) :=
  if Nat.leb (length (rows t)) 1 then None
  else let k := Nat.div (length (rows t)) 2 in
       let kz := Z.of_nat k in
       let newGlyphs := map fst (filter (fun kv => kz <=? snd kv) (classDefs t)) in
       Some (mkCls (filter (fun g => negb (memz g newGlyphs)) (ccov t))
                   (filter (fun kv => snd kv <? kz) (classDefs t))
                   (firstn k (rows t)),
             mkCls (filter (fun g => memz g newGlyphs) (ccov t))
                   (map (fun kv => (fst kv, snd kv - kz)) (filter (fun kv => kz <? snd kv) (classDefs t)))
                   (skipn k (rows t))).
Definition class_of (t_defs : list (Z * Z)) (g : Z) : Z := match assocz g t_defs with Some c => c | None => 0 end.
Definition class_lookup {A} (t : class_table A) (g : Z) : option A :=
  if memz g (ccov t) then nth_error (rows t) (Z.to_nat (class_of (classDefs t) g)) else None.

(* a lookup tries its subtables in order; the first one that applies decides *)
Definition first_of {A} (a b : option A) : option A := match a with Some x => Some x | None => b end.
