(* C06/Model.v — the pure-Python layout table packer, OTTableWriter (ttLib/tables/otBase.py:434-710):
   _doneWriting (hash-consing), _gatherTables (ordering, extension area), getAllData / getData
   (positions, offsets, overflow).  The writer tree is a table of nodes addressed by index. *)
From Coq Require Import ZArith List Bool Arith.
From FV Require Import Base.Ser Base.Res Base.BE.
Import ListNotations.
Open Scope Z_scope.

Inductive item :=
| IB (bs : list Z)                       (* data bytes (incl. resolved counts) *)
| IO (size : nat) (child : nat).         (* offset of [size] bytes to a sub-writer *)
Record node := mkN { items : list item; ext : bool; dontShare : bool; covLast : bool; isCov : bool }.
Definition tbl := list node.
Definition empty_node := mkN [] false false false false.
Definition getn (t : tbl) (n : nat) : node := nth n t empty_node.

Global Instance De_item : De item :=
  fun l => match l with
           | k :: r => if k =? 0 then match de r with Some (bs, r') => Some (IB bs, r') | None => None end
                       else match de r with Some ((s, c), r') => Some (IO s c, r') | None => None end
           | [] => None end.
Global Instance De_node : De node :=
  fun l => match de l with
           | Some (((((it, e), d), c), v), r) => Some (mkN it e d c v, r)
           | None => None end.

(* structural key of a sub-tree: OTTableWriter.__eq__ compares items recursively *)
Fixpoint skey (fuel : nat) (t : tbl) (n : nat) : list Z :=
  match fuel with
  | O => [-1]
  | S f =>
    flat_map (fun it => match it with
                        | IB bs => 0 :: Z.of_nat (length bs) :: bs
                        | IO s c => let k := skey f t c in 1 :: Z.of_nat s :: Z.of_nat (length k) :: k
                        end) (items (getn t n))
  end.

Fixpoint set_nth {A} (l : list A) (i : nat) (x : A) : list A :=
  match l, i with
  | [], _ => []
  | _ :: r, O => x :: r
  | y :: r, S j => y :: set_nth r j x
  end.
Definition interned := list (list Z * nat).
Fixpoint ifind (k : list Z) (d : interned) : option nat :=
  match d with [] => None | (k', v) :: r => if list_Z_eqb k k' then Some v else ifind k r end.

(* _doneWriting: returns the updated table and interning dictionary *)
Fixpoint done_writing (fuel : nat) (t : tbl) (n : nat) (d : interned) (shareExt : bool) : tbl * interned :=
  match fuel with
  | O => (t, d)
  | S f =>
    let nd := getn t n in
    let fresh := ext nd && negb shareExt in
    let d0 := if fresh then [] else d in
    let step := fun (acc : tbl * interned * nat) (it : item) =>
      let '(t1, d1, i) := acc in
      match it with
      | IB _ => (t1, d1, S i)
      | IO s c =>
        let '(t2, d2) := done_writing f t1 c d1 shareExt in
        if dontShare nd then (t2, d2, S i)
        else
          let k := skey (S (length t2)) t2 c in
          match ifind k d2 with
          | Some c' =>
            let cur := getn t2 n in
            (set_nth t2 n (mkN (set_nth (items cur) i (IO s c')) (ext cur) (dontShare cur) (covLast cur) (isCov cur)), d2, S i)
          | None => (t2, (k, c) :: d2, S i)
          end
      end in
    let '(t', d', _) := fold_left step (items nd) (t, d0, O) in
    (t', if fresh then d else d')
  end.

Definition memn (n : nat) (l : list nat) : bool := existsb (Nat.eqb n) l.

(* _gatherTables; [extT = None] inside an extension subtree.  Lists are in append order. *)
Fixpoint gather (fuel : nat) (t : tbl) (n : nat) (tables : list nat) (extT : option (list nat)) (done : list nat)
  : Res (list nat * option (list nat) * list nat) :=
  match fuel with
  | O => Err OutOfFuel
  | S f =>
    let nd := getn t n in
    let done := n :: done in
    let its := items nd in
    (* first offset item pointing to a Coverage table *)
    let cov := find (fun ic : nat * item => match snd ic with IO _ c => isCov (getn t c) | _ => false end) (combine (seq 0 (length its)) its) in
    let visit := fun (acc : Res (list nat * option (list nat) * list nat)) (c : nat) =>
      let* (tb, ex, dn) := acc in
      if memn c dn then Ok (tb, ex, dn) else gather f t c tb ex dn in
    let body := fun (tb : list nat) (ex : option (list nat)) (dn : list nat) =>
      let start : Res (list nat * option (list nat) * list nat) :=
        if covLast nd then
          match cov with
          | Some (_, IO _ c) => visit (Ok (tb, ex, dn)) c
          | _ => Err TypeError                   (* AttributeError in the code: no Coverage sub-table *)
          end
        else Ok (tb, ex, dn) in
      let sortLast := covLast nd && match cov with Some _ => true | None => false end in
      fold_left (fun acc (ic : nat * item) =>
                   match snd ic with
                   | IB _ => acc
                   | IO _ c => if sortLast && Nat.eqb (fst ic) 1 && isCov (getn t c) then acc else visit acc c
                   end) (rev (combine (seq 0 (length its)) its)) start in
    if ext nd then
      match extT with
      | None => Err AssertionError
      | Some ex =>
        let* (ex', _, _) := body ex None [] in
        Ok (tables ++ [n], Some ex', done)
      end
    else
      let* (tb, ex, dn) := body tables extT done in
      Ok (tb ++ [n], ex, dn)
  end.

Definition item_len (it : item) : Z := match it with IB bs => Z.of_nat (length bs) | IO s _ => Z.of_nat s end.
Definition node_len (t : tbl) (n : nat) : Z := fold_right (fun it a => item_len it + a) 0 (items (getn t n)).

(* positions: a node listed twice keeps its LAST position (table.pos is overwritten) *)
Fixpoint positions (t : tbl) (order : list nat) (p : Z) (acc : list (nat * Z)) : list (nat * Z) :=
  match order with [] => acc | n :: r => positions t r (p + node_len t n) ((n, p) :: acc) end.
Fixpoint pos_of (n : nat) (ps : list (nat * Z)) : Z :=
  match ps with [] => 0 | (k, p) :: r => if Nat.eqb k n then p else pos_of n r end.

(* getData: OTLOffsetOverflowError (modelled as OverflowError) for a 16-bit offset out of range,
   struct.error for 24/32-bit ones *)
Definition render_item (ps : list (nat * Z)) (selfpos : Z) (it : item) : Res (list Z) :=
  match it with
  | IB bs => Ok bs
  | IO s c =>
    let d := pos_of c ps - selfpos in
    if Nat.eqb s 2 then (if (0 <=? d) && (d <? 65536) then Ok (pack_be 2 d) else Err OverflowError)
    else if Nat.eqb s 3 then (if (0 <=? d) && (d <? 16777216) then Ok (pack_be 3 d) else Err AssertionError)
    else if Nat.eqb s 4 then (if (0 <=? d) && (d <? 4294967296) then Ok (pack_be 4 d) else Err StructError)
    else Err ValueError
  end.
Fixpoint render_items (ps : list (nat * Z)) (selfpos : Z) (its : list item) : Res (list Z) :=
  match its with
  | [] => Ok []
  | it :: r => let* a := render_item ps selfpos it in let* b := render_items ps selfpos r in Ok (a ++ b)
  end.
Fixpoint render_all (t : tbl) (ps : list (nat * Z)) (order : list nat) : Res (list Z) :=
  match order with
  | [] => Ok []
  | n :: r => let* a := render_items ps (pos_of n ps) (items (getn t n)) in let* b := render_all t ps r in Ok (a ++ b)
  end.

Definition getAllData (t : tbl) (root : nat) (remove_duplicate : bool) : Res (list Z) :=
  let fuel := S (length t) in
  let t1 := if remove_duplicate then fst (done_writing fuel t root [] false) else t in
  let* (tables, extT, _) := gather fuel t1 root [] (Some []) [] in
  let order := rev tables ++ rev (match extT with Some e => e | None => [] end) in
  let ps := positions t1 order 0 [] in
  render_all t1 ps order.
