(* C06/ProofsSplit.v — cutting a subtable in two changes nothing: for every first glyph the two halves, tried in order, give the
   record the whole subtable gave *)
From Coq Require Import ZArith List Bool Lia.
From FV Require Import Base.Ser Base.Res C06.ModelSplit.
Import ListNotations.
Open Scope Z_scope.

Lemma nth_firstn {A} (l : list A) : forall k i, (i < k)%nat -> nth_error (firstn k l) i = nth_error l i.
Proof. induction l as [|x r IH]; intros [|k] [|i] H; cbn; try lia; try reflexivity. apply IH. lia. Qed.
Lemma nth_skipn {A} (l : list A) : forall k j, nth_error (skipn k l) j = nth_error l (k + j).
Proof. induction l as [|x r IH]; intros [|k] j; cbn; try reflexivity; [destruct j; reflexivity | apply IH]. Qed.

Lemma index_firstn g l : forall k i, index_ofz g l = Some i ->
  (if Nat.ltb i k then index_ofz g (firstn k l) = Some i else index_ofz g (firstn k l) = None) /\
  (if Nat.ltb i k then True else index_ofz g (skipn k l) = Some (i - k)%nat).
Proof.
  induction l as [|y r IH]; intros k i; cbn [index_ofz]; [discriminate|].
  destruct (Z.eqb_spec g y) as [->|Hne].
  - intros [= <-]. destruct k as [|k]; cbn; [rewrite Z.eqb_refl; auto|]. rewrite Z.eqb_refl. auto.
  - destruct (index_ofz g r) as [j|] eqn:Ej; cbn [option_map]; [|discriminate]. intros [= <-].
    destruct k as [|k].
    + cbn. split; [reflexivity|]. destruct (Z.eqb_spec g y); [congruence|]. rewrite Ej. reflexivity.
    + destruct (IH k j eq_refl) as [A B]. cbn [firstn skipn index_ofz].
      destruct (Z.eqb_spec g y); [congruence|].
      change (Nat.ltb (S j) (S k)) with (Nat.ltb j k). destruct (Nat.ltb j k); split; auto.
      * rewrite A. reflexivity.
      * rewrite A. reflexivity.
Qed.
Lemma index_none_parts g l k : index_ofz g l = None -> index_ofz g (firstn k l) = None /\ index_ofz g (skipn k l) = None.
Proof.
  revert k. induction l as [|y r IH]; intros k H; [destruct k; auto|].
  cbn [index_ofz] in H. destruct (Z.eqb_spec g y) as [->|Hne]; [discriminate|].
  destruct (index_ofz g r) eqn:E; [discriminate|]. destruct k as [|k]; cbn [firstn skipn index_ofz].
  - split; [reflexivity|]. destruct (Z.eqb_spec g y); [congruence|]. rewrite E. reflexivity.
  - destruct (IH k eq_refl) as [A B]. destruct (Z.eqb_spec g y); [congruence|]. rewrite A. auto.
Qed.

Theorem split_cov_same {A} (t a b : cov_table A) : length (cov t) = length (recs t) ->
  split_cov t = Some (a, b) -> forall g, first_of (cov_lookup a g) (cov_lookup b g) = cov_lookup t g.
Proof.
  intros Hlen. unfold split_cov. destruct (Nat.leb (length (recs t)) 1) eqn:E; [discriminate|].
  set (k := Nat.div (length (recs t)) 2). intros [= <- <-] g. unfold cov_lookup. cbn [cov recs].
  assert (Hk : (k <= length (recs t))%nat) by (unfold k; apply Nat.div_le_upper_bound; lia).
  destruct (index_ofz g (cov t)) as [i|] eqn:Ei.
  - destruct (index_firstn g (cov t) k i Ei) as [F S_].
    destruct (Nat.ltb i k) eqn:Elt.
    + rewrite F. apply Nat.ltb_lt in Elt. rewrite nth_firstn by exact Elt.
      destruct (nth_error (recs t) i) eqn:En; [reflexivity|].
      (* i < k <= length recs: there is a record *)
      exfalso. apply nth_error_None in En. lia.
    + rewrite F, S_. cbn [first_of]. apply Nat.ltb_ge in Elt. rewrite nth_skipn. f_equal. lia.
  - destruct (index_none_parts g (cov t) k Ei) as [F S_]. rewrite F, S_. reflexivity.
Qed.

(* ---- class pairs *)
Lemma assocz_filter (P : Z -> bool) d g : NoDup (map fst d) ->
  assocz g (filter (fun kv : Z * Z => P (snd kv)) d) = match assocz g d with Some c => if P c then Some c else None | None => None end.
Proof.
  induction d as [|[k c] r IH]; intros Hnd; cbn; [reflexivity|].
  cbn in Hnd. apply NoDup_cons_iff in Hnd. destruct Hnd as [Hni Hnd].
  destruct (Z.eqb_spec g k) as [->|Hne].
  - destruct (P c) eqn:Ep; cbn; [rewrite Z.eqb_refl; reflexivity|].
    rewrite IH by exact Hnd.
    assert (Hn : assocz k r = None).
    { clear -Hni. induction r as [|[k' c'] r' IH]; cbn; [reflexivity|]. cbn in Hni. destruct (Z.eqb_spec k k'); [exfalso; apply Hni; left; congruence|]. apply IH. tauto. }
    rewrite Hn. reflexivity.
  - destruct (P c); cbn; [destruct (Z.eqb_spec g k); [congruence|]|]; apply IH; exact Hnd.
Qed.
Lemma assocz_map_snd (f : Z -> Z) d g : assocz g (map (fun kv : Z * Z => (fst kv, f (snd kv))) d) = option_map f (assocz g d).
Proof. induction d as [|[k c] r IH]; cbn; [reflexivity|]. destruct (Z.eqb g k); [reflexivity | exact IH]. Qed.
Lemma memz_keys_filter (P : Z -> bool) d g : NoDup (map fst d) ->
  memz g (map fst (filter (fun kv : Z * Z => P (snd kv)) d)) = match assocz g d with Some c => P c | None => false end.
Proof.
  unfold memz. induction d as [|[k c] r IH]; intros Hnd; cbn; [reflexivity|].
  cbn in Hnd. apply NoDup_cons_iff in Hnd. destruct Hnd as [Hni Hnd].
  destruct (Z.eqb_spec g k) as [->|Hne].
  - destruct (P c) eqn:Ep; cbn; [rewrite Z.eqb_refl; reflexivity|].
    rewrite IH by exact Hnd.
    assert (Hn : assocz k r = None).
    { clear -Hni. induction r as [|[k' c'] r' IH]; cbn; [reflexivity|]. cbn in Hni. destruct (Z.eqb_spec k k'); [exfalso; apply Hni; left; congruence|]. apply IH. tauto. }
    rewrite Hn. reflexivity.
  - destruct (P c); cbn; [destruct (Z.eqb_spec g k); [congruence|]|]; apply IH; exact Hnd.
Qed.
Lemma memz_filter (P : Z -> bool) l g : memz g (filter P l) = memz g l && P g.
Proof.
  unfold memz. induction l as [|y r IH]; cbn; [reflexivity|]. destruct (P y) eqn:Ep; cbn.
  - rewrite IH. destruct (Z.eqb_spec g y) as [->|]; [rewrite Ep; reflexivity | reflexivity].
  - rewrite IH. destruct (Z.eqb_spec g y) as [->|]; [rewrite Ep; cbn; rewrite andb_false_r; reflexivity | reflexivity].
Qed.

Theorem split_class_same {A} (t a b : class_table A) : NoDup (map fst (classDefs t)) ->
  (forall kv, In kv (classDefs t) -> 0 <= snd kv) ->
  split_class t = Some (a, b) -> forall g, first_of (class_lookup a g) (class_lookup b g) = class_lookup t g.
Proof.
  intros Hnd Hpos. unfold split_class. destruct (Nat.leb (length (rows t)) 1) eqn:E; [discriminate|].
  set (k := Nat.div (length (rows t)) 2). set (kz := Z.of_nat k). intros [= <- <-] g.
  unfold class_lookup. cbn [ccov classDefs rows]. rewrite !memz_filter.
  rewrite (memz_keys_filter (fun c => kz <=? c) (classDefs t) g Hnd).
  destruct (memz g (ccov t)) eqn:Ecov; cbn [andb]; [|reflexivity].
  unfold class_of. rewrite (assocz_filter (fun c => c <? kz) (classDefs t) g Hnd).
  rewrite (assocz_map_snd (fun c => c - kz)), (assocz_filter (fun c => kz <? c) (classDefs t) g Hnd).
  destruct (assocz g (classDefs t)) as [c|] eqn:Ec.
  - assert (Hc : 0 <= c).
    { clear -Ec Hpos. revert Ec. induction (classDefs t) as [|[k' c'] r IH]; cbn; [discriminate|].
      destruct (Z.eqb g k'); [intros [= <-]; apply (Hpos (k', c')); left; reflexivity | apply IH; intros kv H; apply Hpos; right; exact H]. }
    destruct (Z.leb_spec kz c) as [L|L]; cbn [negb].
    + (* the glyph goes to the new subtable *)
      cbn [first_of]. replace (c <? kz) with false by (symmetry; apply Z.ltb_ge; lia).
      destruct (Z.ltb_spec kz c) as [L2|L2]; cbn [option_map].
      * rewrite nth_skipn. f_equal. unfold kz. lia.
      * assert (c = kz) by lia. subst c. rewrite nth_skipn. f_equal. unfold kz. change (Z.to_nat 0) with 0%nat. lia.
    + replace (c <? kz) with true by (symmetry; apply Z.ltb_lt; lia).
      rewrite nth_firstn by (unfold kz in L; lia).
      destruct (nth_error (rows t) (Z.to_nat c)) eqn:En; [reflexivity|].
      exfalso. apply nth_error_None in En.
      assert (Hk : (k <= length (rows t))%nat) by (unfold k; apply Nat.div_le_upper_bound; lia). unfold kz in L. lia.
  - (* class 0: stays in the old subtable *)
    cbn [negb]. change (Z.to_nat 0) with 0%nat.
    assert (Hk1 : (1 <= k)%nat).
    { unfold k. apply Nat.leb_gt in E. apply Nat.div_le_lower_bound; lia. }
    rewrite nth_firstn by lia.
    destruct (nth_error (rows t) 0) eqn:En; [reflexivity|].
    exfalso. apply nth_error_None in En. apply Nat.leb_gt in E. lia.
Qed.

Example split_class_example :
  let t := mkCls [10; 11; 12; 13; 14] [(11, 1); (12, 2); (13, 3); (14, 2)] [100; 101; 102; 103] in
  split_class t = Some (mkCls [10; 11] [(11, 1)] [100; 101], mkCls [12; 13; 14] [(13, 1)] [102; 103]).
Proof. reflexivity. Qed.

Lemma split_cov_same_Z (t a b : cov_table Z) : length (cov t) = length (recs t) ->
  split_cov t = Some (a, b) -> forall g, first_of (cov_lookup a g) (cov_lookup b g) = cov_lookup t g.
Proof. apply split_cov_same. Qed.
Lemma split_class_same_Z (t a b : class_table Z) : NoDup (map fst (classDefs t)) ->
  (forall kv, In kv (classDefs t) -> 0 <= snd kv) ->
  split_class t = Some (a, b) -> forall g, first_of (class_lookup a g) (class_lookup b g) = class_lookup t g.
Proof. apply split_class_same. Qed.
