From Coq Require Import ZArith List String Bool.
From FV Require Import Base.Ser Base.Res C06.Model.
From FV Require C06.ModelSplit.
Import ListNotations.
Open Scope string_scope.
Definition split_cov_z (c : list Z) (r : list Z) : option ((list Z * list Z) * (list Z * list Z)) :=
  match ModelSplit.split_cov (ModelSplit.mkCov c r) with
  | Some (a, b) => Some ((ModelSplit.cov a, ModelSplit.recs a), (ModelSplit.cov b, ModelSplit.recs b))
  | None => None end.
Definition split_class_z (c : list Z) (d : list (Z * Z)) (r : list Z) :=
  match ModelSplit.split_class (ModelSplit.mkCls c d r) with
  | Some (a, b) => Some (((ModelSplit.ccov a, ModelSplit.classDefs a), ModelSplit.rows a), ((ModelSplit.ccov b, ModelSplit.classDefs b), ModelSplit.rows b))
  | None => None end.
Definition reg : registry := [
  ("getAllData", run3 getAllData);
  ("split_cov", run2 split_cov_z);
  ("split_class", run3 split_class_z)
].
Definition fv_entry := dispatch reg.
