From Coq Require Import ZArith List String Bool.
From FV Require Import Base.Ser Base.Res C06.Model.
Import ListNotations.
Open Scope string_scope.
Definition reg : registry := [
  ("getAllData", run3 getAllData)
].
Definition fv_entry := dispatch reg.
