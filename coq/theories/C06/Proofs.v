(* C06/Proofs.v *)
From Coq Require Import ZArith List Bool Lia Arith.
From FV Require Import Base.Ser Base.Res Base.BE C06.Model.
Import ListNotations.
Open Scope Z_scope.

(* NO WRAPPED OFFSETS: whenever an offset field is emitted, reading it back gives exactly the distance
   from the table to its sub-table, and that distance fits the field; otherwise an error is raised *)
Theorem offset_exact ps selfpos s c bs rest :
  render_item ps selfpos (IO s c) = Ok bs ->
  (s = 2 \/ s = 3 \/ s = 4)%nat /\ length bs = s /\
  take_be s (bs ++ rest) = Some (pos_of c ps - selfpos, rest) /\
  0 <= pos_of c ps - selfpos < 2 ^ (8 * Z.of_nat s).
Proof.
  unfold render_item. set (d := pos_of c ps - selfpos).
  destruct (Nat.eqb_spec s 2) as [->|N2].
  { destruct ((0 <=? d) && (d <? 65536)) eqn:E; [|discriminate]. intros H. apply Ok_inj in H. subst bs.
    change (2 ^ (8 * Z.of_nat 2)) with 65536.
    split; [auto|]. split; [apply pack_be_length|]. split; [|lia].
    rewrite take_pack. change (2 ^ (8 * Z.of_nat 2)) with 65536. rewrite Z.mod_small by lia. reflexivity. }
  destruct (Nat.eqb_spec s 3) as [->|N3].
  { destruct ((0 <=? d) && (d <? 16777216)) eqn:E; [|discriminate]. intros H. apply Ok_inj in H. subst bs.
    change (2 ^ (8 * Z.of_nat 3)) with 16777216.
    split; [auto|]. split; [apply pack_be_length|]. split; [|lia].
    rewrite take_pack. change (2 ^ (8 * Z.of_nat 3)) with 16777216. rewrite Z.mod_small by lia. reflexivity. }
  destruct (Nat.eqb_spec s 4) as [->|N4].
  { destruct ((0 <=? d) && (d <? 4294967296)) eqn:E; [|discriminate]. intros H. apply Ok_inj in H. subst bs.
    change (2 ^ (8 * Z.of_nat 4)) with 4294967296.
    split; [auto|]. split; [apply pack_be_length|]. split; [|lia].
    rewrite take_pack. change (2 ^ (8 * Z.of_nat 4)) with 4294967296. rewrite Z.mod_small by lia. reflexivity. }
  discriminate.
Qed.

(* every emitted item has exactly its declared length, so positions computed from lengths are the
   real byte offsets *)
Lemma render_item_length ps sp it bs : render_item ps sp it = Ok bs -> Z.of_nat (length bs) = item_len it.
Proof.
  destruct it as [b|s c]; cbn [render_item item_len].
  - intros H. apply Ok_inj in H. subst. reflexivity.
  - intros H. destruct (offset_exact ps sp s c bs [] H) as (_ & L & _). rewrite L. reflexivity.
Qed.

Lemma render_items_length ps sp its : forall bs, render_items ps sp its = Ok bs ->
  Z.of_nat (length bs) = fold_right (fun it a => item_len it + a) 0 its.
Proof.
  induction its as [|it r IH]; intros bs H; cbn [render_items] in H.
  - apply Ok_inj in H. subst. reflexivity.
  - destruct (render_item ps sp it) as [a|e] eqn:E1; [|discriminate]. cbn [bind] in H.
    destruct (render_items ps sp r) as [b|e] eqn:E2; [|discriminate]. cbn [bind] in H.
    apply Ok_inj in H. subst bs. rewrite app_length, Nat2Z.inj_add. cbn [fold_right].
    rewrite (render_item_length _ _ _ _ E1), (IH b eq_refl). reflexivity.
Qed.

(* the bytes of the k-th table of the output start exactly at the sum of the lengths before it *)
Theorem table_at_its_position t ps order : forall data,
  render_all t ps order = Ok data ->
  forall pre n post, order = pre ++ n :: post ->
  exists before this after,
    data = before ++ this ++ after /\
    Z.of_nat (length before) = fold_right (fun m a => node_len t m + a) 0 pre /\
    render_items ps (pos_of n ps) (items (getn t n)) = Ok this /\
    Z.of_nat (length this) = node_len t n.
Proof.
  induction order as [|m r IH]; intros data H pre n post E.
  - destruct pre; discriminate.
  - cbn [render_all] in H.
    destruct (render_items ps (pos_of m ps) (items (getn t m))) as [a|e] eqn:E1; [|discriminate]. cbn [bind] in H.
    destruct (render_all t ps r) as [b|e] eqn:E2; [|discriminate]. cbn [bind] in H. apply Ok_inj in H. subst data.
    destruct pre as [|p pre'].
    + cbn [app] in E. injection E as -> ->.
      exists [], a, b. repeat split; auto. apply (render_items_length _ _ _ _ E1).
    + cbn [app] in E. injection E as -> ->.
      destruct (IH b eq_refl pre' n post eq_refl) as (bf & th & af & D & L & R & Ln).
      exists (a ++ bf), th, af. repeat split; auto.
      * rewrite D, <- app_assoc. reflexivity.
      * rewrite app_length, Nat2Z.inj_add, L. cbn [fold_right]. unfold node_len at 2.
        rewrite (render_items_length _ _ _ _ E1). reflexivity.
Qed.

(* positions assigns to the first occurrence-free order exactly those running sums *)
Lemma positions_spec t order : forall p acc n pre post,
  order = pre ++ n :: post -> ~ In n post ->
  pos_of n (positions t order p acc) = p + fold_right (fun m a => node_len t m + a) 0 pre.
Proof.
  induction order as [|m r IH]; intros p acc n pre post E NI; [destruct pre; discriminate|].
  cbn [positions]. destruct pre as [|q pre'].
  - cbn [app] in E. injection E as -> ->. cbn [fold_right].
    assert (K: forall r' p' acc', ~ In n r' -> pos_of n acc' = p -> pos_of n (positions t r' p' acc') = p).
    { induction r' as [|x r' IH']; intros p' acc' NI' Hacc; cbn [positions]; [exact Hacc|].
      apply IH'; [intros Hx; apply NI'; right; exact Hx|].
      cbn [pos_of]. destruct (Nat.eqb_spec x n) as [->|Nx]; [exfalso; apply NI'; left; reflexivity|exact Hacc]. }
    rewrite K; [lia|exact NI|]. cbn [pos_of]. rewrite Nat.eqb_refl. reflexivity.
  - cbn [app] in E. injection E as -> ->. cbn [fold_right].
    rewrite (IH (p + node_len t q) ((q, p) :: acc) n pre' post eq_refl NI). lia.
Qed.
