(* C16/ModelOrder.v — ttLib/ttFont.py sortedTagList (1640-1663) with the recommended orders regenerated from the source
   (Data_tableorder.v): the order TTFont.keys() lists the tables in, hence the order save() walks and reorderTables writes them.
   Tags are big-endian integers (sorting them is sorting the 4-byte strings); the function is modelled on SETS of tags (the keys of
   a font's table dict). *)
From Coq Require Import ZArith List Bool.
From FV Require Import Base.Ser Base.Res C16.Model Data.Data_tableorder.
Import ListNotations.
Open Scope Z_scope.

Definition memz (x : Z) (l : list Z) : bool := existsb (Z.eqb x) l.
Fixpoint remove1 (x : Z) (l : list Z) : list Z :=
  match l with [] => [] | y :: r => if x =? y then r else y :: remove1 x r end.
Definition pick_step (st : list Z * list Z) (t : Z) : list Z * list Z :=
  if memz t (snd st) then (fst st ++ [t], remove1 t (snd st)) else st.
Definition sortedTagList_with (order : option (list Z)) (tags : list Z) : list Z :=
  let s := uniq_sort tags in
  let '(s1, ord) :=
      match order with
      | Some o => (s, o)
      | None =>
        let s1 := if memz tag_DSIG s then remove1 tag_DSIG s ++ [tag_DSIG] else s in
        (s1, if memz tag_CFF s1 then OTFTableOrder else TTFTableOrder)
      end in
  let st := fold_left pick_step ord ([], s1) in
  fst st ++ snd st.
Definition sortedTagList (tags : list Z) : list Z := sortedTagList_with None tags.
