(* C16/Model.v — (1) order independence of numbering built with sorted(set(...));
   (2) the save state machine of TTFont (ttLib/ttFont.py:259-323, 402-427, 1240-1287):
   tables are written in a fixed order; a loaded table is compiled — which may LOAD further tables as
   a side effect (head reads CFF for the font box, hhea reads glyf/hmtx, loca reads head ...) — an
   unloaded one is copied from the reader. *)
From Coq Require Import ZArith List Bool.
From FV Require Import Base.Ser Base.Res.
Import ListNotations.
Open Scope Z_scope.

(* ---- sorted(set(l)) over integers (glyph ids, lookup indices, class numbers ...) *)
Fixpoint insert_uniq (x : Z) (l : list Z) : list Z :=
  match l with
  | [] => [x]
  | y :: r => if x <? y then x :: l else if x =? y then l else y :: insert_uniq x r
  end.
Definition uniq_sort (l : list Z) : list Z := fold_right insert_uniq [] l.

(* ---- save state machine *)
Section Save.
  Variable content : Type.
  Variable reader : Z -> list Z.              (* raw bytes of each table in the file *)
  Variable dec : Z -> list Z -> content.
  Variable enc : Z -> content -> list Z.
  Variable sideloads : Z -> list Z.           (* tables loaded while compiling a table *)

  Definition lstate := Z -> option content.    (* the loaded tables *)
  Definition access (t : Z) (ld : lstate) : lstate :=
    fun x => if x =? t then match ld t with Some c => Some c | None => Some (dec t (reader t)) end else ld x.

  Definition write_one (ld : lstate) (t : Z) : lstate * list Z :=
    match ld t with
    | Some c => (fold_right access ld (sideloads t), enc t c)
    | None => (ld, reader t)
    end.

  Fixpoint save (ld : lstate) (order : list Z) : lstate * list (list Z) :=
    match order with
    | [] => (ld, [])
    | t :: r => let '(ld1, b) := write_one ld t in let '(ld2, bs) := save ld1 r in (ld2, b :: bs)
    end.

  Definition stable (t : Z) : Prop := enc t (dec t (reader t)) = reader t.
  (* ld' is ld plus some freshly decoded, byte-stable tables *)
  Definition ext (ld ld' : lstate) : Prop :=
    forall t, ld' t = ld t \/ (ld t = None /\ ld' t = Some (dec t (reader t)) /\ stable t).
End Save.

(* a concrete instance used for the refutation witness: content = bytes, decode strips a trailing 0
   (so enc (dec b) <> b for b ending in 0), tags 1 and 2, compiling 1 loads 2 *)
Definition w_reader (t : Z) : list Z := if t =? 1 then [7] else [5; 0].
Definition w_dec (t : Z) (b : list Z) : list Z := match rev b with 0 :: r => rev r | _ => b end.
Definition w_enc (t : Z) (c : list Z) : list Z := c.
Definition w_sideloads (t : Z) : list Z := if t =? 1 then [2] else [].
Definition w_ld0 : lstate (list Z) := fun t => if t =? 1 then Some [7] else None.
