(* C16/Proofs.v *)
From Coq Require Import ZArith List Bool Lia Permutation Sorted.
From FV Require Import Base.Ser Base.Res C16.Model.
Import ListNotations.
Open Scope Z_scope.

(* ---------- sorted(set(l)) does not depend on the order in which the set hands over its elements ---------- *)
Lemma insert_uniq_In x l y : In y (insert_uniq x l) <-> y = x \/ In y l.
Proof.
  induction l as [|z r IH]; cbn [insert_uniq In].
  - split; [intros [H|[]]; left; auto|intros [H|[]]; left; auto].
  - destruct (x <? z) eqn:E1; cbn [In].
    + split; [intros [H|[H|H]]; auto|intros [H|[H|H]]; auto].
    + destruct (x =? z) eqn:E2; cbn [In].
      * apply Z.eqb_eq in E2. subst. split; [intros [H|H]; auto|intros [H|[H|H]]; auto].
      * rewrite IH. split; [intros [H|[H|H]]; auto|intros [H|[H|H]]; auto].
Qed.

Lemma uniq_sort_In l y : In y (uniq_sort l) <-> In y l.
Proof.
  induction l as [|x r IH]; cbn [uniq_sort fold_right In]; [split; auto|].
  fold (uniq_sort r). rewrite insert_uniq_In, IH. split; intros [H|H]; auto.
Qed.

Definition ssorted (l : list Z) : Prop := StronglySorted Z.lt l.

Lemma insert_uniq_sorted x l : ssorted l -> ssorted (insert_uniq x l).
Proof.
  unfold ssorted. induction l as [|y r IH]; intros S; cbn [insert_uniq].
  - constructor; constructor.
  - inversion S as [|? ? Sr Fr]; subst.
    destruct (x <? y) eqn:E1.
    + apply Z.ltb_lt in E1. constructor; [exact S|]. constructor; [exact E1|].
      rewrite Forall_forall in *. intros z Hz. specialize (Fr z Hz). lia.
    + destruct (x =? y) eqn:E2; [exact S|].
      apply Z.ltb_ge in E1. apply Z.eqb_neq in E2.
      constructor; [apply IH; exact Sr|].
      rewrite Forall_forall in *. intros z Hz. apply insert_uniq_In in Hz. destruct Hz as [->|Hz]; [lia|apply Fr; exact Hz].
Qed.

Lemma uniq_sort_sorted l : ssorted (uniq_sort l).
Proof. induction l as [|x r IH]; cbn [uniq_sort fold_right]; [constructor|]. apply insert_uniq_sorted. exact IH. Qed.

(* two strictly sorted lists with the same elements are equal *)
Lemma ssorted_ext a : forall b, ssorted a -> ssorted b -> (forall x, In x a <-> In x b) -> a = b.
Proof.
  unfold ssorted. induction a as [|x a IH]; intros b Sa Sb H.
  - destruct b as [|y b]; [reflexivity|]. exfalso. apply (H y). left. reflexivity.
  - destruct b as [|y b]; [exfalso; apply (H x); left; reflexivity|].
    inversion Sa as [|? ? Sa' Fa]; subst. inversion Sb as [|? ? Sb' Fb]; subst.
    rewrite Forall_forall in Fa, Fb.
    assert (x = y).
    { destruct (proj1 (H x) (or_introl eq_refl)) as [E|Hin]; [auto|].
      destruct (proj2 (H y) (or_introl eq_refl)) as [E|Hin2]; [auto|].
      specialize (Fb x Hin). specialize (Fa y Hin2). lia. }
    subst y. f_equal. apply IH; auto.
    intros z. split; intros Hz.
    + destruct (proj1 (H z) (or_intror Hz)) as [E|Hin]; [|exact Hin]. subst z. specialize (Fa x Hz). lia.
    + destruct (proj2 (H z) (or_intror Hz)) as [E|Hin]; [|exact Hin]. subst z. specialize (Fb x Hz). lia.
Qed.

Theorem uniq_sort_perm_invariant l l' : Permutation l l' -> uniq_sort l = uniq_sort l'.
Proof.
  intros P. apply ssorted_ext; try apply uniq_sort_sorted.
  intros x. rewrite !uniq_sort_In. split; [apply Permutation_in; exact P|apply Permutation_in; apply Permutation_sym; exact P].
Qed.

(* even more: only the SET matters (duplicates are irrelevant) *)
Theorem uniq_sort_set_invariant l l' : (forall x, In x l <-> In x l') -> uniq_sort l = uniq_sort l'.
Proof.
  intros H. apply ssorted_ext; try apply uniq_sort_sorted.
  intros x. rewrite !uniq_sort_In. apply H.
Qed.

(* ---------- save ---------- *)
Section SaveProofs.
  Variable content : Type.
  Variable reader : Z -> list Z.
  Variable dec : Z -> list Z -> content.
  Variable enc : Z -> content -> list Z.
  Variable sideloads : Z -> list Z.
  Notation access := (access content reader dec).
  Notation write_one := (write_one content reader dec enc sideloads).
  Notation save := (save content reader dec enc sideloads).
  Notation ext := (ext content reader dec enc).
  Notation stable := (stable content reader dec enc).

  Lemma ext_refl ld : ext ld ld.
  Proof. intros t. left. reflexivity. Qed.

  Lemma ext_access s ld ld' : ext ld ld' -> ext (access s ld) (access s ld').
  Proof.
    intros H t. unfold Model.access. destruct (t =? s) eqn:E; [|apply H].
    apply Z.eqb_eq in E. subst t. destruct (H s) as [E1|(E1 & E2 & E3)].
    - rewrite E1. left. reflexivity.
    - rewrite E1, E2. left. reflexivity.
  Qed.

  Lemma ext_accesses l ld ld' : ext ld ld' -> ext (fold_right access ld l) (fold_right access ld' l).
  Proof. induction l as [|s r IH]; intros H; cbn [fold_right]; [exact H|]. apply ext_access. apply IH. exact H. Qed.

  (* loading a byte-stable (or already loaded) table keeps the state an extension *)
  Lemma ext_access_new s ld ld' : ext ld ld' -> (ld s <> None \/ stable s) -> ext ld (access s ld').
  Proof.
    intros H Hs t. unfold Model.access. destruct (t =? s) eqn:E; [|apply H].
    apply Z.eqb_eq in E. subst t. destruct (H s) as [E1|(E1 & E2 & E3)].
    - rewrite E1. destruct (ld s) as [c|] eqn:L; [left; reflexivity|].
      right. destruct Hs as [Hs|Hs]; [congruence|]. auto.
    - rewrite E2. right. auto.
  Qed.

  Lemma ext_accesses_new l ld ld' : ext ld ld' -> (forall s, In s l -> ld s <> None \/ stable s) ->
    ext ld (fold_right access ld' l).
  Proof.
    induction l as [|s r IH]; intros H Hs; cbn [fold_right]; [exact H|].
    apply ext_access_new; [apply IH; [exact H|intros; apply Hs; right; assumption]|apply Hs; left; reflexivity].
  Qed.

  Lemma access_mono s t ld : ld s <> None -> access t ld s <> None.
  Proof. intros H. unfold Model.access. destruct (s =? t) eqn:E; [|exact H]. apply Z.eqb_eq in E. subst. destruct (ld t); [discriminate|contradiction]. Qed.
  Lemma accesses_mono l s ld : ld s <> None -> fold_right access ld l s <> None.
  Proof. induction l as [|t r IH]; intros H; cbn [fold_right]; [exact H|]. apply access_mono. apply IH. exact H. Qed.

  (* Extending the set of loaded tables by byte-stable tables never changes what is written, provided
     every table that compiling may side-effect-load is byte-stable or was loaded before the save. *)
  Theorem save_ext_same_bytes order : forall ld ld', ext ld ld' ->
    (forall t s, In t order -> In s (sideloads t) -> ld s <> None \/ stable s) ->
    snd (save ld order) = snd (save ld' order).
  Proof.
    induction order as [|t r IH]; intros ld ld' H HS; cbn [Model.save]; [reflexivity|].
    unfold Model.write_one.
    assert (HSr: forall ldx : lstate content, (forall s, ld s <> None -> ldx s <> None) ->
                 forall t0 s, In t0 r -> In s (sideloads t0) -> ldx s <> None \/ stable s).
    { intros ldx M t0 s Ht Hs. destruct (HS t0 s (or_intror Ht) Hs) as [A|A]; [left; apply M; exact A|right; exact A]. }
    destruct (H t) as [E|(E1 & E2 & E3)].
    - rewrite E. destruct (ld t) as [c|] eqn:L.
      + specialize (IH (fold_right access ld (sideloads t)) (fold_right access ld' (sideloads t)) (ext_accesses _ _ _ H)
                       (HSr _ (fun s => accesses_mono (sideloads t) s ld))).
        destruct (Model.save _ _ _ _ _ (fold_right access ld (sideloads t)) r) as [x bs].
        destruct (Model.save _ _ _ _ _ (fold_right access ld' (sideloads t)) r) as [x' bs']. cbn [snd] in *. rewrite IH. reflexivity.
      + specialize (IH ld ld' H (HSr ld (fun s A => A))).
        destruct (Model.save _ _ _ _ _ ld r) as [x bs]. destruct (Model.save _ _ _ _ _ ld' r) as [x' bs']. cbn [snd] in *. rewrite IH. reflexivity.
    - rewrite E1, E2.
      assert (Hb: enc t (dec t (reader t)) = reader t) by exact E3. rewrite Hb.
      assert (X: ext ld (fold_right access ld' (sideloads t))).
      { apply ext_accesses_new; [exact H|]. intros s Hs. apply (HS t s (or_introl eq_refl) Hs). }
      specialize (IH ld (fold_right access ld' (sideloads t)) X (HSr ld (fun s A => A))).
      destruct (Model.save _ _ _ _ _ ld r) as [x bs]. destruct (Model.save _ _ _ _ _ (fold_right access ld' (sideloads t)) r) as [x' bs'].
      cbn [snd] in *. rewrite IH. reflexivity.
  Qed.

  (* the state after a save is such an extension *)
  Lemma save_state_ext order : forall ld,
    (forall t s, In t order -> In s (sideloads t) -> ld s <> None \/ stable s) -> ext ld (fst (save ld order)).
  Proof.
    induction order as [|t r IH]; intros ld HS; cbn [Model.save]; [apply ext_refl|].
    unfold Model.write_one. destruct (ld t) as [c|] eqn:L.
    - set (ld1 := fold_right access ld (sideloads t)).
      assert (X: ext ld ld1) by (apply ext_accesses_new; [apply ext_refl|intros s Hs; apply (HS t s (or_introl eq_refl) Hs)]).
      assert (HS1: forall t0 s, In t0 r -> In s (sideloads t0) -> ld1 s <> None \/ stable s).
      { intros t0 s Ht Hs. destruct (HS t0 s (or_intror Ht) Hs) as [A|A]; [left; apply accesses_mono; exact A|right; exact A]. }
      specialize (IH ld1 HS1). destruct (Model.save _ _ _ _ _ ld1 r) as [x bs]. cbn [fst] in *.
      (* ext is transitive *)
      intros u. destruct (X u) as [A|(A1 & A2 & A3)]; destruct (IH u) as [B|(B1 & B2 & B3)].
      + left. rewrite B. exact A.
      + right. rewrite <- A. auto.
      + right. repeat split; auto. rewrite B. exact A2.
      + rewrite A2 in B1. discriminate B1.
    - assert (HS1: forall t0 s, In t0 r -> In s (sideloads t0) -> ld s <> None \/ stable s) by (intros; eapply HS; eauto; right; assumption).
      specialize (IH ld HS1). destruct (Model.save _ _ _ _ _ ld r) as [x bs]. exact IH.
  Qed.

  (* SAVE IS IDEMPOTENT: a second save of the same object writes the same bytes — provided every table
     that a compile side-effect-loads was loaded before or is byte-stable. *)
  Theorem save_idempotent order ld :
    (forall t s, In t order -> In s (sideloads t) -> ld s <> None \/ stable s) ->
    snd (save (fst (save ld order)) order) = snd (save ld order).
  Proof.
    intros HS. symmetry. apply save_ext_same_bytes; [apply save_state_ext; exact HS|exact HS].
  Qed.

  (* ... and so is any history of table accesses to byte-stable tables: the touched SET of unstable
     tables is all that matters *)
  Theorem access_history_irrelevant order ld (hist : list Z) :
    (forall s, In s hist -> ld s <> None \/ stable s) ->
    (forall t s, In t order -> In s (sideloads t) -> ld s <> None \/ stable s) ->
    snd (save (fold_right access ld hist) order) = snd (save ld order).
  Proof.
    intros Hh HS. symmetry. apply save_ext_same_bytes; [|exact HS].
    apply ext_accesses_new; [apply ext_refl|exact Hh].
  Qed.
End SaveProofs.

(* without the side condition the statement is FALSE (known finding F13): compiling table 1 loads table 2,
   whose decoder is not byte-stable, after table 2 was already copied raw *)
Theorem save_idempotent_refuted :
  snd (save (list Z) w_reader w_dec w_enc w_sideloads (fst (save (list Z) w_reader w_dec w_enc w_sideloads w_ld0 [2; 1])) [2; 1])
  <> snd (save (list Z) w_reader w_dec w_enc w_sideloads w_ld0 [2; 1]).
Proof. vm_compute. intros H. discriminate H. Qed.
