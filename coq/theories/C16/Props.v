(* C16/Props.v — property theorems only *)
From Coq Require Import ZArith List Bool Permutation.
From FV Require Import Base.Ser Base.Res C16.Model C16.Proofs.
Import ListNotations.
Open Scope Z_scope.

(* numbering built with sorted(set(...)) does not depend on the order in which the set is iterated *)
Theorem uniq_sort_perm_invariant : forall l l', Permutation l l' -> uniq_sort l = uniq_sort l'.
Proof. exact Proofs.uniq_sort_perm_invariant. Qed.
Print Assumptions uniq_sort_perm_invariant.

Theorem uniq_sort_set_invariant : forall l l', (forall x, In x l <-> In x l') -> uniq_sort l = uniq_sort l'.
Proof. exact Proofs.uniq_sort_set_invariant. Qed.
Print Assumptions uniq_sort_set_invariant.

(* a second save writes the same bytes, provided every table a compile side-effect-loads was loaded
   before the save or is byte-stable *)
Theorem save_idempotent : forall (content : Type) reader dec enc sideloads order (ld : lstate content),
  (forall t s, In t order -> In s (sideloads t) -> ld s <> None \/ stable content reader dec enc s) ->
  snd (save content reader dec enc sideloads (fst (save content reader dec enc sideloads ld order)) order)
  = snd (save content reader dec enc sideloads ld order).
Proof. exact Proofs.save_idempotent. Qed.
Print Assumptions save_idempotent.

(* the order (and number) of earlier accesses to byte-stable tables does not matter *)
Theorem access_history_irrelevant : forall (content : Type) reader dec enc sideloads order (ld : lstate content) hist,
  (forall s, In s hist -> ld s <> None \/ stable content reader dec enc s) ->
  (forall t s, In t order -> In s (sideloads t) -> ld s <> None \/ stable content reader dec enc s) ->
  snd (save content reader dec enc sideloads (fold_right (access content reader dec) ld hist) order)
  = snd (save content reader dec enc sideloads ld order).
Proof. exact Proofs.access_history_irrelevant. Qed.
Print Assumptions access_history_irrelevant.

(* without the side condition idempotence is FALSE: known finding F13 *)
Theorem save_idempotent_refuted :
  snd (save (list Z) w_reader w_dec w_enc w_sideloads (fst (save (list Z) w_reader w_dec w_enc w_sideloads w_ld0 [2; 1])) [2; 1])
  <> snd (save (list Z) w_reader w_dec w_enc w_sideloads w_ld0 [2; 1]).
Proof. exact Proofs.save_idempotent_refuted. Qed.
Print Assumptions save_idempotent_refuted.
