(* C16/Props.v — property theorems only *)
From Coq Require Import ZArith List Bool Permutation.
From FV Require Import Base.Ser Base.Res C16.Model C16.Proofs C16.ModelOrder C16.ProofsOrder Data.Data_tableorder.
Import ListNotations.
Open Scope Z_scope.

(* numbering built with sorted(set(...)) does not depend on the order in which the set is iterated *)
Theorem uniq_sort_perm_invariant : forall l l', Permutation l l' -> uniq_sort l = uniq_sort l'.
Proof. exact Proofs.uniq_sort_perm_invariant. Qed.
Print Assumptions uniq_sort_perm_invariant.

Theorem uniq_sort_set_invariant : forall l l', (forall x, In x l <-> In x l') -> uniq_sort l = uniq_sort l'.
Proof. exact Proofs.uniq_sort_set_invariant. Qed.
Print Assumptions uniq_sort_set_invariant.

(* a second save writes the same bytes, provided every table a compile side-effect-loads was loaded
   before the save or is byte-stable *)
Theorem save_idempotent : forall (content : Type) reader dec enc sideloads order (ld : lstate content),
  (forall t s, In t order -> In s (sideloads t) -> ld s <> None \/ stable content reader dec enc s) ->
  snd (save content reader dec enc sideloads (fst (save content reader dec enc sideloads ld order)) order)
  = snd (save content reader dec enc sideloads ld order).
Proof. exact Proofs.save_idempotent. Qed.
Print Assumptions save_idempotent.

(* the order (and number) of earlier accesses to byte-stable tables does not matter *)
Theorem access_history_irrelevant : forall (content : Type) reader dec enc sideloads order (ld : lstate content) hist,
  (forall s, In s hist -> ld s <> None \/ stable content reader dec enc s) ->
  (forall t s, In t order -> In s (sideloads t) -> ld s <> None \/ stable content reader dec enc s) ->
  snd (save content reader dec enc sideloads (fold_right (access content reader dec) ld hist) order)
  = snd (save content reader dec enc sideloads ld order).
Proof. exact Proofs.access_history_irrelevant. Qed.
Print Assumptions access_history_irrelevant.

(* without the side condition idempotence is FALSE: known finding F13 *)
Theorem save_idempotent_refuted :
  snd (save (list Z) w_reader w_dec w_enc w_sideloads (fst (save (list Z) w_reader w_dec w_enc w_sideloads w_ld0 [2; 1])) [2; 1])
  <> snd (save (list Z) w_reader w_dec w_enc w_sideloads w_ld0 [2; 1]).
Proof. exact Proofs.save_idempotent_refuted. Qed.
Print Assumptions save_idempotent_refuted.

(* ttFont.sortedTagList — the order TTFont.keys() lists, save() walks and reorderTables writes the tables in — depends only on
   the SET of tables, whatever order they were loaded or added in *)
Theorem table_order_depends_on_set_only : forall order l l', Permutation l l' ->
  sortedTagList_with order l = sortedTagList_with order l'.
Proof. exact ProofsOrder.table_order_depends_on_set_only. Qed.
Print Assumptions table_order_depends_on_set_only.

(* ... and lists every table exactly once *)
Theorem table_order_lists_every_table_once : forall order l, NoDup l -> Permutation (sortedTagList_with order l) l.
Proof. exact ProofsOrder.table_order_lists_every_table_once. Qed.
Print Assumptions table_order_lists_every_table_once.

(* the whole function: the recommended tags that are present, in the recommended order; then everything else, sorted *)
Theorem table_order_follows_recommendation : forall o l, NoDup o ->
  sortedTagList_with (Some o) l
  = filter (fun t => memz t l) o ++ filter (fun u => negb (memz u o)) (uniq_sort l).
Proof. exact ProofsOrder.table_order_follows_recommendation. Qed.
Print Assumptions table_order_follows_recommendation.

(* with the orders the source declares (regenerated into Data_tableorder on every run): DSIG, when present, is last *)
Theorem dsig_is_written_last : forall l, In tag_DSIG l -> exists front, sortedTagList l = front ++ [tag_DSIG].
Proof. exact ProofsOrder.dsig_is_written_last. Qed.
Print Assumptions dsig_is_written_last.
