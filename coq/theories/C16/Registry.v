From Coq Require Import ZArith List String Bool.
From FV Require Import Base.Ser Base.Res C16.Model C16.ModelOrder.
Import ListNotations.
Open Scope string_scope.
(* a data-driven instance of the save machine: content = bytes the table recompiles to *)
Fixpoint alist_get {A} (d : A) (k : Z) (l : list (Z * A)) : A :=
  match l with [] => d | (k', v) :: r => if (k =? k')%Z then v else alist_get d k r end.
Definition sim_save (raw recompiled : list (Z * list Z)) (side : list (Z * list Z)) (preloaded order : list Z)
  : list (list Z) * list (list Z) :=
  let reader := fun t => alist_get [] t raw in
  let dec := fun t (_ : list Z) => alist_get [] t recompiled in
  let enc := fun (_ : Z) (c : list Z) => c in
  let sl := fun t => alist_get [] t side in
  let ld0 : lstate (list Z) := fun t => if existsb (Z.eqb t) preloaded then Some (alist_get [] t recompiled) else None in
  let '(ld1, b1) := save (list Z) reader dec enc sl ld0 order in
  let '(_, b2) := save (list Z) reader dec enc sl ld1 order in
  (b1, b2).
Definition run5 {A B C D E F} `{De A} `{De B} `{De C} `{De D} `{De E} `{Ser F}
  (f : A -> B -> C -> D -> E -> F) (inp : list Z) : list Z :=
  run1 (fun p : A * B * C * D * E => f (fst (fst (fst (fst p)))) (snd (fst (fst (fst p)))) (snd (fst (fst p))) (snd (fst p)) (snd p)) inp.
Definition reg : registry := [
  ("uniq_sort", run1 uniq_sort);
  ("sim_save", run5 sim_save);
  ("sortedTagList", run2 sortedTagList_with)
].
Definition fv_entry := dispatch reg.
