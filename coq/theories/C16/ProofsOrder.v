(* C16/ProofsOrder.v — the table order depends only on the SET of tables, and lists every table exactly once *)
From Coq Require Import ZArith List Bool Lia Permutation.
From FV Require Import Base.Ser Base.Res C16.Model C16.Proofs C16.ModelOrder Data.Data_tableorder.
Import ListNotations.
Open Scope Z_scope.

Theorem table_order_depends_on_set_only order l l' : Permutation l l' -> sortedTagList_with order l = sortedTagList_with order l'.
Proof. intros H. unfold sortedTagList_with. rewrite (uniq_sort_perm_invariant l l' H). reflexivity. Qed.

Lemma memz_In x l : memz x l = true <-> In x l.
Proof.
  unfold memz. rewrite existsb_exists. split.
  - intros [y [Hy E]]. apply Z.eqb_eq in E. subst. exact Hy.
  - intros H. exists x. split; [exact H|apply Z.eqb_refl].
Qed.
Lemma remove1_perm x : forall l, In x l -> Permutation (x :: remove1 x l) l.
Proof.
  induction l as [|y r IH]; intros H; [contradiction|]. cbn [remove1].
  destruct (Z.eqb_spec x y) as [->|N]; [reflexivity|].
  destruct H as [H|H]; [congruence|]. eapply perm_trans; [apply perm_swap|]. apply perm_skip, IH, H.
Qed.
Lemma pick_perm : forall ord st, Permutation (fst (fold_left pick_step ord st) ++ snd (fold_left pick_step ord st)) (fst st ++ snd st).
Proof.
  induction ord as [|t ord IH]; intros st; cbn [fold_left]; [reflexivity|].
  eapply perm_trans; [apply IH|]. unfold pick_step. destruct (memz t (snd st)) eqn:E; [|reflexivity].
  cbn [fst snd]. apply memz_In in E. rewrite <- app_assoc. apply Permutation_app_head. cbn [app]. apply remove1_perm, E.
Qed.

Lemma ssorted_nodup l : ssorted l -> NoDup l.
Proof.
  unfold ssorted. induction l as [|a r IH]; intros Hs; [constructor|].
  inversion Hs as [|? ? Sr Fr]; subst. constructor; [|apply IH, Sr].
  intros Hin. rewrite Forall_forall in Fr. specialize (Fr a Hin). lia.
Qed.

Theorem table_order_lists_every_table_once order l : NoDup l -> Permutation (sortedTagList_with order l) l.
Proof.
  intros ND. unfold sortedTagList_with.
  assert (Hs : Permutation (uniq_sort l) l).
  { apply NoDup_Permutation; [apply ssorted_nodup, uniq_sort_sorted|exact ND|intros x; apply uniq_sort_In]. }
  destruct order as [o|].
  - eapply perm_trans; [apply pick_perm|]. cbn [fst snd app]. exact Hs.
  - set (s1 := if memz tag_DSIG (uniq_sort l) then remove1 tag_DSIG (uniq_sort l) ++ [tag_DSIG] else uniq_sort l).
    assert (H1 : Permutation s1 (uniq_sort l)).
    { unfold s1. destruct (memz tag_DSIG (uniq_sort l)) eqn:E; [|reflexivity]. apply memz_In in E.
      eapply perm_trans; [apply Permutation_app_comm|]. cbn [app]. apply remove1_perm, E. }
    eapply perm_trans; [apply pick_perm|]. cbn [fst snd app]. eapply perm_trans; eassumption.
Qed.


(* ---- the full characterisation: recommended tags first, in the recommended order; the rest after, in sorted order ---- *)
Lemma memz_remove1_other u t : forall l, u <> t -> memz u (remove1 t l) = memz u l.
Proof.
  induction l as [|y r IH]; intros N; [reflexivity|]. cbn [remove1].
  destruct (Z.eqb_spec t y) as [->|Nty].
  - unfold memz. cbn [existsb]. destruct (Z.eqb_spec u y); [congruence|reflexivity].
  - unfold memz in *. cbn [existsb]. rewrite IH by exact N. reflexivity.
Qed.
Lemma remove1_notin t : forall l, ~ In t l -> remove1 t l = l.
Proof.
  induction l as [|y r IH]; intros N; [reflexivity|]. cbn [remove1].
  destruct (Z.eqb_spec t y) as [->|Nty]; [exfalso; apply N; left; reflexivity|].
  f_equal. apply IH. intros H. apply N. right. exact H.
Qed.
Lemma remove1_filter t : forall l, NoDup l -> remove1 t l = filter (fun u => negb (u =? t)) l.
Proof.
  induction l as [|y r IH]; intros ND; [reflexivity|]. inversion ND as [|? ? Hy NDr]; subst. cbn [remove1 filter].
  destruct (Z.eqb_spec t y) as [->|Nty].
  - rewrite Z.eqb_refl. cbn [negb]. rewrite <- IH by exact NDr. symmetry. apply remove1_notin, Hy.
  - destruct (Z.eqb_spec y t); [congruence|]. cbn [negb]. f_equal. apply IH, NDr.
Qed.
Lemma remove1_nodup t : forall l, NoDup l -> NoDup (remove1 t l).
Proof. intros l ND. rewrite remove1_filter by exact ND. apply NoDup_filter, ND. Qed.


Lemma filter_all_true (f : Z -> bool) : forall l, (forall x, In x l -> f x = true) -> filter f l = l.
Proof.
  induction l as [|y r IH]; intros H; [reflexivity|]. cbn [filter]. rewrite (H y (or_introl eq_refl)). f_equal.
  apply IH. intros x Hx. apply H. right. exact Hx.
Qed.
Lemma filter_filter_and (f g : Z -> bool) : forall l, filter f (filter g l) = filter (fun x => g x && f x) l.
Proof.
  induction l as [|y r IH]; [reflexivity|]. cbn [filter]. destruct (g y); cbn [andb filter]; [destruct (f y)|]; rewrite IH; reflexivity.
Qed.

Lemma pick_char : forall ord acc rest, NoDup ord -> NoDup rest ->
  fold_left pick_step ord (acc, rest)
  = (acc ++ filter (fun t => memz t rest) ord, filter (fun u => negb (memz u ord)) rest).
Proof.
  induction ord as [|t ord IH]; intros acc rest NDo NDr; cbn [fold_left].
  - cbn [filter]. rewrite app_nil_r. f_equal. symmetry. apply filter_all_true. intros; reflexivity.
  - inversion NDo as [|? ? Ht NDo']; subst. unfold pick_step at 2. cbn [fst snd filter].
    destruct (memz t rest) eqn:E.
    + rewrite IH by (try exact NDo'; apply remove1_nodup, NDr). rewrite <- app_assoc. cbn [app]. f_equal.
      * f_equal. f_equal. apply filter_ext_in. intros u Hu. apply memz_remove1_other. intros ->. exact (Ht Hu).
      * rewrite remove1_filter by exact NDr. rewrite filter_filter_and. apply filter_ext. intros u.
        unfold memz at 2. cbn [existsb]. rewrite negb_orb. reflexivity.
    + rewrite IH by assumption. f_equal. apply filter_ext_in. intros u Hu. unfold memz at 2. cbn [existsb].
      destruct (Z.eqb_spec u t) as [->|N]; [|reflexivity]. exfalso. apply memz_In in Hu. congruence.
Qed.

Theorem table_order_follows_recommendation o l : NoDup o ->
  sortedTagList_with (Some o) l
  = filter (fun t => memz t l) o ++ filter (fun u => negb (memz u o)) (uniq_sort l).
Proof.
  intros NDo. unfold sortedTagList_with. rewrite pick_char by (try exact NDo; apply ssorted_nodup, uniq_sort_sorted).
  cbn [fst snd app]. f_equal. apply filter_ext. intros t.
  destruct (memz t (uniq_sort l)) eqn:E; symmetry.
  - apply memz_In. apply memz_In in E. apply (proj1 (uniq_sort_In _ _)) in E. exact E.
  - destruct (memz t l) eqn:E2; [|reflexivity]. apply memz_In in E2. apply (proj2 (uniq_sort_In l t)) in E2. apply memz_In in E2. congruence.
Qed.

Example recommended_orders_nodup : NoDup TTFTableOrder /\ NoDup OTFTableOrder /\ ~ In tag_DSIG TTFTableOrder /\ ~ In tag_DSIG OTFTableOrder.
Proof.
  assert (D : forall l, (fix nd (l : list Z) := match l with [] => true | x :: r => negb (memz x r) && nd r end) l = true -> NoDup l).
  { induction l as [|x r IH]; intros H; [constructor|]. apply andb_prop in H. destruct H as [H1 H2]. constructor; [|apply IH, H2].
    intros Hin. apply memz_In in Hin. rewrite Hin in H1. discriminate. }
  repeat split; try (apply D; vm_compute; reflexivity); intros Hin; apply memz_In in Hin; vm_compute in Hin; discriminate.
Qed.

(* with the default orders: DSIG, when present, comes last *)
Theorem dsig_is_written_last l : In tag_DSIG l -> exists front, sortedTagList l = front ++ [tag_DSIG].
Proof.
  intros Hd. unfold sortedTagList, sortedTagList_with.
  assert (E : memz tag_DSIG (uniq_sort l) = true) by (apply memz_In, uniq_sort_In, Hd). rewrite E.
  set (s1 := remove1 tag_DSIG (uniq_sort l) ++ [tag_DSIG]).
  set (ord := if memz tag_CFF s1 then OTFTableOrder else TTFTableOrder).
  destruct recommended_orders_nodup as [N1 [N2 [D1 D2]]].
  assert (NDs : NoDup (uniq_sort l)) by apply ssorted_nodup, uniq_sort_sorted.
  assert (NDs1 : NoDup s1).
  { unfold s1. apply (Permutation_NoDup (l := tag_DSIG :: remove1 tag_DSIG (uniq_sort l))); [change (tag_DSIG :: remove1 tag_DSIG (uniq_sort l)) with ([tag_DSIG] ++ remove1 tag_DSIG (uniq_sort l)); apply Permutation_app_comm|]. constructor; [|apply remove1_nodup, NDs].
    rewrite remove1_filter by exact NDs. intros H. apply filter_In in H. destruct H as [_ H]. rewrite Z.eqb_refl in H. discriminate. }
  assert (NDo : NoDup ord) by (unfold ord; destruct (memz tag_CFF s1); assumption).
  assert (Do : memz tag_DSIG ord = false).
  { destruct (memz tag_DSIG ord) eqn:X; [|reflexivity]. apply memz_In in X. unfold ord in X. destruct (memz tag_CFF s1); contradiction. }
  rewrite pick_char by assumption. cbn [fst snd app]. unfold s1 at 2. rewrite filter_app. cbn [filter]. rewrite Do. cbn [negb].
  rewrite app_assoc. eexists. reflexivity.
Qed.

(* the recommended order: head first for TrueType and CFF fonts alike; DSIG last *)
Example order_example :
  sortedTagList [1735162214 (* glyf *); 1146308935 (* DSIG *); 1751474532 (* head *); 1196643650 (* GSUB *); 1668112752 (* cmap *)]
  = [1751474532; 1668112752; 1735162214; 1196643650; 1146308935].
Proof. vm_compute. reflexivity. Qed.
