(* C10/ModelSupports.v — VariationModel._locationsToRegions and _computeMasterSupports (varLib/models.py), over exact
   rationals.  A location is a vector over the model's axes (0 = the axis is absent from the location's dict, as
   VariationModel strips zero entries); a region is a vector of optional tents (None = axis not in the region's dict).
   The loops over dict items become loops over the positions of the vector: the only order-dependent piece of the Python
   code is the running maximum that collects `bestAxes`, which is transcribed as written (emptied on a larger ratio, extended
   on an equal one). *)
From Coq Require Import QArith List Bool.
From FV Require Import Base.Ser Base.Res Geom.QTools C09.Model.
Import ListNotations.
Open Scope Q_scope.

Definition locv := list Q.
Definition region := list (option tent).

Definition qmax (a b : Q) : Q := if Qltb a b then b else a.
Definition qmin (a b : Q) : Q := if Qltb b a then b else a.
(* computeAxisRanges (used when extrapolating; the base master {} is always among the locations, so every range contains 0 and
   starting the running minimum / maximum from 0 changes nothing); otherwise every axis has the range (-1, 1) *)
Definition colmax (locs : list locv) (a : nat) : Q := fold_left (fun m l => qmax m (nth a l 0)) locs 0.
Definition colmin (locs : list locv) (a : nat) : Q := fold_left (fun m l => qmin m (nth a l 0)) locs 0.
Definition axis_ranges (extrapolate : bool) (naxes : nat) (locs : list locv) : list (Q * Q) :=
  map (fun a => if extrapolate then (colmin locs a, colmax locs a) else (-1, 1)) (seq 0 naxes).

(* _locationsToRegions *)
Fixpoint region0 (ranges : list (Q * Q)) (l : locv) : region :=
  match l, ranges with
  | v :: r, (mn, mx) :: rr =>
    (if Qeqb v 0 then None
     else if Qltb 0 v then Some (0, v, mx) else Some (mn, v, 0)) :: region0 rr r
  | _, _ => []
  end.

Definition is_some {A} (o : option A) : bool := match o with Some _ => true | None => false end.
(* set(prev_region.keys()) == locAxes *)
Fixpoint same_axes (r : region) (p : locv) : bool :=
  match r, p with
  | [], [] => true
  | t :: r', v :: p' => Bool.eqb (is_some t) (negb (Qeqb v 0)) && same_axes r' p'
  | _, _ => false
  end.
(* prev_region[axis][1] == peak or lower < prev_region[axis][1] < upper, for every axis of the region *)
Fixpoint relevant (r : region) (p : locv) : bool :=
  match r, p with
  | Some (l, pk, u) :: r', v :: p' => (Qeqb v pk || (Qltb l v && Qltb v u)) && relevant r' p'
  | None :: r', _ :: p' => relevant r' p'
  | _, _ => true
  end.
(* the split a previous master proposes on one axis: (ratio, narrowed triple) *)
Definition cand (t : tent) (v : Q) : option (Q * tent) :=
  let '(l, pk, u) := t in
  if Qltb v pk then Some ((v - pk) / (l - pk), (v, pk, u))
  else if Qltb pk v then Some ((v - pk) / (u - pk), (l, pk, v))
  else None.
(* bestAxes as a partial map over the axes seen so far (None = axis not in the dict); a larger ratio empties the dict *)
Fixpoint best_go (r : region) (p : locv) (br : Q) (ba : list (option tent)) : list (option tent) :=
  match r, p with
  | Some t :: r', v :: p' =>
    match cand t v with
    | Some (ratio, triple) =>
      let '(br1, ba1) := if Qltb br ratio then (ratio, map (fun _ => None) ba) else (br, ba) in
      best_go r' p' br1 (ba1 ++ [if Qeqb ratio br1 then Some triple else None])
    | None => best_go r' p' br (ba ++ [None])
    end
  | _ :: r', _ :: p' => best_go r' p' br (ba ++ [None])
  | _, _ => ba
  end.
(* for axis, triple in bestAxes.items(): region[axis] = triple *)
Fixpoint apply_best (r : region) (bs : list (option tent)) : region :=
  match r, bs with
  | x :: r', b :: bs' => (match b with Some t => Some t | None => x end) :: apply_best r' bs'
  | _, _ => r
  end.
Definition narrow (r : region) (p : locv) : region :=
  if same_axes r p && relevant r p then apply_best r (best_go r p (-1) []) else r.

Fixpoint supports_go (ranges : list (Q * Q)) (prev rest : list locv) : list region :=
  match rest with
  | [] => []
  | l :: r => fold_left narrow prev (region0 ranges l) :: supports_go ranges (prev ++ [l]) r
  end.
Definition supports (ranges : list (Q * Q)) (locs : list locv) : list region := supports_go ranges [] locs.

(* supportScalar (ot=True, no extrapolation) on vectors *)
Fixpoint supportScalarV (L : locv) (S : region) : Q :=
  match L, S with
  | v :: L', Some t :: S' => tentval t v * supportScalarV L' S'
  | _ :: L', None :: S' => supportScalarV L' S'
  | _, _ => 1
  end.
(* _computeDeltaWeights: row i holds the scalars of the earlier supports at location i *)
Fixpoint weights_go (sup : list region) (i : nat) (rest : list locv) : list (list Q) :=
  match rest with
  | [] => []
  | l :: r => map (supportScalarV l) (firstn i sup) :: weights_go sup (S i) r
  end.
Definition deltaWeights (ranges : list (Q * Q)) (locs : list locv) : list (list Q) := weights_go (supports ranges locs) 0 locs.

(* correspondence entry *)
Definition red_tent (t : tent) : tent := let '(l, p, u) := t in (Qred l, Qred p, Qred u).
Definition ranges_of (extrapolate : bool) (locs : list locv) : list (Q * Q) :=
  axis_ranges extrapolate (match locs with l :: _ => length l | [] => 0%nat end) locs.
Definition supports_entry (extrapolate : bool) (locs : list locv) : list (list (option (Q * Q * Q))) :=
  map (map (option_map red_tent)) (supports (ranges_of extrapolate locs) locs).
Definition weights_entry (extrapolate : bool) (locs : list locv) : list (list Q) :=
  map (map Qred) (deltaWeights (ranges_of extrapolate locs) locs).
