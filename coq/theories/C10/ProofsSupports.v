(* C10/ProofsSupports.v — the supports computed by _computeMasterSupports are 1 at their own master and 0 at every
   earlier master; with the delta computation (C09 deltas_reproduce_masters) the model reproduces every master. *)
From Coq Require Import QArith List Bool Lia Lqa.
From FV Require Import Base.Ser Base.Res Geom.QTools C09.Model C09.Proofs C10.ModelSupports.
Import ListNotations.
Open Scope Q_scope.

Definition tent_ok (v : Q) (t : tent) : Prop :=
  let '(l, p, u) := t in p = v /\ l <= p /\ p <= u /\ (0 < p -> 0 <= l) /\ (p < 0 -> u <= 0).
Fixpoint boxinv (L : locv) (R : region) : Prop :=
  match L, R with
  | [], [] => True
  | v :: L', None :: R' => v == 0 /\ boxinv L' R'
  | v :: L', Some t :: R' => ~ v == 0 /\ tent_ok v t /\ boxinv L' R'
  | _, _ => False
  end.
(* x is not strictly inside the box on some axis where it is off the peak *)
Fixpoint outside (R : region) (x : locv) : Prop :=
  match R, x with
  | Some (l, p, u) :: R', v :: x' => (~ v == p /\ (v <= l \/ u <= v)) \/ outside R' x'
  | None :: R', _ :: x' => outside R' x'
  | _, _ => False
  end.
Fixpoint shrinks (R R' : region) : Prop :=
  match R, R' with
  | [], [] => True
  | None :: A, None :: B => shrinks A B
  | Some (l, p, u) :: A, Some (l', p', u') :: B => p' = p /\ l <= l' /\ u' <= u /\ shrinks A B
  | _, _ => False
  end.

Lemma tentval_zero v l p u x : tent_ok v (l, p, u) -> ~ v == 0 -> ~ x == p -> (x <= l \/ u <= x) -> tentval (l, p, u) x == 0.
Proof.
  intros [-> [Hl [Hu [Hp Hn]]]] Hv Hx Ho. unfold tentval.
  destruct (Qeqb_spec v 0); [contradiction|].
  destruct (Qltb_spec v l); [lra|]. destruct (Qltb_spec u v); [lra|]. cbn [orb].
  destruct (Qltb_spec l 0), (Qltb_spec 0 u); cbn [andb]; try (apply rawtent_outside; assumption).
  exfalso. destruct (Qlt_le_dec 0 v); [specialize (Hp q1); lra|]. assert (v < 0) by lra. specialize (Hn H). lra.
Qed.
Lemma tentval_one v l p u : tent_ok v (l, p, u) -> ~ v == 0 -> tentval (l, p, u) v == 1.
Proof.
  intros [-> [Hl [Hu [Hp Hn]]]] Hv. unfold tentval.
  destruct (Qeqb_spec v 0); [contradiction|].
  destruct (Qltb_spec v l); [lra|]. destruct (Qltb_spec u v); [lra|]. cbn [orb].
  destruct (Qltb_spec l 0), (Qltb_spec 0 u); cbn [andb]; try apply rawtent_peak.
  exfalso. destruct (Qlt_le_dec 0 v); [specialize (Hp q1); lra|]. assert (v < 0) by lra. specialize (Hn H). lra.
Qed.

Lemma outside_zero : forall R x L, boxinv L R -> outside R x -> supportScalarV x R == 0.
Proof.
  induction R as [|[[[l p] u]|] R IH]; intros x L HB HO.
  - destruct x; contradiction.
  - destruct x as [|v x]; [contradiction|]. destruct L as [|w L]; [contradiction|].
    cbn [boxinv] in HB. destruct HB as [Hw [Ht HB]]. cbn [outside] in HO. cbn [supportScalarV].
    destruct HO as [[Hx Ho]|HO].
    + rewrite (tentval_zero w l p u v Ht Hw Hx Ho). ring.
    + rewrite (IH x L HB HO). ring.
  - destruct x as [|v x]; [contradiction|]. destruct L as [|w L]; [contradiction|].
    cbn [boxinv] in HB. destruct HB as [_ HB]. cbn [outside] in HO. cbn [supportScalarV]. apply (IH x L HB HO).
Qed.
Lemma self_one : forall R L, boxinv L R -> supportScalarV L R == 1.
Proof.
  induction R as [|[[[l p] u]|] R IH]; intros L HB.
  - destruct L; reflexivity.
  - destruct L as [|w L]; [contradiction|]. cbn [boxinv] in HB. destruct HB as [Hw [Ht HB]]. cbn [supportScalarV].
    rewrite (tentval_one w l p u Ht Hw), (IH L HB). ring.
  - destruct L as [|w L]; [contradiction|]. cbn [boxinv] in HB. destruct HB as [_ HB]. cbn [supportScalarV]. apply IH, HB.
Qed.

Lemma shrinks_refl R : shrinks R R.
Proof. induction R as [|[[[l p] u]|] R IH]; cbn; auto. repeat split; auto; lra. Qed.
Lemma shrinks_trans : forall A B C, shrinks A B -> shrinks B C -> shrinks A C.
Proof.
  induction A as [|[[[l p] u]|] A IH]; intros B C H1 H2.
  - destruct B; [|contradiction]. exact H2.
  - destruct B as [|[[[l1 p1] u1]|] B]; try contradiction. destruct C as [|[[[l2 p2] u2]|] C]; try contradiction.
    cbn in *. destruct H1 as [-> [? [? H1]]], H2 as [-> [? [? H2]]]. repeat split; try lra. eapply IH; eassumption.
  - destruct B as [|[[[l1 p1] u1]|] B]; try contradiction. destruct C as [|[[[l2 p2] u2]|] C]; try contradiction.
    cbn in *. eapply IH; eassumption.
Qed.
Lemma shrinks_outside : forall A B x, shrinks A B -> outside A x -> outside B x.
Proof.
  induction A as [|[[[l p] u]|] A IH]; intros B x HS HO.
  - destruct x; contradiction.
  - destruct B as [|[[[l1 p1] u1]|] B]; try contradiction. destruct x as [|v x]; [contradiction|].
    cbn in *. destruct HS as [-> [? [? HS]]]. destruct HO as [[Hx Ho]|HO].
    + left. split; [assumption|]. destruct Ho; [left|right]; lra.
    + right. eapply IH; eassumption.
  - destruct B as [|[[[l1 p1] u1]|] B]; try contradiction. destruct x as [|v x]; [contradiction|].
    cbn in *. eapply IH; eassumption.
Qed.

(* ---- the running maximum *)
(* B proposes, axis by axis, only splits that the previous master p really offers *)
Fixpoint cands (R : region) (p : locv) (B : list (option tent)) : Prop :=
  match B with
  | [] => True
  | b :: B' =>
    match R, p with
    | r :: R', v :: p' =>
      (b = None \/ exists t0 ratio triple, r = Some t0 /\ cand t0 v = Some (ratio, triple) /\ b = Some triple) /\ cands R' p' B'
    | _, _ => False
    end
  end.
Definition weaker (A B : list (option tent)) : Prop := Forall2 (fun x y => x = y \/ x = None) A B.
Lemma weaker_refl A : weaker A A.
Proof. induction A; constructor; auto. Qed.
Lemma weaker_none A : weaker (map (fun _ => None) A) A.
Proof. induction A; constructor; auto. Qed.
Lemma weaker_trans A B C : weaker A B -> weaker B C -> weaker A C.
Proof.
  intros H. revert C. induction H as [|x y A B Hxy HAB IH]; intros C HC; inversion HC; subst; constructor.
  - destruct Hxy as [-> | ->]; auto. 
  - apply IH. assumption.
Qed.

Lemma best_go_shape : forall R p br ba, exists ba' B, best_go R p br ba = ba' ++ B /\ weaker ba' ba /\ cands R p B.
Proof.
  induction R as [|r R IH]; intros p br ba.
  - exists ba, []. cbn [best_go]. rewrite app_nil_r. split; [destruct p; reflexivity|]. split; [apply weaker_refl|exact I].
  - destruct p as [|v p].
    + exists ba, []. rewrite app_nil_r. split; [destruct r; reflexivity|]. split; [apply weaker_refl|exact I].
    + assert (Hstep : forall br' ba1 x, weaker ba1 ba ->
                (x = None \/ exists t0 ratio triple, r = Some t0 /\ cand t0 v = Some (ratio, triple) /\ x = Some triple) ->
                exists ba' B, best_go R p br' (ba1 ++ [x]) = ba' ++ B /\ weaker ba' ba /\ cands (r :: R) (v :: p) B).
      { intros br' ba1 x Hw Hx. destruct (IH p br' (ba1 ++ [x])) as [ba2 [B [E [W C]]]].
        apply Forall2_app_inv_r in W. destruct W as [a1 [a2 [W1 [W2 ->]]]].
        inversion W2 as [|x' y' l1 l2 Hx' Hnil]; subst. inversion Hnil; subst.
        exists a1, (x' :: B). split; [rewrite E, <- app_assoc; reflexivity|]. split; [eapply weaker_trans; eassumption|].
        cbn [cands]. split; [|exact C]. destruct Hx' as [-> | ->]; auto. }
      destruct r as [t|]; cbn [best_go].
      * destruct (cand t v) as [[ratio triple]|] eqn:Ec.
        -- destruct (Qltb br ratio).
           ++ apply Hstep; [apply weaker_none|]. destruct (Qeqb ratio ratio); [right; eauto 6|auto].
           ++ apply Hstep; [apply weaker_refl|]. destruct (Qeqb ratio br); [right; eauto 6|auto].
        -- apply Hstep; [apply weaker_refl|auto].
      * apply Hstep; [apply weaker_refl|auto].
Qed.
Lemma best_cands R p : cands R p (best_go R p (-1) []).
Proof.
  destruct (best_go_shape R p (-1) []) as [ba' [B [E [W C]]]]. inversion W; subst. rewrite E. exact C.
Qed.

Definition has_some (B : list (option tent)) : bool := existsb is_some B.
Fixpoint has_cand (R : region) (p : locv) : Prop :=
  match R, p with
  | Some t :: R', v :: p' => cand t v <> None \/ has_cand R' p'
  | None :: R', _ :: p' => has_cand R' p'
  | _, _ => False
  end.
Lemma has_some_app A B : has_some (A ++ B) = has_some A || has_some B.
Proof. apply existsb_app. Qed.

Lemma cand_ratio_pos l pk u v ratio triple :
  (Qeqb v pk || (Qltb l v && Qltb v u)) = true -> cand (l, pk, u) v = Some (ratio, triple) -> 0 < ratio.
Proof.
  intros Hr Hc. unfold cand in Hc.
  destruct (Qltb_spec v pk) as [H1|H1].
  - inversion Hc; subst. destruct (Qeqb_spec v pk); [lra|]. cbn [orb] in Hr.
    destruct (Qltb_spec l v); [|discriminate].
    assert (E : (v - pk) / (l - pk) == (pk - v) / (pk - l)) by (field; lra). rewrite E.
    apply Qlt_shift_div_l; lra.
  - destruct (Qltb_spec pk v) as [H2|H2]; [|discriminate]. inversion Hc; subst.
    destruct (Qeqb_spec v pk); [lra|]. cbn [orb] in Hr.
    destruct (Qltb_spec l v); [|discriminate]. destruct (Qltb_spec v u); [|discriminate].
    apply Qlt_shift_div_l; lra.
Qed.

Lemma best_some : forall R p br ba, relevant R p = true -> (has_some ba = true \/ br <= 0) ->
  (has_some ba = true \/ has_cand R p) -> has_some (best_go R p br ba) = true.
Proof.
  induction R as [|r R IH]; intros p br ba Hrel HJ HC.
  - destruct HC as [H|H]; [destruct p; exact H|destruct p; contradiction].
  - destruct p as [|v p]; [destruct HC as [H|H]; [destruct r; exact H|destruct r; contradiction]|].
    destruct r as [[[l pk] u]|]; cbn [best_go relevant has_cand] in *.
    + apply andb_true_iff in Hrel. destruct Hrel as [Hh Hrel].
      destruct (cand (l, pk, u) v) as [[ratio triple]|] eqn:Ec.
      * pose proof (cand_ratio_pos _ _ _ _ _ _ Hh Ec) as Hpos.
        destruct (Qltb_spec br ratio) as [Hlt|Hge].
        -- apply IH; [exact Hrel| |].
           ++ left. rewrite has_some_app. destruct (Qeqb_spec ratio ratio) as [_|N]; [|exfalso; apply N; reflexivity].
              cbn. apply orb_true_r.
           ++ left. rewrite has_some_app. destruct (Qeqb_spec ratio ratio) as [_|N]; [|exfalso; apply N; reflexivity].
              cbn. apply orb_true_r.
        -- assert (Hs : has_some ba = true) by (destruct HJ as [H|H]; [exact H|lra]).
           apply IH; [exact Hrel| |]; left; rewrite has_some_app, Hs; reflexivity.
      * apply IH; [exact Hrel| |].
        -- destruct HJ as [H|H]; [left; rewrite has_some_app, H; reflexivity|right; exact H].
        -- destruct HC as [H|[H|H]]; [left; rewrite has_some_app, H; reflexivity|congruence|right; exact H].
    + apply IH; [exact Hrel| |].
      * destruct HJ as [H|H]; [left; rewrite has_some_app, H; reflexivity|right; exact H].
      * destruct HC as [H|H]; [left; rewrite has_some_app, H; reflexivity|right; exact H].
Qed.

(* ---- one narrowing step *)
Lemma apply_best_props : forall R p B L, boxinv L R -> relevant R p = true -> cands R p B ->
  boxinv L (apply_best R B) /\ shrinks R (apply_best R B).
Proof.
  induction R as [|r R IH]; intros p B L HB Hrel HC.
  - destruct B; cbn [apply_best]; split; auto; exact I.
  - destruct B as [|b B]; [cbn [apply_best]; split; [exact HB|apply shrinks_refl]|].
    destruct p as [|v p]; [cbn in HC; destruct r; contradiction|].
    destruct L as [|w L]; [contradiction|].
    cbn [cands] in HC. destruct HC as [Hb HC]. cbn [apply_best].
    destruct r as [[[l pk] u]|].
    + cbn [boxinv] in HB. destruct HB as [Hw [Ht HB]]. cbn [relevant] in Hrel.
      apply andb_true_iff in Hrel. destruct Hrel as [Hh Hrel].
      destruct (IH p B L HB Hrel HC) as [I1 I2].
      destruct Hb as [->|[t0 [ratio [triple [E0 [Ec ->]]]]]].
      * cbn [boxinv shrinks]. split; [split; [exact Hw|split; [exact Ht|exact I1]]|]. repeat split; try lra; exact I2.
      * inversion E0; subst t0. unfold cand in Ec. destruct Ht as [-> [Hl [Hu [Hp Hn]]]].
        destruct (Qltb_spec v w) as [H1|H1].
        -- inversion Ec; subst. destruct (Qeqb_spec v w); [lra|]. cbn [orb] in Hh.
           destruct (Qltb_spec l v); [|discriminate].
           cbn [boxinv shrinks tent_ok]. repeat split; auto; try lra; try (intros H0; specialize (Hp H0); lra).
        -- destruct (Qltb_spec w v) as [H2|H2]; [|discriminate]. inversion Ec; subst.
           destruct (Qeqb_spec v w); [lra|]. cbn [orb] in Hh.
           destruct (Qltb_spec l v); [|discriminate]. destruct (Qltb_spec v u); [|discriminate].
           cbn [boxinv shrinks tent_ok]. repeat split; auto; try lra; try (intros H0; specialize (Hn H0); lra).
    + cbn [boxinv] in HB. destruct HB as [Hw HB]. cbn [relevant] in Hrel.
      destruct (IH p B L HB Hrel HC) as [I1 I2].
      destruct Hb as [->|[t0 [ratio [triple [E0 _]]]]]; [|discriminate].
      cbn [boxinv shrinks]. auto.
Qed.

Lemma apply_best_outside : forall R p B, cands R p B -> has_some B = true -> outside (apply_best R B) p.
Proof.
  induction R as [|r R IH]; intros p B HC HS.
  - destruct B as [|b B]; [discriminate|]. cbn in HC. contradiction.
  - destruct B as [|b B]; [discriminate|]. destruct p as [|v p]; [cbn in HC; destruct r; contradiction|].
    cbn [cands] in HC. destruct HC as [Hb HC]. cbn [apply_best].
    destruct Hb as [->|[t0 [ratio [triple [E0 [Ec ->]]]]]].
    + cbn in HS. destruct r as [[[l pk] u]|]; cbn [outside]; [right|]; apply IH; assumption.
    + subst r. destruct t0 as [[l pk] u]. unfold cand in Ec.
      destruct (Qltb_spec v pk) as [H1|H1].
      * inversion Ec; subst. cbn [outside]. left. split; [lra|left; lra].
      * destruct (Qltb_spec pk v) as [H2|H2]; [|discriminate]. inversion Ec; subst.
        cbn [outside]. left. split; [lra|right; lra].
Qed.

Lemma not_relevant_outside : forall R p, relevant R p = false -> outside R p.
Proof.
  induction R as [|r R IH]; intros p H; [discriminate|].
  destruct p as [|v p]; [destruct r as [[[? ?] ?]|]; discriminate|].
  destruct r as [[[l pk] u]|]; cbn [relevant outside] in *.
  - apply andb_false_iff in H. destruct H as [H|H]; [left|right; apply IH, H].
    apply orb_false_iff in H. destruct H as [H1 H2]. destruct (Qeqb_spec v pk); [discriminate|]. split; [assumption|].
    apply andb_false_iff in H2. destruct H2 as [H2|H2].
    + destruct (Qltb_spec l v); [discriminate|]. left. lra.
    + destruct (Qltb_spec v u); [discriminate|]. right. lra.
  - apply IH, H.
Qed.

(* a later master has an axis the earlier one lacks *)
Fixpoint extra_axis (L x : locv) : Prop :=
  match L, x with
  | v :: L', w :: x' => (~ v == 0 /\ w == 0) \/ extra_axis L' x'
  | _, _ => False
  end.
Fixpoint differ (L x : locv) : Prop :=
  match L, x with
  | v :: L', w :: x' => ~ v == w \/ differ L' x'
  | _, _ => False
  end.
Definition nz (L : locv) : list bool := map (fun v => negb (Qeqb v 0)) L.

Lemma extra_axis_outside : forall R L x, boxinv L R -> extra_axis L x -> outside R x.
Proof.
  induction R as [|r R IH]; intros L x HB HE.
  - destruct L; [destruct x; contradiction|contradiction].
  - destruct L as [|v L]; [contradiction|]. destruct x as [|w x]; [contradiction|].
    cbn [extra_axis] in HE. destruct r as [[[l pk] u]|]; cbn [boxinv outside] in *.
    + destruct HB as [Hv [[-> [Hl [Hu [Hp Hn]]]] HB]]. destruct HE as [[_ Hw]|HE]; [left|right; eapply IH; eassumption].
      split; [lra|]. destruct (Qlt_le_dec 0 v) as [H0|H0]; [left; specialize (Hp H0); lra|].
      assert (H1 : v < 0) by lra. right. specialize (Hn H1). lra.
    + destruct HB as [Hv HB]. destruct HE as [[Hv' _]|HE]; [contradiction|eapply IH; eassumption].
Qed.
Lemma same_axes_nz : forall R L p, boxinv L R -> nz L = nz p -> same_axes R p = true.
Proof.
  induction R as [|r R IH]; intros L p HB HN.
  - destruct L; [|contradiction]. destruct p; [reflexivity|discriminate].
  - destruct L as [|v L]; [contradiction|]. destruct p as [|w p]; [discriminate|].
    cbn [nz map] in HN. inversion HN as [[H1 H2]]. cbn [same_axes].
    destruct r as [t|]; cbn [boxinv] in HB.
    + destruct HB as [Hv [_ HB]]. rewrite (IH L p HB H2), andb_true_r. cbn [is_some].
      destruct (Qeqb_spec v 0); [contradiction|]. cbn [negb] in H1. rewrite <- H1. reflexivity.
    + destruct HB as [Hv HB]. rewrite (IH L p HB H2), andb_true_r. cbn [is_some].
      destruct (Qeqb_spec v 0); [|contradiction]. cbn [negb] in H1. rewrite <- H1. reflexivity.
Qed.
Lemma differ_has_cand : forall R L p, boxinv L R -> same_axes R p = true -> differ L p -> has_cand R p.
Proof.
  induction R as [|r R IH]; intros L p HB HS HD.
  - destruct L; [destruct p; contradiction|contradiction].
  - destruct L as [|v L]; [contradiction|]. destruct p as [|w p]; [discriminate|].
    cbn [same_axes] in HS. apply andb_true_iff in HS. destruct HS as [H1 HS]. cbn [differ] in HD.
    destruct r as [[[l pk] u]|]; cbn [boxinv has_cand] in *.
    + destruct HB as [Hv [[-> _] HB]]. destruct HD as [HD|HD]; [left|right; eapply IH; eassumption].
      unfold cand. destruct (Qltb_spec w v); [discriminate|]. destruct (Qltb_spec v w); [discriminate|]. exfalso. lra.
    + destruct HB as [Hv HB]. destruct HD as [HD|HD]; [|eapply IH; eassumption]. exfalso.
      cbn [is_some] in H1. destruct (Qeqb_spec w 0); [lra|discriminate].
Qed.

Lemma narrow_props R p L : boxinv L R -> boxinv L (narrow R p) /\ shrinks R (narrow R p).
Proof.
  intros HB. unfold narrow. destruct (same_axes R p && relevant R p) eqn:E; [|split; [exact HB|apply shrinks_refl]].
  apply andb_true_iff in E. destruct E as [_ Hrel]. apply (apply_best_props R p _ L HB Hrel), best_cands.
Qed.
Lemma narrow_outside R p L : boxinv L R -> differ L p -> (nz L = nz p \/ extra_axis L p) -> outside (narrow R p) p.
Proof.
  intros HB HD HA. unfold narrow.
  destruct (same_axes R p) eqn:ES; cbn [andb].
  - destruct (relevant R p) eqn:ER; [|apply not_relevant_outside, ER].
    apply apply_best_outside; [apply best_cands|].
    apply best_some; [exact ER|right; lra|right]. eapply differ_has_cand; eassumption.
  - destruct HA as [HA|HA]; [rewrite (same_axes_nz R L p HB HA) in ES; discriminate|].
    eapply extra_axis_outside; eassumption.
Qed.

Lemma fold_narrow_props : forall ps R L, boxinv L R ->
  boxinv L (fold_left narrow ps R) /\ shrinks R (fold_left narrow ps R).
Proof.
  induction ps as [|p ps IH]; intros R L HB; cbn [fold_left]; [split; [exact HB|apply shrinks_refl]|].
  destruct (narrow_props R p L HB) as [H1 H2]. destruct (IH (narrow R p) L H1) as [H3 H4].
  split; [exact H3|eapply shrinks_trans; eassumption].
Qed.

(* ---- _locationsToRegions *)
Definition ranges_ok (ranges : list (Q * Q)) (L : locv) : Prop :=
  Forall2 (fun (r : Q * Q) v => fst r <= v /\ v <= snd r /\ fst r <= 0 /\ 0 <= snd r) ranges L.
Lemma region0_inv ranges L : ranges_ok ranges L -> boxinv L (region0 ranges L).
Proof.
  induction 1 as [|[mn mx] v ranges L [H1 [H2 [H3 H4]]] HF IH]; [exact I|]. cbn [fst snd] in *. cbn [region0].
  destruct (Qeqb_spec v 0) as [E|E]; [cbn [boxinv]; auto|].
  destruct (Qltb_spec 0 v); cbn [boxinv tent_ok]; repeat split; auto; try lra.
Qed.

(* ---- the list of supports *)
Lemma supports_go_nth ranges : forall rest prev i l, nth_error rest i = Some l ->
  nth_error (supports_go ranges prev rest) i = Some (fold_left narrow (prev ++ firstn i rest) (region0 ranges l)).
Proof.
  induction rest as [|l0 rest IH]; intros prev i l H; [destruct i; discriminate|].
  destruct i as [|i]; cbn [nth_error supports_go firstn] in *.
  - inversion H; subst. rewrite app_nil_r. reflexivity.
  - rewrite (IH (prev ++ [l0]) i l H). rewrite <- app_assoc. reflexivity.
Qed.
Lemma firstn_split_at {A} : forall (l : list A) k j x, nth_error l k = Some x -> (k < j)%nat ->
  exists a b, firstn j l = a ++ x :: b.
Proof.
  induction l as [|y l IH]; intros k j x H Hlt; [destruct k; discriminate|].
  destruct j as [|j]; [lia|]. destruct k as [|k]; cbn [nth_error firstn] in *.
  - inversion H; subst. exists [], (firstn j l). reflexivity.
  - destruct (IH k j x H ltac:(lia)) as [a [b E]]. exists (y :: a), b. rewrite E. reflexivity.
Qed.

Theorem support_one_at_own_master ranges locs j L S :
  nth_error locs j = Some L -> ranges_ok ranges L -> nth_error (supports ranges locs) j = Some S ->
  supportScalarV L S == 1.
Proof.
  intros HL HR HS. unfold supports in HS. rewrite (supports_go_nth ranges locs [] j L HL) in HS. inversion HS; subst S.
  apply self_one. apply fold_narrow_props, region0_inv, HR.
Qed.

Theorem support_zero_at_earlier_master ranges locs k j Lk Lj S :
  (k < j)%nat -> nth_error locs k = Some Lk -> nth_error locs j = Some Lj -> ranges_ok ranges Lj ->
  differ Lj Lk -> (nz Lj = nz Lk \/ extra_axis Lj Lk) ->
  nth_error (supports ranges locs) j = Some S ->
  supportScalarV Lk S == 0.
Proof.
  intros Hlt Hk Hj HR HD HA HS. unfold supports in HS. rewrite (supports_go_nth ranges locs [] j Lj Hj) in HS.
  inversion HS; subst S. cbn [app].
  destruct (firstn_split_at locs k j Lk Hk Hlt) as [a [b E]]. rewrite E.
  rewrite fold_left_app. cbn [fold_left].
  pose proof (region0_inv ranges Lj HR) as H0.
  destruct (fold_narrow_props a _ Lj H0) as [H1 _].
  set (R1 := fold_left narrow a (region0 ranges Lj)) in *.
  pose proof (narrow_outside R1 Lk Lj H1 HD HA) as HO.
  destruct (narrow_props R1 Lk Lj H1) as [H2 _].
  destruct (fold_narrow_props b _ Lj H2) as [H3 H4].
  apply (outside_zero _ _ Lj H3). eapply shrinks_outside; eassumption.
Qed.

(* ---- together with the delta computation: evaluated at master k's location, with the scalars of ALL supports there, the
   model gives back master k's value *)
Lemma interpolate_ext : forall d s s', Forall2 Qeq s s' -> interpolate d s == interpolate d s'.
Proof.
  induction d as [|x d IH]; intros s s' H; [reflexivity|].
  inversion H as [|a b s1 s2 Hab Hr]; subst; [reflexivity|]. cbn [interpolate].
  rewrite (IH s1 s2 Hr).
  destruct (Qeqb_spec a 0), (Qeqb_spec b 0); try reflexivity; try (exfalso; lra). rewrite Hab. reflexivity.
Qed.
Lemma interpolate_zeros : forall d s zs, Forall (fun z => z == 0) zs -> interpolate d (s ++ zs) == interpolate d s.
Proof.
  induction d as [|x d IH]; intros s zs HZ; [reflexivity|].
  destruct s as [|a s]; cbn [app].
  - destruct zs as [|z zs]; [reflexivity|]. inversion HZ; subst. cbn [interpolate].
    destruct (Qeqb_spec z 0); [|contradiction]. rewrite (IH [] zs) by assumption.
    destruct d; cbn [interpolate]; ring.
  - cbn [interpolate]. rewrite (IH s zs HZ). reflexivity.
Qed.

Lemma supports_go_length ranges : forall rest prev, length (supports_go ranges prev rest) = length rest.
Proof. induction rest as [|l rest IH]; intros prev; cbn [supports_go length]; [reflexivity|]. rewrite IH. reflexivity. Qed.
Lemma weights_go_nth sup : forall rest i0 i l, nth_error rest i = Some l ->
  nth_error (weights_go sup i0 rest) i = Some (map (supportScalarV l) (firstn (i0 + i) sup)).
Proof.
  induction rest as [|l0 rest IH]; intros i0 i l H; [destruct i; discriminate|].
  destruct i as [|i]; cbn [nth_error weights_go] in *.
  - inversion H; subst. rewrite Nat.add_0_r. reflexivity.
  - rewrite (IH (S i0) i l H). f_equal. f_equal. f_equal. lia.
Qed.
Lemma weights_go_length sup : forall rest i0, length (weights_go sup i0 rest) = length rest.
Proof. induction rest as [|l rest IH]; intros i0; cbn [weights_go length]; [reflexivity|]. rewrite IH. reflexivity. Qed.
Lemma weights_go_rows sup : forall rest i0 j r, (i0 + length rest <= length sup)%nat ->
  nth_error (weights_go sup i0 rest) j = Some r -> length r = (i0 + j)%nat.
Proof.
  induction rest as [|l rest IH]; intros i0 j r Hlen H; [destruct j; discriminate|].
  destruct j as [|j]; cbn [nth_error weights_go length] in *.
  - inversion H; subst. rewrite map_length, firstn_length. lia.
  - rewrite (IH (S i0) j r) by (try assumption; lia). lia.
Qed.

Lemma skipn_nth {A} : forall k (l : list A) x, nth_error l k = Some x -> skipn k l = x :: skipn (S k) l.
Proof.
  induction k as [|k IH]; intros l x E; destruct l as [|y l]; try discriminate.
  - inversion E; reflexivity.
  - cbn [nth_error] in E. cbn [skipn]. apply (IH l x E).
Qed.
Lemma nth_skipn {A} : forall n (l : list A) i x, nth_error (skipn n l) i = Some x -> nth_error l (n + i) = Some x.
Proof.
  induction n as [|n IH]; intros l i x H; [exact H|].
  destruct l as [|y l]; [destruct i; discriminate|]. cbn [skipn] in H. cbn [plus nth_error]. apply IH, H.
Qed.

Definition valid_locs (ranges : list (Q * Q)) (locs : list locv) : Prop :=
  (forall j L, nth_error locs j = Some L -> ranges_ok ranges L) /\
  (forall k j Lk Lj, (k < j)%nat -> nth_error locs k = Some Lk -> nth_error locs j = Some Lj ->
     differ Lj Lk /\ (nz Lj = nz Lk \/ extra_axis Lj Lk)).

Theorem model_reproduces_masters ranges locs masters k Lk m :
  valid_locs ranges locs -> length masters = length locs ->
  nth_error locs k = Some Lk -> nth_error masters k = Some m ->
  interpolate (getDeltas masters (deltaWeights ranges locs)) (map (supportScalarV Lk) (supports ranges locs)) == m.
Proof.
  intros [VR VP] Hlen Hk Hm.
  set (sup := supports ranges locs).
  assert (Hsl : length sup = length locs) by apply supports_go_length.
  assert (Hkl : (k < length locs)%nat) by (apply nth_error_Some; congruence).
  set (row := map (supportScalarV Lk) (firstn k sup)).
  assert (Hrow : nth_error (deltaWeights ranges locs) k = Some row).
  { unfold deltaWeights. fold sup. rewrite (weights_go_nth sup locs 0 k Lk Hk). reflexivity. }
  (* split the scalars at k *)
  destruct (nth_error sup k) as [Sk|] eqn:ESk; [|apply nth_error_None in ESk; lia].
  assert (Esplit : sup = firstn k sup ++ Sk :: skipn (S k) sup).
  { rewrite <- (firstn_skipn k sup) at 1. f_equal. apply skipn_nth, ESk. }
  rewrite Esplit, map_app. cbn [map]. fold row.
  (* the tail is zero, the k-th scalar is one *)
  assert (Hone : supportScalarV Lk Sk == 1).
  { apply (support_one_at_own_master ranges locs k Lk Sk Hk (VR k Lk Hk) ESk). }
  assert (Hzero : Forall (fun z => z == 0) (map (supportScalarV Lk) (skipn (S k) sup))).
  { apply Forall_forall. intros z Hz. apply in_map_iff in Hz. destruct Hz as [Sj [<- HS]].
    apply In_nth_error in HS. destruct HS as [i Hi].
    assert (Hj : nth_error sup (S k + i) = Some Sj) by (apply nth_skipn, Hi).
    destruct (nth_error locs (S k + i)) as [Lj|] eqn:ELj.
    - destruct (VP k (S k + i)%nat Lk Lj ltac:(lia) Hk ELj) as [HD HA].
      apply (support_zero_at_earlier_master ranges locs k (S k + i) Lk Lj Sj ltac:(lia) Hk ELj (VR _ _ ELj) HD HA Hj).
    - apply nth_error_None in ELj. assert (S k + i < length sup)%nat by (apply nth_error_Some; congruence). lia. }
  change (row ++ supportScalarV Lk Sk :: map (supportScalarV Lk) (skipn (S k) sup))
    with (row ++ [supportScalarV Lk Sk] ++ map (supportScalarV Lk) (skipn (S k) sup)).
  rewrite app_assoc, interpolate_zeros by exact Hzero.
  rewrite (interpolate_ext _ (row ++ [supportScalarV Lk Sk]) (row ++ [1])).
  - apply (deltas_reproduce_masters masters (deltaWeights ranges locs) k m row); try assumption.
    + intros j r Hr. unfold deltaWeights in Hr. fold sup in Hr.
      rewrite (weights_go_rows sup locs 0 j r) by (try assumption; lia). reflexivity.
    + unfold deltaWeights. rewrite weights_go_length. symmetry. exact Hlen.
  - apply Forall2_app; [|constructor; [exact Hone|constructor]].
    clear. induction row; constructor; [reflexivity|assumption].
Qed.

(* non-vacuity: three masters on one axis and a corner master on two; the supports are the textbook ones *)
Example supports_example :
  supports_entry false [[0; 0]; [1; 0]; [0; 1]; [1 # 2; 0]; [1; 1]]
  = [[None; None]; [Some (0, 1, 1); None]; [None; Some (0, 1, 1)]; [Some (0, 1 # 2, 1); None]; [Some (0, 1, 1); Some (0, 1, 1)]].
Proof. vm_compute. reflexivity. Qed.

(* ---- the order VariationModel sorts the masters in puts fewer axes first (first component of the sort key); that is all
   the pairwise condition needs *)
Fixpoint count_nz (L : locv) : nat :=
  match L with [] => 0 | v :: L' => (if Qeqb v 0 then 0 else 1) + count_nz L' end.
Lemma count_lt_extra : forall L x, length L = length x -> (count_nz x < count_nz L)%nat -> extra_axis L x.
Proof.
  induction L as [|v L IH]; intros x Hl Hc; [destruct x; cbn in Hc; [lia|discriminate]|].
  destruct x as [|w x]; [discriminate|]. cbn [count_nz extra_axis] in *. injection Hl as Hl.
  destruct (Qeqb_spec v 0), (Qeqb_spec w 0); try (right; apply IH; [assumption|lia]).
  left. auto.
Qed.
Lemma count_le_axes : forall L x, length L = length x -> (count_nz x <= count_nz L)%nat -> nz L = nz x \/ extra_axis L x.
Proof.
  induction L as [|v L IH]; intros x Hl Hc; [destruct x; [left; reflexivity|discriminate]|].
  destruct x as [|w x]; [discriminate|]. cbn [count_nz extra_axis nz map] in *. injection Hl as Hl.
  destruct (Qeqb_spec v 0), (Qeqb_spec w 0); cbn [negb].
  - destruct (IH x Hl ltac:(lia)) as [H|H]; [left; unfold nz in H; rewrite H; reflexivity|right; right; exact H].
  - right. right. apply count_lt_extra; [assumption|lia].
  - right. left. auto.
  - destruct (IH x Hl ltac:(lia)) as [H|H]; [left; unfold nz in H; rewrite H; reflexivity|right; right; exact H].
Qed.

Lemma F2_length {A B} (R : A -> B -> Prop) l1 l2 : Forall2 R l1 l2 -> length l1 = length l2.
Proof. induction 1; cbn; congruence. Qed.

Theorem model_reproduces_masters_sorted ranges locs masters k Lk m :
  (forall j L, nth_error locs j = Some L -> ranges_ok ranges L) ->
  (forall i j Li Lj, (i < j)%nat -> nth_error locs i = Some Li -> nth_error locs j = Some Lj ->
     differ Lj Li /\ (count_nz Li <= count_nz Lj)%nat) ->
  length masters = length locs -> nth_error locs k = Some Lk -> nth_error masters k = Some m ->
  interpolate (getDeltas masters (deltaWeights ranges locs)) (map (supportScalarV Lk) (supports ranges locs)) == m.
Proof.
  intros VR VS. apply model_reproduces_masters. split; [exact VR|].
  intros i j Li Lj Hlt Hi Hj. destruct (VS i j Li Lj Hlt Hi Hj) as [HD HC]. split; [exact HD|].
  apply count_le_axes; [|exact HC].
  pose proof (VR i Li Hi) as R1. pose proof (VR j Lj Hj) as R2.
  apply F2_length in R1. apply F2_length in R2. congruence.
Qed.

(* ---- the same with the rounding VariationModel.getDeltas(round=otRound) applies: within half a unit *)
From FV Require Import C10.Model C10.Proofs.
From Coq Require Import Qabs.

Lemma scalars_at_master ranges locs k Lk :
  valid_locs ranges locs -> nth_error locs k = Some Lk ->
  let row := map (supportScalarV Lk) (firstn k (supports ranges locs)) in
  nth_error (deltaWeights ranges locs) k = Some row /\
  forall d, interpolate d (map (supportScalarV Lk) (supports ranges locs)) == interpolate d (row ++ [1]).
Proof.
  intros [VR VP] Hk row.
  set (sup := supports ranges locs) in *.
  assert (Hsl : length sup = length locs) by apply supports_go_length.
  assert (Hkl : (k < length locs)%nat) by (apply nth_error_Some; congruence).
  split.
  { unfold deltaWeights. fold sup. rewrite (weights_go_nth sup locs 0 k Lk Hk). reflexivity. }
  intros d.
  destruct (nth_error sup k) as [Sk|] eqn:ESk; [|apply nth_error_None in ESk; lia].
  assert (Esplit : sup = firstn k sup ++ Sk :: skipn (S k) sup).
  { rewrite <- (firstn_skipn k sup) at 1. f_equal. apply skipn_nth, ESk. }
  rewrite Esplit at 1. rewrite map_app. cbn [map]. fold row.
  assert (Hone : supportScalarV Lk Sk == 1).
  { apply (support_one_at_own_master ranges locs k Lk Sk Hk (VR k Lk Hk) ESk). }
  assert (Hzero : Forall (fun z => z == 0) (map (supportScalarV Lk) (skipn (S k) sup))).
  { apply Forall_forall. intros z Hz. apply in_map_iff in Hz. destruct Hz as [Sj [<- HS]].
    apply In_nth_error in HS. destruct HS as [i Hi].
    assert (Hj : nth_error sup (S k + i) = Some Sj) by (apply nth_skipn, Hi).
    destruct (nth_error locs (S k + i)) as [Lj|] eqn:ELj.
    - destruct (VP k (S k + i)%nat Lk Lj ltac:(lia) Hk ELj) as [HD HA].
      apply (support_zero_at_earlier_master ranges locs k (S k + i) Lk Lj Sj ltac:(lia) Hk ELj (VR _ _ ELj) HD HA Hj).
    - apply nth_error_None in ELj. assert (S k + i < length sup)%nat by (apply nth_error_Some; congruence). lia. }
  change (row ++ supportScalarV Lk Sk :: map (supportScalarV Lk) (skipn (S k) sup))
    with (row ++ [supportScalarV Lk Sk] ++ map (supportScalarV Lk) (skipn (S k) sup)).
  rewrite app_assoc, interpolate_zeros by exact Hzero.
  apply interpolate_ext. apply Forall2_app; [|constructor; [exact Hone|constructor]].
  clear. induction row; constructor; [reflexivity|assumption].
Qed.

Theorem built_value_within_half ranges locs masters k Lk m :
  (forall j L, nth_error locs j = Some L -> ranges_ok ranges L) ->
  (forall i j Li Lj, (i < j)%nat -> nth_error locs i = Some Li -> nth_error locs j = Some Lj ->
     differ Lj Li /\ (count_nz Li <= count_nz Lj)%nat) ->
  length masters = length locs -> nth_error locs k = Some Lk -> nth_error masters k = Some m ->
  Qabs (interpolate (getDeltasRounded masters (deltaWeights ranges locs)) (map (supportScalarV Lk) (supports ranges locs)) - m) <= 1 # 2.
Proof.
  intros VR VS Hlen Hk Hm.
  assert (V : valid_locs ranges locs).
  { split; [exact VR|]. intros i j Li Lj Hlt Hi Hj. destruct (VS i j Li Lj Hlt Hi Hj) as [HD HC]. split; [exact HD|].
    apply count_le_axes; [|exact HC]. pose proof (VR i Li Hi) as R1. pose proof (VR j Lj Hj) as R2.
    apply F2_length in R1. apply F2_length in R2. congruence. }
  destruct (scalars_at_master ranges locs k Lk V Hk) as [Hrow Hsc]. rewrite Hsc.
  set (sup := supports ranges locs) in *.
  assert (Hsl : length sup = length locs) by apply supports_go_length.
  apply (master_reproduced_within_half masters (deltaWeights ranges locs) k m _); try assumption.
  - intros j r Hr. unfold deltaWeights in Hr. fold sup in Hr.
    rewrite (weights_go_rows sup locs 0 j r) by (try assumption; lia). reflexivity.
  - unfold deltaWeights. rewrite weights_go_length. symmetry. exact Hlen.
Qed.
