(* C10/ModelSortKey.v — VariationModel.getMasterLocationsSortKeyFunc and the sort of the master locations (varLib/models.py),
   for an axisOrder that lists every axis (what varLib.build passes): a location is the vector of its values in axisOrder
   order, 0 = absent.

   key(loc) = ( rank                       number of axes in the location
              , -len(onPointAxes)          axes whose value is one of the values the single-axis masters use on that axis
              , indices of its axes        in axisOrder order
              , the axis tags              (decided by the indices already: equal index tuples are equal tag tuples)
              , signs of the values
              , absolute values )
   compared as Python compares tuples.  Distinct locations have distinct keys, so the sorted list is unique and the stability
   of sorted() plays no role. *)
From Coq Require Import QArith Qabs List Bool Arith.
From FV Require Import Geom.QTools C10.ModelSupports.
Import ListNotations.
Open Scope Q_scope.

Fixpoint count_nzb (L : locv) : nat :=
  match L with [] => 0%nat | v :: r => ((if Qeqb v 0 then 0 else 1) + count_nzb r)%nat end.

(* the (axis, value) of a location with exactly one axis *)
Fixpoint single_from (i : nat) (L : locv) : option (nat * Q) :=
  match L with
  | [] => None
  | v :: r => if Qeqb v 0 then single_from (S i) r else if Nat.eqb (count_nzb r) 0 then Some (i, v) else None
  end.
Definition axis_points (locs : list locv) : list (nat * Q) :=
  flat_map (fun L => match single_from 0 L with Some p => [p] | None => [] end) locs.

Fixpoint on_point_from (pts : list (nat * Q)) (i : nat) (L : locv) : nat :=
  match L with
  | [] => 0%nat
  | v :: r => ((if negb (Qeqb v 0) && existsb (fun p => Nat.eqb (fst p) i && Qeqb (snd p) v) pts then 1 else 0)
               + on_point_from pts (S i) r)%nat
  end.

Fixpoint nz_from (i : nat) (L : locv) : list (nat * Q) :=
  match L with [] => [] | v :: r => if Qeqb v 0 then nz_from (S i) r else (i, v) :: nz_from (S i) r end.

Definition sign (v : Q) : Z := match Qcompare v 0 with Lt => (-1)%Z | Eq => 0%Z | Gt => 1%Z end.

Record key := { k_rank : nat; k_on : nat; k_idx : list nat; k_sign : list Z; k_abs : list Q }.
Definition key_of (pts : list (nat * Q)) (L : locv) : key :=
  let nz := nz_from 0 L in
  {| k_rank := count_nzb L; k_on := on_point_from pts 0 L; k_idx := map fst nz;
     k_sign := map (fun p => sign (snd p)) nz; k_abs := map (fun p => Qabs (snd p)) nz |}.

(* Python's tuple comparison: first difference decides, a proper prefix is smaller *)
Fixpoint lex {A} (cmp : A -> A -> comparison) (a b : list A) : comparison :=
  match a, b with
  | [], [] => Eq
  | [], _ => Lt
  | _, [] => Gt
  | x :: r, y :: s => match cmp x y with Eq => lex cmp r s | c => c end
  end.

Definition key_cmp (a b : key) : comparison :=
  match Nat.compare (k_rank a) (k_rank b) with
  | Eq => match Nat.compare (k_on b) (k_on a) with            (* -len(onPointAxes): more on-point axes first *)
          | Eq => match lex Nat.compare (k_idx a) (k_idx b) with
                  | Eq => match lex Z.compare (k_sign a) (k_sign b) with
                          | Eq => lex Qcompare (k_abs a) (k_abs b)
                          | c => c end
                  | c => c end
          | c => c end
  | c => c
  end.
Definition key_leb (a b : key) : bool := match key_cmp a b with Gt => false | _ => true end.

(* sorted(locations, key=keyFunc), as an insertion sort (the order is total on distinct locations, so any sort agrees) *)
Fixpoint insert_loc (pts : list (nat * Q)) (x : locv) (l : list locv) : list locv :=
  match l with
  | [] => [x]
  | y :: r => if key_leb (key_of pts x) (key_of pts y) then x :: y :: r else y :: insert_loc pts x r
  end.
Definition sort_with (pts : list (nat * Q)) (locs : list locv) : list locv := fold_right (insert_loc pts) [] locs.
Definition sort_locations (locs : list locv) : list locv := sort_with (axis_points locs) locs.

Definition sort_entry (locs : list locv) : list (list Q) := map (map Qred) (sort_locations locs).
