(* C10/Proofs.v *)
From Coq Require Import QArith Qround Qabs Lqa Lia List Bool Setoid Morphisms.
From FV Require Import Base.Ser Base.Res Geom.QTools C09.Model C09.Proofs C10.Model.
Import ListNotations.
Open Scope Q_scope.

(* the C09 development, generalised to a rounding function applied to each stored delta *)
Lemma aux_prefix f ms : forall rows acc, exists ext, getDeltasF_aux f ms rows acc = acc ++ ext.
Proof.
  induction ms as [|m ms IH]; intros rows acc; cbn [getDeltasF_aux].
  - exists []. rewrite app_nil_r. reflexivity.
  - destruct rows as [|row rows]; [exists []; rewrite app_nil_r; reflexivity|].
    destruct (IH rows (acc ++ [f (m - dot row acc)])) as [ext E]. rewrite E.
    exists ((f (m - dot row acc)) :: ext). rewrite <- app_assoc. reflexivity.
Qed.


(* every stored delta is the master minus the weighted earlier deltas *)
Lemma aux_entry f ms : forall rows acc i m row,
  nth_error ms i = Some m -> nth_error rows i = Some row ->
  (forall j r, nth_error rows j = Some r -> length r = (length acc + j)%nat) ->
  let res := getDeltasF_aux f ms rows acc in
  nth (length acc + i) res 0 = f (m - dot row res).
Proof.
  induction ms as [|m0 ms IH]; intros rows acc i m row Hm Hr Hlen; [destruct i; discriminate|].
  destruct rows as [|row0 rows]; [destruct i; discriminate|].
  cbn [getDeltasF_aux]. cbv zeta.
  destruct i as [|i].
  - cbn in Hm, Hr. apply Some_inj in Hm. apply Some_inj in Hr. subst m0 row0.
    destruct (aux_prefix f ms rows (acc ++ [f (m - dot row acc)])) as [ext E]. rewrite E.
    rewrite Nat.add_0_r. rewrite <- app_assoc. rewrite app_nth2 by lia. rewrite Nat.sub_diag. cbn [app nth].
    assert (L: length row = length acc) by (rewrite (Hlen 0%nat row eq_refl); lia).
    rewrite dot_app_long by lia. reflexivity.
  - cbn [nth_error] in Hm, Hr.
    specialize (IH rows (acc ++ [f (m0 - dot row0 acc)]) i m row Hm Hr).
    rewrite app_length in IH. cbn [length] in IH.
    replace (length acc + S i)%nat with (length acc + 1 + i)%nat by lia. apply IH.
    intros j r Hj. rewrite (Hlen (S j) r Hj). lia.
Qed.

Lemma aux_length f ms : forall rows acc k m, nth_error ms k = Some m -> (length ms <= length rows)%nat ->
  (length acc + k < length (getDeltasF_aux f ms rows acc))%nat.
Proof.
  induction ms as [|m0 ms IH]; intros rows acc k m Hm Hn; [destruct k; discriminate|].
  destruct rows as [|row0 rows]; [cbn in Hn; lia|]. cbn [getDeltasF_aux].
  destruct k as [|k].
  - destruct (aux_prefix f ms rows (acc ++ [f (m0 - dot row0 acc)])) as [ext E]. rewrite E.
    rewrite !app_length. cbn. lia.
  - cbn [nth_error] in Hm. cbn in Hn.
    specialize (IH rows (acc ++ [f (m0 - dot row0 acc)]) k m Hm ltac:(lia)).
    rewrite app_length in IH. cbn [length] in IH. lia.
Qed.


(* otRound moves a value by at most half a unit *)
Lemma otRound_half x : Qabs (otRound x - x) <= 1 # 2.
Proof.
  unfold otRound. pose proof (Qfloor_le (x + (1 # 2))) as A. pose proof (Qlt_floor (x + (1 # 2))) as B.
  rewrite inject_Z_plus in B. change (inject_Z 1) with 1 in B.
  apply Qabs_case; intros _; lra.
Qed.

(* THE BUILT FONT REPRODUCES EVERY MASTER WITHIN THE ROUNDING OF ONE DELTA: because each delta is computed from the already rounded
   earlier deltas, the errors do not accumulate *)
Theorem master_reproduced_within f eps masters weights k m row :
  (forall x, Qabs (f x - x) <= eps) ->
  (forall j r, nth_error weights j = Some r -> length r = j) ->
  length weights = length masters ->
  nth_error masters k = Some m -> nth_error weights k = Some row ->
  Qabs (at_master (getDeltasF f masters weights) row - m) <= eps.
Proof.
  intros Hf Hlen Hn Hm Hr. unfold at_master, getDeltasF.
  pose proof (aux_entry f masters weights [] k m row Hm Hr) as E. cbn [length Nat.add] in E.
  specialize (E Hlen). cbv zeta in E.
  assert (Lr: length row = k) by (apply (Hlen k row Hr)).
  pose proof (aux_length f masters weights [] k m Hm ltac:(lia)) as Lres. cbn [length Nat.add] in Lres.
  rewrite interpolate_row by lia. rewrite Lr. rewrite E.
  set (y := m - dot row (getDeltasF_aux f masters weights [])).
  assert (Q: dot row (getDeltasF_aux f masters weights []) + f y * 1 - m == f y - y) by (unfold y; ring).
  rewrite Q. apply Hf.
Qed.

Theorem master_reproduced_within_half masters weights k m row :
  (forall j r, nth_error weights j = Some r -> length r = j) ->
  length weights = length masters ->
  nth_error masters k = Some m -> nth_error weights k = Some row ->
  Qabs (at_master (getDeltasRounded masters weights) row - m) <= 1 # 2.
Proof. apply master_reproduced_within. exact otRound_half. Qed.
