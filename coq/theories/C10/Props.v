(* C10/Props.v — property theorems only *)
From Coq Require Import QArith Qabs List Bool.
From FV Require Import Base.Ser Base.Res Geom.QTools C09.Model C10.Model C10.Proofs C10.ModelSupports.
From FV Require C10.ProofsSupports.
Import ListNotations.
Open Scope Q_scope.

(* evaluated at master k's location the built font gives master k's value within half a unit, for ANY number of masters and
   any weights: each delta is computed from the already-rounded earlier deltas, so rounding errors do not accumulate *)
Theorem master_reproduced_within_half : forall masters weights k m row,
  (forall j r, nth_error weights j = Some r -> length r = j) ->
  length weights = length masters ->
  nth_error masters k = Some m -> nth_error weights k = Some row ->
  Qabs (at_master (getDeltasRounded masters weights) row - m) <= 1 # 2.
Proof. exact Proofs.master_reproduced_within_half. Qed.
Print Assumptions master_reproduced_within_half.

(* ... and for every rounding function with a known error bound (noRound: 0; the 16.16 rounding of axis values; ...) *)
Theorem master_reproduced_within : forall f eps masters weights k m row,
  (forall x, Qabs (f x - x) <= eps) ->
  (forall j r, nth_error weights j = Some r -> length r = j) ->
  length weights = length masters ->
  nth_error masters k = Some m -> nth_error weights k = Some row ->
  Qabs (at_master (getDeltasF f masters weights) row - m) <= eps.
Proof. exact Proofs.master_reproduced_within. Qed.
Print Assumptions master_reproduced_within.

Theorem otRound_half : forall x, Qabs (otRound x - x) <= 1 # 2.
Proof. exact Proofs.otRound_half. Qed.
Print Assumptions otRound_half.

(* non-vacuity: three masters 10, 15.5, 31.25 with weights [[] ; [1]; [1; 1/2]] *)
Example rounded_example : getDeltasRounded [10; 31 # 2; 125 # 4] [[]; [1]; [1; 1 # 2]] = [10; 6; 18].
Proof. vm_compute. reflexivity. Qed.

(* ---- the supports VariationModel computes (_locationsToRegions + _computeMasterSupports, ModelSupports.v), for ANY number of
   masters and axes, over exact rationals *)

(* at its own master a support is 1 *)
Theorem support_one_at_own_master : forall ranges locs j L S,
  nth_error locs j = Some L -> ProofsSupports.ranges_ok ranges L -> nth_error (supports ranges locs) j = Some S ->
  supportScalarV L S == 1.
Proof. exact ProofsSupports.support_one_at_own_master. Qed.
Print Assumptions support_one_at_own_master.

(* at every EARLIER master a support is 0: the earlier master either lacks one of the later master's axes, or the box has been
   cut so that it lies on or outside its boundary *)
Theorem support_zero_at_earlier_master : forall ranges locs k j Lk Lj S,
  (k < j)%nat -> nth_error locs k = Some Lk -> nth_error locs j = Some Lj -> ProofsSupports.ranges_ok ranges Lj ->
  ProofsSupports.differ Lj Lk -> (ProofsSupports.nz Lj = ProofsSupports.nz Lk \/ ProofsSupports.extra_axis Lj Lk) ->
  nth_error (supports ranges locs) j = Some S ->
  supportScalarV Lk S == 0.
Proof. exact ProofsSupports.support_zero_at_earlier_master. Qed.
Print Assumptions support_zero_at_earlier_master.

(* hence: deltas computed with the model's own deltaWeights, evaluated with the scalars of ALL supports at master k's location,
   give master k's value exactly -- for distinct locations inside the axis ranges, sorted with fewer axes first (the first
   component of VariationModel's sort key) *)
Theorem model_reproduces_masters_sorted : forall ranges locs masters k Lk m,
  (forall j L, nth_error locs j = Some L -> ProofsSupports.ranges_ok ranges L) ->
  (forall i j Li Lj, (i < j)%nat -> nth_error locs i = Some Li -> nth_error locs j = Some Lj ->
     ProofsSupports.differ Lj Li /\ (ProofsSupports.count_nz Li <= ProofsSupports.count_nz Lj)%nat) ->
  length masters = length locs -> nth_error locs k = Some Lk -> nth_error masters k = Some m ->
  interpolate (getDeltas masters (deltaWeights ranges locs)) (map (supportScalarV Lk) (supports ranges locs)) == m.
Proof. exact ProofsSupports.model_reproduces_masters_sorted. Qed.
Print Assumptions model_reproduces_masters_sorted.

(* ... and with the rounding of getDeltas(round=otRound): the value the model builds at master k, evaluated with the scalars of
   ALL supports there, is within half a unit of master k -- this is the model-level statement of the property for one value *)
Theorem built_value_within_half : forall ranges locs masters k Lk m,
  (forall j L, nth_error locs j = Some L -> ProofsSupports.ranges_ok ranges L) ->
  (forall i j Li Lj, (i < j)%nat -> nth_error locs i = Some Li -> nth_error locs j = Some Lj ->
     ProofsSupports.differ Lj Li /\ (ProofsSupports.count_nz Li <= ProofsSupports.count_nz Lj)%nat) ->
  length masters = length locs -> nth_error locs k = Some Lk -> nth_error masters k = Some m ->
  Qabs (interpolate (getDeltasRounded masters (deltaWeights ranges locs)) (map (supportScalarV Lk) (supports ranges locs)) - m) <= 1 # 2.
Proof. exact ProofsSupports.built_value_within_half. Qed.
Print Assumptions built_value_within_half.

(* the master order: VariationModel sorts its locations with getMasterLocationsSortKeyFunc (rank, on-point axes, axis indices,
   signs, absolute values — modelled and tied by correspondence to the order the real class computes); the sorted list is a
   permutation of the input with fewer axes first, which is exactly what the support computation needs ... *)
From FV Require C10.ModelSortKey C10.ProofsSortKey.
From Coq Require Import Permutation.
Theorem sorted_fewer_axes_first : forall locs i j Li Lj, (i < j)%nat ->
  nth_error (ModelSortKey.sort_locations locs) i = Some Li -> nth_error (ModelSortKey.sort_locations locs) j = Some Lj ->
  (ProofsSupports.count_nz Li <= ProofsSupports.count_nz Lj)%nat.
Proof. exact ProofsSortKey.sorted_fewer_axes_first. Qed.
Print Assumptions sorted_fewer_axes_first.

Theorem sorted_is_permutation : forall locs, Permutation (ModelSortKey.sort_locations locs) locs.
Proof. exact ProofsSortKey.sorted_is_permutation. Qed.
Print Assumptions sorted_is_permutation.

(* ... so that, with the masters in the model's own order, every master is reproduced: model_reproduces_masters_sorted without
   its ordering hypothesis *)
Theorem model_reproduces_masters_in_model_order : forall ranges locs0 masters k Lk m,
  let locs := ModelSortKey.sort_locations locs0 in
  (forall j L, nth_error locs j = Some L -> ProofsSupports.ranges_ok ranges L) ->
  (forall i j Li Lj, (i < j)%nat -> nth_error locs i = Some Li -> nth_error locs j = Some Lj -> ProofsSupports.differ Lj Li) ->
  length masters = length locs -> nth_error locs k = Some Lk -> nth_error masters k = Some m ->
  interpolate (getDeltas masters (deltaWeights ranges locs)) (map (supportScalarV Lk) (supports ranges locs)) == m.
Proof. exact ProofsSortKey.model_reproduces_masters_in_model_order. Qed.
Print Assumptions model_reproduces_masters_in_model_order.
