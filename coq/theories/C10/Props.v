(* C10/Props.v — property theorems only *)
From Coq Require Import QArith Qabs List Bool.
From FV Require Import Base.Ser Base.Res Geom.QTools C09.Model C10.Model C10.Proofs.
Import ListNotations.
Open Scope Q_scope.

(* evaluated at master k's location the built font gives master k's value within half a unit, for ANY number of masters and
   any weights: each delta is computed from the already-rounded earlier deltas, so rounding errors do not accumulate *)
Theorem master_reproduced_within_half : forall masters weights k m row,
  (forall j r, nth_error weights j = Some r -> length r = j) ->
  length weights = length masters ->
  nth_error masters k = Some m -> nth_error weights k = Some row ->
  Qabs (at_master (getDeltasRounded masters weights) row - m) <= 1 # 2.
Proof. exact Proofs.master_reproduced_within_half. Qed.
Print Assumptions master_reproduced_within_half.

(* ... and for every rounding function with a known error bound (noRound: 0; the 16.16 rounding of axis values; ...) *)
Theorem master_reproduced_within : forall f eps masters weights k m row,
  (forall x, Qabs (f x - x) <= eps) ->
  (forall j r, nth_error weights j = Some r -> length r = j) ->
  length weights = length masters ->
  nth_error masters k = Some m -> nth_error weights k = Some row ->
  Qabs (at_master (getDeltasF f masters weights) row - m) <= eps.
Proof. exact Proofs.master_reproduced_within. Qed.
Print Assumptions master_reproduced_within.

Theorem otRound_half : forall x, Qabs (otRound x - x) <= 1 # 2.
Proof. exact Proofs.otRound_half. Qed.
Print Assumptions otRound_half.

(* non-vacuity: three masters 10, 15.5, 31.25 with weights [[] ; [1]; [1; 1/2]] *)
Example rounded_example : getDeltasRounded [10; 31 # 2; 125 # 4] [[]; [1]; [1; 1 # 2]] = [10; 6; 18].
Proof. vm_compute. reflexivity. Qed.
