(* C10/Model.v — building a variable font: the delta computation WITH rounding (varLib/models.py:484-499 getDeltas(round=...)),
   evaluation at a master location, and the designspace axis map (designspaceLib map_forward / models.piecewiseLinearMap). *)
From Coq Require Import QArith Qround List Bool.
From FV Require Import Base.Ser Base.Res Geom.QTools C09.Model.
Import ListNotations.
Open Scope Q_scope.

(* otRound: floor(x + 1/2), the rounding varLib passes to getDeltas *)
Definition otRound (x : Q) : Q := inject_Z (Qfloor (x + (1 # 2))).

(* getDeltas with a rounding function applied to every delta AS IT IS STORED: later deltas are computed from the rounded earlier ones *)
Fixpoint getDeltasF_aux (f : Q -> Q) (masters : list Q) (weights : list (list Q)) (acc : list Q) : list Q :=
  match masters, weights with
  | m :: ms, row :: rows => getDeltasF_aux f ms rows (acc ++ [f (m - dot row acc)])
  | _, _ => acc
  end.
Definition getDeltasF (f : Q -> Q) (masters : list Q) (weights : list (list Q)) : list Q := getDeltasF_aux f masters weights [].
Definition getDeltasRounded := getDeltasF otRound.

(* value of the built font at master k's location: its weight row, then its own scalar 1, later supports vanish *)
Definition at_master (deltas : list Q) (row : list Q) : Q := interpolate deltas (row ++ [1]).
