From Coq Require Import QArith List String Bool.
From FV Require Import Base.Ser Base.Res C09.Model C09.Registry C10.Model C10.ModelSupports C10.ModelSortKey.
Import ListNotations.
Open Scope string_scope.
Definition rounded_at (masters : list Q) (weights : list (list Q)) : list Q * list Q :=
  let d := getDeltasRounded masters weights in
  (map Qred d, map (fun row => Qred (at_master d row)) weights).
Definition reg : registry := (C09.Registry.reg ++ [ ("rounded_at", run2 rounded_at); ("supports", run2 supports_entry); ("deltaWeights", run2 weights_entry); ("sort_locations", run1 sort_entry) ])%list.
Definition fv_entry := dispatch reg.
