(* C10/ProofsSortKey.v — the master order VariationModel computes puts locations with fewer axes first and loses nothing *)
From Coq Require Import QArith Qabs List Bool Arith Lia Permutation Sorting.Sorted.
From FV Require Import Geom.QTools C10.ModelSupports C10.ModelSortKey C10.ProofsSupports.
Import ListNotations.

Lemma count_nzb_eq L : count_nzb L = count_nz L.
Proof. induction L as [|v r IH]; cbn; [reflexivity|]. rewrite IH. reflexivity. Qed.

Definition rank_le (a b : locv) : Prop := (count_nzb a <= count_nzb b)%nat.

Lemma key_leb_rank pts a b : key_leb (key_of pts a) (key_of pts b) = true -> rank_le a b.
Proof.
  unfold key_leb, key_cmp, rank_le. cbn [k_rank key_of].
  destruct (Nat.compare_spec (count_nzb a) (count_nzb b)) as [E|E|E]; intros HK; try lia; try discriminate.
Qed.
Lemma key_gt_rank pts a b : key_leb (key_of pts a) (key_of pts b) = false -> rank_le b a.
Proof.
  unfold key_leb, key_cmp, rank_le. cbn [k_rank key_of].
  destruct (Nat.compare_spec (count_nzb a) (count_nzb b)) as [E|E|E]; intros HK; try lia; try discriminate.
Qed.

Lemma insert_perm pts x l : Permutation (insert_loc pts x l) (x :: l).
Proof.
  induction l as [|y r IH]; cbn [insert_loc]; [apply Permutation_refl|].
  destruct (key_leb _ _); [apply Permutation_refl|].
  eapply Permutation_trans; [apply perm_skip; exact IH | apply perm_swap].
Qed.

Lemma insert_sorted pts x l : StronglySorted rank_le l -> StronglySorted rank_le (insert_loc pts x l).
Proof.
  induction 1 as [|y r SR IH HF]; cbn [insert_loc]; [constructor; [constructor|constructor]|].
  destruct (key_leb (key_of pts x) (key_of pts y)) eqn:K.
  - constructor; [constructor; assumption|].
    pose proof (key_leb_rank _ _ _ K) as R. constructor; [exact R|].
    rewrite Forall_forall in *. intros z Hz. specialize (HF z Hz). unfold rank_le in *. lia.
  - constructor; [exact IH|].
    pose proof (key_gt_rank _ _ _ K) as R.
    rewrite Forall_forall in *. intros z Hz.
    apply (Permutation_in _ (insert_perm pts x r)) in Hz. destruct Hz as [<-|Hz]; [exact R | apply HF; exact Hz].
Qed.

Lemma sort_with_sorted pts locs : StronglySorted rank_le (sort_with pts locs).
Proof. induction locs as [|x r IH]; cbn; [constructor | apply insert_sorted; exact IH]. Qed.
Lemma sort_with_perm pts locs : Permutation (sort_with pts locs) locs.
Proof.
  induction locs as [|x r IH]; cbn; [constructor|].
  eapply Permutation_trans; [apply insert_perm | apply perm_skip; exact IH].
Qed.

Lemma sorted_nth (l : list locv) : StronglySorted rank_le l -> forall i j a b, (i < j)%nat ->
  nth_error l i = Some a -> nth_error l j = Some b -> rank_le a b.
Proof.
  induction 1 as [|y r SR IH HF]; intros i j a b Hij Ha Hb; [destruct i; discriminate|].
  destruct j as [|j]; [lia|]. destruct i as [|i].
  - cbn in Ha. injection Ha as <-. cbn in Hb. rewrite Forall_forall in HF. apply HF. eapply nth_error_In; eauto.
  - cbn in Ha, Hb. apply (IH i j); [lia|assumption|assumption].
Qed.

(* the sorted master list: fewer axes first *)
Theorem sorted_fewer_axes_first locs i j Li Lj : (i < j)%nat ->
  nth_error (sort_locations locs) i = Some Li -> nth_error (sort_locations locs) j = Some Lj ->
  (count_nz Li <= count_nz Lj)%nat.
Proof.
  intros Hij Hi Hj. rewrite <- !count_nzb_eq.
  exact (sorted_nth _ (sort_with_sorted _ locs) i j Li Lj Hij Hi Hj).
Qed.

(* ... and it is the same collection of locations *)
Theorem sorted_is_permutation locs : Permutation (sort_locations locs) locs.
Proof. apply sort_with_perm. Qed.

(* the end-to-end statement in the order the model itself computes: with the masters listed in VariationModel's own order, every
   master is reproduced — the "fewer axes first" hypothesis of model_reproduces_masters_sorted is discharged by the sort *)
Theorem model_reproduces_masters_in_model_order ranges locs0 masters k Lk m :
  let locs := sort_locations locs0 in
  (forall j L, nth_error locs j = Some L -> ranges_ok ranges L) ->
  (forall i j Li Lj, (i < j)%nat -> nth_error locs i = Some Li -> nth_error locs j = Some Lj -> differ Lj Li) ->
  length masters = length locs -> nth_error locs k = Some Lk -> nth_error masters k = Some m ->
  (C09.Model.interpolate (C09.Model.getDeltas masters (deltaWeights ranges locs)) (map (supportScalarV Lk) (supports ranges locs)) == m)%Q.
Proof.
  intros locs VR VD. apply model_reproduces_masters_sorted; [exact VR|].
  intros i j Li Lj Hlt Hi Hj. split; [exact (VD i j Li Lj Hlt Hi Hj)|].
  exact (sorted_fewer_axes_first locs0 i j Li Lj Hlt Hi Hj).
Qed.
