(* Geom/QTools.v — boolean comparisons on Q with reflection lemmas *)
From Coq Require Import QArith Lqa Bool.
Open Scope Q_scope.

Definition Qleb (a b : Q) : bool := Qle_bool a b.
Definition Qltb (a b : Q) : bool := negb (Qle_bool b a).
Definition Qeqb (a b : Q) : bool := Qeq_bool a b.

Lemma Qleb_spec a b : reflect (a <= b) (Qleb a b).
Proof. unfold Qleb. destruct (Qle_bool a b) eqn:E; constructor.
  - apply Qle_bool_iff; auto. - intro H. apply Qle_bool_iff in H. congruence. Qed.
Lemma Qltb_spec a b : reflect (a < b) (Qltb a b).
Proof. unfold Qltb. destruct (Qle_bool b a) eqn:E; constructor; cbn.
  - apply Qle_bool_iff in E. lra.
  - apply Qnot_le_lt. intro H. apply Qle_bool_iff in H. congruence. Qed.
Lemma Qeqb_spec a b : reflect (a == b) (Qeqb a b).
Proof. unfold Qeqb. destruct (Qeq_bool a b) eqn:E; constructor.
  - apply Qeq_bool_iff; auto. - intro H. apply Qeq_bool_iff in H. congruence. Qed.

Definition Qmax (a b : Q) : Q := if Qleb a b then b else a.
Definition Qmin (a b : Q) : Q := if Qleb a b then a else b.
