(* Geom/Bezier.v — Bezier curves over Q in de Casteljau (lerp) form; the disc (convex hull) lemma. *)
From Coq Require Import QArith Lqa Lia Setoid Morphisms.
Open Scope Q_scope.

Lemma sq_nonneg (q : Q) : 0 <= q * q.
Proof. nra. Qed.

Definition nrm2 (x y : Q) : Q := x * x + y * y.

Lemma disc_convex2 x1 y1 x2 y2 a b r :
  0 <= a -> 0 <= b -> a + b == 1 ->
  nrm2 x1 y1 <= r -> nrm2 x2 y2 <= r ->
  nrm2 (a * x1 + b * x2) (a * y1 + b * y2) <= r.
Proof.
  unfold nrm2. intros Ha Hb Hab H1 H2.
  pose proof (sq_nonneg (x1 - x2)) as S1. pose proof (sq_nonneg (y1 - y2)) as S2.
  assert (P: 0 <= a * b * ((x1 - x2) * (x1 - x2) + (y1 - y2) * (y1 - y2))).
  { apply Qmult_le_0_compat; [apply Qmult_le_0_compat; auto|lra]. }
  assert (A1: a * (x1 * x1 + y1 * y1) <= a * r) by (rewrite !(Qmult_comm a); apply Qmult_le_compat_r; auto).
  assert (A2: b * (x2 * x2 + y2 * y2) <= b * r) by (rewrite !(Qmult_comm b); apply Qmult_le_compat_r; auto).
  assert (E: (a * x1 + b * x2) * (a * x1 + b * x2) + (a * y1 + b * y2) * (a * y1 + b * y2)
             == (a + b) * (a * (x1 * x1 + y1 * y1) + b * (x2 * x2 + y2 * y2))
                - a * b * ((x1 - x2) * (x1 - x2) + (y1 - y2) * (y1 - y2))) by ring.
  rewrite E, Hab.
  assert (a * r + b * r == r) by (setoid_replace (a * r + b * r) with ((a + b) * r) by ring; rewrite Hab; ring).
  lra.
Qed.

Definition lerp (a b t : Q) : Q := (1 - t) * a + t * b.
Definition bez2 (p0 p1 p2 t : Q) : Q := lerp (lerp p0 p1 t) (lerp p1 p2 t) t.
Definition bez3 (p0 p1 p2 p3 t : Q) : Q :=
  lerp (lerp (lerp p0 p1 t) (lerp p1 p2 t) t) (lerp (lerp p1 p2 t) (lerp p2 p3 t) t) t.

Global Instance lerp_proper : Proper (Qeq ==> Qeq ==> Qeq ==> Qeq) lerp.
Proof. intros a a' Ha b b' Hb t t' Ht. unfold lerp. rewrite Ha, Hb, Ht. reflexivity. Qed.
Global Instance bez3_proper : Proper (Qeq ==> Qeq ==> Qeq ==> Qeq ==> Qeq ==> Qeq) bez3.
Proof. intros a a' Ha b b' Hb c c' Hc d d' Hd t t' Ht. unfold bez3. rewrite Ha, Hb, Hc, Hd, Ht. reflexivity. Qed.
Global Instance bez2_proper : Proper (Qeq ==> Qeq ==> Qeq ==> Qeq ==> Qeq) bez2.
Proof. intros a a' Ha b b' Hb c c' Hc t t' Ht. unfold bez2. rewrite Ha, Hb, Hc, Ht. reflexivity. Qed.
Global Instance nrm2_proper : Proper (Qeq ==> Qeq ==> Qeq) nrm2.
Proof. intros a a' Ha b b' Hb. unfold nrm2. rewrite Ha, Hb. reflexivity. Qed.

Lemma lerp_disc x1 y1 x2 y2 t r : 0 <= t -> t <= 1 -> nrm2 x1 y1 <= r -> nrm2 x2 y2 <= r ->
  nrm2 (lerp x1 x2 t) (lerp y1 y2 t) <= r.
Proof. intros. unfold lerp. apply disc_convex2; try lra; auto. Qed.

(* a cubic whose four control points lie in the disc of squared radius r stays in it *)
Theorem hull3 x0 y0 x1 y1 x2 y2 x3 y3 t r : 0 <= t -> t <= 1 ->
  nrm2 x0 y0 <= r -> nrm2 x1 y1 <= r -> nrm2 x2 y2 <= r -> nrm2 x3 y3 <= r ->
  nrm2 (bez3 x0 x1 x2 x3 t) (bez3 y0 y1 y2 y3 t) <= r.
Proof. intros. unfold bez3. repeat (apply lerp_disc; auto). Qed.

Theorem hull2 x0 y0 x1 y1 x2 y2 t r : 0 <= t -> t <= 1 ->
  nrm2 x0 y0 <= r -> nrm2 x1 y1 <= r -> nrm2 x2 y2 <= r ->
  nrm2 (bez2 x0 x1 x2 t) (bez2 y0 y1 y2 t) <= r.
Proof. intros. unfold bez2. repeat (apply lerp_disc; auto). Qed.

(* Bernstein forms *)
Lemma bez3_bernstein p0 p1 p2 p3 t :
  bez3 p0 p1 p2 p3 t == (1-t)*(1-t)*(1-t)*p0 + 3*(1-t)*(1-t)*t*p1 + 3*(1-t)*t*t*p2 + t*t*t*p3.
Proof. unfold bez3, lerp. ring. Qed.
Lemma bez2_bernstein p0 p1 p2 t : bez2 p0 p1 p2 t == (1-t)*(1-t)*p0 + 2*(1-t)*t*p1 + t*t*p2.
Proof. unfold bez2, lerp. ring. Qed.

Lemma bez3_ends p0 p1 p2 p3 : bez3 p0 p1 p2 p3 0 == p0 /\ bez3 p0 p1 p2 p3 1 == p3.
Proof. unfold bez3, lerp. split; ring. Qed.

(* halves of a cubic at t = 1/2 (the code's split_cubic_into_two, one coordinate) *)
Definition mid3 (p0 p1 p2 p3 : Q) : Q := (p0 + 3 * (p1 + p2) + p3) * (1 # 8).
Definition der3 (p0 p1 p2 p3 : Q) : Q := (p3 + p2 - p1 - p0) * (1 # 8).

Lemma split_left p0 p1 p2 p3 t :
  bez3 p0 ((p0 + p1) * (1 # 2)) (mid3 p0 p1 p2 p3 - der3 p0 p1 p2 p3) (mid3 p0 p1 p2 p3) t
  == bez3 p0 p1 p2 p3 (t * (1 # 2)).
Proof. unfold bez3, lerp, mid3, der3. ring. Qed.
Lemma split_right p0 p1 p2 p3 t :
  bez3 (mid3 p0 p1 p2 p3) (mid3 p0 p1 p2 p3 + der3 p0 p1 p2 p3) ((p2 + p3) * (1 # 2)) p3 t
  == bez3 p0 p1 p2 p3 ((1 # 2) + t * (1 # 2)).
Proof. unfold bez3, lerp, mid3, der3. ring. Qed.

(* the error curve between a quadratic (degree-elevated) and a cubic *)
Lemma error_curve q0 q1 q2 c0 c1 c2 c3 t :
  bez3 (q0 - c0) (q0 + (q1 - q0) * (2 # 3) - c1) (q2 + (q1 - q2) * (2 # 3) - c2) (q2 - c3) t
  == bez2 q0 q1 q2 t - bez3 c0 c1 c2 c3 t.
Proof. unfold bez3, bez2, lerp. ring. Qed.
