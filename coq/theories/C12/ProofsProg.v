(* C12/ProofsProg.v — commandsToProgram (programToCommands p) = p *)
From Coq Require Import ZArith List Bool.
From FV Require Import Base.Ser Base.Res C12.ModelProg.
Import ListNotations.
Open Scope Z_scope.

Lemma c2p_app a b : commandsToProgram (a ++ b) = commandsToProgram a ++ commandsToProgram b.
Proof. unfold commandsToProgram. apply flat_map_app. Qed.
Lemma c2p_nonempty stack : commandsToProgram (nonempty stack) = stack.
Proof. destruct stack as [|t r]; [reflexivity|]. cbn. rewrite !app_nil_r. reflexivity. Qed.

Lemma p2c_joins : forall n prog seen stack acc cs, (length prog <= n)%nat -> p2c prog seen stack acc = Ok cs ->
  commandsToProgram cs = commandsToProgram acc ++ stack ++ prog.
Proof.
  induction n as [|n IH]; intros prog seen stack acc cs Hn H.
  - destruct prog; [|cbn in Hn; inversion Hn]. cbn [p2c] in H.
    apply Ok_inj in H. subst cs. rewrite c2p_app, c2p_nonempty, app_nil_r. reflexivity.
  - destruct prog as [|t rest]; cbn [p2c] in H.
    + apply Ok_inj in H. subst cs. rewrite c2p_app, c2p_nonempty, app_nil_r. reflexivity.
    + assert (Hr : (length rest <= n)%nat) by (cbn in Hn; apply le_S_n; exact Hn).
      destruct t as [z|o|m].
      * rewrite (IH _ _ _ _ _ Hr H). rewrite <- !app_assoc. reflexivity.
      * set (wsplit := if negb seen && is_width_op o
                       then match stack with
                            | w :: stack1 => if xorb (Nat.odd (length stack)) (is_parity_op o) then (true, stack1, acc ++ [(None, [w])]) else (true, stack, acc)
                            | [] => (true, stack, acc)
                            end
                       else (seen, stack, acc)) in *.
        assert (Hw : commandsToProgram (snd wsplit) ++ snd (fst wsplit) = commandsToProgram acc ++ stack).
        { unfold wsplit. destruct (negb seen && is_width_op o); [|reflexivity].
          destruct stack as [|w stack1]; [reflexivity|].
          destruct (xorb (Nat.odd (length (w :: stack1))) (is_parity_op o)); [|reflexivity].
          cbn [fst snd]. rewrite c2p_app. cbn. rewrite <- app_assoc. reflexivity. }
        destruct wsplit as [[seen' stack'] acc']. cbn [fst snd] in Hw.
        destruct (is_mask_op o).
        -- destruct rest as [|m rest']; [discriminate|].
           assert (Hr' : (length rest' <= n)%nat) by (cbn in Hr; apply le_S_n, le_S; exact Hr).
           rewrite (IH _ _ _ _ _ Hr' H). rewrite !c2p_app, c2p_nonempty. cbn [commandsToProgram flat_map cmd_tokens fst snd app].
           rewrite ?app_nil_r. rewrite (app_assoc (commandsToProgram acc')), Hw. rewrite <- !app_assoc. reflexivity.
        -- rewrite (IH _ _ _ _ _ Hr H). rewrite c2p_app. cbn [commandsToProgram flat_map cmd_tokens fst snd app].
           rewrite ?app_nil_r. rewrite (app_assoc (commandsToProgram acc')), Hw. rewrite <- !app_assoc. reflexivity.
      * rewrite (IH _ _ _ _ _ Hr H). rewrite <- !app_assoc. reflexivity.
Qed.

Theorem program_commands_roundtrip prog cs : programToCommands prog = Ok cs -> commandsToProgram cs = prog.
Proof. intros H. unfold programToCommands in H. rewrite (p2c_joins (length prog) prog false [] [] cs (le_n _) H). reflexivity. Qed.

(* width, hint mask with its bytes, stray arguments at the end *)
Example program_commands_example :
  programToCommands [TNum 500; TNum 1; TNum 2; TOp 20; TOp 25; TMask [192]; TNum 3; TNum 4; TOp 0; TNum 9]
  = Ok [(None, [TNum 500]); (Some 20, [TNum 1; TNum 2]); (Some 25, []); (None, [TMask [192]]); (Some 0, [TNum 3; TNum 4]); (None, [TNum 9])].
Proof. vm_compute. reflexivity. Qed.
