(* C12/ProofsSpec.v — the specialiser preserves what is drawn.
   [nsem] reads an intermediate command (made-up operators, arguments in their natural order); phase 6 followed by
   the interpreter is shown to be that reading; phases 2, 4, 5 keep the reading segment for segment; phases 1 and 3
   change it only by the documented merges ([fill_eq]). *)
From Coq Require Import ZArith List Bool Lia Arith.
From FV Require Import Base.Ser Base.Res C12.Model C12.ModelSpec C12.Proofs.
Import ListNotations.
Open Scope Z_scope.

Lemma total_delta_app l m : total_delta (l ++ m) =
  let '(x, y) := total_delta l in let '(u, v) := total_delta m in (x + u, y + v).
Proof.
  induction l as [|s r IH]; cbn [app total_delta].
  - destruct (total_delta m); f_equal; lia.
  - rewrite IH. destruct (seg_delta s), (total_delta r), (total_delta m). f_equal; lia.
Qed.
Lemma fill_eq_endpoint l1 l2 : fill_eq l1 l2 -> total_delta l1 = total_delta l2.
Proof.
  induction 1; try reflexivity; try congruence.
  - rewrite !total_delta_app, IHfill_eq1, IHfill_eq2. reflexivity.
  - cbn. f_equal; lia.
  - cbn. f_equal; lia.
  - cbn. f_equal; lia.
  - cbn. f_equal; lia.
Qed.

(* ---------- the natural reading of intermediate commands *)
Definition onax (h : bool) (z : Z) : Z * Z := if h then (z, 0) else (0, z).
Definition mkRC (p : Z * Z) (b c : Z) (q : Z * Z) : rseg := RC (fst p) (snd p) b c (fst q) (snd q).
Definition axis (c : cat) : bool := match c with Cv => false | _ => true end.

(* groups of four read alternately on the axes X, Y, X, ...; a final group of five ends in a general vector *)
Fixpoint body (X Y : bool) (args : list Z) : Res (list rseg) :=
  match args with
  | [] => Ok []
  | a :: b :: c :: e :: rest =>
    match rest with
    | [y] => Ok [mkRC (onax X a) b c (e, y)]
    | _ => let* t := body Y X rest in Ok (mkRC (onax X a) b c (onax Y e) :: t)
    end
  | _ => Err ValueError
  end.

Definition nsem (c : scmd) : Res (list rseg) :=
  match c with
  | (SCurve Cr Cr, args) => i_rrcurveto args
  | (SCurve Cr B, x :: y :: b :: c' :: e :: rest) =>
    let* t := body (axis B) (axis B) rest in Ok (mkRC (x, y) b c' (onax (axis B) e) :: t)
  | (SCurve Cr _, _) => Err ValueError
  | (SCurve A Cr, args) => body (axis A) (negb (axis A)) args
  | (SCurve A B, args) => body (axis A) (axis B) args
  | _ => let '(o, args) := p6_one c in interp o args
  end.
Fixpoint nsem_all (cs : list scmd) : Res (list rseg) :=
  match cs with
  | [] => Ok []
  | c :: r => let* a := nsem c in let* b := nsem_all r in Ok (a ++ b)
  end.

(* argument-count conditions of the curve names *)
Definition wfc (c : scmd) : Prop :=
  match c with
  | (SCurve Cr Cr, _) => True
  | (SCurve Cr _, args) | (SCurve _ Cr, args) => exists n, length args = (4 * n + 5)%nat
  | (SCurve _ _, args) => exists n, length args = (4 * n)%nat
  | _ => True
  end.

(* ---------- phase 6 + interpreter = natural reading *)
Lemma body_step X Y a b c e rest : length rest <> 1%nat ->
  body X Y (a :: b :: c :: e :: rest) = let* t := body Y X rest in Ok (mkRC (onax X a) b c (onax Y e) :: t).
Proof. intros H. cbn [body]. destruct rest as [|y [|z r]]; [reflexivity|cbn in H; lia|reflexivity]. Qed.

Lemma hh_body : forall n args, length args = (4 * n)%nat -> i_hh 0 args = body true true args.
Proof.
  induction n as [|n IH]; intros args H.
  - destruct args; [reflexivity|cbn in H; lia].
  - destruct args as [|a [|b [|c [|e rest]]]]; try (cbn in H; lia).
    rewrite body_step by (cbn in H; lia). cbn [i_hh]. rewrite IH by (cbn in H; lia). reflexivity.
Qed.
Lemma vv_body : forall n args, length args = (4 * n)%nat -> i_vv 0 args = body false false args.
Proof.
  induction n as [|n IH]; intros args H.
  - destruct args; [reflexivity|cbn in H; lia].
  - destruct args as [|a [|b [|c [|e rest]]]]; try (cbn in H; lia).
    rewrite body_step by (cbn in H; lia). cbn [i_vv]. rewrite IH by (cbn in H; lia). reflexivity.
Qed.
Lemma hv_body : forall n X args f, length args = (4 * n)%nat -> (length args < f)%nat ->
  i_hv f X args = body X (negb X) args.
Proof.
  induction n as [|n IH]; intros X args f H Hf.
  - destruct args; [|cbn in H; lia]. destruct f; [cbn in Hf; lia|reflexivity].
  - destruct args as [|a [|b [|c [|e rest]]]]; try (cbn in H; lia).
    destruct f as [|f]; [cbn in Hf; lia|].
    rewrite body_step by (cbn in H; lia). cbn [i_hv].
    assert (Hr : match rest with [x] => (x, @nil Z) | _ => (0, rest) end = (0, rest)).
    { destruct rest as [|y [|z r]]; [reflexivity|cbn in H; lia|reflexivity]. }
    rewrite Hr. rewrite IH by (cbn in H, Hf; try lia). rewrite Bool.negb_involutive.
    destruct X; reflexivity.
Qed.

Lemma swap_last2_cons a l : (2 <= length l)%nat -> swap_last2 (a :: l) = a :: swap_last2 l.
Proof.
  intros H. unfold swap_last2. cbn [rev].
  destruct (rev l) as [|y [|x r]] eqn:E.
  - apply (f_equal (@length Z)) in E. rewrite rev_length in E. cbn in E. lia.
  - apply (f_equal (@length Z)) in E. rewrite rev_length in E. cbn in E. lia.
  - cbn [app]. rewrite rev_app_distr. reflexivity.
Qed.

(* the alternating operators with a trailing general vector: natural order (dx, dy); the operator wants the pair
   swapped exactly when the last curve starts horizontally *)
Lemma hv_trail : forall n X args f, length args = (4 * n + 5)%nat -> (length args < f)%nat ->
  i_hv f X (if xorb X (Nat.odd n) then swap_last2 args else args) = body X (negb X) args.
Proof.
  induction n as [|n IH]; intros X args f H Hf.
  - destruct args as [|a [|b [|c [|x [|y [|z r]]]]]]; try (cbn in H; lia).
    destruct f as [|[|f]]; try (cbn in Hf; lia).
    destruct X; reflexivity.
  - destruct args as [|a [|b [|c [|e rest]]]]; try (cbn in H; lia).
    destruct f as [|f]; [cbn in Hf; lia|].
    assert (Hl : length rest = (4 * n + 5)%nat) by (cbn in H; lia).
    rewrite body_step by lia.
    assert (Hsw : (if xorb X (Nat.odd (S n)) then swap_last2 (a :: b :: c :: e :: rest) else a :: b :: c :: e :: rest)
                  = a :: b :: c :: e :: (if xorb (negb X) (Nat.odd n) then swap_last2 rest else rest)).
    { rewrite Nat.odd_succ, <- Nat.negb_odd.
      destruct X, (Nat.odd n); cbn [xorb negb]; try reflexivity;
        rewrite !swap_last2_cons by (cbn [length]; lia); reflexivity. }
    rewrite Hsw. cbn [i_hv].
    set (rest' := if xorb (negb X) (Nat.odd n) then swap_last2 rest else rest).
    assert (Hl' : length rest' = (4 * n + 5)%nat).
    { unfold rest'. destruct (xorb (negb X) (Nat.odd n)); [|exact Hl].
      unfold swap_last2. destruct (rev rest) as [|y [|x r]] eqn:E; try exact Hl.
      apply (f_equal (@length Z)) in E. rewrite rev_length in E. cbn in E.
      rewrite app_length, rev_length. cbn. lia. }
    assert (Hr : match rest' with [x] => (x, @nil Z) | _ => (0, rest') end = (0, rest')).
    { destruct rest' as [|y [|z r]]; [reflexivity|cbn in Hl'; lia|reflexivity]. }
    rewrite Hr. unfold rest'. rewrite IH by (try exact Hl; cbn in Hf; lia).
    rewrite Bool.negb_involutive. destruct X; reflexivity.
Qed.

Lemma swap_last2_length l : length (swap_last2 l) = length l.
Proof.
  unfold swap_last2. destruct (rev l) as [|y [|x r]] eqn:E; try reflexivity.
  apply (f_equal (@length Z)) in E. rewrite rev_length in E. cbn in E.
  rewrite app_length, rev_length. cbn. lia.
Qed.

Definition isem (c : scmd) : Res (list rseg) := let '(o, args) := p6_one c in interp o args.

Lemma interp_hh args : interp HHCURVETO args =
  if odd_len args then match args with d :: r => i_hh d r | [] => Ok [] end else i_hh 0 args.
Proof. reflexivity. Qed.
Lemma interp_vv args : interp VVCURVETO args =
  if odd_len args then match args with d :: r => i_vv d r | [] => Ok [] end else i_vv 0 args.
Proof. reflexivity. Qed.
Lemma interp_hv args : interp HVCURVETO args = i_hv (S (length args)) true args.
Proof. reflexivity. Qed.
Lemma interp_vh args : interp VHCURVETO args = i_hv (S (length args)) false args.
Proof. reflexivity. Qed.

Lemma odd_len_4n n (l : list Z) : length l = (4 * n)%nat -> odd_len l = false.
Proof.
  intros H. unfold odd_len. rewrite H. rewrite Nat.odd_mul. reflexivity.
Qed.
Lemma odd_len_4n5 n (l : list Z) : length l = (4 * n + 5)%nat -> odd_len l = true.
Proof.
  intros H. unfold odd_len. rewrite H. replace (4 * n + 5)%nat with (S (2 * (2 * n + 2)))%nat by lia.
  rewrite Nat.odd_succ, Nat.even_mul. reflexivity.
Qed.
Lemma lenZ_mod2_4n n (l : list Z) : length l = (4 * n)%nat -> (lenZ l mod 2 =? 1) = false.
Proof. intros H. unfold lenZ. rewrite H. apply Z.eqb_neq. lia. Qed.
Lemma lenZ_mod2_4n5 n (l : list Z) : length l = (4 * n + 5)%nat -> (lenZ l mod 2 =? 1) = true.
Proof. intros H. unfold lenZ. rewrite H. apply Z.eqb_eq. lia. Qed.
Lemma lenZ_mod8 n (l : list Z) : length l = (4 * n + 5)%nat -> (lenZ l mod 8 =? 1) = Nat.odd n.
Proof.
  intros H. unfold lenZ. rewrite H.
  destruct (Nat.Even_or_Odd n) as [[k ->]|[k ->]].
  - rewrite Nat.odd_mul. cbn [Nat.odd Nat.even negb andb]. apply Z.eqb_neq. lia.
  - rewrite Nat.add_1_r, Nat.odd_succ, Nat.even_mul. cbn [Nat.even orb]. apply Z.eqb_eq. lia.
Qed.

(* same-axis names: hh / vv on 4n arguments *)
Lemma isem_same (X : bool) args n : length args = (4 * n)%nat ->
  interp (if X then HHCURVETO else VVCURVETO) args = body X X args.
Proof.
  intros H. destruct X.
  - rewrite interp_hh, (odd_len_4n n) by exact H. apply (hh_body n), H.
  - rewrite interp_vv, (odd_len_4n n) by exact H. apply (vv_body n), H.
Qed.
Lemma isem_alt (X : bool) args n : length args = (4 * n)%nat ->
  interp (if X then HVCURVETO else VHCURVETO) args = body X (negb X) args.
Proof.
  intros H. destruct X.
  - rewrite interp_hv. apply (hv_body n); [exact H|lia].
  - rewrite interp_vh. apply (hv_body n); [exact H|lia].
Qed.
Lemma isem_lead (Y : bool) x y b c e rest n : length rest = (4 * n)%nat ->
  interp (if Y then HHCURVETO else VVCURVETO) (if Y then y :: x :: b :: c :: e :: rest else x :: y :: b :: c :: e :: rest)
  = let* t := body Y Y rest in Ok (mkRC (x, y) b c (onax Y e) :: t).
Proof.
  intros H. destruct Y.
  - rewrite interp_hh. rewrite (odd_len_4n5 n) by (cbn [length]; lia).
    cbn [i_hh]. rewrite (hh_body n) by exact H. reflexivity.
  - rewrite interp_vv. rewrite (odd_len_4n5 n) by (cbn [length]; lia).
    cbn [i_vv]. rewrite (vv_body n) by exact H. reflexivity.
Qed.
Lemma isem_trail (X : bool) args n : length args = (4 * n + 5)%nat ->
  interp (if X then HVCURVETO else VHCURVETO) (if xorb X (Nat.odd n) then swap_last2 args else args)
  = body X (negb X) args.
Proof.
  intros H. destruct X.
  - rewrite interp_hv. apply hv_trail; [exact H|].
    destruct (xorb true (Nat.odd n)); rewrite ?swap_last2_length; lia.
  - rewrite interp_vh. apply hv_trail; [exact H|].
    destruct (xorb false (Nat.odd n)); rewrite ?swap_last2_length; lia.
Qed.

Lemma p6_sound c : wfc c -> isem c = nsem c.
Proof.
  destruct c as [[k|k|c1 c2| |] args]; try reflexivity.
  intros W. unfold isem.
  destruct c1, c2; cbn [wfc] in W; try reflexivity.
  (* r, B *)
  all: try (destruct W as [n W];
            destruct args as [|x [|y [|b [|c [|e rest]]]]]; try (cbn in W; lia);
            assert (Hr : length rest = (4 * n)%nat) by (cbn in W; lia);
            cbn [p6_one named_directly res0 negate_cat cat_eqb negb];
            rewrite (lenZ_mod2_4n5 n) by exact W; cbn [curve_op swap_first2 nsem axis];
            first [ exact (isem_lead true x y b c e rest n Hr) | exact (isem_lead false x y b c e rest n Hr) ]).
  (* A, r *)
  all: try (destruct W as [n W];
            cbn [p6_one named_directly res0 negate_cat cat_eqb negb];
            rewrite (lenZ_mod2_4n5 n) by exact W; rewrite (lenZ_mod8 n) by exact W; cbn [curve_op nsem axis negb];
            first [ exact (isem_trail true args n W) | exact (isem_trail false args n W) ]).
  (* A, B *)
  all: destruct W as [n W];
       cbn [p6_one named_directly res0 negate_cat cat_eqb negb];
       rewrite ?(lenZ_mod2_4n n) by exact W; cbn [curve_op nsem axis negb];
       first [ exact (isem_same true args n W) | exact (isem_same false args n W)
             | exact (isem_alt true args n W) | exact (isem_alt false args n W) ].
Qed.

(* ---------- single commands (the form of every command between phases 2 and 5) *)
Definition enc (k : cat) (x y : Z) (l : list Z) : Prop :=
  match k with
  | Cr => l = [x; y]
  | Ch => l = [x] /\ y = 0
  | Cv => l = [y] /\ x = 0
  | C0 => l = [0] /\ x = 0 /\ y = 0
  end.
Definition single (c : scmd) (s : rseg) : Prop :=
  match c, s with
  | (SMove k, l), RM x y => enc k x y l
  | (SLine k, l), RL x y => enc k x y l
  | (SCurve k1 k2, l), RC x0 y0 b c x1 y1 =>
    exists l0 l1, enc k1 x0 y0 l0 /\ enc k2 x1 y1 l1 /\ l = l0 ++ [b; c] ++ l1
  | _, _ => False
  end.

Lemma categorize_enc x y : enc (fst (categorize x y)) x y (snd (categorize x y)).
Proof.
  unfold categorize. destruct (Z.eqb_spec x 0), (Z.eqb_spec y 0); cbn; subst; auto.
Qed.
Lemma p2_single s : single (p2_one s) s.
Proof.
  destruct s as [a b|a b|a b c d e f]; cbn [p2_one].
  - pose proof (categorize_enc a b) as H. destruct (categorize a b). exact H.
  - pose proof (categorize_enc a b) as H. destruct (categorize a b). exact H.
  - pose proof (categorize_enc a b) as H1. pose proof (categorize_enc e f) as H2.
    destruct (categorize a b) as [k1 l1], (categorize e f) as [k2 l2]. cbn [single].
    exists l1, l2. auto.
Qed.

Lemma enc_nr k x y l : enc k x y l -> k <> Cr ->
  exists z, l = [z] /\ (k = C0 -> z = 0) /\ (forall X, (k <> C0 -> X = axis k) -> onax X z = (x, y)).
Proof.
  intros E N. destruct k; cbn in E; [congruence| | |].
  - destruct E as [-> ->]. exists x. split; [reflexivity|]. split; [discriminate|].
    intros X HX. rewrite HX by discriminate. reflexivity.
  - destruct E as [-> ->]. exists y. split; [reflexivity|]. split; [discriminate|].
    intros X HX. rewrite HX by discriminate. reflexivity.
  - destruct E as [-> [-> ->]]. exists 0. split; [reflexivity|]. split; [reflexivity|].
    intros X _. destruct X; reflexivity.
Qed.

(* zero letters promise zero arguments *)
Fixpoint zero_ok (A B : cat) (args : list Z) : Prop :=
  match args with
  | a :: _ :: _ :: e :: rest => (A = C0 -> a = 0) /\ (B = C0 -> e = 0) /\ zero_ok B A rest
  | _ => True
  end.
Fixpoint slots_zero (args : list Z) : Prop :=
  match args with
  | a :: _ :: _ :: e :: rest => a = 0 /\ match rest with [_] => True | _ => e = 0 /\ slots_zero rest end
  | _ => True
  end.
Definition acc_extra (c : scmd) : Prop :=
  match c with
  | (SCurve Cr Cr, _) => True
  | (SCurve Cr B, _ :: _ :: _ :: _ :: e :: rest) => B = C0 -> e = 0 /\ zero_ok C0 C0 rest
  | (SCurve Cr _, _) => True
  | (SCurve A Cr, args) => A = C0 -> slots_zero args
  | (SCurve A B, args) => zero_ok A B args
  | _ => True
  end.
Definition Acc (c : scmd) (S : list rseg) : Prop := nsem c = Ok S /\ wfc c /\ acc_extra c.

(* views of nsem / wfc / acc_extra by class of name *)
Lemma nsem_nn A B args : A <> Cr -> B <> Cr -> nsem (SCurve A B, args) = body (axis A) (axis B) args.
Proof. destruct A, B; try congruence; reflexivity. Qed.
Lemma wfc_nn A B args : A <> Cr -> B <> Cr -> wfc (SCurve A B, args) = (exists n, length args = (4 * n)%nat).
Proof. destruct A, B; try congruence; reflexivity. Qed.
Lemma extra_nn A B args : A <> Cr -> B <> Cr -> acc_extra (SCurve A B, args) = zero_ok A B args.
Proof. destruct A, B; try congruence; reflexivity. Qed.
Lemma nsem_nr A args : A <> Cr -> nsem (SCurve A Cr, args) = body (axis A) (negb (axis A)) args.
Proof. destruct A; try congruence; reflexivity. Qed.
Lemma wfc_nr A args : A <> Cr -> wfc (SCurve A Cr, args) = (exists n, length args = (4 * n + 5)%nat).
Proof. destruct A; try congruence; reflexivity. Qed.
Lemma extra_nr A args : A <> Cr -> acc_extra (SCurve A Cr, args) = (A = C0 -> slots_zero args).
Proof. destruct A; try congruence; reflexivity. Qed.
Lemma nsem_rn B x y b c e rest : B <> Cr -> nsem (SCurve Cr B, x :: y :: b :: c :: e :: rest) =
  let* t := body (axis B) (axis B) rest in Ok (mkRC (x, y) b c (onax (axis B) e) :: t).
Proof. destruct B; try congruence; reflexivity. Qed.
Lemma wfc_rn B args : B <> Cr -> wfc (SCurve Cr B, args) = (exists n, length args = (4 * n + 5)%nat).
Proof. destruct B; try congruence; reflexivity. Qed.
Lemma extra_rn B x y b c e rest : B <> Cr ->
  acc_extra (SCurve Cr B, x :: y :: b :: c :: e :: rest) = (B = C0 -> e = 0 /\ zero_ok C0 C0 rest).
Proof. destruct B; try congruence; reflexivity. Qed.

Lemma onax0 X : onax X 0 = (0, 0).
Proof. destruct X; reflexivity. Qed.

(* a reading only depends on the axes where the arguments are not known to be zero *)
Lemma body_axes : forall n args A B X Y, length args = (4 * n)%nat -> zero_ok A B args ->
  (A <> C0 -> X = axis A) -> (B <> C0 -> Y = axis B) -> body X Y args = body (axis A) (axis B) args.
Proof.
  induction n as [|n IH]; intros args A B X Y H Z HX HY.
  - destruct args; [reflexivity|cbn in H; lia].
  - destruct args as [|a [|b [|c [|e rest]]]]; try (cbn in H; lia).
    cbn [zero_ok] in Z. destruct Z as [Za [Ze Zr]].
    rewrite !body_step by (cbn in H; lia).
    rewrite (IH rest B A Y X) by (try assumption; cbn in H; lia).
    assert (Ea : onax X a = onax (axis A) a).
    { destruct A; try (rewrite HX by discriminate; reflexivity). rewrite Za by reflexivity. rewrite !onax0. reflexivity. }
    assert (Ee : onax Y e = onax (axis B) e).
    { destruct B; try (rewrite HY by discriminate; reflexivity). rewrite Ze by reflexivity. rewrite !onax0. reflexivity. }
    rewrite Ea, Ee. reflexivity.
Qed.
Lemma body_zero : forall n args X Y X' Y', length args = (4 * n + 5)%nat -> slots_zero args ->
  body X Y args = body X' Y' args.
Proof.
  induction n as [|n IH]; intros args X Y X' Y' H Z.
  - destruct args as [|a [|b [|c [|x [|y [|z r]]]]]]; try (cbn in H; lia).
    cbn in Z. destruct Z as [-> _]. cbn [body]. rewrite !onax0. reflexivity.
  - destruct args as [|a [|b [|c [|e rest]]]]; try (cbn in H; lia).
    assert (Hl : length rest = (4 * n + 5)%nat) by (cbn in H; lia).
    cbn [slots_zero] in Z. destruct Z as [-> Z].
    destruct rest as [|r1 [|r2 rest']]; try (cbn in Hl; lia).
    destruct Z as [-> Z].
    rewrite !body_step by (cbn [length]; lia).
    rewrite (IH _ Y X Y' X') by assumption. rewrite !onax0. reflexivity.
Qed.
Lemma zero_ok_mono : forall n args A B A' B', (length args <= n)%nat -> zero_ok A B args ->
  (A' = C0 -> A = C0) -> (B' = C0 -> B = C0) -> zero_ok A' B' args.
Proof.
  induction n as [|n IH]; intros args A B A' B' H Z HA HB.
  - destruct args; [exact I|cbn in H; lia].
  - destruct args as [|a [|b [|c [|e rest]]]]; try exact I.
    cbn [zero_ok] in *. destruct Z as [Za [Ze Zr]].
    split; [auto|]. split; [auto|]. apply (IH rest B A); [cbn in H; lia|assumption..].
Qed.
Lemma zero_ok_all_slots : forall n args, length args = (4 * n + 5)%nat -> slots_zero args -> True.
Proof. trivial. Qed.

Lemma single_acc c s : single c s -> Acc c [s].
Proof.
  destruct c as [[k|k|k1 k2| |] l], s as [x y|x y|x0 y0 b c x1 y1]; cbn [single]; try contradiction.
  - intros E. unfold Acc. split; [|split; exact I].
    destruct k; cbn in E; [subst l|destruct E as [-> ->]|destruct E as [-> ->]|destruct E as [-> [-> ->]]]; reflexivity.
  - intros E. unfold Acc. split; [|split; exact I].
    destruct k; cbn in E; [subst l|destruct E as [-> ->]|destruct E as [-> ->]|destruct E as [-> [-> ->]]]; reflexivity.
  - intros [l0 [l1 [E0 [E1 ->]]]]. unfold Acc.
    destruct k1, k2; cbn in E0, E1;
      repeat match goal with
             | H : _ /\ _ |- _ => destruct H
             end; subst; cbn [app].
    all: split; [reflexivity|].
    all: split; [cbn [wfc]; try exact I; try (exists 0%nat; reflexivity); try (exists 1%nat; reflexivity)|].
    all: cbn [acc_extra zero_ok slots_zero]; auto; try (intros; discriminate); try (repeat split; intros; try discriminate; auto).
Qed.

(* ---------- phase 5: combining keeps the reading *)
Lemma merge_cat_facts a b d : merge_cat a b = Some d ->
  (a <> C0 -> d = a) /\ (b <> C0 -> d = b) /\ (d = C0 -> a = C0 /\ b = C0) /\ (a <> Cr -> b <> Cr -> d <> Cr).
Proof. destruct a, b; cbn; intros H; inversion H; subst; repeat split; congruence. Qed.
Lemma axis_negate d : d <> Cr -> d <> C0 -> axis (negate_cat d) = negb (axis d) /\ negate_cat d <> C0 /\ negate_cat d <> Cr.
Proof. destruct d; try congruence; cbn; repeat split; congruence. Qed.
Lemma negate_C0 d : negate_cat d = C0 -> d = C0.
Proof. destruct d; cbn; congruence. Qed.
Lemma negate_nr d : d <> Cr -> negate_cat d <> Cr.
Proof. destruct d; cbn; congruence. Qed.

Lemma cat_eqb_true a b : cat_eqb a b = true <-> a = b.
Proof. destruct a, b; cbn; split; congruence. Qed.
Lemma cat_eqb_false a b : cat_eqb a b = false <-> a <> b.
Proof. destruct a, b; cbn; split; congruence. Qed.

Lemma decide_curves_inv d0 d1 d2 d3 o : decide_curves d0 d1 d2 d3 = DMerge o ->
  d1 <> Cr /\ d2 <> Cr /\ exists d, merge_cat d1 d2 = Some d /\
  ( (d0 = Cr /\ d3 <> Cr /\ exists d', merge_cat d d3 = Some d' /\ o = SCurve Cr d')
  \/ (d0 <> Cr /\ d3 = Cr /\ exists a, merge_cat d0 (negate_cat d) = Some a /\ o = SCurve a Cr)
  \/ (d0 <> Cr /\ d3 <> Cr /\ exists a, merge_cat d0 d3 = Some a /\ o = SCurve a d)).
Proof.
  unfold decide_curves. intros H.
  destruct (cat_eqb d1 Cr) eqn:E1; [discriminate|]. destruct (cat_eqb d2 Cr) eqn:E2; [discriminate|].
  cbn [orb] in H. apply cat_eqb_false in E1, E2.
  destruct (cat_eqb d0 Cr) eqn:E0, (cat_eqb d3 Cr) eqn:E3; cbn [andb] in H; try discriminate;
    rewrite ?cat_eqb_true, ?cat_eqb_false in *.
  all: destruct (merge_cat d1 d2) as [d|] eqn:M; [|discriminate].
  all: split; [assumption|]; split; [assumption|]; exists d; split; [reflexivity|].
  - left. destruct (merge_cat d d3) as [d'|] eqn:M2; [|discriminate]. inversion H. eauto 8.
  - right; left. destruct (merge_cat d0 (negate_cat d)) as [a|] eqn:M2; [|discriminate]. inversion H. eauto 8.
  - right; right. destruct (merge_cat d0 d3) as [a|] eqn:M2; [|discriminate]. inversion H. eauto 8.
Qed.

Lemma merge_nn d0 d1 d2 d3 d A' a1 a2 s S :
  d0 <> Cr -> d1 <> Cr -> d2 <> Cr -> d3 <> Cr -> merge_cat d1 d2 = Some d -> merge_cat d0 d3 = Some A' ->
  single (SCurve d0 d1, a1) s -> Acc (SCurve d2 d3, a2) S -> Acc (SCurve A' d, a1 ++ a2) (s :: S).
Proof.
  intros N0 N1 N2 N3 M1 M0 Hs [Hsem [Hw He]].
  destruct s as [| |x0 y0 b c x1 y1]; try contradiction. destruct Hs as [l0 [l1 [E0 [E1 ->]]]].
  destruct (enc_nr _ _ _ _ E0 N0) as [z0 [-> [Z0 O0]]]. destruct (enc_nr _ _ _ _ E1 N1) as [z1 [-> [Z1 O1]]].
  cbn [app]. rewrite nsem_nn in Hsem by assumption. rewrite wfc_nn in Hw by assumption. rewrite extra_nn in He by assumption.
  destruct Hw as [n Hn].
  destruct (merge_cat_facts _ _ _ M1) as [F1a [F1b [F1c F1d]]]. destruct (merge_cat_facts _ _ _ M0) as [F0a [F0b [F0c F0d]]].
  assert (NA : A' <> Cr) by auto. assert (Nd : d <> Cr) by auto.
  unfold Acc. rewrite nsem_nn, wfc_nn, extra_nn by assumption. split; [|split].
  - rewrite body_step by lia.
    rewrite (body_axes n a2 d2 d3 (axis d) (axis A')); try assumption.
    + rewrite Hsem. cbn [bind]. rewrite (O0 (axis A')), (O1 (axis d)); [reflexivity| |].
      * intros H. rewrite (F1a H). reflexivity.
      * intros H. rewrite (F0a H). reflexivity.
    + intros H. rewrite (F1b H). reflexivity.
    + intros H. rewrite (F0b H). reflexivity.
  - exists (Datatypes.S n). cbn [length]. lia.
  - cbn [zero_ok]. split; [|split].
    + intros H. apply Z0. apply F0c, H.
    + intros H. apply Z1. apply F1c, H.
    + apply (zero_ok_mono (length a2) a2 d2 d3); [lia|assumption| |].
      * intros H. apply F1c, H.
      * intros H. apply F0c, H.
Qed.

Lemma merge_rn d1 d2 d3 d d' a1 a2 s S :
  d1 <> Cr -> d2 <> Cr -> d3 <> Cr -> merge_cat d1 d2 = Some d -> merge_cat d d3 = Some d' ->
  single (SCurve Cr d1, a1) s -> Acc (SCurve d2 d3, a2) S -> Acc (SCurve Cr d', a1 ++ a2) (s :: S).
Proof.
  intros N1 N2 N3 M1 M2 Hs [Hsem [Hw He]].
  destruct s as [| |x0 y0 b c x1 y1]; try contradiction. destruct Hs as [l0 [l1 [E0 [E1 ->]]]].
  cbn [enc] in E0. subst l0. destruct (enc_nr _ _ _ _ E1 N1) as [z1 [-> [Z1 O1]]].
  cbn [app]. rewrite nsem_nn in Hsem by assumption. rewrite wfc_nn in Hw by assumption. rewrite extra_nn in He by assumption.
  destruct Hw as [n Hn].
  destruct (merge_cat_facts _ _ _ M1) as [F1a [F1b [F1c F1d]]]. destruct (merge_cat_facts _ _ _ M2) as [F2a [F2b [F2c F2d]]].
  assert (Nd : d <> Cr) by auto. assert (Nd' : d' <> Cr) by auto.
  unfold Acc. rewrite nsem_rn, wfc_rn, extra_rn by assumption. split; [|split].
  - rewrite (body_axes n a2 d2 d3 (axis d') (axis d')); try assumption.
    + rewrite Hsem. cbn [bind]. rewrite (O1 (axis d')); [reflexivity|].
      intros H. assert (d = d1) by auto. assert (d <> C0) by congruence. rewrite (F2a H1). congruence.
    + intros H. assert (d = d2) by auto. assert (d <> C0) by congruence. rewrite (F2a H1). congruence.
    + intros H. rewrite (F2b H). reflexivity.
  - exists n. cbn [length]. lia.
  - intros H. destruct (F2c H) as [Hd H3]. destruct (F1c Hd) as [H1 H2]. split; [auto|].
    subst d2 d3. exact He.
Qed.

Lemma merge_nr d0 d1 d2 d A' a1 a2 s S :
  d0 <> Cr -> d1 <> Cr -> d2 <> Cr -> merge_cat d1 d2 = Some d -> merge_cat d0 (negate_cat d) = Some A' ->
  single (SCurve d0 d1, a1) s -> Acc (SCurve d2 Cr, a2) S -> Acc (SCurve A' Cr, a1 ++ a2) (s :: S).
Proof.
  intros N0 N1 N2 M1 M0 Hs [Hsem [Hw He]].
  destruct s as [| |x0 y0 b c x1 y1]; try contradiction. destruct Hs as [l0 [l1 [E0 [E1 ->]]]].
  destruct (enc_nr _ _ _ _ E0 N0) as [z0 [-> [Z0 O0]]]. destruct (enc_nr _ _ _ _ E1 N1) as [z1 [-> [Z1 O1]]].
  cbn [app]. rewrite nsem_nr in Hsem by assumption. rewrite wfc_nr in Hw by assumption. rewrite extra_nr in He by assumption.
  destruct Hw as [n Hn].
  destruct (merge_cat_facts _ _ _ M1) as [F1a [F1b [F1c F1d]]]. destruct (merge_cat_facts _ _ _ M0) as [F0a [F0b [F0c F0d]]].
  assert (Nd : d <> Cr) by auto. assert (Nnd : negate_cat d <> Cr) by (apply negate_nr; assumption).
  assert (NA : A' <> Cr) by auto.
  unfold Acc. rewrite nsem_nr, wfc_nr, extra_nr by assumption. split; [|split].
  - rewrite body_step by lia.
    assert (Ht : body (negb (axis A')) (axis A') a2 = body (axis d2) (negb (axis d2)) a2).
    { destruct (cat_eqb d2 C0) eqn:E.
      - apply cat_eqb_true in E. apply (body_zero n); [exact Hn|auto].
      - apply cat_eqb_false in E. assert (d = d2) by auto. subst d.
        destruct (axis_negate d2 N2 E) as [Ha [Hb Hc]]. rewrite (F0b Hb), Ha, Bool.negb_involutive. reflexivity. }
    rewrite Ht, Hsem. cbn [bind]. rewrite (O0 (axis A')), (O1 (negb (axis A'))); [reflexivity| |].
    + intros H. assert (d = d1) by auto. subst d.
      destruct (axis_negate d1 N1 H) as [Ha [Hb Hc]]. rewrite (F0b Hb), Ha, Bool.negb_involutive. reflexivity.
    + intros H. rewrite (F0a H). reflexivity.
  - exists (Datatypes.S n). cbn [length]. lia.
  - intros H. destruct (F0c H) as [H0 Hn0]. apply negate_C0 in Hn0. destruct (F1c Hn0) as [H1 H2].
    specialize (He H2). specialize (Z0 H0). specialize (Z1 H1). subst z0 z1.
    cbn [slots_zero]. split; [reflexivity|].
    destruct a2 as [|r1 [|r2 r]]; try (cbn in Hn; lia). split; [reflexivity|exact He].
Qed.

Lemma decide_cc d0 d1 d2 d3 l : decide (SCurve d0 d1) (SCurve d2 d3) l =
  match d0, d1, d2, d3 with Cr, Cr, Cr, Cr => DMerge (SCurve Cr Cr) | _, _, _, _ => decide_curves d0 d1 d2 d3 end.
Proof. destruct d0, d1, d2, d3; reflexivity. Qed.

Lemma merge_cc d0 d1 d2 d3 a1 a2 s S o :
  single (SCurve d0 d1, a1) s -> Acc (SCurve d2 d3, a2) S -> decide (SCurve d0 d1) (SCurve d2 d3) (length a2) = DMerge o ->
  Acc (o, a1 ++ a2) (s :: S).
Proof.
  intros Hs Ha Hd. rewrite decide_cc in Hd.
  assert (Hall : (d0 = Cr /\ d1 = Cr /\ d2 = Cr /\ d3 = Cr /\ o = SCurve Cr Cr) \/ decide_curves d0 d1 d2 d3 = DMerge o).
  { destruct d0, d1, d2, d3; auto. inversion Hd. auto 10. }
  clear Hd. destruct Hall as [[-> [-> [-> [-> ->]]]]|Hd].
  - destruct s as [| |x0 y0 b c x1 y1]; try contradiction. destruct Hs as [l0 [l1 [E0 [E1 ->]]]].
    cbn [enc] in E0, E1. subst l0 l1. destruct Ha as [Hsem _]. cbn [nsem] in Hsem.
    unfold Acc. split; [|split; exact I]. cbn [app nsem i_rrcurveto]. rewrite Hsem. reflexivity.
  - destruct (decide_curves_inv _ _ _ _ _ Hd) as [N1 [N2 [d [M [[-> [N3 [d' [M2 ->]]]]|[[N0 [-> [a [M2 ->]]]]|[N0 [N3 [a [M2 ->]]]]]]]]]].
    + apply (merge_rn d1 d2 d3 d d' a1 a2 s S); assumption.
    + apply (merge_nr d0 d1 d2 d a a1 a2 s S); assumption.
    + apply (merge_nn d0 d1 d2 d3 d a a1 a2 s S); assumption.
Qed.

Lemma nsem_line_r a : nsem (SLine Cr, a) = i_rlineto a. Proof. reflexivity. Qed.
Lemma nsem_line_h a : nsem (SLine Ch, a) = Ok (i_alt true a). Proof. reflexivity. Qed.
Lemma nsem_line_v a : nsem (SLine Cv, a) = Ok (i_alt false a). Proof. reflexivity. Qed.
Lemma nsem_rr a : nsem (SCurve Cr Cr, a) = i_rrcurveto a. Proof. reflexivity. Qed.
Lemma nsem_lc a : nsem (SLineCurve, a) = i_rlinecurve a. Proof. reflexivity. Qed.
Lemma nsem_cl a : nsem (SCurveLine, a) = i_rcurveline a. Proof. reflexivity. Qed.

Lemma acc_plain c S : (match c with (SCurve _ _, _) => False | _ => True end) -> nsem c = Ok S -> Acc c S.
Proof. intros H E. destruct c as [[k|k|c1 c2| |] a]; try contradiction; (split; [exact E|split; exact I]). Qed.

Lemma merge_ok o1 a1 o2 a2 s S o :
  single (o1, a1) s -> Acc (o2, a2) S -> decide o1 o2 (length a2) = DMerge o -> Acc (o, a1 ++ a2) (s :: S).
Proof.
  intros Hs Ha Hd.
  destruct o1 as [k1|k1|c0 c1| |].
  - destruct k1; cbn in Hd; discriminate.
  - destruct s as [|x y|]; try contradiction. cbn [single] in Hs.
    destruct k1; destruct o2 as [k2|k2|e0 e1| |]; try destruct k2; try destruct e0; try destruct e1; cbn [decide] in Hd; try discriminate.
    + (* rlineto + rlineto *)
      inversion Hd; subst o. cbn [enc] in Hs. subst a1. destruct Ha as [Hsem _]. rewrite nsem_line_r in Hsem.
      apply acc_plain; [exact I|]. cbn [app]. rewrite nsem_line_r. cbn [i_rlineto]. rewrite Hsem. reflexivity.
    + (* rlineto + rrcurveto *)
      cbn [enc] in Hs. subst a1. destruct Ha as [Hsem _]. rewrite nsem_rr in Hsem.
      destruct (Nat.eqb (length a2) 6) eqn:E6.
      * inversion Hd; subst o. apply Nat.eqb_eq in E6.
        destruct a2 as [|p1 [|p2 [|p3 [|p4 [|p5 [|p6 [|p7 r]]]]]]]; try (cbn in E6; lia).
        cbn in Hsem. apply Ok_inj in Hsem. subst S. apply acc_plain; [exact I|]. reflexivity.
      * destruct (Nat.eqb (length a2) 2) eqn:E2; [|discriminate]. apply Nat.eqb_eq in E2.
        destruct a2 as [|p1 [|p2 [|p3 r]]]; try (cbn in E2; lia). cbn in Hsem. discriminate.
    + (* rlineto + rlinecurve *)
      inversion Hd; subst o. cbn [enc] in Hs. subst a1. destruct Ha as [Hsem _]. rewrite nsem_lc in Hsem.
      apply acc_plain; [exact I|]. cbn [app]. rewrite nsem_lc. rewrite rlinecurve_step.
      * rewrite Hsem. reflexivity.
      * intros L. destruct a2 as [|p1 [|p2 [|p3 [|p4 [|p5 r]]]]]; try (cbn in L; lia). cbn in Hsem. discriminate.
    + (* hlineto + vlineto *)
      inversion Hd; subst o. cbn [enc] in Hs. destruct Hs as [-> ->]. destruct Ha as [Hsem _]. rewrite nsem_line_v in Hsem.
      apply Ok_inj in Hsem. subst S. apply acc_plain; [exact I|]. reflexivity.
    + (* vlineto + hlineto *)
      inversion Hd; subst o. cbn [enc] in Hs. destruct Hs as [-> ->]. destruct Ha as [Hsem _]. rewrite nsem_line_h in Hsem.
      apply Ok_inj in Hsem. subst S. apply acc_plain; [exact I|]. reflexivity.
  - destruct o2 as [k2|k2|e0 e1| |].
    + destruct c0, c1; cbn in Hd; discriminate.
    + (* rrcurveto + rlineto *)
      destruct c0, c1, k2; cbn [decide] in Hd; try discriminate.
      destruct (Nat.eqb (length a2) 2) eqn:E2; [|discriminate]. apply Nat.eqb_eq in E2. inversion Hd; subst o.
      destruct s as [| |x0 y0 b c x1 y1]; try contradiction. destruct Hs as [l0 [l1 [E0 [E1 ->]]]].
      cbn [enc] in E0, E1. subst l0 l1. destruct Ha as [Hsem _]. rewrite nsem_line_r in Hsem.
      destruct a2 as [|p1 [|p2 [|p3 r]]]; try (cbn in E2; lia). cbn in Hsem. apply Ok_inj in Hsem. subst S.
      apply acc_plain; [exact I|]. reflexivity.
    + eapply merge_cc; eassumption.
    + destruct c0, c1; cbn in Hd; discriminate.
    + (* rrcurveto + rcurveline *)
      destruct c0, c1; cbn [decide] in Hd; try discriminate. inversion Hd; subst o.
      destruct s as [| |x0 y0 b c x1 y1]; try contradiction. destruct Hs as [l0 [l1 [E0 [E1 ->]]]].
      cbn [enc] in E0, E1. subst l0 l1. destruct Ha as [Hsem _]. rewrite nsem_cl in Hsem.
      apply acc_plain; [exact I|]. cbn [app]. rewrite nsem_cl. cbn [i_rcurveline]. rewrite Hsem. reflexivity.
  - destruct s; contradiction.
  - destruct s; contradiction.
Qed.

Lemma nsem_all_cons c r S O : nsem c = Ok S -> nsem_all r = Ok O -> nsem_all (c :: r) = Ok (S ++ O).
Proof. intros H1 H2. cbn [nsem_all]. rewrite H1, H2. reflexivity. Qed.

Lemma p5go_ok ms : forall rv ss cur S su out O,
  Forall2 single rv ss -> Acc cur S -> nsem_all out = Ok O -> Forall wfc out ->
  nsem_all (p5go ms rv cur su out) = Ok (rev ss ++ S ++ O) /\ Forall wfc (p5go ms rv cur su out).
Proof.
  induction rv as [|p rest IH]; intros ss cur S su out O HF Ha Ho Hw.
  - inversion HF; subst. cbn [p5go rev app]. destruct Ha as [Hsem [Hwf _]]. split.
    + apply nsem_all_cons; assumption.
    + constructor; assumption.
  - inversion HF as [|p' s rest' ss' Hp Hrest]; subst.
    destruct p as [o1 a1], cur as [o2 a2]. cbn [p5go rev].
    assert (Hkeep : forall su', nsem_all (p5go ms rest (o1, a1) su' ((o2, a2) :: out)) = Ok ((rev ss' ++ [s]) ++ S ++ O)
                         /\ Forall wfc (p5go ms rest (o1, a1) su' ((o2, a2) :: out))).
    { intros su'. destruct (IH ss' (o1, a1) [s] su' ((o2, a2) :: out) (S ++ O)) as [H1 H2].
      - assumption.
      - apply single_acc, Hp.
      - destruct Ha as [Hsem _]. apply nsem_all_cons; assumption.
      - constructor; [apply Ha|assumption].
      - split; [|exact H2]. rewrite H1. rewrite <- app_assoc. reflexivity. }
    destruct (decide o1 o2 (length a2)) as [o| |] eqn:Hd; [|apply Hkeep|apply Hkeep].
    destruct (Z.max (lenZ a1) (lenZ a1 + su) <? ms); [|apply Hkeep].
    destruct (IH ss' (o, a1 ++ a2) (s :: S) (Z.max (lenZ a1) (lenZ a1 + su)) out O) as [H1 H2]; try assumption.
    + eapply merge_ok; eassumption.
    + split; [|exact H2]. rewrite H1. rewrite <- app_assoc. reflexivity.
Qed.

Lemma Forall2_rev {A B} (R : A -> B -> Prop) l1 l2 : Forall2 R l1 l2 -> Forall2 R (rev l1) (rev l2).
Proof.
  induction 1; cbn [rev]; [constructor|]. apply Forall2_app; [assumption|]. constructor; [assumption|constructor].
Qed.

Lemma p5_ok ms cs ss : Forall2 single cs ss -> nsem_all (p5 ms cs) = Ok ss /\ Forall wfc (p5 ms cs).
Proof.
  intros HF. unfold p5. pose proof (Forall2_rev _ _ _ HF) as HR.
  destruct (rev cs) as [|c rest] eqn:E.
  - destruct (rev ss) as [|s0 r0] eqn:E2; [|inversion HR]. assert (ss = []).
    { apply (f_equal (@rev rseg)) in E2. rewrite rev_involutive in E2. exact E2. }
    subst. split; [reflexivity|constructor].
  - destruct (rev ss) as [|s ssr] eqn:E2; [inversion HR|].
    inversion HR as [|c' s' rest' ssr' Hc Hrest]; subst.
    destruct (p5go_ok ms rest ssr c [s] (lenZ (snd c)) [] []) as [H1 H2]; try assumption.
    + apply single_acc, Hc.
    + reflexivity.
    + constructor.
    + split; [|exact H2]. rewrite H1. rewrite app_nil_r.
      change (rev ssr ++ [s]) with (rev (s :: ssr)). rewrite <- E2. rewrite rev_involutive. reflexivity.
Qed.

Lemma p6_all cs : Forall wfc cs -> interp_all (map p6_one cs) = nsem_all cs.
Proof.
  induction 1 as [|c r Hc Hr IH]; [reflexivity|].
  cbn [map interp_all nsem_all]. rewrite <- (p6_sound c Hc). unfold isem.
  destruct (p6_one c) as [o a]. rewrite IH. reflexivity.
Qed.

(* ---------- phase 4: the peephole keeps every command's segment *)
Lemma peep_single prv c nxt s : single c s -> single (peep prv c nxt) s.
Proof.
  destruct c as [[k|k|c1 c2| |] l]; destruct s as [x y|x y|x0 y0 b c x1 y1]; cbn [single]; try contradiction.
  - intros E. exact E.
  - intros E. destruct l as [|a [|a' r]]; try exact E. cbn [peep].
    destruct (negb (cat_eqb k Cr) && sop_eqb prv (SLine Cr) && sop_eqb nxt (SLine Cr)); [|exact E].
    destruct k; cbn [enc] in *.
    + discriminate.
    + destruct E as [E ->]. inversion E; subst. reflexivity.
    + destruct E as [E ->]. inversion E; subst. reflexivity.
    + destruct E as [E [-> ->]]. inversion E; subst. reflexivity.
  - intros [l0 [l1 [E0 [E1 ->]]]].
    destruct c1, c2; cbn [enc] in E0, E1;
      repeat match goal with H : _ /\ _ |- _ => destruct H end; subst; cbn [app length Nat.eqb peep andb];
      try (destruct (sop_eqb prv (SCurve Cr Cr)), (sop_eqb nxt (SCurve Cr Cr)); cbn [andb]);
      cbn [single insert_at firstn skipn app];
      match goal with
      | |- exists l0 l1, enc ?k1 ?a ?b l0 /\ enc ?k2 ?c ?d l1 /\ _ =>
        first [ exists [a; b], [c; d]; cbn [enc]; repeat split; reflexivity
              | exists [a; b], [c]; cbn [enc]; repeat split; reflexivity
              | exists [a; b], [d]; cbn [enc]; repeat split; reflexivity
              | exists [a; b], [0]; cbn [enc]; repeat split; reflexivity
              | exists [a], [c; d]; cbn [enc]; repeat split; reflexivity
              | exists [b], [c; d]; cbn [enc]; repeat split; reflexivity
              | exists [0], [c; d]; cbn [enc]; repeat split; reflexivity
              | exists [a], [c]; cbn [enc]; repeat split; reflexivity
              | exists [a], [d]; cbn [enc]; repeat split; reflexivity
              | exists [a], [0]; cbn [enc]; repeat split; reflexivity
              | exists [b], [c]; cbn [enc]; repeat split; reflexivity
              | exists [b], [d]; cbn [enc]; repeat split; reflexivity
              | exists [b], [0]; cbn [enc]; repeat split; reflexivity
              | exists [0], [c]; cbn [enc]; repeat split; reflexivity
              | exists [0], [d]; cbn [enc]; repeat split; reflexivity
              | exists [0], [0]; cbn [enc]; repeat split; reflexivity ]
      end.
Qed.
Lemma p4go_ok : forall cs ss prv, Forall2 single cs ss -> Forall2 single (p4go prv cs) ss.
Proof.
  induction cs as [|c rest IH]; intros ss prv HF; [exact HF|].
  inversion HF as [|c' s rest' ss' Hc Hr]; subst. cbn [p4go].
  destruct rest as [|n rest2]; [exact HF|].
  constructor; [apply peep_single, Hc|]. apply IH, Hr.
Qed.
Lemma p4_ok cs ss : Forall2 single cs ss -> Forall2 single (p4 cs) ss.
Proof.
  intros HF. destruct cs as [|c rest]; [exact HF|]. inversion HF; subst. cbn [p4].
  constructor; [assumption|]. apply p4go_ok. assumption.
Qed.

(* ---------- phases 1 and 3: only the documented merges *)
Lemma fe_cons x l m : fill_eq l m -> fill_eq (x :: l) (x :: m).
Proof. intros H. apply (fe_app [x] [x] l m); [apply fe_refl|exact H]. Qed.
Lemma fe_app_l p l m : fill_eq l m -> fill_eq (p ++ l) (p ++ m).
Proof. intros H. apply fe_app; [apply fe_refl|exact H]. Qed.
Lemma fe_app_r p l m : fill_eq l m -> fill_eq (l ++ p) (m ++ p).
Proof. intros H. apply fe_app; [exact H|apply fe_refl]. Qed.

Lemma p1_ok l : fill_eq (p1 l) l.
Proof.
  induction l as [|s r IH]; [apply fe_refl|]. cbn [p1 fold_right]. fold (p1 r).
  apply fe_trans with (s :: p1 r); [|apply fe_cons, IH].
  destruct s as [a b| |]; cbn [p1_step]; try apply fe_refl.
  destruct (p1 r) as [|[c d| |] r']; try apply fe_refl.
  apply fe_sym. apply (fe_app [RM a b; RM c d] [RM (a + c) (b + d)] r' r'); [apply fe_mm|apply fe_refl].
Qed.

Lemma demote_single c s : single c s -> exists s', single (demote c) s' /\ fill_eq [s'] [s].
Proof.
  intros Hs. destruct c as [[k|k|c1 c2| |] l]; try (exists s; split; [exact Hs|apply fe_refl]).
  destruct c1, c2; try (exists s; split; [exact Hs|apply fe_refl]).
  destruct s as [| |x0 y0 b c x1 y1]; try contradiction. destruct Hs as [l0 [l1 [E0 [E1 ->]]]].
  cbn [enc] in E0, E1. destruct E0 as [-> [-> ->]], E1 as [-> [-> ->]]. cbn [app demote].
  exists (RL b c). split; [|apply fe_sym, fe_flat_curve].
  pose proof (categorize_enc b c) as H. destruct (categorize b c). exact H.
Qed.
Lemma is0line_single c s : single c s -> is0line c = true -> s = RL 0 0.
Proof.
  destruct c as [[k|k|c1 c2| |] l]; cbn [is0line]; try discriminate. destruct k; try discriminate.
  destruct s; cbn [single enc]; try contradiction. intros [_ [-> ->]] _. reflexivity.
Qed.
Lemma merge_hv_single c p m s1 s2 : merge_hv c p = Some m -> single c s1 -> single p s2 ->
  exists s', single m s' /\ fill_eq [s2; s1] [s'].
Proof.
  unfold merge_hv. destruct c as [oc lc], p as [op lp].
  destruct oc as [|k| | |]; try discriminate. destruct k; try discriminate;
    destruct lc as [|a [|]]; try discriminate; destruct op as [|k'| | |]; try discriminate; destruct k'; try discriminate;
    destruct lp as [|b [|]]; try discriminate; intros H; inversion H; subst; clear H;
    destruct s1 as [|u1 v1|]; try contradiction; destruct s2 as [|u2 v2|]; try contradiction;
    cbn [single enc]; intros [E1 ->] [E2 ->]; inversion E1; inversion E2; subst.
  - exists (RL (u2 + u1) 0). split; [cbn [single enc]; split; [f_equal; lia|reflexivity]|apply fe_hh].
  - exists (RL 0 (v2 + v1)). split; [cbn [single enc]; split; [f_equal; lia|reflexivity]|apply fe_vv].
Qed.

Lemma p3go_ok : forall rest ssr cur sc out so,
  single cur sc -> Forall2 single rest ssr -> Forall2 single out so ->
  exists so', Forall2 single (p3go cur rest out) so' /\ fill_eq so' (rev ssr ++ [sc] ++ so).
Proof.
  induction rest as [|p rest' IH]; intros ssr cur sc out so Hc Hr Ho.
  - inversion Hr; subst. cbn [p3go rev app].
    destruct (demote_single cur sc Hc) as [s' [Hs' Hf]].
    destruct (is0line (demote cur)) eqn:E0.
    + exists so. split; [exact Ho|]. pose proof (is0line_single _ _ Hs' E0) as ->.
      apply (fe_app [] [sc] so so); [|apply fe_refl].
      apply fe_trans with [RL 0 0]; [apply fe_sym, fe_zero_line|exact Hf].
    + exists (s' :: so). split; [constructor; assumption|]. apply (fe_app [s'] [sc] so so); [exact Hf|apply fe_refl].
  - inversion Hr as [|p' sp rest2 ssr' Hp Hrest]; subst. cbn [p3go rev].
    destruct (demote_single cur sc Hc) as [s' [Hs' Hf]].
    rewrite <- app_assoc. cbn [app].
    destruct (is0line (demote cur)) eqn:E0.
    + destruct (IH ssr' p sp out so Hp Hrest Ho) as [so' [H1 H2]]. exists so'. split; [exact H1|].
      apply fe_trans with (rev ssr' ++ [sp] ++ so); [exact H2|]. apply fe_app_l. cbn [app]. apply fe_cons.
      pose proof (is0line_single _ _ Hs' E0) as ->.
      apply (fe_app [] [sc] so so); [|apply fe_refl].
      apply fe_trans with [RL 0 0]; [apply fe_sym, fe_zero_line|exact Hf].
    + destruct (merge_hv (demote cur) p) as [m|] eqn:Em.
      * destruct (merge_hv_single _ _ _ _ _ Em Hs' Hp) as [sm [Hm Hfm]].
        destruct (IH ssr' m sm out so Hm Hrest Ho) as [so' [H1 H2]]. exists so'. split; [exact H1|].
        apply fe_trans with (rev ssr' ++ [sm] ++ so); [exact H2|]. apply fe_app_l.
        apply (fe_app [sm] [sp; sc] so so); [|apply fe_refl].
        apply fe_trans with [sp; s']; [apply fe_sym, Hfm|]. apply fe_cons, Hf.
      * destruct (IH ssr' p sp (demote cur :: out) (s' :: so) Hp Hrest) as [so' [H1 H2]]; [constructor; assumption|].
        exists so'. split; [exact H1|].
        apply fe_trans with (rev ssr' ++ [sp] ++ s' :: so); [exact H2|]. apply fe_app_l. cbn [app]. apply fe_cons.
        apply (fe_app [s'] [sc] so so); [exact Hf|apply fe_refl].
Qed.
Lemma p3_ok cs ss : Forall2 single cs ss -> exists ss', Forall2 single (p3 cs) ss' /\ fill_eq ss' ss.
Proof.
  intros HF. unfold p3. pose proof (Forall2_rev _ _ _ HF) as HR.
  destruct (rev cs) as [|c rest] eqn:E.
  - destruct (rev ss) as [|s0 r0] eqn:E2; [|inversion HR]. assert (ss = []).
    { apply (f_equal (@rev rseg)) in E2. rewrite rev_involutive in E2. exact E2. }
    subst. exists []. split; [constructor|apply fe_refl].
  - destruct (rev ss) as [|s ssr] eqn:E2; [inversion HR|].
    inversion HR as [|c' s' rest' ssr' Hc Hrest]; subst.
    destruct (p3go_ok rest ssr c s [] [] Hc Hrest) as [so' [H1 H2]]; [constructor|].
    exists so'. split; [exact H1|]. rewrite app_nil_r in H2.
    change (rev ssr ++ [s]) with (rev (s :: ssr)) in H2. rewrite <- E2, rev_involutive in H2. exact H2.
Qed.

(* ---------- the whole specialiser *)
Lemma p2_all l : Forall2 single (map p2_one l) l.
Proof. induction l; cbn [map]; constructor; [apply p2_single|assumption]. Qed.

Theorem specialize_keeps_topology ms segs : interp_all (specialize true ms segs) = Ok (p1 segs).
Proof.
  unfold specialize.
  destruct (p5_ok ms (p4 (map p2_one (p1 segs))) (p1 segs)) as [H1 H2].
  - apply p4_ok, p2_all.
  - rewrite p6_all by exact H2. exact H1.
Qed.

Theorem specialize_keeps_fill ms segs :
  exists out, interp_all (specialize false ms segs) = Ok out /\ fill_eq out segs.
Proof.
  unfold specialize.
  destruct (p3_ok (map p2_one (p1 segs)) (p1 segs) (p2_all _)) as [ss' [H3 Hf]].
  destruct (p5_ok ms (p4 (p3 (map p2_one (p1 segs)))) ss') as [H1 H2].
  - apply p4_ok, H3.
  - exists ss'. split.
    + rewrite p6_all by exact H2. exact H1.
    + apply fe_trans with (p1 segs); [exact Hf|apply p1_ok].
Qed.

Corollary specialize_same_endpoint pt ms segs :
  exists out, interp_all (specialize pt ms segs) = Ok out /\ total_delta out = total_delta segs.
Proof.
  destruct pt.
  - exists (p1 segs). split; [apply specialize_keeps_topology|]. apply fill_eq_endpoint, p1_ok.
  - destruct (specialize_keeps_fill ms segs) as [out [H1 H2]]. exists out. split; [exact H1|].
    apply fill_eq_endpoint, H2.
Qed.

Lemma p1_moves_only l : fill_eq (p1 l) l.
Proof. apply p1_ok. Qed.

(* ---------- the statements are not vacuous: the specialiser does combine, swap and demote on concrete input *)
Example specialize_example_alt :
  specialize false 48 [RM 0 0; RC 10 0 5 5 0 20; RC 0 30 7 7 40 0; RC 50 0 9 9 3 60]
  = [(HMOVETO, [0]); (HVCURVETO, [10; 5; 5; 20; 30; 7; 7; 40; 50; 9; 9; 60; 3])].
Proof. vm_compute. reflexivity. Qed.
Example specialize_example_lines :
  specialize false 48 [RL 5 0; RL 7 0; RL 0 0; RL 0 3; RC 0 0 4 4 0 0; RL 1 1; RL 0 2; RL 2 2]
  = [(HLINETO, [12; 3]); (RLINETO, [4; 4; 1; 1; 0; 2; 2; 2])].
Proof. vm_compute. reflexivity. Qed.
Example specialize_example_topology :
  specialize true 48 [RL 5 0; RL 7 0; RL 0 0; RM 1 1; RM 2 2]
  = [(HLINETO, [5]); (HLINETO, [7]); (HLINETO, [0]); (RMOVETO, [3; 3])].
Proof. vm_compute. reflexivity. Qed.

(* ---------- generalizeFirst=True: any list of path commands *)
Lemma generalize_all_sound : forall cs g, generalize_all cs = Ok g -> interp_all g = interp_all cs.
Proof.
  induction cs as [|[o a] r IH]; intros g H; cbn [generalize_all] in H.
  - apply Ok_inj in H. subst. reflexivity.
  - destruct (generalize o a) as [x|e] eqn:Ex; [|discriminate]. cbn [bind] in H.
    destruct (generalize_all r) as [y|e] eqn:Ey; [|discriminate]. cbn [bind] in H. apply Ok_inj in H. subst g.
    rewrite interp_all_app. rewrite (generalize_preserves_all o a x Ex). rewrite (IH y eq_refl).
    cbn [interp_all]. destruct (interp o a); cbn [bind]; [|reflexivity]. destruct (interp_all r); reflexivity.
Qed.

Theorem specialize_commands_keep_topology ms cs outc :
  specialize_commands true ms cs = Ok outc ->
  exists D, interp_all cs = Ok D /\ interp_all outc = Ok (p1 D).
Proof.
  unfold specialize_commands. intros H.
  destruct (generalize_all cs) as [g|e] eqn:Eg; [|discriminate]. cbn [bind] in H.
  destruct (interp_all g) as [segs|e] eqn:Es; [|discriminate]. cbn [bind] in H. apply Ok_inj in H. subst outc.
  exists segs. split; [rewrite <- (generalize_all_sound cs g Eg); exact Es|apply specialize_keeps_topology].
Qed.
Theorem specialize_commands_keep_fill ms cs outc :
  specialize_commands false ms cs = Ok outc ->
  exists D out, interp_all cs = Ok D /\ interp_all outc = Ok out /\ fill_eq out D.
Proof.
  unfold specialize_commands. intros H.
  destruct (generalize_all cs) as [g|e] eqn:Eg; [|discriminate]. cbn [bind] in H.
  destruct (interp_all g) as [segs|e] eqn:Es; [|discriminate]. cbn [bind] in H. apply Ok_inj in H. subst outc.
  destruct (specialize_keeps_fill ms segs) as [out [H1 H2]].
  exists segs, out. split; [rewrite <- (generalize_all_sound cs g Eg); exact Es|]. split; assumption.
Qed.

