From Coq Require Import ZArith List String Bool.
From FV Require Import Base.Ser Base.Res C12.Model C12.ModelSpec.
Import ListNotations.
Open Scope string_scope.
Definition reg : registry := [
  ("interp", run2 interp);
  ("generalize", run2 generalize);
  ("specialize", run3 specialize_entry);
  ("specialize_commands", run3 specialize_commands)
].
Definition fv_entry := dispatch reg.
