From Coq Require Import ZArith List String Bool.
From FV Require Import Base.Ser Base.Res C12.Model C12.ModelSpec.
From FV Require C12.ModelProg.
Import ListNotations.
Open Scope string_scope.
Global Instance Ser_tok : Ser ModelProg.tok :=
  fun t => match t with ModelProg.TNum z => [0; z] | ModelProg.TOp o => [1; o] | ModelProg.TMask m => 2 :: ser m end%Z.
Global Instance De_tok : De ModelProg.tok :=
  fun l => match l with
           | 0%Z :: z :: r => Some (ModelProg.TNum z, r)
           | 1%Z :: o :: r => Some (ModelProg.TOp o, r)
           | 2%Z :: r => match de r with Some (m, r') => Some (ModelProg.TMask m, r') | None => None end
           | _ => None
           end.
Definition reg : registry := [
  ("interp", run2 interp);
  ("generalize", run2 generalize);
  ("specialize", run3 specialize_entry);
  ("specialize_commands", run3 specialize_commands);
  ("programToCommands", run1 ModelProg.programToCommands)
].
Definition fv_entry := dispatch reg.
