(* C12/ModelProg.v — cffLib/specializer.py programToCommands (39-128) / commandsToProgram (142-153) for programs without blend
   operators: splitting a token list into (operator, arguments) commands, with the optional width argument and the mask bytes that
   follow hintmask / cntrmask as commands of their own, and joining them again. *)
From Coq Require Import ZArith List Bool.
From FV Require Import Base.Ser Base.Res.
Import ListNotations.
Open Scope Z_scope.

Inductive tok := TNum (z : Z) | TOp (o : Z) | TMask (m : list Z).
(* operator ids: 0 rmoveto 1 hmoveto 2 vmoveto 3..12 the other path operators; 20 hstem 21 hstemhm 22 vstem 23 vstemhm
   24 cntrmask 25 hintmask 30 endchar; anything else is an operator without a role here (flex, callsubr, ...) *)
Definition memz (x : Z) (l : list Z) : bool := existsb (Z.eqb x) l.
Definition is_width_op (o : Z) : bool := memz o [20; 21; 22; 23; 24; 25; 1; 2; 0; 30].
Definition is_parity_op (o : Z) : bool := memz o [1; 2].
Definition is_mask_op (o : Z) : bool := memz o [25; 24].

Definition cmd := (option Z * list tok)%type.
Definition nonempty (stack : list tok) : list cmd := match stack with [] => [] | _ => [(None, stack)] end.

Fixpoint p2c (prog : list tok) (seen : bool) (stack : list tok) (acc : list cmd) : Res (list cmd) :=
  match prog with
  | [] => Ok (acc ++ nonempty stack)
  | TOp o :: rest =>
    let '(seen', stack', acc') :=
        if negb seen && is_width_op o then
          match stack with
          | w :: stack1 => if xorb (Nat.odd (length stack)) (is_parity_op o) then (true, stack1, acc ++ [(None, [w])])
                           else (true, stack, acc)
          | [] => (true, stack, acc)
          end
        else (seen, stack, acc) in
    if is_mask_op o then
      match rest with
      | m :: rest' => p2c rest' seen' [] (acc' ++ nonempty stack' ++ [(Some o, []); (None, [m])])
      | [] => Err IndexError      (* next(it) on an exhausted iterator: StopIteration *)
      end
    else p2c rest seen' [] (acc' ++ [(Some o, stack')])
  | t :: rest => p2c rest seen (stack ++ [t]) acc
  end.
Definition programToCommands (prog : list tok) : Res (list cmd) := p2c prog false [] [].
Definition cmd_tokens (c : cmd) : list tok := snd c ++ match fst c with Some o => [TOp o] | None => [] end.
Definition commandsToProgram (cs : list cmd) : list tok := flat_map cmd_tokens cs.
