(* C12/Model.v — Type 2 path operators: what the interpreter draws (misc/psCharStrings.py
   T2OutlineExtractor 706-973) and what the generaliser rewrites them to (cffLib/specializer.py
   _GeneralizerDecombinerCommandsMap 164-300).  Two independent transcriptions; the theorem says they
   agree. Arguments are integers (or 16.16 numerators): only additions are involved. *)
From Coq Require Import ZArith List Bool.
From FV Require Import Base.Ser Base.Res.
Import ListNotations.
Open Scope Z_scope.

Inductive rseg :=
| RM (dx dy : Z)
| RL (dx dy : Z)
| RC (dxa dya dxb dyb dxc dyc : Z).
Global Instance Ser_rseg : Ser rseg :=
  fun s => match s with
           | RM a b => [0; a; b] | RL a b => [1; a; b]
           | RC a b c d e f => [2; a; b; c; d; e; f] end.

(* operator ids *)
Definition op := Z.
Definition RMOVETO := 0. Definition HMOVETO := 1. Definition VMOVETO := 2.
Definition RLINETO := 3. Definition HLINETO := 4. Definition VLINETO := 5.
Definition RRCURVETO := 6. Definition HHCURVETO := 7. Definition VVCURVETO := 8.
Definition HVCURVETO := 9. Definition VHCURVETO := 10. Definition RCURVELINE := 11. Definition RLINECURVE := 12.

(* ---------- the interpreter ---------- *)
Fixpoint i_rlineto (args : list Z) : Res (list rseg) :=
  match args with
  | [] => Ok []
  | a :: b :: r => let* t := i_rlineto r in Ok (RL a b :: t)
  | _ => Err ValueError
  end.
Fixpoint i_alt (horizontal : bool) (args : list Z) : list rseg :=
  match args with
  | [] => []
  | a :: r => (if horizontal then RL a 0 else RL 0 a) :: i_alt (negb horizontal) r
  end.
Fixpoint i_rrcurveto (args : list Z) : Res (list rseg) :=
  match args with
  | [] => Ok []
  | a :: b :: c :: d :: e :: f :: r => let* t := i_rrcurveto r in Ok (RC a b c d e f :: t)
  | _ => Err ValueError
  end.
(* hhcurveto body: {dxa dxb dyb dxc}+ with the pending dy1 *)
Fixpoint i_hh (dy1 : Z) (args : list Z) : Res (list rseg) :=
  match args with
  | [] => Ok []
  | dxa :: dxb :: dyb :: dxc :: r => let* t := i_hh 0 r in Ok (RC dxa dy1 dxb dyb dxc 0 :: t)
  | _ => Err ValueError
  end.
Fixpoint i_vv (dx1 : Z) (args : list Z) : Res (list rseg) :=
  match args with
  | [] => Ok []
  | dya :: dxb :: dyb :: dyc :: r => let* t := i_vv 0 r in Ok (RC dx1 dya dxb dyb 0 dyc :: t)
  | _ => Err ValueError
  end.
(* hvcurveto / vhcurveto: alternate hcurveto and vcurveto; a single trailing argument belongs to the last curve *)
Fixpoint i_hv (fuel : nat) (horizontal : bool) (args : list Z) : Res (list rseg) :=
  match fuel with
  | O => Err OutOfFuel
  | S f =>
    match args with
    | [] => Ok []
    | a :: b :: c :: d :: r =>
      let '(last, r') := match r with [x] => (x, []) | _ => (0, r) end in
      let seg := if horizontal then RC a 0 b c last d else RC 0 a b c d last in
      let* t := i_hv f (negb horizontal) r' in Ok (seg :: t)
    | _ => Err ValueError
    end
  end.
Fixpoint i_rcurveline (args : list Z) : Res (list rseg) :=
  match args with
  | [a; b] => Ok [RL a b]
  | a :: b :: c :: d :: e :: f :: r => let* t := i_rcurveline r in Ok (RC a b c d e f :: t)
  | _ => Err ValueError
  end.
Fixpoint i_rlinecurve (args : list Z) : Res (list rseg) :=
  match args with
  | [a; b; c; d; e; f] => Ok [RC a b c d e f]
  | a :: b :: r => let* t := i_rlinecurve r in Ok (RL a b :: t)
  | _ => Err ValueError
  end.

Definition odd_len (l : list Z) : bool := Nat.odd (length l).

Definition interp (o : op) (args : list Z) : Res (list rseg) :=
  if o =? RMOVETO then match args with [a; b] => Ok [RM a b] | _ => Err ValueError end
  else if o =? HMOVETO then match args with [a] => Ok [RM a 0] | _ => Err ValueError end
  else if o =? VMOVETO then match args with [a] => Ok [RM 0 a] | _ => Err ValueError end
  else if o =? RLINETO then i_rlineto args
  else if o =? HLINETO then Ok (i_alt true args)
  else if o =? VLINETO then Ok (i_alt false args)
  else if o =? RRCURVETO then i_rrcurveto args
  else if o =? HHCURVETO then (if odd_len args then match args with d :: r => i_hh d r | [] => Ok [] end else i_hh 0 args)
  else if o =? VVCURVETO then (if odd_len args then match args with d :: r => i_vv d r | [] => Ok [] end else i_vv 0 args)
  else if o =? HVCURVETO then i_hv (S (length args)) true args
  else if o =? VHCURVETO then i_hv (S (length args)) false args
  else if o =? RCURVELINE then i_rcurveline args
  else if o =? RLINECURVE then i_rlinecurve args
  else Err KeyError.

(* ---------- the generaliser ---------- *)
Definition cmd := (op * list Z)%type.

Fixpoint everyN2 (o : op) (args : list Z) : Res (list cmd) :=
  match args with
  | [] => Ok []
  | a :: b :: r => let* t := everyN2 o r in Ok ((o, [a; b]) :: t)
  | _ => Err ValueError
  end.
Fixpoint everyN6 (o : op) (args : list Z) : Res (list cmd) :=
  match args with
  | [] => Ok []
  | a :: b :: c :: d :: e :: f :: r => let* t := everyN6 o r in Ok ((o, [a; b; c; d; e; f]) :: t)
  | _ => Err ValueError
  end.
Fixpoint g_alt (horizontal : bool) (args : list Z) : list cmd :=
  match args with
  | [] => []
  | a :: r => (RLINETO, if horizontal then [a; 0] else [0; a]) :: g_alt (negb horizontal) r
  end.
Fixpoint g_hh4 (args : list Z) : Res (list cmd) :=
  match args with
  | [] => Ok []
  | a0 :: a1 :: a2 :: a3 :: r => let* t := g_hh4 r in Ok ((RRCURVETO, [a0; 0; a1; a2; a3; 0]) :: t)
  | _ => Err ValueError
  end.
Fixpoint g_vv4 (args : list Z) : Res (list cmd) :=
  match args with
  | [] => Ok []
  | a0 :: a1 :: a2 :: a3 :: r => let* t := g_vv4 r in Ok ((RRCURVETO, [0; a0; a1; a2; 0; a3]) :: t)
  | _ => Err ValueError
  end.
(* hvcurveto body over groups of four, alternating *)
Fixpoint g_hv4 (horizontal : bool) (args : list Z) : Res (list cmd) :=
  match args with
  | [] => Ok []
  | a0 :: a1 :: a2 :: a3 :: r =>
    let* t := g_hv4 (negb horizontal) r in
    Ok ((RRCURVETO, if horizontal then [a0; 0; a1; a2; 0; a3] else [0; a0; a1; a2; a3; 0]) :: t)
  | _ => Err ValueError
  end.
Definition lenZ (l : list Z) : Z := Z.of_nat (length l).

Definition g_hvvh (first_horizontal : bool) (args : list Z) : Res (list cmd) :=
  let l := lenZ args in
  let m := l mod 8 in
  if (l <? 4) || negb ((m =? 0) || (m =? 1) || (m =? 4) || (m =? 5)) then Err ValueError
  else if l mod 2 =? 1 then
    let lastStraight := m =? 5 in
    let body := firstn (length args - 5) args in
    let last5 := skipn (length args - 5) args in
    let* t := g_hv4 first_horizontal body in
    match last5 with
    | [b0; b1; b2; b3; b4] =>
      (* for hvcurveto: lastStraight -> horizontal start; for vhcurveto the roles swap *)
      let horiz := if first_horizontal then lastStraight else negb lastStraight in
      Ok (t ++ [(RRCURVETO, if horiz then [b0; 0; b1; b2; b4; b3] else [0; b0; b1; b2; b3; b4])])
    | _ => Err ValueError
    end
  else g_hv4 first_horizontal args.

Definition generalize (o : op) (args : list Z) : Res (list cmd) :=
  if o =? RMOVETO then match args with [a; b] => Ok [(RMOVETO, [a; b])] | _ => Err ValueError end
  else if o =? HMOVETO then match args with [a] => Ok [(RMOVETO, [a; 0])] | _ => Err ValueError end
  else if o =? VMOVETO then match args with [a] => Ok [(RMOVETO, [0; a])] | _ => Err ValueError end
  else if o =? RLINETO then match args with [] => Err ValueError | _ => everyN2 RLINETO args end
  else if o =? HLINETO then match args with [] => Err ValueError | _ => Ok (g_alt true args) end
  else if o =? VLINETO then match args with [] => Err ValueError | _ => Ok (g_alt false args) end
  else if o =? RRCURVETO then match args with [] => Err ValueError | _ => everyN6 RRCURVETO args end
  else if o =? HHCURVETO then
    let l := lenZ args in
    if (l <? 4) || (1 <? l mod 4) then Err ValueError
    else if l mod 2 =? 1 then
      match args with
      | a0 :: a1 :: a2 :: a3 :: a4 :: r => let* t := g_hh4 r in Ok ((RRCURVETO, [a1; a0; a2; a3; a4; 0]) :: t)
      | _ => Err ValueError
      end
    else g_hh4 args
  else if o =? VVCURVETO then
    let l := lenZ args in
    if (l <? 4) || (1 <? l mod 4) then Err ValueError
    else if l mod 2 =? 1 then
      match args with
      | a0 :: a1 :: a2 :: a3 :: a4 :: r => let* t := g_vv4 r in Ok ((RRCURVETO, [a0; a1; a2; a3; 0; a4]) :: t)
      | _ => Err ValueError
      end
    else g_vv4 args
  else if o =? HVCURVETO then g_hvvh true args
  else if o =? VHCURVETO then g_hvvh false args
  else if o =? RCURVELINE then
    let l := lenZ args in
    if (l <? 8) || negb (l mod 6 =? 2) then Err ValueError
    else
      let body := firstn (length args - 2) args in
      let* t := everyN6 RRCURVETO body in Ok (t ++ [(RLINETO, skipn (length args - 2) args)])
  else if o =? RLINECURVE then
    let l := lenZ args in
    if (l <? 8) || negb (l mod 2 =? 0) then Err ValueError
    else
      let body := firstn (length args - 6) args in
      let* t := everyN2 RLINETO body in Ok (t ++ [(RRCURVETO, skipn (length args - 6) args)])
  else Err KeyError.

(* drawing a command list: every command interpreted in turn *)
Fixpoint interp_all (cs : list cmd) : Res (list rseg) :=
  match cs with
  | [] => Ok []
  | (o, args) :: r => let* a := interp o args in let* b := interp_all r in Ok (a ++ b)
  end.
