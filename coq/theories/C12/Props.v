(* C12/Props.v — property theorems only *)
From Coq Require Import ZArith List Bool.
From FV Require Import Base.Ser Base.Res C12.Model C12.Proofs C12.ModelSpec.
From FV Require C12.ProofsSpec C12.ProofsArity.
From FV Require C12.ModelProg C12.ProofsProg.
Import ListNotations.
Open Scope Z_scope.

(* generalising ANY of the thirteen Type 2 path operators (rmoveto hmoveto vmoveto rlineto hlineto vlineto rrcurveto hhcurveto
   vvcurveto hvcurveto vhcurveto rcurveline rlinecurve) -- for every argument count the generaliser accepts -- yields commands that
   the interpreter draws identically *)
Theorem generalize_preserves_all : forall o args cs,
  generalize o args = Ok cs -> interp_all cs = interp o args.
Proof. exact Proofs.generalize_preserves_all. Qed.
Print Assumptions generalize_preserves_all.

(* the nine non-alternating operators (kept as a separate statement: it was the first one proved) *)
Theorem generalize_preserves : forall o args cs,
  proved_op o = true -> generalize o args = Ok cs -> interp_all cs = interp o args.
Proof. exact Proofs.generalize_preserves. Qed.
Print Assumptions generalize_preserves.

(* the specialiser (specializeCommands, phases 1-6, any maxstack) with preserveTopology: what the interpreter draws from the
   specialised commands is, segment for segment, the input with successive rmoveto's combined (p1) *)
Theorem specialize_keeps_topology : forall ms segs,
  interp_all (specialize true ms segs) = Ok (p1 segs).
Proof. exact ProofsSpec.specialize_keeps_topology. Qed.
Print Assumptions specialize_keeps_topology.

(* without preserveTopology: the specialised commands are always well-formed for the interpreter, and what they draw differs
   from the input only by the documented merges (fill_eq: zero-length lines deleted, flat curves demoted to lines, adjacent
   horizontal / vertical lines added up, successive moves combined) *)
Theorem specialize_keeps_fill : forall ms segs,
  exists out, interp_all (specialize false ms segs) = Ok out /\ fill_eq out segs.
Proof. exact ProofsSpec.specialize_keeps_fill. Qed.
Print Assumptions specialize_keeps_fill.

(* in both modes the pen ends where it ended before (so whatever follows is drawn in the same place) *)
Theorem specialize_same_endpoint : forall pt ms segs,
  exists out, interp_all (specialize pt ms segs) = Ok out /\ total_delta out = total_delta segs.
Proof. exact ProofsSpec.specialize_same_endpoint. Qed.
Print Assumptions specialize_same_endpoint.

(* specializeCommands with generalizeFirst=True (the default, and what specializeProgram does) on ANY list of the thirteen path
   operators in any accepted argument-count form: whenever it succeeds, the emitted commands draw what the input draws --
   segment for segment (moves combined) with preserveTopology, modulo the documented merges without *)
Theorem specialize_commands_keep_topology : forall ms cs outc,
  specialize_commands true ms cs = Ok outc ->
  exists D, interp_all cs = Ok D /\ interp_all outc = Ok (p1 D).
Proof. exact ProofsSpec.specialize_commands_keep_topology. Qed.
Print Assumptions specialize_commands_keep_topology.

Theorem specialize_commands_keep_fill : forall ms cs outc,
  specialize_commands false ms cs = Ok outc ->
  exists D out, interp_all cs = Ok D /\ interp_all outc = Ok out /\ fill_eq out D.
Proof. exact ProofsSpec.specialize_commands_keep_fill. Qed.
Print Assumptions specialize_commands_keep_fill.

(* "emitted programs respect the operator arities of their format": every command the specialiser emits, in either mode and for
   every maxstack, carries an argument count its Type 2 operator accepts (arity_legal, which a finite check in ProofsArity.v
   compares with what the generaliser accepts for 0..40 arguments of every operator) *)
Theorem specialize_arities : forall pt ms segs,
  Forall (fun c : cmd => arity_legal (fst c) (length (snd c)) = true) (specialize pt ms segs).
Proof. exact ProofsArity.specialize_arities. Qed.
Print Assumptions specialize_arities.

(* splitting a program into commands (width argument, mask bytes, stray arguments) and joining the commands again is the identity
   on every program programToCommands accepts (ModelProg.v; blend operators aside) *)
Theorem program_commands_roundtrip : forall prog cs,
  ModelProg.programToCommands prog = Ok cs -> ModelProg.commandsToProgram cs = prog.
Proof. exact ProofsProg.program_commands_roundtrip. Qed.
Print Assumptions program_commands_roundtrip.
