(* C12/Props.v — property theorems only *)
From Coq Require Import ZArith List Bool.
From FV Require Import Base.Ser Base.Res C12.Model C12.Proofs.
Import ListNotations.
Open Scope Z_scope.

(* generalising ANY of the thirteen Type 2 path operators (rmoveto hmoveto vmoveto rlineto hlineto vlineto rrcurveto hhcurveto
   vvcurveto hvcurveto vhcurveto rcurveline rlinecurve) -- for every argument count the generaliser accepts -- yields commands that
   the interpreter draws identically *)
Theorem generalize_preserves_all : forall o args cs,
  generalize o args = Ok cs -> interp_all cs = interp o args.
Proof. exact Proofs.generalize_preserves_all. Qed.
Print Assumptions generalize_preserves_all.

(* the nine non-alternating operators (kept as a separate statement: it was the first one proved) *)
Theorem generalize_preserves : forall o args cs,
  proved_op o = true -> generalize o args = Ok cs -> interp_all cs = interp o args.
Proof. exact Proofs.generalize_preserves. Qed.
Print Assumptions generalize_preserves.
