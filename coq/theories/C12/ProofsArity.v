(* C12/ProofsArity.v — the commands the specialiser emits have argument counts their operators accept *)
From Coq Require Import ZArith List Bool Lia Arith.
From FV Require Import Base.Ser Base.Res C12.Model C12.ModelSpec C12.Proofs C12.ProofsSpec.
Import ListNotations.
Open Scope Z_scope.

(* ---------- operator arities of the emitted commands *)
Definition wfl (c : scmd) : Prop :=
  match c with
  | (SMove Cr, a) => length a = 2%nat
  | (SMove _, a) => length a = 1%nat
  | (SLine Cr, a) => exists n, length a = (2 * n + 2)%nat
  | (SLine _, a) => (1 <= length a)%nat
  | (SCurve Cr Cr, a) => exists n, length a = (6 * n + 6)%nat
  | (SCurve Cr _, a) | (SCurve _ Cr, a) => exists n, length a = (4 * n + 5)%nat
  | (SCurve _ _, a) => exists n, length a = (4 * n + 4)%nat
  | (SLineCurve, a) => exists n, length a = (2 * n + 8)%nat
  | (SCurveLine, a) => exists n, length a = (6 * n + 8)%nat
  end.

Lemma enc_len k x y l : enc k x y l -> length l = match k with Cr => 2%nat | _ => 1%nat end.
Proof. destruct k; cbn; intros H; [subst|destruct H as [-> _]..]; reflexivity. Qed.
Lemma single_wfl c s : single c s -> wfl c.
Proof.
  destruct c as [[k|k|k1 k2| |] l], s as [x y|x y|x0 y0 b c x1 y1]; cbn [single]; try contradiction.
  - intros E. apply enc_len in E. destruct k; cbn [wfl]; exact E.
  - intros E. apply enc_len in E. destruct k; cbn [wfl]; rewrite E; try lia. exists 0%nat. reflexivity.
  - intros [l0 [l1 [E0 [E1 ->]]]]. apply enc_len in E0, E1.
    destruct k1, k2; cbn [wfl]; exists 0%nat; rewrite !app_length, E0, E1; reflexivity.
Qed.
Lemma single_len_curve k1 k2 l s : single (SCurve k1 k2, l) s ->
  length l = ((match k1 with Cr => 2 | _ => 1 end) + 2 + (match k2 with Cr => 2 | _ => 1 end))%nat.
Proof.
  destruct s as [| |x0 y0 b c x1 y1]; try contradiction. intros [l0 [l1 [E0 [E1 ->]]]].
  apply enc_len in E0, E1. rewrite !app_length, E0, E1. cbn [length]. lia.
Qed.

Lemma merge_wfl o1 a1 o2 a2 s S o :
  single (o1, a1) s -> Acc (o2, a2) S -> wfl (o2, a2) -> decide o1 o2 (length a2) = DMerge o -> wfl (o, a1 ++ a2).
Proof.
  intros Hs Ha Hw Hd. pose proof (merge_ok _ _ _ _ _ _ _ Hs Ha Hd) as [_ [Hwc _]].
  pose proof (single_wfl _ _ Hs) as Hw1.
  destruct o1 as [k1|k1|c0 c1| |].
  - destruct k1; cbn in Hd; discriminate.
  - destruct k1; destruct o2 as [k2|k2|e0 e1| |]; try destruct k2; try destruct e0; try destruct e1; cbn [decide] in Hd; try discriminate;
      cbn [wfl] in Hw, Hw1.
    + inversion Hd; subst o. destruct Hw as [n Hn], Hw1 as [m Hm]. cbn [wfl]. exists (n + m + 1)%nat. rewrite app_length. lia.
    + destruct Hw1 as [m Hm]. destruct (Nat.eqb (length a2) 6) eqn:E6.
      * inversion Hd; subst o. apply Nat.eqb_eq in E6. cbn [wfl]. exists m. rewrite app_length. lia.
      * destruct (Nat.eqb (length a2) 2) eqn:E2; [|discriminate]. apply Nat.eqb_eq in E2. destruct Hw as [n Hn]. lia.
    + inversion Hd; subst o. destruct Hw as [n Hn], Hw1 as [m Hm]. cbn [wfl]. exists (n + m + 1)%nat. rewrite app_length. lia.
    + inversion Hd; subst o. cbn [wfl]. rewrite app_length. lia.
    + inversion Hd; subst o. cbn [wfl]. rewrite app_length. lia.
  - pose proof (single_len_curve _ _ _ _ Hs) as L1.
    destruct o2 as [k2|k2|e0 e1| |].
    + destruct c0, c1; cbn in Hd; discriminate.
    + destruct c0, c1, k2; cbn [decide] in Hd; try discriminate.
      destruct (Nat.eqb (length a2) 2) eqn:E2; [|discriminate]. apply Nat.eqb_eq in E2. inversion Hd; subst o.
      cbn [wfl]. exists 0%nat. rewrite app_length. lia.
    + (* curve + curve: the class of the new name comes with its count from merge_ok; here only that it is not empty *)
      rewrite decide_cc in Hd.
      assert (Hall : (c0 = Cr /\ c1 = Cr /\ e0 = Cr /\ e1 = Cr /\ o = SCurve Cr Cr) \/ decide_curves c0 c1 e0 e1 = DMerge o).
      { destruct c0, c1, e0, e1; auto. inversion Hd. auto 10. }
      clear Hd. destruct Hall as [[-> [-> [-> [-> ->]]]]|Hd].
      * cbn [wfl] in *. destruct Hw as [n Hn]. exists (n + 1)%nat. rewrite app_length. lia.
      * assert (L4 : (4 <= length (a1 ++ a2))%nat) by (rewrite app_length; destruct c0, c1; lia).
        destruct (decide_curves_inv _ _ _ _ _ Hd) as [N1 [N2 [d [M [[-> [N3 [d' [M2 ->]]]]|[[N0 [-> [a [M2 ->]]]]|[N0 [N3 [a [M2 ->]]]]]]]]]].
        -- destruct (merge_cat_facts _ _ _ M) as [_ [_ [_ F1]]]. destruct (merge_cat_facts _ _ _ M2) as [_ [_ [_ F2]]].
           assert (Nd' : d' <> Cr) by auto. rewrite wfc_rn in Hwc by exact Nd'. destruct d'; try congruence; exact Hwc.
        -- destruct (merge_cat_facts _ _ _ M) as [_ [_ [_ F1]]]. destruct (merge_cat_facts _ _ _ M2) as [_ [_ [_ F2]]].
           assert (Na : a <> Cr) by (apply F2; [assumption|apply negate_nr; auto]).
           rewrite wfc_nr in Hwc by exact Na. destruct a; try congruence; exact Hwc.
        -- destruct (merge_cat_facts _ _ _ M) as [_ [_ [_ F1]]]. destruct (merge_cat_facts _ _ _ M2) as [_ [_ [_ F2]]].
           assert (Na : a <> Cr) by auto. assert (Nd : d <> Cr) by auto.
           rewrite wfc_nn in Hwc by assumption. destruct Hwc as [n Hn].
           assert (exists m, length (a1 ++ a2) = (4 * m + 4)%nat) as Hm by (exists (n - 1)%nat; lia).
           destruct a, d; try congruence; exact Hm.
    + destruct c0, c1; cbn in Hd; discriminate.
    + destruct c0, c1; cbn [decide] in Hd; try discriminate. inversion Hd; subst o.
      cbn [wfl] in *. destruct Hw as [n Hn]. exists (n + 1)%nat. rewrite app_length. lia.
  - destruct s; contradiction.
  - destruct s; contradiction.
Qed.

Lemma p5go_wfl ms : forall rv ss cur S su out,
  Forall2 single rv ss -> Acc cur S -> wfl cur -> Forall wfl out -> Forall wfl (p5go ms rv cur su out).
Proof.
  induction rv as [|p rest IH]; intros ss cur S su out HF Ha Hc Ho.
  - cbn [p5go]. constructor; assumption.
  - inversion HF as [|p' s rest' ss' Hp Hrest]; subst. destruct p as [o1 a1], cur as [o2 a2]. cbn [p5go].
    assert (Hkeep : forall su', Forall wfl (p5go ms rest (o1, a1) su' ((o2, a2) :: out))).
    { intros su'. apply (IH ss' (o1, a1) [s]); [assumption|apply single_acc, Hp|eapply single_wfl, Hp|constructor; assumption]. }
    destruct (decide o1 o2 (length a2)) as [o| |] eqn:Hd; [|apply Hkeep|apply Hkeep].
    destruct (Z.max (lenZ a1) (lenZ a1 + su) <? ms); [|apply Hkeep].
    apply (IH ss' (o, a1 ++ a2) (s :: S)); [assumption| | |assumption].
    + eapply merge_ok; eassumption.
    + eapply merge_wfl; eassumption.
Qed.
Lemma p5_wfl ms cs ss : Forall2 single cs ss -> Forall wfl (p5 ms cs).
Proof.
  intros HF. unfold p5. pose proof (Forall2_rev _ _ _ HF) as HR.
  destruct (rev cs) as [|c rest] eqn:E; [constructor|].
  destruct (rev ss) as [|s ssr] eqn:E2; [inversion HR|].
  inversion HR as [|c' s' rest' ssr' Hc Hrest]; subst.
  apply (p5go_wfl ms rest ssr c [s]); [assumption|apply single_acc, Hc|eapply single_wfl, Hc|constructor].
Qed.

Lemma swap_first2_length l : length (swap_first2 l) = length l.
Proof. destruct l as [|x [|y r]]; reflexivity. Qed.
Lemma p6_len c : length (snd (p6_one c)) = length (snd c).
Proof.
  destruct c as [[k|k|c1 c2| |] a]; try reflexivity. cbn [p6_one snd].
  destruct (named_directly c1 c2); [reflexivity|]. cbn [snd].
  repeat match goal with |- context [if ?b then _ else _] => destruct b end;
    rewrite ?swap_last2_length, ?swap_first2_length; reflexivity.
Qed.
Lemma mod4_0 n : ((4 * n + 4) mod 4 = 0)%nat.
Proof. replace (4 * n + 4)%nat with ((n + 1) * 4)%nat by lia. apply Nat.mod_mul. lia. Qed.
Lemma mod4_1 n : ((4 * n + 5) mod 4 = 1)%nat.
Proof. replace (4 * n + 5)%nat with (1 + (n + 1) * 4)%nat by lia. rewrite Nat.mod_add by lia. reflexivity. Qed.
Lemma mod6_0 n : ((6 * n + 6) mod 6 = 0)%nat.
Proof. replace (6 * n + 6)%nat with ((n + 1) * 6)%nat by lia. apply Nat.mod_mul. lia. Qed.
Lemma mod6_2 n : ((6 * n + 8) mod 6 = 2)%nat.
Proof. replace (6 * n + 8)%nat with (2 + (n + 1) * 6)%nat by lia. rewrite Nat.mod_add by lia. reflexivity. Qed.
Lemma even_2n2 n : Nat.even (2 * n + 2) = true.
Proof. replace (2 * n + 2)%nat with (2 * (n + 1))%nat by lia. rewrite Nat.even_mul. reflexivity. Qed.
Lemma even_2n8 n : Nat.even (2 * n + 8) = true.
Proof. replace (2 * n + 8)%nat with (2 * (n + 4))%nat by lia. rewrite Nat.even_mul. reflexivity. Qed.

Lemma curve_op_class a b : a <> Cr \/ b <> Cr -> (a = Ch \/ a = Cv) -> (b = Ch \/ b = Cv) ->
  curve_op a b = HHCURVETO \/ curve_op a b = VVCURVETO \/ curve_op a b = HVCURVETO \/ curve_op a b = VHCURVETO.
Proof. intros _ [-> | ->] [-> | ->]; cbn; auto. Qed.

Lemma ar_rmoveto l : arity_legal RMOVETO l = Nat.eqb l 2. Proof. reflexivity. Qed.
Lemma ar_hmoveto l : arity_legal HMOVETO l = Nat.eqb l 1. Proof. reflexivity. Qed.
Lemma ar_vmoveto l : arity_legal VMOVETO l = Nat.eqb l 1. Proof. reflexivity. Qed.
Lemma ar_rlineto l : arity_legal RLINETO l = Nat.leb 2 l && Nat.even l. Proof. reflexivity. Qed.
Lemma ar_hlineto l : arity_legal HLINETO l = Nat.leb 1 l. Proof. reflexivity. Qed.
Lemma ar_vlineto l : arity_legal VLINETO l = Nat.leb 1 l. Proof. reflexivity. Qed.
Lemma ar_rrcurveto l : arity_legal RRCURVETO l = Nat.leb 6 l && Nat.eqb (l mod 6) 0. Proof. reflexivity. Qed.
Lemma ar_rcurveline l : arity_legal RCURVELINE l = Nat.leb 8 l && Nat.eqb (l mod 6) 2. Proof. reflexivity. Qed.
Lemma ar_rlinecurve l : arity_legal RLINECURVE l = Nat.leb 8 l && Nat.even l. Proof. reflexivity. Qed.
Lemma ar_hv o l : o = HHCURVETO \/ o = VVCURVETO \/ o = HVCURVETO \/ o = VHCURVETO ->
  arity_legal o l = Nat.leb 4 l && Nat.leb (l mod 4) 1.
Proof. intros [-> | [-> | [-> | ->]]]; reflexivity. Qed.

Lemma wfl_arity c : wfl c -> arity_legal (fst (p6_one c)) (length (snd (p6_one c))) = true.
Proof.
  intros H. rewrite p6_len. destruct c as [[k|k|c1 c2| |] a]; cbn [snd].
  - destruct k; cbn [wfl] in H; cbn [p6_one fst]; rewrite ?ar_rmoveto, ?ar_hmoveto, ?ar_vmoveto, H; reflexivity.
  - destruct k; cbn [wfl] in H; cbn [p6_one fst].
    + destruct H as [n ->]. rewrite ar_rlineto, even_2n2, andb_true_r. apply Nat.leb_le. lia.
    + rewrite ar_hlineto. apply Nat.leb_le. exact H.
    + rewrite ar_vlineto. apply Nat.leb_le. exact H.
    + rewrite ar_hlineto. apply Nat.leb_le. exact H.
  - assert (Hop : (c1 = Cr /\ c2 = Cr /\ fst (p6_one (SCurve c1 c2, a)) = RRCURVETO) \/
                  ((c1 <> Cr \/ c2 <> Cr) /\
                   (fst (p6_one (SCurve c1 c2, a)) = HHCURVETO \/ fst (p6_one (SCurve c1 c2, a)) = VVCURVETO \/
                    fst (p6_one (SCurve c1 c2, a)) = HVCURVETO \/ fst (p6_one (SCurve c1 c2, a)) = VHCURVETO))).
    { destruct c1, c2; cbn [p6_one named_directly fst curve_op res0 negate_cat]; auto;
        right; (split; [first [left; discriminate|right; discriminate]|]);
        repeat match goal with |- context [if ?b then _ else _] => destruct b end; cbn [fst curve_op]; auto. }
    destruct Hop as [[-> [-> Ho]]|[Hne Ho]].
    + rewrite Ho. cbn [wfl] in H. destruct H as [n ->]. rewrite ar_rrcurveto, mod6_0. cbn [Nat.eqb]. rewrite andb_true_r.
      apply Nat.leb_le. lia.
    + assert (Hl : exists n, length a = (4 * n + 4)%nat \/ length a = (4 * n + 5)%nat).
      { destruct c1, c2; cbn [wfl] in H; destruct H as [n Hn]; exists n; auto. destruct Hne; congruence. }
      destruct Hl as [n Hl]. rewrite (ar_hv _ _ Ho).
      destruct Hl as [-> | ->]; [rewrite mod4_0|rewrite mod4_1]; apply andb_true_iff; split; apply Nat.leb_le; lia.
  - cbn [wfl] in H. destruct H as [n ->]. cbn [p6_one fst]. rewrite ar_rlinecurve, even_2n8, andb_true_r. apply Nat.leb_le. lia.
  - cbn [wfl] in H. destruct H as [n ->]. cbn [p6_one fst]. rewrite ar_rcurveline, mod6_2. cbn [Nat.eqb]. rewrite andb_true_r.
    apply Nat.leb_le. lia.
Qed.

Theorem specialize_arities pt ms segs :
  Forall (fun c : cmd => arity_legal (fst c) (length (snd c)) = true) (specialize pt ms segs).
Proof.
  unfold specialize.
  assert (Hs : exists ss, Forall2 single (if pt then map p2_one (p1 segs) else p3 (map p2_one (p1 segs))) ss).
  { destruct pt; [exists (p1 segs); apply p2_all|].
    destruct (p3_ok _ _ (p2_all (p1 segs))) as [ss' [H _]]. exists ss'. exact H. }
  destruct Hs as [ss Hs]. apply p4_ok in Hs. apply (p5_wfl ms) in Hs.
  apply Forall_map. eapply Forall_impl; [|exact Hs]. intros c Hc. apply wfl_arity, Hc.
Qed.

(* the arity table agrees with what the generaliser accepts (a finite check, all operators x 0..40 arguments) *)
Example arity_table_matches_generaliser :
  forallb (fun o => forallb (fun l => Bool.eqb (arity_legal o l) (is_ok (generalize o (repeat 0 l)))) (seq 0 41))
          [RMOVETO; HMOVETO; VMOVETO; RLINETO; HLINETO; VLINETO; RRCURVETO; HHCURVETO; VVCURVETO; HVCURVETO; VHCURVETO; RCURVELINE; RLINECURVE] = true.
Proof. vm_compute. reflexivity. Qed.
