(* C12/ModelSpec.v — the charstring specialiser, cffLib/specializer.py specializeCommands 534-833, phases 1-6, over
   integer arguments (phase 7 only concerns blend lists) and over the three generalised path commands
   (rmoveto / rlineto / rrcurveto with 2 / 2 / 6 arguments: the form phase 0 or the caller guarantees).
   The input is therefore a list of [rseg]: each element IS one generalised command and at the same time the
   segment it draws.  The made-up intermediate operators of the Python code ("0lineto", "hrcurveto", ...) are
   the constructors of [sop]; the in-place, index-driven loops are transcribed as recursions over the reversed
   list (backward loops) or with the already rewritten left neighbour passed along (forward loop). *)
From Coq Require Import ZArith List Bool.
From FV Require Import Base.Ser Base.Res C12.Model.
Import ListNotations.
Open Scope Z_scope.

Inductive cat := Cr | Ch | Cv | C0.
Definition cat_eqb (a b : cat) : bool :=
  match a, b with Cr, Cr | Ch, Ch | Cv, Cv | C0, C0 => true | _, _ => false end.

Inductive sop :=
| SMove (c : cat)              (* rmoveto hmoveto vmoveto 0moveto *)
| SLine (c : cat)              (* rlineto hlineto vlineto 0lineto *)
| SCurve (c1 c2 : cat)         (* the sixteen XYcurveto names *)
| SLineCurve                   (* rlinecurve *)
| SCurveLine.                  (* rcurveline *)
Definition sop_eqb (a b : sop) : bool :=
  match a, b with
  | SMove x, SMove y | SLine x, SLine y => cat_eqb x y
  | SCurve x1 x2, SCurve y1 y2 => cat_eqb x1 y1 && cat_eqb x2 y2
  | SLineCurve, SLineCurve | SCurveLine, SCurveLine => true
  | _, _ => false
  end.
Definition scmd := (sop * list Z)%type.

(* ---------- 1. combine successive rmoveto (backward loop, the right neighbour already combined) *)
Definition p1_step (s : rseg) (acc : list rseg) : list rseg :=
  match s, acc with
  | RM a b, RM c d :: r => RM (a + c) (b + d) :: r
  | _, _ => s :: acc
  end.
Definition p1 (l : list rseg) : list rseg := fold_right p1_step [] l.

(* ---------- 2. _categorizeVector and the h/v/0 variants *)
Definition categorize (x y : Z) : cat * list Z :=
  if x =? 0 then (if y =? 0 then (C0, [x]) else (Cv, [y]))
  else (if y =? 0 then (Ch, [x]) else (Cr, [x; y])).
Definition p2_one (s : rseg) : scmd :=
  match s with
  | RM a b => let '(c, l) := categorize a b in (SMove c, l)
  | RL a b => let '(c, l) := categorize a b in (SLine c, l)
  | RC a b c d e f =>
    let '(c1, l1) := categorize a b in
    let '(c2, l2) := categorize e f in (SCurve c1 c2, l1 ++ [c; d] ++ l2)
  end.

(* ---------- 3. merge or delete redundant operations (only when topology need not be preserved) *)
Definition demote (c : scmd) : scmd :=
  match c with
  | (SCurve C0 C0, [_; b; c'; _]) => let '(k, l) := categorize b c' in (SLine k, l)
  | _ => c
  end.
Definition is0line (c : scmd) : bool := match c with (SLine C0, _) => true | _ => false end.
(* Some merged command when the (demoted) command at i and the raw command at i-1 are both hlineto or both vlineto *)
Definition merge_hv (c p : scmd) : option scmd :=
  match c, p with
  | (SLine Ch, [a]), (SLine Ch, [b]) => Some (SLine Ch, [a + b])
  | (SLine Cv, [a]), (SLine Cv, [b]) => Some (SLine Cv, [a + b])
  | _, _ => None
  end.
(* cur: the command at index i (as left by the iterations at larger indices); rest: the commands at i-1, i-2, ...;
   out: the final commands at the indices above i *)
Fixpoint p3go (cur : scmd) (rest : list scmd) (out : list scmd) {struct rest} : list scmd :=
  let c := demote cur in
  match rest with
  | [] => if is0line c then out else c :: out
  | p :: rest' =>
    if is0line c then p3go p rest' out
    else match merge_hv c p with
         | Some m => p3go m rest' out
         | None => p3go p rest' (c :: out)
         end
  end.
Definition p3 (cs : list scmd) : list scmd :=
  match rev cs with [] => [] | c :: rest => p3go c rest [] end.

(* ---------- 4. peephole: an h/v variant between two r operators goes back to the r operator *)
Definition insert_at (n : nat) (x : Z) (l : list Z) : list Z := firstn n l ++ x :: skipn n l.
Definition peep (prv : sop) (c : scmd) (nxt : sop) : scmd :=
  match c with
  | (SLine k, [a]) =>
    if negb (cat_eqb k Cr) && sop_eqb prv (SLine Cr) && sop_eqb nxt (SLine Cr)
    then (SLine Cr, match k with Cv => [0; a] | _ => [a; 0] end) else c
  | (SCurve c1 c2, args) =>
    if (Nat.eqb (length args) 5) && sop_eqb prv (SCurve Cr Cr) && sop_eqb nxt (SCurve Cr Cr)
    then let pos := match c1 with Cv => 0 | Cr => (match c2 with Cv => 4 | _ => 5 end) | _ => 1 end%nat in
         (SCurve Cr Cr, insert_at pos 0 args)
    else c
  | _ => c
  end.
Fixpoint p4go (prv : sop) (cs : list scmd) : list scmd :=
  match cs with
  | c :: rest =>
    match rest with
    | n :: _ => let c' := peep prv c (fst n) in c' :: p4go (fst c') rest
    | [] => cs
    end
  | [] => []
  end.
Definition p4 (cs : list scmd) : list scmd :=
  match cs with c0 :: rest => c0 :: p4go (fst c0) rest | [] => [] end.

(* ---------- 5. combine adjacent operators, minding the stack *)
Definition merge_cat (a b : cat) : option cat :=
  match a, b with
  | C0, _ => Some b
  | _, C0 => Some a
  | _, _ => if cat_eqb a b then Some a else None
  end.
Definition negate_cat (a : cat) : cat := match a with Ch => Cv | Cv => Ch | _ => a end.

Inductive decision := DMerge (o : sop) | DNone | DSkip.   (* DSkip: Python's `continue`, which also skips the stack bookkeeping *)
Definition decide_curves (d0 d1 d2 d3 : cat) : decision :=
  if cat_eqb d1 Cr || cat_eqb d2 Cr || (cat_eqb d0 Cr && cat_eqb d3 Cr) then DSkip
  else match merge_cat d1 d2 with
       | None => DSkip
       | Some d =>
         if cat_eqb d0 Cr then
           match merge_cat d d3 with None => DSkip | Some d' => DMerge (SCurve Cr d') end
         else if cat_eqb d3 Cr then
           match merge_cat d0 (negate_cat d) with None => DSkip | Some d0' => DMerge (SCurve d0' Cr) end
         else
           match merge_cat d0 d3 with None => DSkip | Some d0' => DMerge (SCurve d0' d) end
       end.
Definition decide (o1 o2 : sop) (l2 : nat) : decision :=
  match o1, o2 with
  | SLine Cr, SLine Cr => DMerge (SLine Cr)
  | SCurve Cr Cr, SCurve Cr Cr => DMerge (SCurve Cr Cr)
  | SLine Cr, SCurve Cr Cr => if Nat.eqb l2 6 then DMerge SLineCurve else if Nat.eqb l2 2 then DMerge SCurveLine else DNone
  | SCurve Cr Cr, SLine Cr => if Nat.eqb l2 2 then DMerge SCurveLine else DNone
  | SLine Cr, SLineCurve => DMerge SLineCurve
  | SCurve Cr Cr, SCurveLine => DMerge SCurveLine
  | SLine Ch, SLine Cv => DMerge (SLine Ch)
  | SLine Cv, SLine Ch => DMerge (SLine Cv)
  | SCurve d0 d1, SCurve d2 d3 => decide_curves d0 d1 d2 d3
  | _, _ => DNone
  end.
(* rv: the commands at i-1, i-2, ...; cur: the (combined) command at i; su: stackUse; out: final commands above i *)
Fixpoint p5go (ms : Z) (rv : list scmd) (cur : scmd) (su : Z) (out : list scmd) {struct rv} : list scmd :=
  match rv with
  | [] => cur :: out
  | p :: rest =>
    let '(o1, a1) := p in
    let '(o2, a2) := cur in
    match decide o1 o2 (length a2) with
    | DSkip => p5go ms rest p su (cur :: out)
    | DNone => p5go ms rest p (lenZ a1) (cur :: out)
    | DMerge o =>
      let comb := Z.max (lenZ a1) (lenZ a1 + su) in
      if comb <? ms then p5go ms rest (o, a1 ++ a2) comb out
      else p5go ms rest p (lenZ a1) (cur :: out)
    end
  end.
Definition p5 (ms : Z) (cs : list scmd) : list scmd :=
  match rev cs with [] => [] | c :: rest => p5go ms rest c (lenZ (snd c)) [] end.

(* ---------- 6. resolve the made-up operators *)
Definition res0 (c : cat) : cat := match c with C0 => Ch | _ => c end.
Definition swap_last2 (l : list Z) : list Z :=
  match rev l with y :: x :: r => rev r ++ [y; x] | _ => l end.
Definition swap_first2 (l : list Z) : list Z :=
  match l with x :: y :: r => y :: x :: r | _ => l end.
Definition curve_op (a b : cat) : op :=
  match a, b with
  | Cr, Cr => RRCURVETO | Ch, Ch => HHCURVETO | Cv, Cv => VVCURVETO | Ch, Cv => HVCURVETO | Cv, Ch => VHCURVETO
  | _, _ => RRCURVETO (* not reached: after resolution both are h or v *)
  end.
Definition named_directly (a b : cat) : bool :=
  match a, b with Cr, Cr | Ch, Ch | Cv, Cv | Cv, Ch | Ch, Cv => true | _, _ => false end.
Definition p6_one (c : scmd) : cmd :=
  match c with
  | (SMove k, args) => (match k with Cr => RMOVETO | Cv => VMOVETO | _ => HMOVETO end, args)
  | (SLine k, args) => (match k with Cr => RLINETO | Cv => VLINETO | _ => HLINETO end, args)
  | (SLineCurve, args) => (RLINECURVE, args)
  | (SCurveLine, args) => (RCURVELINE, args)
  | (SCurve c1 c2, args) =>
    if named_directly c1 c2 then (curve_op c1 c2, args)
    else
      let l := lenZ args in
      let a := res0 c1 in let b := res0 c2 in
      let a := match a with Cr => b | _ => a end in
      let b := match b with Cr => negate_cat a | _ => b end in
      let args' :=
        if l mod 2 =? 1 then
          if negb (cat_eqb a b) then
            (if xorb (cat_eqb a Ch) (l mod 8 =? 1) then swap_last2 args else args)
          else (if cat_eqb a Ch then swap_first2 args else args)
        else args in
      (curve_op a b, args')
  end.

Definition specialize (preserveTopology : bool) (maxstack : Z) (segs : list rseg) : list cmd :=
  let c2 := map p2_one (p1 segs) in
  let c3 := if preserveTopology then c2 else p3 c2 in
  map p6_one (p5 maxstack (p4 c3)).

(* the correspondence entry: segments arrive as [tag; args...] rows *)
Definition parse_seg (r : list Z) : Res rseg :=
  match r with
  | [0; a; b] => Ok (RM a b)
  | [1; a; b] => Ok (RL a b)
  | [2; a; b; c; d; e; f] => Ok (RC a b c d e f)
  | _ => Err ValueError
  end.
Fixpoint parse_segs (rs : list (list Z)) : Res (list rseg) :=
  match rs with
  | [] => Ok []
  | r :: t => let* s := parse_seg r in let* ss := parse_segs t in Ok (s :: ss)
  end.
Definition specialize_entry (pt : bool) (ms : Z) (rows : list (list Z)) : Res (list cmd) :=
  let* segs := parse_segs rows in Ok (specialize pt ms segs).

(* ================= specification side ================= *)
(* ---------- what "draws the same" means when topology may change: the least congruence containing the
   rewrites the specialiser documents *)
Inductive fill_eq : list rseg -> list rseg -> Prop :=
| fe_refl l : fill_eq l l
| fe_sym l1 l2 : fill_eq l1 l2 -> fill_eq l2 l1
| fe_trans l1 l2 l3 : fill_eq l1 l2 -> fill_eq l2 l3 -> fill_eq l1 l3
| fe_app l1 l2 m1 m2 : fill_eq l1 l2 -> fill_eq m1 m2 -> fill_eq (l1 ++ m1) (l2 ++ m2)
| fe_zero_line : fill_eq [RL 0 0] []                                   (* a 0lineto can be deleted *)
| fe_flat_curve b c : fill_eq [RC 0 0 b c 0 0] [RL b c]                (* a 00curveto is demoted to a lineto *)
| fe_hh a b : fill_eq [RL a 0; RL b 0] [RL (a + b) 0]                  (* adjacent hlineto's merge *)
| fe_vv a b : fill_eq [RL 0 a; RL 0 b] [RL 0 (a + b)]                  (* adjacent vlineto's merge *)
| fe_mm a b c d : fill_eq [RM a b; RM c d] [RM (a + c) (b + d)].       (* successive rmoveto's combine *)

(* soundness check of the relation: related drawings end at the same point *)
Definition seg_delta (s : rseg) : Z * Z :=
  match s with RM a b | RL a b => (a, b) | RC a b c d e f => (a + c + e, b + d + f) end.
Fixpoint total_delta (l : list rseg) : Z * Z :=
  match l with [] => (0, 0) | s :: r => let '(x, y) := seg_delta s in let '(u, v) := total_delta r in (x + u, y + v) end.

(* ================= specializeCommands with generalizeFirst=True, on lists of arbitrary path commands =================
   generalizeCommands (every command through _GeneralizerDecombinerCommandsMap, a ValueError propagates), then phases 1-6.
   The generalised commands are handed to [specialize] as the segments they draw: for commands in generalised form that is
   the identity (one rmoveto / rlineto / rrcurveto per segment). *)
Fixpoint generalize_all (cs : list cmd) : Res (list cmd) :=
  match cs with
  | [] => Ok []
  | (o, a) :: r => let* x := generalize o a in let* y := generalize_all r in Ok (x ++ y)
  end.
Definition specialize_commands (pt : bool) (ms : Z) (cs : list cmd) : Res (list cmd) :=
  let* g := generalize_all cs in
  let* segs := interp_all g in
  Ok (specialize pt ms segs).

(* operator arities of the Type 2 format (TN#5177): the argument counts each path operator accepts *)
Definition arity_legal (o : op) (l : nat) : bool :=
  if o =? RMOVETO then Nat.eqb l 2
  else if (o =? HMOVETO) || (o =? VMOVETO) then Nat.eqb l 1
  else if o =? RLINETO then Nat.leb 2 l && Nat.even l
  else if (o =? HLINETO) || (o =? VLINETO) then Nat.leb 1 l
  else if o =? RRCURVETO then Nat.leb 6 l && Nat.eqb (l mod 6) 0
  else if (o =? HHCURVETO) || (o =? VVCURVETO) || (o =? HVCURVETO) || (o =? VHCURVETO) then Nat.leb 4 l && Nat.leb (l mod 4) 1
  else if o =? RCURVELINE then Nat.leb 8 l && Nat.eqb (l mod 6) 2
  else if o =? RLINECURVE then Nat.leb 8 l && Nat.even l
  else false.
