(* C12/Proofs.v — the generaliser preserves what the interpreter draws *)
From Coq Require Import ZArith List Bool Lia Arith.
From FV Require Import Base.Ser Base.Res C12.Model.
Import ListNotations.
Open Scope Z_scope.

Lemma interp_rl a b : interp RLINETO [a; b] = Ok [RL a b].
Proof. reflexivity. Qed.
Lemma interp_rc a b c d e f : interp RRCURVETO [a; b; c; d; e; f] = Ok [RC a b c d e f].
Proof. reflexivity. Qed.

Lemma interp_all_app x y : interp_all (x ++ y) =
  match interp_all x with Ok a => match interp_all y with Ok b => Ok (a ++ b) | Err e => Err e end | Err e => Err e end.
Proof.
  induction x as [|[o args] r IH]; cbn [app interp_all].
  - destruct (interp_all y); reflexivity.
  - destruct (interp o args) as [a|e]; cbn [bind]; [|reflexivity].
    rewrite IH. destruct (interp_all r) as [b|e]; cbn [bind]; [|reflexivity].
    destruct (interp_all y) as [c|e]; cbn [bind]; [rewrite app_assoc; reflexivity|reflexivity].
Qed.

(* ---- lines *)
Lemma everyN2_ok : forall n args cs, (length args <= n)%nat -> everyN2 RLINETO args = Ok cs -> interp_all cs = i_rlineto args.
Proof.
  induction n as [|n IH]; intros args cs Hn H.
  - destruct args; [|cbn in Hn; lia]. cbn in H. apply Ok_inj in H. subst. reflexivity.
  - destruct args as [|a [|b r]]; cbn [everyN2] in H; [apply Ok_inj in H; subst; reflexivity|discriminate|].
    destruct (everyN2 RLINETO r) as [t|e] eqn:E; [|discriminate]. cbn [bind] in H. apply Ok_inj in H. subst cs.
    cbn [interp_all i_rlineto]. rewrite interp_rl. cbn [bind]. rewrite (IH r t) by (cbn in Hn; auto; lia).
    destruct (i_rlineto r); reflexivity.
Qed.

Lemma g_alt_ok args : forall h, interp_all (g_alt h args) = Ok (i_alt h args).
Proof.
  induction args as [|a r IH]; intros h; [reflexivity|].
  cbn [g_alt interp_all i_alt]. destruct h; cbn [negb]; rewrite interp_rl, IH; reflexivity.
Qed.

(* ---- curves *)
Lemma everyN6_ok : forall n args cs, (length args <= n)%nat -> everyN6 RRCURVETO args = Ok cs -> interp_all cs = i_rrcurveto args.
Proof.
  induction n as [|n IH]; intros args cs Hn H.
  - destruct args; [|cbn in Hn; lia]. cbn in H. apply Ok_inj in H. subst. reflexivity.
  - destruct args as [|a [|b [|c [|d [|e [|f r]]]]]]; cbn [everyN6] in H; try discriminate; [apply Ok_inj in H; subst; reflexivity|].
    destruct (everyN6 RRCURVETO r) as [t|er] eqn:E; [|discriminate]. cbn [bind] in H. apply Ok_inj in H. subst cs.
    cbn [interp_all i_rrcurveto]. rewrite interp_rc. cbn [bind]. rewrite (IH r t) by (cbn in Hn; auto; lia).
    destruct (i_rrcurveto r); reflexivity.
Qed.

Lemma g_hh4_ok : forall n args cs, (length args <= n)%nat -> g_hh4 args = Ok cs -> interp_all cs = i_hh 0 args.
Proof.
  induction n as [|n IH]; intros args cs Hn H.
  - destruct args; [|cbn in Hn; lia]. cbn in H. apply Ok_inj in H. subst. reflexivity.
  - destruct args as [|a [|b [|c [|d r]]]]; cbn [g_hh4] in H; try discriminate; [apply Ok_inj in H; subst; reflexivity|].
    destruct (g_hh4 r) as [t|er] eqn:E; [|discriminate]. cbn [bind] in H. apply Ok_inj in H. subst cs.
    cbn [interp_all i_hh]. rewrite interp_rc. cbn [bind]. rewrite (IH r t) by (cbn in Hn; auto; lia).
    destruct (i_hh 0 r); reflexivity.
Qed.
Lemma g_vv4_ok : forall n args cs, (length args <= n)%nat -> g_vv4 args = Ok cs -> interp_all cs = i_vv 0 args.
Proof.
  induction n as [|n IH]; intros args cs Hn H.
  - destruct args; [|cbn in Hn; lia]. cbn in H. apply Ok_inj in H. subst. reflexivity.
  - destruct args as [|a [|b [|c [|d r]]]]; cbn [g_vv4] in H; try discriminate; [apply Ok_inj in H; subst; reflexivity|].
    destruct (g_vv4 r) as [t|er] eqn:E; [|discriminate]. cbn [bind] in H. apply Ok_inj in H. subst cs.
    cbn [interp_all i_vv]. rewrite interp_rc. cbn [bind]. rewrite (IH r t) by (cbn in Hn; auto; lia).
    destruct (i_vv 0 r); reflexivity.
Qed.

(* parity of the argument count *)
Lemma odd_len_spec (l : list Z) : odd_len l = (lenZ l mod 2 =? 1).
Proof.
  unfold odd_len, lenZ. rewrite <- Nat.negb_even.
  destruct (Nat.even (length l)) eqn:E.
  - apply Nat.even_spec in E. destruct E as [k E]. rewrite E. rewrite Nat2Z.inj_mul. change (Z.of_nat 2) with 2.
    rewrite Z.mul_comm, Z.mod_mul by lia. reflexivity.
  - assert (O: Nat.odd (length l) = true) by (rewrite <- Nat.negb_even, E; reflexivity).
    apply Nat.odd_spec in O. destruct O as [k O]. rewrite O. rewrite Nat2Z.inj_add, Nat2Z.inj_mul. change (Z.of_nat 2) with 2. change (Z.of_nat 1) with 1.
    rewrite Z.add_comm, Z.mul_comm, Z.mod_add by lia. reflexivity.
Qed.

(* ---- the operators whose generalisation is proved here *)
Definition proved_op (o : op) : bool :=
  (o =? RMOVETO) || (o =? HMOVETO) || (o =? VMOVETO) || (o =? RLINETO) || (o =? HLINETO) || (o =? VLINETO) ||
  (o =? RRCURVETO) || (o =? HHCURVETO) || (o =? VVCURVETO).

Theorem generalize_preserves o args cs :
  proved_op o = true -> generalize o args = Ok cs -> interp_all cs = interp o args.
Proof.
  intros P H. unfold generalize in H. unfold interp.
  destruct (o =? RMOVETO) eqn:E0.
  { destruct args as [|a [|b [|c r]]]; try discriminate. apply Ok_inj in H. subst. reflexivity. }
  destruct (o =? HMOVETO) eqn:E1.
  { destruct args as [|a [|b r]]; try discriminate. apply Ok_inj in H. subst. reflexivity. }
  destruct (o =? VMOVETO) eqn:E2.
  { destruct args as [|a [|b r]]; try discriminate. apply Ok_inj in H. subst. reflexivity. }
  destruct (o =? RLINETO) eqn:E3.
  { destruct args as [|a r]; [discriminate|]. eapply everyN2_ok; [apply le_n|exact H]. }
  destruct (o =? HLINETO) eqn:E4.
  { destruct args as [|a r]; [discriminate|]. apply Ok_inj in H. subst. apply g_alt_ok. }
  destruct (o =? VLINETO) eqn:E5.
  { destruct args as [|a r]; [discriminate|]. apply Ok_inj in H. subst. apply g_alt_ok. }
  destruct (o =? RRCURVETO) eqn:E6.
  { destruct args as [|a r]; [discriminate|]. eapply everyN6_ok; [apply le_n|exact H]. }
  destruct (o =? HHCURVETO) eqn:E7.
  { rewrite odd_len_spec.
    destruct ((lenZ args <? 4) || (1 <? lenZ args mod 4)); [discriminate|].
    destruct (lenZ args mod 2 =? 1).
    - destruct args as [|a0 [|a1 [|a2 [|a3 [|a4 r]]]]]; try discriminate.
      destruct (g_hh4 r) as [t|e] eqn:E; [|discriminate]. cbn [bind] in H. apply Ok_inj in H. subst cs.
      cbn [interp_all i_hh]. rewrite interp_rc. cbn [bind]. rewrite (g_hh4_ok _ r t (le_n _) E).
      destruct (i_hh 0 r); reflexivity.
    - eapply g_hh4_ok; [apply le_n|exact H]. }
  destruct (o =? VVCURVETO) eqn:E8.
  { rewrite odd_len_spec.
    destruct ((lenZ args <? 4) || (1 <? lenZ args mod 4)); [discriminate|].
    destruct (lenZ args mod 2 =? 1).
    - destruct args as [|a0 [|a1 [|a2 [|a3 [|a4 r]]]]]; try discriminate.
      destruct (g_vv4 r) as [t|e] eqn:E; [|discriminate]. cbn [bind] in H. apply Ok_inj in H. subst cs.
      cbn [interp_all i_vv]. rewrite interp_rc. cbn [bind]. rewrite (g_vv4_ok _ r t (le_n _) E).
      destruct (i_vv 0 r); reflexivity.
    - eapply g_vv4_ok; [apply le_n|exact H]. }
  unfold proved_op in P. rewrite E0, E1, E2, E3, E4, E5, E6, E7, E8 in P. discriminate.
Qed.

(* non-vacuity: a well-formed instance of every proved operator *)
Example generalize_examples :
  generalize HLINETO [5; 7; -2] = Ok [(RLINETO, [5; 0]); (RLINETO, [0; 7]); (RLINETO, [-2; 0])] /\
  generalize HHCURVETO [9; 1; 2; 3; 4] = Ok [(RRCURVETO, [1; 9; 2; 3; 4; 0])] /\
  generalize VVCURVETO [1; 2; 3; 4; 5; 6; 7; 8] = Ok [(RRCURVETO, [0; 1; 2; 3; 0; 4]); (RRCURVETO, [0; 5; 6; 7; 0; 8])].
Proof. repeat split; vm_compute; reflexivity. Qed.
