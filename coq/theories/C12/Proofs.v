(* C12/Proofs.v — the generaliser preserves what the interpreter draws *)
From Coq Require Import ZArith List Bool Lia Arith.
From FV Require Import Base.Ser Base.Res C12.Model.
Import ListNotations.
Open Scope Z_scope.

Lemma interp_rl a b : interp RLINETO [a; b] = Ok [RL a b].
Proof. reflexivity. Qed.
Lemma interp_rc a b c d e f : interp RRCURVETO [a; b; c; d; e; f] = Ok [RC a b c d e f].
Proof. reflexivity. Qed.

Lemma interp_all_app x y : interp_all (x ++ y) =
  match interp_all x with Ok a => match interp_all y with Ok b => Ok (a ++ b) | Err e => Err e end | Err e => Err e end.
Proof.
  induction x as [|[o args] r IH]; cbn [app interp_all].
  - destruct (interp_all y); reflexivity.
  - destruct (interp o args) as [a|e]; cbn [bind]; [|reflexivity].
    rewrite IH. destruct (interp_all r) as [b|e]; cbn [bind]; [|reflexivity].
    destruct (interp_all y) as [c|e]; cbn [bind]; [rewrite app_assoc; reflexivity|reflexivity].
Qed.

(* ---- lines *)
Lemma everyN2_ok : forall n args cs, (length args <= n)%nat -> everyN2 RLINETO args = Ok cs -> interp_all cs = i_rlineto args.
Proof.
  induction n as [|n IH]; intros args cs Hn H.
  - destruct args; [|cbn in Hn; lia]. cbn in H. apply Ok_inj in H. subst. reflexivity.
  - destruct args as [|a [|b r]]; cbn [everyN2] in H; [apply Ok_inj in H; subst; reflexivity|discriminate|].
    destruct (everyN2 RLINETO r) as [t|e] eqn:E; [|discriminate]. cbn [bind] in H. apply Ok_inj in H. subst cs.
    cbn [interp_all i_rlineto]. rewrite interp_rl. cbn [bind]. rewrite (IH r t) by (cbn in Hn; auto; lia).
    destruct (i_rlineto r); reflexivity.
Qed.

Lemma g_alt_ok args : forall h, interp_all (g_alt h args) = Ok (i_alt h args).
Proof.
  induction args as [|a r IH]; intros h; [reflexivity|].
  cbn [g_alt interp_all i_alt]. destruct h; cbn [negb]; rewrite interp_rl, IH; reflexivity.
Qed.

(* ---- curves *)
Lemma everyN6_ok : forall n args cs, (length args <= n)%nat -> everyN6 RRCURVETO args = Ok cs -> interp_all cs = i_rrcurveto args.
Proof.
  induction n as [|n IH]; intros args cs Hn H.
  - destruct args; [|cbn in Hn; lia]. cbn in H. apply Ok_inj in H. subst. reflexivity.
  - destruct args as [|a [|b [|c [|d [|e [|f r]]]]]]; cbn [everyN6] in H; try discriminate; [apply Ok_inj in H; subst; reflexivity|].
    destruct (everyN6 RRCURVETO r) as [t|er] eqn:E; [|discriminate]. cbn [bind] in H. apply Ok_inj in H. subst cs.
    cbn [interp_all i_rrcurveto]. rewrite interp_rc. cbn [bind]. rewrite (IH r t) by (cbn in Hn; auto; lia).
    destruct (i_rrcurveto r); reflexivity.
Qed.

Lemma g_hh4_ok : forall n args cs, (length args <= n)%nat -> g_hh4 args = Ok cs -> interp_all cs = i_hh 0 args.
Proof.
  induction n as [|n IH]; intros args cs Hn H.
  - destruct args; [|cbn in Hn; lia]. cbn in H. apply Ok_inj in H. subst. reflexivity.
  - destruct args as [|a [|b [|c [|d r]]]]; cbn [g_hh4] in H; try discriminate; [apply Ok_inj in H; subst; reflexivity|].
    destruct (g_hh4 r) as [t|er] eqn:E; [|discriminate]. cbn [bind] in H. apply Ok_inj in H. subst cs.
    cbn [interp_all i_hh]. rewrite interp_rc. cbn [bind]. rewrite (IH r t) by (cbn in Hn; auto; lia).
    destruct (i_hh 0 r); reflexivity.
Qed.
Lemma g_vv4_ok : forall n args cs, (length args <= n)%nat -> g_vv4 args = Ok cs -> interp_all cs = i_vv 0 args.
Proof.
  induction n as [|n IH]; intros args cs Hn H.
  - destruct args; [|cbn in Hn; lia]. cbn in H. apply Ok_inj in H. subst. reflexivity.
  - destruct args as [|a [|b [|c [|d r]]]]; cbn [g_vv4] in H; try discriminate; [apply Ok_inj in H; subst; reflexivity|].
    destruct (g_vv4 r) as [t|er] eqn:E; [|discriminate]. cbn [bind] in H. apply Ok_inj in H. subst cs.
    cbn [interp_all i_vv]. rewrite interp_rc. cbn [bind]. rewrite (IH r t) by (cbn in Hn; auto; lia).
    destruct (i_vv 0 r); reflexivity.
Qed.

(* parity of the argument count *)
Lemma odd_len_spec (l : list Z) : odd_len l = (lenZ l mod 2 =? 1).
Proof.
  unfold odd_len, lenZ. rewrite <- Nat.negb_even.
  destruct (Nat.even (length l)) eqn:E.
  - apply Nat.even_spec in E. destruct E as [k E]. rewrite E. rewrite Nat2Z.inj_mul. change (Z.of_nat 2) with 2.
    rewrite Z.mul_comm, Z.mod_mul by lia. reflexivity.
  - assert (O: Nat.odd (length l) = true) by (rewrite <- Nat.negb_even, E; reflexivity).
    apply Nat.odd_spec in O. destruct O as [k O]. rewrite O. rewrite Nat2Z.inj_add, Nat2Z.inj_mul. change (Z.of_nat 2) with 2. change (Z.of_nat 1) with 1.
    rewrite Z.add_comm, Z.mul_comm, Z.mod_add by lia. reflexivity.
Qed.

(* ---- the operators whose generalisation is proved here *)
Definition proved_op (o : op) : bool :=
  (o =? RMOVETO) || (o =? HMOVETO) || (o =? VMOVETO) || (o =? RLINETO) || (o =? HLINETO) || (o =? VLINETO) ||
  (o =? RRCURVETO) || (o =? HHCURVETO) || (o =? VVCURVETO).

Theorem generalize_preserves o args cs :
  proved_op o = true -> generalize o args = Ok cs -> interp_all cs = interp o args.
Proof.
  intros P H. unfold generalize in H. unfold interp.
  destruct (o =? RMOVETO) eqn:E0.
  { destruct args as [|a [|b [|c r]]]; try discriminate. apply Ok_inj in H. subst. reflexivity. }
  destruct (o =? HMOVETO) eqn:E1.
  { destruct args as [|a [|b r]]; try discriminate. apply Ok_inj in H. subst. reflexivity. }
  destruct (o =? VMOVETO) eqn:E2.
  { destruct args as [|a [|b r]]; try discriminate. apply Ok_inj in H. subst. reflexivity. }
  destruct (o =? RLINETO) eqn:E3.
  { destruct args as [|a r]; [discriminate|]. eapply everyN2_ok; [apply le_n|exact H]. }
  destruct (o =? HLINETO) eqn:E4.
  { destruct args as [|a r]; [discriminate|]. apply Ok_inj in H. subst. apply g_alt_ok. }
  destruct (o =? VLINETO) eqn:E5.
  { destruct args as [|a r]; [discriminate|]. apply Ok_inj in H. subst. apply g_alt_ok. }
  destruct (o =? RRCURVETO) eqn:E6.
  { destruct args as [|a r]; [discriminate|]. eapply everyN6_ok; [apply le_n|exact H]. }
  destruct (o =? HHCURVETO) eqn:E7.
  { rewrite odd_len_spec.
    destruct ((lenZ args <? 4) || (1 <? lenZ args mod 4)); [discriminate|].
    destruct (lenZ args mod 2 =? 1).
    - destruct args as [|a0 [|a1 [|a2 [|a3 [|a4 r]]]]]; try discriminate.
      destruct (g_hh4 r) as [t|e] eqn:E; [|discriminate]. cbn [bind] in H. apply Ok_inj in H. subst cs.
      cbn [interp_all i_hh]. rewrite interp_rc. cbn [bind]. rewrite (g_hh4_ok _ r t (le_n _) E).
      destruct (i_hh 0 r); reflexivity.
    - eapply g_hh4_ok; [apply le_n|exact H]. }
  destruct (o =? VVCURVETO) eqn:E8.
  { rewrite odd_len_spec.
    destruct ((lenZ args <? 4) || (1 <? lenZ args mod 4)); [discriminate|].
    destruct (lenZ args mod 2 =? 1).
    - destruct args as [|a0 [|a1 [|a2 [|a3 [|a4 r]]]]]; try discriminate.
      destruct (g_vv4 r) as [t|e] eqn:E; [|discriminate]. cbn [bind] in H. apply Ok_inj in H. subst cs.
      cbn [interp_all i_vv]. rewrite interp_rc. cbn [bind]. rewrite (g_vv4_ok _ r t (le_n _) E).
      destruct (i_vv 0 r); reflexivity.
    - eapply g_vv4_ok; [apply le_n|exact H]. }
  unfold proved_op in P. rewrite E0, E1, E2, E3, E4, E5, E6, E7, E8 in P. discriminate.
Qed.

(* non-vacuity: a well-formed instance of every proved operator *)
Example generalize_examples :
  generalize HLINETO [5; 7; -2] = Ok [(RLINETO, [5; 0]); (RLINETO, [0; 7]); (RLINETO, [-2; 0])] /\
  generalize HHCURVETO [9; 1; 2; 3; 4] = Ok [(RRCURVETO, [1; 9; 2; 3; 4; 0])] /\
  generalize VVCURVETO [1; 2; 3; 4; 5; 6; 7; 8] = Ok [(RRCURVETO, [0; 1; 2; 3; 0; 4]); (RRCURVETO, [0; 5; 6; 7; 0; 8])].
Proof. repeat split; vm_compute; reflexivity. Qed.

Ltac Zify.zify_post_hook ::= Z.to_euclidean_division_equations.

(* ---- rcurveline: curves, then one line *)
Lemma rcurveline_body : forall n body t a b, (length body <= n)%nat -> everyN6 RRCURVETO body = Ok t ->
  interp_all (t ++ [(RLINETO, [a; b])]) = i_rcurveline (body ++ [a; b]).
Proof.
  induction n as [|n IH]; intros body t a b Hn H.
  - destruct body; [|cbn in Hn; lia]. cbn in H. apply Ok_inj in H. subst. reflexivity.
  - destruct body as [|a1 [|a2 [|a3 [|a4 [|a5 [|a6 r]]]]]]; cbn [everyN6] in H; try discriminate; [apply Ok_inj in H; subst; reflexivity|].
    destruct (everyN6 RRCURVETO r) as [t'|e] eqn:E; [|discriminate]. cbn [bind] in H. apply Ok_inj in H. subst t.
    cbn [app interp_all]. rewrite interp_rc. cbn [bind].
    rewrite (IH r t' a b) by (cbn in Hn; auto; lia).
    cbn [i_rcurveline]. destruct (i_rcurveline (r ++ [a; b])); reflexivity.
Qed.

(* ---- rlinecurve: lines, then one curve *)
Lemma rlinecurve_step a b r : length r <> 4%nat -> i_rlinecurve (a :: b :: r) = let* t := i_rlinecurve r in Ok (RL a b :: t).
Proof.
  intros H. destruct r as [|c [|d [|e [|f [|g r]]]]]; cbn [i_rlinecurve]; try reflexivity. cbn in H. lia.
Qed.
Lemma rlinecurve_body : forall n body t c1 c2 c3 c4 c5 c6, (length body <= n)%nat -> everyN2 RLINETO body = Ok t ->
  interp_all (t ++ [(RRCURVETO, [c1; c2; c3; c4; c5; c6])]) = i_rlinecurve (body ++ [c1; c2; c3; c4; c5; c6]).
Proof.
  induction n as [|n IH]; intros body t c1 c2 c3 c4 c5 c6 Hn H.
  - destruct body; [|cbn in Hn; lia]. cbn in H. apply Ok_inj in H. subst. reflexivity.
  - destruct body as [|a [|b r]]; cbn [everyN2] in H; try discriminate; [apply Ok_inj in H; subst; reflexivity|].
    destruct (everyN2 RLINETO r) as [t'|e] eqn:E; [|discriminate]. cbn [bind] in H. apply Ok_inj in H. subst t.
    cbn [app interp_all]. rewrite interp_rl. cbn [bind].
    rewrite (IH r t' c1 c2 c3 c4 c5 c6) by (cbn in Hn; auto; lia).
    rewrite rlinecurve_step by (rewrite app_length; cbn; lia).
    destruct (i_rlinecurve (r ++ [c1; c2; c3; c4; c5; c6])); reflexivity.
Qed.

Lemma split_last (l : list Z) (k : nat) : (k <= length l)%nat ->
  l = firstn (length l - k) l ++ skipn (length l - k) l /\ length (skipn (length l - k) l) = k.
Proof. intros H. split; [symmetry; apply firstn_skipn|rewrite skipn_length; lia]. Qed.

Theorem rcurveline_ok args cs : generalize RCURVELINE args = Ok cs -> interp_all cs = interp RCURVELINE args.
Proof.
  intros H. unfold generalize in H. cbn in H. unfold interp. cbn.
  destruct ((lenZ args <? 8) || negb (lenZ args mod 6 =? 2)) eqn:G; [discriminate|].
  apply orb_false_iff in G. destruct G as [G1 G2]. apply Z.ltb_ge in G1. unfold lenZ in *.
  destruct (split_last args 2 ltac:(lia)) as [S L].
  destruct (everyN6 RRCURVETO (firstn (length args - 2) args)) as [t|e] eqn:E; [|discriminate]. cbn [bind] in H. apply Ok_inj in H. subst cs.
  destruct (skipn (length args - 2) args) as [|a [|b [|c r]]] eqn:K; cbn in L; try lia.
  rewrite S at 1. eapply rcurveline_body; [apply le_n|exact E].
Qed.

Theorem rlinecurve_ok args cs : generalize RLINECURVE args = Ok cs -> interp_all cs = interp RLINECURVE args.
Proof.
  intros H. unfold generalize in H. cbn in H. unfold interp. cbn.
  destruct ((lenZ args <? 8) || negb (lenZ args mod 2 =? 0)) eqn:G; [discriminate|].
  apply orb_false_iff in G. destruct G as [G1 G2]. apply Z.ltb_ge in G1. unfold lenZ in *.
  destruct (split_last args 6 ltac:(lia)) as [S L].
  destruct (everyN2 RLINETO (firstn (length args - 6) args)) as [t|e] eqn:E; [|discriminate]. cbn [bind] in H. apply Ok_inj in H. subst cs.
  destruct (skipn (length args - 6) args) as [|c1 [|c2 [|c3 [|c4 [|c5 [|c6 [|c7 r]]]]]]] eqn:K; cbn in L; try lia.
  rewrite S at 1. eapply rlinecurve_body; [apply le_n|exact E].
Qed.

(* ---- hvcurveto / vhcurveto *)
(* enough fuel: every step consumes at least four arguments *)
Lemma i_hv_fuel : forall f1 f2 h args, (length args < f1)%nat -> (length args < f2)%nat -> i_hv f1 h args = i_hv f2 h args.
Proof.
  induction f1 as [|f1 IH]; intros f2 h args H1 H2; [lia|].
  destruct f2 as [|f2]; [lia|]. cbn [i_hv].
  destruct args as [|a [|b [|c [|d r]]]]; try reflexivity.
  destruct r as [|x [|y r']].
  - rewrite (IH f2 (negb h) []) by (cbn in *; lia). reflexivity.
  - rewrite (IH f2 (negb h) []) by (cbn in *; lia). reflexivity.
  - rewrite (IH f2 (negb h) (x :: y :: r')) by (cbn in *; lia). reflexivity.
Qed.

Definition hv_seg (h : bool) (a b c d last : Z) : rseg := if h then RC a 0 b c last d else RC 0 a b c d last.

(* a body of whole groups of four followed by a tail that is empty or the final group of five *)
Lemma hv_body : forall n body h t tail, (length body <= n)%nat -> g_hv4 h body = Ok t ->
  (tail = [] \/ length tail = 5%nat) ->
  forall f f', (length (body ++ tail) < f)%nat -> (length tail < f')%nat ->
  i_hv f h (body ++ tail) =
    (let* a := interp_all t in
     let* b := i_hv f' (if Nat.even (length body / 4) then h else negb h) tail in Ok (a ++ b)).
Proof.
  induction n as [|n IH]; intros body h t tail Hn H Ht f f' Hf Hf'.
  - destruct body; [|cbn in Hn; lia]. cbn in H. apply Ok_inj in H. subst t. cbn [app interp_all bind length].
    replace (0 / 4)%nat with 0%nat by reflexivity. cbn [Nat.even]. rewrite (i_hv_fuel f f' h tail) by (cbn in Hf; lia). destruct (i_hv f' h tail); reflexivity.
  - destruct body as [|a [|b [|c [|d r]]]]; cbn [g_hv4] in H; try discriminate.
    + apply Ok_inj in H. subst t. cbn [app interp_all bind length]. replace (0 / 4)%nat with 0%nat by reflexivity. cbn [Nat.even].
      rewrite (i_hv_fuel f f' h tail) by (cbn in Hf; lia). destruct (i_hv f' h tail); reflexivity.
    + destruct (g_hv4 (negb h) r) as [t'|e] eqn:E; [|discriminate]. cbn [bind] in H. apply Ok_inj in H. subst t.
      destruct f as [|f]; [lia|]. cbn [app i_hv].
      (* the remainder is never a single trailing argument *)
      assert (NS: match r ++ tail with [x] => (x, []) | _ => (0, r ++ tail) end = (0, r ++ tail)).
      { destruct r as [|r1 [|r2 r']].
        - destruct Ht as [->|Ht]; [reflexivity|]. destruct tail as [|t1 [|t2 tl]]; cbn in Ht; try lia; reflexivity.
        - exfalso. cbn [g_hv4] in E. discriminate.
        - reflexivity. }
      rewrite NS.
      assert (Lr: (length r <= n)%nat) by (cbn in Hn; lia).
      assert (Lf: (length (r ++ tail) < f)%nat) by (cbn [app length] in Hf; lia).
      rewrite (IH r (negb h) t' tail Lr E Ht f f' Lf Hf').
      cbn [interp_all]. 
      assert (I1: interp RRCURVETO (if h then [a; 0; b; c; 0; d] else [0; a; b; c; d; 0]) = Ok [if h then RC a 0 b c 0 d else RC 0 a b c d 0])
        by (destruct h; reflexivity).
      rewrite I1. cbn [bind].
      (* parity of the group count *)
      assert (P: Nat.even (length (a :: b :: c :: d :: r) / 4) = negb (Nat.even (length r / 4))).
      { cbn [length]. replace (S (S (S (S (length r))))) with (1 * 4 + length r)%nat by lia.
        rewrite Nat.div_add_l by lia. rewrite Nat.even_add. cbn. destruct (Nat.even (length r / 4)); reflexivity. }
      rewrite P.
      destruct (interp_all t') as [x|e]; cbn [bind]; [|reflexivity].
      replace (if negb (Nat.even (length r / 4)) then h else negb h) with (if Nat.even (length r / 4) then negb h else negb (negb h))
        by (destruct (Nat.even (length r / 4)); destruct h; reflexivity).
      destruct (i_hv f' (if Nat.even (length r / 4) then negb h else negb (negb h)) tail) as [y|e]; cbn [bind]; [|reflexivity].
      destruct h; reflexivity.
Qed.

Lemma even_div4 k r : (k mod 8 = r)%nat -> (r = 0 \/ r = 4)%nat -> Nat.even (k / 4) = (r =? 0)%nat.
Proof.
  intros Hm Hr. pose proof (Nat.div_mod k 8 ltac:(lia)) as D. rewrite Hm in D.
  replace k with ((2 * (k / 8)) * 4 + r)%nat at 1 by lia.
  rewrite Nat.div_add_l by lia. rewrite Nat.even_add, Nat.even_mul. cbn [Nat.even orb].
  destruct Hr as [->| ->]; reflexivity.
Qed.

Lemma interp_all_single o l : interp_all [(o, l)] = let* a := interp o l in Ok a.
Proof. cbn [interp_all]. destruct (interp o l); cbn [bind]; [rewrite app_nil_r|]; reflexivity. Qed.

Lemma hvvh_ok (h : bool) args cs : g_hvvh h args = Ok cs -> interp_all cs = i_hv (S (length args)) h args.
Proof.
  intros H. unfold g_hvvh in H.
  set (l := lenZ args) in *. set (m := l mod 8) in *.
  destruct ((l <? 4) || negb ((m =? 0) || (m =? 1) || (m =? 4) || (m =? 5))) eqn:G; [discriminate|].
  apply orb_false_iff in G. destruct G as [G1 G2]. apply Z.ltb_ge in G1. apply negb_false_iff in G2.
  assert (Hl: l = Z.of_nat (length args)) by reflexivity. assert (Hm: m = l mod 8) by reflexivity. rewrite Hl in G1.
  destruct (l mod 2 =? 1) eqn:O.
  - (* odd count: whole groups, then the final group of five *)
    apply Z.eqb_eq in O.
    destruct (split_last args 5 ltac:(lia)) as [S L].
    set (body := firstn (length args - 5) args) in *.
    destruct (g_hv4 h body) as [t|e] eqn:E; [|discriminate]. cbn [bind] in H.
    destruct (skipn (length args - 5) args) as [|b0 [|b1 [|b2 [|b3 [|b4 [|b5 r]]]]]] eqn:K; cbn in L; try lia.
    apply Ok_inj in H. subst cs.
    assert (Lb: length body = (length args - 5)%nat) by (unfold body; rewrite firstn_length; lia).
    rewrite S at 2.
    rewrite (hv_body _ body h t [b0; b1; b2; b3; b4] (le_n _) E (or_intror eq_refl) (Datatypes.S (length args)) 7%nat)
      by (try (rewrite <- S); cbn [length]; lia).
    rewrite interp_all_app. destruct (interp_all t) as [x|e]; cbn [bind]; [|reflexivity].
    rewrite interp_all_single.
    (* orientation of the final curve *)
    assert (Pm: m = 1 \/ m = 5).
    { apply orb_true_iff in G2. destruct G2 as [G2|G2]; [apply orb_true_iff in G2; destruct G2 as [G2|G2]; [apply orb_true_iff in G2; destruct G2 as [G2|G2]|]|];
        apply Z.eqb_eq in G2; lia. }
    assert (Pk: Nat.even (length body / 4) = (m =? 5)).
    { rewrite Lb.
      destruct Pm as [Pm|Pm]; rewrite Pm.
      - rewrite (even_div4 _ 4%nat); [reflexivity| |right; reflexivity].
        apply Nat2Z.inj. rewrite Nat2Z.inj_mod. rewrite Nat2Z.inj_sub by lia. change (Z.of_nat 8) with 8. change (Z.of_nat 5) with 5. change (Z.of_nat 4) with 4. lia.
      - rewrite (even_div4 _ 0%nat); [reflexivity| |left; reflexivity].
        apply Nat2Z.inj. rewrite Nat2Z.inj_mod. rewrite Nat2Z.inj_sub by lia. change (Z.of_nat 8) with 8. change (Z.of_nat 5) with 5. change (Z.of_nat 0) with 0. lia. }
    rewrite Pk. cbn [i_hv].
    destruct h; destruct (m =? 5); cbn [negb bind interp]; reflexivity.
  - (* even count: whole groups only *)
    rewrite <- (app_nil_r args) at 2.
    rewrite (hv_body _ args h cs [] (le_n _) H (or_introl eq_refl) (Datatypes.S (length args)) 1%nat) by (rewrite ?app_nil_r; cbn [length]; lia).
    destruct (interp_all cs) as [x|e]; cbn [bind i_hv]; [rewrite app_nil_r|]; reflexivity.
Qed.

Theorem hvcurveto_ok args cs : generalize HVCURVETO args = Ok cs -> interp_all cs = interp HVCURVETO args.
Proof. intros H. change (generalize HVCURVETO args) with (g_hvvh true args) in H. change (interp HVCURVETO args) with (i_hv (S (length args)) true args). apply hvvh_ok. exact H. Qed.
Theorem vhcurveto_ok args cs : generalize VHCURVETO args = Ok cs -> interp_all cs = interp VHCURVETO args.
Proof. intros H. change (generalize VHCURVETO args) with (g_hvvh false args) in H. change (interp VHCURVETO args) with (i_hv (S (length args)) false args). apply hvvh_ok. exact H. Qed.

(* ---- all thirteen path operators *)
Theorem generalize_preserves_all o args cs : generalize o args = Ok cs -> interp_all cs = interp o args.
Proof.
  intros H. destruct (proved_op o) eqn:P; [apply generalize_preserves; assumption|].
  unfold proved_op in P. repeat (apply orb_false_iff in P; destruct P as [P ?]).
  destruct (o =? HVCURVETO) eqn:E9; [apply Z.eqb_eq in E9; subst o; apply hvcurveto_ok; exact H|].
  destruct (o =? VHCURVETO) eqn:E10; [apply Z.eqb_eq in E10; subst o; apply vhcurveto_ok; exact H|].
  destruct (o =? RCURVELINE) eqn:E11; [apply Z.eqb_eq in E11; subst o; apply rcurveline_ok; exact H|].
  destruct (o =? RLINECURVE) eqn:E12; [apply Z.eqb_eq in E12; subst o; apply rlinecurve_ok; exact H|].
  exfalso. unfold generalize in H.
  repeat match goal with Hx : (o =? _) = false |- _ => rewrite Hx in H; clear Hx end. discriminate.
Qed.

Example generalize_examples_all :
  generalize HVCURVETO [1; 2; 3; 4; 5] = Ok [(RRCURVETO, [1; 0; 2; 3; 5; 4])] /\
  generalize VHCURVETO [1; 2; 3; 4; 5; 6; 7; 8; 9] = Ok [(RRCURVETO, [0; 1; 2; 3; 4; 0]); (RRCURVETO, [5; 0; 6; 7; 9; 8])] /\
  generalize RCURVELINE [1; 2; 3; 4; 5; 6; 7; 8] = Ok [(RRCURVETO, [1; 2; 3; 4; 5; 6]); (RLINETO, [7; 8])] /\
  generalize RLINECURVE [1; 2; 3; 4; 5; 6; 7; 8] = Ok [(RLINETO, [1; 2]); (RRCURVETO, [3; 4; 5; 6; 7; 8])].
Proof. repeat split; vm_compute; reflexivity. Qed.
