(* C09/ModelCache.v — the master-order bookkeeping of VariationModel (varLib/models.py): origLocations, mapping, reverseMapping,
   the sub-model cache of getSubModel (304-323) and reorderMasters (389-400).  A location is an opaque identifier; a sub-model is
   identified by the list of locations it was built from (VariationModel is a deterministic function of that list). *)
From Coq Require Import ZArith List Bool.
From FV Require Import Base.Ser Base.Res.
Import ListNotations.
Open Scope Z_scope.

Fixpoint subList {A} (truth : list bool) (l : list A) : list A :=
  match truth, l with
  | t :: ts, x :: xs => if t then x :: subList ts xs else subList ts xs
  | _, _ => []
  end.

Fixpoint pat_eqb (a b : list bool) : bool :=
  match a, b with
  | [], [] => true
  | x :: a', y :: b' => Bool.eqb x y && pat_eqb a' b'
  | _, _ => false
  end.
Fixpoint lookup (pat : list bool) (c : list (list bool * list Z)) : option (list Z) :=
  match c with [] => None | (p, l) :: r => if pat_eqb pat p then Some l else lookup pat r end.

Fixpoint index_of (x : Z) (l : list Z) : option Z :=
  match l with
  | [] => None
  | y :: r => if Z.eqb x y then Some 0 else match index_of x r with Some i => Some (i + 1) | None => None end
  end.
Definition memz (x : Z) (l : list Z) : bool := existsb (Z.eqb x) l.
Fixpoint nodupb (l : list Z) : bool := match l with [] => true | x :: r => negb (memz x r) && nodupb r end.
(* what the constructor of the sub-model accepts: pairwise different locations, the default one among them *)
Definition buildable (d : Z) (l : list Z) : bool := nodupb l && memz d l.

Record vm := mkVm {
  dflt : Z;                 (* the location {} *)
  sorted : list Z;          (* self.locations: the model's own master order, fixed at construction *)
  orig : list Z;            (* self.origLocations: the caller's master order *)
  mapping : list Z;         (* caller's index -> own index *)
  rmapping : list Z;        (* own index -> caller's index *)
  cache : list (list bool * list Z)
}.

Fixpoint indices (xs : list Z) (l : list Z) : option (list Z) :=
  match xs with
  | [] => Some []
  | x :: r => match index_of x l, indices r l with Some i, Some is => Some (i :: is) | _, _ => None end
  end.

(* __init__ after sorting: sorted is what the constructor computed for orig *)
Definition init (d : Z) (srt org : list Z) : Res vm :=
  match indices org srt, indices srt org with
  | Some mp, Some rm => Ok (mkVm d srt org mp rm [])
  | _, _ => Err ValueError
  end.

Inductive op := GetSub (pat : list bool) | Reorder (mp : list Z).

(* [master_list[idx] for idx in mapping] *)
Fixpoint pick (l : list Z) (mp : list Z) : option (list Z) :=
  match mp with
  | [] => Some []
  | i :: r =>
    match (if i <? 0 then (if Z.of_nat (length l) + i <? 0 then None else nth_error l (Z.to_nat (Z.of_nat (length l) + i))) else nth_error l (Z.to_nat i)), pick l r with
    | Some x, Some xs => Some (x :: xs)
    | _, _ => None
    end
  end.

(* what an operation shows: the locations of the model that answers (GetSub), or the new caller order with both index maps (Reorder) *)
Definition out := Res (list (list Z)).

Definition step (s : vm) (o : op) : vm * out :=
  match o with
  | GetSub pat =>
    if forallb (fun b => b) pat then (s, Ok [orig s])
    else match lookup pat (cache s) with
         | Some l => (s, Ok [l])
         | None =>
           if negb (Nat.eqb (length pat) (length (orig s))) then (s, Err AssertionError)
           else let l := subList pat (orig s) in
                if negb (buildable (dflt s) l) then (s, Err LibError)    (* VariationModelError: Locations must be unique / Base master not found *)
                else (mkVm (dflt s) (sorted s) (orig s) (mapping s) (rmapping s) ((pat, l) :: cache s), Ok [l])
         end
  | Reorder mp =>
    match pick (orig s) mp with
    | None => (s, Err IndexError)
    | Some org' =>
      match indices org' (sorted s) with
      | None => (s, Err ValueError)          (* unreachable: every entry of org' is one of the model's locations *)
      | Some mp' =>
        match indices (sorted s) org' with
        | None =>      (* a location was dropped: list.index raises AFTER origLocations and mapping were replaced *)
          (mkVm (dflt s) (sorted s) org' mp' (rmapping s) (cache s), Err ValueError)
        | Some rm' => (mkVm (dflt s) (sorted s) org' mp' rm' [], Ok [org'; mp'; rm'])
        end
      end
    end
  end.

Fixpoint run (s : vm) (ops : list op) : vm * list out :=
  match ops with
  | [] => (s, [])
  | o :: r => let '(s1, x) := step s o in let '(s2, xs) := run s1 r in (s2, x :: xs)
  end.

(* ---- the specification: no cache at all *)
Definition step_spec (s : vm) (o : op) : vm * out :=
  match o with
  | GetSub pat =>
    if forallb (fun b => b) pat then (s, Ok [orig s])
    else if negb (Nat.eqb (length pat) (length (orig s))) then (s, Err AssertionError)
    else let l := subList pat (orig s) in
         if negb (buildable (dflt s) l) then (s, Err LibError) else (s, Ok [l])
  | Reorder mp => let '(s', x) := step s o in (mkVm (dflt s') (sorted s') (orig s') (mapping s') (rmapping s') [], x)
  end.
Fixpoint run_spec (s : vm) (ops : list op) : vm * list out :=
  match ops with
  | [] => (s, [])
  | o :: r => let '(s1, x) := step_spec s o in let '(s2, xs) := run_spec s1 r in (s2, x :: xs)
  end.

Definition run_model (d : Z) (srt org : list Z) (ops : list op) : Res (list out) :=
  match init d srt org with Ok s => Ok (snd (run s ops)) | Err e => Err e end.
