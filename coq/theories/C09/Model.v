(* C09/Model.v — variation arithmetic over exact rationals.
   varLib/models.py: normalizeValue (54-84), supportScalar (118-200, ot=True, no extrapolation),
   piecewiseLinearMap (580-597), VariationModel.getDeltas / interpolateFromDeltasAndScalars (475-560);
   varLib/instancer/solver.py: _solve / rebaseTent; instancer/__init__.py:319-355 renormalizeValue. *)
From Coq Require Import QArith List Bool.
From FV Require Import Base.Ser Base.Res Geom.QTools.
Import ListNotations.
Open Scope Q_scope.

(* ---- normalizeValue (extrapolate=False); ValueError for an unordered triple *)
Definition normalizeValue (v lower default upper : Q) : Res Q :=
  if negb (Qleb lower default && Qleb default upper) then Err ValueError
  else
    let v := Qmax (Qmin v upper) lower in
    if Qeqb v default || Qeqb lower upper then Ok 0
    else if (Qltb v default && negb (Qeqb lower default)) || (Qltb default v && Qeqb upper default)
    then Ok ((v - default) / (default - lower))
    else Ok ((v - default) / (upper - default)).

(* ---- supportScalar for one axis *)
Definition tent := (Q * Q * Q)%type.

(* the plain tent function, without OpenType's "axis does not participate" cases *)
Definition rawtent (t : tent) (x : Q) : Q :=
  let '(l, p, u) := t in
  if Qeqb x p then 1 else
  if Qleb x l || Qleb u x then 0 else
  if Qltb x p then (x - l) / (p - l) else (x - u) / (p - u).

Definition tentval (t : tent) (x : Q) : Q :=
  let '(l, p, u) := t in
  if Qeqb p 0 then 1
  else if Qltb p l || Qltb u p then 1
  else if Qltb l 0 && Qltb 0 u then 1
  else rawtent t x.

(* multi-axis: location and support as association lists over axis ids; missing axis = 0 *)
Fixpoint lookupQ (k : Z) (l : list (Z * Q)) : Q :=
  match l with [] => 0 | (k', v) :: r => if Z.eqb k k' then v else lookupQ k r end.
Fixpoint supportScalar (loc : list (Z * Q)) (support : list (Z * tent)) : Q :=
  match support with
  | [] => 1
  | (a, t) :: r => tentval t (lookupQ a loc) * supportScalar loc r
  end.

(* ---- piecewiseLinearMap over a list of (key, value) pairs (a dict: keys distinct) *)
Fixpoint find_key (v : Q) (m : list (Q * Q)) : option Q :=
  match m with [] => None | (k, x) :: r => if Qeqb v k then Some x else find_key v r end.
Fixpoint min_key (m : list (Q * Q)) (best : Q * Q) : Q * Q :=
  match m with [] => best | (k, x) :: r => min_key r (if Qltb k (fst best) then (k, x) else best) end.
Fixpoint max_key (m : list (Q * Q)) (best : Q * Q) : Q * Q :=
  match m with [] => best | (k, x) :: r => max_key r (if Qltb (fst best) k then (k, x) else best) end.
(* greatest key below v / least key above v *)
Fixpoint below (v : Q) (m : list (Q * Q)) (best : option (Q * Q)) : option (Q * Q) :=
  match m with
  | [] => best
  | (k, x) :: r =>
    below v r (if Qltb k v then match best with Some (bk, _) => if Qltb bk k then Some (k, x) else best | None => Some (k, x) end else best)
  end.
Fixpoint above (v : Q) (m : list (Q * Q)) (best : option (Q * Q)) : option (Q * Q) :=
  match m with
  | [] => best
  | (k, x) :: r =>
    above v r (if Qltb v k then match best with Some (bk, _) => if Qltb k bk then Some (k, x) else best | None => Some (k, x) end else best)
  end.
Definition piecewiseLinearMap (v : Q) (m : list (Q * Q)) : Q :=
  match m with
  | [] => v
  | first :: _ =>
    match find_key v m with
    | Some x => x
    | None =>
      let '(kmin, xmin) := min_key m first in
      if Qltb v kmin then v + xmin - kmin
      else
        let '(kmax, xmax) := max_key m first in
        if Qltb kmax v then v + xmax - kmax
        else match below v m None, above v m None with
             | Some (a, va), Some (b, vb) => va + (vb - va) * (v - a) / (b - a)
             | _, _ => v     (* unreachable: v lies strictly between two keys *)
             end
    end
  end.

(* ---- renormalizeValue (extrapolate=True) *)
Record lim := mkLim { amin : Q; adef : Q; amax : Q; dneg : Q; dpos : Q }.
Definition lim_reverse_negate (L : lim) : lim := mkLim (- amax L) (- adef L) (- amin L) (dpos L) (dneg L).

Definition renorm_pos (L : lim) (v : Q) : Q :=      (* default >= 0, v != default *)
  if Qltb (adef L) v then (v - adef L) / (amax L - adef L)
  else if Qleb 0 (amin L) then (v - adef L) / (adef L - amin L)
  else
    let total := dneg L * - amin L + dpos L * adef L in
    let vd := if Qleb 0 v then (adef L - v) * dpos L else - v * dneg L + dpos L * adef L in
    - vd / total.
Definition renormalizeValue (L : lim) (v : Q) : Q :=
  if Qeqb v (adef L) then 0
  else if Qltb (adef L) 0 then - renorm_pos (lim_reverse_negate L) (- v)
  else renorm_pos L v.

(* ---- _solve *)
Definition EPSILON : Q := 1 # 16384.
Definition tent_reverse_negate (t : tent) : tent := let '(l, p, u) := t in (- u, - p, - l).
Definition sol := (Q * option tent)%type.

Definition solve_main (t : tent) (L : lim) : list sol :=     (* axisDef <= peak <= axisMax *)
  let '(lower, peak, upper) := t in
  let axisMin := amin L in let axisDef := adef L in let axisMax := amax L in
  let gain := tentval t axisDef in
  let outGain := tentval t axisMax in
  let pos :=
    if Qleb outGain gain then
      let crossing := peak + (1 - gain) * (upper - peak) in
      let first := (1 - gain, Some (Qmax lower axisDef, peak, crossing)) in
      if Qleb axisMax upper then
        [first; (outGain - gain, Some (crossing, axisMax, axisMax))]
      else
        let upper' := if Qeqb upper axisDef then upper + EPSILON else upper in
        [first; (0 - gain, Some (crossing, upper', axisMax)); (0 - gain, Some (upper', axisMax, axisMax))]
    else
      let first := (1 - gain, Some (Qmax axisDef lower, peak, axisMax)) in
      if Qltb peak axisMax then [first; (outGain - gain, Some (peak, axisMax, axisMax))] else [first] in
  let neg :=
    if Qleb lower axisMin then
      [(tentval t axisMin - gain, Some (axisMin, axisMin, axisDef))]
    else
      let lower' := if Qeqb lower axisDef then lower - EPSILON else lower in
      [(0 - gain, Some (axisMin, lower', axisDef)); (0 - gain, Some (axisMin, axisMin, lower'))] in
  (gain, None) :: pos ++ neg.

Fixpoint solve (fuel : nat) (t : tent) (L : lim) : Res (list sol) :=
  match fuel with
  | O => Err OutOfFuel
  | S f =>
    let '(lower, peak, upper) := t in
    if Qltb peak (adef L) then
      let* r := solve f (tent_reverse_negate t) (lim_reverse_negate L) in
      Ok (map (fun s : sol => (fst s, option_map tent_reverse_negate (snd s))) r)
    else if Qleb (amax L) lower && Qltb (amax L) peak then Ok []
    else if Qltb (amax L) peak then
      let mult := tentval t (amax L) in
      let* r := solve f (lower, amax L, amax L) L in
      Ok (map (fun s : sol => (fst s * mult, snd s)) r)
    else Ok (solve_main t L)
  end.

(* rebaseTent: drop zero scalars, renormalise the tents; AssertionError outside the documented domain *)
Definition rebaseTent (t : tent) (L : lim) : Res (list sol) :=
  let '(lower, peak, upper) := t in
  if negb (Qleb (-1) (amin L) && Qleb (amin L) (adef L) && Qleb (adef L) (amax L) && Qleb (amax L) 1) then Err AssertionError
  else if negb (Qleb (-2) lower && Qleb lower peak && Qleb peak upper && Qleb upper 2) then Err AssertionError
  else if Qeqb peak 0 then Err AssertionError
  else
    let* sols := solve 4 t L in
    let n := renormalizeValue L in
    Ok (map (fun s : sol => (fst s, option_map (fun v : tent => let '(a, b, c) := v in (n a, n b, n c)) (snd s)))
            (filter (fun s : sol => negb (Qeqb (fst s) 0)) sols)).

(* ---- the delta core of VariationModel: masters M_k; row k of the weights holds w_k0 .. w_k(k-1)
   (deltaWeights as a dense lower-triangular matrix; absent entries are 0) *)
Fixpoint dot (a b : list Q) : Q :=
  match a, b with x :: a', y :: b' => x * y + dot a' b' | _, _ => 0 end.
(* getDeltas: delta_k = M_k - sum_{j<k} w_kj * delta_j *)
Fixpoint getDeltas_aux (masters : list Q) (weights : list (list Q)) (acc : list Q) : list Q :=
  match masters, weights with
  | m :: ms, row :: rows => getDeltas_aux ms rows (acc ++ [m - dot row acc])
  | _, _ => acc
  end.
Definition getDeltas (masters : list Q) (weights : list (list Q)) : list Q := getDeltas_aux masters weights [].
(* interpolateFromDeltasAndScalars *)
Fixpoint interpolate (deltas scalars : list Q) : Q :=
  match deltas, scalars with
  | d :: ds, s :: ss => (if Qeqb s 0 then 0 else d * s) + interpolate ds ss
  | _, _ => 0
  end.
