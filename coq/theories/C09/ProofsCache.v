(* C09/ProofsCache.v — the sub-model cache is never stale; the index maps stay correct *)
From Coq Require Import ZArith List Bool Lia.
From FV Require Import Base.Ser Base.Res C09.ModelCache.
Import ListNotations.
Open Scope Z_scope.

Lemma pat_eqb_eq a : forall b, pat_eqb a b = true -> a = b.
Proof.
  induction a as [|x a IH]; destruct b as [|y b]; cbn; try discriminate; auto.
  intros H. apply andb_true_iff in H. destruct H as [H1 H2]. apply Bool.eqb_prop in H1. subst. f_equal. auto.
Qed.
Lemma lookup_In pat c l : lookup pat c = Some l -> In (pat, l) c.
Proof.
  induction c as [|[p l'] r IH]; cbn; [discriminate|].
  destruct (pat_eqb pat p) eqn:E.
  - intros [= <-]. apply pat_eqb_eq in E. subst. left; auto.
  - intros H. right; auto.
Qed.

Definition entry_ok (s : vm) (e : list bool * list Z) : Prop :=
  snd e = subList (fst e) (orig s) /\ length (fst e) = length (orig s) /\ buildable (dflt s) (snd e) = true.
Definition Inv (s : vm) : Prop := Forall (entry_ok s) (cache s).
Definition strip (s : vm) : vm := mkVm (dflt s) (sorted s) (orig s) (mapping s) (rmapping s) [].

Lemma Inv_strip s : Inv (strip s).
Proof. constructor. Qed.

Lemma step_refines s o : Inv s ->
  snd (step s o) = snd (step_spec (strip s) o) /\
  strip (fst (step s o)) = fst (step_spec (strip s) o) /\
  (snd (step s o) <> Err ValueError -> Inv (fst (step s o))).
Proof.
  intros HI. destruct o as [pat | mp].
  - cbn [step step_spec]. cbn [strip orig dflt cache].
    destruct (forallb (fun b => b) pat) eqn:Eall; [cbn; auto|].
    destruct (lookup pat (cache s)) as [l|] eqn:El.
    + apply lookup_In in El. unfold Inv in HI. rewrite Forall_forall in HI. destruct (HI _ El) as (E1 & E2 & E3). cbn [fst snd] in E1, E2, E3.
      rewrite E2, Nat.eqb_refl. cbn [negb]. rewrite <- E1, E3. cbn. split; [reflexivity|]. split; [reflexivity|]. intros _. unfold Inv. rewrite Forall_forall. exact HI.
    + destruct (Nat.eqb (length pat) (length (orig s))) eqn:En; cbn [negb]; [|cbn; auto].
      destruct (buildable (dflt s) (subList pat (orig s))) eqn:Em; cbn [negb]; [|cbn; auto].
      cbn. split; [auto|]. split; [reflexivity|]. intros _. constructor; [|exact HI].
      unfold entry_ok. cbn. apply Nat.eqb_eq in En. auto.
  - cbn [step_spec]. cbn [step]. cbn [strip orig sorted dflt rmapping cache mapping].
    destruct (pick (orig s) mp) as [org'|]; [|cbn; auto].
    destruct (indices org' (sorted s)) as [mp'|]; [|cbn; auto].
    destruct (indices (sorted s) org') as [rm'|]; cbn.
    + split; [auto|]. split; [reflexivity|]. intros _. constructor.
    + split; [auto|]. split; [reflexivity|]. intros H. congruence.
Qed.

Lemma run_cons s o r : run s (o :: r) = let '(s1, x) := step s o in let '(s2, xs) := run s1 r in (s2, x :: xs).
Proof. reflexivity. Qed.

(* every answer is the answer of a model without any cache — as long as no reorderMasters call failed half-way *)
Theorem cache_transparent : forall ops s, Inv s ->
  Forall (fun x => x <> Err ValueError) (snd (run s ops)) ->
  snd (run s ops) = snd (run_spec (strip s) ops).
Proof.
  induction ops as [|o r IH]; intros s HI Hok; [reflexivity|].
  destruct (step_refines s o HI) as (E1 & E2 & E3).
  cbn [run run_spec] in *. destruct (step s o) as [s1 x] eqn:Es. destruct (step_spec (strip s) o) as [t1 y] eqn:Et.
  cbn [fst snd] in *. subst y t1.
  destruct (run s1 r) as [s2 xs] eqn:Er. cbn [snd] in Hok. apply Forall_cons_iff in Hok. destruct Hok as [Hx Hxs].
  specialize (IH s1 (E3 Hx)). rewrite Er in IH. cbn [snd] in IH. specialize (IH Hxs).
  destruct (run_spec (strip s1) r) as [t2 ys] eqn:Ers. cbn [snd] in *. subst. reflexivity.
Qed.

Theorem fresh_model_transparent d srt org s ops : init d srt org = Ok s ->
  Forall (fun x => x <> Err ValueError) (snd (run s ops)) -> snd (run s ops) = snd (run_spec s ops).
Proof.
  intros Hi Hok. assert (Hs : strip s = s).
  { unfold init in Hi. destruct (indices org srt), (indices srt org); try discriminate. injection Hi as <-. reflexivity. }
  rewrite <- Hs at 2. apply cache_transparent; auto.
  unfold init in Hi. destruct (indices org srt), (indices srt org); try discriminate. injection Hi as <-. constructor.
Qed.

(* ---- the index maps *)
Lemma index_of_correct x l : forall i, index_of x l = Some i -> 0 <= i /\ nth_error l (Z.to_nat i) = Some x.
Proof.
  induction l as [|y r IH]; cbn; [discriminate|]. intros i.
  destruct (Z.eqb_spec x y) as [->|Hne].
  - intros [= <-]. split; [lia | reflexivity].
  - destruct (index_of x r) as [j|]; [|discriminate]. intros [= <-]. destruct (IH j eq_refl) as [Hj Hn].
    split; [lia|]. replace (Z.to_nat (j + 1)) with (S (Z.to_nat j)) by lia. exact Hn.
Qed.
Lemma indices_correct xs l : forall is, indices xs l = Some is ->
  Forall2 (fun x i => 0 <= i /\ nth_error l (Z.to_nat i) = Some x) xs is.
Proof.
  induction xs as [|x r IH]; cbn; intros is.
  - intros [= <-]. constructor.
  - destruct (index_of x l) as [i|] eqn:Ei; [|discriminate]. destruct (indices r l) as [js|]; [|discriminate].
    intros [= <-]. constructor; [apply index_of_correct; auto | apply IH; auto].
Qed.

Definition MapsOk (s : vm) : Prop :=
  Forall2 (fun x i => 0 <= i /\ nth_error (sorted s) (Z.to_nat i) = Some x) (orig s) (mapping s) /\
  Forall2 (fun x i => 0 <= i /\ nth_error (orig s) (Z.to_nat i) = Some x) (sorted s) (rmapping s).

Lemma init_maps d srt org s : init d srt org = Ok s -> MapsOk s.
Proof.
  unfold init. destruct (indices org srt) as [mp|] eqn:E1; [|discriminate]. destruct (indices srt org) as [rm|] eqn:E2; [|discriminate].
  intros [= <-]. split; cbn; apply indices_correct; auto.
Qed.
Lemma step_maps s o : MapsOk s -> snd (step s o) <> Err ValueError -> MapsOk (fst (step s o)).
Proof.
  intros HM Hok. destruct o as [pat | mp]; cbn [step] in *.
  - destruct (forallb (fun b => b) pat); [exact HM|]. destruct (lookup pat (cache s)); [exact HM|].
    destruct (negb (Nat.eqb (length pat) (length (orig s)))); [exact HM|].
    destruct (negb (buildable (dflt s) (subList pat (orig s)))); exact HM.
  - destruct (pick (orig s) mp) as [org'|]; [|exact HM].
    destruct (indices org' (sorted s)) as [mp'|] eqn:E1; [|exact HM].
    destruct (indices (sorted s) org') as [rm'|] eqn:E2; cbn in *; [|congruence].
    split; cbn; apply indices_correct; auto.
Qed.
Theorem maps_stay_correct : forall ops s, MapsOk s ->
  Forall (fun x => x <> Err ValueError) (snd (run s ops)) -> MapsOk (fst (run s ops)).
Proof.
  induction ops as [|o r IH]; intros s HM Hok; [exact HM|].
  cbn [run] in *. assert (A := step_maps s o HM). destruct (step s o) as [s1 x]. cbn [fst snd] in *.
  destruct (run s1 r) as [s2 xs] eqn:Er. cbn [fst snd] in *. apply Forall_cons_iff in Hok. destruct Hok as [Hx Hxs].
  specialize (IH s1 (A Hx)). rewrite Er in IH. apply IH. exact Hxs.
Qed.

(* ---- a half-failed reorderMasters does leave a stale cache behind (why the hypothesis above is there) *)
Example failed_reorder_leaves_stale_cache :
  exists s ops, init 0 [0; 1; 2] [0; 1; 2] = Ok s /\
    snd (run s ops) <> snd (run_spec s ops).
Proof.
  exists (mkVm 0 [0; 1; 2] [0; 1; 2] [0; 1; 2] [0; 1; 2] []).
  exists [GetSub [true; false; true]; Reorder [2; 0; 0]; GetSub [true; false; true]].
  split; [reflexivity|]. vm_compute. congruence.
Qed.
Example hypotheses_satisfiable :
  exists s, init 0 [0; 1; 2] [2; 0; 1] = Ok s /\
    snd (run s [GetSub [true; true; false]; Reorder [1; 0; 2]; GetSub [true; true; false]]) =
      [Ok [[2; 0]]; Ok [[0; 2; 1]; [0; 2; 1]; [0; 2; 1]]; Ok [[0; 2]]].
Proof. eexists. split; [reflexivity|]. vm_compute. reflexivity. Qed.

Lemma maps_after_history d srt org s ops : init d srt org = Ok s ->
  Forall (fun x => x <> Err ValueError) (snd (run s ops)) -> MapsOk (fst (run s ops)).
Proof. intros Hi Hok. apply maps_stay_correct; auto. apply (init_maps d srt org s Hi). Qed.
