(* C09/Props.v — property theorems only *)
From Coq Require Import QArith List.
From FV Require Import Base.Ser Base.Res Geom.QTools C09.Model C09.Proofs.
Import ListNotations.
Open Scope Q_scope.

(* interpolating at a master's location returns exactly that master, for ANY lower-triangular weights *)
Theorem deltas_reproduce_masters : forall masters weights k m row,
  (forall j r, nth_error weights j = Some r -> length r = j) ->
  length weights = length masters ->
  nth_error masters k = Some m -> nth_error weights k = Some row ->
  interpolate (getDeltas masters weights) (row ++ [1]) == m.
Proof. exact Proofs.deltas_reproduce_masters. Qed.
Print Assumptions deltas_reproduce_masters.

Theorem rawtent_bounds : forall l p u x, l <= p -> p <= u -> 0 <= rawtent (l, p, u) x /\ rawtent (l, p, u) x <= 1.
Proof. exact Proofs.rawtent_bounds. Qed.
Print Assumptions rawtent_bounds.

Theorem rawtent_peak : forall l p u, rawtent (l, p, u) p == 1.
Proof. exact Proofs.rawtent_peak. Qed.
Print Assumptions rawtent_peak.

(* the negative-side representation used by rebaseTent is exact on [axisMin, axisDef] *)
Theorem neg_chop : forall l p u mn df x,
  l <= mn -> mn < df -> df < p -> p <= u -> mn <= x -> x <= df ->
  rawtent (l, p, u) x ==
  rawtent (l, p, u) df + (rawtent (l, p, u) mn - rawtent (l, p, u) df) * rawtent (mn, mn, df) x.
Proof. exact Proofs.neg_chop. Qed.
Print Assumptions neg_chop.

Theorem normalize_spec : forall lower default upper, lower < default -> default < upper ->
  normalizeValue default lower default upper = Ok 0 /\
  (exists r, normalizeValue lower lower default upper = Ok r /\ r == -1) /\
  (exists r, normalizeValue upper lower default upper = Ok r /\ r == 1).
Proof. exact Proofs.normalize_spec. Qed.
Print Assumptions normalize_spec.

Theorem normalize_range : forall v lower default upper r,
  normalizeValue v lower default upper = Ok r -> -1 <= r /\ r <= 1.
Proof. exact Proofs.normalize_range. Qed.
Print Assumptions normalize_range.

Theorem renormalize_limits : forall L, amin L < adef L -> adef L < amax L -> 0 < dneg L -> 0 < dpos L ->
  renormalizeValue L (adef L) == 0 /\ renormalizeValue L (amax L) == 1 /\ renormalizeValue L (amin L) == -1.
Proof. exact Proofs.renormalize_limits. Qed.
Print Assumptions renormalize_limits.

(* ---- ONE VariationModel used over a history of getSubModel / reorderMasters calls (ModelCache.v): every answer is the answer of a
   model that keeps no cache at all, as long as no reorderMasters call failed half-way (a mapping that drops a master raises
   ValueError after origLocations was already replaced: failed_reorder_leaves_stale_cache in ProofsCache.v) *)
From FV Require C09.ModelCache C09.ProofsCache.
Theorem submodel_cache_transparent : forall d srt org s ops, ModelCache.init d srt org = Ok s ->
  Forall (fun x => x <> Err ValueError) (snd (ModelCache.run s ops)) ->
  snd (ModelCache.run s ops) = snd (ModelCache.run_spec s ops).
Proof. exact ProofsCache.fresh_model_transparent. Qed.
Print Assumptions submodel_cache_transparent.

(* mapping / reverseMapping translate between the caller's master order and the model's own, after any such history *)
Theorem master_index_maps_correct : forall d srt org s ops, ModelCache.init d srt org = Ok s ->
  Forall (fun x => x <> Err ValueError) (snd (ModelCache.run s ops)) ->
  ProofsCache.MapsOk (fst (ModelCache.run s ops)).
Proof. exact ProofsCache.maps_after_history. Qed.
Print Assumptions master_index_maps_correct.
