(* C09/Proofs.v *)
From Coq Require Import QArith Lqa Lia List Bool Setoid Morphisms.
From FV Require Import Base.Ser Base.Res Geom.QTools C09.Model.
Import ListNotations.
Open Scope Q_scope.

(* ---------- tents ---------- *)
Lemma rawtent_peak l p u : rawtent (l, p, u) p == 1.
Proof. unfold rawtent. destruct (Qeqb_spec p p) as [_|N]; [reflexivity|exfalso; apply N; reflexivity]. Qed.

Lemma rawtent_outside l p u x : ~ x == p -> (x <= l \/ u <= x) -> rawtent (l, p, u) x == 0.
Proof.
  intros NP H. unfold rawtent. destruct (Qeqb_spec x p); [contradiction|].
  destruct (Qleb_spec x l); [reflexivity|]. destruct (Qleb_spec u x); [reflexivity|]. lra.
Qed.

Lemma Qdiv_bounds a b : 0 <= a -> a <= b -> 0 < b -> 0 <= a / b /\ a / b <= 1.
Proof.
  intros Ha Hab Hb. split.
  - apply Qle_shift_div_l; lra.
  - apply Qle_shift_div_r; lra.
Qed.

Theorem rawtent_bounds l p u x : l <= p -> p <= u -> 0 <= rawtent (l, p, u) x /\ rawtent (l, p, u) x <= 1.
Proof.
  intros Hlp Hpu. unfold rawtent.
  destruct (Qeqb_spec x p); [lra|].
  destruct (Qleb_spec x l); [cbn; lra|]. destruct (Qleb_spec u x); [cbn; lra|]. cbn [orb].
  destruct (Qltb_spec x p).
  - apply Qdiv_bounds; lra.
  - assert (E: (x - u) / (p - u) == (u - x) / (u - p)) by (field; lra).
    rewrite E. apply Qdiv_bounds; lra.
Qed.

(* on [mn, df] below the peak the tent is the gain plus a multiple of the tent (mn, mn, df):
   the representation _solve uses for the negative side when lower <= axisMin *)
Lemma rt_rise l p u x : l < x -> x < p -> x < u -> rawtent (l, p, u) x == (x - l) / (p - l).
Proof. intros. unfold rawtent. destruct (Qeqb_spec x p); [lra|].
  destruct (Qleb_spec x l); [lra|]. destruct (Qleb_spec u x); [lra|]. cbn.
  destruct (Qltb_spec x p); [reflexivity|lra]. Qed.
Lemma rt_fall l p u x : l < x -> p < x -> x < u -> rawtent (l, p, u) x == (x - u) / (p - u).
Proof. intros. unfold rawtent. destruct (Qeqb_spec x p); [lra|].
  destruct (Qleb_spec x l); [lra|]. destruct (Qleb_spec u x); [lra|]. cbn.
  destruct (Qltb_spec x p); [lra|reflexivity]. Qed.
Lemma rt_left l p u x : x <= l -> ~ x == p -> rawtent (l, p, u) x == 0.
Proof. intros. apply rawtent_outside; auto. Qed.
Lemma rt_right l p u x : u <= x -> ~ x == p -> rawtent (l, p, u) x == 0.
Proof. intros. apply rawtent_outside; auto. Qed.

Global Instance rawtent_proper_x l p u : Proper (Qeq ==> Qeq) (rawtent (l, p, u)).
Proof.
  intros x x' Hx. unfold rawtent.
  destruct (Qeqb_spec x p), (Qeqb_spec x' p); try lra; try reflexivity.
  destruct (Qleb_spec x l), (Qleb_spec x' l); try lra; cbn; try reflexivity.
  destruct (Qleb_spec u x), (Qleb_spec u x'); try lra; cbn; try reflexivity.
  destruct (Qltb_spec x p), (Qltb_spec x' p); try lra; rewrite Hx; reflexivity.
Qed.

Theorem neg_chop l p u mn df x :
  l <= mn -> mn < df -> df < p -> p <= u -> mn <= x -> x <= df ->
  rawtent (l, p, u) x ==
  rawtent (l, p, u) df + (rawtent (l, p, u) mn - rawtent (l, p, u) df) * rawtent (mn, mn, df) x.
Proof.
  intros Hl Hmd Hdp Hpu Hx1 Hx2.
  destruct (Qeq_dec x mn) as [E|NE].
  - assert (R1: rawtent (mn, mn, df) x == 1) by (rewrite E; apply rawtent_peak).
    assert (R2: rawtent (l, p, u) x == rawtent (l, p, u) mn) by (rewrite E; reflexivity).
    rewrite R1, R2. ring.
  - assert (mn < x) by (destruct (Qlt_le_dec mn x); auto; exfalso; apply NE; lra).
    destruct (Qeq_dec x df) as [E2|NE2].
    + rewrite (rt_right mn mn df x) by lra.
      assert (R2: rawtent (l, p, u) x == rawtent (l, p, u) df) by (rewrite E2; reflexivity). rewrite R2. ring.
    + assert (x < df) by (destruct (Qlt_le_dec x df); auto; exfalso; apply NE2; lra).
      rewrite (rt_fall mn mn df x) by lra.
      rewrite (rt_rise l p u x) by lra.
      rewrite (rt_rise l p u df) by lra.
      destruct (Qeq_dec l mn) as [E3|NE3].
      * rewrite (rt_left l p u mn) by lra. rewrite E3. field. split; lra.
      * rewrite (rt_rise l p u mn) by lra. field. split; lra.
Qed.

(* ---------- normalizeValue ---------- *)
Theorem normalize_spec lower default upper : lower < default -> default < upper ->
  normalizeValue default lower default upper = Ok 0 /\
  (exists r, normalizeValue lower lower default upper = Ok r /\ r == -1) /\
  (exists r, normalizeValue upper lower default upper = Ok r /\ r == 1).
Proof.
  intros H1 H2. unfold normalizeValue, Qmax, Qmin.
  destruct (Qleb_spec lower default); [|lra]. destruct (Qleb_spec default upper); [|lra]. cbn [andb negb].
  repeat split.
  - destruct (Qleb_spec default upper); [|lra]. destruct (Qleb_spec default lower); [lra|].
    destruct (Qeqb_spec default default) as [_|N]; [reflexivity|exfalso; apply N; reflexivity].
  - destruct (Qleb_spec lower upper); [|lra]. destruct (Qleb_spec lower lower); [|lra].
    destruct (Qeqb_spec lower default); [lra|]. destruct (Qeqb_spec lower upper); [lra|]. cbn [orb].
    destruct (Qltb_spec lower default); [|lra]. destruct (Qeqb_spec lower default); [lra|]. cbn [negb andb orb].
    eexists. split; [reflexivity|]. field. lra.
  - destruct (Qleb_spec upper upper); [|lra]. destruct (Qleb_spec upper lower); [lra|].
    destruct (Qeqb_spec upper default); [lra|]. destruct (Qeqb_spec lower upper); [lra|]. cbn [orb].
    destruct (Qltb_spec upper default); [lra|]. destruct (Qltb_spec default upper); [|lra].
    destruct (Qeqb_spec upper default); [lra|]. cbn [negb andb orb].
    eexists. split; [reflexivity|]. field. lra.
Qed.

(* normalised values always lie in [-1, 1] (clamping) *)
Theorem normalize_range v lower default upper r :
  normalizeValue v lower default upper = Ok r -> -1 <= r /\ r <= 1.
Proof.
  unfold normalizeValue. destruct (Qleb_spec lower default); [|discriminate]. destruct (Qleb_spec default upper); [|discriminate].
  cbn [andb negb].
  set (w := Qmax (Qmin v upper) lower).
  assert (W: lower <= w /\ w <= upper).
  { unfold w, Qmax, Qmin. destruct (Qleb_spec v upper); [destruct (Qleb_spec v lower)|destruct (Qleb_spec upper lower)]; lra. }
  destruct (Qeqb_spec w default); [intros H; apply Ok_inj in H; rewrite <- H; lra|].
  destruct (Qeqb_spec lower upper); [intros H; apply Ok_inj in H; rewrite <- H; lra|]. cbn [orb].
  destruct (Qltb_spec w default); destruct (Qeqb_spec lower default); destruct (Qltb_spec default w); destruct (Qeqb_spec upper default);
    cbn [negb andb orb]; intros H; apply Ok_inj in H; rewrite <- H; try lra.
  all: try (split; [apply Qle_shift_div_l; lra|apply Qle_shift_div_r; lra]).
Qed.

(* ---------- renormalizeValue: the new limits become -1, 0, +1 ---------- *)
Theorem renormalize_limits L : amin L < adef L -> adef L < amax L -> 0 < dneg L -> 0 < dpos L ->
  renormalizeValue L (adef L) == 0 /\ renormalizeValue L (amax L) == 1 /\ renormalizeValue L (amin L) == -1.
Proof.
  intros H1 H2 Hn Hp. unfold renormalizeValue, renorm_pos, lim_reverse_negate. cbn [amin adef amax dneg dpos].
  repeat split.
  - destruct (Qeqb_spec (adef L) (adef L)) as [_|N]; [reflexivity|exfalso; apply N; reflexivity].
  - destruct (Qeqb_spec (amax L) (adef L)); [lra|].
    destruct (Qltb_spec (adef L) 0).
    + destruct (Qltb_spec (- adef L) (- amax L)); [lra|].
      destruct (Qleb_spec 0 (- amax L)).
      * field. lra.
      * destruct (Qleb_spec 0 (- amax L)); [lra|].
        assert (T: ~ dpos L * - - amax L + dneg L * - adef L == 0) by nra. field. exact T.
    + destruct (Qltb_spec (adef L) (amax L)); [|lra]. field. lra.
  - destruct (Qeqb_spec (amin L) (adef L)); [lra|].
    destruct (Qltb_spec (adef L) 0).
    + destruct (Qltb_spec (- adef L) (- amin L)); [|lra]. field. lra.
    + destruct (Qltb_spec (adef L) (amin L)); [lra|].
      destruct (Qleb_spec 0 (amin L)).
      * field. lra.
      * destruct (Qleb_spec 0 (amin L)); [lra|].
        assert (T: ~ dneg L * - amin L + dpos L * adef L == 0) by nra. field. exact T.
Qed.

(* ---------- the triangular delta core ---------- *)
Lemma aux_prefix ms : forall rows acc, exists ext, getDeltas_aux ms rows acc = acc ++ ext.
Proof.
  induction ms as [|m ms IH]; intros rows acc; cbn [getDeltas_aux].
  - exists []. rewrite app_nil_r. reflexivity.
  - destruct rows as [|row rows]; [exists []; rewrite app_nil_r; reflexivity|].
    destruct (IH rows (acc ++ [m - dot row acc])) as [ext E]. rewrite E.
    exists ((m - dot row acc) :: ext). rewrite <- app_assoc. reflexivity.
Qed.

Lemma dot_app_long row : forall acc ext, (length row <= length acc)%nat -> dot row (acc ++ ext) = dot row acc.
Proof.
  induction row as [|x r IH]; intros acc ext H; [reflexivity|].
  destruct acc as [|y acc]; [cbn in H; lia|]. cbn [app dot]. rewrite IH by (cbn in H; lia). reflexivity.
Qed.

(* every stored delta is the master minus the weighted earlier deltas *)
Lemma aux_entry ms : forall rows acc i m row,
  nth_error ms i = Some m -> nth_error rows i = Some row ->
  (forall j r, nth_error rows j = Some r -> length r = (length acc + j)%nat) ->
  let res := getDeltas_aux ms rows acc in
  nth (length acc + i) res 0 = m - dot row res.
Proof.
  induction ms as [|m0 ms IH]; intros rows acc i m row Hm Hr Hlen; [destruct i; discriminate|].
  destruct rows as [|row0 rows]; [destruct i; discriminate|].
  cbn [getDeltas_aux]. cbv zeta.
  destruct i as [|i].
  - cbn in Hm, Hr. apply Some_inj in Hm. apply Some_inj in Hr. subst m0 row0.
    destruct (aux_prefix ms rows (acc ++ [m - dot row acc])) as [ext E]. rewrite E.
    rewrite Nat.add_0_r. rewrite <- app_assoc. rewrite app_nth2 by lia. rewrite Nat.sub_diag. cbn [app nth].
    assert (L: length row = length acc) by (rewrite (Hlen 0%nat row eq_refl); lia).
    rewrite dot_app_long by lia. reflexivity.
  - cbn [nth_error] in Hm, Hr.
    specialize (IH rows (acc ++ [m0 - dot row0 acc]) i m row Hm Hr).
    rewrite app_length in IH. cbn [length] in IH.
    replace (length acc + S i)%nat with (length acc + 1 + i)%nat by lia. apply IH.
    intros j r Hj. rewrite (Hlen (S j) r Hj). lia.
Qed.

Lemma aux_length ms : forall rows acc k m, nth_error ms k = Some m -> (length ms <= length rows)%nat ->
  (length acc + k < length (getDeltas_aux ms rows acc))%nat.
Proof.
  induction ms as [|m0 ms IH]; intros rows acc k m Hm Hn; [destruct k; discriminate|].
  destruct rows as [|row0 rows]; [cbn in Hn; lia|]. cbn [getDeltas_aux].
  destruct k as [|k].
  - destruct (aux_prefix ms rows (acc ++ [m0 - dot row0 acc])) as [ext E]. rewrite E.
    rewrite !app_length. cbn. lia.
  - cbn [nth_error] in Hm. cbn in Hn.
    specialize (IH rows (acc ++ [m0 - dot row0 acc]) k m Hm ltac:(lia)).
    rewrite app_length in IH. cbn [length] in IH. lia.
Qed.

Lemma interpolate_row res : forall row s, (length row < length res)%nat ->
  interpolate res (row ++ [s]) == dot row res + nth (length row) res 0 * s.
Proof.
  induction res as [|d ds IH]; intros row s H; [cbn in H; lia|].
  destruct row as [|w row].
  - cbn [app interpolate length nth dot]. destruct ds; cbn [interpolate]; destruct (Qeqb_spec s 0) as [E|N]; try rewrite E; ring.
  - cbn [app interpolate length nth dot]. rewrite IH by (cbn in H; lia).
    destruct (Qeqb_spec w 0) as [E|N]; [rewrite E|]; ring.
Qed.

(* Interpolating at master k's location — where the scalars are row k of the weights followed by its
   own scalar 1 — returns exactly master k, whatever the weights are.  (That the scalars at a master's
   location ARE its weight row is how _computeDeltaWeights defines the weights; the correspondence
   run checks it on the implementation.) *)
Theorem deltas_reproduce_masters masters weights k m row :
  (forall j r, nth_error weights j = Some r -> length r = j) ->
  length weights = length masters ->
  nth_error masters k = Some m -> nth_error weights k = Some row ->
  interpolate (getDeltas masters weights) (row ++ [1]) == m.
Proof.
  intros Hlen Hn Hm Hr. unfold getDeltas.
  pose proof (aux_entry masters weights [] k m row Hm Hr) as E. cbn [length Nat.add] in E.
  specialize (E Hlen). cbv zeta in E.
  assert (Lr: length row = k) by (apply (Hlen k row Hr)).
  pose proof (aux_length masters weights [] k m Hm ltac:(lia)) as Lres. cbn [length Nat.add] in Lres.
  rewrite interpolate_row by lia. rewrite Lr. rewrite E. ring.
Qed.
