From Coq Require Import QArith List String Bool.
From FV Require Import Base.Ser Base.Res C09.Model.
From FV Require C09.ModelCache.
Import ListNotations.
Open Scope string_scope.
Global Instance De_lim : De lim :=
  fun l => match de l with
           | Some ((((a, b), c), d, e), r) => Some (mkLim a b c d e, r)
           | None => None end.
Definition renorm (L : lim) (v : Q) : Q := Qred (renormalizeValue L v).
Definition interp_at (masters : list Q) (weights : list (list Q)) (scalars : list Q) : list Q * Q :=
  (map Qred (getDeltas masters weights), Qred (interpolate (getDeltas masters weights) scalars)).
Global Instance De_vmop : De ModelCache.op :=
  fun l => match l with
           | k :: r =>
             if (k =? 0)%Z then match de r with Some (x, r') => Some (ModelCache.GetSub x, r') | None => None end
             else match de r with Some (x, r') => Some (ModelCache.Reorder x, r') | None => None end
           | [] => None end.
Definition vm_history (d : Z) (srt org : list Z) (ops : list ModelCache.op) := ModelCache.run_model d srt org ops.
Definition reg : registry := [
  ("normalizeValue", run4 normalizeValue);
  ("tentval", run2 tentval);
  ("supportScalar", run2 supportScalar);
  ("piecewiseLinearMap", run2 piecewiseLinearMap);
  ("renormalizeValue", run2 renorm);
  ("rebaseTent", run2 rebaseTent);
  ("interp_at", run3 interp_at);
  ("vm_history", run4 vm_history)
].
Definition fv_entry := dispatch reg.
