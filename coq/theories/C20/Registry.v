From Coq Require Import ZArith List String Bool.
From FV Require Import Base.Ser Base.Res C20.Model.
Import ListNotations.
Open Scope string_scope.

(* canonical form of a directory for comparison with the implementation's dict: a later entry with
   the same tag replaces an earlier one; order by tag *)
Fixpoint tag_ltb (a b : list Z) : bool :=
  match a, b with
  | [], [] => false
  | [], _ :: _ => true
  | _ :: _, [] => false
  | x :: a', y :: b' => if (x <? y)%Z then true else if (y <? x)%Z then false else tag_ltb a' b'
  end.
Fixpoint dedupe (es : list dirent) : list dirent :=
  match es with
  | [] => []
  | e :: r => if existsb (fun x => list_Z_eqb (d_tag x) (d_tag e)) r then dedupe r else e :: dedupe r
  end.
Fixpoint ins (e : dirent) (l : list dirent) : list dirent :=
  match l with
  | [] => [e]
  | x :: r => if tag_ltb (d_tag e) (d_tag x) then e :: l else x :: ins e r
  end.
Definition canon (es : list dirent) : list dirent := fold_right ins [] (dedupe es).

Definition open_and_load (file : list Z) (fontNumber : Z) : Res (list Z * list (dirent * Res (list Z))) :=
  let* (v, es) := open_sfnt file fontNumber in Ok (v, map (fun e => (e, load_table file e)) (canon es)).
Definition reg : registry := [
  ("open_and_load", run2 open_and_load);
  ("read_ttc_header", run1 read_ttc_header)
].
Definition fv_entry := dispatch reg.
