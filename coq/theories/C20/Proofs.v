(* C20/Proofs.v *)
From Coq Require Import ZArith List Bool Lia Arith.
From FV Require Import Base.Ser Base.Res Base.BE C20.Model.
Import ListNotations.
Open Scope Z_scope.

Definition clean {A} (r : Res A) : Prop := match r with Ok _ => True | Err e => e = LibError end.

Lemma bind_clean {A B} (r : Res A) (f : A -> Res B) :
  clean r -> (forall a, clean (f a)) -> clean (bind r f).
Proof. destruct r as [a|e]; cbn; intros H1 H2; [apply H2|exact H1]. Qed.

Lemma read_entries_clean file n : forall pos, clean (read_entries file pos n).
Proof.
  induction n as [|k IH]; intros pos; cbn [read_entries]; [exact I|].
  destruct (negb (Nat.eqb (length (read_at file pos 16)) 16)); [reflexivity|].
  apply bind_clean; [apply IH|intros; exact I].
Qed.

Lemma read_sfnt_dir_clean file base : clean (read_sfnt_dir file base).
Proof.
  unfold read_sfnt_dir.
  destruct (negb (Nat.eqb (length (read_at file base 12)) 12)); [reflexivity|].
  destruct (negb _); [reflexivity|].
  apply bind_clean; [apply read_entries_clean|intros; exact I].
Qed.

Lemma read_ttc_header_clean file : clean (read_ttc_header file).
Proof.
  unfold read_ttc_header.
  repeat (match goal with |- clean (if ?c then _ else _) => destruct c end; try reflexivity); try exact I.
Qed.

(* Opening any byte string as a plain sfnt or a collection gives a directory or the library's error:
   no struct.error, AssertionError or IndexError can escape. *)
Theorem open_sfnt_clean file fontNumber : clean (open_sfnt file fontNumber).
Proof.
  unfold open_sfnt. destruct (list_Z_eqb (read_at file 0 4) sig_ttcf).
  - apply bind_clean; [apply read_ttc_header_clean|]. intros offs.
    destruct (negb _); [reflexivity|]. destruct (_ <=? _); [reflexivity|apply read_sfnt_dir_clean].
  - apply read_sfnt_dir_clean.
Qed.

Lemma read_at_length file off n : (length (read_at file off n) <= n)%nat.
Proof. unfold read_at. rewrite firstn_length. lia. Qed.

(* A table is returned only if it lies wholly inside the file, and then it is exactly those bytes. *)
Theorem load_table_in_bounds file e data :
  0 <= d_off e -> load_table file e = Ok data ->
  0 <= d_len e /\
  (d_len e = 0 \/ (0 <= d_off e /\ d_off e + d_len e <= Z.of_nat (length file))) /\
  (0 < d_len e -> data = firstn (Z.to_nat (d_len e)) (skipn (Z.to_nat (d_off e)) file)).
Proof.
  intros Hoff. unfold load_table, read_atz. set (len := Z.of_nat (length file)).
  destruct (len <=? d_off e) eqn:E0.
  - cbn [length Z.of_nat]. destruct (negb (0 =? d_len e)) eqn:E; [discriminate|].
    intros H. apply negb_false_iff in E. apply Z.eqb_eq in E. repeat split; try lia.
  - set (data' := read_at file (Z.to_nat (d_off e)) (Z.to_nat (Z.min (d_len e) len))).
    destruct (negb (Z.of_nat (length data') =? d_len e)) eqn:E; [discriminate|].
    intros H. apply Ok_inj in H. subst data. apply negb_false_iff in E. apply Z.eqb_eq in E.
    apply Z.leb_gt in E0.
    assert (L: Z.of_nat (length data') = d_len e) by lia.
    unfold data', read_at in *. rewrite firstn_length, skipn_length in L.
    unfold len in *.
    split; [lia|]. split.
    + destruct (Z.eq_dec (d_len e) 0); [left; assumption|right; lia].
    + intros P. replace (Z.min (d_len e) (Z.of_nat (length file))) with (d_len e) by lia. reflexivity.
Qed.

Theorem load_table_clean file e : clean (load_table file e).
Proof. unfold load_table. destruct (negb _); [reflexivity|exact I]. Qed.

(* ignoreDecompileErrors: a table that cannot be decoded is kept as raw bytes and re-saved unchanged *)
Theorem undecodable_resaved_unchanged (content : Type) (dec : list Z -> Res content)
  (enc : content -> Res (list Z)) raw e :
  dec raw = Err e ->
  exists t, readTable content dec true raw = Ok t /\ compileTable content enc t = Ok raw.
Proof. intros H. unfold readTable. rewrite H. exists (RawTable raw). split; reflexivity. Qed.

Theorem decode_error_propagates_without_flag (content : Type) (dec : list Z -> Res content) raw e :
  dec raw = Err e -> readTable content dec false raw = Err e.
Proof. intros H. unfold readTable. rewrite H. reflexivity. Qed.

(* a save whose compilation fails leaves the file system exactly as it was *)
Theorem failed_save_leaves_destination tables path f e :
  compile_all tables = Err e -> save tables path f = (f, Err e).
Proof. intros H. unfold save. rewrite H. reflexivity. Qed.

Lemma compile_all_fails_if_any tables : forall e, In (Err e) tables -> exists e', compile_all tables = Err e'.
Proof.
  induction tables as [|t r IH]; intros e H; [contradiction|].
  cbn [compile_all]. destruct t as [a|e0]; [|exists e0; reflexivity].
  destruct H as [H|H]; [discriminate|]. destruct (IH e H) as [e' E]. cbn [bind]. rewrite E. exists e'. reflexivity.
Qed.

Theorem any_failing_table_aborts_save tables path f e :
  In (Err e) tables -> fst (save tables path f) = f.
Proof.
  intros H. destruct (compile_all_fails_if_any tables e H) as [e' E].
  rewrite (failed_save_leaves_destination tables path f e' E). reflexivity.
Qed.
