(* C20/Props.v — property theorems only *)
From Coq Require Import ZArith List.
From FV Require Import Base.Ser Base.Res C20.Model C20.Proofs.
Import ListNotations.
Open Scope Z_scope.

(* every byte string opened as sfnt / collection yields a directory or the library's own error *)
Theorem open_sfnt_clean : forall file fontNumber, clean (open_sfnt file fontNumber).
Proof. exact Proofs.open_sfnt_clean. Qed.
Print Assumptions open_sfnt_clean.

Theorem load_table_clean : forall file e, clean (load_table file e).
Proof. exact Proofs.load_table_clean. Qed.
Print Assumptions load_table_clean.

Theorem load_table_in_bounds : forall file e data,
  0 <= d_off e -> load_table file e = Ok data ->
  0 <= d_len e /\
  (d_len e = 0 \/ (0 <= d_off e /\ d_off e + d_len e <= Z.of_nat (length file))) /\
  (0 < d_len e -> data = firstn (Z.to_nat (d_len e)) (skipn (Z.to_nat (d_off e)) file)).
Proof. exact Proofs.load_table_in_bounds. Qed.
Print Assumptions load_table_in_bounds.

Theorem undecodable_resaved_unchanged : forall (content : Type) (dec : list Z -> Res content)
  (enc : content -> Res (list Z)) raw e,
  dec raw = Err e ->
  exists t, readTable content dec true raw = Ok t /\ compileTable content enc t = Ok raw.
Proof. exact Proofs.undecodable_resaved_unchanged. Qed.
Print Assumptions undecodable_resaved_unchanged.

Theorem any_failing_table_aborts_save : forall tables path f e,
  In (Err e) tables -> fst (save tables path f) = f.
Proof. exact Proofs.any_failing_table_aborts_save. Qed.
Print Assumptions any_failing_table_aborts_save.
