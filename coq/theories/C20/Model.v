(* C20/Model.v — outcome classes of the container readers and the fallback / atomic-save state machines.
   Transcribes ttLib/sfnt.py:49-99 (SFNTReader.__init__), 503-546 (DirectoryEntry.fromFile/loadData),
   661-685 (readTTCHeader, after the fix: commit "fix: readTTCHeader raises TTLibError"),
   ttLib/ttFont.py:822-853 (_readTable fallback), 358-400 (save). *)
From Coq Require Import ZArith List Bool.
From FV Require Import Base.Ser Base.Res Base.BE.
Import ListNotations.
Open Scope Z_scope.

(* file.seek(off); file.read(n) on a bytes buffer *)
Definition read_at (file : list Z) (off n : nat) : list Z := firstn n (skipn off file).
(* the same with unbounded Z arguments (directory fields are uint32): never builds a unary number
   larger than the file *)
Definition read_atz (file : list Z) (off n : Z) : list Z :=
  let len := Z.of_nat (length file) in
  if len <=? off then [] else read_at file (Z.to_nat off) (Z.to_nat (Z.min n len)).

Definition be_u (bs : list Z) : Z := fold_left (fun acc b => acc * 256 + b) bs 0.

Record dirent := mkD { d_tag : list Z; d_ck : Z; d_off : Z; d_len : Z }.
Global Instance Ser_dirent : Ser dirent := fun e => ser (d_tag e, (d_ck e, (d_off e, d_len e))).

Definition sig_ttcf := [116; 116; 99; 102].
Definition sig_wOFF := [119; 79; 70; 70].
Definition sig_wOF2 := [119; 79; 70; 50].
Definition v_true := [116; 114; 117; 101].
Definition v_OTTO := [79; 84; 84; 79].
Definition v_0100 := [0; 1; 0; 0].

(* DirectoryEntry.fromFile, numTables times, from position pos *)
Fixpoint read_entries (file : list Z) (pos : nat) (n : nat) : Res (list dirent) :=
  match n with
  | O => Ok []
  | S k =>
    let data := read_at file pos 16 in
    if negb (Nat.eqb (length data) 16) then Err LibError
    else
      let e := mkD (firstn 4 data) (be_u (firstn 4 (skipn 4 data))) (be_u (firstn 4 (skipn 8 data)))
                   (be_u (firstn 4 (skipn 12 data))) in
      let* r := read_entries file (pos + 16) k in Ok (e :: r)
  end.

(* the sfnt directory at [base]: (version, entries) *)
Definition read_sfnt_dir (file : list Z) (base : nat) : Res (list Z * list dirent) :=
  let data := read_at file base 12 in
  if negb (Nat.eqb (length data) 12) then Err LibError
  else
    let version := firstn 4 data in
    let numTables := be_u (firstn 2 (skipn 4 data)) in
    if negb (list_Z_eqb version v_0100 || list_Z_eqb version v_OTTO || list_Z_eqb version v_true) then Err LibError
    else let* es := read_entries file (base + 12) (Z.to_nat numTables) in Ok (version, es).

(* readTTCHeader (fixed): offsets of the member fonts *)
Fixpoint read_offsets (data : list Z) (n : nat) : list Z :=
  match n with
  | O => []
  | S k => be_u (firstn 4 data) :: read_offsets (skipn 4 data) k
  end.

Definition read_ttc_header (file : list Z) : Res (list Z) :=
  let data := read_at file 0 12 in
  if negb (Nat.eqb (length data) 12) then Err LibError
  else if negb (list_Z_eqb (firstn 4 data) sig_ttcf) then Err LibError
  else
    let version := be_u (firstn 4 (skipn 4 data)) in
    let numFonts := be_u (firstn 4 (skipn 8 data)) in
    if negb ((version =? 65536) || (version =? 131072)) then Err LibError
    else
      let tab := read_atz file 12 (numFonts * 4) in
      if negb (Z.of_nat (length tab) =? numFonts * 4) then Err LibError
      else if (version =? 131072) && negb (Nat.eqb (length (read_atz file (12 + numFonts * 4) 12)) 12)
      then Err LibError
      else Ok (read_offsets tab (Z.to_nat numFonts)).

(* SFNTReader(file, fontNumber=...) for plain sfnt and collections *)
Definition open_sfnt (file : list Z) (fontNumber : Z) : Res (list Z * list dirent) :=
  let sig := read_at file 0 4 in
  if list_Z_eqb sig sig_ttcf then
    let* offs := read_ttc_header file in
    if negb ((0 <=? fontNumber) && (fontNumber <? Z.of_nat (length offs))) then Err LibError
    else
      let off := nth (Z.to_nat fontNumber) offs 0 in
      if Z.of_nat (length file) <=? off then Err LibError       (* read(12) at/after EOF is short *)
      else read_sfnt_dir file (Z.to_nat off)
  else read_sfnt_dir file 0.

(* DirectoryEntry.loadData *)
Definition load_table (file : list Z) (e : dirent) : Res (list Z) :=
  let data := read_atz file (d_off e) (d_len e) in
  if negb (Z.of_nat (length data) =? d_len e) then Err LibError else Ok data.

(* ---- ignoreDecompileErrors fallback: a table object is decoded content or the raw bytes *)
Section Fallback.
  Variable content : Type.
  Variable dec : list Z -> Res content.       (* the table class's decompile: any outcome *)
  Variable enc : content -> Res (list Z).
  Inductive tableobj := Decoded (c : content) | RawTable (data : list Z).
  Definition readTable (ignoreErrors : bool) (raw : list Z) : Res tableobj :=
    match dec raw with
    | Ok c => Ok (Decoded c)
    | Err e => if ignoreErrors then Ok (RawTable raw) else Err e
    end.
  Definition compileTable (t : tableobj) : Res (list Z) :=
    match t with Decoded c => enc c | RawTable d => Ok d end.
End Fallback.
Arguments Decoded {content}.
Arguments RawTable {content}.

(* ---- save: compile every table into a buffer, only then touch the destination *)
Section Save.
  Definition fs := list (list Z * list Z).          (* path -> bytes *)
  Fixpoint fs_write (p d : list Z) (f : fs) : fs :=
    match f with
    | [] => [(p, d)]
    | (q, x) :: r => if list_Z_eqb p q then (p, d) :: r else (q, x) :: fs_write p d r
    end.
  Fixpoint compile_all (tables : list (Res (list Z))) : Res (list Z) :=
    match tables with
    | [] => Ok []
    | t :: r => let* a := t in let* b := compile_all r in Ok (a ++ b)
    end.
  Definition save (tables : list (Res (list Z))) (path : list Z) (f : fs) : fs * Res unit :=
    match compile_all tables with
    | Ok bytes => (fs_write path bytes f, Ok tt)
    | Err e => (f, Err e)
    end.
End Save.
