(* C19/ProofsKernVal.v — the UFO 1/2 -> 3 kerning conversion keeps every kerning value: the pair (first, second) of the old
   kerning is found, under the renamed names, with the same value in the new kerning. *)
From Coq Require Import ZArith List Bool Lia.
From FV Require Import Base.Ser Base.Res C18.Model C18.Proofs C19.ModelKerning C19.ProofsKerning.
Import ListNotations.
Open Scope Z_scope.

Lemma eqb_neq a b : list_Z_eqb a b = false <-> a <> b.
Proof. rewrite <- eqb_eq. destruct (list_Z_eqb a b); split; intros; try congruence; tauto. Qed.

Lemma assoc_put_same {A} k (v : A) d : assoc_name k (dict_put k v d) = Some v.
Proof.
  induction d as [|[k' v'] r IH]; cbn [dict_put assoc_name].
  - rewrite (proj2 (eqb_eq k k) eq_refl). reflexivity.
  - destruct (list_Z_eqb k k') eqn:E; cbn [assoc_name]; rewrite E; [reflexivity|exact IH].
Qed.
Lemma assoc_put_other {A} k k2 (v : A) d : k2 <> k -> assoc_name k (dict_put k2 v d) = assoc_name k d.
Proof.
  intros N. induction d as [|[k' v'] r IH]; cbn [dict_put assoc_name].
  - rewrite (proj2 (eqb_neq k k2)) by congruence. reflexivity.
  - destruct (list_Z_eqb k2 k') eqn:E; cbn [assoc_name].
    + apply eqb_eq in E. subst k'. rewrite (proj2 (eqb_neq k k2)) by congruence. reflexivity.
    + destruct (list_Z_eqb k k'); [reflexivity|exact IH].
Qed.
Lemma assoc_in {A} k (v : A) d : assoc_name k d = Some v -> In k (map fst d).
Proof.
  induction d as [|[k' v'] r IH]; cbn [assoc_name map fst]; [discriminate|].
  destruct (list_Z_eqb k k') eqn:E; [apply eqb_eq in E; subst; left; reflexivity|]. intros H. right. apply IH, H.
Qed.

(* building a dict by putting renamed keys one after the other *)
Section FoldPut.
  Context {A B : Type} (f : name -> name) (g : A -> B).
  Definition step (acc : list (name * B)) (kv : name * A) := dict_put (f (fst kv)) (g (snd kv)) acc.

  Lemma fold_untouched : forall l acc key, (forall k, In k (map fst l) -> f k <> key) ->
    assoc_name key (fold_left step l acc) = assoc_name key acc.
  Proof.
    induction l as [|[k a] r IH]; intros acc key H; cbn [fold_left]; [reflexivity|].
    rewrite IH by (intros k' Hk'; apply H; right; exact Hk').
    unfold step. cbn [fst snd]. apply assoc_put_other. apply H. left. reflexivity.
  Qed.
  Lemma fold_put_lookup : forall l acc k v,
    NoDup (map fst l) -> (forall a b, In a (map fst l) -> In b (map fst l) -> f a = f b -> a = b) ->
    assoc_name k l = Some v -> assoc_name (f k) (fold_left step l acc) = Some (g v).
  Proof.
    induction l as [|[k0 a0] r IH]; intros acc k v ND INJ H; [discriminate|].
    cbn [map fst] in ND. apply NoDup_cons_iff in ND. destruct ND as [Hni ND].
    cbn [assoc_name] in H. cbn [fold_left]. unfold step at 2. cbn [fst snd].
    destruct (list_Z_eqb k k0) eqn:E.
    - apply eqb_eq in E. subst k0. injection H as <-.
      rewrite fold_untouched; [apply assoc_put_same|].
      intros k' Hk' Heq. assert (k' = k) by (apply INJ; [right; exact Hk'|left; reflexivity|exact Heq]). subst. contradiction.
    - apply IH; [exact ND| |exact H]. intros a b Ha Hb. apply INJ; right; assumption.
  Qed.
End FoldPut.

(* the new kerning as convert builds it *)
Definition new_kerning (r1 r2 : list (name * name)) (kerning : kerning_t) : kerning_t :=
  fold_left (fun acc row =>
               dict_put (renamed r1 (fst row))
                        (fold_left (fun a kv => dict_put (renamed r2 (fst kv)) (snd kv) a) (snd row) []) acc) kerning [].

Definition injective_on (f : name -> name) (keys : list name) : Prop :=
  forall a b, In a keys -> In b keys -> f a = f b -> a = b.

Theorem kerning_values_kept r1 r2 kerning first row second value :
  NoDup (map fst kerning) -> injective_on (renamed r1) (map fst kerning) ->
  (forall f' row', In (f', row') kerning -> NoDup (map fst row') /\ injective_on (renamed r2) (map fst row')) ->
  assoc_name first kerning = Some row -> assoc_name second row = Some value ->
  exists row', assoc_name (renamed r1 first) (new_kerning r1 r2 kerning) = Some row' /\
               assoc_name (renamed r2 second) row' = Some value.
Proof.
  intros ND INJ Hrows Hf Hs.
  set (inner := fun (row0 : list (name * Z)) => fold_left (fun a kv => dict_put (renamed r2 (fst kv)) (snd kv) a) row0 []).
  exists (inner row). split.
  - unfold new_kerning. apply (fold_put_lookup (renamed r1) inner kerning [] first row ND INJ Hf).
  - assert (Hin : In (first, row) kerning).
    { clear -Hf. induction kerning as [|[k v] r IH]; [discriminate|]. cbn [assoc_name] in Hf.
      destruct (list_Z_eqb first k) eqn:E; [apply eqb_eq in E; subst; injection Hf as <-; left; reflexivity|right; apply IH, Hf]. }
    destruct (Hrows first row Hin) as [ND2 INJ2]. unfold inner.
    apply (fold_put_lookup (renamed r2) (fun z : Z => z) row [] second value ND2 INJ2 Hs).
Qed.

(* the renaming is injective on a key list whose not-renamed members are not among the new names *)
Lemma renamed_injective m keys : NoDup (map fst m) -> NoDup (map snd m) ->
  (forall k, In k keys -> ~ In k (map fst m) -> ~ In k (map snd m)) ->
  injective_on (renamed m) keys.
Proof.
  intros ND1 ND2 Hfresh a b Ha Hb Heq. unfold renamed in Heq.
  assert (Hassoc : forall k v, assoc_name k m = Some v -> In (k, v) m).
  { clear. induction m as [|[k0 v0] r IH]; intros k v H; [discriminate|]. cbn [assoc_name] in H.
    destruct (list_Z_eqb k k0) eqn:E; [apply eqb_eq in E; subst; injection H as <-; left; reflexivity|right; apply IH, H]. }
  assert (Hnone : forall k, assoc_name k m = None -> ~ In k (map fst m)).
  { clear. induction m as [|[k0 v0] r IH]; intros k H; [intros []|]. cbn [assoc_name] in H.
    destruct (list_Z_eqb k k0) eqn:E; [discriminate|]. apply eqb_neq in E. cbn [map fst]. intros [H1|H1]; [congruence|]. exact (IH k H H1). }
  assert (Hsnd_inj : forall k1 k2 v, In (k1, v) m -> In (k2, v) m -> k1 = k2).
  { clear -ND2. induction m as [|[k0 v0] r IH]; intros k1 k2 v H1 H2; [contradiction|].
    cbn [map snd] in ND2. apply NoDup_cons_iff in ND2. destruct ND2 as [Hni ND2].
    destruct H1 as [H1|H1], H2 as [H2|H2].
    - congruence.
    - injection H1 as <- <-. exfalso. apply Hni. apply in_map_iff. exists (k2, v0). auto.
    - injection H2 as <- <-. exfalso. apply Hni. apply in_map_iff. exists (k1, v0). auto.
    - eapply IH; eassumption. }
  destruct (assoc_name a m) as [va|] eqn:Ea, (assoc_name b m) as [vb|] eqn:Eb.
  - subst vb. eapply Hsnd_inj; eauto.
  - subst b. exfalso. apply (Hfresh va Hb (Hnone _ Eb)). apply in_map_iff. exists (a, va). split; [reflexivity|apply Hassoc, Ea].
  - subst a. exfalso. apply (Hfresh vb Ha (Hnone _ Ea)). apply in_map_iff. exists (b, vb). split; [reflexivity|apply Hassoc, Eb].
  - exact Heq.
Qed.

Lemma NoDup_app_parts {A} (a b : list A) : NoDup (a ++ b) -> NoDup a /\ NoDup b.
Proof.
  induction a as [|x a IH]; cbn [app]; intros H; [split; [constructor|exact H]|].
  apply NoDup_cons_iff in H. destruct H as [Hni H]. destruct (IH H) as [Ha Hb]. split; [|exact Hb].
  constructor; [|exact Ha]. intros Hin. apply Hni. apply in_or_app. left. exact Hin.
Qed.

(* put together for convert: values are kept whenever no kerning key that is not itself renamed coincides with a new group name
   (new names are never existing GROUP names -- renamed_groups_distinct; a GLYPH called "public.kern1.x" could still collide) *)
Theorem convert_keeps_values kerning groups glyphSet k g r1 r2 first row second value :
  convert kerning groups glyphSet = Ok (k, g, r1, r2) ->
  NoDup (map fst kerning) -> (forall f' row', In (f', row') kerning -> NoDup (map fst row')) ->
  (forall key, In key (map fst kerning) -> ~ In key (map fst r1) -> ~ In key (map snd r1)) ->
  (forall f' row' key, In (f', row') kerning -> In key (map fst row') -> ~ In key (map fst r2) -> ~ In key (map snd r2)) ->
  assoc_name first kerning = Some row -> assoc_name second row = Some value ->
  exists row', assoc_name (renamed r1 first) k = Some row' /\ assoc_name (renamed r2 second) row' = Some value.
Proof.
  intros HC ND NDr F1 F2 Hf Hs.
  destruct (renamed_groups_distinct _ _ _ _ _ _ _ HC) as [D1 [D2 [D3 D4]]].
  assert (Ek : k = new_kerning r1 r2 kerning).
  { unfold convert in HC.
    destruct (rename_loop MMK_L KERN1 _ _ []) as [a|]; [|discriminate].
    destruct (rename_loop MMK_R KERN2 _ _ []) as [b|]; [|discriminate].
    injection HC as <- _ <- <-. reflexivity. }
  subst k.
  destruct (NoDup_app_parts _ _ D1) as [N1 N2].
  apply (kerning_values_kept r1 r2 kerning first row second value); try assumption.
  - apply renamed_injective; assumption.
  - intros f' row' Hin. split; [eapply NDr; exact Hin|]. apply renamed_injective; try assumption.
    intros key Hk. eapply F2; eassumption.
Qed.

(* with the repaired conversion (new names avoid the kerning keys too) no side condition about names is left: a kerning that is a
   dictionary of dictionaries keeps every value *)
Theorem convert_keeps_every_value kerning groups glyphSet k g r1 r2 first row second value :
  convert kerning groups glyphSet = Ok (k, g, r1, r2) ->
  NoDup (map fst kerning) -> (forall f' row', In (f', row') kerning -> NoDup (map fst row')) ->
  assoc_name first kerning = Some row -> assoc_name second row = Some value ->
  exists row', assoc_name (renamed r1 first) k = Some row' /\ assoc_name (renamed r2 second) row' = Some value.
Proof.
  intros HC ND NDr Hf Hs. destruct (new_names_not_kerning_keys _ _ _ _ _ _ _ HC) as [K1 K2].
  apply (convert_keeps_values kerning groups glyphSet k g r1 r2 first row second value HC ND NDr); try assumption.
  - intros key Hk _ Hin. exact (K1 key Hin Hk).
  - intros f' row' key Hin Hk _ Hin2. apply (K2 key Hin2). apply in_flat_map. exists (f', row'). split; assumption.
Qed.
