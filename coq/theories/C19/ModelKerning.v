(* C19/ModelKerning.v — ufoLib/converters.py: convertUFO1OrUFO2KerningToUFO3Kerning, findKnownKerningGroups, makeUniqueGroupName
   (what UFOReader applies to the kerning and groups of a UFO 1/2 source).  Names are code-point lists; dicts keep insertion order. *)
From Coq Require Import ZArith List Bool.
From FV Require Import Base.Ser Base.Res C18.Model.
Import ListNotations.
Open Scope Z_scope.

Definition name := list Z.
Definition MMK_L : name := [64; 77; 77; 75; 95; 76; 95].      (* "@MMK_L_" *)
Definition MMK_R : name := [64; 77; 77; 75; 95; 82; 95].      (* "@MMK_R_" *)
Definition KERN1 : name := [112; 117; 98; 108; 105; 99; 46; 107; 101; 114; 110; 49; 46].   (* "public.kern1." *)
Definition KERN2 : name := [112; 117; 98; 108; 105; 99; 46; 107; 101; 114; 110; 50; 46].   (* "public.kern2." *)

Fixpoint starts_with (p s : name) : bool :=
  match p, s with
  | [], _ => true
  | a :: p', b :: s' => Z.eqb a b && starts_with p' s'
  | _ :: _, [] => false
  end.
(* s.replace(pat, ""): left to right, non-overlapping; pat is not empty *)
Fixpoint remove_all (fuel : nat) (pat s : name) : name :=
  match fuel with
  | O => s
  | S f => match s with
           | [] => []
           | c :: r => if starts_with pat s then remove_all f pat (skipn (length pat) s) else c :: remove_all f pat r
           end
  end.
Definition str_remove (pat s : name) : name := remove_all (S (length s)) pat s.

Definition memn (n : name) (l : list name) : bool := existsb (list_Z_eqb n) l.

(* makeUniqueGroupName: name, name1, name2, ... until it is not taken *)
Fixpoint unique_name (fuel : nat) (nm : name) (taken : list name) (counter : Z) : option name :=
  match fuel with
  | O => None
  | S f => let cand := if 0 <? counter then nm ++ repr counter else nm in
           if memn cand taken then unique_name f nm taken (counter + 1) else Some cand
  end.

(* sorted(set): lexicographic by code point, without repetitions *)
Fixpoint name_ltb (a b : name) : bool :=
  match a, b with
  | [], [] => false
  | [], _ :: _ => true
  | _ :: _, [] => false
  | x :: a', y :: b' => (x <? y) || ((x =? y) && name_ltb a' b')
  end.
Fixpoint insert_name (n : name) (l : list name) : list name :=
  match l with
  | [] => [n]
  | m :: r => if name_ltb n m then n :: l else m :: insert_name n r
  end.
Fixpoint dedupe (l : list name) : list name :=
  match l with [] => [] | n :: r => if memn n r then dedupe r else n :: dedupe r end.
Definition sort_names (l : list name) : list name := fold_right insert_name [] (dedupe l).

Definition groups_t := list (name * list name).
Definition kerning_t := list (name * list (name * Z)).

(* the groups used on one side: those with the UFO1 prefix, and those named on that side of a kerning pair *)
Definition referenced (old_prefix new_prefix : name) (groups : groups_t) (glyphSet : list name) (side_names : list name) : list name :=
  let known := filter (starts_with old_prefix) (map fst groups) in
  let used := filter (fun n => memn n (map fst groups) && negb (memn n glyphSet) && negb (starts_with new_prefix n)) side_names in
  sort_names (known ++ used).

(* the renaming loop of one side; None = out of fuel (never: there are more candidates than names) *)
(* group_names: every existing group name followed by every kerning key of this side (existingGroupNames) *)
Fixpoint rename_loop (old_prefix new_prefix : name) (group_names : list name) (todo : list name) (done : list (name * name))
  : option (list (name * name)) :=
  match todo with
  | [] => Some done
  | g :: r =>
    let taken := group_names ++ map snd done in
    match unique_name (S (length taken)) (new_prefix ++ str_remove old_prefix g) taken 0 with
    | None => None
    | Some n => rename_loop old_prefix new_prefix group_names r (done ++ [(g, n)])
    end
  end.

Fixpoint assoc_name {A} (n : name) (d : list (name * A)) : option A :=
  match d with [] => None | (k, v) :: r => if list_Z_eqb n k then Some v else assoc_name n r end.
Fixpoint dict_put {A} (k : name) (v : A) (d : list (name * A)) : list (name * A) :=
  match d with [] => [(k, v)] | (k', v') :: r => if list_Z_eqb k k' then (k', v) :: r else (k', v') :: dict_put k v r end.
Definition renamed (m : list (name * name)) (n : name) : name := match assoc_name n m with Some n' => n' | None => n end.

Definition convert (kerning : kerning_t) (groups : groups_t) (glyphSet : list name)
  : Res (kerning_t * groups_t * list (name * name) * list (name * name)) :=
  let firsts := map fst kerning in
  let seconds := flat_map (fun row => map fst (snd row)) kerning in
  let gnames := map fst groups in
  match rename_loop MMK_L KERN1 (gnames ++ firsts) (referenced MMK_L KERN1 groups glyphSet firsts) [],
        rename_loop MMK_R KERN2 (gnames ++ seconds) (referenced MMK_R KERN2 groups glyphSet seconds) [] with
  | Some r1, Some r2 =>
    let newKerning := fold_left (fun acc row =>
                        dict_put (renamed r1 (fst row))
                                 (fold_left (fun a kv => dict_put (renamed r2 (fst kv)) (snd kv) a) (snd row) []) acc) kerning [] in
    let newGroups := fold_left (fun g on => match assoc_name (fst on) groups with Some mem => dict_put (snd on) mem g | None => g end) (r1 ++ r2) groups in
    Ok (newKerning, newGroups, r1, r2)
  | _, _ => Err OutOfFuel
  end.
