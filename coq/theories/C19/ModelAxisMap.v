(* C19/ModelAxisMap.v — an axis's user -> design mapping and its inverse.
   designspaceLib/__init__.py: AbstractAxisDescriptor.get_validated_map (943-966),
   AxisDescriptor.map_forward (1058-1065) and map_backward (1067-1088);
   varLib/models.py: piecewiseLinearMap (modelled literally in C09/Model.v, reused here). *)
From Coq Require Import QArith List Bool.
From FV Require Import Base.Ser Base.Res Geom.QTools C09.Model.
Import ListNotations.
Open Scope Q_scope.

(* get_validated_map: exact duplicates collapse, one input with two outputs is an error; the order of first
   occurrence is kept (a dict) *)
Fixpoint validate_aux (m acc : list (Q * Q)) : Res (list (Q * Q)) :=
  match m with
  | [] => Ok acc
  | (k, x) :: r =>
    match find_key k acc with
    | Some x' => if Qeqb x' x then validate_aux r acc else Err ValueError
    | None => validate_aux r (acc ++ [(k, x)])
    end
  end.
Definition get_validated_map (m : list (Q * Q)) : Res (list (Q * Q)) := validate_aux m [].

(* map_forward on a validated map *)
Definition map_forward (m : list (Q * Q)) (v : Q) : Q :=
  match m with [] => v | _ => piecewiseLinearMap v m end.

(* sorted((design, user) for user, design in axis_map): tuples compare lexicographically *)
Definition swap (p : Q * Q) : Q * Q := (snd p, fst p).
Definition lexle (p q : Q * Q) : bool :=
  Qltb (fst p) (fst q) || (Qeqb (fst p) (fst q) && Qleb (snd p) (snd q)).
Fixpoint insert (p : Q * Q) (l : list (Q * Q)) : list (Q * Q) :=
  match l with
  | [] => [p]
  | q :: r => if lexle p q then p :: q :: r else q :: insert p r
  end.
Fixpoint isort (l : list (Q * Q)) : list (Q * Q) :=
  match l with [] => [] | p :: r => insert p (isort r) end.

(* the loop over consecutive pairs, then the extrapolation above the last node *)
Fixpoint bwd_walk (l : list (Q * Q)) (v : Q) : Q :=
  match l with
  | [] => v
  | (d1, u1) :: tl =>
    match tl with
    | [] => v + u1 - d1
    | (d2, u2) :: _ =>
      if Qleb d1 v && Qleb v d2 then
        (if Qeqb d1 d2 then u1 else u1 + (u2 - u1) * (v - d1) / (d2 - d1))
      else bwd_walk tl v
    end
  end.

Definition map_backward (m : list (Q * Q)) (v : Q) : Q :=
  match isort (map swap m) with
  | [] => v
  | ((d0, u0) :: _) as B => if Qleb v d0 then v + u0 - d0 else bwd_walk B v
  end.

(* the two public entry points, on the map as the user wrote it *)
Definition axis_map_forward (m : list (Q * Q)) (v : Q) : Res Q :=
  match get_validated_map m with Ok m' => Ok (map_forward m' v) | Err e => Err e end.
Definition axis_map_backward (m : list (Q * Q)) (v : Q) : Res Q :=
  match get_validated_map m with Ok m' => Ok (map_backward m' v) | Err e => Err e end.
