(* C19/Model.v — userNameToFileName / handleClash1 (ufoLib/filenames.py:115-262 and the copy in
   misc/filenames.py:33-200), parameterised by the module's own illegal/reserved tables, which are
   regenerated from the source into Data/Data_filenames.v on every run. *)
From Coq Require Import ZArith List Bool.
From FV Require Import Base.Ser Base.Res Data.Data_filenames.
Import ListNotations.
Open Scope Z_scope.

Record cfg := mkCfg { illegal : list Z; reserved : list (list Z); maxlen : Z }.
Definition cfg_ufo := mkCfg illegal_ufo reserved_ufo maxlen_ufo.
Definition cfg_misc := mkCfg illegal_misc reserved_misc maxlen_misc.

(* str.lower() for code points < 256 (ASCII and Latin-1 capitals); larger code points are outside
   the model's domain *)
Definition lower_c (c : Z) : Z :=
  if ((65 <=? c) && (c <=? 90)) || ((192 <=? c) && (c <=? 214)) || ((216 <=? c) && (c <=? 222))
  then c + 32 else c.
Definition lower (s : list Z) : list Z := map lower_c s.

Definition memz (c : Z) (l : list Z) : bool := existsb (Z.eqb c) l.
Definition mems (s : list Z) (l : list (list Z)) : bool := existsb (list_Z_eqb s) l.

Definition filter_char (cf : cfg) (c : Z) : list Z :=
  if memz c (illegal cf) then [95]
  else if negb (c =? lower_c c) then [c; 95]
  else [c].

(* Python s[:k] *)
Definition slice_to (s : list Z) (k : Z) : list Z :=
  if 0 <=? k then firstn (Z.to_nat k) s
  else firstn (Z.to_nat (Z.max 0 (Z.of_nat (length s) + k))) s.

Fixpoint split_dot (s : list Z) : list (list Z) :=
  match s with
  | [] => [[]]
  | c :: r =>
    if c =? 46 then [] :: split_dot r
    else match split_dot r with
         | p :: ps => (c :: p) :: ps
         | [] => [[c]]
         end
  end.
Fixpoint join_dot (ps : list (list Z)) : list Z :=
  match ps with
  | [] => []
  | [p] => p
  | p :: r => p ++ 46 :: join_dot r
  end.

Definition fix_part (cf : cfg) (p : list Z) : list Z :=
  if mems (lower p) (reserved cf) then 95 :: p else p.

Definition digits15 : list Z := [14; 13; 12; 11; 10; 9; 8; 7; 6; 5; 4; 3; 2; 1; 0].
Definition zfill15 (c : Z) : list Z := map (fun i => 48 + (c / 10 ^ i) mod 10) digits15.

Fixpoint clash1_loop (fuel : nat) (counter : Z) (userName prefix suffix : list Z)
         (existing : list (list Z)) : Res (list Z) :=
  match fuel with
  | O => Err OutOfFuel
  | S f =>
    let full := prefix ++ (userName ++ zfill15 counter) ++ suffix in
    if negb (mems (lower full) existing) then Ok full
    else clash1_loop f (counter + 1) userName prefix suffix existing
  end.

Definition handleClash1 (cf : cfg) (userName : list Z) (existing : list (list Z)) (prefix suffix : list Z)
  : Res (list Z) :=
  let pl := Z.of_nat (length prefix) in
  let sl := Z.of_nat (length suffix) in
  let l := pl + Z.of_nat (length userName) + sl + 15 in
  let userName := if maxlen cf <? l then slice_to userName (maxlen cf - l) else userName in
  clash1_loop (S (length existing)) 1 userName prefix suffix existing.

Definition userNameToFileName (cf : cfg) (userName : list Z) (existing : list (list Z))
           (prefix suffix : list Z) : Res (list Z) :=
  let pl := Z.of_nat (length prefix) in
  let sl := Z.of_nat (length suffix) in
  match userName with
  | [] => match prefix with [] => Err IndexError | _ => 
            let fullName := prefix ++ [] ++ suffix in
            if mems (lower fullName) existing then handleClash1 cf [] existing prefix suffix else Ok fullName
          end
  | c0 :: rest =>
    let userName := match prefix with [] => if c0 =? 46 then 95 :: rest else userName | _ => userName end in
    let userName := flat_map (filter_char cf) userName in
    let userName := slice_to userName (maxlen cf - pl - sl) in
    let userName := join_dot (map (fix_part cf) (split_dot userName)) in
    let fullName := prefix ++ userName ++ suffix in
    if mems (lower fullName) existing then handleClash1 cf userName existing prefix suffix
    else Ok fullName
  end.

(* a whole sequence of names written one after the other (the way GlyphSet/LayerSet use it):
   existing accumulates the lower-cased results *)
Fixpoint name_sequence (cf : cfg) (names : list (list Z)) (existing : list (list Z)) (prefix suffix : list Z)
  : Res (list (list Z)) :=
  match names with
  | [] => Ok []
  | n :: r =>
    let* f := userNameToFileName cf n existing prefix suffix in
    let* fs := name_sequence cf r (lower f :: existing) prefix suffix in
    Ok (f :: fs)
  end.
